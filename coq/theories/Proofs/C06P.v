(* C06: a container program (Model/Container.v, crun) and its element-by-element version with
   individual Records (erun) compute the same values and, for every output element and every
   input element, the same reverse-mode derivative - although their tapes are laid out
   differently.  Both runs are related to one reference: forward (dual-number) tangents for a
   seed on one input element; sweep_is_tangent (Proofs/TapeP.v) turns the tangents into the
   adjoints that Record::try_derivatives computes, on each tape.  Over any commutative ring. *)
From Coq Require Import List Arith Bool Lia Ring ZArith.
From EasyML Require Import Base.Sx Model.Num Model.Tape Model.Container Proofs.TapeP.
Import ListNotations.

Section C06.
Context {R : Type} (ops : numops R).
Hypothesis Rth : ring_theory (nzero ops) (none_ ops) (nadd ops) (nmul ops) (nsub ops) (nneg ops) (@eq R).
Add Ring Rring6 : Rth.
Notation rO := (nzero ops).
Notation rI := (none_ ops).
Notation "x [+] y" := (nadd ops x y) (at level 50, left associativity).
Notation "x [*] y" := (nmul ops x y) (at level 40, left associativity).
Notation tape := (tape R).
Notation rec := (rec R).
Notation cont := (cont R).
Notation econt := (econt R).

Definition sd_of (s : list R) (j : nat) : R := nth j s rO.
Definition tan (t : tape) (s : list R) : list R := tangents ops t (sd_of s) [].

(* ------------------------------------------------------------------ tapes with ghost seeds *)
Definition good (t : tape) (s : list R) : Prop := length s = length t /\ wf_from ops 0 t.

Definition dual : Type := (R * R)%type.

(* a record is explained by a dual number: same value; its tape position carries the tangent;
   a constant has tangent 0 *)
Definition rec_ok (t : tape) (s : list R) (r : rec) (d : dual) : Prop :=
  r_num r = fst d /\
  match r_hist r with
  | None => snd d = rO
  | Some _ => r_idx r < length t /\ nth (r_idx r) (tan t s) rO = snd d
  end.

Definition ext (t : tape) (s : list R) (t' : tape) (s' : list R) : Prop :=
  (exists n, s' = s ++ repeat rO n) /\ good t' s' /\
  (forall r d, rec_ok t s r d -> rec_ok t' s' r d).

Lemma ext_refl t s : good t s -> ext t s t s.
Proof. intros G. split; [exists 0; cbn; rewrite app_nil_r; reflexivity|]. split; auto. Qed.

Lemma ext_trans t s t1 s1 t2 s2 : ext t s t1 s1 -> ext t1 s1 t2 s2 -> ext t s t2 s2.
Proof.
  intros [[n1 E1] [_ M1]] [[n2 E2] [G2 M2]]. split.
  - exists (n1 + n2). rewrite E2, E1, <- app_assoc, repeat_app. reflexivity.
  - split; auto.
Qed.

Lemma tangents_ext (t : tape) s s' acc :
  (forall j, j < length acc + length t -> s j = s' j) ->
  tangents ops t s acc = tangents ops t s' acc.
Proof.
  revert acc; induction t as [|e t IH]; intros acc H; cbn [tangents]; [reflexivity|].
  rewrite (H (length acc)) by (cbn; lia).
  apply IH. intros j Hj. apply H. rewrite app_length in Hj. cbn in *. lia.
Qed.

Lemma tan_push t s e sd : length s = length t ->
  tan (t ++ [e]) (s ++ [sd]) =
  tan t s ++ [sd [+] lw e [*] nth (lp e) (tan t s) rO [+] rw e [*] nth (rp e) (tan t s) rO].
Proof.
  intros Hlen. unfold tan. rewrite (tangents_app ops). cbv zeta.
  assert (E : tangents ops t (sd_of (s ++ [sd])) [] = tangents ops t (sd_of s) []).
  { apply tangents_ext. intros j Hj. cbn in Hj. unfold sd_of. rewrite app_nth1 by lia. reflexivity. }
  rewrite E. f_equal. f_equal. f_equal. f_equal.
  rewrite (tangents_length ops). cbn. unfold sd_of.
  rewrite app_nth2 by lia. rewrite Hlen, Nat.sub_diag. reflexivity.
Qed.

Lemma tan_length t s : length (tan t s) = length t.
Proof. unfold tan. rewrite (tangents_length ops). reflexivity. Qed.

(* one appended entry *)
Lemma push_entry t s e sd : good t s -> wf_entry ops (length t) e ->
  good (t ++ [e]) (s ++ [sd]) /\
  (forall r d, rec_ok t s r d -> rec_ok (t ++ [e]) (s ++ [sd]) r d) /\
  nth (length t) (tan (t ++ [e]) (s ++ [sd])) rO =
    sd [+] lw e [*] nth (lp e) (tan t s) rO [+] rw e [*] nth (rp e) (tan t s) rO.
Proof.
  intros [Hl Hw] He. split; [|split].
  - split; [rewrite !app_length; cbn; lia|]. apply (wf_from_app ops). split; auto.
  - intros r d [Hv Ht]. split; [exact Hv|]. destruct (r_hist r); [|exact Ht].
    destruct Ht as [Hp Hd]. split; [rewrite app_length; cbn; lia|].
    rewrite tan_push by exact Hl. rewrite app_nth1 by (rewrite tan_length; exact Hp). exact Hd.
  - rewrite tan_push by exact Hl. rewrite app_nth2 by (rewrite tan_length; lia).
    rewrite tan_length, Nat.sub_diag. reflexivity.
Qed.

Lemma push_zero t s e : good t s -> wf_entry ops (length t) e ->
  ext t s (t ++ [e]) (s ++ [rO]) /\
  nth (length t) (tan (t ++ [e]) (s ++ [rO])) rO =
    lw e [*] nth (lp e) (tan t s) rO [+] rw e [*] nth (rp e) (tan t s) rO.
Proof.
  intros G He. destruct (push_entry t s e rO G He) as [G' [M T]]. split.
  - split; [exists 1; reflexivity|]. split; auto.
  - rewrite T. ring.
Qed.

(* ------------------------------------------------------------------ reference duals *)
Definition du (f : unfn R) (d : dual) : dual := (uf f (fst d), udx f (fst d) [*] snd d).
Definition db (f : binfn R) (d1 d2 : dual) : dual :=
  (bf f (fst d1) (fst d2),
   bdx f (fst d1) (fst d2) [*] snd d1 [+] bdy f (fst d1) (fst d2) [*] snd d2).

(* ------------------------------------------------------------------ scalar record operations *)
Lemma rec_unary_ok t s f x d t' y : good t s -> rec_ok t s x d ->
  rec_unary ops t f x = (t', y) ->
  exists s', ext t s t' s' /\ rec_ok t' s' y (du f d).
Proof.
  intros G [Hv Ht]. unfold rec_unary. destruct (r_hist x) as [h|] eqn:Eh.
  - destruct Ht as [Hp Hd]. cbn [append_unary]. intros E. inversion E; subst t' y; clear E.
    set (e := mkEntry (r_idx x) (length t) (udx f (r_num x)) rO).
    assert (He : wf_entry ops (length t) e) by (unfold wf_entry; cbn; repeat split; auto; lia).
    destruct (push_zero t s e G He) as [X T]. exists (s ++ [rO]). split; [exact X|].
    split; [cbn; rewrite Hv; reflexivity|]. cbn [r_hist r_idx]. split; [rewrite app_length; cbn; lia|].
    rewrite T. subst e. unfold db, du. cbn [fst snd lw rw lp rp]. rewrite Hd, Hv. cbn. ring.
  - intros E. inversion E; subst t' y; clear E. exists s. split; [apply ext_refl; exact G|].
    split; [cbn; rewrite Hv; reflexivity|]. unfold du. cbn [fst snd r_hist]. rewrite Ht. ring.
Qed.

Lemma rec_binary_ok t s f x y dx dy t' z : good t s -> rec_ok t s x dx -> rec_ok t s y dy ->
  rec_binary ops t f x y = Ok (t', z) ->
  exists s', ext t s t' s' /\ rec_ok t' s' z (db f dx dy).
Proof.
  intros G [Hvx Htx] [Hvy Hty]. unfold rec_binary.
  destruct (negb (same_list (r_hist x) (r_hist y))); [discriminate|].
  destruct (r_hist x) as [hx|] eqn:Ex, (r_hist y) as [hy|] eqn:Ey.
  - destruct Htx as [Hpx Hdx], Hty as [Hpy Hdy]. cbn [append_binary]. intros E. inversion E; subst t' z; clear E.
    set (e := mkEntry (r_idx x) (r_idx y) (bdx f (r_num x) (r_num y)) (bdy f (r_num x) (r_num y))).
    assert (He : wf_entry ops (length t) e) by (unfold wf_entry; cbn; repeat split; intros; lia).
    destruct (push_zero t s e G He) as [X T]. exists (s ++ [rO]). split; [exact X|].
    split; [cbn; rewrite Hvx, Hvy; reflexivity|]. cbn [r_hist r_idx]. split; [rewrite app_length; cbn; lia|].
    rewrite T. subst e. unfold db, du. cbn [fst snd lw rw lp rp]. rewrite Hdx, Hdy, Hvx, Hvy. ring.
  - destruct Htx as [Hpx Hdx]. cbn [append_unary]. intros E. inversion E; subst t' z; clear E.
    set (e := mkEntry (r_idx x) (length t) (bdx f (r_num x) (r_num y)) rO).
    assert (He : wf_entry ops (length t) e) by (unfold wf_entry; cbn; repeat split; auto; lia).
    destruct (push_zero t s e G He) as [X T]. exists (s ++ [rO]). split; [exact X|].
    split; [cbn; rewrite Hvx, Hvy; reflexivity|]. cbn [r_hist r_idx]. split; [rewrite app_length; cbn; lia|].
    rewrite T. subst e. unfold db, du. cbn [fst snd lw rw lp rp]. rewrite Hdx, Hty, Hvx, Hvy. cbn. ring.
  - destruct Hty as [Hpy Hdy]. cbn [append_unary]. intros E. inversion E; subst t' z; clear E.
    set (e := mkEntry (r_idx y) (length t) (bdy f (r_num x) (r_num y)) rO).
    assert (He : wf_entry ops (length t) e) by (unfold wf_entry; cbn; repeat split; auto; lia).
    destruct (push_zero t s e G He) as [X T]. exists (s ++ [rO]). split; [exact X|].
    split; [cbn; rewrite Hvx, Hvy; reflexivity|]. cbn [r_hist r_idx]. split; [rewrite app_length; cbn; lia|].
    rewrite T. subst e. unfold db, du. cbn [fst snd lw rw lp rp]. rewrite Hdy, Htx, Hvx, Hvy. cbn. ring.
  - intros E. inversion E; subst t' z; clear E. exists s. split; [apply ext_refl; exact G|].
    split; [cbn; rewrite Hvx, Hvy; reflexivity|]. unfold db. cbn [fst snd r_hist]. rewrite Htx, Hty. ring.
Qed.

Lemma rec_constant_ok t s c : rec_ok t s (rec_constant c) (c, rO).
Proof. split; reflexivity. Qed.


Lemma rec_ok_eq t s r d d' : rec_ok t s r d -> fst d = fst d' -> snd d = snd d' -> rec_ok t s r d'.
Proof. intros [Hv Ht] E1 E2. unfold rec_ok. rewrite <- E1, <- E2. split; assumption. Qed.

(* Neg on a variable is computed as Record::constant(0) - x *)
Lemma rec_neg_ok t s x d t' y : good t s -> rec_ok t s x d ->
  rec_neg ops t x = Ok (t', y) ->
  exists s', ext t s t' s' /\ rec_ok t' s' y (du (Negation ops) d).
Proof.
  intros G Hx. unfold rec_neg. destruct (r_hist x) as [h|] eqn:Eh.
  - intros E. destruct (rec_binary_ok t s (Subtraction ops) (rec_constant rO) x (rO, rO) d t' y G
                          (rec_constant_ok t s rO) Hx E) as [s' [X Hy]].
    exists s'. split; [exact X|]. eapply rec_ok_eq; [exact Hy| |]; unfold db, du; cbn; ring.
  - intros E. inversion E; subst t' y; clear E. exists s. split; [apply ext_refl; exact G|].
    destruct Hx as [Hv Ht]. rewrite Eh in Ht. split; [cbn; rewrite Hv; reflexivity|].
    unfold du. cbn [fst snd r_hist]. rewrite Ht. ring.
Qed.

Definition code_fn (code : nat) (c : R) : option (unfn R) := unfn_of ops code c.

Lemma rec_unary_code_ok t s code c f x d t' y : good t s -> rec_ok t s x d ->
  unfn_of ops code c = Some f ->
  rec_unary_code ops t code c x = Some (Ok (t', y)) ->
  exists s', ext t s t' s' /\ rec_ok t' s' y (du f d).
Proof.
  intros G Hx Hf. unfold rec_unary_code. destruct code as [|code].
  - cbn in Hf. inversion Hf; subst f. intros E. inversion E as [E']. eapply rec_neg_ok; eauto.
  - rewrite Hf. intros E. inversion E as [E']. eapply rec_unary_ok; eauto.
Qed.

(* ------------------------------------------------------------------ lists of records *)
Definition recs_ok (t : tape) (s : list R) (rs : list rec) (ds : list dual) : Prop :=
  Forall2 (rec_ok t s) rs ds.

Lemma recs_ok_ext t s t' s' rs ds : ext t s t' s' -> recs_ok t s rs ds -> recs_ok t' s' rs ds.
Proof.
  intros [_ [_ M]] H. induction H; constructor; auto.
Qed.

Definition db2 (f : binfn R) (dxs dys : list dual) : list dual :=
  map (fun p => db f (fst p) (snd p)) (combine dxs dys).

Lemma each_binary_ok f : forall xs dxs ys dys t s t' zs, good t s ->
  recs_ok t s xs dxs -> recs_ok t s ys dys ->
  each_binary ops t f xs ys = Ok (t', zs) ->
  exists s', ext t s t' s' /\ recs_ok t' s' zs (db2 f dxs dys).
Proof.
  induction xs as [|x xr IH]; intros dxs ys dys t s t' zs G Hx Hy.
  - cbn. intros E. inversion E; subst. exists s. split; [apply ext_refl; auto|].
    inversion Hx; subst. constructor.
  - inversion Hx as [|? dx ? dxr Hx1 Hxr]; subst. destruct ys as [|y yr].
    + cbn. intros E. inversion E; subst. exists s. split; [apply ext_refl; auto|].
      inversion Hy; subst. constructor.
    + inversion Hy as [|? dy ? dyr Hy1 Hyr]; subst. cbn [each_binary].
      destruct (rec_binary ops t f x y) as [[t1 z]| |] eqn:E1; try discriminate.
      destruct (rec_binary_ok t s f x y dx dy t1 z G Hx1 Hy1 E1) as [s1 [X1 Hz]].
      destruct (each_binary ops t1 f xr yr) as [[t2 zr]| |] eqn:E2; try discriminate.
      intros E. inversion E; subst t' zs; clear E.
      destruct (IH dxr yr dyr t1 s1 t2 zr (proj1 (proj2 X1)) (recs_ok_ext _ _ _ _ _ _ X1 Hxr)
                   (recs_ok_ext _ _ _ _ _ _ X1 Hyr) E2) as [s2 [X2 Hzr]].
      exists s2. split; [eapply ext_trans; eauto|].
      constructor; [|exact Hzr]. destruct X2 as [_ [_ M]]. apply M. exact Hz.
Qed.

Lemma each_unary_ok code c f : unfn_of ops code c = Some f ->
  forall rs ds t s t' ys, good t s -> recs_ok t s rs ds ->
  each_unary ops t code c rs = Some (Ok (t', ys)) ->
  exists s', ext t s t' s' /\ recs_ok t' s' ys (map (du f) ds).
Proof.
  intros Hf. induction rs as [|r rest IH]; intros ds t s t' ys G Hr.
  - cbn. intros E. inversion E; subst. exists s. split; [apply ext_refl; auto|].
    inversion Hr; subst. constructor.
  - inversion Hr as [|? d ? dr Hr1 Hrr]; subst. cbn [each_unary].
    destruct (rec_unary_code ops t code c r) as [[[t1 y]| |]|] eqn:E1; try discriminate.
    destruct (rec_unary_code_ok t s code c f r d t1 y G Hr1 Hf E1) as [s1 [X1 Hy]].
    destruct (each_unary ops t1 code c rest) as [[[t2 yr]| |]|] eqn:E2; try discriminate.
    intros E. inversion E; subst t' ys; clear E.
    destruct (IH dr t1 s1 t2 yr (proj1 (proj2 X1)) (recs_ok_ext _ _ _ _ _ _ X1 Hrr) E2) as [s2 [X2 Hyr]].
    exists s2. split; [eapply ext_trans; eauto|].
    cbn [map]. constructor; [|exact Hyr]. destruct X2 as [_ [_ M]]. apply M. exact Hy.
Qed.

(* ------------------------------------------------------------------ the batch helpers *)
Notation mk h := (fun p : R * nat => mkRec (fst p) h (snd p)).

Lemma as_records_mk (x : cont) : as_records x = map (mk (c_hist x)) (c_data x).
Proof. reflexivity. Qed.

Fixpoint thread_un (t : tape) (f : unfn R) (rs : list rec) : tape * list rec :=
  match rs with
  | [] => (t, [])
  | r :: rest =>
      let '(t1, y) := rec_unary ops t f r in
      let '(t2, ys) := thread_un t1 f rest in (t2, y :: ys)
  end.

Lemma thread_un_ok f : forall rs ds t s t' ys, good t s -> recs_ok t s rs ds ->
  thread_un t f rs = (t', ys) ->
  exists s', ext t s t' s' /\ recs_ok t' s' ys (map (du f) ds).
Proof.
  induction rs as [|r rest IH]; intros ds t s t' ys G Hr.
  - cbn. intros E. inversion E; subst. exists s. split; [apply ext_refl; auto|].
    inversion Hr; subst. constructor.
  - inversion Hr as [|? d ? dr Hr1 Hrr]; subst. cbn [thread_un].
    destruct (rec_unary ops t f r) as [t1 y] eqn:E1.
    destruct (rec_unary_ok t s f r d t1 y G Hr1 E1) as [s1 [X1 Hy]].
    destruct (thread_un t1 f rest) as [t2 yr] eqn:E2.
    intros E. inversion E; subst t' ys; clear E.
    destruct (IH dr t1 s1 t2 yr (proj1 (proj2 X1)) (recs_ok_ext _ _ _ _ _ _ X1 Hrr) E2) as [s2 [X2 Hyr]].
    exists s2. split; [eapply ext_trans; eauto|].
    cbn [map]. constructor; [|exact Hyr]. destruct X2 as [_ [_ M]]. apply M. exact Hy.
Qed.

Lemma unary_loop_eq h f : forall records t,
  thread_un t f (map (mk (Some h)) records) =
  let '(t', ys) := unary_loop ops t f records in (t', map (mk (Some h)) ys).
Proof.
  induction records as [|[x p] r IH]; intros t; cbn; [reflexivity|].
  rewrite IH. destruct (unary_loop ops _ f r). reflexivity.
Qed.

Lemma both_loop_eq h f : forall xs ys t,
  each_binary ops t f (map (mk (Some h)) xs) (map (mk (Some h)) ys) =
  let '(t', zs) := binary_both_loop t f xs ys in Ok (t', map (mk (Some h)) zs).
Proof.
  induction xs as [|[x p1] xr IH]; intros [|[y p2] yr] t; cbn; try reflexivity.
  unfold rec_binary. cbn. rewrite Nat.eqb_refl. cbn. rewrite IH. destruct (binary_both_loop _ f xr yr). reflexivity.
Qed.

Lemma x_loop_eq h f : forall xs ys t,
  each_binary ops t f (map (mk (Some h)) xs) (map (mk None) ys) =
  let '(t', zs) := binary_x_loop ops t f xs ys in Ok (t', map (mk (Some h)) zs).
Proof.
  induction xs as [|[x p1] xr IH]; intros [|[y p2] yr] t; cbn; try reflexivity.
  unfold rec_binary. cbn. rewrite IH. destruct (binary_x_loop ops _ f xr yr). reflexivity.
Qed.

Lemma y_loop_eq h f : forall xs ys t,
  each_binary ops t f (map (mk None) xs) (map (mk (Some h)) ys) =
  let '(t', zs) := binary_y_loop ops t f xs ys in Ok (t', map (mk (Some h)) zs).
Proof.
  induction xs as [|[x p1] xr IH]; intros [|[y p2] yr] t; cbn; try reflexivity.
  unfold rec_binary. cbn. rewrite IH. destruct (binary_y_loop ops _ f xr yr). reflexivity.
Qed.

Lemma none_loop_eq f : forall xs ys t,
  each_binary ops t f (map (mk None) xs) (map (mk None) ys) =
  Ok (t, map (mk None) (map (fun p => (bf f (fst (fst p)) (fst (snd p)), 0)) (combine xs ys))).
Proof.
  induction xs as [|[x p1] xr IH]; intros [|[y p2] yr] t; cbn; try reflexivity.
  unfold rec_binary. cbn. rewrite IH. reflexivity.
Qed.


(* ------------------------------------------------------------------ container operations *)
Definition cont_ok (t : tape) (s : list R) (c : cont) (ds : list dual) : Prop :=
  recs_ok t s (as_records c) ds.

Lemma c_unary_ok t s assign f x ds t' y : good t s -> cont_ok t s x ds ->
  c_unary ops t assign f x = (t', y) ->
  exists s', ext t s t' s' /\ cont_ok t' s' y (map (du f) ds) /\
             c_tensor y = c_tensor x /\ c_shape y = c_shape x.
Proof.
  intros G Hx. unfold c_unary, cont_ok in *. rewrite as_records_mk in Hx.
  destruct (c_hist x) as [h|] eqn:Eh.
  - destruct (unary_loop ops t f (c_data x)) as [t1 ys] eqn:El. intros E. inversion E; subst t' y; clear E.
    pose proof (unary_loop_eq h f (c_data x) t) as Q. rewrite El in Q.
    destruct (thread_un_ok f _ _ t s t1 _ G Hx Q) as [s' [X Hy]].
    exists s'. split; [exact X|]. split; [|split; reflexivity]. exact Hy.
  - intros E. inversion E; subst t' y; clear E. exists s. split; [apply ext_refl; exact G|].
    split; [|split; reflexivity]. rewrite as_records_mk. cbn [c_data c_hist].
    revert ds Hx. induction (c_data x) as [|p r IH]; intros ds Hx; inversion Hx; subst; cbn [map]; constructor.
    + destruct H1 as [Hv Ht]. cbn in Hv, Ht. split; [cbn; rewrite Hv; reflexivity|].
      unfold du. cbn [fst snd r_hist]. rewrite Ht. ring.
    + apply IH. assumption.
Qed.

Lemma c_binary_ok t s f x y dxs dys t' z : good t s -> cont_ok t s x dxs -> cont_ok t s y dys ->
  c_binary ops t f x y = Ok (t', z) ->
  exists s', ext t s t' s' /\ cont_ok t' s' z (db2 f dxs dys) /\
             c_tensor z = c_tensor x /\ c_shape z = c_shape x.
Proof.
  intros G Hx Hy. unfold c_binary, cont_ok in *. rewrite as_records_mk in Hx, Hy.
  destruct (negb (shape_eqb (c_tensor x) (c_shape x) (c_shape y))); [discriminate|].
  destruct (c_hist x) as [h|] eqn:Ehx, (c_hist y) as [h2|] eqn:Ehy.
  - destruct (Nat.eqb_spec h h2) as [<-|Hne]; cbn [negb]; [|discriminate].
    destruct (binary_both_loop t f (c_data x) (c_data y)) as [t1 zs] eqn:El.
    intros E. inversion E; subst t' z; clear E.
    pose proof (both_loop_eq h f (c_data x) (c_data y) t) as Q. rewrite El in Q.
    destruct (each_binary_ok f _ _ _ _ t s t1 _ G Hx Hy Q) as [s' [X Hz]].
    exists s'. split; [exact X|]. split; [|split; reflexivity]. exact Hz.
  - destruct (binary_x_loop ops t f (c_data x) (c_data y)) as [t1 zs] eqn:El.
    intros E. inversion E; subst t' z; clear E.
    pose proof (x_loop_eq h f (c_data x) (c_data y) t) as Q. rewrite El in Q.
    destruct (each_binary_ok f _ _ _ _ t s t1 _ G Hx Hy Q) as [s' [X Hz]].
    exists s'. split; [exact X|]. split; [|split; reflexivity]. exact Hz.
  - destruct (binary_y_loop ops t f (c_data x) (c_data y)) as [t1 zs] eqn:El.
    intros E. inversion E; subst t' z; clear E.
    pose proof (y_loop_eq h2 f (c_data x) (c_data y) t) as Q. rewrite El in Q.
    destruct (each_binary_ok f _ _ _ _ t s t1 _ G Hx Hy Q) as [s' [X Hz]].
    exists s'. split; [exact X|]. split; [|split; reflexivity]. exact Hz.
  - intros E. inversion E; subst t' z; clear E.
    pose proof (none_loop_eq f (c_data x) (c_data y) t) as Q.
    destruct (each_binary_ok f _ _ _ _ t s t _ G Hx Hy Q) as [s' [X Hz]].
    exists s'. split; [exact X|]. split; [|split; reflexivity]. exact Hz.
Qed.

Lemma db_swap f d1 d2 : db (swap_binfn f) d2 d1 = db f d1 d2.
Proof. unfold db, swap_binfn. cbn. f_equal. ring. Qed.

Lemma db2_swap f : forall dxs dys, db2 (swap_binfn f) dys dxs = db2 f dxs dys.
Proof.
  unfold db2. induction dxs as [|dx dxr IH]; intros [|dy dyr]; cbn; try reflexivity.
  rewrite db_swap, IH. reflexivity.
Qed.


(* ------------------------------------------------------------------ declarations *)
Lemma vars_c_ok h : forall data vals t s, good t s -> length vals = length data ->
  let t' := append_nullary_repeating ops t (length data) in
  good t' (s ++ vals) /\
  (forall r d, rec_ok t s r d -> rec_ok t' (s ++ vals) r d) /\
  recs_ok t' (s ++ vals) (map (mk (Some h)) (combine data (seq (length t) (length data)))) (combine data vals).
Proof.
  induction data as [|x dr IH]; intros vals t s G Hl; destruct vals as [|v vr]; try discriminate; cbn zeta.
  - cbn. rewrite app_nil_r. split; [exact G|]. split; [auto|constructor].
  - cbn [length append_nullary_repeating append_nullary fst seq combine map].
    set (e := mkEntry (length t) (length t) rO rO).
    assert (He : wf_entry ops (length t) e) by (unfold wf_entry; cbn; repeat split; auto).
    destruct (push_entry t s e v G He) as [G1 [M1 T1]].
    assert (Hl' : length vr = length dr) by (cbn in Hl; lia).
    destruct (IH vr (t ++ [e]) (s ++ [v]) G1 Hl') as [G2 [M2 F2]].
    rewrite <- app_assoc in G2, M2, F2. cbn [app] in G2, M2, F2.
    split; [exact G2|]. split; [intros r d Hr; apply M2, M1, Hr|].
    constructor.
    + apply M2. split; [reflexivity|]. cbn [r_hist r_idx fst snd].
      split; [rewrite app_length; cbn; lia|]. rewrite T1. subst e. cbn. ring.
    + replace (S (length t)) with (length (t ++ [e])) by (rewrite app_length; cbn; lia). exact F2.
Qed.

Fixpoint vars_e (t : tape) (data : list R) : tape * list rec :=
  match data with
  | [] => (t, [])
  | x :: r => let '(t1, rc) := rec_variable ops t 0 x in
              let '(t2, rs) := vars_e t1 r in (t2, rc :: rs)
  end.

Lemma fold_vars_e : forall data t acc,
  fold_left (fun acc x => let '(t1, r) := rec_variable ops (fst acc) 0 x in (t1, snd acc ++ [r])) data (t, acc) =
  let '(t', rs) := vars_e t data in (t', acc ++ rs).
Proof.
  induction data as [|x dr IH]; intros t acc; cbn [fold_left vars_e].
  - rewrite app_nil_r. reflexivity.
  - cbn [fst snd]. destruct (rec_variable ops t 0 x) as [t1 rc]. rewrite IH.
    destruct (vars_e t1 dr) as [t2 rs]. rewrite <- app_assoc. reflexivity.
Qed.

Lemma vars_e_ok : forall data vals t s t' rs, good t s -> length vals = length data ->
  vars_e t data = (t', rs) ->
  good t' (s ++ vals) /\
  (forall r d, rec_ok t s r d -> rec_ok t' (s ++ vals) r d) /\
  recs_ok t' (s ++ vals) rs (combine data vals).
Proof.
  induction data as [|x dr IH]; intros vals t s t' rs G Hl; destruct vals as [|v vr]; try discriminate.
  - cbn. intros E. inversion E; subst. rewrite app_nil_r. split; [exact G|]. split; [auto|constructor].
  - cbn [vars_e rec_variable append_nullary].
    set (e := mkEntry (length t) (length t) rO rO).
    assert (He : wf_entry ops (length t) e) by (unfold wf_entry; cbn; repeat split; auto).
    destruct (push_entry t s e v G He) as [G1 [M1 T1]].
    assert (Hl' : length vr = length dr) by (cbn in Hl; lia).
    destruct (vars_e (t ++ [e]) dr) as [t2 rr] eqn:E2. intros E. inversion E; subst t' rs; clear E.
    destruct (IH vr (t ++ [e]) (s ++ [v]) t2 rr G1 Hl' E2) as [G2 [M2 F2]].
    rewrite <- app_assoc in G2, M2, F2. cbn [app] in G2, M2, F2.
    split; [exact G2|]. split; [intros r d Hr; apply M2, M1, Hr|].
    cbn [combine]. constructor; [|exact F2].
    apply M2. split; [reflexivity|]. cbn [r_hist r_idx fst snd].
    split; [rewrite app_length; cbn; lia|]. rewrite T1. subst e. cbn. ring.
Qed.

(* ------------------------------------------------------------------ the seed vectors *)
Definition seg (j n : nat) : list R := map (fun i => if Nat.eqb i j then rI else rO) (seq 0 n).
Definition seeds_of (len : nat) (tgt : option nat) : list R :=
  match tgt with Some p => onehot ops len p | None => repeat rO len end.

Lemma map_seq_const (f : nat -> R) a n : (forall i, a <= i < a + n -> f i = rO) -> map f (seq a n) = repeat rO n.
Proof.
  revert a; induction n; intros a H; cbn; [reflexivity|].
  rewrite H by lia. rewrite IHn by (intros; apply H; lia). reflexivity.
Qed.

Lemma seeds_of_zeros len tgt n : (forall p, tgt = Some p -> p < len) ->
  seeds_of len tgt ++ repeat rO n = seeds_of (len + n) tgt.
Proof.
  intros H. destruct tgt as [p|]; cbn [seeds_of].
  - unfold onehot. rewrite seq_app, map_app. f_equal. cbn [plus].
    symmetry. apply map_seq_const. intros i Hi. specialize (H p eq_refl).
    destruct (Nat.eqb_spec i p); [lia|reflexivity].
  - rewrite repeat_app. reflexivity.
Qed.

Lemma map_seq_shift (f : nat -> R) a n : map f (seq a n) = map (fun i => f (a + i)) (seq 0 n).
Proof.
  revert a; induction n; intros a; cbn [seq map]; [reflexivity|].
  rewrite Nat.add_0_r. f_equal. rewrite IHn. rewrite <- seq_shift, map_map.
  apply map_ext. intros i. f_equal. lia.
Qed.

Lemma seeds_of_seg len j n : j < n ->
  seeds_of len None ++ seg j n = seeds_of (len + n) (Some (len + j)).
Proof.
  intros Hj. cbn [seeds_of]. unfold onehot, seg. rewrite seq_app, map_app. f_equal.
  - symmetry. apply map_seq_const. intros i Hi. destruct (Nat.eqb_spec i (len + j)); [lia|reflexivity].
  - cbn [plus]. rewrite (map_seq_shift _ len). apply map_ext. intros i.
    destruct (Nat.eqb_spec i j), (Nat.eqb_spec (len + i) (len + j)); try reflexivity; lia.
Qed.

Lemma seg_length j n : length (seg j n) = n.
Proof. unfold seg. rewrite map_length, seq_length. reflexivity. Qed.

Lemma seeds_of_length len tgt : length (seeds_of len tgt) = len.
Proof. destruct tgt; cbn; [apply onehot_length|apply repeat_length]. Qed.


(* ------------------------------------------------------------------ the simulation invariant *)
Definition S_ (t : tape) (tgt : option nat) : list R := seeds_of (length t) tgt.
Definition eok (t : tape) (s : list R) (e : econt) (ds : list dual) : Prop := recs_ok t s (e_recs e) ds.
Definition link (c : cont) (e : econt) : Prop := c_tensor c = e_tensor e /\ c_shape c = e_shape e.

Definition Seeded (x j : nat) (cenv : list cont) (eenv : list econt) (ctgt etgt : option nat) : Prop :=
  exists c e p q, nth_error cenv x = Some c /\ nth_error eenv x = Some e /\
    nth_error (map snd (c_data c)) j = Some p /\ nth_error (map (@r_idx R) (e_recs e)) j = Some q /\
    ctgt = Some p /\ etgt = Some q.

Definition Inv (x j : nat) (ct : tape) (cenv : list cont) (et : tape) (eenv : list econt)
           (ctgt etgt : option nat) (fenv : list (list dual)) : Prop :=
  good ct (S_ ct ctgt) /\ Forall2 (cont_ok ct (S_ ct ctgt)) cenv fenv /\ (forall p, ctgt = Some p -> p < length ct) /\
  good et (S_ et etgt) /\ Forall2 (eok et (S_ et etgt)) eenv fenv /\ (forall q, etgt = Some q -> q < length et) /\
  Forall2 link cenv eenv /\
  (length cenv <= x -> ctgt = None /\ etgt = None) /\
  (x < length cenv -> (ctgt = None /\ etgt = None) \/ Seeded x j cenv eenv ctgt etgt).

Lemma ext_seeds t tgt t' s' : (forall p, tgt = Some p -> p < length t) ->
  ext t (S_ t tgt) t' s' -> s' = S_ t' tgt /\ length t <= length t'.
Proof.
  intros Hb [[n En] [[Hl _] _]]. subst s'. unfold S_ in *.
  rewrite app_length, seeds_of_length, repeat_length in Hl.
  rewrite seeds_of_zeros by exact Hb. rewrite Hl. split; [reflexivity|lia].
Qed.

Lemma Seeded_app x j cenv eenv cs es ctgt etgt :
  Seeded x j cenv eenv ctgt etgt -> Seeded x j (cenv ++ cs) (eenv ++ es) ctgt etgt.
Proof.
  intros (c & e & p & q & H1 & H2 & H3). exists c, e, p, q.
  split; [rewrite nth_error_app1; [exact H1|apply nth_error_Some; congruence]|].
  split; [rewrite nth_error_app1; [exact H2|apply nth_error_Some; congruence]|]. exact H3.
Qed.

Lemma Inv_push x j ct cenv et eenv ctgt etgt fenv ct' et' s1 s2 ctgt' etgt' cs es fs :
  Inv x j ct cenv et eenv ctgt etgt fenv ->
  good ct' s1 -> (forall r d, rec_ok ct (S_ ct ctgt) r d -> rec_ok ct' s1 r d) ->
  good et' s2 -> (forall r d, rec_ok et (S_ et etgt) r d -> rec_ok et' s2 r d) ->
  s1 = S_ ct' ctgt' -> s2 = S_ et' etgt' ->
  (forall p, ctgt' = Some p -> p < length ct') -> (forall q, etgt' = Some q -> q < length et') ->
  Forall2 (cont_ok ct' s1) cs fs -> Forall2 (eok et' s2) es fs -> Forall2 link cs es ->
  (length (cenv ++ cs) <= x -> ctgt' = None /\ etgt' = None) ->
  (x < length (cenv ++ cs) -> (ctgt' = None /\ etgt' = None) \/ Seeded x j (cenv ++ cs) (eenv ++ es) ctgt' etgt') ->
  Inv x j ct' (cenv ++ cs) et' (eenv ++ es) ctgt' etgt' (fenv ++ fs).
Proof.
  intros (G1 & F1 & B1 & G2 & F2 & B2 & L & _ & _) G1' M1 G2' M2 E1 E2 B1' B2' N1 N2 NL X1 X2.
  subst s1 s2. unfold Inv. repeat split; auto; try apply G1'; try apply G2'.
  - apply Forall2_app; [|exact N1]. clear -F1 M1. induction F1; constructor; auto.
    unfold cont_ok, recs_ok in *. clear -H M1. induction H; constructor; auto.
  - apply Forall2_app; [|exact N2]. clear -F2 M2. induction F2; constructor; auto.
    unfold eok, recs_ok in *. clear -H M2. induction H; constructor; auto.
  - apply Forall2_app; assumption.
  - apply X1. assumption.
  - apply X1. assumption.
Qed.

(* an operation that leaves the seeded element alone (everything but the declaration of x) *)
Lemma Inv_op x j ct cenv et eenv ctgt etgt fenv ct' et' s1 s2 cs es fs :
  Inv x j ct cenv et eenv ctgt etgt fenv ->
  ext ct (S_ ct ctgt) ct' s1 -> ext et (S_ et etgt) et' s2 ->
  Forall2 (cont_ok ct' s1) cs fs -> Forall2 (eok et' s2) es fs -> Forall2 link cs es ->
  Inv x j ct' (cenv ++ cs) et' (eenv ++ es) ctgt etgt (fenv ++ fs).
Proof.
  intros I X1 X2 N1 N2 NL. pose proof I as (G1 & F1 & B1 & G2 & F2 & B2 & L & Z1 & Z2).
  destruct (ext_seeds ct ctgt ct' s1 B1 X1) as [E1 L1]. destruct (ext_seeds et etgt et' s2 B2 X2) as [E2 L2].
  eapply Inv_push; eauto; try (apply X1); try (apply X2).
  - intros p Hp. specialize (B1 p Hp). lia.
  - intros q Hq. specialize (B2 q Hq). lia.
  - rewrite app_length. intros H. apply Z1. lia.
  - rewrite app_length. intros H. destruct (Nat.lt_ge_cases x (length cenv)) as [Hlt|Hge].
    + destruct (Z2 Hlt) as [Hn|Hs]; [left; exact Hn|right; apply Seeded_app; exact Hs].
    + left. apply Z1. exact Hge.
Qed.


Lemma Forall2_nth_error {A B} (P : A -> B -> Prop) l1 l2 k a :
  Forall2 P l1 l2 -> nth_error l1 k = Some a -> exists b, nth_error l2 k = Some b /\ P a b.
Proof.
  intros H. revert k. induction H; intros [|k]; cbn; try discriminate.
  - intros E. inversion E; subst. eauto.
  - apply IHForall2.
Qed.

(* operands of an operation, on both sides, explained by the same duals *)
Lemma Inv_get x j ct cenv et eenv ctgt etgt fenv a c :
  Inv x j ct cenv et eenv ctgt etgt fenv -> nth_error cenv a = Some c ->
  exists e ds, nth_error eenv a = Some e /\ cont_ok ct (S_ ct ctgt) c ds /\ eok et (S_ et etgt) e ds /\ link c e.
Proof.
  intros (_ & F1 & _ & _ & F2 & _ & L & _) Hc.
  destruct (Forall2_nth_error _ _ _ _ _ F1 Hc) as [ds [Hds Hok]].
  destruct (Forall2_nth_error _ _ _ _ _ L Hc) as [e [He Hl]].
  exists e, ds. repeat split; try assumption; try apply Hl.
  assert (F2' : Forall2 (fun ds e => eok et (S_ et etgt) e ds) fenv eenv).
  { clear -F2. induction F2; constructor; auto. }
  destruct (Forall2_nth_error _ _ _ _ _ F2' Hds) as [e' [He' Hok']]. congruence.
Qed.

Definition Iop (x j : nat) (st : tape * list cont) (est : tape * list econt) (tg : option nat * option nat)
           (fenv : list (list dual)) : Prop :=
  Inv x j (fst st) (snd st) (fst est) (snd est) (fst tg) (snd tg) fenv.

(* ---- unary kinds *)
Lemma sim_unary x j ct cenv et eenv ctgt etgt fenv assign code c a ct' cs et' es :
  Inv x j ct cenv et eenv ctgt etgt fenv ->
  cstep ops (ct, cenv) (OUnary assign code c a) = Some (Ok (ct', cs)) ->
  estep ops (et, eenv) (OUnary assign code c a) = Some (Ok (et', es)) ->
  exists fs, Inv x j ct' (cenv ++ cs) et' (eenv ++ es) ctgt etgt (fenv ++ fs).
Proof.
  intros I. cbn [cstep estep].
  destruct (nth_error cenv a) as [cx|] eqn:Ea; [|discriminate].
  destruct (Inv_get _ _ _ _ _ _ _ _ _ _ _ I Ea) as (ex & ds & Ee & Hc & He & Hl). rewrite Ee.
  destruct (unfn_of ops code c) as [f|] eqn:Ef; [|discriminate].
  destruct (c_unary ops ct assign f cx) as [t1 y] eqn:Ec. intros E; inversion E; subst ct' cs; clear E.
  destruct (each_unary ops et code c (e_recs ex)) as [[[t2 ys]| |]|] eqn:Eu; try discriminate.
  cbn. intros E; inversion E; subst et' es; clear E.
  pose proof I as (G1 & _ & _ & G2 & _).
  destruct (c_unary_ok _ _ _ _ _ _ _ _ G1 Hc Ec) as (s1 & X1 & Hy & Ht & Hs).
  destruct (each_unary_ok code c f Ef _ _ _ _ _ _ G2 He Eu) as (s2 & X2 & Hys).
  exists [map (du f) ds]. apply (Inv_op _ _ _ _ _ _ _ _ _ _ _ s1 s2 _ _ _ I X1 X2).
  - constructor; [exact Hy|constructor].
  - constructor; [exact Hys|constructor].
  - constructor; [|constructor]. destruct Hl as [L1 L2]. split; cbn; congruence.
Qed.

(* ---- binary kinds, all four invocation modes *)
Lemma sim_binary x j ct cenv et eenv ctgt etgt fenv mode code a b ct' cs et' es :
  Inv x j ct cenv et eenv ctgt etgt fenv ->
  cstep ops (ct, cenv) (OBinary mode code a b) = Some (Ok (ct', cs)) ->
  estep ops (et, eenv) (OBinary mode code a b) = Some (Ok (et', es)) ->
  exists fs, Inv x j ct' (cenv ++ cs) et' (eenv ++ es) ctgt etgt (fenv ++ fs).
Proof.
  intros I. cbn [cstep estep].
  destruct (nth_error cenv a) as [cx|] eqn:Ea; [|discriminate].
  destruct (nth_error cenv b) as [cy|] eqn:Eb; [|discriminate].
  destruct (Inv_get _ _ _ _ _ _ _ _ _ _ _ I Ea) as (ex & dxs & Eea & Hcx & Hex & Hlx). rewrite Eea.
  destruct (Inv_get _ _ _ _ _ _ _ _ _ _ _ I Eb) as (ey & dys & Eeb & Hcy & Hey & Hly). rewrite Eeb.
  destruct (binfn_of ops code) as [f|] eqn:Ef; [|discriminate].
  destruct (Bool.eqb (c_tensor cx) (c_tensor cy)) eqn:Etf; cbn [negb]; [|discriminate].
  apply Bool.eqb_prop in Etf.
  destruct (negb (Bool.eqb (e_tensor ex) (e_tensor ey))); [discriminate|].
  destruct (Nat.eqb mode 0 && Nat.ltb 1 code); [discriminate|].
  destruct (c_binop ops ct mode f cx cy) as [[[t1 z]| |]|] eqn:Ec; try discriminate.
  cbn [omap fst snd]. intros E; inversion E; subst ct' cs; clear E.
  destruct (Nat.ltb 3 mode); [discriminate|].
  destruct (negb (shape_eqb (e_tensor ex) (e_shape ex) (e_shape ey))); [discriminate|].
  destruct (each_binary ops et f (e_recs ex) (e_recs ey)) as [[t2 zs]| |] eqn:Eu; try discriminate.
  cbn [omap fst snd]. intros E; inversion E; subst et' es; clear E.
  pose proof I as (G1 & _ & _ & G2 & _).
  destruct (each_binary_ok f _ _ _ _ _ _ _ _ G2 Hex Hey Eu) as (s2 & X2 & Hzs).
  assert (HC : exists s1, ext ct (S_ ct ctgt) t1 s1 /\ cont_ok t1 s1 z (db2 f dxs dys) /\
                 c_tensor z = e_tensor ex /\
                 c_shape z = (if Nat.eqb mode 3 then e_shape ey else e_shape ex)).
  { destruct Hlx as [Lx1 Lx2], Hly as [Ly1 Ly2]. unfold c_binop in Ec.
    destruct mode as [|[|[|[|m]]]]; try discriminate; cbn [Nat.eqb].
    - destruct (negb (same_list (c_hist cx) (c_hist cy))); [discriminate Ec|]. inversion Ec as [Ec'].
      destruct (c_binary_ok _ _ _ _ _ _ _ _ _ G1 Hcx Hcy Ec') as (s1 & X1 & Hz & Ht & Hs).
      exists s1. split; [exact X1|split; [exact Hz|split; congruence]].
    - inversion Ec as [Ec'].
      destruct (c_binary_ok _ _ _ _ _ _ _ _ _ G1 Hcx Hcy Ec') as (s1 & X1 & Hz & Ht & Hs).
      exists s1. split; [exact X1|split; [exact Hz|split; congruence]].
    - inversion Ec as [Ec'].
      destruct (c_binary_ok _ _ _ _ _ _ _ _ _ G1 Hcx Hcy Ec') as (s1 & X1 & Hz & Ht & Hs).
      exists s1. split; [exact X1|split; [exact Hz|split; congruence]].
    - inversion Ec as [Ec'].
      destruct (c_binary_ok _ _ _ _ _ _ _ _ _ G1 Hcy Hcx Ec') as (s1 & X1 & Hz & Ht & Hs).
      rewrite db2_swap in Hz. exists s1. split; [exact X1|split; [exact Hz|split; congruence]]. }
  destruct HC as (s1 & X1 & Hz & Ht & Hs).
  exists [db2 f dxs dys]. apply (Inv_op _ _ _ _ _ _ _ _ _ _ _ s1 s2 _ _ _ I X1 X2).
  - constructor; [exact Hz|constructor].
  - constructor; [exact Hzs|constructor].
  - constructor; [|constructor]. split; cbn; assumption.
Qed.


(* ---- declarations *)
Lemma shape_valid_elements sh n : shape_valid sh n = true -> elements sh = n.
Proof.
  unfold shape_valid. intros H. apply andb_true_iff in H as [_ H]. apply Nat.eqb_eq. exact H.
Qed.

Lemma map_snd_combine {A B} : forall (l1 : list A) (l2 : list B), length l1 = length l2 -> map snd (combine l1 l2) = l2.
Proof.
  induction l1 as [|a l1 IH]; intros [|b l2] H; cbn in *; try discriminate; try reflexivity.
  f_equal. apply IH. lia.
Qed.

Lemma nth_error_seq a n j : j < n -> nth_error (seq a n) j = Some (a + j).
Proof.
  revert a j; induction n; intros a j H; [lia|]. destruct j; cbn.
  - f_equal. lia.
  - rewrite IHn by lia. f_equal. lia.
Qed.

Lemma vars_e_idx : forall data t t' rs, vars_e t data = (t', rs) -> map (@r_idx R) rs = seq (length t) (length data).
Proof.
  induction data as [|x dr IH]; intros t t' rs; cbn [vars_e rec_variable append_nullary].
  - intros E. inversion E. reflexivity.
  - destruct (vars_e (t ++ [_]) dr) as [t2 rr] eqn:E2. intros E. inversion E; subst.
    cbn. f_equal. rewrite (IH _ _ _ E2). rewrite app_length. cbn. f_equal. lia.
Qed.

Lemma Forall2_len {A B} (P : A -> B -> Prop) l1 l2 : Forall2 P l1 l2 -> length l1 = length l2.
Proof. induction 1; cbn; congruence. Qed.

Lemma sim_decl x j ct cenv et eenv ctgt etgt fenv tensor var sh data ct' cs et' es :
  Inv x j ct cenv et eenv ctgt etgt fenv ->
  cstep ops (ct, cenv) (ODecl tensor var sh data) = Some (Ok (ct', cs)) ->
  estep ops (et, eenv) (ODecl tensor var sh data) = Some (Ok (et', es)) ->
  exists fs ctgt' etgt', Inv x j ct' (cenv ++ cs) et' (eenv ++ es) ctgt' etgt' (fenv ++ fs) /\
    (Seeded x j cenv eenv ctgt etgt -> ctgt' = ctgt /\ etgt' = etgt) /\
    (var = true -> length cenv = x -> j < length data -> Seeded x j (cenv ++ cs) (eenv ++ es) ctgt' etgt').
Proof.
  intros I. cbn [cstep estep].
  destruct (negb (shape_valid sh (length data)) || negb (tensor || Nat.eqb (length sh) 2)) eqn:Ev; [discriminate|].
  apply orb_false_iff in Ev as [Ev _]. apply negb_false_iff in Ev. apply shape_valid_elements in Ev.
  pose proof I as (G1 & F1 & B1 & G2 & F2 & B2 & L & Z1 & Z2).
  destruct var.
  - (* variables *)
    unfold c_variables. rewrite Ev. intros E; inversion E; subst ct' cs; clear E.
    rewrite fold_vars_e. destruct (vars_e et data) as [t2 rs] eqn:Ee. cbn [app].
    intros E; inversion E; subst et' es; clear E.
    set (n := length data) in *.
    assert (NS : (length cenv <> x \/ n <= j) ->
      exists fs ctgt' etgt', Inv x j (append_nullary_repeating ops ct n)
           (cenv ++ [mkCont tensor sh (combine data (incrementing_indexes (length ct) n)) (Some 0)])
           t2 (eenv ++ [mkECont tensor sh rs]) ctgt' etgt' (fenv ++ fs) /\
        (Seeded x j cenv eenv ctgt etgt -> ctgt' = ctgt /\ etgt' = etgt) /\
        (true = true -> length cenv = x -> j < n ->
         Seeded x j (cenv ++ [mkCont tensor sh (combine data (incrementing_indexes (length ct) n)) (Some 0)])
           (eenv ++ [mkECont tensor sh rs]) ctgt' etgt')).
    { intros Hns.
      assert (Hl : length (repeat rO n) = length data) by apply repeat_length.
      destruct (vars_c_ok 0 data (repeat rO n) ct (S_ ct ctgt) G1 Hl) as (G1' & M1 & N1).
      destruct (vars_e_ok data (repeat rO n) et (S_ et etgt) t2 rs G2 Hl Ee) as (G2' & M2 & N2).
      fold n in G1', M1, N1.
      exists [combine data (repeat rO n)], ctgt, etgt. split; [|split; [auto|intros; lia]].
      apply (Inv_op _ _ _ _ _ _ _ _ _ _ _ _ _ _ _ _ I
               (conj (ex_intro _ n eq_refl) (conj G1' M1)) (conj (ex_intro _ n eq_refl) (conj G2' M2))).
      - constructor; [|constructor]. exact N1.
      - constructor; [|constructor]. exact N2.
      - constructor; [|constructor]. split; reflexivity. }
    destruct (Nat.eq_dec (length cenv) x) as [Hx|Hx]; [destruct (Nat.lt_ge_cases j n) as [Hj|Hj]|].
    + (* the seeded declaration *)
      destruct (Z1 ltac:(lia)) as [-> ->].
      assert (Hl : length (seg j n) = length data) by apply seg_length.
      destruct (vars_c_ok 0 data (seg j n) ct (S_ ct None) G1 Hl) as (G1' & M1 & N1).
      destruct (vars_e_ok data (seg j n) et (S_ et None) t2 rs G2 Hl Ee) as (G2' & M2 & N2).
      fold n in G1', M1, N1.
      assert (L1 : length (append_nullary_repeating ops ct n) = length ct + n).
      { destruct G1' as [Q _]. rewrite app_length, Hl in Q. unfold S_ in Q. rewrite seeds_of_length in Q. lia. }
      assert (L2 : length t2 = length et + n).
      { destruct G2' as [Q _]. rewrite app_length, Hl in Q. unfold S_ in Q. rewrite seeds_of_length in Q. lia. }
      exists [combine data (seg j n)], (Some (length ct + j)), (Some (length et + j)).
      assert (SD : Seeded x j (cenv ++ [mkCont tensor sh (combine data (incrementing_indexes (length ct) n)) (Some 0)])
                     (eenv ++ [mkECont tensor sh rs]) (Some (length ct + j)) (Some (length et + j))).
      { eexists _, _, (length ct + j), (length et + j).
        split; [rewrite nth_error_app2 by lia; rewrite <- Hx, Nat.sub_diag; reflexivity|].
        split; [rewrite nth_error_app2 by (rewrite <- (Forall2_len _ _ _ L); lia);
                rewrite <- (Forall2_len _ _ _ L), <- Hx, Nat.sub_diag; reflexivity|].
        cbn [c_data e_recs]. unfold incrementing_indexes.
        rewrite map_snd_combine by (rewrite seq_length; reflexivity).
        rewrite (vars_e_idx _ _ _ _ Ee). fold n. rewrite !nth_error_seq by exact Hj. auto. }
      split; [|split; [intros (c0 & e0 & p0 & q0 & Hc0 & _);
                        assert (x < length cenv) by (apply nth_error_Some; congruence); lia|intros _ _ _; exact SD]].
      eapply (Inv_push x j ct cenv et eenv None None fenv _ t2 (S_ ct None ++ seg j n) (S_ et None ++ seg j n));
        try eassumption.
      * unfold S_. rewrite L1. apply seeds_of_seg. exact Hj.
      * unfold S_. rewrite L2. apply seeds_of_seg. exact Hj.
      * intros p Hp. inversion Hp. lia.
      * intros q Hq. inversion Hq. lia.
      * constructor; [|constructor]. exact N1.
      * constructor; [|constructor]. exact N2.
      * constructor; [|constructor]. split; reflexivity.
      * rewrite app_length. cbn. lia.
      * intros _. right. exact SD.
    + (* declaration of x, but no element j: nothing is seeded *)
      apply NS. right. exact Hj.
    + apply NS. left. exact Hx.
  - (* constants *)
    intros E; inversion E; subst ct' cs; clear E. intros E; inversion E; subst et' es; clear E.
    exists [map (fun v => (v, rO)) data], ctgt, etgt. split; [|split; [auto|discriminate]].
    apply (Inv_op _ _ _ _ _ _ _ _ _ _ _ _ _ _ _ _ I (ext_refl _ _ G1) (ext_refl _ _ G2)).
    + constructor; [|constructor]. unfold cont_ok, c_constants. rewrite as_records_mk. cbn [c_data c_hist].
      clear. induction data; cbn; constructor; auto. split; reflexivity.
    + constructor; [|constructor]. unfold eok. cbn [e_recs].
      clear. induction data; cbn; constructor; auto. apply rec_constant_ok.
    + constructor; [|constructor]. split; reflexivity.
Qed.


(* ---- iterators: from_iter, map / map_mut, from_iters *)
Lemma exact_same_list_eq a b : exact_same_list a b = true -> a = b.
Proof.
  destruct a, b; cbn; intros H; try discriminate; try reflexivity. apply Nat.eqb_eq in H. congruence.
Qed.

Lemma c_from_iter_records tensor sh (rs : list rec) (c : cont) : c_from_iter tensor sh rs = Ok c ->
  as_records c = rs /\ c_tensor c = tensor /\ c_shape c = sh.
Proof.
  unfold c_from_iter. destruct (consistent_history rs) eqn:Ec; cbn [negb]; [|discriminate].
  destruct rs as [|r rest]; [discriminate|].
  destruct (if tensor then _ else _); [|discriminate]. intros E; inversion E; subst c; clear E.
  split; [|split; reflexivity]. rewrite as_records_mk. cbn [c_data c_hist].
  cbn [consistent_history] in Ec. cbn [map fst snd]. f_equal; [destruct r; reflexivity|].
  induction rest as [|q rest IH]; [reflexivity|]. cbn [forallb] in Ec. apply andb_true_iff in Ec as [E1 E2].
  cbn [map fst snd]. f_equal; [|apply IH; exact E2]. apply exact_same_list_eq in E1. rewrite E1. destruct q; reflexivity.
Qed.

Lemma Forall2_firstn {A B} (P : A -> B -> Prop) : forall n l1 l2, Forall2 P l1 l2 -> Forall2 P (firstn n l1) (firstn n l2).
Proof. induction n; intros l1 l2 H; cbn; [constructor|]. destruct H; constructor; auto. Qed.

Lemma Forall2_skipn {A B} (P : A -> B -> Prop) : forall n l1 l2, Forall2 P l1 l2 -> Forall2 P (skipn n l1) (skipn n l2).
Proof. induction n; intros l1 l2 H; cbn; [exact H|]. destruct H; [constructor|auto]. Qed.

Lemma Forall2_flat_map {A B C} (P : A -> B -> Prop) (f : C -> list A) (g : C -> list B) :
  forall l, (forall k, Forall2 P (f k) (g k)) -> Forall2 P (flat_map f l) (flat_map g l).
Proof. induction l; intros H; cbn; [constructor|]. apply Forall2_app; auto. Qed.

Lemma Forall2_column_major {A B} (P : A -> B -> Prop) sh l1 l2 :
  Forall2 P l1 l2 -> Forall2 P (column_major sh l1) (column_major sh l2).
Proof.
  intros H. unfold column_major. destruct sh as [|[? rows] [|[? columns] [|]]]; try exact H.
  apply Forall2_flat_map. intros j. unfold column_of. apply Forall2_flat_map. intros k.
  apply Forall2_firstn, Forall2_skipn, H.
Qed.

(* the scalar closures, evaluated on duals *)
Fixpoint deval (e : sexpr R) (d : dual) (first : bool) : dual :=
  match e with
  | SX => d
  | SK c => (c, rO)
  | SDetach e1 => (fst (deval e1 d first), rO)
  | SUn code c e1 => match unfn_of ops code c with Some f => du f (deval e1 d first) | None => (rO, rO) end
  | SBin code e1 e2 =>
      match binfn_of ops code with Some f => db f (deval e1 d first) (deval e2 d first) | None => (rO, rO) end
  | SFirst e1 e2 => if first then deval e1 d first else deval e2 d first
  | SOther => (rO, rO)
  end.

Lemma rec_eval_ok first : forall e t s x d t' y, local_expr e = true -> good t s -> rec_ok t s x d ->
  rec_eval ops t e x first = Some (Ok (t', y)) ->
  exists s', ext t s t' s' /\ rec_ok t' s' y (deval e d first).
Proof.
  induction e as [|c|e1 IH1|code c e1 IH1|code e1 IH1 e2 IH2|e1 IH1 e2 IH2|]; intros t s x d t' y Hloc G Hx;
    cbn [rec_eval deval]; cbn [local_expr] in Hloc; try discriminate Hloc;
    try (apply andb_true_iff in Hloc as [Hloc1 Hloc2]).
  - intros E; inversion E; subst. exists s. split; [apply ext_refl; auto|exact Hx].
  - intros E; inversion E; subst. exists s. split; [apply ext_refl; auto|apply rec_constant_ok].
  - destruct (rec_eval ops t e1 x first) as [[[t1 r]| |]|] eqn:E1; try discriminate.
    intros E; inversion E; subst. destruct (IH1 _ _ _ _ _ _ Hloc G Hx E1) as (s1 & X1 & [Hv _]).
    exists s1. split; [exact X1|]. split; [cbn; exact Hv|reflexivity].
  - destruct (rec_eval ops t e1 x first) as [[[t1 r]| |]|] eqn:E1; try discriminate.
    intros E. destruct (IH1 _ _ _ _ _ _ Hloc G Hx E1) as (s1 & X1 & Hr).
    assert (Hf : exists f, unfn_of ops code c = Some f).
    { revert E. unfold rec_unary_code. destruct code; [cbn; eauto|]. destruct (unfn_of ops (S code) c); [eauto|discriminate]. }
    destruct Hf as [f Hf]. rewrite Hf.
    destruct (rec_unary_code_ok _ _ _ _ _ _ _ _ _ (proj1 (proj2 X1)) Hr Hf E) as (s2 & X2 & Hy).
    exists s2. split; [eapply ext_trans; eauto|exact Hy].
  - destruct (binfn_of ops code) as [f|]; [|discriminate].
    destruct (rec_eval ops t e1 x first) as [[[t1 r1]| |]|] eqn:E1; try discriminate.
    destruct (IH1 _ _ _ _ _ _ Hloc1 G Hx E1) as (s1 & X1 & Hr1).
    destruct (rec_eval ops t1 e2 x first) as [[[t2 r2]| |]|] eqn:E2; try discriminate.
    pose proof X1 as (_ & G1 & M1).
    destruct (IH2 _ _ _ _ _ _ Hloc2 G1 (M1 _ _ Hx) E2) as (s2 & X2 & Hr2).
    pose proof X2 as (_ & G2 & M2).
    intros E. inversion E as [E'].
    destruct (rec_binary_ok _ _ _ _ _ _ _ _ _ G2 (M2 _ _ Hr1) Hr2 E') as (s3 & X3 & Hz).
    exists s3. split; [eapply ext_trans; [exact X1|eapply ext_trans; eauto]|exact Hz].
  - destruct first; [apply IH1|apply IH2]; assumption.
Qed.

Fixpoint deval_each (e : sexpr R) (ds : list dual) (first : bool) : list dual :=
  match ds with [] => [] | d :: r => deval e d first :: deval_each e r false end.

Lemma eval_each_ok e : local_expr e = true -> forall rs ds first t s t' ys, good t s -> recs_ok t s rs ds ->
  eval_each ops t e rs first = Some (Ok (t', ys)) ->
  exists s', ext t s t' s' /\ recs_ok t' s' ys (deval_each e ds first).
Proof.
  intros Hloc. induction rs as [|r rest IH]; intros ds first t s t' ys G Hr.
  - cbn. intros E. inversion E; subst. exists s. split; [apply ext_refl; auto|]. inversion Hr; subst. constructor.
  - inversion Hr as [|? d ? dr Hr1 Hrr]; subst. cbn [eval_each].
    destruct (rec_eval ops t e r first) as [[[t1 y]| |]|] eqn:E1; try discriminate.
    destruct (rec_eval_ok first e _ _ _ _ _ _ Hloc G Hr1 E1) as (s1 & X1 & Hy).
    destruct (eval_each ops t1 e rest false) as [[[t2 yr]| |]|] eqn:E2; try discriminate.
    intros E. inversion E; subst t' ys; clear E.
    destruct (IH dr false t1 s1 t2 yr (proj1 (proj2 X1)) (recs_ok_ext _ _ _ _ _ _ X1 Hrr) E2) as (s2 & X2 & Hyr).
    exists s2. split; [eapply ext_trans; eauto|]. cbn [deval_each]. constructor; [|exact Hyr].
    destruct X2 as (_ & _ & M). apply M. exact Hy.
Qed.

Lemma sim_fromiter x j ct cenv et eenv ctgt etgt fenv tensor sh cm e a ct' cs et' es :
  local_expr e = true ->
  Inv x j ct cenv et eenv ctgt etgt fenv ->
  cstep ops (ct, cenv) (OFromIter tensor sh cm e a) = Some (Ok (ct', cs)) ->
  estep ops (et, eenv) (OFromIter tensor sh cm e a) = Some (Ok (et', es)) ->
  exists fs, Inv x j ct' (cenv ++ cs) et' (eenv ++ es) ctgt etgt (fenv ++ fs) /\ length cs = 1.
Proof.
  intros Hloc I. cbn [cstep estep].
  destruct (nth_error cenv a) as [cx|] eqn:Ea; [|discriminate].
  destruct (Inv_get _ _ _ _ _ _ _ _ _ _ _ I Ea) as (ex & ds & Ee & Hc & He & [L1 L2]). rewrite Ee.
  destruct (cm && c_tensor cx); [discriminate|]. destruct (cm && e_tensor ex); [discriminate|].
  destruct (negb tensor && negb (Nat.eqb (length sh) 2)); [discriminate|].
  destruct (eval_each ops ct e (if cm then column_major (c_shape cx) (as_records cx) else as_records cx) true)
    as [[[t1 ys]| |]|] eqn:E1; try discriminate.
  destruct (c_from_iter tensor sh ys) as [c| |] eqn:Ef; try discriminate.
  cbn [omap]. intros E; inversion E; subst ct' cs; clear E.
  destruct (eval_each ops et e (if cm then column_major (e_shape ex) (e_recs ex) else e_recs ex) true)
    as [[[t2 zs]| |]|] eqn:E2; try discriminate.
  cbn [omap fst snd]. intros E; inversion E; subst et' es; clear E.
  destruct (c_from_iter_records _ _ _ _ Ef) as (R1 & R2 & R3).
  pose proof I as (G1 & _ & _ & G2 & _).
  assert (Hc' : recs_ok ct (S_ ct ctgt) (if cm then column_major (c_shape cx) (as_records cx) else as_records cx)
                  (if cm then column_major (c_shape cx) ds else ds)).
  { destruct cm; [apply Forall2_column_major|]; exact Hc. }
  assert (He' : recs_ok et (S_ et etgt) (if cm then column_major (e_shape ex) (e_recs ex) else e_recs ex)
                  (if cm then column_major (c_shape cx) ds else ds)).
  { rewrite <- L2. destruct cm; [apply Forall2_column_major|]; exact He. }
  destruct (eval_each_ok e Hloc _ _ _ _ _ _ _ G1 Hc' E1) as (s1 & X1 & Hys).
  destruct (eval_each_ok e Hloc _ _ _ _ _ _ _ G2 He' E2) as (s2 & X2 & Hzs).
  exists [deval_each e (if cm then column_major (c_shape cx) ds else ds) true]. split; [|reflexivity].
  apply (Inv_op _ _ _ _ _ _ _ _ _ _ _ s1 s2 _ _ _ I X1 X2).
  - constructor; [|constructor]. unfold cont_ok. rewrite R1. exact Hys.
  - constructor; [|constructor]. exact Hzs.
  - constructor; [|constructor]. split; cbn; assumption.
Qed.

Lemma sim_map x j ct cenv et eenv ctgt etgt fenv mu e a ct' cs et' es :
  local_expr e = true ->
  Inv x j ct cenv et eenv ctgt etgt fenv ->
  cstep ops (ct, cenv) (OMap mu e a) = Some (Ok (ct', cs)) ->
  estep ops (et, eenv) (OMap mu e a) = Some (Ok (et', es)) ->
  exists fs, Inv x j ct' (cenv ++ cs) et' (eenv ++ es) ctgt etgt (fenv ++ fs) /\ length cs = 1.
Proof.
  intros Hloc I. cbn [cstep estep].
  destruct (nth_error cenv a) as [cx|] eqn:Ea; [|discriminate].
  destruct (Inv_get _ _ _ _ _ _ _ _ _ _ _ I Ea) as (ex & ds & Ee & Hc & He & [L1 L2]). rewrite Ee.
  unfold c_map. destruct (eval_each ops ct e (as_records cx) true) as [[[t1 ys]| |]|] eqn:E1; try discriminate.
  destruct (c_from_iter (c_tensor cx) (c_shape cx) ys) as [c| |] eqn:Ef; try discriminate.
  cbn [omap fst snd]. intros E; inversion E; subst ct' cs; clear E.
  destruct (eval_each ops et e (e_recs ex) true) as [[[t2 zs]| |]|] eqn:E2; try discriminate.
  cbn [omap fst snd]. intros E; inversion E; subst et' es; clear E.
  destruct (c_from_iter_records _ _ _ _ Ef) as (R1 & R2 & R3).
  pose proof I as (G1 & _ & _ & G2 & _).
  destruct (eval_each_ok e Hloc _ _ _ _ _ _ _ G1 Hc E1) as (s1 & X1 & Hys).
  destruct (eval_each_ok e Hloc _ _ _ _ _ _ _ G2 He E2) as (s2 & X2 & Hzs).
  exists [deval_each e ds true]. split; [|reflexivity].
  apply (Inv_op _ _ _ _ _ _ _ _ _ _ _ s1 s2 _ _ _ I X1 X2).
  - constructor; [|constructor]. unfold cont_ok. rewrite R1. exact Hys.
  - constructor; [|constructor]. exact Hzs.
  - constructor; [|constructor]. split; cbn; congruence.
Qed.

(* ---- matrix multiplication *)
Fixpoint dsum (acc : dual) (ps : list (dual * dual)) : dual :=
  match ps with
  | [] => acc
  | p :: r => dsum (db (Addition ops) acc (db (Multiplication ops) (fst p) (snd p))) r
  end.
Definition dcell (ls rs : list dual) : dual :=
  match combine ls rs with
  | [] => (rO, rO)
  | p :: r => dsum (db (Multiplication ops) (fst p) (snd p)) r
  end.

Lemma rec_ok_hist t s v h1 h2 i d : rec_ok t s (mkRec v (Some h1) i) d -> rec_ok t s (mkRec v (Some h2) i) d.
Proof. intros H. exact H. Qed.

Lemma product_step_ok t s lh rh h x xi y yi dx dy t' z i : good t s ->
  rec_ok t s (mkRec x lh xi) dx -> rec_ok t s (mkRec y rh yi) dy ->
  same_list lh rh = true -> first_hist lh rh = Some h ->
  product_step ops t lh rh ((x, xi), (y, yi)) = (t', (z, i)) ->
  exists s', ext t s t' s' /\ rec_ok t' s' (mkRec z (Some h) i) (db (Multiplication ops) dx dy).
Proof.
  intros G Hx Hy Hs Hf Hp.
  assert (E : exists h0, rec_binary ops t (Multiplication ops) (mkRec x lh xi) (mkRec y rh yi) = Ok (t', mkRec z (Some h0) i)).
  { unfold rec_binary. cbn [r_hist r_num r_idx]. rewrite Hs. cbn [negb].
    unfold product_step in Hp. destruct lh as [hl|], rh as [hr|]; cbn in Hp |- *; inversion Hp; subst; eauto.
    cbn in Hf. discriminate. }
  destruct E as [h0 E]. destruct (rec_binary_ok _ _ _ _ _ _ _ _ _ G Hx Hy E) as (s' & X & Hz).
  exists s'. split; [exact X|exact Hz].
Qed.

Lemma scalar_product_rest_ok lh rh h : same_list lh rh = true -> first_hist lh rh = Some h ->
  forall ls rs dls drs t s acc dacc t' z, good t s ->
  recs_ok t s (map (mk lh) ls) dls -> recs_ok t s (map (mk rh) rs) drs ->
  rec_ok t s (mkRec (fst acc) (Some h) (snd acc)) dacc ->
  scalar_product_rest ops t lh rh acc (combine ls rs) = (t', z) ->
  exists s', ext t s t' s' /\ rec_ok t' s' (mkRec (fst z) (Some h) (snd z)) (dsum dacc (combine dls drs)).
Proof.
  intros Hs Hf. induction ls as [|[x xi] lr IH]; intros rs dls drs t s acc dacc t' z G Hl Hr Ha.
  - cbn. intros E; inversion E; subst. inversion Hl; subst. cbn. exists s. split; [apply ext_refl; auto|exact Ha].
  - destruct rs as [|[y yi] rr].
    + cbn. intros E; inversion E; subst. inversion Hr; subst. inversion Hl; subst. cbn.
      exists s. split; [apply ext_refl; auto|exact Ha].
    + cbn [map] in Hl, Hr. inversion Hl as [|? dx ? dlr Hx Hlr]; subst. inversion Hr as [|? dy ? drr Hy Hrr]; subst.
      cbn [combine scalar_product_rest].
      destruct (product_step ops t lh rh (x, xi, (y, yi))) as [t1 [py pyi]] eqn:Ep.
      destruct (product_step_ok _ _ _ _ _ _ _ _ _ _ _ _ _ _ G Hx Hy Hs Hf Ep) as (s1 & X1 & Hp).
      destruct acc as [ax axi]. cbn [fst snd] in Ha. cbn [append_binary].
      pose proof X1 as (_ & G1 & M1).
      assert (Eb : rec_binary ops t1 (Addition ops) (mkRec ax (Some h) axi) (mkRec py (Some h) pyi) =
                   Ok (t1 ++ [mkEntry axi pyi (bdx (Addition ops) ax py) (bdy (Addition ops) ax py)],
                       mkRec (bf (Addition ops) ax py) (Some h) (length t1))).
      { unfold rec_binary. cbn. rewrite Nat.eqb_refl. reflexivity. }
      destruct (rec_binary_ok _ _ _ _ _ _ _ _ _ G1 (M1 _ _ Ha) Hp Eb) as (s2 & X2 & Hsum).
      pose proof X2 as (_ & G2 & M2). intros E.
      destruct (IH rr dlr drr _ s2 (bf (Addition ops) ax py, length t1) _ t' z G2
                  (recs_ok_ext _ _ _ _ _ _ X2 (recs_ok_ext _ _ _ _ _ _ X1 Hlr))
                  (recs_ok_ext _ _ _ _ _ _ X2 (recs_ok_ext _ _ _ _ _ _ X1 Hrr)) Hsum E) as (s3 & X3 & Hz).
      exists s3. split; [eapply ext_trans; [exact X1|eapply ext_trans; eauto]|]. exact Hz.
Qed.

Lemma dsum_const t s : forall (ls rs : list (R * nat)) dls drs acc dacc,
  recs_ok t s (map (mk None) ls) dls -> recs_ok t s (map (mk None) rs) drs ->
  fst dacc = acc -> snd dacc = rO ->
  fst (dsum dacc (combine dls drs)) =
    fold_left (fun a p => nadd ops a (nmul ops (fst (fst p)) (fst (snd p)))) (combine ls rs) acc /\
  snd (dsum dacc (combine dls drs)) = rO.
Proof.
  induction ls as [|[x xi] lr IH]; intros rs dls drs acc dacc Hl Hr Ha Hb.
  - inversion Hl; subst. cbn. auto.
  - destruct rs as [|[y yi] rr].
    + inversion Hr; subst. inversion Hl; subst. cbn. auto.
    + cbn [map] in Hl, Hr. inversion Hl as [|? dx ? dlr [Hx1 Hx2] Hlr]; subst.
      inversion Hr as [|? dy ? drr [Hy1 Hy2] Hrr]; subst. cbn in Hx1, Hx2, Hy1, Hy2.
      cbn [combine dsum fold_left fst snd]. apply IH; [exact Hlr|exact Hrr| |].
      * unfold db. cbn. try rewrite Ha. rewrite Hx1, Hy1. reflexivity.
      * unfold db. cbn. rewrite Hb, Hx2, Hy2. ring.
Qed.

Lemma rsp_ok t s lh rh ls rs dls drs t' z : same_list lh rh = true -> good t s ->
  recs_ok t s (map (mk lh) ls) dls -> recs_ok t s (map (mk rh) rs) drs ->
  record_scalar_product ops t lh rh ls rs = Some (t', z) ->
  exists s', ext t s t' s' /\ rec_ok t' s' (mkRec (fst z) (first_hist lh rh) (snd z)) (dcell dls drs).
Proof.
  intros Hs G Hl Hr. unfold record_scalar_product. destruct (first_hist lh rh) as [h|] eqn:Hf.
  - destruct ls as [|[x xi] lr]; [discriminate|]. destruct rs as [|[y yi] rr]; [discriminate|].
    cbn [map] in Hl, Hr. inversion Hl as [|? dx ? dlr Hx Hlr]; subst. inversion Hr as [|? dy ? drr Hy Hrr]; subst.
    cbn [combine]. destruct (product_step ops t lh rh (x, xi, (y, yi))) as [t1 [pz pi]] eqn:Ep.
    destruct (product_step_ok _ _ _ _ _ _ _ _ _ _ _ _ _ _ G Hx Hy Hs Hf Ep) as (s1 & X1 & Hp).
    intros E. inversion E as [E']. pose proof X1 as (_ & G1 & _).
    destruct (scalar_product_rest_ok lh rh h Hs Hf lr rr dlr drr t1 s1 (pz, pi) _ t' z G1
                (recs_ok_ext _ _ _ _ _ _ X1 Hlr) (recs_ok_ext _ _ _ _ _ _ X1 Hrr) Hp E') as (s2 & X2 & Hz).
    exists s2. split; [eapply ext_trans; eauto|]. unfold dcell. cbn [combine fst snd]. exact Hz.
  - assert (lh = None /\ rh = None) as [-> ->] by (destruct lh, rh; cbn in Hf; try discriminate; auto).
    destruct ls as [|[x xi] lr]; [discriminate|]. destruct rs as [|[y yi] rr]; [discriminate|].
    cbn [map] in Hl, Hr. inversion Hl as [|? dx ? dlr [Hx1 Hx2] Hlr]; subst.
    inversion Hr as [|? dy ? drr [Hy1 Hy2] Hrr]; subst. cbn in Hx1, Hx2, Hy1, Hy2.
    cbn [combine]. intros E. inversion E; subst t' z; clear E. exists s. split; [apply ext_refl; auto|].
    unfold dcell. cbn [combine fst snd].
    destruct (dsum_const t s lr rr dlr drr (nmul ops x y) (db (Multiplication ops) dx dy) Hlr Hrr) as [V T].
    + unfold db. cbn. rewrite Hx1, Hy1. reflexivity.
    + unfold db. cbn. rewrite Hx2, Hy2. ring.
    + split; [cbn; rewrite V; reflexivity|cbn; exact T].
Qed.

Lemma map_row_of {A B} (f : A -> B) n l i : map f (row_of n l i) = row_of n (map f l) i.
Proof. unfold row_of. rewrite skipn_map, firstn_map. reflexivity. Qed.

Lemma map_column_of {A B} (f : A -> B) rows cols l j : map f (column_of rows cols l j) = column_of rows cols (map f l) j.
Proof.
  unfold column_of. induction (seq 0 rows) as [|k r IH]; cbn [flat_map map]; [reflexivity|].
  rewrite map_app, IH, skipn_map, firstn_map. reflexivity.
Qed.

Lemma Forall2_row_of {A B} (P : A -> B -> Prop) n l1 l2 i : Forall2 P l1 l2 -> Forall2 P (row_of n l1 i) (row_of n l2 i).
Proof. intros H. unfold row_of. apply Forall2_firstn, Forall2_skipn, H. Qed.

Lemma Forall2_column_of {A B} (P : A -> B -> Prop) rows cols l1 l2 j :
  Forall2 P l1 l2 -> Forall2 P (column_of rows cols l1 j) (column_of rows cols l2 j).
Proof. intros H. unfold column_of. apply Forall2_flat_map. intros k. apply Forall2_firstn, Forall2_skipn, H. Qed.

Definition dcells (inner columns : nat) (dls drs : list dual) (cs : list (nat * nat)) : list dual :=
  map (fun ij => dcell (row_of inner dls (fst ij)) (column_of inner columns drs (snd ij))) cs.

Lemma matmul_cells_ok lh rh rows inner columns ldata rdata dls drs : same_list lh rh = true ->
  forall cs t s t' zs, good t s ->
  recs_ok t s (map (mk lh) ldata) dls -> recs_ok t s (map (mk rh) rdata) drs ->
  matmul_cells ops t lh rh rows inner columns ldata rdata cs = Some (t', zs) ->
  exists s', ext t s t' s' /\ recs_ok t' s' (map (mk (first_hist lh rh)) zs) (dcells inner columns dls drs cs).
Proof.
  intros Hs. induction cs as [|[i j] r IH]; intros t s t' zs G Hl Hr.
  - cbn. intros E; inversion E; subst. exists s. split; [apply ext_refl; auto|constructor].
  - cbn [matmul_cells].
    destruct (record_scalar_product ops t lh rh (row_of inner ldata i) (column_of inner columns rdata j))
      as [[t1 z]|] eqn:E1; [|discriminate].
    assert (Hl' : recs_ok t s (map (mk lh) (row_of inner ldata i)) (row_of inner dls i)).
    { rewrite map_row_of. apply Forall2_row_of. exact Hl. }
    assert (Hr' : recs_ok t s (map (mk rh) (column_of inner columns rdata j)) (column_of inner columns drs j)).
    { rewrite map_column_of. apply Forall2_column_of. exact Hr. }
    destruct (rsp_ok _ _ _ _ _ _ _ _ _ _ Hs G Hl' Hr' E1) as (s1 & X1 & Hz).
    destruct (matmul_cells ops t1 lh rh rows inner columns ldata rdata r) as [[t2 zr]|] eqn:E2; [|discriminate].
    intros E; inversion E; subst t' zs; clear E.
    destruct (IH _ _ _ _ (proj1 (proj2 X1)) (recs_ok_ext _ _ _ _ _ _ X1 Hl) (recs_ok_ext _ _ _ _ _ _ X1 Hr) E2)
      as (s2 & X2 & Hzr).
    exists s2. split; [eapply ext_trans; eauto|]. cbn [map dcells]. constructor; [|exact Hzr].
    destruct X2 as (_ & _ & M). apply M. exact Hz.
Qed.

(* the element-by-element product: all products first, then the sum from the left *)
Lemma each_products_eq : forall xs ys t,
  each_products ops t xs ys = each_binary ops t (Multiplication ops) xs ys.
Proof.
  induction xs as [|x xr IH]; intros [|y yr] t; cbn; try reflexivity.
  destruct (rec_binary ops t (Multiplication ops) x y) as [[t1 z]| |]; try reflexivity. rewrite IH. reflexivity.
Qed.

Lemma each_sum_ok : forall rs ds t s acc dacc t' z, good t s -> rec_ok t s acc dacc -> recs_ok t s rs ds ->
  each_sum ops t acc rs = Ok (t', z) ->
  exists s', ext t s t' s' /\ rec_ok t' s' z (fold_left (db (Addition ops)) ds dacc).
Proof.
  induction rs as [|r rest IH]; intros ds t s acc dacc t' z G Ha Hr.
  - cbn. intros E; inversion E; subst. inversion Hr; subst. exists s. split; [apply ext_refl; auto|exact Ha].
  - inversion Hr as [|? d ? dr Hr1 Hrr]; subst. cbn [each_sum].
    destruct (rec_binary ops t (Addition ops) acc r) as [[t1 sm]| |] eqn:E1; try discriminate.
    destruct (rec_binary_ok _ _ _ _ _ _ _ _ _ G Ha Hr1 E1) as (s1 & X1 & Hsm). intros E.
    destruct (IH dr t1 s1 sm _ t' z (proj1 (proj2 X1)) Hsm (recs_ok_ext _ _ _ _ _ _ X1 Hrr) E) as (s2 & X2 & Hz).
    exists s2. split; [eapply ext_trans; eauto|exact Hz].
Qed.

Lemma dsum_fold : forall dls drs acc,
  dsum acc (combine dls drs) = fold_left (db (Addition ops)) (db2 (Multiplication ops) dls drs) acc.
Proof.
  unfold db2. induction dls as [|a dr IH]; intros [|b rr] acc; cbn; try reflexivity. apply IH.
Qed.

Lemma each_cells_ok rows inner columns (l r : list rec) dls drs :
  forall cs t s t' zs, good t s -> recs_ok t s l dls -> recs_ok t s r drs ->
  each_cells ops t rows inner columns l r cs = Ok (t', zs) ->
  exists s', ext t s t' s' /\ recs_ok t' s' zs (dcells inner columns dls drs cs).
Proof.
  induction cs as [|[i j] rest IH]; intros t s t' zs G Hl Hr.
  - cbn. intros E; inversion E; subst. exists s. split; [apply ext_refl; auto|constructor].
  - cbn [each_cells]. rewrite each_products_eq.
    destruct (each_binary ops t (Multiplication ops) (row_of inner l i) (column_of inner columns r j))
      as [[t1 [|p ps]]| |] eqn:E1; try discriminate.
    destruct (each_binary_ok _ _ _ _ _ _ _ _ _ G (Forall2_row_of _ inner _ _ i Hl)
                (Forall2_column_of _ inner columns _ _ j Hr) E1) as (s1 & X1 & Hps).
    destruct (each_sum ops t1 p ps) as [[t2 z]| |] eqn:E2; try discriminate.
    unfold db2 in Hps.
    destruct (combine (row_of inner dls i) (column_of inner columns drs j)) as [|q qs] eqn:Ecb;
      [inversion Hps|]. cbn [map] in Hps. inversion Hps as [|? ? ? ? Hp Hps']; subst.
    destruct (each_sum_ok _ _ _ _ _ _ _ _ (proj1 (proj2 X1)) Hp Hps' E2) as (s2 & X2 & Hz).
    destruct (each_cells ops t2 rows inner columns l r rest) as [[t3 zr]| |] eqn:E3; try discriminate.
    intros E; inversion E; subst t' zs; clear E.
    pose proof (ext_trans _ _ _ _ _ _ X1 X2) as X12.
    destruct (IH _ _ _ _ (proj1 (proj2 X2)) (recs_ok_ext _ _ _ _ _ _ X12 Hl) (recs_ok_ext _ _ _ _ _ _ X12 Hr) E3)
      as (s3 & X3 & Hzr).
    exists s3. split; [eapply ext_trans; eauto|]. cbn [map dcells]. constructor; [|exact Hzr].
    destruct X3 as (_ & _ & M). apply M. unfold dcell. cbn [fst snd]. rewrite Ecb.
    change (dsum (db (Multiplication ops) (fst q) (snd q)) qs) with (dsum (db (Multiplication ops) (fst q) (snd q)) qs).
    assert (Q : dsum (db (Multiplication ops) (fst q) (snd q)) qs =
                fold_left (db (Addition ops)) (map (fun p0 => db (Multiplication ops) (fst p0) (snd p0)) qs)
                          (db (Multiplication ops) (fst q) (snd q))).
    { clear. generalize (db (Multiplication ops) (fst q) (snd q)). induction qs as [|u us IHq]; intros a; cbn; [reflexivity|apply IHq]. }
    rewrite Q. exact Hz.
Qed.

Lemma sim_matmul x j ct cenv et eenv ctgt etgt fenv a b ct' cs et' es :
  Inv x j ct cenv et eenv ctgt etgt fenv ->
  cstep ops (ct, cenv) (OMatmul a b) = Some (Ok (ct', cs)) ->
  estep ops (et, eenv) (OMatmul a b) = Some (Ok (et', es)) ->
  exists fs, Inv x j ct' (cenv ++ cs) et' (eenv ++ es) ctgt etgt (fenv ++ fs) /\ length cs = 1.
Proof.
  intros I. cbn [cstep estep].
  destruct (nth_error cenv a) as [cx|] eqn:Ea; [|discriminate].
  destruct (nth_error cenv b) as [cy|] eqn:Eb; [|discriminate].
  destruct (Inv_get _ _ _ _ _ _ _ _ _ _ _ I Ea) as (ex & dxs & Eea & Hcx & Hex & [Lx1 Lx2]). rewrite Eea.
  destruct (Inv_get _ _ _ _ _ _ _ _ _ _ _ I Eb) as (ey & dys & Eeb & Hcy & Hey & [Ly1 Ly2]). rewrite Eeb.
  destruct (_ || _); [discriminate|].
  unfold c_matmul. destruct (same_list (c_hist cx) (c_hist cy)) eqn:Hs; cbn [negb omap]; [|discriminate].
  rewrite <- Lx2, <- Ly2, <- Lx1.
  destruct (negb (Bool.eqb (c_tensor cx) (e_tensor ey))); [discriminate|].
  destruct (c_shape cx) as [|[n0 rows] [|[n1 inner] [|]]]; try discriminate.
  destruct (c_shape cy) as [|[n2 inner2] [|[n3 columns] [|]]]; try discriminate.
  destruct (negb (Nat.eqb inner inner2)); [discriminate|].
  destruct (c_tensor cx && Nat.eqb n0 n3); [discriminate|].
  destruct (matmul_cells ops ct (c_hist cx) (c_hist cy) rows inner columns (c_data cx) (c_data cy) (cells rows columns))
    as [[t1 zs]|] eqn:E1; [|discriminate].
  cbn [omap fst snd]. intros E; inversion E; subst ct' cs; clear E.
  destruct (each_cells ops et rows inner columns (e_recs ex) (e_recs ey) (cells rows columns)) as [[t2 ws]| |] eqn:E2;
    try discriminate.
  cbn [omap fst snd]. intros E; inversion E; subst et' es; clear E.
  pose proof I as (G1 & _ & _ & G2 & _).
  unfold cont_ok in Hcx, Hcy. rewrite as_records_mk in Hcx, Hcy.
  destruct (matmul_cells_ok _ _ rows inner columns _ _ _ _ Hs _ _ _ _ _ G1 Hcx Hcy E1) as (s1 & X1 & Hzs).
  destruct (each_cells_ok rows inner columns _ _ _ _ _ _ _ _ _ G2 Hex Hey E2) as (s2 & X2 & Hws).
  exists [dcells inner columns dxs dys (cells rows columns)]. split; [|reflexivity].
  apply (Inv_op _ _ _ _ _ _ _ _ _ _ _ s1 s2 _ _ _ I X1 X2).
  - constructor; [|constructor]. unfold cont_ok. rewrite as_records_mk. cbn [c_data c_hist]. exact Hzs.
  - constructor; [|constructor]. exact Hws.
  - constructor; [|constructor]. split; reflexivity.
Qed.

Lemma eval_each2_ok e1 e2 : local_expr e1 = true -> local_expr e2 = true ->
  forall rs ds first t s t' ys1 ys2, good t s -> recs_ok t s rs ds ->
  eval_each2 ops t e1 e2 rs first = Some (Ok (t', (ys1, ys2))) ->
  exists s', ext t s t' s' /\ recs_ok t' s' ys1 (deval_each e1 ds first) /\ recs_ok t' s' ys2 (deval_each e2 ds first).
Proof.
  intros Hloc1 Hloc2. induction rs as [|r rest IH]; intros ds first t s t' ys1 ys2 G Hr.
  - cbn. intros E. inversion E; subst. exists s. split; [apply ext_refl; auto|]. inversion Hr; subst. split; constructor.
  - inversion Hr as [|? d ? dr Hr1 Hrr]; subst. cbn [eval_each2].
    destruct (rec_eval ops t e1 r first) as [[[t1 y1]| |]|] eqn:E1; try discriminate.
    destruct (rec_eval_ok first e1 _ _ _ _ _ _ Hloc1 G Hr1 E1) as (s1 & X1 & Hy1).
    pose proof X1 as (_ & G1 & M1).
    destruct (rec_eval ops t1 e2 r first) as [[[t2 y2]| |]|] eqn:E2; try discriminate.
    destruct (rec_eval_ok first e2 _ _ _ _ _ _ Hloc2 G1 (M1 _ _ Hr1) E2) as (s2 & X2 & Hy2).
    pose proof X2 as (_ & G2 & M2).
    destruct (eval_each2 ops t2 e1 e2 rest false) as [[[t3 [yr1 yr2]]| |]|] eqn:E3; try discriminate.
    intros E. inversion E; subst t' ys1 ys2; clear E.
    pose proof (ext_trans _ _ _ _ _ _ X1 X2) as X12.
    destruct (IH dr false t2 s2 t3 yr1 yr2 G2 (recs_ok_ext _ _ _ _ _ _ X12 Hrr) E3) as (s3 & X3 & H1 & H2).
    exists s3. split; [eapply ext_trans; eauto|]. pose proof X3 as (_ & _ & M3). cbn [deval_each].
    split; constructor; auto.
Qed.

Lemma sim_fromiters2 x j ct cenv et eenv ctgt etgt fenv e1 e2 a ct' cs et' es :
  local_expr e1 = true -> local_expr e2 = true ->
  Inv x j ct cenv et eenv ctgt etgt fenv ->
  cstep ops (ct, cenv) (OFromIters2 e1 e2 a) = Some (Ok (ct', cs)) ->
  estep ops (et, eenv) (OFromIters2 e1 e2 a) = Some (Ok (et', es)) ->
  exists fs, Inv x j ct' (cenv ++ cs) et' (eenv ++ es) ctgt etgt (fenv ++ fs) /\ length cs = 2.
Proof.
  intros Hloc1 Hloc2 I. cbn [cstep estep].
  destruct (nth_error cenv a) as [cx|] eqn:Ea; [|discriminate].
  destruct (Inv_get _ _ _ _ _ _ _ _ _ _ _ I Ea) as (ex & ds & Ee & Hc & He & [L1 L2]). rewrite Ee.
  destruct (eval_each2 ops ct e1 e2 (as_records cx) true) as [[[t1 [ys1 ys2]]| |]|] eqn:E1; try discriminate.
  destruct (c_from_iter (c_tensor cx) (c_shape cx) ys1) as [c1| |] eqn:Ef1; try discriminate;
    destruct (c_from_iter (c_tensor cx) (c_shape cx) ys2) as [c2| |] eqn:Ef2; try discriminate.
  intros E; inversion E; subst ct' cs; clear E.
  destruct (eval_each2 ops et e1 e2 (e_recs ex) true) as [[[t2 [zs1 zs2]]| |]|] eqn:E2; try discriminate.
  cbn [omap fst snd]. intros E; inversion E; subst et' es; clear E.
  destruct (c_from_iter_records _ _ _ _ Ef1) as (R1 & R2 & R3).
  destruct (c_from_iter_records _ _ _ _ Ef2) as (Q1 & Q2 & Q3).
  pose proof I as (G1 & _ & _ & G2 & _).
  destruct (eval_each2_ok e1 e2 Hloc1 Hloc2 _ _ _ _ _ _ _ _ G1 Hc E1) as (s1 & X1 & Hys1 & Hys2).
  destruct (eval_each2_ok e1 e2 Hloc1 Hloc2 _ _ _ _ _ _ _ _ G2 He E2) as (s2 & X2 & Hzs1 & Hzs2).
  exists [deval_each e1 ds true; deval_each e2 ds true]. split; [|reflexivity].
  apply (Inv_op _ _ _ _ _ _ _ _ _ _ _ s1 s2 _ _ _ I X1 X2).
  - constructor; [|constructor; [|constructor]]; unfold cont_ok; [rewrite R1|rewrite Q1]; assumption.
  - constructor; [|constructor; [|constructor]]; assumption.
  - constructor; [|constructor; [|constructor]]; split; cbn; congruence.
Qed.

(* ---- containers over views of other containers *)
Lemma map_column_major6 {A B} (f : A -> B) sh l : map f (column_major sh l) = column_major sh (map f l).
Proof.
  unfold column_major. destruct sh as [|[? rows] [|[? cols] [|]]]; try reflexivity.
  induction (seq 0 cols) as [|j r IH]; cbn [flat_map map]; [reflexivity|].
  rewrite map_app, IH, map_column_of. reflexivity.
Qed.

Lemma sim_view x j ct cenv et eenv ctgt etgt fenv kind a ct' cs et' es :
  Inv x j ct cenv et eenv ctgt etgt fenv ->
  cstep ops (ct, cenv) (OView kind a) = Some (Ok (ct', cs)) ->
  estep ops (et, eenv) (OView kind a) = Some (Ok (et', es)) ->
  exists fs, Inv x j ct' (cenv ++ cs) et' (eenv ++ es) ctgt etgt (fenv ++ fs) /\ length cs = 1.
Proof.
  intros I. cbn [cstep estep].
  destruct (nth_error cenv a) as [cx|] eqn:Ea; [|discriminate].
  destruct (Inv_get _ _ _ _ _ _ _ _ _ _ _ I Ea) as (ex & ds & Ee & Hc & He & [L1 L2]). rewrite Ee.
  rewrite <- L1, <- L2. pose proof I as (G1 & _ & _ & G2 & _).
  assert (P : forall tensor sh, exists fs,
              Inv x j ct (cenv ++ [mkCont tensor sh (column_major (c_shape cx) (c_data cx)) (c_hist cx)])
                  et (eenv ++ [mkECont tensor sh (column_major (c_shape cx) (e_recs ex))]) ctgt etgt (fenv ++ fs) /\
              length [mkCont tensor sh (column_major (c_shape cx) (c_data cx)) (c_hist cx)] = 1).
  { intros tensor sh. exists [column_major (c_shape cx) ds]. split; [|reflexivity].
    apply (Inv_op _ _ _ _ _ _ _ _ _ _ _ _ _ _ _ _ I (ext_refl _ _ G1) (ext_refl _ _ G2)).
    - constructor; [|constructor]. unfold cont_ok in *. rewrite as_records_mk in *. cbn [c_data c_hist].
      rewrite map_column_major6. apply Forall2_column_major. exact Hc.
    - constructor; [|constructor]. unfold eok in *. cbn [e_recs]. apply Forall2_column_major. exact He.
    - constructor; [|constructor]. split; reflexivity. }
  destruct kind as [|[|[|[|k]]]]; try discriminate.
  - destruct (c_tensor cx); [|discriminate]. destruct (c_shape cx) as [|[n0 r] [|[n1 c] [|]]] eqn:Es; try discriminate.
    intros E; inversion E; subst ct' cs; clear E. intros E; inversion E; subst et' es; clear E.
    exact (P false [(0, c); (1, r)]).
  - destruct (c_tensor cx); [|discriminate]. destruct (c_shape cx) as [|[n0 r] [|[n1 c] [|]]] eqn:Es; try discriminate.
    intros E; inversion E; subst ct' cs; clear E. intros E; inversion E; subst et' es; clear E.
    exact (P true [(n1, c); (n0, r)]).
  - intros E; inversion E; subst ct' cs; clear E. intros E; inversion E; subst et' es; clear E.
    exists [map (fun d : dual => (fst d, rO)) ds]. split; [|reflexivity].
    apply (Inv_op _ _ _ _ _ _ _ _ _ _ _ _ _ _ _ _ I (ext_refl _ _ G1) (ext_refl _ _ G2)).
    + constructor; [|constructor]. unfold cont_ok in *. rewrite as_records_mk in *. cbn [c_data c_hist].
      clear -Hc. revert ds Hc. induction (c_data cx) as [|p r IH]; intros ds Hc; inversion Hc; subst; cbn [map]; constructor.
      * destruct H1 as [Hv _]. split; [exact Hv|reflexivity].
      * apply IH. assumption.
    + constructor; [|constructor]. unfold eok in *. cbn [e_recs].
      clear -He. revert ds He. induction (e_recs ex) as [|q r IH]; intros ds He; inversion He; subst; cbn [map]; constructor.
      * destruct H1 as [Hv _]. split; [exact Hv|reflexivity].
      * apply IH. assumption.
    + constructor; [|constructor]. split; reflexivity.
Qed.


(* ---- generic source views: OSelect *)
Lemma select_cons {A} (xs : list (list A)) p r :
  select xs (p :: r) = match (match nth_error xs (fst p) with Some l => nth_error l (snd p) | None => None end) with
                       | Some v => match select xs r with Some r' => Some (v :: r') | None => None end
                       | None => None
                       end.
Proof. reflexivity. Qed.

Lemma select_map {A B} (g : A -> B) (xs : list (list A)) pos :
  select (map (map g) xs) pos = option_map (map g) (select xs pos).
Proof.
  induction pos as [|p r IH]; [reflexivity|]. rewrite !select_cons, IH.
  rewrite nth_error_map. destruct (nth_error xs (fst p)) as [l|]; cbn [option_map]; [|reflexivity].
  rewrite nth_error_map. destruct (nth_error l (snd p)) as [v|]; cbn [option_map]; [|reflexivity].
  destruct (select xs r); reflexivity.
Qed.

Lemma select_Forall2 {A B} (P : A -> B -> Prop) xs ys pos : Forall2 (Forall2 P) xs ys ->
  forall l, select xs pos = Some l -> exists l', select ys pos = Some l' /\ Forall2 P l l'.
Proof.
  intros F. induction pos as [|p r IH]; intros l.
  - intros E; inversion E; subst. exists []. split; [reflexivity|constructor].
  - rewrite !select_cons. destruct (nth_error xs (fst p)) as [a|] eqn:Ea; [|discriminate].
    destruct (nth_error a (snd p)) as [v|] eqn:Ev; [|discriminate].
    destruct (select xs r) as [r'|] eqn:Er; [|discriminate]. intros E; inversion E; subst.
    destruct (Forall2_nth_error _ _ _ _ _ F Ea) as (b & Eb & Fab).
    destruct (Forall2_nth_error _ _ _ _ _ Fab Ev) as (w & Ew & Pvw).
    destruct (IH _ eq_refl) as (l' & El' & Fl).
    rewrite Eb, Ew, El'. eexists. split; [reflexivity|constructor; auto].
Qed.

Lemma Forall2_flip {A B} (P : A -> B -> Prop) l1 l2 : Forall2 P l1 l2 -> Forall2 (fun b a => P a b) l2 l1.
Proof. induction 1; constructor; auto. Qed.

Lemma Inv_gets x j ct cenv et eenv ctgt etgt fenv : Inv x j ct cenv et eenv ctgt etgt fenv ->
  forall srcs xs, sequence (map (fun k => nth_error cenv k) srcs) = Some xs ->
  exists exs dss, sequence (map (fun k => nth_error eenv k) srcs) = Some exs /\
    Forall2 (cont_ok ct (S_ ct ctgt)) xs dss /\ Forall2 (eok et (S_ et etgt)) exs dss /\ Forall2 link xs exs.
Proof.
  intros I. induction srcs as [|a r IH]; intros xs; cbn [map sequence].
  - intros E; inversion E; subst. exists [], []. repeat split; constructor.
  - destruct (nth_error cenv a) as [c|] eqn:Ea; [|discriminate].
    destruct (sequence (map _ r)) as [xr|] eqn:Er; [|discriminate]. intros E; inversion E; subst.
    destruct (Inv_get _ _ _ _ _ _ _ _ _ _ _ I Ea) as (e & ds & Ee & Hc & He & Hl).
    destruct (IH _ eq_refl) as (exs & dss & Ees & Hcs & Hes & Hls).
    rewrite Ee, Ees. exists (e :: exs), (ds :: dss). repeat split; try constructor; auto.
Qed.

Lemma sim_select x j ct cenv et eenv ctgt etgt fenv f srcs ct' cs et' es :
  Inv x j ct cenv et eenv ctgt etgt fenv ->
  cstep ops (ct, cenv) (OSelect f srcs) = Some (Ok (ct', cs)) ->
  estep ops (et, eenv) (OSelect f srcs) = Some (Ok (et', es)) ->
  exists fs, Inv x j ct' (cenv ++ cs) et' (eenv ++ es) ctgt etgt (fenv ++ fs) /\ length cs = 1.
Proof.
  intros I. cbn [cstep estep].
  destruct (sequence (map (fun k => nth_error cenv k) srcs)) as [xs|] eqn:Es; [|discriminate].
  destruct (Inv_gets _ _ _ _ _ _ _ _ _ I srcs xs Es) as (exs & dss & Ees & Hc & He & Hl). rewrite Ees.
  destruct xs as [|x0 xr]; [discriminate|].
  destruct (negb (forallb (fun y => exact_same_list (c_hist x0) (c_hist y)) xr)) eqn:Eh; [discriminate|].
  apply negb_false_iff in Eh.
  assert (Hsh : map (fun c => (c_tensor c, c_shape c)) (x0 :: xr) = map (fun c => (e_tensor c, e_shape c)) exs).
  { clear -Hl. induction Hl as [|c e cl el [L1 L2] _ IH]; cbn [map]; [reflexivity|]. rewrite L1, L2, IH. reflexivity. }
  inversion Hl as [|? e0 ? er L0 Lr]; subst. rewrite <- Hsh.
  destruct (f (map (fun c => (c_tensor c, c_shape c)) (x0 :: xr))) as [[[tensor sh] pos]|]; [|discriminate].
  destruct (negb (sel_shape_ok tensor sh (length pos))); [discriminate|].
  destruct (select (map (@c_data R) (x0 :: xr)) pos) as [data|] eqn:Ed; [|discriminate].
  intros E; inversion E; subst ct' cs; clear E.
  assert (Hh : map (@as_records R) (x0 :: xr) = map (map (mk (c_hist x0))) (map (@c_data R) (x0 :: xr))).
  { cbn [map]. f_equal. clear -Eh. induction xr as [|y r IH]; cbn [map]; [reflexivity|].
    cbn [forallb] in Eh. apply andb_true_iff in Eh as [E1 E2]. apply exact_same_list_eq in E1.
    rewrite as_records_mk, <- E1, IH by exact E2. reflexivity. }
  assert (Fc : Forall2 (Forall2 (rec_ok ct (S_ ct ctgt))) (map (@as_records R) (x0 :: xr)) dss).
  { clear -Hc. induction Hc; cbn [map]; constructor; auto. }
  assert (Sc : select (map (@as_records R) (x0 :: xr)) pos = Some (map (mk (c_hist x0)) data)).
  { rewrite Hh, select_map, Ed. reflexivity. }
  destruct (select_Forall2 _ _ _ _ Fc _ Sc) as (d & Sd & Fd).
  assert (Fe : Forall2 (Forall2 (fun d r => rec_ok et (S_ et etgt) r d)) dss (map (@e_recs R) (e0 :: er))).
  { clear -He. induction He; cbn [map]; constructor; auto. apply Forall2_flip. exact H. }
  destruct (select_Forall2 _ _ _ _ Fe _ Sd) as (rs & Sr & Fr). rewrite Sr.
  intros E; inversion E; subst et' es; clear E.
  pose proof I as (G1 & _ & _ & G2 & _).
  exists [d]. split; [|reflexivity].
  apply (Inv_op _ _ _ _ _ _ _ _ _ _ _ _ _ _ _ _ I (ext_refl _ _ G1) (ext_refl _ _ G2)).
  - constructor; [|constructor]. unfold cont_ok. rewrite as_records_mk. cbn [c_data c_hist]. exact Fd.
  - constructor; [|constructor]. unfold eok. cbn [e_recs]. apply Forall2_flip in Fr. exact Fr.
  - constructor; [|constructor]. split; reflexivity.
Qed.

(* ---- from_iters::<N> : OCollect *)
Lemma eval_list_ok first : forall es t s x d t' ys, forallb (@local_expr R) es = true -> good t s -> rec_ok t s x d ->
  eval_list ops t es x first = Some (Ok (t', ys)) ->
  exists s', ext t s t' s' /\ Forall2 (rec_ok t' s') ys (map (fun e => deval e d first) es).
Proof.
  induction es as [|e er IH]; intros t s x d t' ys Hl G Hx; cbn [eval_list map].
  - intros E; inversion E; subst. exists s. split; [apply ext_refl; auto|constructor].
  - cbn [forallb] in Hl. apply andb_true_iff in Hl as [Hl1 Hl2].
    destruct (rec_eval ops t e x first) as [[[t1 y]| |]|] eqn:E1; try discriminate.
    destruct (rec_eval_ok first e _ _ _ _ _ _ Hl1 G Hx E1) as (s1 & X1 & Hy).
    pose proof X1 as (_ & G1 & M1).
    destruct (eval_list ops t1 er x first) as [[[t2 yr]| |]|] eqn:E2; try discriminate.
    intros E; inversion E; subst t' ys; clear E.
    destruct (IH _ _ _ _ _ _ Hl2 G1 (M1 _ _ Hx) E2) as (s2 & X2 & Hyr).
    exists s2. split; [eapply ext_trans; eauto|]. constructor; [|exact Hyr].
    destruct X2 as (_ & _ & M2). apply M2. exact Hy.
Qed.

Lemma push_row_ok {A B C} (P : A -> B -> Prop) (g : C -> B) (h : C -> list B) :
  forall (es : list C) (ys : list A) (cols : list (list A)),
  Forall2 P ys (map g es) -> Forall2 (fun col e => Forall2 P col (h e)) cols es ->
  Forall2 (fun col e => Forall2 P col (g e :: h e)) (push_row ys cols) es.
Proof.
  induction es as [|e er IH]; intros ys cols Hy Hc; inversion Hy; inversion Hc; subst; cbn [push_row]; constructor.
  - constructor; assumption.
  - apply IH; assumption.
Qed.

Lemma eval_eachN_ok es : forallb (@local_expr R) es = true ->
  forall rs ds first t s t' cols, good t s -> recs_ok t s rs ds ->
  eval_eachN ops t es rs first = Some (Ok (t', cols)) ->
  exists s', ext t s t' s' /\ Forall2 (fun col e => recs_ok t' s' col (deval_each e ds first)) cols es.
Proof.
  intros Hl. induction rs as [|r rest IH]; intros ds first t s t' cols G Hr; cbn [eval_eachN].
  - intros E; inversion E; subst. exists s. split; [apply ext_refl; auto|]. inversion Hr; subst.
    clear. induction es; cbn [map]; constructor; [constructor|assumption].
  - inversion Hr as [|? d ? dr Hr1 Hrr]; subst.
    destruct (eval_list ops t es r first) as [[[t1 ys]| |]|] eqn:E1; try discriminate.
    destruct (eval_list_ok first es _ _ _ _ _ _ Hl G Hr1 E1) as (s1 & X1 & Hys).
    pose proof X1 as (_ & G1 & M1).
    destruct (eval_eachN ops t1 es rest false) as [[[t2 cr]| |]|] eqn:E2; try discriminate.
    intros E; inversion E; subst t' cols; clear E.
    destruct (IH dr false t1 s1 t2 cr G1 (recs_ok_ext _ _ _ _ _ _ X1 Hrr) E2) as (s2 & X2 & Hcr).
    exists s2. split; [eapply ext_trans; eauto|]. pose proof X2 as (_ & _ & M2).
    apply (push_row_ok (rec_ok t2 s2) (fun e => deval e d first) (fun e => deval_each e dr false)); [|exact Hcr].
    clear -Hys M2. induction Hys; constructor; auto.
Qed.

Lemma collect_all_records tensor sh : forall (cols : list (list rec)) (cs : list cont),
  collect_all (map (c_from_iter tensor sh) cols) = Some cs ->
  Forall2 (fun c col => as_records c = col /\ c_tensor c = tensor /\ c_shape c = sh) cs cols.
Proof.
  unfold collect_all. induction cols as [|col r IH]; intros cs; cbn [map sequence].
  - intros E; inversion E; subst. constructor.
  - destruct (c_from_iter tensor sh col) as [c| |] eqn:Ef; try discriminate.
    destruct (sequence _) as [cr|] eqn:Er; [|discriminate]. intros E; inversion E; subst.
    constructor; [apply c_from_iter_records; exact Ef|apply IH; reflexivity].
Qed.

Lemma sim_collect x j ct cenv et eenv ctgt etgt fenv tensor sh cm take el a ct' cs et' es :
  forallb (@local_expr R) el = true ->
  Inv x j ct cenv et eenv ctgt etgt fenv ->
  cstep ops (ct, cenv) (OCollect tensor sh cm take el a) = Some (Ok (ct', cs)) ->
  estep ops (et, eenv) (OCollect tensor sh cm take el a) = Some (Ok (et', es)) ->
  exists fs, Inv x j ct' (cenv ++ cs) et' (eenv ++ es) ctgt etgt (fenv ++ fs) /\ length cs = length el.
Proof.
  intros Hloc I. cbn [cstep estep].
  destruct (nth_error cenv a) as [cx|] eqn:Ea; [|discriminate].
  destruct (Inv_get _ _ _ _ _ _ _ _ _ _ _ I Ea) as (ex & ds & Ee & Hc & He & [L1 L2]). rewrite Ee.
  destruct (cm && c_tensor cx); [discriminate|]. destruct (cm && e_tensor ex); [discriminate|].
  destruct (negb tensor && negb (Nat.eqb (length sh) 2)); [discriminate|].
  destruct (Nat.eqb (length el) 0); [discriminate|].
  destruct (eval_eachN ops ct el (firstn take (if cm then column_major (c_shape cx) (as_records cx) else as_records cx)) true)
    as [[[t1 cols]| |]|] eqn:E1; try discriminate.
  destruct (collect_all (map (c_from_iter tensor sh) cols)) as [cl|] eqn:Ef; [|discriminate].
  intros E; inversion E; subst ct' cs; clear E.
  destruct (eval_eachN ops et el (firstn take (if cm then column_major (e_shape ex) (e_recs ex) else e_recs ex)) true)
    as [[[t2 zcols]| |]|] eqn:E2; try discriminate.
  cbn [omap fst snd]. intros E; inversion E; subst et' es; clear E.
  pose proof (collect_all_records _ _ _ _ Ef) as Hrec.
  pose proof I as (G1 & _ & _ & G2 & _).
  set (dsel := firstn take (if cm then column_major (c_shape cx) ds else ds)).
  assert (Hc' : recs_ok ct (S_ ct ctgt) (firstn take (if cm then column_major (c_shape cx) (as_records cx) else as_records cx)) dsel).
  { apply Forall2_firstn. destruct cm; [apply Forall2_column_major|]; exact Hc. }
  assert (He' : recs_ok et (S_ et etgt) (firstn take (if cm then column_major (e_shape ex) (e_recs ex) else e_recs ex)) dsel).
  { apply Forall2_firstn. rewrite <- L2. destruct cm; [apply Forall2_column_major|]; exact He. }
  destruct (eval_eachN_ok el Hloc _ _ _ _ _ _ _ G1 Hc' E1) as (s1 & X1 & Hys).
  destruct (eval_eachN_ok el Hloc _ _ _ _ _ _ _ G2 He' E2) as (s2 & X2 & Hzs).
  exists (map (fun e => deval_each e dsel true) el). split.
  - apply (Inv_op _ _ _ _ _ _ _ _ _ _ _ s1 s2 _ _ _ I X1 X2).
    + clear -Hrec Hys. revert el Hys. induction Hrec as [|c col cr colr (R1 & _ & _) _ IH]; intros el Hys;
        inversion Hys; subst; cbn [map]; constructor.
      * unfold cont_ok. first [rewrite R1; assumption | assumption].
      * apply IH. assumption.
    + clear -Hzs. induction Hzs; cbn [map]; constructor; auto.
    + clear -Hrec Hys Hzs. revert zcols el Hys Hzs. induction Hrec as [|c col cr colr (_ & R2 & R3) _ IH]; intros zcols el Hys Hzs;
        inversion Hys; subst; inversion Hzs; subst; cbn [map]; constructor.
      * split; cbn; first [assumption | reflexivity | congruence].
      * eapply IH; eassumption.
  - pose proof (Forall2_len _ _ _ Hrec) as Ll. pose proof (Forall2_len _ _ _ Hys) as Ly. congruence.
Qed.

(* ------------------------------------------------------------------ whole programs *)
(* operation kinds covered by the simulation proof below *)
Definition supported (o : cop R) : bool :=
  match o with
  | OMap _ e _ | OFromIter _ _ _ e _ => local_expr e
  | OFromIters2 e1 e2 _ => local_expr e1 && local_expr e2
  | OCollect _ _ _ _ es _ => forallb (@local_expr R) es
  | _ => true
  end.

(* environment position x is created by a declaration of variables with more than j elements *)
Fixpoint is_input (x j k : nat) (prog : list (cop R)) : Prop :=
  match prog with
  | [] => False
  | o :: r =>
      match o with
      | ODecl _ true _ data => k = x /\ j < length data
      | _ => False
      end \/ is_input x j (k + op_outputs o) r
  end.

Lemma sim_step x j ct cenv et eenv ctgt etgt fenv o ct' cs et' es :
  supported o = true ->
  Inv x j ct cenv et eenv ctgt etgt fenv ->
  cstep ops (ct, cenv) o = Some (Ok (ct', cs)) ->
  estep ops (et, eenv) o = Some (Ok (et', es)) ->
  exists fs ctgt' etgt', Inv x j ct' (cenv ++ cs) et' (eenv ++ es) ctgt' etgt' (fenv ++ fs) /\
    (Seeded x j cenv eenv ctgt etgt -> ctgt' = ctgt /\ etgt' = etgt) /\
    (match o with ODecl _ true _ data => length cenv = x /\ j < length data | _ => False end ->
     Seeded x j (cenv ++ cs) (eenv ++ es) ctgt' etgt') /\
    length (cenv ++ cs) = length cenv + op_outputs o.
Proof.
  intros Hs I Hc He. destruct o; try discriminate.
  - destruct (sim_decl _ _ _ _ _ _ _ _ _ _ _ _ _ _ _ _ _ I Hc He) as (fs & c' & e' & I' & K1 & K2).
    exists fs, c', e'. split; [exact I'|]. split; [exact K1|]. split.
    + destruct var; [|contradiction]. intros [Q1 Q2]. apply K2; auto.
    + revert Hc. cbn [cstep]. destruct (_ || _); [discriminate|]. destruct var.
      * destruct (c_variables ops ct 0 tensor sh data). intros E; inversion E. rewrite app_length. reflexivity.
      * intros E; inversion E. rewrite app_length. reflexivity.
  - destruct (sim_unary _ _ _ _ _ _ _ _ _ _ _ _ _ _ _ _ _ I Hc He) as (fs & I').
    exists fs, ctgt, etgt. split; [exact I'|]. split; [auto|]. split; [contradiction|].
    revert Hc. cbn [cstep]. destruct (nth_error cenv a); [|discriminate].
    destruct (unfn_of ops code c); [|discriminate]. destruct (c_unary ops ct assign u c0).
    intros E; inversion E. rewrite app_length. reflexivity.
  - destruct (sim_binary _ _ _ _ _ _ _ _ _ _ _ _ _ _ _ _ _ I Hc He) as (fs & I').
    exists fs, ctgt, etgt. split; [exact I'|]. split; [auto|]. split; [contradiction|].
    revert Hc. cbn [cstep]. destruct (nth_error cenv a); [|discriminate].
    destruct (nth_error cenv b); [|discriminate]. destruct (binfn_of ops code); [|discriminate].
    destruct (negb _); [discriminate|]. destruct (_ && _); [discriminate|].
    destruct (c_binop ops ct mode b0 c c0) as [[[? ?]| |]|]; try discriminate.
    cbn [omap fst snd]. intros E; inversion E. rewrite app_length. reflexivity.
  - destruct (sim_matmul _ _ _ _ _ _ _ _ _ _ _ _ _ _ _ I Hc He) as (fs & I' & Hl).
    exists fs, ctgt, etgt. split; [exact I'|]. split; [auto|]. split; [contradiction|].
    rewrite app_length, Hl. reflexivity.
  - cbn [supported] in Hs. destruct (sim_map _ _ _ _ _ _ _ _ _ _ _ _ _ _ _ _ Hs I Hc He) as (fs & I' & Hl).
    exists fs, ctgt, etgt. split; [exact I'|]. split; [auto|]. split; [contradiction|].
    rewrite app_length, Hl. reflexivity.
  - cbn [supported] in Hs. destruct (sim_fromiter _ _ _ _ _ _ _ _ _ _ _ _ _ _ _ _ _ _ Hs I Hc He) as (fs & I' & Hl).
    exists fs, ctgt, etgt. split; [exact I'|]. split; [auto|]. split; [contradiction|].
    rewrite app_length, Hl. reflexivity.
  - cbn [supported] in Hs. apply andb_true_iff in Hs as [Hs1 Hs2].
    destruct (sim_fromiters2 _ _ _ _ _ _ _ _ _ _ _ _ _ _ _ _ Hs1 Hs2 I Hc He) as (fs & I' & Hl).
    exists fs, ctgt, etgt. split; [exact I'|]. split; [auto|]. split; [contradiction|].
    rewrite app_length, Hl. reflexivity.
  - destruct (sim_view _ _ _ _ _ _ _ _ _ _ _ _ _ _ _ I Hc He) as (fs & I' & Hl).
    exists fs, ctgt, etgt. split; [exact I'|]. split; [auto|]. split; [contradiction|].
    rewrite app_length, Hl. reflexivity.
  - destruct (sim_select _ _ _ _ _ _ _ _ _ _ _ _ _ _ _ I Hc He) as (fs & I' & Hl).
    exists fs, ctgt, etgt. split; [exact I'|]. split; [auto|]. split; [contradiction|].
    rewrite app_length, Hl. reflexivity.
  - cbn [supported] in Hs. destruct (sim_collect _ _ _ _ _ _ _ _ _ _ _ _ _ _ _ _ _ _ _ Hs I Hc He) as (fs & I' & Hl).
    exists fs, ctgt, etgt. split; [exact I'|]. split; [auto|]. split; [contradiction|].
    rewrite app_length, Hl. reflexivity.
Qed.

Lemma run_sim x j : forall prog ct cenv et eenv ctgt etgt fenv n n' m m' ct' cenv' et' eenv',
  forallb supported prog = true ->
  Inv x j ct cenv et eenv ctgt etgt fenv ->
  crun ops (ct, cenv) n prog = Some (m, Ok (ct', cenv')) ->
  erun ops (et, eenv) n' prog = Some (m', Ok (et', eenv')) ->
  exists ctgt' etgt' fenv', Inv x j ct' cenv' et' eenv' ctgt' etgt' fenv' /\
    (Seeded x j cenv eenv ctgt etgt \/ is_input x j (length cenv) prog -> Seeded x j cenv' eenv' ctgt' etgt').
Proof.
  induction prog as [|o r IH]; intros ct cenv et eenv ctgt etgt fenv n n' m m' ct' cenv' et' eenv' Hs I.
  - cbn. intros E1 E2. inversion E1; inversion E2; subst. exists ctgt, etgt, fenv. split; [exact I|].
    intros [H|[]]. exact H.
  - cbn [forallb] in Hs. apply andb_true_iff in Hs as [Hs1 Hs2]. cbn [crun erun].
    destruct (cstep ops (ct, cenv) o) as [[[t1 cs]| |]|] eqn:Ec; try discriminate.
    destruct (forallb _ cs); [|discriminate].
    destruct (estep ops (et, eenv) o) as [[[t2 es]| |]|] eqn:Ee; try discriminate.
    cbn [snd]. intros R1 R2.
    destruct (sim_step _ _ _ _ _ _ _ _ _ _ _ _ _ _ Hs1 I Ec Ee) as (fs & c1 & e1 & I1 & K1 & K2 & K3).
    destruct (IH _ _ _ _ _ _ _ _ _ _ _ _ _ _ _ Hs2 I1 R1 R2) as (c2 & e2 & f2 & I2 & K4).
    exists c2, e2, f2. split; [exact I2|]. intros H. apply K4. destruct H as [H|H]; [|change (is_input x j (length cenv) (o :: r)) with ((match o with ODecl _ true _ data => length cenv = x /\ j < length data | _ => False end) \/ is_input x j (length cenv + op_outputs o) r) in H; destruct H as [H|H]].
    + left. destruct (K1 H) as [-> ->]. apply Seeded_app. exact H.
    + left. apply K2. destruct o; try contradiction. destruct var; [|contradiction].
      destruct H as [-> H]. auto.
    + right. rewrite K3. exact H.
Qed.

Lemma Inv_init x j : Inv x j [] [] [] [] None None [].
Proof.
  unfold Inv, S_, good. cbn. repeat split; auto; try constructor; try discriminate; try lia.
Qed.

Lemma sumn_onehot_r n k (h : nat -> R) : k < n ->
  sumn ops n (fun i => h i [*] nth i (onehot ops n k) rO) = h k.
Proof.
  intros Hk. rewrite <- (sumn_onehot ops Rth n k h Hk). apply sumn_ext. intros i _. ring.
Qed.

Lemma Forall2_nth_error2 {A B} (P : A -> B -> Prop) l1 l2 k a b :
  Forall2 P l1 l2 -> nth_error l1 k = Some a -> nth_error l2 k = Some b -> P a b.
Proof.
  intros H Ha Hb. destruct (Forall2_nth_error P l1 l2 k a H Ha) as [b' [Hb' Hp]]. congruence.
Qed.

Lemma values_agree t1 s1 t2 s2 h : forall (data : list (R * nat)) rs ds,
  Forall2 (rec_ok t1 s1) (map (mk h) data) ds -> Forall2 (rec_ok t2 s2) rs ds ->
  map fst data = map (@r_num R) rs.
Proof.
  induction data as [|q r IH]; intros rs ds H1 H2.
  - inversion H1; subst. inversion H2; subst. reflexivity.
  - cbn [map] in H1. inversion H1 as [|? d ? dr Ha Hb]; subst.
    inversion H2 as [|r0 ? rr ? Hc Hd]; subst. cbn [map]. f_equal; [|eapply IH; eauto].
    destruct Ha as [Q1 _], Hc as [Q2 _]. cbn in Q1. congruence.
Qed.

(* MAIN.  For a container program and its element-by-element version that both complete:
   same shapes and values, and for every input element (x, j), every output element (o, i)
   that is a variable on both tapes: the derivative read off the container tape equals the
   derivative read off the Record tape. *)
Theorem elementwise_equiv prog m m' ct cenv et eenv :
  forallb supported prog = true ->
  crun ops ([], []) 0 prog = Some (m, Ok (ct, cenv)) ->
  erun ops ([], []) 0 prog = Some (m', Ok (et, eenv)) ->
  (forall o c e, nth_error cenv o = Some c -> nth_error eenv o = Some e ->
     c_tensor c = e_tensor e /\ c_shape c = e_shape e /\
     map fst (c_data c) = map (@r_num R) (e_recs e)) /\
  (forall x j o i cx ex vx p rq c e v po ro h h',
     is_input x j 0 prog ->
     nth_error cenv x = Some cx -> nth_error eenv x = Some ex ->
     nth_error (c_data cx) j = Some (vx, p) -> nth_error (e_recs ex) j = Some rq ->
     nth_error cenv o = Some c -> nth_error eenv o = Some e ->
     nth_error (c_data c) i = Some (v, po) -> c_hist c = Some h ->
     nth_error (e_recs e) i = Some ro -> r_hist ro = Some h' ->
     nth p (sweep ops ct po) rO = nth (r_idx rq) (sweep ops et (r_idx ro)) rO).
Proof.
  intros Hs Hc He. split.
  - intros o c e Ho1 Ho2.
    destruct (run_sim 0 0 prog _ _ _ _ _ _ _ _ _ _ _ _ _ _ _ Hs (Inv_init 0 0) Hc He) as (c2 & e2 & f2 & I & _).
    destruct (Inv_get _ _ _ _ _ _ _ _ _ _ _ I Ho1) as (e' & ds & Ee & Hcok & Heok & Hl).
    assert (e' = e) by congruence. subst e'. destruct Hl as [L1 L2]. split; [exact L1|]. split; [exact L2|].
    unfold cont_ok, eok, recs_ok in *. rewrite as_records_mk in Hcok.
    eapply values_agree; eauto.
  - intros x j o i cx ex vx p rq c e v po ro h h' Hin Hx1 Hx2 Hj1 Hj2 Ho1 Ho2 Hi1 Hh Hi2 Hh'.
    destruct (run_sim x j prog _ _ _ _ _ _ _ _ _ _ _ _ _ _ _ Hs (Inv_init x j) Hc He) as (c2 & e2 & f2 & I & K).
    destruct (K (or_intror Hin)) as (cx' & ex' & p' & q' & Q1 & Q2 & Q3 & Q4 & -> & ->).
    assert (cx' = cx) by congruence. assert (ex' = ex) by congruence. subst cx' ex'.
    rewrite nth_error_map, Hj1 in Q3. rewrite nth_error_map, Hj2 in Q4. cbn in Q3, Q4.
    inversion Q3; subst p'. inversion Q4; subst q'. clear Q3 Q4.
    destruct (Inv_get _ _ _ _ _ _ _ _ _ _ _ I Ho1) as (e' & ds & Ee & Hcok & Heok & _).
    assert (e' = e) by congruence. subst e'.
    pose proof I as (G1 & _ & B1 & G2 & _ & B2 & _).
    unfold cont_ok, eok, recs_ok in *. rewrite as_records_mk in Hcok.
    assert (Hi1' : nth_error (map (mk (c_hist c)) (c_data c)) i = Some (mkRec v (Some h) po)).
    { rewrite nth_error_map, Hi1, Hh. reflexivity. }
    destruct (Forall2_nth_error _ _ _ _ _ Hcok Hi1') as [d [Hd [_ Hc1]]].
    pose proof (Forall2_nth_error2 _ _ _ _ _ _ Heok Hi2 Hd) as [_ He1].
    cbn [r_hist r_idx] in Hc1. rewrite Hh' in He1. destruct Hc1 as [Pc Tc], He1 as [Pe Te].
    pose proof (sweep_is_tangent ops Rth ct (sd_of (S_ ct (Some p))) po (proj2 G1) Pc) as W1.
    pose proof (sweep_is_tangent ops Rth et (sd_of (S_ et (Some (r_idx rq)))) (r_idx ro) (proj2 G2) Pe) as W2.
    unfold tan in Tc, Te. rewrite Tc in W1. rewrite Te in W2.
    unfold sd_of, S_ in W1, W2. cbn [seeds_of] in W1, W2.
    rewrite sumn_onehot_r in W1 by (apply B1; reflexivity).
    rewrite sumn_onehot_r in W2 by (apply B2; reflexivity).
    congruence.
Qed.


(* ------------------------------------------------------------------ the constant side is inert
   The index stored next to a constant (history None) is never read: replacing the indexes of a
   constants container by anything else changes neither the tape nor the result of a binary
   operation or of a matrix multiplication.  (Before the repair of record_scalar_product the
   constant side's index 0 was recorded as a parent.) *)
Definition same_numbers (y y' : cont) : Prop :=
  c_hist y = None /\ c_hist y' = None /\ c_tensor y' = c_tensor y /\ c_shape y' = c_shape y /\
  map fst (c_data y') = map fst (c_data y).

Lemma x_loop_inert f : forall xs ys ys' t, map fst ys' = map fst ys ->
  binary_x_loop ops t f xs ys' = binary_x_loop ops t f xs ys.
Proof.
  induction xs as [|[x p] xr IH]; intros [|[y q] yr] [|[y' q'] yr'] t H; cbn in *; try discriminate; try reflexivity.
  inversion H; subst. rewrite (IH yr yr') by assumption. reflexivity.
Qed.

Lemma y_loop_inert f : forall xs xs' ys t, map fst xs' = map fst xs ->
  binary_y_loop ops t f xs' ys = binary_y_loop ops t f xs ys.
Proof.
  induction xs as [|[x p] xr IH]; intros [|[x' p'] xr'] [|[y q] yr] t H; cbn in *; try discriminate; try reflexivity.
  inversion H; subst. rewrite (IH xr' yr) by assumption. reflexivity.
Qed.

Lemma none_map_inert_r (f : binfn R) : forall (xs ys ys' : list (R * nat)), map fst ys' = map fst ys ->
  map (fun p => (bf f (fst (fst p)) (fst (snd p)), 0)) (combine xs ys') =
  map (fun p => (bf f (fst (fst p)) (fst (snd p)), 0)) (combine xs ys).
Proof.
  induction xs as [|x xr IH]; intros [|y yr] [|y' yr'] H; cbn in *; try discriminate; try reflexivity.
  inversion H. rewrite (IH yr yr') by assumption. congruence.
Qed.

Lemma none_map_inert_l (f : binfn R) : forall (xs xs' ys : list (R * nat)), map fst xs' = map fst xs ->
  map (fun p => (bf f (fst (fst p)) (fst (snd p)), 0)) (combine xs' ys) =
  map (fun p => (bf f (fst (fst p)) (fst (snd p)), 0)) (combine xs ys).
Proof.
  induction xs as [|x xr IH]; intros [|x' xr'] [|y yr] H; cbn in *; try discriminate; try reflexivity.
  inversion H. rewrite (IH xr' yr) by assumption. congruence.
Qed.

Theorem constant_side_inert t f x y y' : same_numbers y y' ->
  c_binary ops t f x y' = c_binary ops t f x y /\
  (c_tensor x = c_tensor y -> c_shape x = c_shape y ->
   omap (fun p => (fst p, c_data (snd p), c_hist (snd p))) (c_binary ops t f y' x) =
   omap (fun p => (fst p, c_data (snd p), c_hist (snd p))) (c_binary ops t f y x)).
Proof.
  intros (Hy & Hy' & Ht & Hs & Hd). split.
  - unfold c_binary. rewrite Hy, Hy', Hs.
    destruct (negb _); [reflexivity|]. destruct (c_hist x).
    + rewrite (x_loop_inert f _ _ _ t Hd). reflexivity.
    + rewrite (none_map_inert_r f _ _ _ Hd). reflexivity.
  - intros Tx Sx. unfold c_binary. rewrite Hy, Hy', Hs, Ht.
    destruct (negb _); [reflexivity|]. destruct (c_hist x).
    + rewrite (y_loop_inert f _ _ _ t Hd).
      destruct (binary_y_loop ops t f (c_data y) (c_data x)). reflexivity.
    + rewrite (none_map_inert_l f _ _ _ Hd). reflexivity.
Qed.

End C06.

(* a ring instance for the non-vacuity examples (only + - * matter to the theorems) *)
Definition Zops6 : numops Z := {|
  nzero := 0%Z; none_ := 1%Z; nadd := Z.add; nsub := Z.sub; nmul := Z.mul; ndiv := Z.div; nneg := Z.opp;
  neqb := Z.eqb; nltb := Z.ltb; nleb := Z.leb;
  nsqrt := fun x => x; nexp := fun x => x; nln := fun x => x; nsin := fun x => x; ncos := fun x => x;
  npow := fun x _ => x; npi := 3%Z; nof_N := fun n => Some (Z.of_N n); nenc := SZ; ndec := dZ |}.
Lemma Zops6_ring : ring_theory (nzero Zops6) (none_ Zops6) (nadd Zops6) (nmul Zops6) (nsub Zops6) (nneg Zops6) (@eq Z).
Proof. exact InitialRing.Zth. Qed.
