(* C08, QR (mathcomp / ssreflect style): R is upper triangular for every regular run whose oracle
   also returned a square root of the squared length of each reflected sub-column.
   Step c of the loop: H = 1 - 2 w w^T with w supported on the coordinates >= c.
   - a column j < c of r that is already zero below row j (in particular from row c on) is left
     unchanged (w^T r_j = 0);
   - column c: with x the sub-column, u = x + a e, a^2 = x.x:  u.u = 2 u.x, so
     2 w (w^T r_c) = u on the coordinates >= c and the new sub-column is x - u = -a e. *)
From Coq Require Import PeanoNat List.
From mathcomp Require Import all_ssreflect all_algebra zify.
From EasyML Require Import Base.Sx Model.Num Model.LinAlg Model.Decomp Proofs.C07P1 Proofs.C07P2
     Proofs.C08P3 Proofs.C08P4 Proofs.C08P7.
Set Implicit Arguments. Unset Strict Implicit. Unset Printing Implicit Defensive.
Import GRing.Theory Num.Theory.
Local Open Scope ring_scope.

Lemma nth_skipn_add (A : Type) (d : A) c (l : list A) t :
  List.nth t (List.skipn c l) d = List.nth (c + t)%N l d.
Proof.
  elim: c l => [|c IH] l //=. case: l => [|a l] /=; last exact: IH.
  by case: (t).
Qed.

Section Tri.
Variable F : realFieldType.
Variable sq : F -> F.
Notation ops := (rops sq).

Lemma rops_ring8 : ring_theory (nzero ops) (none_ ops) (nadd ops) (nmul ops) (nsub ops) (nneg ops) (@eq F).
Proof.
  split => //=; [exact: add0r|exact: addrC|exact: addrA|exact: mul1r|exact: mulrC|exact: mulrA
                 |exact: mulrDl|exact: subrr].
Qed.

(* sum over the inset coordinates *)
Lemma sum_inset rows c n' (g f : nat -> F) : (c + n')%N = rows ->
  \sum_(k < rows) (if (c <= k)%N then g (k - c)%N else 0) * f k =
  \sum_(0 <= t < n') g t * f (c + t)%N.
Proof.
  move=> Hrows.
  rewrite -(big_mkord xpredT (fun k => (if (c <= k)%N then g (k - c)%N else 0) * f k)).
  rewrite -Hrows (@big_cat_nat _ _ _ c) //=; last by rewrite leq_addr.
  rewrite big_nat_cond big1 ?add0r; last first.
  { move=> t /andP [/andP [_ Ht] _]. by rewrite leqNgt Ht /= mul0r. }
  rewrite -{1}[c]add0n big_addn addKn.
  apply: eq_big_nat => t _. by rewrite leq_addl addnK addnC.
Qed.

(* entries of a reflected matrix *)
Lemma hh_mul_entry rows cols (w : 'cV[F]_rows) (R : 'M[F]_(rows, cols)) i j :
  (hh w *m R) i j = R i j - 2%:R * (w i 0 * \sum_k w k 0 * R k j).
Proof.
  rewrite /hh mulmxBl mul1mx -scalemxAl -mulmxA !mxE big_ord1. congr (_ - _ * (_ * _)).
  rewrite !mxE. apply: eq_bigr => k _. by rewrite !mxE.
Qed.

(* u.u = 2 u.x when a^2 = x.x *)
Lemma hu_dot (x : list F) :
  sq (sumsq ops x) * sq (sumsq ops x) = sumsq ops x ->
  sumsq ops (householder_u ops x) =
  2%:R * \sum_(0 <= t < length x) List.nth t (householder_u ops x) 0 * List.nth t x 0.
Proof.
  case: x => [|x0 xs] Hlen; first by rewrite /sumsq /= big_geq // mulr0.
  rewrite /householder_u /euclidean_length /=.
  set len := sq (sumsq ops (x0 :: xs)) in Hlen *.
  set a := if 0 < x0 then len else - len.
  have Ha : a * a = x0 * x0 + \sum_(e <- xs) e * e.
  { have -> : a * a = len * len by rewrite /a; case: (0 < x0); rewrite ?mulrNN.
    by rewrite Hlen sumsq_sum big_cons. }
  rewrite sumsq_sum big_cons big_nat_recl //=.
  rewrite (sum_nth (fun e => e * e)).
  set S := \sum_(e <- xs) e * e in Ha *.
  have -> : S = a * a - x0 * x0 by rewrite Ha addrC addKr.
  rewrite mulr_natl mulr2n. exact: (@hu_scalar F ops rops_ring8 a x0).
Qed.

Lemma nth_hu_tail (x : list F) t :
  List.nth t.+1 (householder_u ops x) 0 = List.nth t.+1 x 0.
Proof. by case: x. Qed.

Lemma nth_hv (x : list F) t :
  List.nth t (householder_v ops x) 0 =
  List.nth t (householder_u ops x) 0 / sq (sumsq ops (householder_u ops x)).
Proof.
  rewrite /householder_v /euclidean_length /=.
  set q := sq _. rewrite -[X in List.nth t _ X](mul0r q^-1).
  exact: (List.map_nth (fun e => e / q)).
Qed.

(* column j < c is zero strictly below the diagonal, for all rows *)
Definition tri_upto (rows cols c : nat) (r : list (list F)) : Prop :=
  forall i j, (j < c)%N -> (j < cols)%N -> (j < i)%N -> (i < rows)%N -> mget ops r i j = 0.

(* the oracle returned a square root of the squared length of every reflected sub-column *)
Fixpoint qr_lengths_ok (rows : nat) (cs : list nat) (r : list (list F)) : Prop :=
  match cs with
  | [::] => True
  | c :: cs' =>
      let col := List.skipn c (column ops r c) in
      sq (sumsq ops col) * sq (sumsq ops col) = sumsq ops col /\
      qr_lengths_ok rows cs' (mmul ops (pad_h ops (householder ops col) c rows) r)
  end.

Lemma qr_step_tri rows cols c (r : list (list F)) :
  wf2 rows cols r -> (c < rows)%N -> (c < cols)%N ->
  let col := List.skipn c (column ops r c) in
  sumsq ops (householder_u ops col) != 0 ->
  sq (sumsq ops (householder_u ops col)) * sq (sumsq ops (householder_u ops col)) =
    sumsq ops (householder_u ops col) ->
  sq (sumsq ops col) * sq (sumsq ops col) = sumsq ops col ->
  tri_upto rows cols c r ->
  tri_upto rows cols c.+1 (mmul ops (pad_h ops (householder ops col) c rows) r).
Proof.
  move=> Hr Hc Hcc col Hs Hsq Hlen Htri.
  have Hrl : length r = rows by case: Hr.
  have Hcl : length col = (rows - c)%N.
  { rewrite /col List.skipn_length length_column Hrl. by []. }
  have Hrows : (c + length col)%N = rows by rewrite Hcl; lia.
  have Hcolnth : forall t, (c + t < rows)%N -> List.nth t col 0 = mget ops r (c + t) c.
  { move=> t Ht. rewrite /col nth_skipn_add nth_column // Hrl. exact/ltP. }
  set h := pad_h ops (householder ops col) c rows.
  have Hmx : mxo sq rows cols (mmul ops h r) = hh (wvec sq rows c col) *m mxo sq rows cols r.
  { rewrite (@mxo_mmul F sq rows rows cols _ _ (wf2_pad_h ops _ c rows) Hr); last by lia.
    by rewrite mxo_pad_householder. }
  set u := householder_u ops col in Hs Hsq.
  set s := sumsq ops u in Hs Hsq.
  have Hq0 : sq s != 0.
  { apply/eqP => E. move: Hsq. rewrite E mul0r => /esym /eqP. by rewrite (negbTE Hs). }
  have Hsigma : forall j : 'I_cols,
    \sum_k wvec sq rows c col k 0 * mxo sq rows cols r k j =
    \sum_(0 <= t < length col) List.nth t (householder_v ops col) 0 * mget ops r (c + t) j.
  { move=> j. under eq_bigr => k _ do rewrite !mxE.
    exact: (sum_inset (fun t => List.nth t (householder_v ops col) 0) (fun k => mget ops r k j) Hrows). }
  move=> i j Hj Hjc Hji Hi.
  have := congr1 (fun M : 'M[F]_(rows, cols) => M (Ordinal Hi) (Ordinal Hjc)) Hmx.
  rewrite [LHS]mxE /= => ->. rewrite hh_mul_entry Hsigma [mxo _ _ _ _ _ _]mxE /=.
  have [Hjlt|Hjeq] : (j < c)%N \/ j = c by lia.
  - (* an already finished column *)
    rewrite big_nat big1 ?mulr0 ?subr0; first by apply: Htri.
    move=> t /andP [_ Ht]. rewrite (Htri (c + t)%N j) ?mulr0 //; lia.
  - (* the column being reflected *)
    subst j.
    have -> : \sum_(0 <= t < length col) List.nth t (householder_v ops col) 0 * mget ops r (c + t) c
              = (\sum_(0 <= t < length col) List.nth t u 0 * List.nth t col 0) / sq s.
    { rewrite mulr_suml. apply: eq_big_nat => t /andP [_ Ht].
      rewrite nth_hv -/u -/s -Hcolnth; last by lia. by rewrite mulrAC. }
    set D := \sum_(0 <= t < length col) _.
    have HsD : s = 2%:R * D by rewrite /s /u /D; exact: hu_dot.
    rewrite mxE.
    have -> : (c <= i)%N = true by lia.
    rewrite nth_hv -/u -/s.
    have -> : mget ops r i c = List.nth (i - c)%N col 0.
    { rewrite Hcolnth; last by lia. congr (mget _ _ _ _). lia. }
    have -> : List.nth (i - c)%N u 0 = List.nth (i - c)%N col 0.
    { have -> : (i - c)%N = (i - c).-1.+1 by lia. exact: nth_hu_tail. }
    set X := List.nth _ col 0.
    have -> : 2%:R * (X / sq s * (D / sq s)) = X.
    { by rewrite mulf_div Hsq mulrA [2%:R * (X * D)]mulrCA -HsD mulfK. }
    by rewrite subrr.
Qed.

Lemma qr_loop_tri rows cols k : forall c0 q (r : list (list F)),
  wf2 rows cols r -> (c0 + k <= rows)%N -> (c0 + k <= cols)%N ->
  qr_regular sq rows (List.seq c0 k) r -> qr_lengths_ok rows (List.seq c0 k) r ->
  tri_upto rows cols c0 r ->
  tri_upto rows cols (c0 + k) (qr_loop ops rows (List.seq c0 k) q r).2.
Proof.
  elim: k => [|k IH] c0 q r Hr H1 H2 /= Hreg Hlen Htri; first by rewrite addn0.
  case: Hreg => Hs [Hsq Hreg]. case: Hlen => Hl Hlen.
  rewrite addnS -addSn. apply: IH => //; try lia.
  - apply: (@wf2_mmul F ops rows rows cols) => //; [exact: wf2_pad_h|lia].
  - apply: qr_step_tri => //; try lia. exact/eqP.
Qed.

(* R is upper triangular *)
Theorem qr_upper_triangular rows cols (m q r : list (list F)) :
  wf2 rows cols m -> (1 <= rows)%N -> qr ops m = Some (q, r) ->
  qr_regular sq rows (List.seq 0 (Nat.min (rows - 1) cols)) m ->
  qr_lengths_ok rows (List.seq 0 (Nat.min (rows - 1) cols)) m ->
  forall i j, (j < i)%N -> (i < rows)%N -> (j < cols)%N -> mget ops r i j = 0.
Proof.
  move=> Hm Hrows Hqr Hreg Hlen i j Hji Hi Hj.
  have Hc : mcols m = cols by apply: wf2_mcols Hm _; apply/leP.
  have Hl : mrows m = rows by case: Hm.
  move: Hqr. rewrite /qr Hl Hc. case: Nat.ltb_spec => // Hcr [_ <-].
  have := @qr_loop_tri rows cols (Nat.min (rows - 1) cols) 0 None m Hm.
  rewrite add0n. apply=> //; try lia.
Qed.
End Tri.
