(* The definitions that tools/gen_arith.py regenerates from /repo's Rust source on every run
   (Gen/Arith.v) are equal to the hand-written model functions of Model/Fallible.v — the
   functions the C16 theorems are about.  Each proof is unfolding plus a case analysis on the
   machine operations; when the Rust source changes meaning, the lemma named in the failure
   message stops being provable (and a function that leaves the translator's subset is not
   emitted at all, so its lemma does not even type-check).  When the script written against
   today's term shape fails, gen_equiv (Proofs/GenTac.v) tries a shape-independent semantic
   finisher before declaring the lemma broken, so `if`->`match`, commuted + * min max, flipped
   or negated comparisons and exchanged branches do not raise a false alarm.
   The last section ties the generated definitions to the ideal-arithmetic models used by
   C12 (Model/MatrixViews.v), C02 (Model/Views.v) and C01 (Model/Shape.v). *)
From Coq Require Import List ZArith NArith Bool Arith Lia.
From EasyML Require Import Base.Sx Model.Shape Model.U64 Model.Fallible Gen.Arith.
Import ListNotations.
From EasyML Require Import Proofs.GenTac.
Open Scope N_scope.

(* gen_equiv: Proofs/GenTac.v (the specific script, then the shape-independent finisher) *)

Ltac case_all :=
  repeat match goal with
         | |- context [match ?x with _ => _ end] =>
             match x with
             | context [match _ with _ => _ end] => fail 1
             | _ => destruct x; cbn [obind omap]
             end
         end.

Lemma u_add_comm m a b : u_add m a b = u_add m b a.
Proof. unfold u_add. rewrite (N.add_comm a b). reflexivity. Qed.

(* ---- src/matrices/views/ranges.rs ---- *)
Lemma gen_IndexRange_new_eq : forall md s l, gen_IndexRange_new md s l = Ok (mkRange s l).
Proof. gen_equiv gen_IndexRange_new_eq by (intros; reflexivity). Qed.

Lemma gen_IndexRange_map_eq : forall md r i, gen_IndexRange_map md r i = ir_map md r i.
Proof.
  gen_equiv gen_IndexRange_map_eq by
    (intros; unfold gen_IndexRange_map, ir_map; case_all; reflexivity).
Qed.

Lemma gen_IndexRange_mask_eq : forall md r i, gen_IndexRange_mask md r i = ir_mask r i.
Proof.
  gen_equiv gen_IndexRange_mask_eq by
    (intros; unfold gen_IndexRange_mask, ir_mask; case_all; reflexivity).
Qed.

Lemma gen_IndexRange_clip_eq : forall md r mx, gen_IndexRange_clip md r mx = ir_clip r mx.
Proof.
  gen_equiv gen_IndexRange_clip_eq by
    (intros; unfold gen_IndexRange_clip, ir_clip; case_all; reflexivity).
Qed.

Lemma gen_IndexRange_from_range_eq : forall md s e,
  gen_IndexRange_from_range md (s, e) = Ok (range_of_start_end s e).
Proof.
  gen_equiv gen_IndexRange_from_range_eq by
    (intros; unfold gen_IndexRange_from_range, gen_IndexRange_new, range_of_start_end; cbn; case_all; reflexivity).
Qed.

(* ---- src/tensors/views/ranges.rs: one iteration of range_exceeds_bounds ---- *)
Definition exceeds_flow (b : bool) : flow bool unit := if b then Return true else Next tt.

Lemma gen_range_exceeds_bounds_body_eq : forall md nm len r,
  gen_range_exceeds_bounds_body md (nm, len) (Some r) = omap exceeds_flow (ir_exceeds r len) /\
  gen_range_exceeds_bounds_body md (nm, len) None = Ok (Next tt).
Proof.
  gen_equiv gen_range_exceeds_bounds_body_eq by
    (intros; unfold gen_range_exceeds_bounds_body, ir_exceeds, exceeds_flow; cbn [fst snd];
     split; case_all; reflexivity).
Qed.

(* ---- src/tensors/views/reverse.rs: one element of reverse_indexes ---- *)
Lemma gen_reverse_indexes_elem_eq : forall md i nm len,
  gen_reverse_indexes_elem md i (nm, len) true = rev_index md len i /\
  gen_reverse_indexes_elem md i (nm, len) false = Ok i.
Proof.
  gen_equiv gen_reverse_indexes_elem_eq by
    (intros; unfold gen_reverse_indexes_elem, rev_index; cbn [fst snd]; split; case_all; reflexivity).
Qed.

(* ---- src/matrices/mod.rs ---- *)
Lemma gen_Matrix_get_index_eq : forall md rows cols row col,
  gen_Matrix_get_index md (mkGenMatrix rows cols) row col =
  obind (u_mul md row cols) (fun p => u_add md p col).
Proof.
  gen_equiv gen_Matrix_get_index_eq by
    (intros; unfold gen_Matrix_get_index, gen_Matrix_columns; cbn [obind gm_columns gm_rows];
     destruct (u_mul md row cols); cbn [obind]; try rewrite u_add_comm; reflexivity).
Qed.

Lemma gen_Matrix_try_get_reference_eq : forall md rows cols row col,
  gen_Matrix_try_get_reference md (mkGenMatrix rows cols) row col =
  matrix_try_index md rows cols row col.
Proof.
  gen_equiv gen_Matrix_try_get_reference_eq by
    (intros; unfold gen_Matrix_try_get_reference, matrix_try_index; rewrite gen_Matrix_get_index_eq;
     unfold gen_Matrix_rows, gen_Matrix_columns; cbn [obind gm_columns gm_rows];
     destruct (row <? rows); cbn [obind andb]; [destruct (col <? cols); cbn [obind]|];
     try reflexivity; destruct (u_mul md row cols); cbn [obind omap]; try reflexivity;
     match goal with |- context [u_add ?m ?a ?b] => destruct (u_add m a b) end; reflexivity).
Qed.

Lemma gen_Matrix_try_get_reference_mut_eq : forall md rows cols row col,
  gen_Matrix_try_get_reference_mut md (mkGenMatrix rows cols) row col =
  matrix_try_index md rows cols row col.
Proof.
  gen_equiv gen_Matrix_try_get_reference_mut_eq by
    (intros; unfold gen_Matrix_try_get_reference_mut, matrix_try_index; rewrite gen_Matrix_get_index_eq;
     unfold gen_Matrix_rows, gen_Matrix_columns; cbn [obind gm_columns gm_rows];
     destruct (row <? rows); cbn [obind andb]; [destruct (col <? cols); cbn [obind]|];
     try reflexivity; destruct (u_mul md row cols); cbn [obind omap]; try reflexivity;
     match goal with |- context [u_add ?m ?a ?b] => destruct (u_add m a b) end; reflexivity).
Qed.

(* ---- src/tensors/mod.rs: get_index_direct, one iteration and the whole loop ---- *)
Lemma gen_get_index_direct_body_eq : forall md acc i s nm l,
  gen_get_index_direct_body md acc i s (nm, l) =
  if l <=? i then Ok (Return None)
  else obind (u_mul md i s) (fun p => omap Next (u_add md acc p)).
Proof.
  gen_equiv gen_get_index_direct_body_eq by
    (intros; unfold gen_get_index_direct_body; cbn [fst snd]; case_all; reflexivity).
Qed.

Fixpoint zip3 (idx st : list N) (sh : list (N * N)) : list (N * N * (N * N)) :=
  match idx, st, sh with
  | i :: idx', s :: st', d :: sh' => (i, s, d) :: zip3 idx' st' sh'
  | _, _, _ => []
  end.

Lemma gen_get_index_direct_loop : forall md idx st (sh : list (N * N)) acc,
  length idx = length sh -> length st = length sh ->
  gen_for (fun (st0 : N) (x : N * N * (N * N)) =>
             let index := st0 in let '(indexes_d, strides_d, shape_d) := x in
             gen_get_index_direct_body md index indexes_d strides_d shape_d)
          (fun st0 : N => let index := st0 in Ok (Some index)) acc (zip3 idx st sh) =
  gid_m md idx st (map snd sh) acc.
Proof.
  induction idx as [|i idx IH]; intros [|s st] [|[nm l] sh] acc Hi Hs; try discriminate; cbn [zip3 gen_for gid_m map snd].
  - reflexivity.
  - rewrite gen_get_index_direct_body_eq.
    destruct (l <=? i); cbn [obind]; [reflexivity|].
    destruct (u_mul md i s); cbn [obind omap]; try reflexivity.
    destruct (u_add md acc a); cbn [obind omap]; try reflexivity.
    apply IH; cbn in Hi, Hs; congruence.
Qed.

Lemma gen_get_index_direct_eq : forall md idx st (sh : list (N * N)),
  length idx = length sh -> length st = length sh ->
  gen_get_index_direct md (zip3 idx st sh) = gid_m md idx st (map snd sh) 0.
Proof.
  gen_equiv gen_get_index_direct_eq by
    (intros; unfold gen_get_index_direct; apply gen_get_index_direct_loop; assumption).
Qed.

(* ---- the whole of range_exceeds_bounds: the first dimension that exceeds decides ---- *)
Fixpoint exceeds_any (sh : list (N * N)) (rs : list (option index_range)) : bool :=
  match sh, rs with
  | d :: sh', Some r :: rs' =>
      match checked_add (r_start r) (r_length r) with
      | None => true
      | Some e => if snd d <? e then true else exceeds_any sh' rs'
      end
  | _ :: sh', None :: rs' => exceeds_any sh' rs'
  | _, _ => false
  end.

Lemma gen_range_exceeds_bounds_eq : forall md sh rs,
  gen_range_exceeds_bounds md (combine sh rs) = Ok (exceeds_any sh rs).
Proof.
  gen_equiv gen_range_exceeds_bounds_eq by
    (intros md sh; unfold gen_range_exceeds_bounds;
     induction sh as [|[nm len] sh IH]; intros [|[r|] rs]; cbn [combine gen_for exceeds_any snd]; try reflexivity;
     [ rewrite (proj1 (gen_range_exceeds_bounds_body_eq md nm len r)); unfold ir_exceeds, exceeds_flow;
       destruct (checked_add (r_start r) (r_length r)); cbn [omap obind]; [destruct (len <? n); cbn [obind]|]; try reflexivity; apply IH
     | rewrite (proj2 (gen_range_exceeds_bounds_body_eq md nm len r)) || rewrite (proj2 (gen_range_exceeds_bounds_body_eq md nm len (mkRange 0 0)));
       cbn [obind]; apply IH ]).
Qed.

(* ---- src/tensors/mod.rs: InvalidShapeError::checked_elements (try_fold with checked_mul) ---- *)
Lemma gen_checked_elements_step_eq : forall md acc nm l,
  gen_checked_elements_step md acc (nm, l) = Ok (checked_mul acc l).
Proof. gen_equiv gen_checked_elements_step_eq by (intros; reflexivity). Qed.

Lemma gen_checked_elements_from : forall md (sh : list (N * N)) acc,
  gen_try_fold (gen_checked_elements_step md) acc sh = Ok (checked_prod_from acc (map snd sh)).
Proof.
  intros md. induction sh as [|[nm l] sh IH]; intros acc; cbn [gen_try_fold checked_prod_from map snd].
  - reflexivity.
  - rewrite gen_checked_elements_step_eq. cbn [obind]. unfold checked_mul.
    destruct (acc * l <=? usize_max); [apply IH|reflexivity].
Qed.

Lemma gen_checked_elements_eq : forall md (sh : list (N * N)),
  gen_checked_elements md sh = Ok (checked_prod_from 1 (map snd sh)).
Proof.
  gen_equiv gen_checked_elements_eq by
    (intros; unfold gen_checked_elements; apply gen_checked_elements_from).
Qed.

(* ==== second extension wave: iterator chains, from_fn frames ==== *)

(* Iterator::product over usize = left fold of the machine multiplication = Fallible.prod_legacy *)
Lemma gen_fold_mul_prod_legacy : forall md l acc, gen_fold (u_mul md) acc l = prod_legacy md l acc.
Proof.
  intros md. induction l as [|x l IH]; intros acc; cbn [gen_fold prod_legacy]; [reflexivity|].
  destruct (u_mul md acc x); cbn [obind]; auto.
Qed.

Lemma gen_product_eq : forall md l, gen_product md l = prod_legacy md l 1.
Proof. intros. unfold gen_product. apply gen_fold_mul_prod_legacy. Qed.

(* ---- src/tensors/dimensions.rs: elements = shape.iter().map(|d| d.1).product() ---- *)
Lemma gen_elements_eq : forall md (sh : list (N * N)),
  gen_elements md sh = prod_legacy md (map snd sh) 1.
Proof.
  gen_equiv gen_elements_eq by
    (intros; unfold gen_elements; rewrite gen_product_eq; reflexivity).
Qed.

(* ---- src/tensors/mod.rs: compute_strides, one element and the from_fn frame ---- *)
Definition strides_elem_m (md : mode) (lens : list N) (d : N) : outcome N :=
  obind (u_add md d 1) (fun d1 => prod_legacy md (skipn (N.to_nat d1) lens) 1).

Lemma map_skipn' {A B} (f : A -> B) : forall n l, map f (skipn n l) = skipn n (map f l).
Proof. induction n as [|n IH]; intros [|x l]; cbn [skipn map]; auto. Qed.

Lemma gen_compute_strides_elem_eq : forall md (sh : list (N * N)) d,
  gen_compute_strides_elem md sh d = strides_elem_m md (map snd sh) d.
Proof.
  gen_equiv gen_compute_strides_elem_eq by
    (intros; unfold gen_compute_strides_elem, strides_elem_m;
     destruct (u_add md d 1); cbn [obind]; try reflexivity;
     rewrite gen_product_eq, <- map_skipn'; reflexivity).
Qed.

Lemma gen_map_m_ext {X Y} (f g : X -> outcome Y) : forall l,
  (forall x, In x l -> f x = g x) -> gen_map_m f l = gen_map_m g l.
Proof.
  induction l as [|x l IH]; intros H; cbn [gen_map_m]; [reflexivity|].
  rewrite (H x (or_introl eq_refl)), IH; [reflexivity|]. intros y Hy. apply H. right. exact Hy.
Qed.

Lemma gen_map_m_ok {X Y} (f : X -> outcome Y) (g : X -> Y) : forall l,
  (forall x, In x l -> f x = Ok (g x)) -> gen_map_m f l = Ok (map g l).
Proof.
  induction l as [|x l IH]; intros H; cbn [gen_map_m map]; [reflexivity|].
  rewrite (H x (or_introl eq_refl)). cbn [obind]. rewrite IH; [reflexivity|].
  intros y Hy. apply H. right. exact Hy.
Qed.

Lemma gen_range_0 : forall n, gen_range 0 (N.of_nat n) = map N.of_nat (seq 0 n).
Proof.
  intros. unfold gen_range. rewrite N.sub_0_r, Nat2N.id. apply map_ext. intros. apply N.add_0_l.
Qed.

Lemma gen_compute_strides_eq : forall md (sh : list (N * N)),
  gen_compute_strides md sh =
  gen_map_m (strides_elem_m md (map snd sh)) (map N.of_nat (seq 0 (length sh))).
Proof.
  gen_equiv gen_compute_strides_eq by
    (intros; unfold gen_compute_strides; rewrite gen_range_0; apply gen_map_m_ext;
     intros; apply gen_compute_strides_elem_eq).
Qed.

(* ---- src/tensors/views/reverse.rs: the whole of reverse_indexes (from_fn frame) ---- *)
Fixpoint zip3r (idx : list N) (sh : list (N * N)) (rv : list bool) : list (N * (N * N) * bool) :=
  match idx, sh, rv with
  | i :: idx', d :: sh', b :: rv' => (i, d, b) :: zip3r idx' sh' rv'
  | _, _, _ => []
  end.

Definition rev_elem_m (md : mode) (x : N * (N * N) * bool) : outcome N :=
  let '(i, d, b) := x in if (b : bool) then rev_index md (snd d) i else Ok i.

Lemma gen_reverse_indexes_eq : forall md xs,
  gen_reverse_indexes md xs = gen_map_m (rev_elem_m md) xs.
Proof.
  gen_equiv gen_reverse_indexes_eq by
    (intros; unfold gen_reverse_indexes; apply gen_map_m_ext; intros [[i [nm len]] b] _;
     unfold rev_elem_m; cbn [snd];
     destruct b; [apply (proj1 (gen_reverse_indexes_elem_eq md i nm len))
                 | apply (proj2 (gen_reverse_indexes_elem_eq md i nm len))]).
Qed.

(* ---- src/tensors/mod.rs: get_index_direct_unchecked (no bounds test) ---- *)
Fixpoint gidu_m (md : mode) (idx st : list N) (acc : N) : outcome N :=
  match idx, st with
  | i :: idx', s :: st' => obind (u_mul md i s) (fun p => obind (u_add md acc p) (fun a => gidu_m md idx' st' a))
  | _, _ => Ok acc
  end.

Lemma gen_get_index_direct_unchecked_body_eq : forall md acc i s,
  gen_get_index_direct_unchecked_body md acc i s =
  obind (u_mul md i s) (fun p => omap Next (u_add md acc p)).
Proof.
  gen_equiv gen_get_index_direct_unchecked_body_eq by
    (intros; unfold gen_get_index_direct_unchecked_body; case_all; reflexivity).
Qed.

Lemma gen_get_index_direct_unchecked_eq : forall md idx st,
  gen_get_index_direct_unchecked md (combine idx st) = gidu_m md idx st 0.
Proof.
  gen_equiv gen_get_index_direct_unchecked_eq by
    (intros md idx st; unfold gen_get_index_direct_unchecked; generalize 0;
     revert st; induction idx as [|i idx IH]; intros [|s st] acc; cbn [combine gen_for gidu_m]; try reflexivity;
     rewrite gen_get_index_direct_unchecked_body_eq;
     destruct (u_mul md i s); cbn [obind omap]; try reflexivity;
     destruct (u_add md acc a); cbn [obind omap]; try reflexivity; apply IH).
Qed.

(* ---- src/tensors/views/ranges.rs: the loops that write arrays (clip_range_shape,
        clip_masked_shape): one iteration = (new (name, length) of the shape, clipped range) ---- *)
Lemma gen_clip_range_shape_body_eq : forall md nm len r,
  gen_clip_range_shape_body md (nm, len) r = omap (fun c => ((nm, r_length c), c)) (ir_clip r len).
Proof.
  gen_equiv gen_clip_range_shape_body_eq by
    (intros; unfold gen_clip_range_shape_body; cbn [fst snd]; rewrite gen_IndexRange_clip_eq; reflexivity).
Qed.

Lemma gen_clip_masked_shape_body_eq : forall md nm len r,
  gen_clip_masked_shape_body md (nm, len) r =
  obind (ir_clip r len) (fun c => omap (fun l => ((nm, l), c)) (u_sub md len (r_length c))).
Proof.
  gen_equiv gen_clip_masked_shape_body_eq by
    (intros; unfold gen_clip_masked_shape_body; cbn [fst snd]; rewrite gen_IndexRange_clip_eq;
     unfold ir_clip; cbn [obind]; case_all; reflexivity).
Qed.

Lemma gen_clip_range_shape_eq : forall md xs,
  gen_clip_range_shape md xs =
  gen_map_m (fun x => omap (fun c => ((fst (fst x), r_length c), c)) (ir_clip (snd x) (snd (fst x)))) xs.
Proof.
  gen_equiv gen_clip_range_shape_eq by
    (intros; unfold gen_clip_range_shape; apply gen_map_m_ext; intros [[nm len] r] _;
     apply gen_clip_range_shape_body_eq).
Qed.

Lemma gen_clip_masked_shape_eq : forall md xs,
  gen_clip_masked_shape md xs =
  gen_map_m (fun x => obind (ir_clip (snd x) (snd (fst x)))
                            (fun c => omap (fun l => ((fst (fst x), l), c)) (u_sub md (snd (fst x)) (r_length c)))) xs.
Proof.
  gen_equiv gen_clip_masked_shape_eq by
    (intros; unfold gen_clip_masked_shape; apply gen_map_m_ext; intros [[nm len] r] _;
     apply gen_clip_masked_shape_body_eq).
Qed.

(* ---- src/tensors/indexing.rs: size_hint of ShapeIterator (calls elements, compute_strides,
        get_index_direct_unchecked: the three translated functions above, composed) ---- *)
Lemma gen_size_hint_eq : forall md fin idx (sh : list (N * N)),
  gen_size_hint md fin idx sh =
  if (fin : bool) then Ok (0, Some 0)
  else if 0 <? N.of_nat (length idx) then
    obind (prod_legacy md (map snd sh) 1) (fun total =>
    obind (gen_map_m (strides_elem_m md (map snd sh)) (map N.of_nat (seq 0 (length sh)))) (fun st =>
    obind (gidu_m md idx st 0) (fun seen =>
    omap (fun r => (r, Some r)) (u_sub md total seen))))
  else Ok (1, Some 1).
Proof.
  gen_equiv gen_size_hint_eq by
    (intros; unfold gen_size_hint; destruct fin; [reflexivity|];
     destruct (0 <? N.of_nat (length idx)); [|reflexivity];
     rewrite gen_elements_eq; destruct (prod_legacy md (map snd sh) 1); cbn [obind]; try reflexivity;
     rewrite gen_compute_strides_eq;
     match goal with |- context [gen_map_m ?f ?l] => destruct (gen_map_m f l) end; cbn [obind]; try reflexivity;
     rewrite gen_get_index_direct_unchecked_eq;
     match goal with |- context [gidu_m ?a ?b ?c ?d] => destruct (gidu_m a b c d) end; cbn [obind]; try reflexivity;
     match goal with |- context [u_sub ?a ?b ?c] => destruct (u_sub a b c) end; reflexivity).
Qed.
