(* C04 — extension round: the COMPLETE derivative vector.  For every program, every output and
   EVERY instruction k whose result is not a constant (input variable or intermediate value), the
   entry of Derivatives at the tape position of k is the formal partial derivative of the output
   with respect to the result of k (Spec/FormalAdj.v `adjoint`).  For variables this is
   C04_sweep_is_gradient; for intermediates it pins down every slot of the vector that belongs to
   a record of the program.  Over any commutative ring, on top of Proofs/C04P.v. *)
From Coq Require Import List Arith Lia Ring Bool ZArith.
From EasyML Require Import Base.Sx Model.Num Model.Tape Model.AD Spec.FormalD Spec.FormalAdj
  Proofs.TapeP Proofs.C04P Proofs.C04X.
Import ListNotations.

Section C04A.
Context {R : Type} (ops : numops R).
Hypothesis Rth : ring_theory (nzero ops) (none_ ops) (nadd ops) (nmul ops) (nsub ops) (nneg ops) (@eq R).
Add Ring Rring4a : Rth.
Notation rO := (nzero ops).
Notation rI := (none_ ops).
Notation "x [+] y" := (nadd ops x y) (at level 50, left associativity).
Notation "x [*] y" := (nmul ops x y) (at level 40, left associativity).
Notation tans := (tans ops).
Notation ginv := (ginv ops).
Notation rec_ok := (rec_ok ops).
Notation dflt := (dflt ops).

(* ------------------------------------------------------------------ a result with a tape is the
   entry appended last *)
Definition fresh (t : tape R) (res : rec R * tape R) : Prop :=
  exists t0 e, snd res = t0 ++ [e] /\ index (fst res) = length t0 /\ length t <= length t0.

Lemma fresh_here (t : tape R) e v : fresh t (mkRec v true (length t), t ++ [e]).
Proof. exists t, e. cbn [fst snd index]. repeat split; auto. Qed.

Lemma sum_fold_fresh l : forall (tot : rec R) t,
  history (fst (fold_left (sum_step ops) l (tot, t))) = true ->
  fold_left (sum_step ops) l (tot, t) = (tot, t) \/ fresh t (fold_left (sum_step ops) l (tot, t)).
Proof.
  induction l as [|a l IH]; intros tot t Hh; cbn [fold_left] in *; [left; reflexivity|].
  right. destruct (sum_step ops (tot, t) a) as [tot1 t1] eqn:E.
  assert (Hstep : (history tot1 = false /\ t1 = t) \/ (exists e, t1 = t ++ [e] /\ tot1 = mkRec (number tot1) true (length t))).
  { unfold sum_step, append_unary, append_binary in E.
    destruct (history tot), (history a); inversion E; subst; cbn;
      try (right; eexists; split; reflexivity); left; split; reflexivity. }
  destruct (IH tot1 t1 Hh) as [Hsame|[t0 [e [Hs [Hi Hl]]]]].
  - rewrite Hsame in *. cbn [fst] in Hh. destruct Hstep as [[Hf _]|[e [-> ->]]]; [congruence|].
    apply fresh_here.
  - exists t0, e. split; [exact Hs|]. split; [exact Hi|].
    destruct Hstep as [[_ ->]|[e1 [-> _]]]; [exact Hl|]. rewrite app_length in Hl. simpl in Hl. lia.
Qed.

Lemma exec_op_fresh nodes t ins : is_var ins = false ->
  history (fst (exec_op ops nodes t ins)) = true -> fresh t (exec_op ops nodes t ins).
Proof.
  intros Hnv.
  destruct ins as [x|c|o a b|o a c|o c b|o a|l|f df a|f dx dy a b]; cbn [exec_op].
  - discriminate.
  - cbn. discriminate.
  - unfold rec_rec, rec_num, num_rec, append_unary, append_binary.
    destruct (history (getr ops nodes a)), (history (getr ops nodes b));
      try destruct (bop_commuted o); cbn [fst history]; intros H; try discriminate; apply fresh_here.
  - unfold rec_num, append_unary. destruct (history (getr ops nodes a)); cbn [fst history]; intros H;
      try discriminate; apply fresh_here.
  - unfold num_rec, append_unary. destruct (history (getr ops nodes b)); cbn [fst history]; intros H;
      try discriminate; apply fresh_here.
  - destruct o; unfold rec_neg, rec_sub, rec_rec, num_rec, rec_un, append_unary; cbn [history constant];
      destruct (history (getr ops nodes a)); cbn [fst history]; intros H; try discriminate; apply fresh_here.
  - unfold rec_sum. intros H. destruct (sum_fold_fresh _ _ _ H) as [E|F]; [|exact F].
    rewrite E in H. cbn in H. discriminate.
  - unfold rec_un, append_unary. destruct (history (getr ops nodes a)); cbn [fst history]; intros H;
      try discriminate; apply fresh_here.
  - unfold rec_binary, append_unary, append_binary.
    destruct (history (getr ops nodes a)), (history (getr ops nodes b)); cbn [fst history]; intros H;
      try discriminate; apply fresh_here.
Qed.

(* ------------------------------------------------------------------ changing the seed of the
   last tape entry *)
Lemma reseed_last (t0 : tape R) e sd0 z : ginv (t0 ++ [e]) (sd0 ++ [rO]) ->
  ginv (t0 ++ [e]) (sd0 ++ [z]) /\
  (forall r v d, rec_ok (t0 ++ [e]) (sd0 ++ [rO]) r v d -> (history r = true -> index r < length t0) ->
                 rec_ok (t0 ++ [e]) (sd0 ++ [z]) r v d) /\
  (forall r v d, rec_ok (t0 ++ [e]) (sd0 ++ [rO]) r v d -> history r = true -> index r = length t0 ->
                 rec_ok (t0 ++ [e]) (sd0 ++ [z]) r v (d [+] z)).
Proof.
  intros [Hwf Hlen]. rewrite !app_length in Hlen. cbn [length] in Hlen.
  assert (L : length sd0 = length t0) by lia.
  split; [split; [exact Hwf|rewrite !app_length; cbn [length]; lia]|]. split.
  - intros r v d [Hv Hr] Hi. split; [exact Hv|]. destruct (history r); [|exact Hr].
    destruct Hr as [Hp Hd]. split; [exact Hp|]. specialize (Hi eq_refl).
    rewrite (tans_push ops) in * by exact L.
    rewrite app_nth1 in * by (rewrite (tans_length ops); lia). exact Hd.
  - intros r v d [Hv Hr] Hh Hi. split; [exact Hv|]. rewrite Hh in *.
    destruct Hr as [Hp Hd]. split; [exact Hp|].
    rewrite (tans_push ops) in * by exact L. rewrite Hi in *.
    rewrite app_nth2 in * by (rewrite (tans_length ops); lia).
    rewrite (tans_length ops), Nat.sub_diag in *. cbn [nth] in *. rewrite <- Hd. ring.
Qed.

(* ------------------------------------------------------------------ the run invariant with a
   velocity injected at EVERY instruction that has a tape entry *)
Definition run_inv_adj (s : nat -> R) (prog : list (instr R)) (st : state R) (ds : list R * list R) : Prop :=
  let '(nodes, t) := st in let '(vs, ts) := ds in
  exists sd,
    length nodes = length prog /\ length vs = length prog /\ length ts = length prog /\
    ginv t sd /\
    (forall a, rec_ok t sd (getr ops nodes a) (nth a vs rO) (nth a ts rO)) /\
    (forall j, j < length sd -> nth j sd rO = rO \/
       exists k, k < length prog /\ history (getr ops nodes k) = true /\
                 index (getr ops nodes k) = j /\ nth j sd rO = s k) /\
    (forall k, k < length prog -> history (getr ops nodes k) = true ->
       index (getr ops nodes k) < length sd /\ nth (index (getr ops nodes k)) sd rO = s k).

Lemma zeros_last (zs : list R) : Forall (fun z => z = rO) zs -> zs <> [] -> exists zs0, zs = zs0 ++ [rO].
Proof.
  intros Hz Hne. destruct (exists_last Hne) as [zs0 [z E]]. subst zs. exists zs0.
  apply Forall_app in Hz as [_ Hz]. inversion Hz; subst. reflexivity.
Qed.

Lemma run_inv_adj_step s prog st ds ins :
  run_inv_adj s prog st ds ->
  (history (fst (exec_op ops (fst st) (snd st) ins)) = false -> s (length prog) = rO) ->
  run_inv_adj s (prog ++ [ins]) (exec ops st ins) (pdstep ops s ds ins).
Proof.
  destruct st as [nodes t]. destruct ds as [vs ts].
  intros [sd [Hn [Hvs [Hts [G [Hall [Hsd Hvar]]]]]]] Hs0. cbn [fst snd] in Hs0.
  cbn [exec pdstep]. rewrite Hvs. unfold ptangent_instr.
  destruct (is_var ins) eqn:Hiv.
  - (* a new variable: one nullary entry, seeded with s (its position) *)
    destruct ins as [x| | | | | | | |]; try discriminate. cbn [exec_op variable append_nullary].
    cbn [value_instr]. pose proof G as [Hwf Hlen].
    exists (sd ++ [s (length prog)]).
    assert (G' : ginv (t ++ [mkEntry (length t) (length t) rO rO]) (sd ++ [s (length prog)])).
    { split; [|rewrite !app_length; simpl; lia].
      apply wf_from_app. split; [exact Hwf|]. unfold wf_entry. cbn. repeat split; auto. }
    rewrite !app_length. cbn [length].
    split; [lia|]. split; [lia|]. split; [lia|]. split; [exact G'|]. split; [|split].
    + apply (all_ok_snoc ops); try lia.
      * intros a. apply (rec_ok_push ops); [exact Hlen|apply Hall].
      * split; [reflexivity|]. cbn [history index]. split; [rewrite app_length; simpl; lia|].
        rewrite (tans_push ops) by exact Hlen.
        rewrite app_nth2 by (rewrite (tans_length ops); lia). rewrite (tans_length ops), Nat.sub_diag.
        cbn [nth lw rw lp rp]. ring.
    + intros j Hj.
      destruct (Nat.eq_dec j (length sd)) as [->|Hne].
      * right. exists (length prog). split; [lia|].
        rewrite <- Hn at 1 2. rewrite (getr_app_new ops). cbn [history index].
        split; [reflexivity|]. split; [lia|]. rewrite app_nth2, Nat.sub_diag by lia. reflexivity.
      * rewrite app_nth1 by lia. destruct (Hsd j ltac:(lia)) as [H0|[k [Hk [Hkv [Hki Hks]]]]]; [left; exact H0|].
        right. exists k. split; [lia|]. rewrite (getr_app_old ops) by lia. auto.
    + intros k Hk Hkv. destruct (Nat.eq_dec k (length prog)) as [->|Hne].
      * rewrite <- Hn at 1 2. rewrite (getr_app_new ops). cbn [history index].
        split; [lia|]. rewrite <- Hlen. rewrite app_nth2, Nat.sub_diag by lia. reflexivity.
      * rewrite (getr_app_old ops) in * by lia.
        destruct (Hvar k ltac:(lia) Hkv) as [H2 H3].
        split; [lia|]. rewrite app_nth1 by lia. exact H3.
  - (* any other instruction *)
    pose proof (exec_op_ok ops Rth nodes t sd vs ts rO ins G Hall Hiv) as [sd' [Gx Hr]].
    pose proof (exec_op_fresh nodes t ins Hiv) as Hfresh.
    destruct (exec_op ops nodes t ins) as [r t']. cbn [fst snd] in *.
    destruct Gx as [[zs [-> Hz]] [G' [Hmono Hle]]].
    assert (Hold : forall a, history (getr ops nodes a) = true -> index (getr ops nodes a) < length t).
    { intros a Ha. destruct (Hall a) as [_ H]. rewrite Ha in H. apply H. }
    destruct (history r) eqn:Hhr.
    + (* the result has a tape entry: it is the last one; give it the seed s (length prog) *)
      destruct (Hfresh eq_refl) as [t0 [e [Et [Hi Hl]]]]. cbn [fst snd] in Et, Hi. subst t'.
      pose proof G' as [_ Hlen']. pose proof G as [_ Hlen]. rewrite !app_length in Hlen'. cbn [length] in Hlen'.
      destruct (zeros_last zs Hz) as [zs0 ->]; [intros ->; cbn in Hlen'; lia|].
      rewrite app_length in Hlen'. cbn [length] in Hlen'.
      rewrite app_assoc in G', Hr, Hmono.
      destruct (reseed_last t0 e (sd ++ zs0) (s (length prog)) G') as [G'' [Hkeep Hnew]].
      exists ((sd ++ zs0) ++ [s (length prog)]). rewrite !app_length. cbn [length].
      split; [lia|]. split; [lia|]. split; [lia|]. split; [exact G''|]. split; [|split].
      * apply (all_ok_snoc ops); try lia.
        -- intros a. apply Hkeep; [apply Hmono; apply Hall|]. intros Ha. specialize (Hold a Ha). lia.
        -- apply Hnew; [exact Hr|exact Hhr|exact Hi].
      * intros j Hj.
        destruct (Nat.lt_ge_cases j (length sd)) as [Hlt|Hge].
        -- rewrite !app_nth1 by (rewrite ?app_length; lia).
           destruct (Hsd j Hlt) as [H0|[k [Hk [Hkv [Hki Hks]]]]]; [left; exact H0|].
           right. exists k. split; [lia|]. rewrite (getr_app_old ops) by lia. auto.
        -- destruct (Nat.eq_dec j (length t0)) as [->|Hne].
           ++ right. exists (length prog). split; [lia|].
              rewrite <- Hn at 1 2. rewrite (getr_app_new ops).
              split; [exact Hhr|]. split; [exact Hi|].
              rewrite app_nth2 by (rewrite app_length; lia).
              rewrite app_length. replace (length t0 - (length sd + length zs0)) with 0 by lia. reflexivity.
           ++ left. rewrite app_nth1 by (rewrite app_length; lia). rewrite app_nth2 by lia.
              apply Forall_app in Hz as [Hz0 _]. rewrite Forall_forall in Hz0.
              destruct (nth_in_or_default (j - length sd) zs0 rO) as [Hin|Hd]; [apply Hz0; exact Hin|exact Hd].
      * intros k Hk Hkv. destruct (Nat.eq_dec k (length prog)) as [->|Hne].
        -- rewrite <- Hn at 1 2. rewrite (getr_app_new ops). rewrite Hi.
           split; [lia|]. rewrite app_nth2 by (rewrite app_length; lia).
           rewrite app_length. replace (length t0 - (length sd + length zs0)) with 0 by lia. reflexivity.
        -- rewrite (getr_app_old ops) in * by lia.
           destruct (Hvar k ltac:(lia) Hkv) as [H2 H3].
           split; [lia|]. rewrite !app_nth1 by (rewrite ?app_length; lia). exact H3.
    + (* the result is a constant: nothing to seed, and s (length prog) = 0 by hypothesis *)
      rewrite (Hs0 eq_refl).
      exists (sd ++ zs). rewrite !app_length. cbn [length].
      split; [lia|]. split; [lia|]. split; [lia|]. split; [exact G'|]. split; [|split].
      * apply (all_ok_snoc ops); try lia; auto.
        destruct Hr as [Hv Hd]. split; [exact Hv|]. rewrite Hhr in *. rewrite Hd. ring.
      * intros j Hj.
        destruct (Nat.lt_ge_cases j (length sd)) as [Hlt|Hge].
        -- rewrite app_nth1 by lia. destruct (Hsd j Hlt) as [H0|[k [Hk [Hkv [Hki Hks]]]]]; [left; exact H0|].
           right. exists k. split; [lia|]. rewrite (getr_app_old ops) by lia. auto.
        -- left. rewrite app_nth2 by lia. rewrite Forall_forall in Hz.
           destruct (nth_in_or_default (j - length sd) zs rO) as [Hin|Hd]; [apply Hz; exact Hin|exact Hd].
      * intros k Hk Hkv. destruct (Nat.eq_dec k (length prog)) as [->|Hne].
        -- rewrite <- Hn in Hkv at 1. rewrite (getr_app_new ops) in Hkv. congruence.
        -- rewrite (getr_app_old ops) in * by lia.
           destruct (Hvar k ltac:(lia) Hkv) as [H2 H3].
           split; [lia|]. rewrite app_nth1 by lia. exact H3.
Qed.

Lemma pdrun_snoc s prog ins : pdrun ops s (prog ++ [ins]) = pdstep ops s (pdrun ops s prog) ins.
Proof. unfold pdrun. rewrite fold_left_app. reflexivity. Qed.

Lemma run_inv_adj_holds s prog :
  (forall n, n < length prog -> history (getr ops (fst (run_prog ops prog)) n) = false -> s n = rO) ->
  run_inv_adj s prog (run_prog ops prog) (pdrun ops s prog).
Proof.
  induction prog as [|ins prog IH] using rev_ind; intros Hs.
  - cbn. exists []. split; [reflexivity|]. split; [reflexivity|]. split; [reflexivity|].
    split; [split; [exact I|reflexivity]|]. split; [|split; cbn; intros; lia].
    intros a. destruct a; apply (rec_ok_constant ops).
  - rewrite run_prog_snoc, pdrun_snoc. apply run_inv_adj_step.
    + apply IH. intros n Hn Hh. apply Hs; [rewrite app_length; simpl; lia|].
      rewrite (run_prog_old ops) by exact Hn. exact Hh.
    + intros Hh. apply Hs; [rewrite app_length; simpl; lia|].
      destruct (run_prog_new ops prog ins) as [Hr _]. rewrite Hr. exact Hh.
Qed.

(* ---- the complete derivative vector ---- *)
Theorem sweep_is_adjoint prog out k :
  let st := run_prog ops prog in
  history (getr ops (fst st) k) = true -> history (getr ops (fst st) out) = true ->
  at_ ops (sweep ops (snd st) (index (getr ops (fst st) out))) (getr ops (fst st) k)
  = adjoint ops prog out k.
Proof.
  cbv zeta. intros Hk Hout.
  assert (Hklt : k < length prog).
  { destruct (Nat.lt_ge_cases k (length prog)) as [H|H]; [exact H|].
    rewrite (getr_overflow ops) in Hk by (rewrite (run_prog_length ops); exact H). discriminate. }
  set (s := fun n => if Nat.eqb n k then rI else rO).
  assert (Hs : forall n, n < length prog -> history (getr ops (fst (run_prog ops prog)) n) = false -> s n = rO).
  { intros n _ Hn. unfold s. destruct (Nat.eqb_spec n k) as [->|]; [congruence|reflexivity]. }
  pose proof (run_inv_adj_holds s prog Hs) as H. unfold adjoint, ptangent. fold s.
  destruct (run_prog ops prog) as [nodes t]. destruct (pdrun ops s prog) as [vs ts].
  destruct H as [sd [Hn [Hvs [Hts [[Hwf Hlen] [Hall [Hsd Hvars]]]]]]]. cbn [fst snd] in *.
  destruct (Hall out) as [_ Ho]. rewrite Hout in Ho. destruct Ho as [Hp Hd].
  destruct (Hvars k Hklt Hk) as [Hki Hks].
  rewrite <- Hd. unfold C04P.tans.
  rewrite <- (sweep_is_tangent ops Rth t (sd_of ops sd) (index (getr ops nodes out)) Hwf Hp).
  unfold at_. symmetry.
  apply (sumn_pick ops Rth (length t) (index (getr ops nodes k))
           (fun j => nth j (sweep ops t (index (getr ops nodes out))) rO) (sd_of ops sd)).
  - lia.
  - intros j Hj Hne. unfold sd_of.
    destruct (Hsd j ltac:(lia)) as [H0|[k' [Hk' [Hkh [Hki' Hks']]]]]; [exact H0|].
    rewrite Hks'. unfold s. destruct (Nat.eqb_spec k' k) as [->|]; [congruence|reflexivity].
  - unfold sd_of. rewrite Hks. unfold s. rewrite Nat.eqb_refl. reflexivity.
Qed.

Theorem try_derivatives_is_adjoint prog out k d :
  try_derivatives ops (run_prog ops prog) out = Some d ->
  history (getr ops (fst (run_prog ops prog)) k) = true ->
  at_ ops d (getr ops (fst (run_prog ops prog)) k) = adjoint ops prog out k.
Proof.
  unfold try_derivatives.
  destruct (history (getr ops (fst (run_prog ops prog)) out)) eqn:Hh; [|discriminate].
  intros E Hk. inversion E. apply sweep_is_adjoint; assumption.
Qed.

(* ---- the adjoint of a variable instruction is the gradient entry of Spec/FormalD.v ---- *)
Lemma pdrun_is_drun s prog :
  (forall n, n < length prog -> is_var (nth n prog dflt) = false -> s n = rO) ->
  pdrun ops s prog = drun ops s prog.
Proof.
  induction prog as [|ins prog IH] using rev_ind; intros Hs; [reflexivity|].
  rewrite pdrun_snoc, drun_snoc, IH.
  - pose proof (run_inv_holds ops Rth s prog) as Hinv.
    destruct (run_prog ops prog) as [nodes t]. destruct (drun ops s prog) as [vs ts].
    destruct Hinv as [sd [_ [Hvs _]]]. cbn [pdstep dstep]. f_equal. f_equal. f_equal.
    unfold ptangent_instr. destruct (is_var ins) eqn:Hiv.
    + destruct ins; try discriminate. reflexivity.
    + rewrite (Hs (length vs)).
      * ring.
      * rewrite app_length, Hvs. simpl. lia.
      * rewrite Hvs, app_nth2, Nat.sub_diag by lia. exact Hiv.
  - intros n Hn Hv. apply Hs; [rewrite app_length; simpl; lia|]. rewrite app_nth1 by exact Hn. exact Hv.
Qed.

Theorem adjoint_of_variable prog out k x : nth_error prog k = Some (IVar x) ->
  adjoint ops prog out k = grad ops prog out k.
Proof.
  intros Hk. destruct (is_var_nth ops prog k x Hk) as [Hlt Hvar].
  unfold adjoint, ptangent, grad, tangent. rewrite pdrun_is_drun; [reflexivity|].
  intros n Hn Hnv. destruct (Nat.eqb_spec n k) as [->|]; [congruence|reflexivity].
Qed.

End C04A.
