(* C11 x C12: mutation through the parts of Matrix::partition, interleaved with resizing.
   Writing g(i, j) to every cell (i, j) of part k of an accepted partition (wave 2; a constant g
   is the session-3 "fill") is, on the flat storage, exactly map_mut_with_index with the function
   "g at the part's own index inside the part's rectangle, unchanged outside";
   hence it refines the list-of-rows specification, keeps the representation invariant and the
   size, and histories mixing it with the resizing operations refine the specification too. *)
From Coq Require Import List ZArith NArith Bool Arith Lia.
From EasyML Require Import Base.Sx Model.Shape Model.Matrix Model.MatrixViews Model.MatrixHistory
  Proofs.C11Spec Proofs.C11Ops Proofs.C11Transpose Proofs.C11P Proofs.C12P Proofs.C12Partition.
Import ListNotations.
Local Open Scope N_scope.
Ltac Zify.zify_post_hook ::= Z.div_mod_to_equations.

Section Part.
Context {T : Type}.

Lemma list_eq_nth_error (l l' : list T) : (forall q, nth_error l q = nth_error l' q) -> l = l'.
Proof.
  revert l'; induction l as [|x l IH]; intros [|y l'] H; auto.
  - specialize (H 0%nat); discriminate.
  - specialize (H 0%nat); discriminate.
  - pose proof (H 0%nat) as H0. cbn in H0. injection H0 as ->. f_equal. apply IH. intros q. exact (H (S q)).
Qed.

Lemma length_write (data : list T) v r c x : length (fst (write data v r c x)) = length data.
Proof.
  unfold write. destruct (try_get v r c); cbn [fst]; auto.
  destruct (position <? N.of_nat (length data)); cbn [fst]; auto using length_replace_nth.
Qed.

Lemma length_write_part (data : list T) p g : length (write_part data p g) = length data.
Proof.
  unfold write_part. generalize (grid (p_rows p) (p_cols p)) as cells. intros cells. revert data.
  induction cells as [|c cells IHc]; intros d; [reflexivity|]. cbn [fold_left]. now rewrite IHc, length_write.
Qed.

Lemma length_fill_part (data : list T) p v : length (fill_part data p v) = length data.
Proof. apply length_write_part. Qed.

Definition hits (p : part) (q : nat) (rc : N * N) : bool :=
  match try_get (VPart p) (fst rc) (snd rc) with Cell a => Nat.eqb (N.to_nat a) q | _ => false end.

(* the last cell of the list whose write lands on storage position q *)
Fixpoint last_hit (p : part) (q : nat) (cells : list (N * N)) : option (N * N) :=
  match cells with
  | [] => None
  | rc :: rest => match last_hit p q rest with
                  | Some x => Some x
                  | None => if hits p q rc then Some rc else None
                  end
  end.

Lemma last_hit_some p q cells rc : last_hit p q cells = Some rc -> In rc cells /\ hits p q rc = true.
Proof.
  induction cells as [|c cells IH]; [discriminate|]. cbn [last_hit].
  destruct (last_hit p q cells) as [x|].
  - intros E. injection E as ->. destruct (IH eq_refl) as [H1 H2]. split; [now right|exact H2].
  - destruct (hits p q c) eqn:Eh; [|discriminate]. intros E. injection E as <-. split; [now left|exact Eh].
Qed.

Lemma last_hit_none p q cells : last_hit p q cells = None <-> existsb (hits p q) cells = false.
Proof.
  induction cells as [|c cells IH]; [split; reflexivity|]. cbn [last_hit existsb].
  destruct (last_hit p q cells) as [x|].
  - split; [discriminate|]. intros E. apply orb_false_iff in E as [_ E]. apply IH in E. discriminate.
  - destruct (hits p q c); cbn [orb]; [split; discriminate|]. split; intros _; [now apply IH|reflexivity].
Qed.

Lemma nth_error_write_cells (p : part) (g : N -> N -> T) (cells : list (N * N)) : forall data q,
  nth_error (fold_left (fun d rc => fst (write d (VPart p) (fst rc) (snd rc) (g (fst rc) (snd rc)))) cells data) q =
  match last_hit p q cells with
  | Some rc => if Nat.ltb q (length data) then Some (g (fst rc) (snd rc)) else None
  | None => nth_error data q
  end.
Proof.
  induction cells as [|rc cells IH]; intros data q; [reflexivity|].
  cbn [fold_left last_hit]. rewrite IH, length_write.
  destruct (last_hit p q cells) as [x|]; [reflexivity|].
  unfold hits, write.
  destruct (try_get (VPart p) (fst rc) (snd rc)) as [a| |]; cbn [fst]; try reflexivity.
  destruct (N.ltb_spec a (N.of_nat (length data))) as [Ha|Ha]; cbn [fst].
  - rewrite nth_error_replace_nth. rewrite (Nat.eqb_sym (N.to_nat a) q).
    destruct (Nat.eqb q (N.to_nat a)) eqn:E; [|reflexivity].
    apply Nat.eqb_eq in E. subst q. reflexivity.
  - destruct (Nat.eqb (N.to_nat a) q) eqn:E; [|reflexivity].
    apply Nat.eqb_eq in E. subst q.
    replace (Nat.ltb (N.to_nat a) (length data)) with false by (symmetry; apply Nat.ltb_ge; lia).
    apply nth_error_None. lia.
Qed.

(* "inside the rectangle [rlo, rhi) x [clo, chi)" *)
Definition in_rect (rlh clh : N * N) (i j : N) : bool :=
  (fst rlh <=? i) && (i <? snd rlh) && (fst clh <=? j) && (j <? snd clh).

Definition region_fill (v : T) (rlh clh : N * N) (x : T) (i j : N) : T :=
  if in_rect rlh clh i j then v else x.

(* inside the rectangle the cell gets g at the PART's own index (row and column counted from the
   rectangle's corner), outside it keeps its value *)
Definition region_write (g : N -> N -> T) (rlh clh : N * N) (x : T) (i j : N) : T :=
  if in_rect rlh clh i j then g (i - fst rlh) (j - fst clh) else x.

Lemma in_grid h w i j : In (i, j) (grid h w) <-> i < h /\ j < w.
Proof.
  unfold grid. rewrite in_prod_iff, !in_map_iff. split.
  - intros [[a [<- Ha]] [b [<- Hb]]]. apply in_seq in Ha, Hb. lia.
  - intros [Hi Hj]. split; [exists (N.to_nat i)|exists (N.to_nat j)]; (split; [lia|apply in_seq; lia]).
Qed.

Lemma hits_grid W rlo rhi clo chi q : rlo <= rhi -> clo <= chi -> chi <= W ->
  let p := make_part (grid_slices W (rlo, rhi) (clo, chi)) in
  existsb (hits p q) (grid (p_rows p) (p_cols p))
  = in_rect (rlo, rhi) (clo, chi) (N.of_nat q / W) (N.of_nat q mod W).
Proof.
  intros Hr Hc HW p. destruct (grid_part_get W rlo rhi clo chi Hr Hc) as [Hsize Hget]. fold p in Hsize, Hget.
  unfold in_rect. cbn [fst snd].
  match goal with |- ?L = ?R => destruct R eqn:ER end.
  - apply andb_true_iff in ER as [ER E4]. apply andb_true_iff in ER as [ER E3]. apply andb_true_iff in ER as [E1 E2].
    apply N.leb_le in E1, E3. apply N.ltb_lt in E2, E4.
    assert (HW0 : 0 < W) by lia.
    apply existsb_exists. exists (N.of_nat q / W - rlo, N.of_nat q mod W - clo). split.
    + apply in_grid.
      replace ((rhi - rlo =? 0) || (chi - clo =? 0)) with false in Hsize
        by (symmetry; apply orb_false_iff; split; apply N.eqb_neq; lia).
      injection Hsize as -> ->. lia.
    + unfold hits. cbn [fst snd]. rewrite Hget.
      replace ((N.of_nat q / W - rlo <? rhi - rlo) && (N.of_nat q mod W - clo <? chi - clo)) with true
        by (symmetry; apply andb_true_iff; split; apply N.ltb_lt; lia).
      apply Nat.eqb_eq.
      replace (rlo + (N.of_nat q / W - rlo)) with (N.of_nat q / W) by lia.
      replace (N.of_nat q / W * W + clo + (N.of_nat q mod W - clo)) with (N.of_nat q / W * W + N.of_nat q mod W) by lia.
      pose proof (N.div_mod (N.of_nat q) W ltac:(lia)). lia.
  - destruct (existsb (hits p q) (grid (p_rows p) (p_cols p))) eqn:EL; [exfalso|reflexivity].
    apply existsb_exists in EL as [[i j] [Hin Hh]]. unfold hits in Hh. cbn [fst snd] in Hh. rewrite Hget in Hh.
    destruct ((i <? rhi - rlo) && (j <? chi - clo)) eqn:Eij; [|discriminate].
    apply andb_true_iff in Eij as [Ei Ej]. apply N.ltb_lt in Ei, Ej. apply Nat.eqb_eq in Hh.
    assert (Eq : N.of_nat q = (rlo + i) * W + (clo + j)) by lia.
    assert (Hlt : clo + j < W) by lia.
    assert (Ed : N.of_nat q / W = rlo + i).
    { symmetry. apply (N.div_unique _ _ _ (clo + j)); [exact Hlt|lia]. }
    assert (Em : N.of_nat q mod W = clo + j).
    { symmetry. apply (N.mod_unique _ _ (rlo + i)); [exact Hlt|lia]. }
    rewrite Ed, Em in ER.
    replace (rlo <=? rlo + i) with true in ER by (symmetry; apply N.leb_le; lia).
    replace (rlo + i <? rhi) with true in ER by (symmetry; apply N.ltb_lt; lia).
    replace (clo <=? clo + j) with true in ER by (symmetry; apply N.leb_le; lia).
    replace (clo + j <? chi) with true in ER by (symmetry; apply N.ltb_lt; lia).
    discriminate.
Qed.

(* the only cell of the part that lands on storage position q *)
Lemma hits_cell W rlo rhi clo chi q i j : rlo <= rhi -> clo <= chi -> chi <= W ->
  hits (make_part (grid_slices W (rlo, rhi) (clo, chi))) q (i, j) = true ->
  i = N.of_nat q / W - rlo /\ j = N.of_nat q mod W - clo.
Proof.
  intros Hr Hc HW Hh. destruct (grid_part_get W rlo rhi clo chi Hr Hc) as [_ Hget].
  unfold hits in Hh. cbn [fst snd] in Hh. rewrite Hget in Hh.
  destruct ((i <? rhi - rlo) && (j <? chi - clo)) eqn:Eij; [|discriminate].
  apply andb_true_iff in Eij as [Ei Ej]. apply N.ltb_lt in Ei, Ej. apply Nat.eqb_eq in Hh.
  assert (Eq : N.of_nat q = (rlo + i) * W + (clo + j)) by lia.
  assert (Hlt : clo + j < W) by lia.
  assert (Ed : N.of_nat q / W = rlo + i).
  { symmetry. apply (N.div_unique _ _ _ (clo + j)); [exact Hlt|lia]. }
  assert (Em : N.of_nat q mod W = clo + j).
  { symmetry. apply (N.mod_unique _ _ (rlo + i)); [exact Hlt|lia]. }
  lia.
Qed.

Lemma last_hit_grid W rlo rhi clo chi q : rlo <= rhi -> clo <= chi -> chi <= W ->
  let p := make_part (grid_slices W (rlo, rhi) (clo, chi)) in
  last_hit p q (grid (p_rows p) (p_cols p))
  = if in_rect (rlo, rhi) (clo, chi) (N.of_nat q / W) (N.of_nat q mod W)
    then Some (N.of_nat q / W - rlo, N.of_nat q mod W - clo) else None.
Proof.
  intros Hr Hc HW p. rewrite <- (hits_grid W rlo rhi clo chi q Hr Hc HW). fold p.
  destruct (last_hit p q (grid (p_rows p) (p_cols p))) as [[i j]|] eqn:EL.
  - destruct (last_hit_some _ _ _ _ EL) as [Hin Hh].
    replace (existsb (hits p q) (grid (p_rows p) (p_cols p))) with true
      by (symmetry; apply existsb_exists; exists (i, j); split; assumption).
    destruct (hits_cell W rlo rhi clo chi q i j Hr Hc HW Hh) as [-> ->]. reflexivity.
  - apply last_hit_none in EL. rewrite EL. reflexivity.
Qed.

(* the flat form of map_mut_with_index: the value at storage position q is mapped with the
   index (q / columns, q mod columns) *)
Lemma map_rc_flat (f : T -> N -> N -> T) C (data : list T) : 0 < C -> forall k,
  map_rc f C data (k / C) (k mod C) = mapi_from (fun q x => f x (q / C) (q mod C)) k data.
Proof.
  intros HC. induction data as [|x data IH]; intros k; [reflexivity|].
  cbn [map_rc mapi_from]. f_equal. rewrite <- IH.
  destruct (N.eqb_spec (k mod C) (C - 1)) as [E|E]; cbn [fst snd].
  - assert (Ed : (k + 1) / C = k / C + 1).
    { symmetry. apply (N.div_unique _ _ _ 0); [lia|]. pose proof (N.div_mod k C ltac:(lia)). lia. }
    assert (Em : (k + 1) mod C = 0).
    { symmetry. apply (N.mod_unique _ _ (k / C + 1)); [lia|]. pose proof (N.div_mod k C ltac:(lia)). lia. }
    now rewrite Ed, Em.
  - pose proof (N.mod_lt k C ltac:(lia)) as Hm.
    assert (Ed : (k + 1) / C = k / C).
    { symmetry. apply (N.div_unique _ _ _ (k mod C + 1)); [lia|]. pose proof (N.div_mod k C ltac:(lia)). lia. }
    assert (Em : (k + 1) mod C = k mod C + 1).
    { symmetry. apply (N.mod_unique _ _ (k / C)); [lia|]. pose proof (N.div_mod k C ltac:(lia)). lia. }
    now rewrite Ed, Em.
Qed.

Lemma nth_error_mapi_from {A B} (g : N -> A -> B) (l : list A) : forall k q,
  nth_error (mapi_from g k l) q = option_map (g (k + N.of_nat q)) (nth_error l q).
Proof.
  induction l as [|x l IH]; intros k q; [destruct q; reflexivity|].
  destruct q as [|q]; cbn [mapi_from nth_error option_map].
  - f_equal. f_equal. lia.
  - rewrite IH. replace (k + 1 + N.of_nat q) with (k + N.of_nat (S q)) by lia. reflexivity.
Qed.

(* writing g over the part at a rectangle = map_mut_with_index with region_write *)
Lemma write_part_as_map W rlo rhi clo chi (data : list T) g : rlo <= rhi -> clo <= chi -> chi <= W -> 0 < W ->
  write_part data (make_part (grid_slices W (rlo, rhi) (clo, chi))) g
  = map_rc (region_write g (rlo, rhi) (clo, chi)) W data 0 0.
Proof.
  intros Hr Hc HW HW0. apply list_eq_nth_error. intros q. unfold write_part.
  rewrite nth_error_write_cells, (last_hit_grid W rlo rhi clo chi q Hr Hc HW).
  replace 0 with (0 / W) at 3 by (apply N.div_0_l; lia).
  replace 0 with (0 mod W) at 4 by (apply N.mod_0_l; lia).
  rewrite (map_rc_flat _ W data HW0 0), nth_error_mapi_from. cbn [N.add]. unfold region_write. cbn [fst snd].
  destruct (nth_error data q) as [x|] eqn:E; cbn [option_map].
  - assert (Hq : (q < length data)%nat) by (apply nth_error_Some; congruence).
    destruct (in_rect _ _ _ _); [|reflexivity]. cbn [fst snd].
    replace (Nat.ltb q (length data)) with true by (symmetry; apply Nat.ltb_lt; lia). reflexivity.
  - apply nth_error_None in E.
    destruct (in_rect _ _ _ _); [|reflexivity]. cbn [fst snd].
    replace (Nat.ltb q (length data)) with false by (symmetry; apply Nat.ltb_ge; lia). reflexivity.
Qed.

(* filling the part at a rectangle = map_mut_with_index with region_fill *)
Lemma fill_part_as_map W rlo rhi clo chi (data : list T) v : rlo <= rhi -> clo <= chi -> chi <= W -> 0 < W ->
  fill_part data (make_part (grid_slices W (rlo, rhi) (clo, chi))) v
  = map_rc (region_fill v (rlo, rhi) (clo, chi)) W data 0 0.
Proof. exact (write_part_as_map W rlo rhi clo chi data (fun _ _ => v)). Qed.

(* ---------- the specification of the new step ---------- *)
Definition spec_partition_fill (m : list (list T)) (rp cp : list N) (k : nat) (v : T) : list (list T) * bool :=
  let rows := nlen m in
  let cols := N.of_nat (ncols m) in
  if check_axis rp rows && check_axis cp cols && chain_b 0 (rp ++ [rows]) && chain_b 0 (cp ++ [cols]) then
    match nth_error (intervals 0 (rp ++ [rows])) (k / (length cp + 1)),
          nth_error (intervals 0 (cp ++ [cols])) (k mod (length cp + 1)) with
    | Some rlh, Some clh => spec_step m (OMapMutWithIndex (region_fill v rlh clh))
    | _, _ => (m, true)
    end
  else (m, false).

Lemma length_intervals lo l x : length (intervals lo (l ++ [x])) = (length l + 1)%nat.
Proof. unfold intervals. rewrite combine_length. cbn [length]. rewrite app_length. cbn [length]. apply Nat.min_r. lia. Qed.

Definition spec_partition_write (m : list (list T)) (rp cp : list N) (k : nat) (g : N -> N -> T) : list (list T) * bool :=
  let rows := nlen m in
  let cols := N.of_nat (ncols m) in
  if check_axis rp rows && check_axis cp cols && chain_b 0 (rp ++ [rows]) && chain_b 0 (cp ++ [cols]) then
    match nth_error (intervals 0 (rp ++ [rows])) (k / (length cp + 1)),
          nth_error (intervals 0 (cp ++ [cols])) (k mod (length cp + 1)) with
    | Some rlh, Some clh => spec_step m (OMapMutWithIndex (region_write g rlh clh))
    | _, _ => (m, true)
    end
  else (m, false).

Lemma partition_write_refines m rp cp k g : rect m ->
  partition_write (of_rows m) rp cp k g
    = (of_rows (fst (spec_partition_write m rp cp k g)), snd (spec_partition_write m rp cp k g))
  /\ rect (fst (spec_partition_write m rp cp k g)).
Proof.
  intros Hr. pose proof Hr as [Hne [Hc Hall]].
  assert (Hrows : 1 <= nlen m) by (unfold nlen; destruct m; [congruence|cbn; lia]).
  unfold partition_write, spec_partition_write. cbn [m_rows m_cols m_data of_rows].
  set (rows := nlen m). set (cols := N.of_nat (ncols m)).
  rewrite (partition_spec rows cols rp cp Hrows).
  destruct (check_axis rp rows && check_axis cp cols) eqn:Eca; cbn [andb]; [|split; [reflexivity|exact Hr]].
  destruct (chain_b 0 (rp ++ [rows])) eqn:Ecr; cbn [andb]; [|split; [reflexivity|exact Hr]].
  destruct (chain_b 0 (cp ++ [cols])) eqn:Ecc; [|split; [reflexivity|exact Hr]].
  unfold grid_parts.
  set (rints := intervals 0 (rp ++ [rows])). set (cints := intervals 0 (cp ++ [cols])).
  assert (Lc : length cints = (length cp + 1)%nat) by apply length_intervals.
  assert (Hcne : cints <> []) by (intros E; rewrite E in Lc; cbn in Lc; lia).
  destruct (nth_error (concat (map (fun rlh => map (fun clh => make_part (grid_slices cols rlh clh)) cints) rints)) k)
    as [p|] eqn:Ek.
  - destruct (nth_error_grid (fun rlh clh => make_part (grid_slices cols rlh clh)) rints cints Hcne k p Ek)
      as [rlh [clh [Ha [Hb ->]]]].
    rewrite Lc in Ha, Hb. rewrite Ha, Hb.
    destruct (interval_bounds _ 0 rlh Ecr (nth_error_In _ _ Ha)) as [_ [R1 R2]].
    destruct (interval_bounds _ 0 clh Ecc (nth_error_In _ _ Hb)) as [_ [C1 C2]].
    rewrite last_bound_app in R2, C2. destruct rlh as [rlo rhi], clh as [clo chi]. cbn [fst snd] in *.
    rewrite (write_part_as_map cols rlo rhi clo chi (concat m) g R1 C1 C2) by (unfold cols; lia).
    destruct (map_mut_with_index_refines m (region_write g (rlo, rhi) (clo, chi)) Hr) as [E R].
    split; [|exact R]. rewrite <- E. reflexivity.
  - assert (Hk : nth_error rints (k / (length cp + 1)) = None).
    { apply nth_error_None. apply nth_error_None in Ek.
      assert (Ll : length (concat (map (fun rlh => map (fun clh => make_part (grid_slices cols rlh clh)) cints) rints))
                   = (length rints * length cints)%nat).
      { clear. induction rints as [|a l IH]; [reflexivity|]. cbn [map concat length]. rewrite app_length, map_length, IH. lia. }
      rewrite Ll, Lc in Ek. apply Nat.div_le_lower_bound; lia. }
    rewrite Hk. split; [reflexivity|exact Hr].
Qed.

Lemma partition_fill_refines m rp cp k v : rect m ->
  partition_fill (of_rows m) rp cp k v
    = (of_rows (fst (spec_partition_fill m rp cp k v)), snd (spec_partition_fill m rp cp k v))
  /\ rect (fst (spec_partition_fill m rp cp k v)).
Proof. exact (partition_write_refines m rp cp k (fun _ _ => v)). Qed.

(* ---------- histories over the extended alphabet ---------- *)
Definition xspec_step (m : list (list T)) (o : xop T) : list (list T) * bool :=
  match o with
  | XOp o => spec_step m o
  | XPartitionFill rp cp k v => spec_partition_fill m rp cp k v
  | XPartitionWrite rp cp k g => spec_partition_write m rp cp k g
  end.

Fixpoint xspec_trace (m : list (list T)) (ops : list (xop T)) : list (list (list T) * bool) :=
  match ops with
  | [] => []
  | o :: rest => let r := xspec_step m o in r :: xspec_trace (fst r) rest
  end.

Lemma xstep_refines (s : matrix T) (o : xop T) : Inv s -> nlen (m_data s) <= isize_max ->
  abs (fst (xstep s o)) = fst (xspec_step (abs s) o) /\ snd (xstep s o) = snd (xspec_step (abs s) o)
  /\ Inv (fst (xstep s o)).
Proof.
  intros Hinv Hl. destruct o as [o|rp cp k v|rp cp k g]; cbn [xstep xspec_step].
  - destruct (panics_iff_allocated s o Hinv Hl) as [_ [_ [H1 H2]]]. split; [exact H1|]. split; [exact H2|].
    apply step_inv; exact Hinv.
  - destruct (abs_of_inv s Hinv) as [Hr Hs].
    destruct (partition_fill_refines (abs s) rp cp k v Hr) as [E R]. rewrite Hs in E. rewrite E. cbn [fst snd].
    destruct (of_rows_abs _ R) as [A I]. auto.
  - destruct (abs_of_inv s Hinv) as [Hr Hs].
    destruct (partition_write_refines (abs s) rp cp k g Hr) as [E R]. rewrite Hs in E. rewrite E. cbn [fst snd].
    destruct (of_rows_abs _ R) as [A I]. auto.
Qed.

Theorem xhistory_refines (ops : list (xop T)) : forall s : matrix T, Inv s ->
  Forall (fun st => nlen (m_data st) <= isize_max) (s :: map fst (xtrace s ops)) ->
  map abs_result (xtrace s ops) = xspec_trace (abs s) ops
  /\ Forall (fun r => Inv (fst r)) (xtrace s ops).
Proof.
  induction ops as [|o ops IH]; intros s Hinv Hall; [split; [reflexivity|constructor]|].
  cbn [xtrace map] in Hall. inversion Hall as [|? ? H0 Hrest]; subst.
  destruct (xstep_refines s o Hinv H0) as [E1 [E2 I]].
  destruct (IH _ I Hrest) as [IH1 IH2].
  cbn [xtrace xspec_trace map]. split.
  - rewrite IH1, E1. f_equal. unfold abs_result. rewrite E1, E2. now destruct (xspec_step (abs s) o).
  - constructor; [exact I|exact IH2].
Qed.

(* the borrow of the parts leaves size and invariant alone, whatever the lists are, and a refused
   partition leaves the matrix untouched *)
Theorem partition_write_frame (s : matrix T) rp cp k g : Inv s ->
  let r := partition_write s rp cp k g in
  Inv (fst r) /\ m_rows (fst r) = m_rows s /\ m_cols (fst r) = m_cols s /\
  (snd r = false <-> partition (m_rows s) (m_cols s) rp cp = Panic) /\
  (snd r = false -> fst r = s).
Proof.
  intros Hinv r. subst r. unfold partition_write.
  pose proof (partition_spec (m_rows s) (m_cols s) rp cp ltac:(destruct Hinv; lia)) as Hspec.
  destruct (partition (m_rows s) (m_cols s) rp cp) as [parts|e|] eqn:Ep.
  - destruct (nth_error parts k) as [p|]; cbn [fst snd m_rows m_cols].
    + assert (I : Inv (mkM (write_part (m_data s) p g) (m_rows s) (m_cols s))).
      { destruct Hinv as [I1 [I2 I3]]. unfold Inv, nlen in *. cbn [m_rows m_cols m_data].
        rewrite length_write_part. auto. }
      repeat split; try discriminate; try exact I; apply I.
    + repeat split; try discriminate; auto; apply Hinv.
  - exfalso. destruct (_ && _ && _ && _) in Hspec; discriminate.
  - cbn [fst snd]. repeat split; auto; apply Hinv.
Qed.

Theorem partition_fill_frame (s : matrix T) rp cp k v : Inv s ->
  let r := partition_fill s rp cp k v in
  Inv (fst r) /\ m_rows (fst r) = m_rows s /\ m_cols (fst r) = m_cols s /\
  (snd r = false <-> partition (m_rows s) (m_cols s) rp cp = Panic) /\
  (snd r = false -> fst r = s).
Proof. exact (partition_write_frame s rp cp k (fun _ _ => v)). Qed.

(* the cell mapping of a part, as the list-of-rows model sees it: after a write through part k of
   an accepted partition, the entry at (i, j) of the matrix is g(i - rlo, j - clo) inside the
   part's rectangle and what it was outside *)
Theorem partition_write_cells (m : list (list T)) rp cp k g rlh clh : rect m ->
  snd (spec_partition_write m rp cp k g) = true ->
  nth_error (intervals 0 (rp ++ [nlen m])) (k / (length cp + 1)) = Some rlh ->
  nth_error (intervals 0 (cp ++ [N.of_nat (ncols m)])) (k mod (length cp + 1)) = Some clh ->
  fst (spec_partition_write m rp cp k g)
  = mapi_from (fun i row => mapi_from (fun j x => if in_rect rlh clh i j then g (i - fst rlh) (j - fst clh) else x) 0 row) 0 m.
Proof.
  intros _ Hok Hr Hc. unfold spec_partition_write in *. rewrite Hr, Hc in *.
  destruct (check_axis rp (nlen m) && check_axis cp (N.of_nat (ncols m)) && chain_b 0 (rp ++ [nlen m])
            && chain_b 0 (cp ++ [N.of_nat (ncols m)])); [reflexivity|discriminate].
Qed.

End Part.
