(* C18 (wave 2): the general-D arm of tensors/display.rs format_view (Model/Format.v fmt_general,
   driven by the row-major enumeration of all indexes) equals the layout defined by RECURSION ON
   THE DIMENSIONALITY: a row is the indent and its cells joined by ", "; a block of k >= 2
   dimensions is its sub-blocks of k-1 dimensions joined by k-1 newlines; the whole text is
   "[\n" block "\n]".  The D = 3 arm (fmt_blocks) is the same layout at k = 3.  From the
   recursive layout: for a given shape the text determines every element (any D). *)
From Coq Require Import List NArith ZArith Bool Arith Lia.
From EasyML Require Import Model.Format Proofs.C18FormatP.
Import ListNotations.

Fixpoint nls (k : nat) : text := match k with O => [] | S k' => t_nl ++ nls k' end.

Lemma nls_snoc k : nls k ++ t_nl = nls (S k).
Proof. induction k as [|k IH]; [reflexivity|]. cbn [nls]. rewrite <- app_assoc, IH. reflexivity. Qed.

(* ---------------------------------------------------------------- list plumbing *)
Lemma concat_map_concat {A B C} (F : B -> list C) (G : A -> list B) xs :
  concat (map F (concat (map G xs))) = concat (map (fun x => concat (map F (G x))) xs).
Proof.
  induction xs as [|x xs IH]; [reflexivity|].
  cbn [map concat]. rewrite map_app, concat_app, IH. reflexivity.
Qed.

Lemma combine_app_eq {A B} (a1 : list A) : forall (b1 : list B) a2 b2, length a1 = length b1 ->
  combine (a1 ++ a2) (b1 ++ b2) = combine a1 b1 ++ combine a2 b2.
Proof.
  induction a1 as [|x a1 IH]; intros [|y b1] a2 b2 H; cbn in H; try lia; [reflexivity|].
  cbn. f_equal. apply IH. lia.
Qed.

Lemma concat_join_last (B X : nat -> text) sep : forall n s,
  (forall i, s <= i < s + n -> X i = sep) ->
  concat (map (fun i => B i ++ X i) (seq s (S n))) = join sep (map B (seq s (S n))) ++ X (s + n).
Proof.
  induction n as [|n IH]; intros s H.
  - cbn. rewrite Nat.add_0_r, app_nil_r. reflexivity.
  - change (seq s (S (S n))) with (s :: seq (S s) (S n)). rewrite !map_cons, concat_cons.
    rewrite (IH (S s)) by (intros i Hi; apply H; lia).
    change (map B (seq (S s) (S n))) with (B (S s) :: map B (seq (S (S s)) n)).
    rewrite join_cons2. change (B (S s) :: map B (seq (S (S s)) n)) with (map B (seq (S s) (S n))).
    rewrite (H s) by lia. replace (S s + n) with (s + S n) by lia. rewrite <- !app_assoc. reflexivity.
Qed.

Lemma first_only (ind : text) (f : nat -> text) n :
  concat (map (fun j => (if Nat.eqb j 0 then ind else []) ++ f j) (seq 0 (S n))) = ind ++ concat (map f (seq 0 (S n))).
Proof.
  change (seq 0 (S n)) with (0 :: seq 1 n). rewrite !map_cons, !concat_cons. cbn [Nat.eqb].
  rewrite <- app_assoc. f_equal. f_equal. f_equal. apply map_ext_in. intros j Hj. apply in_seq in Hj.
  destruct j; [lia|]. reflexivity.
Qed.

Lemma last_only (Z : text) (f : nat -> text) n :
  concat (map (fun j => f j ++ (if Nat.eqb j n then Z else [])) (seq 0 (S n))) = concat (map f (seq 0 (S n))) ++ Z.
Proof.
  rewrite seq_S, !map_app, !concat_app. cbn [map concat Nat.add]. rewrite Nat.eqb_refl, !app_nil_r.
  rewrite app_assoc. f_equal. f_equal. f_equal. apply map_ext_in. intros j Hj. apply in_seq in Hj.
  replace (Nat.eqb j n) with false by (symmetry; apply Nat.eqb_neq; lia). apply app_nil_r.
Qed.

Lemma all_idx_1 c : all_idx [c] = map (fun j => [j]) (seq 0 c).
Proof.
  cbn [all_idx]. generalize (seq 0 c). intro l. induction l as [|j l IH]; [reflexivity|].
  cbn [map concat app]. f_equal. exact IH.
Qed.

Section General.
Context {E : Type} (re : option N -> E -> text) (prec : option N).

(* the layout by recursion on the dimensionality *)
Fixpoint body (lens : list nat) (get : list nat -> E) : text :=
  match lens with
  | [] => []
  | [c] => t_indent ++ fmt_cells re prec c (fun j => get [j])
  | l :: rest => join (nls (length rest)) (map (fun i => body rest (fun s => get (i :: s))) (seq 0 l))
  end.

Definition fmt_rec (lens : list nat) (get : list nat -> E) : text := [91; 10]%N ++ body lens get ++ [10; 93]%N.

Lemma body_cons l a rest get :
  body (l :: a :: rest) get = join (nls (S (length rest))) (map (fun i => body (a :: rest) (fun s => get (i :: s))) (seq 0 l)).
Proof. reflexivity. Qed.

Lemma body_ext : forall lens g1 g2, (forall s, g1 s = g2 s) -> body lens g1 = body lens g2.
Proof.
  induction lens as [|l rest IH]; intros g1 g2 H; [reflexivity|]. destruct rest as [|a rest'].
  - cbn [body]. f_equal. unfold fmt_cells. f_equal. apply map_ext. intro j. rewrite H. reflexivity.
  - rewrite !body_cons. f_equal. apply map_ext. intro i. apply IH. intro s. apply H.
Qed.

(* the newlines after the last element of a block of k dimensions whose outer dimensions
   (innermost first) are ctx *)
Definition tr (ctx : list (nat * nat)) : text := fmt_trail (removelast ctx).
Definition T (ctx : list (nat * nat)) (k : nat) : text := if forallb at_end ctx then [] else nls k ++ tr ctx.

Lemma tr_step_notend i l ctx : at_end (i, l) = false -> tr ((i, l) :: ctx) = [].
Proof.
  intro H. unfold tr. destruct ctx as [|p ctx]; [reflexivity|].
  change (removelast ((i, l) :: p :: ctx)) with ((i, l) :: removelast (p :: ctx)). cbn [fmt_trail]. rewrite H. reflexivity.
Qed.

Lemma tr_step_end i l ctx : at_end (i, l) = true -> forallb at_end ctx = false -> tr ((i, l) :: ctx) = t_nl ++ tr ctx.
Proof.
  intros H F. unfold tr. destruct ctx as [|p ctx]; [discriminate F|].
  change (removelast ((i, l) :: p :: ctx)) with ((i, l) :: removelast (p :: ctx)). cbn [fmt_trail]. rewrite H. reflexivity.
Qed.

Lemma T_step i l ctx k : 0 < l -> i < l ->
  T ((i, l) :: ctx) k = if Nat.eqb i (l - 1) then T ctx (S k) else nls k.
Proof.
  intros Hl Hi. unfold T. cbn [forallb]. unfold at_end at 1. cbn [fst snd].
  destruct (Nat.eqb i (l - 1)) eqn:Ei; cbn [andb].
  - destruct (forallb at_end ctx) eqn:F; [reflexivity|].
    rewrite tr_step_end; [| unfold at_end; cbn [fst snd]; exact Ei | exact F].
    rewrite app_assoc, nls_snoc. reflexivity.
  - rewrite tr_step_notend; [apply app_nil_r | unfold at_end; cbn [fst snd]; exact Ei].
Qed.

Lemma bool_pieces (bi bj bl F : bool) (nl X : text) :
  (if bl && bj then nl else []) ++ (if bi && bj && negb (bj && (bi && F)) then X else [])
  = if bj then (if bl then nl else []) ++ (if bi && negb F then X else []) else [].
Proof. destruct bi, bj, bl, F; reflexivity. Qed.

(* the innermost two dimensions *)
Lemma base_case (get : list nat -> E) pre prelens r c : length pre = length prelens -> 0 < r -> 0 < c ->
  concat (map (fun suf => fmt_gpiece re prec get (prelens ++ [r; c]) (pre ++ suf)) (all_idx [r; c]))
  = body [r; c] (fun s => get (pre ++ s)) ++ T (rev (combine pre prelens)) 2.
Proof.
  intros Hlen Hr Hc. set (ctx := rev (combine pre prelens)).
  assert (Hp : forall i j, fmt_gpiece re prec get (prelens ++ [r; c]) (pre ++ [i; j])
     = (if Nat.eqb j 0 then t_indent else [])
       ++ (re prec (get (pre ++ [i; j])) ++ (if Nat.ltb j (c - 1) then t_comma else []))
       ++ (if Nat.eqb j (c - 1)
           then (if Nat.ltb i (r - 1) then t_nl else [])
                ++ (if Nat.eqb i (r - 1) && negb (forallb at_end ctx) then t_nl ++ fmt_trail ((i, r) :: removelast ctx) else [])
           else [])).
  { intros i j. unfold fmt_gpiece. rewrite combine_app_eq by exact Hlen. rewrite rev_app_distr.
    cbn [combine rev app]. fold ctx. cbn [forallb]. unfold at_end at 1 2. cbn [fst snd].
    rewrite <- bool_pieces. rewrite <- !app_assoc. reflexivity. }
  unfold text in *.
  change (all_idx [r; c]) with (concat (map (fun i => map (cons i) (all_idx [c])) (seq 0 r))).
  rewrite concat_map_concat.
  assert (Hrow : forall i, concat (map (fun suf => fmt_gpiece re prec get (prelens ++ [r; c]) (pre ++ suf)) (map (cons i) (all_idx [c])))
     = (t_indent ++ fmt_cells re prec c (fun j => get (pre ++ [i; j])))
       ++ ((if Nat.ltb i (r - 1) then t_nl else [])
           ++ (if Nat.eqb i (r - 1) && negb (forallb at_end ctx) then t_nl ++ fmt_trail ((i, r) :: removelast ctx) else []))).
  { intro i. rewrite all_idx_1, !map_map.
    rewrite (map_ext _ _ (fun j => Hp i j)).
    destruct c as [|c']; [lia|]. rewrite first_only. replace (S c' - 1) with c' by lia.
    rewrite (last_only _ (fun j => re prec (get (pre ++ [i; j])) ++ (if Nat.ltb j c' then t_comma else []))).
    unfold fmt_cells. replace (S c' - 1) with c' by lia. rewrite <- !app_assoc. reflexivity. }
  rewrite (map_ext _ _ Hrow).
  destruct r as [|r']; [lia|].
  rewrite (concat_join_last (fun i => t_indent ++ fmt_cells re prec c (fun j => get (pre ++ [i; j]))) _ t_nl r' 0).
  - cbn [Nat.add]. replace (S r' - 1) with r' by lia. rewrite Nat.ltb_irrefl, Nat.eqb_refl. cbn [andb app].
    change (body [S r'; c] (fun s => get (pre ++ s)))
      with (join (nls 1) (map (fun i => t_indent ++ fmt_cells re prec c (fun j => get (pre ++ [i; j]))) (seq 0 (S r')))).
    change (nls 1) with (t_nl ++ []). rewrite app_nil_r. f_equal.
    unfold T. destruct (forallb at_end ctx); cbn [negb]; [reflexivity|].
    cbn [fmt_trail]. unfold at_end at 1. cbn [fst snd]. replace (S r' - 1) with r' by lia. rewrite Nat.eqb_refl.
    cbn [nls]. unfold tr. rewrite <- !app_assoc. reflexivity.
  - intros i Hi. replace (S r' - 1) with r' by lia.
    replace (Nat.ltb i r') with true by (symmetry; apply Nat.ltb_lt; lia).
    replace (Nat.eqb i r') with false by (symmetry; apply Nat.eqb_neq; lia). cbn [andb]. apply app_nil_r.
Qed.

(* every block of k >= 2 dimensions *)
Lemma general_case (get : list nat -> E) : forall sub pre prelens,
  length pre = length prelens -> 2 <= length sub -> Forall (fun l => 0 < l) sub ->
  concat (map (fun suf => fmt_gpiece re prec get (prelens ++ sub) (pre ++ suf)) (all_idx sub))
  = body sub (fun s => get (pre ++ s)) ++ T (rev (combine pre prelens)) (length sub).
Proof.
  unfold text in *.
  induction sub as [|l sub IH]; intros pre prelens Hlen H2 Hpos; [cbn in H2; lia|].
  destruct sub as [|a [|b sub']]; [cbn in H2; lia | |].
  - inversion Hpos as [|? ? Hl Hp']; subst. inversion Hp' as [|? ? Ha _]; subst.
    apply base_case; assumption.
  - inversion Hpos as [|? ? Hl Hp']; subst.
    change (all_idx (l :: a :: b :: sub')) with (concat (map (fun i => map (cons i) (all_idx (a :: b :: sub'))) (seq 0 l))).
    rewrite concat_map_concat.
    assert (Hblk : forall i, In i (seq 0 l) ->
      concat (map (fun suf => fmt_gpiece re prec get (prelens ++ l :: a :: b :: sub') (pre ++ suf)) (map (cons i) (all_idx (a :: b :: sub'))))
      = body (a :: b :: sub') (fun s => get (pre ++ i :: s))
        ++ (if Nat.eqb i (l - 1) then T (rev (combine pre prelens)) (S (length (a :: b :: sub'))) else nls (length (a :: b :: sub')))).
    { intros i Hi. apply in_seq in Hi. rewrite map_map.
      rewrite (map_ext _ (fun suf => fmt_gpiece re prec get ((prelens ++ [l]) ++ a :: b :: sub') ((pre ++ [i]) ++ suf)))
        by (intro suf; rewrite <- !app_assoc; reflexivity).
      unfold text in *.
      rewrite (IH (pre ++ [i]) (prelens ++ [l])).
      - rewrite combine_app_eq by exact Hlen. rewrite rev_app_distr. cbn [combine rev app].
        rewrite T_step by lia. f_equal.
        apply body_ext. intro s. rewrite <- app_assoc. reflexivity.
      - rewrite !app_length. cbn. lia.
      - cbn [length]. lia.
      - exact Hp'. }
    unfold text in *. rewrite (map_ext_in _ _ _ Hblk).
    destruct l as [|l']; [lia|].
    rewrite (concat_join_last (fun i => body (a :: b :: sub') (fun s => get (pre ++ i :: s))) _ (nls (length (a :: b :: sub'))) l' 0).
    + cbn [Nat.add]. replace (S l' - 1) with l' by lia. rewrite Nat.eqb_refl.
      rewrite body_cons. reflexivity.
    + intros i Hi. replace (S l' - 1) with l' by lia.
      replace (Nat.eqb i l') with false by (symmetry; apply Nat.eqb_neq; lia). reflexivity.
Qed.

(* THE GENERAL ARM IS THE RECURSIVE LAYOUT *)
Theorem fmt_general_is_recursive lens get : 2 <= length lens -> Forall (fun l => 0 < l) lens ->
  fmt_general re prec lens get = fmt_rec lens get.
Proof.
  intros H2 Hpos. unfold fmt_general, fmt_rec. f_equal. f_equal.
  pose proof (general_case get lens [] [] eq_refl H2 Hpos) as H.
  etransitivity; [exact H|].
  unfold T. cbn [combine rev forallb]. rewrite app_nil_r. reflexivity.
Qed.

(* the D = 3 arm is the same layout *)
Theorem fmt_blocks_is_recursive b r c get : 0 < b -> 0 < r ->
  fmt_blocks re prec b r c get = fmt_rec [b; r; c] (fun idx => match idx with [i; j; k] => get i j k | _ => get 0 0 0 end).
Proof.
  intros Hb Hr. unfold fmt_blocks, fmt_rec. unfold text in *. f_equal. f_equal.
  destruct b as [|b']; [lia|]. destruct r as [|r']; [lia|].
  rewrite body_cons. cbn [length].
  pose proof (concat_sep_join (fun blk => concat (map (fun row => t_indent ++ fmt_cells re prec c (get blk row)
                   ++ (if Nat.ltb row (S r' - 1) then t_nl else [])) (seq 0 (S r')))) (t_nl ++ t_nl) (S b') 0) as H.
  cbn [Nat.add] in H. rewrite H. clear H.
  change (nls 2) with (t_nl ++ t_nl ++ []). rewrite app_nil_r. f_equal.
  apply map_ext. intro blk.
  pose proof (concat_sep_join (fun row => t_indent ++ fmt_cells re prec c (get blk row)) t_nl (S r') 0) as H.
  cbn [Nat.add] in H.
  rewrite (map_ext _ (fun c0 => (t_indent ++ fmt_cells re prec c (get blk c0)) ++ (if Nat.ltb c0 (S r' - 1) then t_nl else [])))
    by (intro; rewrite <- app_assoc; reflexivity).
  rewrite H. cbn [body length nls]. rewrite app_nil_r. reflexivity.
Qed.
End General.

(* ---------------------------------------------------------------- the text determines every element (any D) *)
Definition tailnl (t : text) : Prop := t = [] \/ exists t', t = 10%N :: t'.

Lemma tailnl_tail2 t : tailnl t -> tail2 t.
Proof.
  intros [->|(t' & ->)]; [left; reflexivity|].
  right. exists 10%N, t'. split; [reflexivity|]. split; [reflexivity | discriminate].
Qed.

Lemma tailnl_nls k X : tailnl (nls (S k) ++ X).
Proof. right. cbn [nls]. unfold t_nl. cbn [app]. eexists. reflexivity. Qed.

Section InjAny.
Context {E : Type} (re : option N -> E -> text) (prec : option N).
Hypothesis re_word : forall e, word (re prec e).
Hypothesis re_inj : forall a b, re prec a = re prec b -> a = b.

Lemma row_inj c (g1 g2 : nat -> E) T1 T2 : 0 < c -> tailnl T1 -> tailnl T2 ->
  fmt_cells re prec c g1 ++ T1 = fmt_cells re prec c g2 ++ T2 -> (forall j, j < c -> g1 j = g2 j) /\ T1 = T2.
Proof.
  intros Hc H1 H2 Eq. rewrite !fmt_cells_join in Eq.
  destruct (join_comma_inj (map (fun j => re prec (g1 j)) (seq 0 c)) (map (fun j => re prec (g2 j)) (seq 0 c)) T1 T2) as [A B];
    auto using tailnl_tail2.
  - destruct c; [lia|]. cbn. discriminate.
  - destruct c; [lia|]. cbn. discriminate.
  - apply Forall_forall. intros w Hw. apply in_map_iff in Hw. destruct Hw as (j & <- & _). apply re_word.
  - apply Forall_forall. intros w Hw. apply in_map_iff in Hw. destruct Hw as (j & <- & _). apply re_word.
  - split; [|exact B]. intros j Hj.
    pose proof (proj1 (@map_ext_in_iff _ _ _ _ _) A j) as Hc'.
    assert (In j (seq 0 c)) as Hin by (apply in_seq; lia). specialize (Hc' Hin). cbv beta in Hc'.
    apply re_inj. exact Hc'.
Qed.

Lemma join_blocks_inj (B1 B2 : nat -> text) (P : nat -> Prop) k :
  (forall i T1 T2, tailnl T1 -> tailnl T2 -> B1 i ++ T1 = B2 i ++ T2 -> P i /\ T1 = T2) ->
  forall n s T1 T2, tailnl T1 -> tailnl T2 ->
  join (nls (S k)) (map B1 (seq s (S n))) ++ T1 = join (nls (S k)) (map B2 (seq s (S n))) ++ T2 ->
  (forall i, s <= i < s + S n -> P i) /\ T1 = T2.
Proof.
  intros Hb. induction n as [|n IH]; intros s T1 T2 H1 H2 Eq.
  - cbn [seq map join] in Eq. destruct (Hb s T1 T2 H1 H2 Eq) as [Ps ET]. split; [|exact ET].
    intros i Hi. replace i with s by lia. exact Ps.
  - change (seq s (S (S n))) with (s :: seq (S s) (S n)) in Eq. rewrite !map_cons in Eq.
    change (map B1 (seq (S s) (S n))) with (B1 (S s) :: map B1 (seq (S (S s)) n)) in Eq.
    change (map B2 (seq (S s) (S n))) with (B2 (S s) :: map B2 (seq (S (S s)) n)) in Eq.
    rewrite !join_cons2 in Eq. rewrite <- !app_assoc in Eq.
    change (B1 (S s) :: map B1 (seq (S (S s)) n)) with (map B1 (seq (S s) (S n))) in Eq.
    change (B2 (S s) :: map B2 (seq (S (S s)) n)) with (map B2 (seq (S s) (S n))) in Eq.
    destruct (Hb s _ _ (tailnl_nls k _) (tailnl_nls k _) Eq) as [Ps Eq'].
    apply app_inv_head in Eq'. destruct (IH (S s) T1 T2 H1 H2 Eq') as [Pr ET]. split; [|exact ET].
    intros i Hi. destruct (Nat.eq_dec i s) as [->|Hne]; [exact Ps | apply Pr; lia].
Qed.

Lemma body_inj : forall lens, lens <> [] -> Forall (fun l => 0 < l) lens ->
  forall (g1 g2 : list nat -> E) T1 T2, tailnl T1 -> tailnl T2 ->
  body re prec lens g1 ++ T1 = body re prec lens g2 ++ T2 ->
  (forall idx, Forall2 lt idx lens -> g1 idx = g2 idx) /\ T1 = T2.
Proof.
  induction lens as [|l rest IH]; intros Hne Hpos g1 g2 T1 T2 H1 H2 Eq; [congruence|].
  inversion Hpos as [|? ? Hl Hp']; subst.
  destruct rest as [|a rest'].
  - cbn [body] in Eq. rewrite <- !app_assoc in Eq. apply app_inv_head in Eq.
    destruct (row_inj l (fun j => g1 [j]) (fun j => g2 [j]) T1 T2 Hl H1 H2 Eq) as [A B]. split; [|exact B].
    intros idx Hidx. inversion Hidx as [|i ? ? ? Hi Hr]; subst. inversion Hr; subst. apply A. exact Hi.
  - rewrite !body_cons in Eq. destruct l as [|l']; [lia|].
    destruct (join_blocks_inj (fun i => body re prec (a :: rest') (fun s => g1 (i :: s)))
                              (fun i => body re prec (a :: rest') (fun s => g2 (i :: s)))
                              (fun i => forall idx, Forall2 lt idx (a :: rest') -> g1 (i :: idx) = g2 (i :: idx))
                              (length rest')) with (n := l') (s := 0) (T1 := T1) (T2 := T2) as [A B]; auto.
    + intros i U1 U2 HU1 HU2 EqU. apply (IH ltac:(discriminate) Hp' _ _ U1 U2 HU1 HU2 EqU).
    + split; [|exact B]. intros idx Hidx. inversion Hidx as [|i ? idx' ? Hi Hr]; subst. apply A; [lia | exact Hr].
Qed.

Lemma forall2_snd idx (sh : list (nat * nat)) : Forall2 (fun i p => i < snd p) idx sh -> Forall2 lt idx (map snd sh).
Proof. induction 1; cbn; constructor; auto. Qed.

Lemma fmt_rec_inj lens (g1 g2 : list nat -> E) : lens <> [] -> Forall (fun l => 0 < l) lens ->
  fmt_rec re prec lens g1 = fmt_rec re prec lens g2 -> forall idx, Forall2 lt idx lens -> g1 idx = g2 idx.
Proof.
  intros Hne Hpos Eq. unfold fmt_rec in Eq. apply app_inv_head in Eq.
  destruct (body_inj lens Hne Hpos g1 g2 [10; 93]%N [10; 93]%N) as [A _]; auto;
    right; eexists; reflexivity.
Qed.

(* tensors/display.rs format_view for EVERY dimensionality and a given shape: the text determines
   every element *)
Theorem tensor_display_injective_any (sh : list (nat * nat)) (g1 g2 : list nat -> E) t :
  Forall (fun p => 0 < snd p) sh ->
  fmt_tensor re prec sh g1 = Some t -> fmt_tensor re prec sh g2 = Some t ->
  forall idx, Forall2 (fun i p => i < snd p) idx sh -> g1 idx = g2 idx.
Proof.
  intros Hpos F1 F2 idx Hidx.
  destruct (le_lt_dec (length sh) 2) as [Hs|Hb].
  { exact (tensor_display_injective re prec re_word re_inj sh g1 g2 t Hs Hpos F1 F2 idx Hidx). }
  assert (Hpos' : Forall (fun l => 0 < l) (map snd sh)).
  { apply Forall_forall. intros l Hl. apply in_map_iff in Hl. destruct Hl as (p & <- & Hp).
    exact (proj1 (Forall_forall _ _) Hpos p Hp). }
  assert (Hne : map snd sh <> []) by (destruct sh; [cbn in Hb; lia | discriminate]).
  pose proof (forall2_snd idx sh Hidx) as Hidx'.
  destruct sh as [|[n0 b] [|[n1 r] [|[n2 c] [|p3 rest]]]]; cbn [length] in Hb; try lia.
  - (* D = 3 *)
    cbn [fmt_tensor] in F1, F2.
    assert (Eq : fmt_blocks re prec b r c (fun i j k => g1 [i; j; k]) = fmt_blocks re prec b r c (fun i j k => g2 [i; j; k])).
    { apply (app_inv_head (fmt_header [(n0, b); (n1, r); (n2, c)])). congruence. }
    inversion Hpos as [|? ? Hb0 Hp1]; subst. inversion Hp1 as [|? ? Hr0 _]; subst. cbn [snd] in Hb0, Hr0.
    rewrite !fmt_blocks_is_recursive in Eq by assumption.
    pose proof (fmt_rec_inj [b; r; c] _ _ Hne Hpos' Eq idx Hidx') as H.
    inversion Hidx' as [|i ? ? ? _ Hr1]; subst. inversion Hr1 as [|j ? ? ? _ Hr2]; subst.
    inversion Hr2 as [|k ? ? ? _ Hr3]; subst. inversion Hr3; subst. exact H.
  - (* D >= 4: the general arm *)
    cbn [fmt_tensor] in F1, F2.
    set (sh := (n0, b) :: (n1, r) :: (n2, c) :: p3 :: rest) in *.
    assert (Eq : fmt_general re prec (map snd sh) g1 = fmt_general re prec (map snd sh) g2).
    { apply (app_inv_head (fmt_header sh)). congruence. }
    rewrite !fmt_general_is_recursive in Eq; try assumption; try (unfold sh; cbn [map length]; lia).
    exact (fmt_rec_inj (map snd sh) g1 g2 Hne Hpos' Eq idx Hidx').
Qed.
End InjAny.
