(* C13 - transitivity of tensor equality (== / PartialEq of tensors and views): with reflexivity and symmetry
   (Proofs/C13P.v) equality is an equivalence relation on sources meeting the TensorRef contract. *)
From Coq Require Import List ZArith NArith Bool Arith.
From EasyML Require Import Base.Sx Model.Shape Model.Tensor Model.TSource Model.ShapeIter
  Model.Transform Model.TransformG Proofs.ShapeP Proofs.C01P Proofs.C13P Proofs.C13GenP.
Import ListNotations.
Open Scope N_scope.

Section EqTrans.
Context {A : Type}.
Variable eqb : A -> A -> bool.
Hypothesis eqb_spec : forall x y, eqb x y = true <-> x = y.

Theorem equality_trans (l m r : tsrc A) : src_total l -> src_total m -> src_total r ->
  tensor_equality eqb l m = true -> tensor_equality eqb m r = true -> tensor_equality eqb l r = true.
Proof.
  intros Tl Tm Tr H1 H2.
  apply (equality_iff eqb eqb_spec l m Tl Tm) in H1. destruct H1 as [S1 G1].
  apply (equality_iff eqb eqb_spec m r Tm Tr) in H2. destruct H2 as [S2 G2].
  apply (equality_iff eqb eqb_spec l r Tl Tr). split; [congruence|].
  intros idx Hr. rewrite (G1 idx Hr). apply G2. rewrite <- S1. exact Hr.
Qed.

Theorem gen_equality_trans (l m r : gsrc A) : g_contract l -> g_contract m -> g_contract r ->
  g_equality eqb l m = true -> g_equality eqb m r = true -> g_equality eqb l r = true.
Proof.
  intros Tl Tm Tr H1 H2.
  apply (gen_equality_iff eqb eqb_spec l m Tl Tm) in H1. destruct H1 as [S1 G1].
  apply (gen_equality_iff eqb eqb_spec m r Tm Tr) in H2. destruct H2 as [S2 G2].
  apply (gen_equality_iff eqb eqb_spec l r Tl Tr). split; [congruence|].
  intros idx Hr. rewrite (G1 idx Hr). apply G2. rewrite <- S1. exact Hr.
Qed.
End EqTrans.
