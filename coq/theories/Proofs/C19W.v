(* C19, "trace/record wrappers inherit these ... can be used as an element type everywhere":
   Trace<T> as an element type (Model/WrapperNum.v).
   (1) the dictionary of Trace<T> is, operation by operation, the dual-number model of C05
       (Model/Forward.v) — one model of the derivative rules, two uses;
   (2) taking the number component is a homomorphism from Trace<T>'s operations to T's (unary
       minus: only where 0 - x = -x in T, see the note on negation in notes/C03_C19.md);
   (3) hence the generic routines run at Trace<T> answer, in their number component, exactly what
       they answer at T on the number components: mean, variance, f1_score, softmax (Real-bounded),
       determinant (both routes) — for EVERY dictionary of operations, no law assumed. *)
From Coq Require Import List ZArith NArith Bool Arith Lia.
From EasyML Require Import Base.Sx Model.Num Model.Numeric Model.WrapperNum Model.Stats Model.Perms.
From EasyML Require Model.Forward Model.LinAlg.
From EasyML Require Import Proofs.C19U.
Import ListNotations.

Section W.
Context {R : Type} (ops : numops R).
Notation W := (wrapper_numops ops).
Notation num := (@tr_number R).

(* ---------- (1) the same derivative rules as the forward-mode model of C05 ---------- *)
Definition fw (a : trace R) : Forward.trace R := Forward.mkTrace (tr_number a) (tr_derivative a).

Theorem wrapper_dictionary_is_forward_model (a b : trace R) :
  fw (nadd W a b) = Forward.t_add ops (fw a) (fw b) /\
  fw (nsub W a b) = Forward.t_sub ops (fw a) (fw b) /\
  fw (nmul W a b) = Forward.t_mul ops (fw a) (fw b) /\
  fw (ndiv W a b) = Forward.t_div ops (fw a) (fw b) /\
  fw (nneg W a) = Forward.t_neg ops (fw a) /\
  fw (nsin W a) = Forward.t_sin ops (fw a) /\ fw (ncos W a) = Forward.t_cos ops (fw a) /\
  fw (nexp W a) = Forward.t_exp ops (fw a) /\ fw (nln W a) = Forward.t_ln ops (fw a) /\
  fw (nsqrt W a) = Forward.t_sqrt ops (fw a) /\ fw (npow W a b) = Forward.t_pow ops (fw a) (fw b) /\
  fw (nzero W) = Forward.tconstant ops (nzero ops) /\ fw (none_ W) = Forward.tconstant ops (none_ ops) /\
  (forall l, fw (fold_left (nadd W) l (nzero W)) = Forward.t_sum ops (map fw l)).
Proof.
  repeat (split; [reflexivity|]). intros l. unfold Forward.t_sum.
  change (Forward.tconstant ops (nzero ops)) with (fw (nzero W)). generalize (nzero W).
  induction l as [|x l IH]; intros s; cbn [fold_left map]; [reflexivity|]. rewrite IH. reflexivity.
Qed.

(* ---------- (2) the number component is a homomorphism ---------- *)
Theorem number_is_a_homomorphism (a b : trace R) :
  num (nzero W) = nzero ops /\ num (none_ W) = none_ ops /\
  num (nadd W a b) = nadd ops (num a) (num b) /\ num (nsub W a b) = nsub ops (num a) (num b) /\
  num (nmul W a b) = nmul ops (num a) (num b) /\ num (ndiv W a b) = ndiv ops (num a) (num b) /\
  num (nneg W a) = nsub ops (nzero ops) (num a) /\
  neqb W a b = neqb ops (num a) (num b) /\ nltb W a b = nltb ops (num a) (num b) /\
  nleb W a b = nleb ops (num a) (num b) /\
  num (nsqrt W a) = nsqrt ops (num a) /\ num (nexp W a) = nexp ops (num a) /\
  num (nln W a) = nln ops (num a) /\ num (nsin W a) = nsin ops (num a) /\
  num (ncos W a) = ncos ops (num a) /\ num (npow W a b) = npow ops (num a) (num b) /\
  num (npi W) = npi ops /\
  (forall n, option_map num (nof_N W n) = nof_N ops n).
Proof.
  repeat (split; [reflexivity|]). intros n. cbn [nof_N wrapper_numops]. unfold trace_from_usize.
  destruct (nof_N ops n); reflexivity.
Qed.

(* ---------- (3) the routines ---------- *)
Lemma num_fold_add l : forall s,
  num (fold_left (nadd W) l s) = fold_left (nadd ops) (map num l) (num s).
Proof. induction l as [|x l IH]; intros s; cbn [fold_left map]; [reflexivity|]. rewrite IH. reflexivity. Qed.

Lemma num_fold_count l : forall s,
  num (fold_left (fun c _ => nadd W c (none_ W)) l s) =
  fold_left (fun c _ => nadd ops c (none_ ops)) (map num l) (num s).
Proof. induction l as [|x l IH]; intros s; cbn [fold_left map]; [reflexivity|]. rewrite IH. reflexivity. Qed.

Lemma num_mean_formula l : num (mean_formula W l) = mean_formula ops (map num l).
Proof.
  unfold mean_formula, sum_of, count_of. change (num (ndiv W ?a ?b)) with (ndiv ops (num a) (num b)).
  rewrite num_fold_add, num_fold_count. reflexivity.
Qed.

Theorem wrapper_mean_variance_f1 (l : list (trace R)) (p r : trace R) : l <> [] ->
  omap num (mean W l) = mean ops (map num l) /\
  omap num (variance W l) = variance ops (map num l) /\
  num (f1_score W p r) = f1_score ops (num p) (num r).
Proof.
  intros H. assert (H' : map num l <> []) by (destruct l; [congruence|discriminate]).
  rewrite (any_type_mean W l H), (any_type_mean ops _ H'), (any_type_variance W l H),
          (any_type_variance ops _ H'). cbn [omap].
  split; [rewrite num_mean_formula; reflexivity|]. split; [|reflexivity].
  unfold variance_formula. rewrite num_mean_formula, !map_map.
  apply (f_equal (fun z => Ok (mean_formula ops z))).
  apply map_ext. intros x. rewrite <- num_mean_formula. reflexivity.
Qed.

Lemma num_max_fold l : forall x,
  num (fold_left (max_step W) l x) = fold_left (max_step ops) (map num l) (num x).
Proof.
  induction l as [|y l IH]; intros x; cbn [fold_left map]; [reflexivity|]. rewrite IH. f_equal.
  unfold max_step. change (nltb W y x) with (nltb ops (num y) (num x)).
  destruct (nltb ops (num y) (num x)); reflexivity.
Qed.

(* softmax needs Real (exp): the number components of softmax at Trace<T> are softmax at T *)
Theorem wrapper_softmax (l : list (trace R)) :
  map num (softmax W l) = softmax ops (map num l).
Proof.
  unfold softmax, max_by. destruct l as [|x l]; [reflexivity|]. cbn [map].
  rewrite <- num_max_fold. set (mx := fold_left (max_step W) l x).
  unfold isum. rewrite map_map. cbn [map].
  change (nzero ops) with (num (nzero W)).
  assert (E : forall s, fold_left (nadd ops)
                (map (fun x0 => nexp ops (nsub ops x0 (num mx))) (map num (x :: l))) (num s) =
              num (fold_left (nadd W) (map (fun x0 => nexp W (nsub W x0 mx)) (x :: l)) s)).
  { intros s. rewrite num_fold_add, !map_map. reflexivity. }
  cbn [map] in E. rewrite E. rewrite !map_map. reflexivity.
Qed.

(* determinant, tensor and matrix route *)
Notation nmat := (map (map num)).

Lemma num_mget (m : list (list (trace R))) i j :
  num (LinAlg.mget W m i j) = LinAlg.mget ops (nmat m) i j.
Proof.
  unfold LinAlg.mget. rewrite <- (map_nth num). rewrite <- (map_nth (map num) m []). reflexivity.
Qed.

Lemma num_product m p : num (LinAlg.product W m p) = LinAlg.product ops (nmat m) p.
Proof.
  unfold LinAlg.product. change (none_ ops) with (num (none_ W)). generalize (none_ W).
  generalize (combine (seq 0 (length p)) p). intros l.
  induction l as [|ni l IH]; intros s; cbn [fold_left]; [reflexivity|].
  rewrite IH. f_equal. change (num (nmul W ?a ?b)) with (nmul ops (num a) (num b)).
  rewrite num_mget. reflexivity.
Qed.

Lemma num_leibniz m n : num (LinAlg.leibniz_fold W m n) = LinAlg.leibniz_fold ops (nmat m) n.
Proof.
  unfold LinAlg.leibniz_fold. change (nzero ops) with (num (nzero W)). generalize (nzero W).
  generalize (heap_perms n). intros l.
  induction l as [|pe l IH]; intros s; cbn [fold_left]; [reflexivity|].
  rewrite IH. f_equal.
  change (num (nadd W ?a ?b)) with (nadd ops (num a) (num b)).
  change (num (nmul W ?a ?b)) with (nmul ops (num a) (num b)).
  rewrite num_product. f_equal. f_equal. destruct (snd pe); reflexivity.
Qed.

Lemma nmat_dims (m : list (list (trace R))) :
  LinAlg.mrows (nmat m) = LinAlg.mrows m /\ LinAlg.mcols (nmat m) = LinAlg.mcols m.
Proof.
  unfold LinAlg.mrows, LinAlg.mcols. rewrite map_length. split; [reflexivity|].
  destruct m as [|r m]; [reflexivity|]. cbn [map hd]. apply map_length.
Qed.

Theorem wrapper_determinant (m : list (list (trace R))) :
  option_map num (LinAlg.det_tensor W m) = LinAlg.det_tensor ops (nmat m) /\
  option_map num (LinAlg.det_matrix W m) = LinAlg.det_matrix ops (nmat m).
Proof.
  destruct (nmat_dims m) as [Er Ec].
  assert (T : option_map num (LinAlg.det_tensor W m) = LinAlg.det_tensor ops (nmat m)).
  { unfold LinAlg.det_tensor, LinAlg.is_square. rewrite Er, Ec.
    destruct (negb _); [reflexivity|]. destruct (Nat.eqb (LinAlg.mrows m) 0); [reflexivity|].
    destruct (Nat.eqb (LinAlg.mrows m) 1); cbn [option_map]; [rewrite num_mget; reflexivity|].
    rewrite num_leibniz. reflexivity. }
  split; [exact T|]. unfold LinAlg.det_matrix. rewrite Er, Ec.
  destruct (negb _); [reflexivity|]. destruct (LinAlg.mrows m) as [|[|k]]; [reflexivity| |exact T].
  cbn [option_map]. rewrite num_mget. reflexivity.
Qed.
End W.
