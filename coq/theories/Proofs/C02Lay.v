(* C02: the panic paths that guard clause 5 of the TensorRef contract (data_layout names must be
   the view_shape's names), and the interop layouts.
   - TensorRename::data_layout panics exactly when the source's Linear order names a dimension that
     is not in its view_shape; TensorAccess::from_memory_order panics exactly when the order is not
     a permutation of the view_shape's names (`rename_layout_panic_iff`, `memory_order_panic_iff`):
     both are contract violations of the SOURCE.
   - no constructed view of the algebra ever reaches them, at any depth (`layout_never_fails`,
     `memory_order_never_panics`).
   - a 2-dimensional view taken through MatrixRefTensor and TensorRefMatrix is the rename of the
     view to the two new names, except that a NonLinear layout degrades to Other (`matrix_trip_is_rename`). *)
From Coq Require Import List ZArith NArith Bool Arith Lia Permutation.
From EasyML Require Import Base.Sx Model.Shape Model.Views Model.ViewsConv Proofs.ShapeP Proofs.C01P
  Proofs.C02Lemmas Proofs.C02P Proofs.C02Lin Proofs.C02Conv.
Import ListNotations.
Open Scope N_scope.

Lemma positions_found_iff (sh : shape) order :
  sequence (map (position_of sh) order) <> None <-> incl order (names_of sh).
Proof.
  rewrite sequence_None_iff. split.
  - intros H n Hn. destruct (position_of sh n) as [p|] eqn:E.
    + unfold position_of in E. apply index_of_Some in E as [Hp <-]. apply nth_In. exact Hp.
    + exfalso. apply H. apply in_map_iff. exists n. split; assumption.
  - intros H Hin. apply in_map_iff in Hin as [n [E Hn]]. unfold position_of in E.
    apply index_of_None in E. apply E, H, Hn.
Qed.

Theorem rename_layout_panic_iff sh ns order :
  rename_layout sh ns (Linear order) = Panic <-> ~ incl order (names_of sh).
Proof.
  rewrite <- positions_found_iff. unfold rename_layout.
  destruct (sequence (map (position_of sh) order)); split; intros H; try discriminate; try reflexivity.
  - exfalso. apply H. discriminate.
  - intros X. apply X. reflexivity.
Qed.

Theorem rename_layout_other sh ns lay : (forall order, lay <> Linear order) ->
  rename_layout sh ns lay = Ok lay.
Proof. destruct lay; intros H; try reflexivity. exfalso. eapply H. reflexivity. Qed.

Theorem memory_order_panic_iff sh order : NoDup (names_of sh) -> length order = length sh ->
  (memory_order_tbl sh (Linear order) = Panic <-> ~ Permutation (names_of sh) order).
Proof.
  intros Hnd Hl. unfold memory_order_tbl. rewrite Hl, Nat.eqb_refl. cbn [negb].
  pose proof (dm_new_iff_perm (names_of sh) order Hnd ltac:(rewrite names_of_length; exact Hl)) as Hp.
  destruct (dm_new (names_of sh) order) as [tbl|]; split; intros H; try discriminate; try reflexivity.
  - exfalso. apply H, Hp. discriminate.
  - intros X. apply Hp in X. apply X. reflexivity.
Qed.

(* ---------- no constructed view reaches the panic paths ---------- *)
Lemma Forall_all_cwf cs :
  (fix all (l : list cview) : Prop := match l with [] => True | x :: r => cwf x /\ all r end) cs ->
  Forall cwf cs.
Proof. apply all_Forall. Qed.

Theorem layout_never_fails c : cwf c -> usize_view c -> exists lay, c_layout c = Ok lay.
Proof.
  unfold c_layout.
  induction c using cview_ind'; cbn [cwf usize_view c_layout_gen]; intros Hw Hu;
    try (eexists; reflexivity).
  - (* rename *)
    destruct Hw as [Hw [Hl Hnd]]. destruct (IHc Hw Hu) as [lay E]. rewrite E.
    destruct lay as [order| |]; try (eexists; reflexivity).
    destruct (linear_inv c Hw Hu order E) as [id [_ [Hp _]]].
    destruct (sequence (map (position_of (c_shape c)) order)) eqn:Es; [eexists; reflexivity|].
    exfalso. revert Es. apply positions_found_iff. intros n Hn.
    eapply Permutation_in; [exact Hp|exact Hn].
  - (* access *) destruct Hw as [Hw _]. apply IHc; assumption.
  - (* transpose *)
    destruct Hw as [Hw _]. destruct (IHc Hw Hu) as [lay E]. rewrite E.
    destruct lay; eexists; reflexivity.
  - (* wrap *) apply IHc; assumption.
Qed.

Theorem memory_order_never_panics c : cwf c -> usize_view c ->
  exists o, memory_order_tbl (c_shape c) match c_layout c with Ok lay => lay | _ => Other end = Ok o.
Proof.
  intros Hw Hu. destruct (layout_never_fails c Hw Hu) as [lay E]. rewrite E.
  destruct lay as [order| |]; try (eexists; reflexivity).
  destruct (linear_inv c Hw Hu order E) as [id [_ [Hp _]]].
  destruct (cwf_contract c Hw Hu) as [[Hnd _] _].
  assert (Hl : length order = length (c_shape c))
    by (rewrite (Permutation_length Hp); apply names_of_length).
  destruct (memory_order_tbl (c_shape c) (Linear order)) as [o|e|] eqn:Em; [eexists; reflexivity| |].
  - exfalso. unfold memory_order_tbl in Em. rewrite Hl, Nat.eqb_refl in Em. cbn [negb] in Em.
    destruct (dm_new _ _); discriminate.
  - exfalso. apply (memory_order_panic_iff _ _ Hnd Hl) in Em. apply Em. symmetry. exact Hp.
Qed.

(* ---------- interop ---------- *)
Lemma forallb_combine_eq (a : list name) : forall b, length a = length b ->
  (forallb (fun p => Nat.eqb (fst p) (snd p)) (combine a b) = true <-> a = b).
Proof.
  induction a as [|x a IH]; intros [|y b] Hl; cbn [length] in Hl; try discriminate.
  - split; reflexivity.
  - cbn [combine forallb fst snd]. rewrite andb_true_iff, Nat.eqb_eq, (IH b) by lia.
    split; [intros [-> ->]; reflexivity|intros E; injection E; auto].
Qed.
Lemma names_eqb_spec a b : names_eqb a b = true <-> a = b.
Proof.
  unfold names_eqb. rewrite andb_true_iff, Nat.eqb_eq. split.
  - intros [Hl H]. apply forallb_combine_eq; assumption.
  - intros ->. split; [reflexivity|]. apply forallb_combine_eq; reflexivity.
Qed.

(* the trip view IS the rename of the view to [n0; n1], except: error instead of panic for equal
   names, and a NonLinear (or non-matching Linear) layout is reported as Other *)
Theorem matrix_trip_is_rename c r0 k0 rows cols n0 n1 :
  c_shape c = [(r0, rows); (k0, cols)] -> r0 <> k0 -> 0 < rows -> 0 < cols ->
  (n0 = n1 -> matrix_trip c n0 n1 = Err (e_shape [(n0, rows); (n1, cols)])) /\
  (n0 <> n1 -> forall lay, c_layout c = Ok lay ->
     exists lay', matrix_trip c n0 n1 = Ok (c_shape (CRename c [n0; n1]), lay', c_get (CRename c [n0; n1])) /\
       match lay with
       | Linear order =>
           (order = [r0; k0] \/ order = [k0; r0]) -> c_layout (CRename c [n0; n1]) = Ok lay'
       | NonLinear => lay' = Other
       | Other => lay' = Other
       end).
Proof.
  intros Hs Hrk Hr Hc. unfold matrix_trip. rewrite Hs. split.
  - intros <-. unfold valid_shape_b. cbn [names_of map fst has_duplicates existsb].
    rewrite Nat.eqb_refl. reflexivity.
  - intros Hn lay El. rewrite El.
    assert (Hv : valid_shape_b [(n0, rows); (n1, cols)] = true).
    { apply valid_shape_b_spec. split.
      - cbn. constructor; [intros [X|[]]; congruence|constructor; [intros []|constructor]].
      - repeat constructor; cbn; lia. }
    rewrite Hv. eexists. split; [cbn [c_shape c_get]; rewrite Hs; reflexivity|].
    unfold matrix_ref_tensor_layout. cbn [nth fst]. destruct lay as [order| |]; try reflexivity.
    intros Ho. unfold c_layout in *. cbn [c_layout_gen]. rewrite El, Hs.
    unfold position_of. cbn [names_of map fst].
    destruct Ho as [-> | ->].
    + rewrite (proj2 (names_eqb_spec _ _) eq_refl). cbn [map index_of].
      rewrite Nat.eqb_refl. destruct (Nat.eqb r0 k0) eqn:E; [apply Nat.eqb_eq in E; congruence|].
      rewrite Nat.eqb_refl. reflexivity.
    + destruct (names_eqb [k0; r0] [r0; k0]) eqn:E1.
      { apply names_eqb_spec in E1. congruence. }
      rewrite (proj2 (names_eqb_spec _ _) eq_refl). cbn [map index_of].
      rewrite Nat.eqb_refl. destruct (Nat.eqb r0 k0) eqn:E; [apply Nat.eqb_eq in E; congruence|].
      rewrite Nat.eqb_refl. reflexivity.
Qed.

(* the headline form: for every constructed view the layout is reported (never a panic), the
   memory-order access exists exactly for Linear layouts, and renaming it keeps that *)
Theorem ctor_layout_total v c : v_ctor v = Ok c -> usize_view c ->
  exists lay o, c_layout c = Ok lay /\ memory_order_tbl (c_shape c) lay = Ok o /\
    (forall order, lay = Linear order -> o <> None) /\
    forall ns c', rename_ctor c ns = Ok c' -> exists lay', c_layout c' = Ok lay'.
Proof.
  intros Hc Hu. pose proof (ctor_wf v c Hc) as Hw.
  destruct (layout_never_fails c Hw Hu) as [lay E].
  pose proof (memory_order_never_panics c Hw Hu) as [o Eo]. rewrite E in Eo.
  exists lay, o. split; [exact E|]. split; [exact Eo|]. split.
  - intros order ->. unfold memory_order_tbl in Eo. destruct (negb _); [discriminate|].
    destruct (dm_new _ _); [|discriminate]. injection Eo as <-. discriminate.
  - intros ns c' Hr. apply layout_never_fails.
    + apply (ctor_wf (VRename v ns)). cbn [v_ctor]. rewrite Hc. exact Hr.
    + unfold rename_ctor in Hr. destruct (negb _); [discriminate|].
      destruct (has_duplicates ns); [discriminate|]. injection Hr as <-. exact Hu.
Qed.
