(* C05 — extension round, integer powers at any base: forward mode over the dictionary Rops_i of
   Proofs/C04RI.v (rpow x n = x^n for a natural number n at any base, Rpower otherwise). *)
From Coq Require Import List Arith Lia Ring Field Bool Reals.
From EasyML Require Import Base.Sx Model.Num Model.Tape Model.AD Model.Forward Spec.FormalD
  Proofs.C04P Proofs.C04R Proofs.C04RI Proofs.C05P.
Import ListNotations.
Open Scope R_scope.

(* ------------------------------------------------------------------ integer powers at any base:
   forward mode over the dictionary Rops_i of Proofs/C04RI.v (rpow x n = x^n for natural n) *)
Lemma Rops_i_is_field : is_field Rops_i.
Proof.
  constructor; cbn.
  - exact RTheory.
  - exact R1_neq_R0.
  - intros p q. unfold Rdiv. ring.
  - intros p Hp. field. exact Hp.
Qed.

Lemma dom_from_i_nz vs prog : dom_from_i vs prog -> nz_from Rops_i vs prog.
Proof.
  revert vs; induction prog as [|ins prog IH]; intros vs; cbn [dom_from_i nz_from]; [auto|].
  intros [Hi Hr]. split; [|apply IH; exact Hr].
  destruct ins as [x|c|o a b|o a c|o c b|o a|l|f df a|f dx dy a b]; cbn; auto; destruct o; cbn in *; auto.
Qed.

Theorem forward_mode_is_true_derivative_i prog i x0 out :
  nth_error prog i = Some (IVar x0) -> dom_i prog ->
  derivable_pt_lim (fun t => tnumber (gett Rops_i (trun Rops_i i (set_var prog i t)) out)) x0
                   (tderivative (gett Rops_i (trun Rops_i i prog) out)).
Proof.
  intros Hi Hd.
  destruct (forward_correct Rops_i Rops_i_is_field i prog out (dom_from_i_nz [] prog Hd)) as [_ Hg].
  rewrite Hg.
  eapply dl_ext; [|apply (formal_is_true_derivative_i prog i x0 out Hi Hd)].
  intros t. cbv beta. symmetry. apply (forward_value Rops_i Rops_i_is_field).
Qed.
