(* C02 - TensorIndex::from by NAME: which slot of the stored `provided` array holds which given index. *)
From Coq Require Import List ZArith NArith Bool Arith Lia Permutation.
From EasyML Require Import Base.Sx Model.Shape Model.Views Proofs.ShapeP Proofs.C01P Proofs.C02Lemmas Proofs.C02P Proofs.C02Spec.
Import ListNotations.
Open Scope N_scope.

Lemma find_sel_Some (sh : shape) n index : forall k p, find_sel sh n index k = Some p ->
  (k <= p)%nat /\ (p - k < length sh)%nat /\ fst (nth (p - k) sh (0%nat, 0)) = n /\
  index < snd (nth (p - k) sh (0%nat, 0)).
Proof.
  induction sh as [|d r IH]; intros k p H; cbn [find_sel] in H; [discriminate|].
  destruct (Nat.eqb_spec (fst d) n) as [E|E]; cbn [andb] in H.
  - destruct (N.ltb_spec index (snd d)) as [L|L].
    + injection H as <-. rewrite Nat.sub_diag. cbn [nth length]. repeat split; try lia; assumption.
    + destruct (IH _ _ H) as (A & B & C & D). replace (p - k)%nat with (S (p - S k)) by lia.
      cbn [nth length]. repeat split; try lia; assumption.
  - destruct (IH _ _ H) as (A & B & C & D). replace (p - k)%nat with (S (p - S k)) by lia.
    cbn [nth length]. repeat split; try lia; assumption.
Qed.

Lemma nth_list_upd {A} (x dflt : A) : forall l k d, (k < length l)%nat ->
  nth d (list_upd l k x) dflt = if Nat.eqb d k then x else nth d l dflt.
Proof.
  induction l as [|y r IH]; intros k d H; cbn [length] in H; [lia|].
  destruct k as [|k]; cbn [list_upd].
  - destruct d; reflexivity.
  - destruct d as [|d]; [reflexivity|]. cbn [nth]. rewrite IH by lia. reflexivity.
Qed.

Lemma length_list_upd {A} (x : A) : forall l k, length (list_upd l k x) = length l.
Proof. induction l as [|y r IH]; intros [|k]; cbn [list_upd length]; auto. Qed.

Lemma nodup_names_nth (sh : shape) : NoDup (names_of sh) -> forall a b, (a < length sh)%nat -> (b < length sh)%nat ->
  fst (nth a sh (0%nat, 0)) = fst (nth b sh (0%nat, 0)) -> a = b.
Proof.
  unfold names_of. intros H a b Ha Hb E.
  apply (proj1 (NoDup_nth (map fst sh) 0%nat) H a b); rewrite ?map_length; try assumption.
  change 0%nat with (fst (0%nat, 0)) at 1 2. rewrite !map_nth. exact E.
Qed.

(* slot d of the stored `provided` array is Some i exactly when the pair (name of dimension d, i) was
   given to TensorIndex::from (or the accumulator already held it and the name was not given) *)
Lemma place_provided_by_name (sh : shape) : NoDup (names_of sh) -> forall ps acc pr,
  NoDup (map fst ps) -> length acc = length sh -> place_provided sh ps acc = Some pr ->
  length pr = length sh /\
  forall d i, (d < length sh)%nat ->
    (nth d pr None = Some i <->
       In (fst (nth d sh (0%nat, 0)), i) ps \/
       (~ In (fst (nth d sh (0%nat, 0))) (map fst ps) /\ nth d acc None = Some i)).
Proof.
  intros Hn. induction ps as [|[n index] rest IH]; intros acc pr Hd Hl H; cbn [place_provided] in H.
  - injection H as <-. split; [exact Hl|]. intros d i Hdl. cbn [In map]. tauto.
  - destruct (find_sel sh n index 0) as [k|] eqn:Ef; [|discriminate].
    destruct (find_sel_Some _ _ _ _ _ Ef) as (_ & Hk & Hname & _). rewrite Nat.sub_0_r in *.
    cbn [map fst] in Hd. apply NoDup_cons_iff in Hd. destruct Hd as [Hnin Hd].
    destruct (IH _ _ Hd ltac:(rewrite length_list_upd; exact Hl) H) as [L S]. split; [exact L|].
    intros d i Hdl. rewrite (S d i Hdl). rewrite nth_list_upd by lia. cbn [In map fst].
    destruct (Nat.eqb_spec d k) as [E|E].
    + subst k. rewrite Hname. split.
      * intros [A|[A B]]; [left; right; exact A|]. injection B as <-. left; left; reflexivity.
      * intros [[A|A]|[A B]].
        -- injection A as <-. right. split; [exact Hnin|reflexivity].
        -- left; exact A.
        -- exfalso. apply A. left; reflexivity.
    + assert (Hne : n <> fst (nth d sh (0%nat, 0))).
      { intros Q. apply E. apply (nodup_names_nth sh Hn); try assumption. rewrite Hname. symmetry. exact Q. }
      split.
      * intros [A|[A B]]; [left; right; exact A|]. right. split; [|exact B]. intros [Q|Q]; [exact (Hne Q)|exact (A Q)].
      * intros [[A|A]|[A B]].
        -- exfalso. injection A as Q _. exact (Hne Q).
        -- left; exact A.
        -- right. split; [|exact B]. intros Q. apply A. right; exact Q.
Qed.

Lemma nth_repeat_None {A} n d : nth d (repeat (@None A) n) None = None.
Proof. revert d; induction n as [|n IH]; intros [|d]; cbn [repeat nth]; auto. Qed.

(* TensorIndex::from, by NAME: on success the stored array has one slot per source dimension, and slot d
   holds Some i exactly when the caller's list contains (name of dimension d, i) *)
Theorem index_ctor_by_name c ps c' : NoDup (names_of (c_shape c)) -> index_ctor c ps = Ok c' ->
  exists pr, c' = CIndex c pr /\ length pr = length (c_shape c) /\
    forall d i, (d < length (c_shape c))%nat ->
      (nth d pr None = Some i <-> In (fst (nth d (c_shape c) (0%nat, 0)), i) ps).
Proof.
  intros Hn H. unfold index_ctor in H.
  destruct (length (c_shape c) <? length ps)%nat; [discriminate|].
  destruct (has_duplicates (map fst ps)) eqn:Hdup; [discriminate|].
  destruct (place_provided _ _ _) as [pr|] eqn:Ep; [|discriminate]. injection H as <-.
  exists pr. split; [reflexivity|].
  assert (Hnd : NoDup (map fst ps)).
  { apply has_duplicates_false. exact Hdup. }
  destruct (place_provided_by_name _ Hn _ _ _ Hnd (repeat_length _ _) Ep) as [L S]. split; [exact L|].
  intros d i Hd. rewrite (S d i Hd). rewrite nth_repeat_None. split; [|tauto].
  intros [A|[_ A]]; [exact A|discriminate].
Qed.

(* ... for every source view a constructor produced (its shape then has unique names) *)
Theorem index_ctor_by_name_constructed c ps c' : cwf c -> usize_view c -> index_ctor c ps = Ok c' ->
  exists pr, c' = CIndex c pr /\ length pr = length (c_shape c) /\
    forall d i, (d < length (c_shape c))%nat ->
      (nth d pr None = Some i <-> In (fst (nth d (c_shape c) (0%nat, 0)), i) ps).
Proof.
  intros Hw Hu. apply index_ctor_by_name. exact (proj1 (proj1 (cwf_contract c Hw Hu))).
Qed.

Example index_ctor_by_name_nonvacuous :
  place_provided [(5%nat, 3); (6%nat, 4); (7%nat, 2)] [(7%nat, 1); (5%nat, 2)] (repeat None 3)
    = Some [Some 2; None; Some 1] /\
  place_provided [(5%nat, 3); (6%nat, 4); (7%nat, 2)] [(7%nat, 2)] (repeat None 3) = None.
Proof. vm_compute. split; reflexivity. Qed.

