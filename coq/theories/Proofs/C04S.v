(* C04 / C06 / C15 -- `impl Sum for Record` as ONE operation in both record models.
   Model/AD.v (C04, C05: one tape, history : bool) has `rec_sum` = fold of `sum_step`, the four-way
   match of record_operations.rs:823-880.  Model/Container.v (C06, C15: records carry the NAME of
   their list, the machine of Model/TapeMachine.v threads one tape per list) has `each_sum` = fold of
   `rec_binary Addition`, used for the cells of a matrix product.  This file states the connecting
   theorem the C06/C15 notes ask for ("Plan for a TSum machine operation"): on one list h, starting
   from Record::zero(), `each_sum` IS C04's Sum node, entry for entry and index for index --
   so a machine operation
       TSum dst regs  :=  finish st dst (on_tape st h (fun tp => as_rec (each_sum tp (constant 0) regs)))
   would be covered by C04's theorems (value, gradient, adjoint, constants inert) through this
   equation.  It also proves what such an operation appends (`rec_sum_fresh`: ANY number of entries
   between 0 and the number of summed records; the result sits at the LAST one) and exhibits that
   this breaks the one-entry convention of C15Q.`val_fresh` for `VRec` (`sum_breaks_one_entry`), which
   is why TSum is NOT added to the machine here: val_fresh / fspec / next_unused (C15Q), wstep_agree /
   step_wf / derivs_length_run (C15R) would all need a several-entries clause for scalar records, and
   on the cross-list panic the real code keeps the entries appended before the assertion fails while
   `finish` restores the state -- both are changes to C15's own statements. *)
From Coq Require Import List Arith Bool Lia.
From EasyML Require Import Base.Sx Model.Num Model.Tape.
From EasyML Require Model.AD Model.Container.
Import ListNotations.

Section C04S.
Context {R : Type} (ops : numops R).
Notation tape := (tape R).

(* a C04 record seen as a record of list h *)
Definition emb (h : nat) (r : AD.rec R) : Container.rec R :=
  @Container.mkRec R (AD.number r) (if AD.history r then Some h else None) (AD.index r).

Lemma emb_step h (t : tape) (acc r : AD.rec R) :
  Container.rec_binary ops t (Container.Addition ops) (emb h acc) (emb h r) =
  Ok (snd (AD.sum_step ops (acc, t) r), emb h (fst (AD.sum_step ops (acc, t) r))).
Proof.
  unfold Container.rec_binary, AD.sum_step, emb.
  cbn [Container.r_hist Container.r_num Container.r_idx].
  destruct (AD.history acc), (AD.history r);
    cbn [Container.same_list negb Container.bf Container.bdx Container.bdy Container.Addition
         append_unary append_binary fst snd AD.history AD.number AD.index];
    rewrite ?Nat.eqb_refl; cbn [negb]; reflexivity.
Qed.

(* the fold from any running total *)
Lemma each_sum_is_fold h : forall (l : list (AD.rec R)) (t : tape) (acc : AD.rec R),
  Container.each_sum ops t (emb h acc) (map (emb h) l) =
  Ok (snd (fold_left (AD.sum_step ops) l (acc, t)), emb h (fst (fold_left (AD.sum_step ops) l (acc, t)))).
Proof.
  induction l as [|r l IH]; intros t acc; cbn [map Container.each_sum fold_left]; [reflexivity|].
  rewrite emb_step. destruct (AD.sum_step ops (acc, t) r) as [s t1]. cbn [fst snd]. apply IH.
Qed.

(* the connecting theorem: summing registers of one list from Record::zero() in the container /
   machine model is C04's Sum node (same tape, same number, same index, same constant-ness) *)
Theorem each_sum_is_rec_sum h (t : tape) (l : list (AD.rec R)) :
  Container.each_sum ops t (@Container.rec_constant R (nzero ops)) (map (emb h) l) =
  Ok (snd (AD.rec_sum ops t l), emb h (fst (AD.rec_sum ops t l))).
Proof. apply (each_sum_is_fold h l t (@AD.constant R (nzero ops))). Qed.

(* what a Sum appends: a suffix of at most one entry per summed record; a result with a history
   sits at the LAST appended entry, a constant result appended nothing *)
Lemma sum_step_fresh (t : tape) (acc r : AD.rec R) :
  exists suf, snd (AD.sum_step ops (acc, t) r) = t ++ suf /\ length suf <= 1 /\
    (AD.history (fst (AD.sum_step ops (acc, t) r)) = true ->
       length suf = 1 /\ AD.index (fst (AD.sum_step ops (acc, t) r)) = length t) /\
    (AD.history (fst (AD.sum_step ops (acc, t) r)) = false -> suf = [] /\ AD.history acc = false).
Proof.
  unfold AD.sum_step. destruct (AD.history acc) eqn:Ha, (AD.history r);
    cbn [append_unary append_binary fst snd AD.history AD.index];
    (eexists; split; [try reflexivity; symmetry; apply app_nil_r|]); cbn [length];
    repeat split; try lia; try discriminate; auto.
Qed.

Lemma fold_sum_fresh : forall (l : list (AD.rec R)) (t : tape) (acc : AD.rec R),
  (AD.history acc = true -> AD.index acc + 1 = length t) ->
  let res := fold_left (AD.sum_step ops) l (acc, t) in
  exists suf, snd res = t ++ suf /\ length suf <= length l /\
    (AD.history (fst res) = true -> AD.index (fst res) + 1 = length (t ++ suf)) /\
    (AD.history (fst res) = false -> suf = []).
Proof.
  induction l as [|r l IH]; intros t acc Hacc; cbn [fold_left length].
  - exists []. rewrite app_nil_r. cbn [fst snd length]. repeat split; auto.
  - destruct (sum_step_fresh t acc r) as [s1 [E1 [L1 [H1 C1]]]].
    destruct (AD.sum_step ops (acc, t) r) as [a1 t1] eqn:Es. cbn [fst snd] in *. subst t1.
    destruct (IH (t ++ s1) a1) as [s2 [E2 [L2 [H2 C2]]]].
    { intros Hh. destruct (H1 Hh) as [Ls ->]. rewrite app_length. lia. }
    cbv zeta in *. exists (s1 ++ s2). rewrite app_assoc. split; [exact E2|]. split; [rewrite app_length; lia|].
    split; [exact H2|]. intros Hf. pose proof (C2 Hf) as ->. rewrite app_nil_r.
    (* the total never loses its history: a constant result means every step was constant *)
    destruct (AD.history a1) eqn:Ha1.
    + exfalso. clear - Hf Ha1. revert Hf. generalize (t ++ s1) as tt. revert a1 Ha1.
      induction l as [|q l IHl]; intros a1 Ha1 tt; cbn [fold_left fst]; [congruence|].
      unfold AD.sum_step at 2. rewrite Ha1. destruct (AD.history q);
        cbn [append_unary append_binary]; apply IHl; reflexivity.
    + apply (C1 eq_refl).
Qed.

Theorem rec_sum_fresh (t : tape) (l : list (AD.rec R)) :
  exists suf, snd (AD.rec_sum ops t l) = t ++ suf /\ length suf <= length l /\
    (AD.history (fst (AD.rec_sum ops t l)) = true ->
       AD.index (fst (AD.rec_sum ops t l)) + 1 = length (t ++ suf)) /\
    (AD.history (fst (AD.rec_sum ops t l)) = false -> suf = []).
Proof. apply (fold_sum_fresh l t (@AD.constant R (nzero ops))). cbn. discriminate. Qed.

(* the one-entry convention of C15Q.val_fresh (`tape' = tape ++ [e]`, index = old length) does not
   hold for a Sum: two variables at positions 0 and 1 of a tape of length 2 -> the sum appends TWO
   entries ((None,Some) unary for 0 + x0, (Some,Some) binary for that + x1) and sits at position 3 *)
Example sum_breaks_one_entry (e0 e1 : entry R) :
  let t := [e0; e1] in
  let r := AD.rec_sum ops t [@AD.mkRec R (nzero ops) true 0; @AD.mkRec R (nzero ops) true 1] in
  length (snd r) = 4 /\ AD.index (fst r) = 3 /\ AD.history (fst r) = true.
Proof. cbn. repeat split. Qed.

End C04S.
