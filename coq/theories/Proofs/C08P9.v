(* C08, Cholesky completeness (mathcomp / ssreflect style): for a symmetric positive definite
   input every pivot tested by the transcribed routine is positive, hence the result is present.
   The partial-row state (finished rows L, candidate off-diagonal part cur of row i) is linked to
   the bordered block matrix [[L L^T, L l], [(L l)^T, a_ii]] = leading (i+1) x (i+1) block of A,
   which is positive definite as a restriction of A; C08P4.next_pivot_positive does the rest. *)
From Coq Require Import PeanoNat List.
From EasyML Require Import Base.Sx Model.Num Model.LinAlg Model.Decomp Proofs.C07P1 Proofs.C08P1
     Proofs.C08P3 Proofs.C08P5 Proofs.C08P7.
From mathcomp Require Import all_ssreflect all_algebra zify.
From EasyML Require Import Proofs.C08P4 Proofs.C08P6.
Set Implicit Arguments. Unset Strict Implicit. Unset Printing Implicit Defensive.
Import GRing.Theory Num.Theory.
Local Open Scope ring_scope.

Section Restrict.
Variable F : realFieldType.

(* the embedding of the first k coordinates *)
Definition emb (n k : nat) : 'M[F]_(n, k) := \matrix_(p, q) ((p : nat) == q)%:R.

Lemma emb_entry n k (Hk : (k <= n)%N) (B : 'M[F]_n) (i j : 'I_k) :
  ((emb n k)^T *m B *m emb n k) i j = B (widen_ord Hk i) (widen_ord Hk j).
Proof.
  rewrite !mxE (bigD1 (widen_ord Hk j)) //= big1 ?addr0; last first.
  { move=> q Hq. rewrite [emb _ _ _ _]mxE.
    have -> : ((q : nat) == j) = false.
    { apply/negbTE. move: Hq. apply: contra => /eqP E. apply/eqP. exact: val_inj. }
    by rewrite mulr0. }
  rewrite [emb _ _ _ _]mxE /= eqxx mulr1 !mxE.
  rewrite (bigD1 (widen_ord Hk i)) //= big1 ?addr0; last first.
  { move=> p Hp. rewrite !mxE.
    have -> : ((p : nat) == i) = false.
    { apply/negbTE. move: Hp. apply: contra => /eqP E. apply/eqP. exact: val_inj. }
    by rewrite mul0r. }
  by rewrite !mxE /= eqxx mul1r.
Qed.

Lemma emb_orth n k : (k <= n)%N -> (emb n k)^T *m emb n k = 1%:M.
Proof.
  move=> Hk. apply/matrixP => i j. rewrite !mxE (bigD1 (widen_ord Hk i)) //= big1 ?addr0; last first.
  { move=> p Hp. rewrite !mxE.
    have -> : ((p : nat) == i) = false.
    { apply/negbTE. move: Hp. apply: contra => /eqP E. apply/eqP. exact: val_inj. }
    by rewrite mul0r. }
  rewrite !mxE /= eqxx mul1r. by [].
Qed.

Lemma posdef_restrict n k (B : 'M[F]_n) : (k <= n)%N -> posdef B ->
  posdef ((emb n k)^T *m B *m emb n k).
Proof.
  move=> Hk pd x xn0.
  have En0 : emb n k *m x != 0.
  { apply/eqP => E0. move/eqP: xn0; apply.
    by rewrite -[x]mul1mx -(emb_orth Hk) -mulmxA E0 mulmx0. }
  have := pd _ En0. by rewrite trmx_mul !mulmxA.
Qed.
End Restrict.

Section Complete.
Variable F : realFieldType.
Variable sq : F -> F.
Notation ops := (rops sq).
Notation ltF := (fun x y : F => x < y).

Lemma trig_pos_unit n (L : 'M[F]_n) : is_trig_mx L -> (forall i, 0 < L i i) -> L \in unitmx.
Proof.
  move=> Ltrig Ldiag. rewrite unitmxE unitfE (det_trig Ltrig).
  apply/prodf_neq0 => i _. by rewrite lt0r_neq0.
Qed.

Lemma mxo_leading n k (a : list (list F)) : (k <= n)%N ->
  mxo sq k k a = (emb F n k)^T *m mxo sq n n a *m emb F n k.
Proof.
  move=> Hk. apply/matrixP => i j.
  rewrite (emb_entry Hk) !mxE.
  by [].
Qed.

(* the pivot of row i is positive *)
Lemma pivot_from_posdef n (a L : list (list F)) :
  C08P1.symmetric ops a n -> posdef (mxo sq n n a) ->
  rows_ok ops ltF a L -> (length L < n)%coq_nat -> pivot_pos ops ltF a L (length L).
Proof.
  move=> Hsym Hpd Hok /ssrnat.ltP Hin cur Hcl Heq.
  set i := length L in Hin Hcl Heq *.
  pose Lm : 'M[F]_i := mxo sq i i L.
  pose l : 'cV[F]_i := \col_p List.nth p cur 0.
  have Hrowlen : forall p, (p < i)%N -> length (List.nth p L [::]) = p.+1.
  { move=> p /ssrnat.ltP Hp. by case: (Hok p Hp). }
  have Ltrig : is_trig_mx Lm.
  { apply/is_trig_mxP => p q Hpq. rewrite mxE /mget. apply: List.nth_overflow.
    rewrite Hrowlen //. exact/ssrnat.leP. }
  have Ldiag : forall p, 0 < Lm p p.
  { move=> p. rewrite mxE. have /ssrnat.ltP Hp := ltn_ord p. by case: (Hok p Hp) => _ [H2 _]. }
  have Lunit : Lm \in unitmx by apply: trig_pos_unit.
  have Hgram : forall p q : 'I_i, (Lm *m Lm^T) p q = mget ops a p q.
  { move=> p q. rewrite !mxE.
    have Hle : (length L <= n)%coq_nat by apply/ssrnat.leP/ltnW.
    have Hp : (p < length L)%coq_nat by apply/ssrnat.ltP.
    have Hq : (q < length L)%coq_nat by apply/ssrnat.ltP.
    rewrite -(@rows_ok_gram F ops (rops_ring sq) ltF a n L Hsym Hok Hle p q i Hp Hq (le_n _)).
    rewrite dot_sum big_mkord. apply: eq_bigr => k _. by rewrite !mxE. }
  have Hcur : forall p : 'I_i, (Lm *m l) p 0 = mget ops a i p.
  { move=> p. rewrite !mxE.
    have Hp : (p < i)%coq_nat by apply/ssrnat.ltP.
    rewrite -(@cur_gram F ops (rops_ring sq) ltF a L i cur Hok (erefl _) Hcl Heq p Hp).
    rewrite dot_sum big_mkord. apply: eq_bigr => k _. by rewrite !mxE mulrC. }
  have Hblock : bordered Lm l (mget ops a i i) = mxo sq (i + 1) (i + 1) a.
  { apply/matrixP => x y. rewrite [RHS]mxE.
    case: (splitP x) => [p Hp|p Hp]; case: (splitP y) => [q Hq|q Hq].
    - have -> : x = lshift 1 p by apply: val_inj.
      have -> : y = lshift 1 q by apply: val_inj.
      by rewrite block_mxEul Hgram.
    - have -> : x = lshift 1 p by apply: val_inj.
      have -> : y = rshift i q by apply: val_inj.
      rewrite block_mxEur !ord1 Hcur /= addn0. apply: Hsym; [exact/ssrnat.ltP|].
      apply/ssrnat.ltP. exact: ltn_trans (ltn_ord p) Hin.
    - have -> : x = rshift i p by apply: val_inj.
      have -> : y = lshift 1 q by apply: val_inj.
      by rewrite block_mxEdl !ord1 mxE Hcur /= addn0.
    - have -> : x = rshift i p by apply: val_inj.
      have -> : y = rshift i q by apply: val_inj.
      by rewrite block_mxEdr !ord1 mxE eqxx mulr1n /= addn0. }
  have Hpdb : posdef (bordered Lm l (mget ops a i i)).
  { rewrite Hblock (@mxo_leading n (i + 1) a); last by rewrite addn1.
    apply: posdef_restrict => //. by rewrite addn1. }
  have := next_pivot_positive Lunit Hpdb.
  have -> : (l^T *m l) 0 0 = dot ops cur cur i.
  { rewrite mxE dot_sum big_mkord. apply: eq_bigr => k _. by rewrite !mxE. }
  by [].
Qed.

(* SPD -> present, over any ordered field with a square-root oracle *)
Theorem cholesky_complete_gen (a : list (list F)) :
  ordered_sqrt_field ops ltF -> mrows a = mcols a ->
  C08P1.symmetric ops a (mrows a) -> posdef (mxo sq (mrows a) (mrows a) a) ->
  exists L, cholesky ops a = Some L.
Proof.
  move=> [H1 [H2 [H3 [H4 [H5 [H6 H7]]]]]] Hsq Hsym Hpd.
  apply: (@cholesky_complete_list F ops H1 ltF H2 H3 H4 H6 H7 a Hsq) => L Hok Hlen.
  exact: pivot_from_posdef Hsym Hpd Hok Hlen.
Qed.
End Complete.

(* real closed field, sqrt = Num.sqrt: present exactly for the positive definite inputs among the
   symmetric square ones *)
Theorem cholesky_complete (F : rcfType) (a : list (list F)) :
  mrows a = mcols a -> C08P1.symmetric (rops (@Num.sqrt F)) a (mrows a) ->
  posdef (mxo (@Num.sqrt F) (mrows a) (mrows a) a) ->
  exists L, cholesky (rops (@Num.sqrt F)) a = Some L.
Proof. move=> Hsq Hsym Hpd. exact: cholesky_complete_gen (rcf_ordered_sqrt_field F) Hsq Hsym Hpd. Qed.

Theorem cholesky_present_iff_posdef (F : rcfType) (a : list (list F)) :
  mrows a = mcols a -> C08P1.symmetric (rops (@Num.sqrt F)) a (mrows a) ->
  ((exists L, cholesky (rops (@Num.sqrt F)) a = Some L) <->
   posdef (mxo (@Num.sqrt F) (mrows a) (mrows a) a)).
Proof.
  move=> Hsq Hsym. split; last exact: cholesky_complete.
  case=> L HL. exact: cholesky_present_posdef Hsym HL.
Qed.
