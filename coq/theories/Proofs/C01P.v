(* C01: named-dimension addressing.  Specification (addr_by_name) and the proofs that the
   transcribed TensorAccess (Model/Tensor.v) refines it, for every dimensionality, shape,
   ordering and index tuple. *)
From Coq Require Import List ZArith NArith Bool Arith Lia Permutation.
From EasyML Require Import Base.Sx Model.Shape Model.Tensor Proofs.ShapeP.
Import ListNotations.
Open Scope N_scope.

(* ---------- specification ---------- *)

(* position of a name in the requested ordering *)
Definition pos_in (n : name) (req : list name) : nat :=
  match index_of n req with Some p => p | None => 0%nat end.

(* the coordinate that the index tuple (given in the requested ordering) assigns to name n *)
Definition coord_of (req : list name) (idx : list N) (n : name) : N := nth (pos_in n req) idx 0.

(* the index tuple re-expressed in the tensor's own dimension order, matched BY NAME *)
Definition coords_by_name (sh : shape) (req : list name) (idx : list N) : list N :=
  map (coord_of req idx) (names_of sh).

(* the row-major storage position of the element addressed by name *)
Definition addr_by_name (sh : shape) (req : list name) (idx : list N) : N :=
  flat (coords_by_name sh req idx) (lens_of sh).

(* the tensor's shape permuted into the requested ordering, by name *)
Definition shape_by_name (sh : shape) (req : list name) : shape :=
  map (fun n => (n, match length_of sh n with Some l => l | None => 0 end)) req.

(* what a validating constructor establishes *)
Definition tensor_inv {A} (t : tensor A) : Prop :=
  valid_shape (t_shape t) /\ t_strides t = compute_strides (t_shape t) /\
  N.of_nat (length (t_data t)) = elements (t_shape t).

(* ---------- constructors ---------- *)

Lemma try_from_inv {A} sh (data : list A) t : tensor_try_from sh data = Ok t ->
  tensor_inv t /\ t_shape t = sh /\ t_data t = data.
Proof.
  unfold tensor_try_from. destruct (validate_dimensions _ _) eqn:V; [|discriminate].
  intros [= <-]. apply validate_dimensions_spec in V. destruct V as [Hv [He _]].
  unfold tensor_inv. cbn. repeat split; try apply Hv; auto.
Qed.

Lemma ctor_validation {A} sh (data : list A) :
  (exists t, tensor_try_from sh data = Ok t) <->
  valid_shape sh /\ elements sh = N.of_nat (length data) /\ elements sh <= usize_max.
Proof.
  rewrite <- validate_dimensions_spec. unfold tensor_try_from.
  destruct (validate_dimensions _ _); split; eauto; try discriminate.
  intros [t H]; discriminate.
Qed.

Lemma ctor_rejects {A} sh (data : list A) :
  ~ (valid_shape sh /\ elements sh = N.of_nat (length data) /\ elements sh <= usize_max) ->
  tensor_try_from sh data = Err (sshape sh) /\ tensor_from sh data = Panic.
Proof.
  rewrite <- validate_dimensions_spec. unfold tensor_try_from, tensor_from.
  destruct (validate_dimensions _ _); [intros H; exfalso; apply H; reflexivity|auto].
Qed.

Lemma from_agrees {A} sh (data : list A) t :
  tensor_from sh data = Ok t <-> tensor_try_from sh data = Ok t.
Proof.
  unfold tensor_from, tensor_try_from. destruct (validate_dimensions _ _); split; congruence.
Qed.

(* ---------- acceptance of orderings ---------- *)

Lemma access_try_from_iff_perm {A} (t : tensor A) req :
  NoDup (names_of (t_shape t)) -> length req = length (t_shape t) ->
  ((exists a, access_try_from t req = Ok a) <-> Permutation (names_of (t_shape t)) req).
Proof.
  intros Hnd Hlen. unfold access_try_from.
  assert (Hl : length req = length (names_of (t_shape t))) by (unfold names_of; rewrite map_length; exact Hlen).
  rewrite <- (dm_new_iff_perm _ _ Hnd Hl).
  destruct (dm_new _ _); split; eauto; try congruence.
  - intros [a H]. discriminate.
Qed.

Lemma access_rejects {A} (t : tensor A) req :
  NoDup (names_of (t_shape t)) -> length req = length (t_shape t) ->
  ~ Permutation (names_of (t_shape t)) req ->
  access_try_from t req = Err (SL [sshape (t_shape t); snames req]) /\ access_from t req = Panic.
Proof.
  intros Hnd Hlen Hnp. unfold access_try_from, access_from.
  assert (Hl : length req = length (names_of (t_shape t))) by (unfold names_of; rewrite map_length; exact Hlen).
  destruct (dm_new _ _) eqn:E; [|auto].
  exfalso. apply Hnp. apply (dm_new_iff_perm _ _ Hnd Hl). congruence.
Qed.

Lemma access_from_agrees {A} (t : tensor A) req a :
  access_from t req = Ok a <-> access_try_from t req = Ok a.
Proof. unfold access_from, access_try_from. destruct (dm_new _ _); split; congruence. Qed.

(* ---------- the two tables ---------- *)

Lemma nth_map_in {A B} (f : A -> B) l d db da :
  (d < length l)%nat -> nth d (map f l) db = f (nth d l da).
Proof.
  intros H. rewrite nth_indep with (d' := f da) by (rewrite map_length; exact H). apply map_nth.
Qed.

Lemma nth_map_fst (tbl : list (nat * nat)) d :
  nth d (map fst tbl) 0%nat = fst (nth d tbl (0%nat, 0%nat)).
Proof. exact (map_nth fst tbl (0%nat, 0%nat) d). Qed.
Lemma nth_map_snd (tbl : list (nat * nat)) d :
  nth d (map snd tbl) 0%nat = snd (nth d tbl (0%nat, 0%nat)).
Proof. exact (map_nth snd tbl (0%nat, 0%nat) d). Qed.

Section Tables.
Variables (src req : list name) (tbl : list (nat * nat)).
Hypothesis Hnd : NoDup src.
Hypothesis Hlen : length req = length src.
Hypothesis Hnew : dm_new src req = Some tbl.

Let Hperm : Permutation src req.
Proof. apply dm_new_iff_perm; auto. rewrite Hnew. discriminate. Qed.
Let Hnd' : NoDup req.
Proof. eapply Permutation_NoDup; eauto. Qed.

Lemma s2r_spec d : (d < length src)%nat ->
  nth d (dm_s2r tbl) 0%nat = pos_in (nth d src 0%nat) req /\
  (nth d (dm_s2r tbl) 0%nat < length req)%nat /\
  nth (nth d (dm_s2r tbl) 0%nat) req 0%nat = nth d src 0%nat.
Proof.
  intros Hd. destruct (dm_new_tables _ _ _ Hnd Hlen Hnew d Hd) as [H1 _].
  unfold dm_s2r. rewrite nth_map_fst.
  unfold pos_in. rewrite H1. apply index_of_Some in H1. tauto.
Qed.

Lemma r2s_spec d : (d < length src)%nat ->
  (nth d (dm_r2s tbl) 0%nat < length src)%nat /\
  nth (nth d (dm_r2s tbl) 0%nat) src 0%nat = nth d req 0%nat.
Proof.
  intros Hd. destruct (dm_new_tables _ _ _ Hnd Hlen Hnew d Hd) as [_ H2].
  unfold dm_r2s. rewrite nth_map_snd.
  apply index_of_Some in H2. tauto.
Qed.

Lemma nth_inj_NoDup (l : list nat) i j : NoDup l -> (i < length l)%nat -> (j < length l)%nat ->
  nth i l 0%nat = nth j l 0%nat -> i = j.
Proof. intros H Hi Hj E. eapply NoDup_nth; eauto. Qed.

(* the tables are mutually inverse permutations of 0..D-1 *)
Lemma tables_inverse d : (d < length src)%nat ->
  nth (nth d (dm_s2r tbl) 0%nat) (dm_r2s tbl) 0%nat = d /\
  nth (nth d (dm_r2s tbl) 0%nat) (dm_s2r tbl) 0%nat = d.
Proof.
  intros Hd. destruct (s2r_spec d Hd) as [_ [Hb He]]. destruct (r2s_spec d Hd) as [Hb' He'].
  split.
  - rewrite Hlen in Hb. destruct (r2s_spec _ Hb) as [Hc Hf].
    apply (nth_inj_NoDup src _ _ Hnd); [exact Hc|exact Hd|congruence].
  - destruct (s2r_spec _ Hb') as [_ [Hc Hf]].
    apply (nth_inj_NoDup req _ _ Hnd'); [exact Hc|lia|congruence].
Qed.

Lemma s2r_as_map : dm_s2r tbl = map (fun n => pos_in n req) src.
Proof.
  pose proof (dm_new_length _ _ _ Hnew) as Hl.
  apply nth_ext with (d := 0%nat) (d' := pos_in 0%nat req).
  - unfold dm_s2r. rewrite !map_length. exact Hl.
  - unfold dm_s2r at 1. rewrite map_length, Hl. intros d Hd.
    destruct (s2r_spec d Hd) as [-> _].
    change (pos_in 0%nat req) with ((fun n => pos_in n req) 0%nat). rewrite map_nth. reflexivity.
Qed.

Lemma r2s_length : length (dm_r2s tbl) = length src.
Proof. unfold dm_r2s. rewrite map_length. eapply dm_new_length; eauto. Qed.
Lemma s2r_length : length (dm_s2r tbl) = length src.
Proof. unfold dm_s2r. rewrite map_length. eapply dm_new_length; eauto. Qed.

End Tables.

(* ---------- shape ---------- *)

Lemma length_of_nth sh d : NoDup (names_of sh) -> (d < length sh)%nat ->
  length_of sh (fst (nth d sh (0%nat, 0))) = Some (snd (nth d sh (0%nat, 0))).
Proof.
  revert d; induction sh as [|[n l] sh IH]; intros d Hnd Hd; cbn [length] in Hd; [lia|].
  cbn [names_of map fst] in Hnd. inversion Hnd as [|? ? Hn Hnd']; subst.
  unfold length_of. destruct d; cbn [nth find fst snd].
  - rewrite Nat.eqb_refl. reflexivity.
  - destruct (Nat.eqb_spec n (fst (nth d sh (0%nat, 0)))) as [E|_].
    + exfalso. apply Hn. rewrite E. unfold names_of.
      change 0%nat with (fst (0%nat, 0)) at 1. apply in_map. apply nth_In. lia.
    + apply IH; auto. lia.
Qed.

Theorem access_shape_by_name {A} (t : tensor A) req a :
  NoDup (names_of (t_shape t)) -> length req = length (t_shape t) ->
  access_try_from t req = Ok a ->
  access_shape a = shape_by_name (t_shape t) req.
Proof.
  intros Hnd Hlen. unfold access_try_from.
  destruct (dm_new _ _) as [tbl|] eqn:Hnew; [|discriminate]. intros [= <-].
  unfold access_shape, shape_by_name, map_shape_to_requested. cbn [a_tbl a_src].
  set (sh := t_shape t) in *.
  assert (Hl : length req = length (names_of sh)) by (unfold names_of; rewrite map_length; exact Hlen).
  assert (Hls : length (names_of sh) = length sh) by (unfold names_of; apply map_length).
  apply nth_ext with (d := (0%nat, 0)) (d' := (0%nat, 0)).
  - rewrite !map_length. rewrite (r2s_length _ _ _ Hnew). lia.
  - rewrite map_length, (r2s_length _ _ _ Hnew). intros d Hd.
    destruct (r2s_spec _ _ _ Hnd Hl Hnew d Hd) as [Hb He].
    rewrite nth_map_in with (da := 0%nat) by (rewrite (r2s_length _ _ _ Hnew); exact Hd).
    rewrite nth_map_in with (da := 0%nat) by lia.
    set (p := nth d (dm_r2s tbl) 0%nat) in *.
    assert (Hn : fst (nth p sh (0%nat, 0)) = nth d req 0%nat).
    { rewrite <- He. unfold names_of. symmetry. apply nth_map_in. lia. }
    rewrite <- Hn. rewrite length_of_nth by (auto; lia).
    destruct (nth p sh (0%nat, 0)); reflexivity.
Qed.

(* ---------- reads ---------- *)

Lemma map_to_source_by_name sh req tbl idx :
  NoDup (names_of sh) -> length req = length sh -> dm_new (names_of sh) req = Some tbl ->
  map_dimensions_to_source tbl idx 0 = coords_by_name sh req idx.
Proof.
  intros Hnd Hlen Hnew.
  assert (Hl : length req = length (names_of sh)) by (unfold names_of; rewrite map_length; exact Hlen).
  unfold map_dimensions_to_source, coords_by_name, coord_of.
  rewrite (s2r_as_map _ _ _ Hnd Hl Hnew), map_map. reflexivity.
Qed.

Lemma nth_error_lt_Some {A} (l : list A) k : (k < length l)%nat -> exists x, nth_error l k = Some x.
Proof. intros H. destruct (nth_error l k) eqn:E; eauto. apply nth_error_None in E. lia. Qed.

(* the fallible read: present exactly when every coordinate (matched by name) is inside its
   dimension, and then it is the element at the row-major position addressed by name *)
Theorem access_get_by_name {A} (t : tensor A) req a idx :
  tensor_inv t -> length req = length (t_shape t) -> length idx = length (t_shape t) ->
  access_try_from t req = Ok a ->
  access_get a idx =
    if in_range_b (coords_by_name (t_shape t) req idx) (lens_of (t_shape t))
    then nth_error (t_data t) (N.to_nat (addr_by_name (t_shape t) req idx))
    else None.
Proof.
  intros [[Hnd Hpos] [Hst Hel]] Hlen Hidx. unfold access_try_from.
  destruct (dm_new _ _) as [tbl|] eqn:Hnew; [|discriminate]. intros [= <-].
  unfold access_get, t_get. cbn [a_src a_tbl].
  rewrite (map_to_source_by_name _ _ _ _ Hnd Hlen Hnew), Hst.
  rewrite get_index_direct_spec
    by (unfold coords_by_name, names_of; rewrite !map_length; reflexivity).
  unfold addr_by_name. destruct (in_range_b _ _); reflexivity.
Qed.

Lemma in_range_nth idx lens : length idx = length lens ->
  (in_range idx lens <-> forall d, (d < length lens)%nat -> nth d idx 0 < nth d lens 0).
Proof.
  revert lens; induction idx as [|i idx IH]; intros [|l lens] Hl; cbn [length] in Hl; try lia.
  - cbn. split; [intros _ d Hd; lia|auto].
  - cbn [in_range]. rewrite IH by lia. split.
    + intros [Hi H] [|d] Hd; cbn [nth]; [exact Hi|]. apply H. cbn [length] in Hd. lia.
    + intros H. split; [apply (H 0%nat); cbn; lia|]. intros d Hd. apply (H (S d)). cbn; lia.
Qed.

(* ... and "inside its dimension by name" is the same as "inside the shape reported for the
   requested ordering", coordinate by coordinate *)
Theorem in_range_by_name_iff {A} (t : tensor A) req a idx :
  tensor_inv t -> length req = length (t_shape t) -> length idx = length (t_shape t) ->
  access_try_from t req = Ok a ->
  in_range_b (coords_by_name (t_shape t) req idx) (lens_of (t_shape t)) =
  in_range_b idx (lens_of (access_shape a)).
Proof.
  intros [[Hnd Hpos] [Hst Hel]] Hlen Hidx. unfold access_try_from.
  destruct (dm_new _ _) as [tbl|] eqn:Hnew; [|discriminate]. intros [= <-].
  set (sh := t_shape t) in *.
  assert (Hl : length req = length (names_of sh)) by (unfold names_of; rewrite map_length; exact Hlen).
  assert (Hls : length (names_of sh) = length sh) by (unfold names_of; apply map_length).
  rewrite <- (map_to_source_by_name _ _ _ _ Hnd Hlen Hnew).
  unfold access_shape, map_shape_to_requested, map_dimensions_to_source. cbn [a_tbl a_src]. fold sh.
  apply eq_true_iff_eq. rewrite !in_range_b_spec.
  pose proof (s2r_length _ _ _ Hnew) as Ls. pose proof (r2s_length _ _ _ Hnew) as Lr.
  rewrite !in_range_nth by (unfold lens_of; rewrite !map_length; lia).
  unfold lens_of. rewrite !map_length, Lr, <- Hls.
  assert (Hs2r : forall d, (d < length (names_of sh))%nat ->
     nth d (map (fun p => nth p idx 0) (dm_s2r tbl)) 0 = nth (nth d (dm_s2r tbl) 0%nat) idx 0).
  { intros d Hd. rewrite nth_map_in with (da := 0%nat) by lia. reflexivity. }
  assert (Hr2s : forall d, (d < length (names_of sh))%nat ->
     nth d (map snd (map (fun p => nth p sh (0%nat, 0)) (dm_r2s tbl))) 0 =
     nth (nth d (dm_r2s tbl) 0%nat) (map snd sh) 0).
  { intros d Hd. rewrite map_map. rewrite nth_map_in with (da := 0%nat) by lia.
    destruct (r2s_spec _ _ _ Hnd Hl Hnew d Hd) as [Hb _].
    rewrite nth_map_in with (f := snd) (da := (0%nat, 0)) by lia. reflexivity. }
  split.
  - intros H e He. rewrite Hr2s by exact He.
    destruct (tables_inverse _ _ _ Hnd Hl Hnew e He) as [_ Hinv].
    destruct (r2s_spec _ _ _ Hnd Hl Hnew e He) as [Hb _].
    specialize (H _ Hb). rewrite Hs2r in H by exact Hb. rewrite Hinv in H. exact H.
  - intros H d Hd. rewrite Hs2r by exact Hd.
    destruct (tables_inverse _ _ _ Hnd Hl Hnew d Hd) as [Hinv _].
    destruct (s2r_spec _ _ _ Hnd Hl Hnew d Hd) as [_ [Hb _]]. rewrite Hl in Hb.
    specialize (H _ Hb). rewrite Hr2s in H by exact Hb. rewrite Hinv in H. exact H.
Qed.

(* an in-range read really yields an element: the position is inside the stored data *)
Theorem access_get_present {A} (t : tensor A) req a idx :
  tensor_inv t -> length req = length (t_shape t) -> length idx = length (t_shape t) ->
  access_try_from t req = Ok a ->
  in_range idx (lens_of (access_shape a)) ->
  exists x, access_get a idx = Some x /\
            nth_error (t_data t) (N.to_nat (addr_by_name (t_shape t) req idx)) = Some x.
Proof.
  intros Hinv Hlen Hidx Ha Hr.
  rewrite (access_get_by_name t req a idx Hinv Hlen Hidx Ha).
  rewrite (in_range_by_name_iff t req a idx Hinv Hlen Hidx Ha).
  apply in_range_b_spec in Hr. rewrite Hr.
  rewrite <- (in_range_by_name_iff t req a idx Hinv Hlen Hidx Ha) in Hr.
  apply in_range_b_spec in Hr. apply flat_lt in Hr.
  destruct Hinv as [_ [_ Hel]]. unfold elements in Hel. fold (addr_by_name (t_shape t) req idx) in Hr.
  destruct (nth_error_lt_Some (t_data t) (N.to_nat (addr_by_name (t_shape t) req idx))) as [x Hx]; [lia|].
  exists x. auto.
Qed.

(* any coordinate at or beyond its dimension's length (2^64-1 included): absent *)
Theorem access_get_oob {A} (t : tensor A) req a idx :
  tensor_inv t -> length req = length (t_shape t) -> length idx = length (t_shape t) ->
  access_try_from t req = Ok a ->
  ~ in_range idx (lens_of (access_shape a)) -> access_get a idx = None /\ forall v, access_set a idx v = None.
Proof.
  intros Hinv Hlen Hidx Ha Hr.
  assert (E : in_range_b (coords_by_name (t_shape t) req idx) (lens_of (t_shape t)) = false).
  { rewrite (in_range_by_name_iff t req a idx Hinv Hlen Hidx Ha).
    destruct (in_range_b idx _) eqn:E; [|reflexivity]. apply in_range_b_spec in E. contradiction. }
  split.
  - rewrite (access_get_by_name t req a idx Hinv Hlen Hidx Ha), E. reflexivity.
  - intros v. revert Ha. unfold access_try_from.
    destruct Hinv as [[Hnd Hpos] [Hst Hel]].
    destruct (dm_new _ _) as [tbl|] eqn:Hnew; [|discriminate]. intros [= <-].
    unfold access_set, t_set. cbn [a_src a_tbl].
    rewrite (map_to_source_by_name _ _ _ _ Hnd Hlen Hnew), Hst.
    rewrite get_index_direct_spec
      by (unfold coords_by_name, names_of; rewrite !map_length; reflexivity).
    rewrite E. reflexivity.
Qed.

(* ---------- writes ---------- *)

Lemma list_set_spec {A} (l : list A) n v l' : list_set l n v = Some l' ->
  length l' = length l /\ forall k, nth_error l' k = if Nat.eqb k n then Some v else nth_error l k.
Proof.
  revert n l'; induction l as [|x l IH]; intros n l'; cbn [list_set]; [discriminate|].
  destruct n.
  - intros [= <-]. split; [reflexivity|]. intros [|k]; reflexivity.
  - destruct (list_set l n v) as [r|] eqn:E; cbn [option_map]; [|discriminate].
    intros [= <-]. destruct (IH _ _ E) as [Hl Hk]. split; [cbn; lia|].
    intros [|k]; cbn [nth_error Nat.eqb]; [reflexivity|apply Hk].
Qed.

Lemma list_set_Some {A} (l : list A) n v : (n < length l)%nat -> exists l', list_set l n v = Some l'.
Proof.
  revert n; induction l as [|x l IH]; intros n Hn; cbn [length] in Hn; [lia|].
  destruct n; cbn [list_set]; [eauto|].
  destruct (IH n ltac:(lia)) as [r ->]. cbn. eauto.
Qed.

(* a write at an in-range index changes exactly the storage position addressed by name, keeps
   shape, strides and tables *)
Theorem access_set_exact {A} (t : tensor A) req a idx v :
  tensor_inv t -> length req = length (t_shape t) -> length idx = length (t_shape t) ->
  access_try_from t req = Ok a ->
  in_range idx (lens_of (access_shape a)) ->
  exists a', access_set a idx v = Some a' /\
    a_tbl a' = a_tbl a /\ t_shape (a_src a') = t_shape t /\ t_strides (a_src a') = t_strides t /\
    length (t_data (a_src a')) = length (t_data t) /\
    forall k, nth_error (t_data (a_src a')) k =
              if Nat.eqb k (N.to_nat (addr_by_name (t_shape t) req idx)) then Some v
              else nth_error (t_data t) k.
Proof.
  intros Hinv Hlen Hidx Ha Hr.
  assert (E : in_range_b (coords_by_name (t_shape t) req idx) (lens_of (t_shape t)) = true).
  { rewrite (in_range_by_name_iff t req a idx Hinv Hlen Hidx Ha). apply in_range_b_spec. exact Hr. }
  assert (Hlt : (N.to_nat (addr_by_name (t_shape t) req idx) < length (t_data t))%nat).
  { apply in_range_b_spec in E. apply flat_lt in E. destruct Hinv as [_ [_ Hel]].
    unfold elements in Hel. unfold addr_by_name. lia. }
  revert Ha. unfold access_try_from. destruct Hinv as [[Hnd Hpos] [Hst Hel]].
  destruct (dm_new _ _) as [tbl|] eqn:Hnew; [|discriminate]. intros [= <-].
  unfold access_set, t_set. cbn [a_src a_tbl].
  rewrite (map_to_source_by_name _ _ _ _ Hnd Hlen Hnew), Hst.
  rewrite get_index_direct_spec
    by (unfold coords_by_name, names_of; rewrite !map_length; reflexivity).
  rewrite E. fold (addr_by_name (t_shape t) req idx).
  destruct (list_set_Some (t_data t) _ v Hlt) as [l' Hl']. rewrite Hl'. cbn [option_map].
  eexists. split; [reflexivity|]. cbn [a_tbl a_src t_shape t_strides t_data].
  destruct (list_set_spec _ _ _ _ Hl') as [L K]. repeat split; auto.
Qed.

(* distinct in-range index tuples address distinct storage positions: no aliasing *)
Theorem addr_by_name_injective {A} (t : tensor A) req a idx1 idx2 :
  tensor_inv t -> length req = length (t_shape t) ->
  length idx1 = length (t_shape t) -> length idx2 = length (t_shape t) ->
  access_try_from t req = Ok a ->
  in_range idx1 (lens_of (access_shape a)) -> in_range idx2 (lens_of (access_shape a)) ->
  addr_by_name (t_shape t) req idx1 = addr_by_name (t_shape t) req idx2 -> idx1 = idx2.
Proof.
  intros Hinv Hlen H1 H2 Ha R1 R2 Heq.
  assert (E1 := in_range_by_name_iff t req a idx1 Hinv Hlen H1 Ha).
  assert (E2 := in_range_by_name_iff t req a idx2 Hinv Hlen H2 Ha).
  apply in_range_b_spec in R1, R2. rewrite <- E1 in R1. rewrite <- E2 in R2.
  apply in_range_b_spec in R1, R2.
  pose proof (flat_inj _ _ _ R1 R2 Heq) as Hc.
  (* equal coordinates by name -> equal tuples, because every position of the requested order
     is the position of some source name *)
  revert Ha. unfold access_try_from. destruct Hinv as [[Hnd Hpos] [Hst Hel]].
  destruct (dm_new _ _) as [tbl|] eqn:Hnew; [|discriminate]. intros _.
  assert (Hl : length req = length (names_of (t_shape t))) by (unfold names_of; rewrite map_length; exact Hlen).
  assert (Hls : length (names_of (t_shape t)) = length (t_shape t)) by (unfold names_of; apply map_length).
  rewrite <- !(map_to_source_by_name _ _ _ _ Hnd Hlen Hnew) in Hc.
  unfold map_dimensions_to_source in Hc.
  apply nth_ext with (d := 0) (d' := 0); [lia|].
  intros e He. rewrite H1, <- Hls in He.
  destruct (tables_inverse _ _ _ Hnd Hl Hnew e He) as [_ Hinv].
  destruct (r2s_spec _ _ _ Hnd Hl Hnew e He) as [Hb _].
  pose proof (s2r_length _ _ _ Hnew) as Ls.
  apply (f_equal (fun l => nth (nth e (dm_r2s tbl) 0%nat) l 0)) in Hc.
  rewrite !nth_map_in with (da := 0%nat) in Hc by lia.
  rewrite Hinv in Hc. exact Hc.
Qed.

(* hence: a write through one index tuple is invisible through every other one *)
Theorem access_write_no_alias {A} (t : tensor A) req a idx1 idx2 v a' :
  tensor_inv t -> length req = length (t_shape t) ->
  length idx1 = length (t_shape t) -> length idx2 = length (t_shape t) ->
  access_try_from t req = Ok a ->
  in_range idx1 (lens_of (access_shape a)) -> idx1 <> idx2 ->
  access_set a idx1 v = Some a' ->
  access_get a' idx1 = Some v /\ access_get a' idx2 = access_get a idx2.
Proof.
  intros Hinv Hlen H1 H2 Ha R1 Hne Hset.
  destruct (access_set_exact t req a idx1 v Hinv Hlen H1 Ha R1) as [a'' [Hs [Ht [Hsh [Hst [Hl Hk]]]]]].
  rewrite Hs in Hset. injection Hset as <-.
  assert (Hinv' : tensor_inv (a_src a'')).
  { destruct Hinv as [Hv [Hs1 He]]. unfold tensor_inv. rewrite Hsh, Hst, Hl. auto. }
  assert (Ha' : access_try_from (a_src a'') req = Ok a'').
  { revert Ha. unfold access_try_from. rewrite Hsh.
    destruct (dm_new _ _) as [tbl|]; [|discriminate]. intros [= <-]. cbn [a_tbl] in Ht.
    destruct a'' as [s tb]. cbn in *. subst tb. reflexivity. }
  assert (Hshape : access_shape a'' = access_shape a).
  { unfold access_shape. rewrite Ht, Hsh.
    revert Ha. unfold access_try_from. destruct (dm_new _ _); [|discriminate]. intros [= <-]. reflexivity. }
  split.
  - rewrite (access_get_by_name _ req a'' idx1 Hinv' ltac:(rewrite Hsh; exact Hlen) ltac:(rewrite Hsh; exact H1) Ha').
    rewrite Hsh. rewrite (in_range_by_name_iff t req a idx1 Hinv Hlen H1 Ha).
    apply in_range_b_spec in R1. rewrite R1. rewrite Hk, Nat.eqb_refl. reflexivity.
  - rewrite (access_get_by_name _ req a'' idx2 Hinv' ltac:(rewrite Hsh; exact Hlen) ltac:(rewrite Hsh; exact H2) Ha').
    rewrite (access_get_by_name t req a idx2 Hinv Hlen H2 Ha). rewrite Hsh.
    destruct (in_range_b (coords_by_name (t_shape t) req idx2) _) eqn:E2; [|reflexivity].
    rewrite Hk.
    destruct (Nat.eqb_spec (N.to_nat (addr_by_name (t_shape t) req idx2))
                           (N.to_nat (addr_by_name (t_shape t) req idx1))) as [Heq|]; [|reflexivity].
    exfalso. apply Hne.
    rewrite (in_range_by_name_iff t req a idx2 Hinv Hlen H2 Ha) in E2. apply in_range_b_spec in E2.
    eapply (addr_by_name_injective t req a idx1 idx2); eauto. lia.
Qed.
