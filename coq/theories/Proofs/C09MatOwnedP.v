(* C09, matrix owning iterators (ColumnMajorOwnedIterator / RowMajorOwnedIterator): each original
   value is moved out exactly once, in iteration order, and only placeholders are left behind.
   Stated for any family of matrix sources whose in-range writes behave like a lens, and proved
   to hold for every well-formed matrix source term (Matrix, MatrixRange, MatrixReverse). *)
From Coq Require Import List ZArith NArith Bool Arith Lia.
From EasyML Require Import Base.Sx Model.Shape Model.Tensor Model.TSource Model.ShapeIter
  Model.MatrixIter Model.Transform Proofs.ShapeP Proofs.C01P Proofs.OdometerP Proofs.C09P.
Import ListNotations.
Open Scope N_scope.

Ltac Zify.zify_post_hook ::= Z.div_mod_to_equations.

Section MatOwned.
Context {A : Type}.
Variable dflt : A.
Variable P : msrc A -> Prop.
Hypothesis P_set : forall s r c v, P s -> r < ms_rows s -> c < ms_cols s ->
  exists s', ms_set s r c v = Some s' /\ P s' /\ ms_rows s' = ms_rows s /\ ms_cols s' = ms_cols s /\
             ms_get s' r c = Some v /\
             forall r' c', r' < ms_rows s -> c' < ms_cols s -> (r', c') <> (r, c) ->
                           ms_get s' r' c' = ms_get s r' c'.

Lemma place_in_range rm rows cols q : q < rows * cols ->
  fst (mi_place rm rows cols q) < rows /\ snd (mi_place rm rows cols q) < cols.
Proof.
  intros H. unfold mi_place. destruct rm; cbn [fst snd].
  - assert (cols <> 0) by nia. split; [apply N.div_lt_upper_bound; lia|apply N.mod_lt; lia].
  - assert (rows <> 0) by nia. split; [apply N.mod_lt; lia|apply N.div_lt_upper_bound; lia].
Qed.

Lemma mi_step_facts rm rows cols s (it : major_iter A) : mi_inv rm rows cols s it ->
  mi_pos it < rows * cols /\ mi_len it = rows * cols - mi_pos it /\
  exists it', mi_step it = (Some (mi_place rm rows cols (mi_pos it)), it') /\
    ((mi_pos it + 1 < rows * cols /\ mi_inv rm rows cols s it' /\ mi_pos it' = mi_pos it + 1)
     \/ (mi_pos it + 1 = rows * cols /\ mi_fin rm rows cols it')).
Proof.
  intros Hi. destruct (major_step_facts rm rows cols s it Hi) as [H1 [H2 [it' [Hn Hc]]]].
  split; [exact H1|]. split; [exact H2|]. exists it'. split; [|exact Hc].
  unfold mi_next in Hn. destruct (mi_step it) as [[p|] it'']; [|discriminate].
  cbv zeta in Hn. injection Hn as -> _ ->. reflexivity.
Qed.

Lemma mi_step_fin rm rows cols (it : major_iter A) : mi_fin rm rows cols it ->
  mi_len it = 0 /\ exists it', mi_step it = (None, it') /\ mi_fin rm rows cols it'.
Proof.
  intros Hf. destruct (major_fin_facts rm rows cols it Hf) as [H1 [it' [Hn Hf']]].
  split; [exact H1|]. exists it'. split; [|exact Hf'].
  unfold mi_next in Hn. destruct (mi_step it) as [[p|] it'']; [discriminate|]. congruence.
Qed.

Lemma set_source_inv rm rows cols s s' (it : major_iter A) :
  mi_inv rm rows cols s it -> mi_inv rm rows cols s' (mi_set_source it s').
Proof. unfold mi_inv, mi_set_source. cbn. tauto. Qed.

Lemma m_owned_finished rm rows cols : forall k (it : major_iter A), mi_fin rm rows cols it ->
  fst (drive (mi_next_owned dflt) mi_len k it) = repeat (None, 0) k /\
  mi_source (snd (drive (mi_next_owned dflt) mi_len k it)) = mi_source it.
Proof.
  induction k as [|k IH]; intros it Hf; [split; reflexivity|].
  destruct (mi_step_fin rm rows cols it Hf) as [_ [it' [Hs Hf']]].
  assert (Hd : drive (mi_next_owned dflt) mi_len (S k) it =
               let '(rest, itf) := drive (mi_next_owned dflt) mi_len k it' in
               ((None, mi_len it') :: rest, itf)).
  { cbn [drive]. unfold mi_next_owned at 1. rewrite Hs. reflexivity. }
  rewrite Hd. clear Hd.
  destruct (IH it' Hf') as [I1 I2].
  destruct (drive (mi_next_owned dflt) mi_len k it') as [rest itf]. cbn [fst snd] in *.
  destruct (mi_step_fin rm rows cols it' Hf') as [-> _]. rewrite I1, I2. split; [reflexivity|].
  (* the source is not touched by a finished step *)
  unfold mi_step in Hs. destruct (if mi_row_major it then _ else _) as [p [[f rc] cc]].
  injection Hs as _ <-. reflexivity.
Qed.

(* what call number q returns, relative to the source s the run starts from *)
Definition mexpected rm (s : msrc A) (q : N) : option ((N * N) * option A) * N :=
  cexpected (ms_rows s * ms_cols s)
            (fun q => let p := mi_place rm (ms_rows s) (ms_cols s) q in (p, ms_get s (fst p) (snd p))) q.

Lemma m_owned_run rm : forall k (it : major_iter A) (s : msrc A), P s ->
  mi_inv rm (ms_rows s) (ms_cols s) s it ->
  let rows := ms_rows s in let cols := ms_cols s in
  let r := drive (mi_next_owned dflt) mi_len k it in
  fst r = map (fun j => mexpected rm s (mi_pos it + N.of_nat j)) (seq 0 k) /\
  P (mi_source (snd r)) /\
  ms_rows (mi_source (snd r)) = rows /\ ms_cols (mi_source (snd r)) = cols /\
  forall q, q < rows * cols ->
    let p := mi_place rm rows cols q in
    ms_get (mi_source (snd r)) (fst p) (snd p) =
    if (mi_pos it <=? q) && (q <? mi_pos it + N.of_nat k) then Some dflt else ms_get s (fst p) (snd p).
Proof.
  induction k as [|k IH]; intros it s Ps Hi; cbv zeta.
  - cbn [drive fst snd seq map]. destruct Hi as [_ [_ [_ [Hsrc _]]]]. rewrite Hsrc.
    repeat split; auto. intros q Hq.
    destruct (N.leb_spec (mi_pos it) q); destruct (N.ltb_spec q (mi_pos it + N.of_nat 0)); cbn [andb];
      try reflexivity; lia.
  - set (rows := ms_rows s) in *. set (cols := ms_cols s) in *.
    destruct (mi_step_facts rm rows cols s it Hi) as [Hlt [Hlen [it' [Hs Hcase]]]].
    set (pos := mi_pos it) in *. set (pl := mi_place rm rows cols pos) in *.
    destruct (place_in_range rm rows cols pos Hlt) as [Hr Hc]. fold pl in Hr, Hc.
    destruct (P_set s (fst pl) (snd pl) dflt Ps Hr Hc) as [s' [Hset [Ps' [Hrows' [Hcols' [Hget' Hother]]]]]].
    assert (Hsrc : mi_source it = s) by apply Hi.
    assert (Hdrive : drive (mi_next_owned dflt) mi_len (S k) it =
              let '(rest, itf) := drive (mi_next_owned dflt) mi_len k (mi_set_source it' s') in
              ((Some (pl, ms_get s (fst pl) (snd pl)), mi_len (mi_set_source it' s')) :: rest, itf)).
    { cbn [drive]. unfold mi_next_owned at 1. rewrite Hs, Hsrc, Hset. reflexivity. }
    rewrite Hdrive. clear Hdrive.
    assert (Hhead : mexpected rm s (pos + N.of_nat 0) =
                    (Some (pl, ms_get s (fst pl) (snd pl)), rows * cols - pos - 1)).
    { unfold mexpected, cexpected. fold rows cols. rewrite N.add_0_r.
      destruct (N.ltb_spec pos (rows * cols)); [reflexivity|lia]. }
    assert (Hother' : forall q, q < rows * cols -> q <> pos ->
              let p := mi_place rm rows cols q in ms_get s' (fst p) (snd p) = ms_get s (fst p) (snd p)).
    { intros q Hq Hne. cbv zeta. destruct (place_in_range rm rows cols q Hq) as [Hr' Hc'].
      apply Hother; auto. intros E. apply Hne.
      apply (mi_place_injective rm rows cols q pos Hq Hlt).
      unfold pl in E. destruct (mi_place rm rows cols q), (mi_place rm rows cols pos). cbn [fst snd] in E. exact E. }
    assert (Hlen'' : mi_len (mi_set_source it' s') = mi_len it') by reflexivity.
    assert (Hpos'' : mi_pos (mi_set_source it' s') = mi_pos it') by reflexivity.
    destruct Hcase as [[Hlt' [Hi' Hp']]|[He Hf']].
    + (* more to come *)
      assert (Hi'' : mi_inv rm (ms_rows s') (ms_cols s') s' (mi_set_source it' s')).
      { rewrite Hrows', Hcols'. exact (set_source_inv rm rows cols s s' it' Hi'). }
      specialize (IH (mi_set_source it' s') s' Ps' Hi''). cbv zeta in IH.
      rewrite Hrows', Hcols' in IH. fold rows cols in IH. rewrite Hpos'', Hp' in IH.
      destruct (drive (mi_next_owned dflt) mi_len k (mi_set_source it' s')) as [rest itf]. cbn [fst snd] in *.
      destruct IH as [Hrest [Pf [Hrf [Hcf Hgetf]]]].
      split; [|split; [exact Pf|split; [exact Hrf|split; [exact Hcf|]]]].
      * cbn [seq map]. rewrite Hhead. f_equal.
        { f_equal. rewrite Hlen''. destruct (mi_step_facts rm rows cols s it' Hi') as [_ [-> _]]. lia. }
        rewrite Hrest, <- seq_shift, map_map. apply map_ext. intros j.
        replace (pos + 1 + N.of_nat j) with (pos + N.of_nat (S j)) by lia.
        unfold mexpected, cexpected. rewrite Hrows', Hcols'. fold rows cols.
        destruct (N.ltb_spec (pos + N.of_nat (S j)) (rows * cols)) as [Hq|]; [|reflexivity].
        f_equal. f_equal. f_equal. apply Hother'; lia.
      * intros q Hq. cbv zeta. rewrite Hgetf by exact Hq.
        destruct (N.eq_dec q pos) as [->|Hne].
        { destruct (N.leb_spec (pos + 1) pos); [lia|]. cbn [andb]. fold pl. rewrite Hget'.
          destruct (N.leb_spec pos pos); [|lia]. destruct (N.ltb_spec pos (pos + N.of_nat (S k))); [reflexivity|lia]. }
        rewrite (Hother' q Hq Hne).
        destruct (N.leb_spec (pos + 1) q); destruct (N.leb_spec pos q);
          destruct (N.ltb_spec q (pos + 1 + N.of_nat k)); destruct (N.ltb_spec q (pos + N.of_nat (S k)));
          cbn [andb]; try reflexivity; lia.
    + (* that was the last element *)
      assert (Hf'' : mi_fin rm rows cols (mi_set_source it' s')) by exact Hf'.
      destruct (m_owned_finished rm rows cols k (mi_set_source it' s') Hf'') as [F1 F2].
      destruct (drive (mi_next_owned dflt) mi_len k (mi_set_source it' s')) as [rest itf]. cbn [fst snd] in *.
      subst rest. rewrite F2. cbn [mi_set_source mi_source].
      split; [|split; [exact Ps'|split; [exact Hrows'|split; [exact Hcols'|]]]].
      * cbn [seq map]. rewrite Hhead. f_equal.
        { f_equal. rewrite Hlen''. destruct (mi_step_fin rm rows cols it' Hf') as [-> _]. lia. }
        rewrite <- seq_shift, map_map. unfold mexpected. fold rows cols.
        rewrite (map_ext (fun x => cexpected (rows * cols)
                   (fun q => let p := mi_place rm rows cols q in (p, ms_get s (fst p) (snd p)))
                   (pos + N.of_nat (S x)))
                 (fun x => cexpected (rows * cols)
                   (fun q => let p := mi_place rm rows cols q in (p, ms_get s (fst p) (snd p)))
                   (pos + 1 + N.of_nat x))) by (intros x; f_equal; lia).
        apply (repeat_expected_past (rows * cols) _ (pos + 1)). lia.
      * intros q Hq. cbv zeta.
        destruct (N.eq_dec q pos) as [->|Hne].
        { fold pl. rewrite Hget'. destruct (N.leb_spec pos pos); [|lia].
          destruct (N.ltb_spec pos (pos + N.of_nat (S k))); [reflexivity|lia]. }
        rewrite (Hother' q Hq Hne).
        destruct (N.leb_spec pos q); cbn [andb]; [|reflexivity]. lia.
Qed.

(* from the initial state of the iterator over a non-empty source *)
Theorem matrix_owned_moves_once rm (s : msrc A) k : P s -> 0 < ms_rows s -> 0 < ms_cols s ->
  let rows := ms_rows s in let cols := ms_cols s in
  let r := drive (mi_next_owned dflt) mi_len k (major_iter_from rm s) in
  fst r = map (fun j => mexpected rm s (N.of_nat j)) (seq 0 k) /\
  forall q, q < rows * cols ->
    let p := mi_place rm rows cols q in
    ms_get (mi_source (snd r)) (fst p) (snd p) =
    if q <? N.of_nat k then Some dflt else ms_get s (fst p) (snd p).
Proof.
  intros Ps Hr Hc. cbv zeta.
  assert (Hi : mi_inv rm (ms_rows s) (ms_cols s) s (major_iter_from rm s)).
  { unfold major_iter_from, mi_inv, index_is_valid. cbn.
    destruct (N.ltb_spec 0 (ms_rows s)); [|lia]. destruct (N.ltb_spec 0 (ms_cols s)); [|lia].
    repeat split; auto. }
  pose proof (m_owned_run rm k (major_iter_from rm s) s Ps Hi) as H. cbv zeta in H.
  assert (Hp0 : mi_pos (major_iter_from rm s) = 0) by (unfold mi_pos, major_iter_from; cbn; destruct rm; lia).
  rewrite Hp0 in H. destruct H as [H1 [_ [_ [_ H2]]]]. split.
  - rewrite H1. apply map_ext. intros j. f_equal.
  - intros q Hq. rewrite H2 by exact Hq. destruct (N.leb_spec 0 q); [reflexivity|lia].
Qed.

(* an empty source (0xN, Nx0): nothing is yielded and nothing is touched *)
Theorem matrix_owned_empty rm (s : msrc A) k : ms_rows s = 0 \/ ms_cols s = 0 ->
  let r := drive (mi_next_owned dflt) mi_len k (major_iter_from rm s) in
  fst r = repeat (None, 0) k /\ mi_source (snd r) = s.
Proof.
  intros He. cbv zeta.
  apply (m_owned_finished rm (ms_rows s) (ms_cols s) k (major_iter_from rm s)).
  unfold major_iter_from, mi_fin, index_is_valid. cbn.
  destruct (N.ltb_spec 0 (ms_rows s)); destruct (N.ltb_spec 0 (ms_cols s)); cbn; repeat split; auto;
    try (right; repeat split; auto; lia); lia.
Qed.

End MatOwned.

(* ---------- every well-formed matrix source is such a family ---------- *)
Section MatLens.
Context {A : Type}.

Fixpoint msrc_wf (s : msrc A) : Prop :=
  match s with
  | MBase m => N.of_nat (length (m_data m)) = m_rows m * m_cols m
  | MRange s' rr cr =>
      msrc_wf s' /\ (snd rr = 0 \/ fst rr + snd rr <= ms_rows s') /\
      (snd cr = 0 \/ fst cr + snd cr <= ms_cols s')
  | MRev s' _ _ => msrc_wf s'
  end.

(* the constructors of the case language establish it *)
Lemma matrix_from_flat_wf rows cols (data : list A) m :
  matrix_from_flat rows cols data = Ok m -> msrc_wf (MBase m).
Proof.
  unfold matrix_from_flat. destruct (negb _) eqn:E; [discriminate|].
  destruct (length data =? 0)%nat; [discriminate|]. intros [= <-]. cbn.
  apply negb_false_iff, andb_true_iff in E. destruct E as [_ E]. apply N.eqb_eq in E. lia.
Qed.

Lemma mrange_from_wf (s : msrc A) rr cr : msrc_wf s -> msrc_wf (mrange_from s rr cr).
Proof. intros H. unfold mrange_from, range_clip. cbn [msrc_wf fst snd]. repeat split; auto; lia. Qed.

Lemma mrev_wf (s : msrc A) rv cv : msrc_wf s -> msrc_wf (MRev s rv cv).
Proof. intros H. exact H. Qed.

Lemma cell_inj cols r c r' c' : c < cols -> c' < cols -> c + r * cols = c' + r' * cols -> (r, c) = (r', c').
Proof.
  intros Hc Hc' E.
  assert (r = r').
  { destruct (N.lt_trichotomy r r') as [L|[E'|L]]; auto; exfalso.
    - assert (r * cols + cols <= r' * cols) by (replace (r * cols + cols) with ((r + 1) * cols) by lia; apply N.mul_le_mono_r; lia). lia.
    - assert (r' * cols + cols <= r * cols) by (replace (r' * cols + cols) with ((r' + 1) * cols) by lia; apply N.mul_le_mono_r; lia). lia. }
  subst. f_equal. lia.
Qed.

Theorem msrc_lens (s : msrc A) : msrc_wf s -> forall r c v, r < ms_rows s -> c < ms_cols s ->
  exists s', ms_set s r c v = Some s' /\ msrc_wf s' /\ ms_rows s' = ms_rows s /\ ms_cols s' = ms_cols s /\
             ms_get s' r c = Some v /\
             forall r' c', r' < ms_rows s -> c' < ms_cols s -> (r', c') <> (r, c) ->
                           ms_get s' r' c' = ms_get s r' c'.
Proof.
  induction s as [m|s IH rr cr|s IH rv cv]; cbn [msrc_wf ms_rows ms_cols].
  - (* Matrix *)
    intros Hlen r c v Hr Hc. cbn [ms_set ms_get]. unfold m_set.
    destruct (N.ltb_spec r (m_rows m)); [|lia]. destruct (N.ltb_spec c (m_cols m)); [|lia]. cbn [andb].
    destruct (list_set_Some (m_data m) (N.to_nat (c + r * m_cols m)) v) as [d' Hd']; [nia|].
    rewrite Hd'. cbn [option_map]. eexists. split; [reflexivity|].
    destruct (list_set_spec _ _ _ _ Hd') as [Hl Hn].
    cbn [msrc_wf ms_rows ms_cols ms_get m_data m_rows m_cols]. split; [lia|]. split; [reflexivity|].
    split; [reflexivity|]. unfold m_get. cbn [m_data m_rows m_cols]. split.
    + destruct (N.ltb_spec r (m_rows m)); [|lia]. destruct (N.ltb_spec c (m_cols m)); [|lia]. cbn [andb].
      rewrite Hn, Nat.eqb_refl. reflexivity.
    + intros r' c' Hr' Hc' Hne.
      destruct (N.ltb_spec r' (m_rows m)); [|lia]. destruct (N.ltb_spec c' (m_cols m)); [|lia]. cbn [andb].
      rewrite Hn. destruct (Nat.eqb_spec (N.to_nat (c' + r' * m_cols m)) (N.to_nat (c + r * m_cols m))) as [E|];
        [|reflexivity].
      exfalso. apply Hne. apply (cell_inj (m_cols m)); auto. lia.
  - (* MatrixRange *)
    intros [Hwf [Hrr Hcr]] r c v Hr Hc. cbn [ms_set ms_get]. unfold range_map.
    destruct (N.ltb_spec r (snd rr)); [|lia]. destruct (N.ltb_spec c (snd cr)); [|lia].
    destruct (IH Hwf (r + fst rr) (c + fst cr) v ltac:(lia) ltac:(lia)) as [s1 [H1 [H2 [H3 [H4 [H5 H6]]]]]].
    rewrite H1. cbn [option_map]. eexists. split; [reflexivity|].
    cbn [msrc_wf ms_rows ms_cols ms_get]. rewrite H3, H4.
    split; [auto|]. split; [reflexivity|]. split; [reflexivity|]. unfold range_map. split.
    + destruct (N.ltb_spec r (snd rr)); [|lia]. destruct (N.ltb_spec c (snd cr)); [|lia]. exact H5.
    + intros r' c' Hr' Hc' Hne.
      destruct (N.ltb_spec r' (snd rr)); [|lia]. destruct (N.ltb_spec c' (snd cr)); [|lia].
      apply H6; try lia. intros [= E1 E2]. apply Hne. f_equal; lia.
  - (* MatrixReverse *)
    intros Hwf r c v Hr Hc. cbn [ms_set ms_get].
    destruct (N.eqb_spec (ms_rows s) 0); [lia|]. destruct (N.eqb_spec (ms_cols s) 0); [lia|]. cbn [orb].
    assert (Hm : forall rev len i, i < len -> mrev_index rev len i < len).
    { intros rev len i Hi. unfold mrev_index. destruct rev; [|exact Hi]. cbv zeta.
      destruct (N.ltb_spec (len - 1) i); lia. }
    assert (Hinj : forall rev len i j, i < len -> j < len -> mrev_index rev len i = mrev_index rev len j -> i = j).
    { intros rev len i j Hi Hj. unfold mrev_index. destruct rev; [|auto]. cbv zeta.
      destruct (N.ltb_spec (len - 1) i); destruct (N.ltb_spec (len - 1) j); lia. }
    destruct (IH Hwf _ _ v (Hm rv _ _ Hr) (Hm cv _ _ Hc)) as [s1 [H1 [H2 [H3 [H4 [H5 H6]]]]]].
    rewrite H1. cbn [option_map]. eexists. split; [reflexivity|].
    cbn [msrc_wf ms_rows ms_cols ms_get]. rewrite H3, H4.
    destruct (N.eqb_spec (ms_rows s) 0); [lia|]. destruct (N.eqb_spec (ms_cols s) 0); [lia|]. cbn [orb].
    split; [exact H2|]. split; [reflexivity|]. split; [reflexivity|]. split; [exact H5|].
    intros r' c' Hr' Hc' Hne. apply H6; auto. intros [= E1 E2]. apply Hne.
    f_equal; eapply Hinj; eauto.
Qed.

(* owning iterators over any well-formed matrix source *)
Theorem wf_matrix_owned_moves_once (dflt : A) rm (s : msrc A) k :
  msrc_wf s -> 0 < ms_rows s -> 0 < ms_cols s ->
  let rows := ms_rows s in let cols := ms_cols s in
  let r := drive (mi_next_owned dflt) mi_len k (major_iter_from rm s) in
  fst r = map (fun j => mexpected rm s (N.of_nat j)) (seq 0 k) /\
  forall q, q < rows * cols ->
    let p := mi_place rm rows cols q in
    ms_get (mi_source (snd r)) (fst p) (snd p) =
    if q <? N.of_nat k then Some dflt else ms_get s (fst p) (snd p).
Proof.
  intros Hwf. apply (matrix_owned_moves_once dflt msrc_wf); [|exact Hwf].
  intros s0 r c v H0. apply msrc_lens. exact H0.
Qed.

(* every in-range element of a well-formed matrix source is present *)
Theorem msrc_total (s : msrc A) : msrc_wf s -> forall r c, r < ms_rows s -> c < ms_cols s ->
  exists x, ms_get s r c = Some x.
Proof.
  induction s as [m|s IH rr cr|s IH rv cv]; cbn [msrc_wf ms_rows ms_cols ms_get].
  - intros Hlen r c Hr Hc. unfold m_get.
    destruct (N.ltb_spec r (m_rows m)); [|lia]. destruct (N.ltb_spec c (m_cols m)); [|lia]. cbn [andb].
    apply nth_error_lt_Some. nia.
  - intros [Hwf [Hrr Hcr]] r c Hr Hc. unfold range_map.
    destruct (N.ltb_spec r (snd rr)); [|lia]. destruct (N.ltb_spec c (snd cr)); [|lia].
    apply IH; auto; lia.
  - intros Hwf r c Hr Hc.
    destruct (N.eqb_spec (ms_rows s) 0); [lia|]. destruct (N.eqb_spec (ms_cols s) 0); [lia|]. cbn [orb].
    apply IH; auto; unfold mrev_index.
    + destruct rv; [|exact Hr]. cbv zeta. destruct (N.ltb_spec (ms_rows s - 1) r); lia.
    + destruct cv; [|exact Hc]. cbv zeta. destruct (N.ltb_spec (ms_cols s - 1) c); lia.
Qed.

End MatLens.
