(* C02 - the converse of the expansion index mapping (Proofs/C02Spec.v has the forward direction):
   `compute_expansion_indexes_*` resolves EVERY source index j, from exactly the index `insert_zeros j`. *)
From Coq Require Import List ZArith NArith Bool Arith Lia Permutation.
From EasyML Require Import Base.Sx Model.Shape Model.Views Proofs.ShapeP Proofs.C01P Proofs.C02Lemmas Proofs.C02P Proofs.C02Spec.
Import ListNotations.
Open Scope N_scope.

Lemma insert_zeros_here j i n ex : 
  insert_zeros j i ((i, n) :: ex) = 0 :: insert_zeros j i ex.
Proof.
  destruct j as [|x r]; cbn [insert_zeros]; unfold at_pos at 1; cbn [filter fst];
    rewrite Nat.eqb_refl; cbn [length repeat app]; fold (at_pos i ex); [reflexivity|].
  rewrite insert_zeros_skip by lia. reflexivity.
Qed.

Theorem expand_idx_converse : forall j i ex hi,
  ex_sorted i hi ex -> (i + length j = hi)%nat ->
  expand_idx (insert_zeros j i ex) i ex = Some j.
Proof.
  induction j as [|x r IHj]; intros i ex hi; induction ex as [|[p n] ex' IHex]; intros Hs Hhi.
  - reflexivity.
  - cbn [length] in Hhi. destruct Hs as [Hb Hs]. cbn [fst] in *.
    assert (p = i) by lia. subst p. rewrite insert_zeros_here. cbn [expand_idx].
    rewrite Nat.eqb_refl. cbn [N.eqb]. apply IHex; [exact Hs|exact Hhi].
  - cbn [insert_zeros at_pos filter length repeat app expand_idx].
    rewrite (IHj (S i) [] hi I) by (cbn [length] in Hhi; lia). reflexivity.
  - destruct (Nat.eq_dec p i) as [E|E].
    + subst p. destruct Hs as [Hb Hs]. cbn [fst] in *. rewrite insert_zeros_here. cbn [expand_idx].
      rewrite Nat.eqb_refl. cbn [N.eqb]. apply IHex; [exact Hs|exact Hhi].
    + pose proof (ex_sorted_S _ _ _ _ _ Hs E) as Hs'.
      cbn [insert_zeros]. rewrite at_pos_nil.
      * cbn [length repeat app expand_idx]. destruct (Nat.eqb_spec p i); [contradiction|].
        rewrite (IHj (S i) _ hi Hs') by (cbn [length] in Hhi; lia). reflexivity.
      * eapply Forall_impl; [|exact (ex_sorted_ge _ _ _ Hs')]. cbn beta. intros a Ha. lia.
Qed.

Lemma insert_zeros_length : forall j i ex hi,
  ex_sorted i hi ex -> (i + length j = hi)%nat ->
  length (insert_zeros j i ex) = (length j + length ex)%nat.
Proof.
  induction j as [|x r IHj]; intros i ex hi; induction ex as [|[p n] ex' IHex]; intros Hs Hhi.
  - reflexivity.
  - cbn [length] in Hhi. destruct Hs as [Hb Hs]. cbn [fst] in *.
    assert (p = i) by lia. subst p. rewrite insert_zeros_here. cbn [length].
    rewrite IHex by assumption. cbn [length]. lia.
  - cbn [insert_zeros at_pos filter length repeat app].
    rewrite (IHj (S i) [] hi I) by (cbn [length] in Hhi; lia). cbn [length]. lia.
  - destruct (Nat.eq_dec p i) as [E|E].
    + subst p. destruct Hs as [Hb Hs]. cbn [fst] in *. rewrite insert_zeros_here. cbn [length].
      rewrite IHex by assumption. cbn [length]. lia.
    + pose proof (ex_sorted_S _ _ _ _ _ Hs E) as Hs'.
      cbn [insert_zeros]. rewrite at_pos_nil.
      * cbn [length repeat app]. rewrite (IHj (S i) _ hi Hs') by (cbn [length] in Hhi; lia). reflexivity.
      * eapply Forall_impl; [|exact (ex_sorted_ge _ _ _ Hs')]. cbn beta. intros a Ha. lia.
Qed.

(* the view-level converse of mapping_expand: EVERY source index is reached, through exactly the
   index "j with a 0 at every extra dimension"; with mapping_expand (only such indexes resolve) the
   expansion's index mapping is a bijection between its present indexes and the source's indexes *)
Theorem mapping_expand_converse c ex j : cwf (CExpand c ex) -> length j = length (c_shape c) ->
  expand_idx (insert_zeros j 0 ex) 0 ex = Some j /\
  c_get (CExpand c ex) (insert_zeros j 0 ex) = c_get c j /\
  length (insert_zeros j 0 ex) = (length (c_shape c) + length ex)%nat.
Proof.
  cbn [cwf]. intros [_ [Hs _]] Hl.
  pose proof (expand_idx_converse j 0 ex (length (c_shape c)) Hs ltac:(lia)) as E.
  split; [exact E|]. split.
  - cbn [c_get]. rewrite E. reflexivity.
  - rewrite (insert_zeros_length j 0 ex (length (c_shape c)) Hs) by lia. lia.
Qed.

Example mapping_expand_converse_nonvacuous :
  insert_zeros [1; 2] 0 [(0%nat, 8%nat); (1%nat, 7%nat); (1%nat, 9%nat)] = [0; 1; 0; 0; 2] /\
  expand_idx [0; 1; 0; 0; 2] 0 [(0%nat, 8%nat); (1%nat, 7%nat); (1%nat, 9%nat)] = Some [1; 2] /\
  expand_idx [0; 1; 0; 1; 2] 0 [(0%nat, 8%nat); (1%nat, 7%nat); (1%nat, 9%nat)] = None.
Proof. vm_compute. repeat split. Qed.
