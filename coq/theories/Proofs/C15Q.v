(* C15, second part: the next-unused-position property lifted through every machine
   operation; the frame property of clear/reset cycles. *)
From Coq Require Import List Arith Bool Lia ZArith.
From EasyML Require Import Base.Sx Model.Num Model.Tape Model.Container Model.TapeMachine Proofs.TapeP Proofs.C15P.
Import ListNotations.

Section C15Q.
Context {R : Type} (ops : numops R).
Notation tape := (tape R).
Notation rec := (rec R).
Notation cont := (cont R).
Notation state := (@state R).
Notation obj := (@obj R).

(* ------------------------------------------------------------------ tapes of a state *)
Lemma nth_error_set_nth {A} (d : A) : forall l k v j, k < length l ->
  nth_error (set_nth d l k v) j = if Nat.eqb j k then Some v else nth_error l j.
Proof.
  induction l as [|x l IH]; intros k v j Hk; cbn in Hk; [lia|].
  destruct k, j; cbn; try reflexivity. apply IH. lia.
Qed.

Lemma tape_of_put (st : state) a o t : tape_of (put st a o) t = tape_of st t.
Proof. reflexivity. Qed.

Lemma tape_of_set_tape (st : state) t tp0 tp t2 : tape_of st t = Some tp0 ->
  tape_of (set_tape st t tp) t2 = if Nat.eqb t2 t then Some tp else tape_of st t2.
Proof.
  intros H. unfold tape_of, set_tape in *. cbn [tapes]. apply nth_error_set_nth.
  apply nth_error_Some. congruence.
Qed.

Definition grows (st st' : state) : Prop :=
  forall t tp, tape_of st t = Some tp -> exists suf, tape_of st' t = Some (tp ++ suf).

Lemma grows_refl st : grows st st.
Proof. intros t tp H. exists []. rewrite app_nil_r. exact H. Qed.

Lemma grows_set (st : state) t tp suf a o : tape_of st t = Some tp ->
  grows st (put (set_tape st t (tp ++ suf)) a o).
Proof.
  intros H t2 tp2 H2. rewrite tape_of_put, (tape_of_set_tape st t tp _ t2 H).
  destruct (Nat.eqb_spec t2 t) as [->|]; [|exists []; rewrite app_nil_r; exact H2].
  exists suf. rewrite H in H2. inversion H2. reflexivity.
Qed.

(* strictly increasing positions inside [lo, hi) *)
Fixpoint incr_in (lo hi : nat) (l : list nat) : Prop :=
  match l with
  | [] => True
  | i :: r => lo <= i < hi /\ incr_in (S i) hi r
  end.

Lemma incr_in_seq : forall n lo hi, lo + n <= hi -> incr_in lo hi (seq lo n).
Proof. induction n; intros lo hi H; cbn; [exact I|]. split; [lia|]. apply IHn. lia. Qed.

Lemma incr_in_weaken : forall l lo lo' hi hi', lo' <= lo -> hi <= hi' -> incr_in lo hi l -> incr_in lo' hi' l.
Proof.
  induction l as [|i r IH]; intros lo lo' hi hi' H1 H2; cbn; [auto|]. intros [Hi Hr]. split; [lia|].
  eapply IH; [| |exact Hr]; lia.
Qed.

Lemma incr_in_app : forall l1 l2 lo mid hi, lo <= mid -> mid <= hi ->
  incr_in lo mid l1 -> incr_in mid hi l2 -> incr_in lo hi (l1 ++ l2).
Proof.
  induction l1 as [|i r IH]; intros l2 lo mid hi H1 H2 A B; cbn [app].
  - eapply incr_in_weaken; [| |exact B]; lia.
  - cbn in *. destruct A as [Hi Hr]. split; [lia|]. eapply IH; [| |exact Hr|exact B]; lia.
Qed.

(* ------------------------------------------------------------------ what an operation appends *)
(* contig = true: the new object occupies EXACTLY the appended entries, in order (a record: one
   entry; a container: old length, old length + 1, ...).  contig = false: several entries may be
   appended per result (a record: the result is the LAST appended entry - `impl Sum`; a
   container: increasing positions inside the appended block - matrix products). *)
Definition obj_fresh (contig : bool) (tp tp' : tape) (o : obj) : Prop :=
  exists suf, tp' = tp ++ suf /\
  match o with
  | ORec r => r_hist r <> None ->
      exists pre e, suf = pre ++ [e] /\ r_idx r = length tp + length pre /\ (contig = true -> pre = [])
  | OCont c => c_hist c <> None ->
      incr_in (length tp) (length tp + length suf) (map snd (c_data c)) /\
      (contig = true -> map snd (c_data c) = seq (length tp) (length suf))
  | ODead => True
  end.

Definition fspec (contig : bool) (h : hist) (f : tape -> outcome (tape * obj)) : Prop :=
  forall tp tp' o, f tp = Ok (tp', o) -> obj_hist o = h /\ obj_fresh contig tp tp' o.

(* the single-entry form (the statement of next_unused before `impl Sum` became an operation of
   the machine; kept verbatim, see next_unused_single) *)
Definition val_fresh_single (contig : bool) (st st' : state) (v : outcome (@tm_val R)) : Prop :=
  match v with
  | Ok (VRec r) => forall h, r_hist r = Some h ->
      exists tp e, tape_of st h = Some tp /\ tape_of st' h = Some (tp ++ [e]) /\ r_idx r = length tp
  | Ok (VCont c) => forall h, c_hist c = Some h ->
      exists tp suf, tape_of st h = Some tp /\ tape_of st' h = Some (tp ++ suf) /\
        incr_in (length tp) (length tp + length suf) (map snd (c_data c)) /\
        (contig = true -> map snd (c_data c) = seq (length tp) (length suf))
  | Ok (VIdx l) => l = [] \/
      exists t tp suf, tape_of st t = Some tp /\ tape_of st' t = Some (tp ++ suf) /\
        incr_in (length tp) (length tp + length suf) l
  | _ => True
  end.

(* the several-entries form.  A record result with a list: the list grew by `pre ++ [e]`, the
   record sits at the LAST appended position (old length + length pre); `single = true` says
   that nothing else was appended (pre = []: the record sits at the old length). *)
Definition val_fresh (contig single : bool) (st st' : state) (v : outcome (@tm_val R)) : Prop :=
  match v with
  | Ok (VRec r) => forall h, r_hist r = Some h ->
      exists tp pre e, tape_of st h = Some tp /\ tape_of st' h = Some (tp ++ pre ++ [e]) /\
        r_idx r = length tp + length pre /\ (single = true -> pre = [])
  | Ok (VCont c) => forall h, c_hist c = Some h ->
      exists tp suf, tape_of st h = Some tp /\ tape_of st' h = Some (tp ++ suf) /\
        incr_in (length tp) (length tp + length suf) (map snd (c_data c)) /\
        (contig = true -> map snd (c_data c) = seq (length tp) (length suf))
  | Ok (VIdx l) => l = [] \/
      exists t tp suf, tape_of st t = Some tp /\ tape_of st' t = Some (tp ++ suf) /\
        incr_in (length tp) (length tp + length suf) l
  | _ => True
  end.

Lemma fo_fresh contig (st : state) dst h f st' v : fspec contig h f ->
  finish st dst (on_tape st h f) = Some (st', v) -> grows st st' /\ val_fresh contig contig st st' v.
Proof.
  intros Sp. unfold on_tape. destruct h as [t|].
  - destruct (tape_of st t) as [tp|] eqn:Et; [|discriminate].
    destruct (f tp) as [[tp' o]| |] eqn:Ef; cbn [omap finish fst snd];
      try (intros E; inversion E; subst; split; [apply grows_refl|exact I]).
    destruct (Sp _ _ _ Ef) as [Ho [suf [-> Hp]]].
    intros E; inversion E; subst st' v; clear E. split; [apply grows_set; exact Et|].
    assert (T' : tape_of (put (set_tape st t (tp ++ suf)) dst o) t = Some (tp ++ suf)).
    { rewrite tape_of_put, (tape_of_set_tape st t tp _ t Et), Nat.eqb_refl. reflexivity. }
    destruct o as [r|c|]; cbn [val_fresh obj_hist] in *; [| |exact I].
    + intros h0 Hh. assert (h0 = t) by congruence. subst h0.
      destruct Hp as (pre & e & -> & Hi & Hc); [congruence|]. exists tp, pre, e. auto.
    + intros h0 Hh. assert (h0 = t) by congruence. subst h0.
      destruct Hp as [Hi Hc]; [congruence|]. exists tp, suf. auto.
  - destruct (f []) as [[tp' o]| |] eqn:Ef; cbn [omap finish fst snd];
      try (intros E; inversion E; subst; split; [apply grows_refl|exact I]).
    destruct (Sp _ _ _ Ef) as [Ho _].
    intros E; inversion E; subst st' v; clear E. split; [intros t tp H; exists []; rewrite app_nil_r; exact H|].
    destruct o as [r|c|]; cbn [val_fresh obj_hist] in *; try exact I; intros h0 Hh; congruence.
Qed.

(* ---- scalar records *)
Lemma one_entry_fresh contig (tp : tape) (e : entry R) i : i = length tp ->
  exists pre e0, [e] = pre ++ [e0] /\ i = length tp + length pre /\ (contig = true -> pre = []).
Proof. intros ->. exists [], e. cbn. repeat split. lia. Qed.

Lemma val_fresh_to_single contig st st' v : val_fresh contig true st st' v -> val_fresh_single contig st st' v.
Proof.
  destruct v as [[ |r|c|d|l]| |]; cbn [val_fresh val_fresh_single]; auto.
  intros H h Hh. destruct (H h Hh) as (tp & pre & e & H1 & H2 & H3 & H4). rewrite (H4 eq_refl) in *.
  exists tp, e. cbn in *. split; [exact H1|]. split; [exact H2|lia].
Qed.

Lemma val_fresh_no_rec c s c' s' st st' v : (forall r, v <> Ok (VRec r)) -> (forall x, v <> Ok (VCont x) \/ c = c') ->
  val_fresh c s st st' v -> val_fresh c' s' st st' v.
Proof.
  intros Hr Hc. destruct v as [[ |r|x|d|l]| |]; cbn [val_fresh]; auto.
  - exfalso. eapply Hr. reflexivity.
  - destruct (Hc x) as [Q| ->]; [exfalso; apply Q; reflexivity|auto].
Qed.

Lemma spec_var t x : fspec true (Some t) (fun tp => as_rec (Ok (rec_variable ops tp t x))).
Proof.
  intros tp tp' o. cbn. intros E; inversion E; subst. split; [reflexivity|].
  eexists. split; [reflexivity|]. intros _. apply one_entry_fresh. reflexivity.
Qed.

Lemma rec_binary_fresh f (x y : rec) tp tp' z : rec_binary ops tp f x y = Ok (tp', z) ->
  r_hist z = first_hist (r_hist x) (r_hist y) /\ obj_fresh true tp tp' (ORec z).
Proof.
  unfold rec_binary. destruct (negb _); [discriminate|].
  destruct (r_hist x), (r_hist y); cbn; intros E; inversion E; subst; cbn; (split; [reflexivity|]);
    try (eexists; split; [reflexivity|]; intros _; apply one_entry_fresh; reflexivity).
  exists []. split; [rewrite app_nil_r; reflexivity|]. intros H. exfalso. apply H. reflexivity.
Qed.

Lemma spec_rec_bin f (x y : rec) :
  fspec true (first_hist (r_hist x) (r_hist y)) (fun tp => as_rec (rec_binary ops tp f x y)).
Proof.
  intros tp tp' o. unfold as_rec. destruct (rec_binary ops tp f x y) as [[t1 z]| |] eqn:E; cbn; try discriminate.
  intros Q; inversion Q; subst. destruct (rec_binary_fresh _ _ _ _ _ _ E) as [H1 H2]. split; [exact H1|exact H2].
Qed.

Lemma spec_rec_un code c (x : rec) : fspec true (r_hist x) (fun tp => as_rec (rec_un ops tp code c x)).
Proof.
  intros tp tp' o. unfold as_rec, rec_un, rec_unary_code. destruct code as [|code].
  - unfold rec_neg. destruct (r_hist x) as [h|] eqn:Eh.
    + destruct (rec_binary ops tp (Subtraction ops) (rec_constant (nzero ops)) x) as [[t1 z]| |] eqn:E; cbn; try discriminate.
      intros Q; inversion Q; subst. destruct (rec_binary_fresh _ _ _ _ _ _ E) as [H1 H2].
      cbn [rec_constant r_hist first_hist] in H1. rewrite Eh in H1. split; [exact H1|exact H2].
    + cbn. intros Q; inversion Q; subst. split; [reflexivity|]. exists []. rewrite app_nil_r. split; [reflexivity|].
      intros H. exfalso. apply H. reflexivity.
  - destruct (unfn_of ops (S code) c) as [f|]; cbn; [|discriminate]. unfold rec_unary.
    destruct (r_hist x) as [h|] eqn:Eh; cbn; intros Q; inversion Q; subst; cbn; (split; [reflexivity|]).
    + eexists. split; [reflexivity|]. intros _. apply one_entry_fresh. reflexivity.
    + exists []. rewrite app_nil_r. split; [reflexivity|]. intros H. exfalso. apply H. reflexivity.
Qed.

(* ---- containers: constructors and elementwise operations *)
Lemma spec_cvar t tensor sh data : length data = elements sh ->
  fspec true (Some t) (fun tp => as_cont (Ok (c_variables ops tp t tensor sh data))).
Proof.
  intros Hl tp tp' o. cbn. intros E; inversion E; subst. split; [reflexivity|].
  destruct (nullary_repeating_app ops (elements sh) tp) as [suf [Es Ls]]. exists suf. split; [exact Es|].
  intros _. cbn [c_data]. unfold incrementing_indexes.
  destruct (combine_maps data (seq (length tp) (elements sh))) as [M _]; [rewrite seq_length; exact Hl|].
  rewrite M, Ls. split; [apply incr_in_seq; lia|reflexivity].
Qed.

Lemma contig_fresh (tp suf : tape) idxs : idxs = seq (length tp) (length suf) ->
  incr_in (length tp) (length tp + length suf) idxs /\ (true = true -> idxs = seq (length tp) (length suf)).
Proof. intros ->. split; [apply incr_in_seq; lia|auto]. Qed.

Lemma spec_cont_un assign code c (x : cont) :
  fspec true (c_hist x) (fun tp => as_cont (cont_un ops tp assign code c x)).
Proof.
  intros tp tp' o. unfold as_cont, cont_un. destruct (unfn_of ops code c) as [f|]; cbn; [|discriminate].
  unfold c_unary. destruct (c_hist x) as [h|] eqn:Eh.
  - destruct (unary_loop ops tp f (c_data x)) as [t1 ys] eqn:El. cbn. intros Q; inversion Q; subst.
    split; [reflexivity|]. destruct (unary_loop_positions ops f _ _ _ _ El) as [[suf Es] [Ll Lp]].
    exists suf. split; [exact Es|]. intros _. cbn [c_data]. apply contig_fresh. rewrite Lp. f_equal.
    rewrite Es, app_length in Ll. lia.
  - cbn. intros Q; inversion Q; subst. split; [reflexivity|]. exists []. rewrite app_nil_r. split; [reflexivity|].
    intros H. exfalso. apply H. reflexivity.
Qed.

Lemma c_binary_fresh f (x y : cont) tp tp' z : c_binary ops tp f x y = Ok (tp', z) ->
  c_hist z = first_hist (c_hist x) (c_hist y) /\ obj_fresh true tp tp' (OCont z).
Proof.
  unfold c_binary. destruct (negb _); [discriminate|].
  assert (K : forall t1 (zs : list (R * nat)), (exists suf, t1 = tp ++ suf) -> length t1 = length tp + length zs ->
              map snd zs = seq (length tp) (length zs) ->
              exists suf, t1 = tp ++ suf /\ incr_in (length tp) (length tp + length suf) (map snd zs) /\
                          (true = true -> map snd zs = seq (length tp) (length suf))).
  { intros t1 zs [suf Es] Ll Lp. exists suf. split; [exact Es|]. apply contig_fresh. rewrite Lp. f_equal.
    rewrite Es, app_length in Ll. lia. }
  destruct (c_hist x) as [h|], (c_hist y) as [h2|].
  - destruct (negb (Nat.eqb h h2)); [discriminate|].
    destruct (binary_both_loop tp f (c_data x) (c_data y)) as [t1 zs] eqn:El. intros Q; inversion Q; subst.
    split; [reflexivity|]. destruct (binary_both_positions f _ _ _ _ _ El) as [P1 [P2 P3]].
    destruct (K _ _ P1 P2 P3) as (suf & Es & Hi). exists suf. split; [exact Es|]. intros _. exact Hi.
  - destruct (binary_x_loop ops tp f (c_data x) (c_data y)) as [t1 zs] eqn:El. intros Q; inversion Q; subst.
    split; [reflexivity|]. destruct (binary_x_positions ops f _ _ _ _ _ El) as [P1 [P2 P3]].
    destruct (K _ _ P1 P2 P3) as (suf & Es & Hi). exists suf. split; [exact Es|]. intros _. exact Hi.
  - destruct (binary_y_loop ops tp f (c_data x) (c_data y)) as [t1 zs] eqn:El. intros Q; inversion Q; subst.
    split; [reflexivity|]. destruct (binary_y_positions ops f _ _ _ _ _ El) as [P1 [P2 P3]].
    destruct (K _ _ P1 P2 P3) as (suf & Es & Hi). exists suf. split; [exact Es|]. intros _. exact Hi.
  - intros Q; inversion Q; subst. split; [reflexivity|]. exists []. rewrite app_nil_r. split; [reflexivity|].
    intros H. exfalso. apply H. reflexivity.
Qed.

Lemma first_hist_same a b : same_list a b = true -> first_hist b a = first_hist a b.
Proof.
  destruct a as [x|], b as [y|]; cbn; try reflexivity. intros H. apply Nat.eqb_eq in H. congruence.
Qed.

Lemma spec_cont_bin mode f (x y : cont) :
  fspec true (if Nat.eqb mode 3 then first_hist (c_hist y) (c_hist x) else first_hist (c_hist x) (c_hist y))
        (fun tp => as_cont (cont_bin ops tp mode f x y)).
Proof.
  intros tp tp' o. unfold as_cont, cont_bin, c_binop.
  destruct mode as [|[|[|[|m]]]]; cbn [Nat.eqb]; try (cbn; discriminate).
  - destruct (negb (same_list (c_hist x) (c_hist y))); [cbn; discriminate|].
    destruct (c_binary ops tp f x y) as [[t1 z]| |] eqn:E; cbn; try discriminate.
    intros Q; inversion Q; subst. destruct (c_binary_fresh _ _ _ _ _ _ E) as [H1 H2]. split; [exact H1|exact H2].
  - destruct (c_binary ops tp f x y) as [[t1 z]| |] eqn:E; cbn; try discriminate.
    intros Q; inversion Q; subst. destruct (c_binary_fresh _ _ _ _ _ _ E) as [H1 H2]. split; [exact H1|exact H2].
  - destruct (c_binary ops tp f x y) as [[t1 z]| |] eqn:E; cbn; try discriminate.
    intros Q; inversion Q; subst. destruct (c_binary_fresh _ _ _ _ _ _ E) as [H1 H2]. split; [exact H1|exact H2].
  - destruct (c_binary ops tp (swap_binfn f) y x) as [[t1 z]| |] eqn:E; cbn; try discriminate.
    intros Q; inversion Q; subst. destruct (c_binary_fresh _ _ _ _ _ _ E) as [H1 H2]. split; [exact H1|exact H2].
Qed.

(* ---- matrix multiplication: every cell sits at the last entry appended for it *)
Lemma product_step_app (t : tape) lh rh p : exists e z,
  product_step ops t lh rh p = (t ++ [e], (z, length t)).
Proof.
  destruct p as [[x xi] [y yi]]. unfold product_step. destruct lh, rh; cbn; eexists _, _; reflexivity.
Qed.

Lemma spr_positions lh rh : forall ps (t : tape) acc t' z lo,
  scalar_product_rest ops t lh rh acc ps = (t', z) -> lo <= snd acc < length t ->
  exists suf, t' = t ++ suf /\ lo <= snd z < length t'.
Proof.
  induction ps as [|p r IH]; intros t acc t' z lo; cbn [scalar_product_rest].
  - intros E H; inversion E; subst. exists []. rewrite app_nil_r. auto.
  - destruct (product_step_app t lh rh p) as (e & pz & Ep). rewrite Ep. destruct acc as [a ai]. cbn [append_binary].
    intros E H. cbn [snd] in H.
    destruct (IH _ _ _ _ lo E) as (suf & Es & Hz); [cbn [snd]; rewrite !app_length; cbn; lia|].
    eexists. split; [rewrite Es, <- !app_assoc; reflexivity|exact Hz].
Qed.

Lemma rsp_positions (t : tape) lh rh l r t' z : record_scalar_product ops t lh rh l r = Some (t', z) ->
  exists suf, t' = t ++ suf /\ (first_hist lh rh <> None -> length t <= snd z < length t').
Proof.
  unfold record_scalar_product. destruct (first_hist lh rh) as [h|].
  - destruct (combine l r) as [|p ps]; [discriminate|].
    destruct (product_step_app t lh rh p) as (e & pz & Ep). rewrite Ep. intros E. inversion E as [E'].
    destruct (spr_positions lh rh _ _ _ _ _ (length t) E') as (suf & Es & Hz); [cbn; rewrite app_length; cbn; lia|].
    eexists. split; [rewrite Es, <- app_assoc; reflexivity|intros _; exact Hz].
  - destruct (combine l r) as [|[[x xi] [y yi]] ps]; [discriminate|]. intros E; inversion E; subst.
    exists []. rewrite app_nil_r. split; [reflexivity|]. intros H. exfalso. apply H. reflexivity.
Qed.

Lemma cells_positions lh rh rows inner columns ld rd : forall cs (t : tape) t' zs,
  matmul_cells ops t lh rh rows inner columns ld rd cs = Some (t', zs) ->
  exists suf, t' = t ++ suf /\ (first_hist lh rh <> None -> incr_in (length t) (length t') (map snd zs)).
Proof.
  induction cs as [|[i j] rest IH]; intros t t' zs; cbn [matmul_cells].
  - intros E; inversion E; subst. exists []. rewrite app_nil_r. split; [reflexivity|intros _; exact I].
  - destruct (record_scalar_product ops t lh rh (row_of inner ld i) (column_of inner columns rd j)) as [[t1 z]|] eqn:E1;
      [|discriminate].
    destruct (matmul_cells ops t1 lh rh rows inner columns ld rd rest) as [[t2 zr]|] eqn:E2; [|discriminate].
    intros E; inversion E; subst t' zs; clear E.
    destruct (rsp_positions _ _ _ _ _ _ _ E1) as (s1 & Es1 & H1). destruct (IH _ _ _ E2) as (s2 & Es2 & H2).
    exists (s1 ++ s2). split; [rewrite Es2, Es1, app_assoc; reflexivity|]. intros Hn. cbn [map incr_in].
    specialize (H1 Hn). specialize (H2 Hn). split.
    + rewrite Es2, app_length. lia.
    + eapply incr_in_weaken; [| |exact H2]; lia.
Qed.

Lemma spec_matmul (x y : cont) :
  fspec false (first_hist (c_hist x) (c_hist y)) (fun tp => as_cont (c_matmul ops tp x y)).
Proof.
  intros tp tp' o. unfold as_cont, c_matmul. destruct (negb _); [cbn; discriminate|].
  destruct (c_shape x) as [|[n0 rows] [|[n1 inner] [|]]]; try (cbn; discriminate).
  destruct (c_shape y) as [|[n2 inner2] [|[n3 columns] [|]]]; try (cbn; discriminate).
  destruct (negb _); [cbn; discriminate|]. destruct (_ && _); [cbn; discriminate|].
  destruct (matmul_cells ops tp (c_hist x) (c_hist y) rows inner columns (c_data x) (c_data y) (cells rows columns))
    as [[t1 zs]|] eqn:E1; cbn; [|discriminate].
  intros Q; inversion Q; subst. split; [reflexivity|].
  destruct (cells_positions _ _ _ _ _ _ _ _ _ _ _ E1) as (suf & Es & Hi). exists suf. split; [exact Es|].
  cbn [c_hist c_data]. intros Hn. specialize (Hi Hn). rewrite Es, app_length in Hi. split; [exact Hi|discriminate].
Qed.

(* ---- resets *)
Lemma firstn_seq : forall k a n, firstn k (seq a n) = seq a (Nat.min k n).
Proof. induction k; intros a [|n]; cbn; try reflexivity. f_equal. apply IHk. Qed.

Lemma map_snd_combine_firstn {A B} : forall (a : list A) (b : list B), map snd (combine a b) = firstn (length a) b.
Proof. induction a as [|x a IH]; intros [|y b]; cbn; try reflexivity. f_equal. apply IH. Qed.

Lemma obj_reset_fresh (tp : tape) (o : obj) tp' o' idx : obj_reset ops tp o = (tp', o', idx) ->
  exists suf, tp' = tp ++ suf /\ idx = seq (length tp) (length idx) /\ length idx <= length suf /\
              obj_hist o' = obj_hist o.
Proof.
  destruct o as [r|c|]; cbn [obj_reset].
  - unfold rec_reset. destruct (r_hist r) as [h|] eqn:Eh; cbn.
    + intros E; inversion E; subst. eexists. split; [reflexivity|]. cbn. rewrite Eh. auto.
    + intros E; inversion E; subst. exists []. rewrite app_nil_r. cbn. rewrite Eh. auto.
  - unfold c_reset. destruct (c_hist c) as [h|] eqn:Eh; cbn.
    + intros E; inversion E; subst. destruct (nullary_repeating_app ops (elements (c_shape c)) tp) as [suf [Es Ls]].
      exists suf. split; [exact Es|]. cbn [c_data obj_hist c_hist]. unfold incrementing_indexes.
      rewrite map_snd_combine_firstn, firstn_seq, seq_length. split; [reflexivity|]. split; [lia|symmetry; exact Eh].
    + intros E; inversion E; subst. exists []. rewrite app_nil_r. cbn. rewrite Eh. auto.
  - intros E; inversion E; subst. exists []. rewrite app_nil_r. auto.
Qed.

Lemma reset_all_fresh t : forall os (tp : tape) tp' os' idx, reset_all ops tp t os = (tp', os', idx) ->
  exists suf, tp' = tp ++ suf /\ incr_in (length tp) (length tp') idx.
Proof.
  induction os as [|o r IH]; intros tp tp' os' idx; cbn [reset_all].
  - intros E; inversion E; subst. exists []. rewrite app_nil_r. split; [reflexivity|exact I].
  - destruct (match obj_hist o with Some h => Nat.eqb h t | None => false end).
    + destruct (obj_reset ops tp o) as [[tp1 o1] i1] eqn:E1.
      destruct (reset_all ops tp1 t r) as [[tp2 r2] i2] eqn:E2. intros E; inversion E; subst.
      destruct (obj_reset_fresh _ _ _ _ _ E1) as (s1 & Es1 & Hi1 & Hl1 & _).
      destruct (IH _ _ _ _ E2) as (s2 & Es2 & Hi2).
      exists (s1 ++ s2). split; [rewrite Es2, Es1, app_assoc; reflexivity|].
      apply (incr_in_app _ _ _ (length tp1)); [rewrite Es1, app_length; lia|rewrite Es2, app_length; lia| |exact Hi2].
      rewrite Hi1. apply incr_in_seq. rewrite Es1, app_length. lia.
    + destruct (reset_all ops tp t r) as [[tp2 r2] i2] eqn:E2. intros E; inversion E; subst. eapply IH; eauto.
Qed.

(* ------------------------------------------------------------------ C15_next_unused
   After ANY step other than clear: the old tape of every list is a prefix of the new one, and
   every newly created object occupies the next unused positions of its list:
   a record sits at the old length (one entry appended); the elements of a container produced by
   a constructor or an elementwise operation (unary kinds, binary kinds in the four modes) are
   exactly old length, old length + 1, ... in iteration order, as many as entries were appended;
   the cells of a matrix product are strictly increasing positions inside [old length, new
   length) (each cell is the last of the 2k - 1 entries appended for it); reset hands out
   increasing positions inside [old length, new length). *)
Definition is_matmul (o : @tm_op R) : bool := match o with TMatmul _ _ _ => true | _ => false end.
Definition is_sum (o : @tm_op R) : bool := match o with TSum _ _ => true | _ => false end.

Lemma finish_cont_no_rec (st : state) dst h (f : tape -> outcome (tape * cont)) st' v r :
  finish st dst (on_tape st h (fun tp => as_cont (f tp))) = Some (st', v) -> v <> Ok (VRec r).
Proof.
  unfold on_tape, as_cont. destruct h as [t|].
  - destruct (tape_of st t); [|discriminate]. destruct (f t0) as [[t1 c]| |]; cbn; intros E; inversion E; discriminate.
  - destruct (f []) as [[t1 c]| |]; cbn; intros E; inversion E; discriminate.
Qed.

Lemma grows_set_tape (st : state) t tp suf : tape_of st t = Some tp -> grows st (set_tape st t (tp ++ suf)).
Proof.
  intros H t2 tp2 H2. rewrite (tape_of_set_tape st t tp _ t2 H).
  destruct (Nat.eqb_spec t2 t) as [->|]; [|exists []; rewrite app_nil_r; exact H2].
  exists suf. rewrite H in H2. inversion H2. reflexivity.
Qed.

(* impl Sum: what one TSum step does to the machine.  Only the list of the first non-constant
   summed record can change, and only by appending at most one entry per summed record; the
   outcome is never an error value; on success the result (written to dst) has that list as its
   history and sits at the LAST appended entry, a constant result appended nothing; on a panic
   no register is written and the entries appended so far stay. *)
Lemma sum_step_spec (st : state) dst rs xs st' v : get_recs st rs = Some xs ->
  step ops st (TSum dst rs) = Some (st', v) ->
  exists st1, grows st st1 /\ regs st1 = regs st /\
    (forall t, sum_hist xs <> Some t -> tape_of st1 t = tape_of st t) /\
    (forall t tp, sum_hist xs = Some t -> tape_of st t = Some tp ->
       exists suf, tape_of st1 t = Some (tp ++ suf) /\ length suf <= length rs /\
         (forall z, v = Ok (VRec z) -> r_hist z = Some t /\ exists pre e, suf = pre ++ [e] /\ r_idx z = length tp + length pre)) /\
    (sum_hist xs = None -> st1 = st /\ forall z, v = Ok (VRec z) -> r_hist z = None) /\
    ((v = Panic /\ st' = st1) \/ (exists z, v = Ok (VRec z) /\ st' = put st1 dst (ORec z) /\ r_hist z = sum_hist xs)).
Proof.
  intros Eg. cbn [step]. rewrite Eg. unfold sum_on.
  assert (Lr : length xs = length rs).
  { clear - Eg. revert xs Eg. induction rs as [|a rs IH]; intros xs; cbn [get_recs].
    - intros E; inversion E; reflexivity.
    - destruct (get st a); try discriminate. destruct (get_recs st rs) as [l|]; [|discriminate].
      intros E; inversion E; subst. cbn. f_equal. apply IH. reflexivity. }
  destruct (sum_hist xs) as [t|] eqn:Eh.
  - destruct (tape_of st t) as [tp|] eqn:Et; [|discriminate].
    destruct (sum_fold ops tp (rec_constant (nzero ops)) xs) as [tp' r] eqn:Ef. cbn [fst snd].
    destruct (sum_fold_fresh ops _ _ _ _ _ Ef) as (suf & -> & L & Ne & Hz).
    intros Hs. exists (set_tape st t (tp ++ suf)). split; [apply grows_set_tape; exact Et|]. split; [reflexivity|].
    split; [intros t2 Hne; rewrite (tape_of_set_tape st t tp _ t2 Et); destruct (Nat.eqb_spec t2 t); [congruence|reflexivity]|].
    assert (HZ : forall z, r = Ok z -> r_hist z = Some t /\ exists pre e, suf = pre ++ [e] /\ r_idx z = length tp + length pre).
    { intros z ->. destruct (Hz z eq_refl) as (H1 & _ & H3). cbn [rec_constant r_hist first_hist] in H1. rewrite Eh in H1.
      split; [exact H1|]. destruct H3 as [[_ ->]|H3]; [congruence|discriminate H1|exact H3]. }
    split; [|split; [intros Q; discriminate Q|]].
    + intros t2 tp2 Q Et2. inversion Q; subst t2. rewrite Et in Et2. inversion Et2; subst tp2.
      exists suf. split; [rewrite (tape_of_set_tape st t tp _ t Et), Nat.eqb_refl; reflexivity|]. split; [lia|].
      intros z. destruct r as [z0|e|]; cbn [sum_finish] in Hs; inversion Hs; subst; intros Ev; try discriminate Ev.
      inversion Ev; subst. apply HZ. reflexivity.
    + destruct r as [z|e|]; cbn [sum_finish] in Hs; inversion Hs; subst.
      * right. exists z. split; [reflexivity|]. split; [reflexivity|]. apply HZ. reflexivity.
      * exfalso. eapply Ne. reflexivity.
      * left. auto.
  - destruct (sum_fold ops [] (rec_constant (nzero ops)) xs) as [tp' r] eqn:Ef. cbn [fst snd].
    destruct (sum_fold_fresh ops _ _ _ _ _ Ef) as (suf & _ & _ & Ne & Hz).
    assert (HZ : forall z, r = Ok z -> r_hist z = None).
    { intros z ->. destruct (Hz z eq_refl) as (H1 & _). cbn [rec_constant r_hist first_hist] in H1. rewrite Eh in H1. exact H1. }
    intros Hs. exists st. split; [apply grows_refl|]. split; [reflexivity|]. split; [reflexivity|].
    split; [intros t tp Q; discriminate Q|]. split.
    + intros _. split; [reflexivity|]. intros z.
      destruct r as [z0|e|]; cbn [sum_finish] in Hs; inversion Hs; subst; intros Ev; try discriminate Ev. inversion Ev; subst. apply HZ. reflexivity.
    + destruct r as [z|e|]; cbn [sum_finish] in Hs; inversion Hs; subst.
      * right. exists z. split; [reflexivity|]. split; [reflexivity|]. apply HZ. reflexivity.
      * exfalso. eapply Ne. reflexivity.
      * left. auto.
Qed.

Theorem next_unused (st : state) op st' v : step ops st op = Some (st', v) -> (forall t, op <> TClear t) ->
  grows st st' /\ val_fresh (negb (is_matmul op)) (negb (is_sum op)) st st' v.
Proof.
  intros Hstep Hnc.
  assert (SK : forall r c s, skipped st = Some r -> grows st (fst r) /\ val_fresh c s st (fst r) (snd r)).
  { intros r c s E. inversion E; subst. split; [apply grows_refl|exact I]. }
  destruct op as [|dst t x|dst x|dst t tensor sh data|dst tensor sh data|dst assign code c a|dst mode code a b|dst a b
                  |a elem|t|a|t|dst rs]; cbn [step is_matmul is_sum negb] in *.
  - inversion Hstep; subst. split; [|exact I]. intros t tp H. exists []. rewrite app_nil_r.
    unfold tape_of in *. cbn [tapes]. rewrite nth_error_app1; [exact H|apply nth_error_Some; congruence].
  - eapply fo_fresh; [apply spec_var|exact Hstep].
  - inversion Hstep; subst. split; [intros t tp H; exists []; rewrite app_nil_r; exact H|].
    intros h Hh. discriminate Hh.
  - destruct (negb (shape_valid sh (length data)) || negb (tensor || Nat.eqb (length sh) 2)) eqn:Ev; [discriminate|].
    apply orb_false_iff in Ev as [Ev _]. apply negb_false_iff in Ev.
    unfold shape_valid in Ev. apply andb_true_iff in Ev as [_ Ev]. apply Nat.eqb_eq in Ev.
    eapply fo_fresh; [apply spec_cvar; symmetry; exact Ev|exact Hstep].
  - destruct (_ || _); [discriminate|]. inversion Hstep; subst.
    split; [intros t tp H; exists []; rewrite app_nil_r; exact H|]. intros h Hh. discriminate Hh.
  - destruct (negb (un_code_ok ops code c)); [discriminate|]. destruct (get st a) as [x|x|].
    + eapply fo_fresh; [apply spec_rec_un|exact Hstep].
    + eapply fo_fresh; [apply spec_cont_un|exact Hstep].
    + apply (SK _ _ _ Hstep).
  - destruct (binfn_of ops code) as [f|]; [|discriminate].
    destruct (get st a) as [x|x|], (get st b) as [y|y|]; try apply (SK _ _ _ Hstep).
    + eapply fo_fresh; [apply spec_rec_bin|exact Hstep].
    + destruct (negb (Bool.eqb (c_tensor x) (c_tensor y))); [apply (SK _ _ _ Hstep)|].
      destruct (_ || _); [discriminate|]. eapply fo_fresh; [apply spec_cont_bin|exact Hstep].
  - destruct (get st a) as [x|x|], (get st b) as [y|y|];
      try (destruct (SK _ false true Hstep) as [G V]; split; [exact G|destruct v as [[]| |]; try exact I; inversion Hstep]).
    destruct (negb (Bool.eqb (c_tensor x) (c_tensor y))).
    + inversion Hstep; subst. split; [apply grows_refl|exact I].
    + destruct (_ || _); [discriminate|].
      destruct (fo_fresh false st dst _ _ st' v (spec_matmul x y) Hstep) as [G V]. split; [exact G|].
      eapply val_fresh_no_rec; [| |exact V].
      * intros r. eapply (finish_cont_no_rec st dst _ (fun tp => c_matmul ops tp x y)). exact Hstep.
      * intros c0. right. reflexivity.
  - assert (K : st' = st /\ (forall l, v <> Ok (VIdx l)) /\ (forall r, v <> Ok (VRec r)) /\ (forall c0, v <> Ok (VCont c0))).
    { destruct (get st a) as [x|x|].
      - destruct (r_hist x) as [t|]; [|inversion Hstep; subst; repeat split; intros; discriminate].
        destruct (tape_of st t); [|discriminate]. inversion Hstep; subst.
        destruct (derivs_checked ops t0 (r_idx x)); cbn; repeat split; intros; discriminate.
      - destruct (nth_error (c_data x) elem) as [p|]; [|inversion Hstep; subst; repeat split; intros; discriminate].
        destruct (c_hist x) as [t|]; [|inversion Hstep; subst; repeat split; intros; discriminate].
        destruct (tape_of st t); [|discriminate]. inversion Hstep; subst.
        destruct (derivs_checked ops t0 (snd p)); cbn; repeat split; intros; discriminate.
      - inversion Hstep; subst. repeat split; intros; discriminate. }
    destruct K as (-> & K1 & K2 & K3). split; [apply grows_refl|].
    destruct v as [[ |r|c0|d|l]| |]; try exact I; exfalso; [eapply K2|eapply K3|eapply K1]; reflexivity.
  - exfalso. eapply Hnc. reflexivity.
  - assert (K : forall o, o <> ODead -> get st a = o ->
              match obj_hist o with
              | None => Some (st, Ok (VIdx []))
              | Some t => match tape_of st t with
                          | None => None
                          | Some tp => let '(tp', o', idx) := obj_reset ops tp o in
                                       Some (put (set_tape st t tp') a o', Ok (VIdx idx))
                          end
              end = Some (st', v) -> grows st st' /\ val_fresh true true st st' v).
    { intros o _ _. destruct (obj_hist o) as [t|].
      - destruct (tape_of st t) as [tp|] eqn:Et; [|discriminate].
        destruct (obj_reset ops tp o) as [[tp' o'] idx] eqn:Er. intros E; inversion E; subst.
        destruct (obj_reset_fresh _ _ _ _ _ Er) as (suf & -> & Hi & Hl & _).
        split; [apply grows_set; exact Et|]. right. exists t, tp, suf. split; [exact Et|]. split.
        + rewrite tape_of_put, (tape_of_set_tape st t tp _ t Et), Nat.eqb_refl. reflexivity.
        + rewrite Hi. apply incr_in_seq. lia.
      - intros E; inversion E; subst. split; [apply grows_refl|left; reflexivity]. }
    destruct (get st a) as [x|x|] eqn:Eg.
    + apply (K (ORec x)); [discriminate|reflexivity|exact Hstep].
    + apply (K (OCont x)); [discriminate|reflexivity|exact Hstep].
    + apply (SK _ _ _ Hstep).
  - destruct (tape_of st t) as [tp|] eqn:Et; [|discriminate].
    destruct (reset_all ops tp t (regs st)) as [[tp' os] idx] eqn:Er. inversion Hstep; subst.
    destruct (reset_all_fresh _ _ _ _ _ _ Er) as (suf & -> & Hi).
    assert (T : forall t2, tape_of (mkState (set_nth [] (tapes st) t (tp ++ suf)) os) t2 =
                           if Nat.eqb t2 t then Some (tp ++ suf) else tape_of st t2).
    { intros t2. unfold tape_of. cbn [tapes]. apply nth_error_set_nth. apply nth_error_Some. unfold tape_of in Et. congruence. }
    split.
    + intros t2 tp2 H2. rewrite T. destruct (Nat.eqb_spec t2 t) as [->|]; [|exists []; rewrite app_nil_r; exact H2].
      exists suf. rewrite Et in H2. inversion H2. reflexivity.
    + right. exists t, tp, suf. split; [exact Et|]. split; [rewrite T, Nat.eqb_refl; reflexivity|].
      rewrite app_length in Hi. exact Hi.
  - destruct (get_recs st rs) as [xs|] eqn:Eg; [|apply (SK _ _ _ Hstep)].
    assert (Hs' : step ops st (TSum dst rs) = Some (st', v)) by (cbn [step]; rewrite Eg; exact Hstep).
    destruct (sum_step_spec st dst rs xs st' v Eg Hs') as (st1 & G & Rg & Hoth & Hon & Hnone & Hv).
    assert (G' : grows st st').
    { destruct Hv as [[_ ->]|(z & _ & -> & _)]; [exact G|]. intros t tp H. rewrite tape_of_put. apply G, H. }
    split; [exact G'|]. destruct Hv as [[-> _]|(z & -> & -> & Hzh)]; [exact I|].
    cbn [val_fresh]. intros h Hh. rewrite Hh in Hzh. symmetry in Hzh.
    destruct (tape_of st h) as [tp|] eqn:Et.
    + destruct (Hon h tp Hzh Et) as (suf & T1 & _ & Hz). destruct (Hz z eq_refl) as (_ & pre & e & -> & Hi).
      exists tp, pre, e. split; [reflexivity|]. split; [rewrite tape_of_put; exact T1|]. split; [exact Hi|discriminate].
    + exfalso. revert Hstep. unfold sum_on. rewrite Hzh, Et. discriminate.
Qed.

(* the statement of next_unused as it was before TSum: for every operation other than clear and
   Sum a record result appended exactly ONE entry and sits at the old length *)
Corollary next_unused_single (st : state) op st' v : step ops st op = Some (st', v) ->
  (forall t, op <> TClear t) -> (forall dst rs, op <> TSum dst rs) ->
  grows st st' /\ val_fresh_single (negb (is_matmul op)) st st' v.
Proof.
  intros Hs Hc Hn. destruct (next_unused st op st' v Hs Hc) as [G V]. split; [exact G|].
  apply val_fresh_to_single. replace (negb (is_sum op)) with true in V; [exact V|].
  destruct op; try reflexivity. exfalso. eapply Hn. reflexivity.
Qed.

(* ------------------------------------------------------------------ the frame property
   Two machines that agree on list t and on a set S of registers (whose objects are constants or
   live on list t) execute an operation that only reads registers of S and only names list t
   with the same result, and agree afterwards on S plus the destination register. *)
Definition hist_on (t : nat) (o : obj) : Prop := obj_hist o = None \/ obj_hist o = Some t.

Definition agree (S : nat -> bool) (t : nat) (st1 st2 : state) : Prop :=
  (exists tp, tape_of st1 t = Some tp /\ tape_of st2 t = Some tp) /\
  forall r, S r = true -> get st1 r = get st2 r /\ hist_on t (get st1 r).

Definition add (S : nat -> bool) (d : nat) : nat -> bool := fun r => Nat.eqb r d || S r.

Definition reads (o : @tm_op R) : list nat :=
  match o with
  | TUn _ _ _ _ a => [a] | TBin _ _ _ a b => [a; b] | TMatmul _ a b => [a; b]
  | TDerivs a _ => [a] | TReset a => [a] | TSum _ rs => rs
  | _ => []
  end.
Definition dst_of (o : @tm_op R) : option nat :=
  match o with
  | TVar d _ _ | TConst d _ | TCVar d _ _ _ _ | TCConst d _ _ _ | TUn d _ _ _ _ | TBin d _ _ _ _
  | TMatmul d _ _ | TSum d _ => Some d
  | TReset a => Some a
  | _ => None
  end.
(* the operation names no list other than t (new lists and reset-all are global operations) *)
Definition on_list (t : nat) (o : @tm_op R) : bool :=
  match o with
  | TNewTape | TResetAll _ => false
  | TVar _ t' _ | TCVar _ t' _ _ _ | TClear t' => Nat.eqb t' t
  | _ => true
  end.
Definition local_op (S : nat -> bool) (t : nat) (o : @tm_op R) : bool := on_list t o && forallb S (reads o).
Definition next (S : nat -> bool) (o : @tm_op R) (v : outcome (@tm_val R)) : nat -> bool :=
  match v, dst_of o with
  | Ok _, Some d => add S d
  | _, _ => S
  end.

Lemma agree_sub S S' t st1 st2 : (forall r, S' r = true -> S r = true) -> agree S t st1 st2 -> agree S' t st1 st2.
Proof. intros H [T A]. split; [exact T|]. intros r Hr. apply A, H, Hr. Qed.

Lemma agree_put S t (st1 st2 : state) d o : agree S t st1 st2 -> hist_on t o ->
  agree (add S d) t (put st1 d o) (put st2 d o).
Proof.
  intros [T A] Ho. split; [exact T|]. intros r Hr. rewrite !get_put. unfold add in Hr.
  destruct (Nat.eqb_spec r d); [auto|]. cbn in Hr. apply A, Hr.
Qed.

Lemma agree_set_tape S t (st1 st2 : state) tp' : agree S t st1 st2 ->
  agree S t (set_tape st1 t tp') (set_tape st2 t tp').
Proof.
  intros [(tp & T1 & T2) A]. split.
  - exists tp'. rewrite (tape_of_set_tape st1 t tp _ t T1), (tape_of_set_tape st2 t tp _ t T2), Nat.eqb_refl. auto.
  - intros r Hr. rewrite !get_set_tape. apply A, Hr.
Qed.

Lemma fo_agree contig S t (st1 st2 : state) dst h f st1' v : agree S t st1 st2 ->
  h = None \/ h = Some t -> fspec contig h f ->
  finish st1 dst (on_tape st1 h f) = Some (st1', v) ->
  exists st2', finish st2 dst (on_tape st2 h f) = Some (st2', v) /\
               agree (match v with Ok _ => add S dst | _ => S end) t st1' st2'.
Proof.
  intros Ag Hh Sp. pose proof Ag as [(tp & T1 & T2) A]. unfold on_tape. destruct Hh as [->| ->].
  - destruct (f []) as [[tp' o]| |] eqn:Ef; cbn [omap finish fst snd]; intros E; inversion E; subst;
      try (eexists; split; [reflexivity|exact Ag]).
    eexists. split; [reflexivity|]. destruct (Sp _ _ _ Ef) as [Ho _].
    destruct o; apply agree_put; auto; left; exact Ho.
  - rewrite T1, T2. destruct (f tp) as [[tp' o]| |] eqn:Ef; cbn [omap finish fst snd]; intros E; inversion E; subst;
      try (eexists; split; [reflexivity|exact Ag]).
    eexists. split; [reflexivity|]. destruct (Sp _ _ _ Ef) as [Ho _].
    destruct o; apply agree_put; try apply agree_set_tape; auto; right; exact Ho.
Qed.

Lemma hist_on_first t a b : (a = None \/ a = Some t) -> (b = None \/ b = Some t) ->
  first_hist a b = None \/ first_hist a b = Some t.
Proof. intros [->| ->] [->| ->]; cbn; auto. Qed.

(* the records held by registers on which two machines agree *)
Lemma get_recs_agree (st1 st2 : state) (P : nat -> bool) : (forall r, P r = true -> get st2 r = get st1 r) ->
  forall rs, forallb P rs = true -> get_recs st2 rs = get_recs st1 rs.
Proof.
  intros H. induction rs as [|a rs IH]; cbn [forallb get_recs]; [reflexivity|].
  intros Q. apply andb_true_iff in Q as [Qa Qr]. rewrite (H a Qa), (IH Qr). reflexivity.
Qed.

Lemma get_recs_hist (st : state) t : forall rs xs, (forall r, In r rs -> hist_on t (get st r)) ->
  get_recs st rs = Some xs -> Forall (fun x : rec => r_hist x = None \/ r_hist x = Some t) xs.
Proof.
  induction rs as [|a rs IH]; intros xs H; cbn [get_recs].
  - intros E; inversion E; constructor.
  - pose proof (H a (or_introl eq_refl)) as Ha. destruct (get st a) as [x| |]; try discriminate.
    destruct (get_recs st rs) as [l|] eqn:El; [|discriminate]. intros E; inversion E; subst.
    constructor; [exact Ha|]. apply IH; [|reflexivity]. intros r Hr. apply H. right. exact Hr.
Qed.

Lemma sum_hist_on t (xs : list rec) : Forall (fun x : rec => r_hist x = None \/ r_hist x = Some t) xs ->
  sum_hist xs = None \/ sum_hist xs = Some t.
Proof.
  induction 1 as [|x xs Hx _ IH]; cbn [sum_hist fold_right]; [left; reflexivity|].
  fold (sum_hist xs). destruct Hx as [-> | ->]; cbn [first_hist]; [exact IH|right; reflexivity].
Qed.

Lemma step_agree S t (st1 st2 : state) o st1' v : agree S t st1 st2 -> local_op S t o = true ->
  step ops st1 o = Some (st1', v) ->
  exists st2', step ops st2 o = Some (st2', v) /\ agree (next S o v) t st1' st2'.
Proof.
  intros Ag Hl Hs. pose proof Ag as [(tp & T1 & T2) A].
  unfold local_op in Hl. apply andb_true_iff in Hl as [Hon Hr].
  assert (SK : forall r, skipped st1 = Some r -> exists st2', skipped st2 = Some (st2', snd r) /\ agree S t (fst r) st2').
  { intros r E. inversion E; subst. eexists. split; [reflexivity|exact Ag]. }
  destruct o as [|dst t' x|dst x|dst t' tensor sh data|dst tensor sh data|dst assign code c a|dst mode code a b|dst a b
                 |a elem|t'|a|t'|dst rs]; cbn [step next dst_of reads on_list forallb] in *; try discriminate Hon.
  - apply Nat.eqb_eq in Hon. subst t'.
    destruct (fo_agree true S t st1 st2 dst _ _ _ _ Ag (or_intror eq_refl) (spec_var t x) Hs) as (st2' & E2 & Ag').
    exists st2'. split; [exact E2|]. destruct v; exact Ag'.
  - inversion Hs; subst. eexists. split; [reflexivity|]. apply agree_put; [exact Ag|left; reflexivity].
  - apply Nat.eqb_eq in Hon. subst t'.
    destruct (negb (shape_valid sh (length data)) || negb (tensor || Nat.eqb (length sh) 2)) eqn:Ev; [discriminate|].
    pose proof Ev as Ev'. apply orb_false_iff in Ev' as [Ev' _]. apply negb_false_iff in Ev'.
    unfold shape_valid in Ev'. apply andb_true_iff in Ev' as [_ Ev']. apply Nat.eqb_eq in Ev'.
    destruct (fo_agree true S t st1 st2 dst _ _ _ _ Ag (or_intror eq_refl)
                (spec_cvar t tensor sh data (eq_sym Ev')) Hs) as (st2' & E2 & Ag').
    exists st2'. split; [exact E2|]. destruct v; exact Ag'.
  - destruct (_ || _); [discriminate|]. inversion Hs; subst. eexists. split; [reflexivity|].
    apply agree_put; [exact Ag|left; reflexivity].
  - apply andb_true_iff in Hr as [Ha _]. destruct (A a Ha) as [Ga Oa]. rewrite <- Ga.
    destruct (negb (un_code_ok ops code c)); [discriminate|]. destruct (get st1 a) as [x|x|] eqn:Eg.
    + destruct (fo_agree true S t st1 st2 dst _ _ _ _ Ag Oa (spec_rec_un code c x) Hs) as (st2' & E2 & Ag').
      exists st2'. split; [exact E2|]. destruct v; exact Ag'.
    + destruct (fo_agree true S t st1 st2 dst _ _ _ _ Ag Oa (spec_cont_un assign code c x) Hs) as (st2' & E2 & Ag').
      exists st2'. split; [exact E2|]. destruct v; exact Ag'.
    + destruct (SK _ Hs) as (st2' & E2 & Ag'). exists st2'. split; [exact E2|]. inversion Hs; subst. exact Ag'.
  - apply andb_true_iff in Hr as [Ha Hr]. apply andb_true_iff in Hr as [Hb _].
    destruct (A a Ha) as [Ga Oa]. destruct (A b Hb) as [Gb Ob]. rewrite <- Ga, <- Gb.
    destruct (binfn_of ops code) as [f|]; [|discriminate].
    destruct (get st1 a) as [x|x|] eqn:Ega, (get st1 b) as [y|y|] eqn:Egb;
      try (destruct (SK _ Hs) as (st2' & E2 & Ag'); exists st2'; split; [exact E2|]; inversion Hs; subst; exact Ag').
    + destruct (fo_agree true S t st1 st2 dst _ _ _ _ Ag (hist_on_first t _ _ Oa Ob) (spec_rec_bin f x y) Hs)
        as (st2' & E2 & Ag'). exists st2'. split; [exact E2|]. destruct v; exact Ag'.
    + destruct (negb (Bool.eqb (c_tensor x) (c_tensor y))).
      * destruct (SK _ Hs) as (st2' & E2 & Ag'). exists st2'. split; [exact E2|]. inversion Hs; subst. exact Ag'.
      * destruct (_ || _); [discriminate|].
        assert (Hh : (if Nat.eqb mode 3 then first_hist (c_hist y) (c_hist x) else first_hist (c_hist x) (c_hist y)) = None \/
                     (if Nat.eqb mode 3 then first_hist (c_hist y) (c_hist x) else first_hist (c_hist x) (c_hist y)) = Some t).
        { destruct (Nat.eqb mode 3); apply hist_on_first; assumption. }
        destruct (fo_agree true S t st1 st2 dst _ _ _ _ Ag Hh (spec_cont_bin mode f x y) Hs) as (st2' & E2 & Ag').
        exists st2'. split; [exact E2|]. destruct v; exact Ag'.
  - apply andb_true_iff in Hr as [Ha Hr]. apply andb_true_iff in Hr as [Hb _].
    destruct (A a Ha) as [Ga Oa]. destruct (A b Hb) as [Gb Ob]. rewrite <- Ga, <- Gb.
    destruct (get st1 a) as [x|x|] eqn:Ega, (get st1 b) as [y|y|] eqn:Egb;
      try (destruct (SK _ Hs) as (st2' & E2 & Ag'); exists st2'; split; [exact E2|]; inversion Hs; subst; exact Ag').
    destruct (negb (Bool.eqb (c_tensor x) (c_tensor y))).
    + destruct (SK _ Hs) as (st2' & E2 & Ag'). exists st2'. split; [exact E2|]. inversion Hs; subst. exact Ag'.
    + destruct (_ || _); [discriminate|].
      destruct (fo_agree false S t st1 st2 dst _ _ _ _ Ag (hist_on_first t _ _ Oa Ob) (spec_matmul x y) Hs)
        as (st2' & E2 & Ag'). exists st2'. split; [exact E2|]. destruct v; exact Ag'.
  - apply andb_true_iff in Hr as [Ha _]. destruct (A a Ha) as [Ga Oa]. rewrite <- Ga.
    destruct (get st1 a) as [x|x|] eqn:Eg; unfold hist_on in Oa; cbn [obj_hist] in Oa.
    + destruct (r_hist x) as [t0|] eqn:Eh.
      * assert (t0 = t) by (destruct Oa as [Oa|Oa]; congruence). subst t0.
        rewrite T1 in Hs. rewrite T2. inversion Hs; subst. eexists. split; [reflexivity|].
        destruct (derivs_checked ops tp (r_idx x)); exact Ag.
      * inversion Hs; subst. eexists. split; [reflexivity|exact Ag].
    + destruct (nth_error (c_data x) elem) as [p|]; [|inversion Hs; subst; eexists; split; [reflexivity|exact Ag]].
      destruct (c_hist x) as [t0|] eqn:Eh.
      * assert (t0 = t) by (destruct Oa as [Oa|Oa]; congruence). subst t0.
        rewrite T1 in Hs. rewrite T2. inversion Hs; subst. eexists. split; [reflexivity|].
        destruct (derivs_checked ops tp (snd p)); exact Ag.
      * inversion Hs; subst. eexists. split; [reflexivity|exact Ag].
    + destruct (SK _ Hs) as (st2' & E2 & Ag'). exists st2'. split; [exact E2|]. inversion Hs; subst. exact Ag'.
  - apply Nat.eqb_eq in Hon. subst t'. rewrite T1 in Hs. rewrite T2. inversion Hs; subst.
    eexists. split; [reflexivity|]. apply agree_set_tape. exact Ag.
  - apply andb_true_iff in Hr as [Ha _]. destruct (A a Ha) as [Ga Oa]. rewrite <- Ga.
    assert (K : forall o, get st1 a = o -> hist_on t o ->
              match obj_hist o with
              | None => Some (st1, Ok (VIdx []))
              | Some t0 => match tape_of st1 t0 with
                           | None => None
                           | Some tp0 => let '(tp', o', idx) := obj_reset ops tp0 o in
                                         Some (put (set_tape st1 t0 tp') a o', Ok (VIdx idx))
                           end
              end = Some (st1', v) ->
              exists st2', match obj_hist o with
              | None => Some (st2, Ok (VIdx []))
              | Some t0 => match tape_of st2 t0 with
                           | None => None
                           | Some tp0 => let '(tp', o', idx) := obj_reset ops tp0 o in
                                         Some (put (set_tape st2 t0 tp') a o', Ok (VIdx idx))
                           end
              end = Some (st2', v) /\ agree (match v with Ok _ => add S a | _ => S end) t st1' st2').
    { intros o _ [Ho|Ho]; rewrite Ho.
      - intros E; inversion E; subst. eexists. split; [reflexivity|].
        eapply agree_sub; [|exact Ag]. intros r Hr'. unfold add in Hr'.
        destruct (Nat.eqb_spec r a); [subst; exact Ha|exact Hr'].
      - rewrite T1, T2. destruct (obj_reset ops tp o) as [[tp' o'] idx] eqn:Er. intros E; inversion E; subst.
        eexists. split; [reflexivity|]. destruct (obj_reset_fresh _ _ _ _ _ Er) as (suf & _ & _ & _ & Hh).
        apply agree_put; [apply agree_set_tape; exact Ag|]. right. rewrite Hh. exact Ho. }
    destruct (get st1 a) as [x|x|] eqn:Eg.
    + destruct (K (ORec x) eq_refl Oa Hs) as (st2' & E2 & Ag'). exists st2'. split; [exact E2|]. destruct v; exact Ag'.
    + destruct (K (OCont x) eq_refl Oa Hs) as (st2' & E2 & Ag'). exists st2'. split; [exact E2|]. destruct v; exact Ag'.
    + destruct (SK _ Hs) as (st2' & E2 & Ag'). exists st2'. split; [exact E2|]. inversion Hs; subst. exact Ag'.
  - rewrite (get_recs_agree st1 st2 S (fun r Hq => eq_sym (proj1 (A r Hq))) rs Hr).
    destruct (get_recs st1 rs) as [xs|] eqn:Eg;
      [|destruct (SK _ Hs) as (st2' & E2 & Ag'); exists st2'; split; [exact E2|]; inversion Hs; subst; exact Ag'].
    assert (Hx : Forall (fun x : rec => r_hist x = None \/ r_hist x = Some t) xs).
    { eapply get_recs_hist; [|exact Eg]. intros r Hin. apply (A r). rewrite forallb_forall in Hr. apply Hr, Hin. }
    unfold sum_on in *. destruct (sum_hist_on t xs Hx) as [E0|E0]; rewrite E0 in *.
    + destruct (sum_fold ops [] (rec_constant (nzero ops)) xs) as [tp' [z|e|]] eqn:Ef; cbn [fst snd sum_finish] in *;
        inversion Hs; subst; (eexists; split; [reflexivity|]); try exact Ag.
      destruct (sum_fold_fresh ops _ _ _ _ _ Ef) as (suf0 & _ & _ & _ & Hz).
      apply agree_put; [exact Ag|]. left. destruct (Hz z eq_refl) as (H1 & _). cbn [obj_hist]. rewrite H1.
      cbn [rec_constant r_hist first_hist]. exact E0.
    + rewrite T1 in Hs. rewrite T2.
      destruct (sum_fold ops tp (rec_constant (nzero ops)) xs) as [tp' [z|e|]] eqn:Ef; cbn [fst snd sum_finish] in *;
        inversion Hs; subst; (eexists; split; [reflexivity|]); try (apply agree_set_tape; exact Ag).
      destruct (sum_fold_fresh ops _ _ _ _ _ Ef) as (suf0 & _ & _ & _ & Hz).
      apply agree_put; [apply agree_set_tape; exact Ag|]. right. destruct (Hz z eq_refl) as (H1 & _). cbn [obj_hist].
      rewrite H1. cbn [rec_constant r_hist first_hist]. exact E0.
Qed.

Fixpoint run_set (S : nat -> bool) (st : state) (script : list (@tm_op R)) : nat -> bool :=
  match script with
  | [] => S
  | o :: r => match step ops st o with
              | Some (st', v) => run_set (next S o v) st' r
              | None => S
              end
  end.

(* a script is local to (S, t): along its run on st, every operation only reads registers that
   are in S or were written by an earlier successful operation, and only names list t *)
Fixpoint local_run (S : nat -> bool) (t : nat) (st : state) (script : list (@tm_op R)) : Prop :=
  match script with
  | [] => True
  | o :: r => local_op S t o = true /\
              match step ops st o with
              | Some (st', v) => local_run (next S o v) t st' r
              | None => True
              end
  end.

Lemma next_mono S o v r : S r = true -> next S o v r = true.
Proof.
  intros H. unfold next. destruct v; try exact H. destruct (dst_of o); [|exact H].
  unfold add. rewrite H. apply orb_true_r.
Qed.

Lemma run_set_mono : forall script S st r, S r = true -> run_set S st script r = true.
Proof.
  induction script as [|o rest IH]; intros S st r H; cbn [run_set]; [exact H|].
  destruct (step ops st o) as [[st' v]|]; [|exact H]. apply IH. apply next_mono. exact H.
Qed.

Lemma run_agree t : forall script S (st1 st2 : state) st1' vs, agree S t st1 st2 -> local_run S t st1 script ->
  tm_run ops st1 script = Some (st1', vs) ->
  exists st2', tm_run ops st2 script = Some (st2', vs) /\ agree (run_set S st1 script) t st1' st2'.
Proof.
  induction script as [|o rest IH]; intros S st1 st2 st1' vs Ag Hl; cbn [tm_run run_set].
  - intros E; inversion E; subst. eexists. split; [reflexivity|exact Ag].
  - cbn [local_run] in Hl. destruct Hl as [Hop Hl].
    destruct (step ops st1 o) as [[sa v]|] eqn:Es; [|discriminate].
    destruct (step_agree _ _ _ _ _ _ _ Ag Hop Es) as (sb & Es2 & Ag'). rewrite Es2.
    destruct (tm_run ops sa rest) as [[sf vr]|] eqn:Er; [|discriminate]. intros E; inversion E; subst.
    destruct (IH _ _ _ _ _ Ag' Hl Er) as (sf2 & Er2 & Agf). rewrite Er2. eexists. split; [reflexivity|exact Agf].
Qed.

(* re-creating the inputs is a local script, and it puts every input register into the set *)
Lemma recreate_ok (st0 : state) t a o st' v : step ops st0 (recreate ops t a o) = Some (st', v) ->
  (exists w, v = Ok w) /\ dst_of (recreate ops t a o) = Some a /\ forall S, local_op S t (recreate ops t a o) = true.
Proof.
  destruct o as [r|c|]; cbn [recreate step dst_of].
  - unfold on_tape. destruct (tape_of st0 t); [|discriminate]. cbn. intros E; inversion E; subst.
    split; [eauto|]. split; [reflexivity|]. intros S. unfold local_op. cbn. rewrite Nat.eqb_refl. reflexivity.
  - destruct (_ || _); [discriminate|]. unfold on_tape. destruct (tape_of st0 t); [|discriminate]. cbn.
    intros E; inversion E; subst. split; [eauto|]. split; [reflexivity|]. intros S. unfold local_op. cbn.
    rewrite Nat.eqb_refl. reflexivity.
  - intros E; inversion E; subst. split; [eauto|]. split; [reflexivity|]. intros S. reflexivity.
Qed.

Lemma recreate_script t (g : nat -> obj) : forall ins S (st0 : state) st1 vs,
  tm_run ops st0 (map (fun a => recreate ops t a (g a)) ins) = Some (st1, vs) ->
  local_run S t st0 (map (fun a => recreate ops t a (g a)) ins) /\
  forall a, In a ins -> run_set S st0 (map (fun a => recreate ops t a (g a)) ins) a = true.
Proof.
  induction ins as [|a r IH]; intros S st0 st1 vs; cbn [map tm_run local_run run_set].
  - intros _. split; [exact I|intros ? []].
  - destruct (step ops st0 (recreate ops t a (g a))) as [[sa v]|] eqn:Es; [|discriminate].
    destruct (recreate_ok _ _ _ _ _ _ Es) as ([w ->] & Hd & Hloc).
    destruct (tm_run ops sa (map (fun a0 => recreate ops t a0 (g a0)) r)) as [[sf vr]|] eqn:Er; [|discriminate].
    intros _. destruct (IH (next S (recreate ops t a (g a)) (Ok w)) _ _ _ Er) as [L Sx]. split; [split; [apply Hloc|exact L]|].
    intros b [<-|Hb]; [|apply Sx; exact Hb]. apply run_set_mono. unfold next. rewrite Hd. unfold add.
    rewrite Nat.eqb_refl. reflexivity.
Qed.

Definition mem (ins : list nat) : nat -> bool := fun r => existsb (Nat.eqb r) ins.

(* C15_cycle_equiv.  From ANY machine state (any history, any number of earlier cycles):
   after "clear list t; reset the inputs", a script P that is local to the inputs and list t
   returns, step by step, exactly the results it returns on a brand-new machine (t + 1 empty
   lists, no registers) on which the inputs are created as new variables / variables
   containers with the same numbers. *)
Theorem cycle_equiv (st : state) t ins P st1 vs1 stf res :
  NoDup ins -> (forall a, In a ins -> input_ok t (get st a)) ->
  tm_run ops st (TClear t :: map TReset ins) = Some (st1, vs1) ->
  local_run (mem ins) t st1 P ->
  tm_run ops st1 P = Some (stf, res) ->
  exists st2 vs2 stf2,
    tm_run ops (init (S t)) (map (fun a => recreate ops t a (get st a)) ins) = Some (st2, vs2) /\
    tm_run ops st2 P = Some (stf2, res).
Proof.
  intros Hnd Hin Hc Hl Hp.
  destruct (cycle_is_fresh_start ops st t ins st1 vs1 Hnd Hin Hc) as [vs' Hf].
  cbn [tm_run] in Hf. destruct (step ops st (TClear t)) as [[st0 v0]|] eqn:E0; [|discriminate].
  destruct (tm_run ops st0 (map (fun a => recreate ops t a (get st a)) ins)) as [[sx vx]|] eqn:E1; [|discriminate].
  inversion Hf; subst sx vs'; clear Hf.
  assert (Ag0 : agree (fun _ => false) t st0 (init (S t))).
  { split; [|intros r Hr; discriminate]. exists []. split.
    - revert E0. cbn [step]. destruct (tape_of st t) as [tp|] eqn:Et; [|discriminate]. intros E; inversion E; subst.
      rewrite (tape_of_set_tape st t tp _ t Et), Nat.eqb_refl. reflexivity.
    - unfold tape_of, init. cbn [tapes]. apply nth_error_repeat. lia. }
  destruct (recreate_script t (get st) ins (fun _ => false) st0 st1 vx E1) as [Lr Sr].
  destruct (run_agree t _ _ _ _ _ _ Ag0 Lr E1) as (st2 & E2 & Ag1).
  assert (Ag2 : agree (mem ins) t st1 st2).
  { eapply agree_sub; [|exact Ag1]. intros r Hr. unfold mem in Hr. apply existsb_exists in Hr as (a & Ha & Hra).
    apply Nat.eqb_eq in Hra. subst r. apply Sr. exact Ha. }
  destruct (run_agree t _ _ _ _ _ _ Ag2 Hl Hp) as (stf2 & E3 & _).
  exists st2, vx, stf2. split; [exact E2|exact E3].
Qed.

End C15Q.
