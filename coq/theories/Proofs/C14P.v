(* C14 — specification and proofs for Model/Stats.v.
   Part 1 (Section FieldStats): over ANY commutative field (the dictionary `ops` with the field
   laws as hypothesis, division total) mean / variance / covariance are the population
   statistics, the covariance matrix is symmetric, has the variances on its diagonal, the
   documented shape, and the three entry points agree under transposition; f1 is the harmonic
   mean.
   Part 2 (Section OrderedSoftmax): over any ordered field with an `exp` oracle that is positive
   and strictly increasing: softmax has the input's length, is strictly positive, sums to one,
   preserves order and is invariant under shifting every input. *)
From Coq Require Import List Arith Lia Ring Field Bool NArith.
From EasyML Require Import Base.Sx Model.Num Model.Stats.
Import ListNotations.

(* the field laws for a dictionary; inverse is 1 / x *)
Definition ninv {R} (ops : numops R) (x : R) : R := ndiv ops (none_ ops) x.
Definition is_field {R} (ops : numops R) : Prop :=
  field_theory (nzero ops) (none_ ops) (nadd ops) (nmul ops) (nsub ops) (nneg ops) (ndiv ops)
               (ninv ops) (@eq R).

(* ---- the short specification ---- *)
Section Spec.
Context {R : Type} (ops : numops R).
(* Σ l *)
Definition sumR (l : list R) : R := fold_right (nadd ops) (nzero ops) l.
(* the number n as a field element: 1 + ... + 1 *)
Fixpoint natR (n : nat) : R :=
  match n with O => nzero ops | S k => nadd ops (natR k) (none_ ops) end.
(* population mean  Σx / N *)
Definition mean_spec (l : list R) : R := ndiv ops (sumR l) (natR (length l)).
(* population covariance of two equally long feature vectors:  Σ (x - μx)(y - μy) / N *)
Definition cov_spec (xs ys : list R) : R :=
  ndiv ops
    (sumR (map (fun xy => nmul ops (nsub ops (fst xy) (mean_spec xs)) (nsub ops (snd xy) (mean_spec ys)))
               (combine xs ys)))
    (natR (length xs)).
(* population variance  Σ (x - μ)² / N *)
Definition var_spec (l : list R) : R :=
  ndiv ops (sumR (map (fun x => nmul ops (nsub ops x (mean_spec l)) (nsub ops x (mean_spec l))) l))
       (natR (length l)).

(* a well-formed r x c matrix (list of rows) *)
Definition wf_mat (m : list (list R)) (r c : nat) : Prop :=
  length m = r /\ Forall (fun row => length row = c) m.
(* entry (i, j) *)
Definition entry (m : list (list R)) (i j : nat) : R := nth j (nth i m []) (nzero ops).
(* the transposed c x r matrix of an r x c matrix *)
Definition transpose (c : nat) (m : list (list R)) : list (list R) :=
  map (fun j => column_iter ops m j) (seq 0 c).
End Spec.

Section FieldStats.
Context {R : Type} (ops : numops R).
Hypothesis Fth : is_field ops.
(* FromUsize::from_usize yields the number itself (true of Rat, Fp, the reals, f64 up to 2^53) *)
Hypothesis Hfrom : forall n : N, nof_N ops n = Some (natR ops (N.to_nat n)).

Let Fth' : field_theory (nzero ops) (none_ ops) (nadd ops) (nmul ops) (nsub ops) (nneg ops)
             (ndiv ops) (ninv ops) (@eq R) := Fth.
Add Field Ffield : Fth'.

Implicit Types m C : list (list R).
Implicit Types l xs ys : list R.

Notation rO := (nzero ops).
Notation rI := (none_ ops).
Notation "x [+] y" := (nadd ops x y) (at level 50, left associativity).
Notation "x [-] y" := (nsub ops x y) (at level 50, left associativity).
Notation "x [*] y" := (nmul ops x y) (at level 40, left associativity).
Notation "x [/] y" := (ndiv ops x y) (at level 40, left associativity).

Lemma div_def a b : a [/] b = a [*] ninv ops b.
Proof. apply (Fdiv_def Fth). Qed.

(* ---- sums ---- *)
Lemma fold_left_add l a : fold_left (nadd ops) l a = a [+] sumR ops l.
Proof.
  revert a; induction l as [|x l IH]; intros a; simpl.
  - ring.
  - rewrite IH. ring.
Qed.

Lemma isum_spec l : isum ops l = sumR ops l.
Proof. unfold isum. rewrite fold_left_add. ring. Qed.

Lemma sumR_app l1 l2 : sumR ops (l1 ++ l2) = sumR ops l1 [+] sumR ops l2.
Proof. induction l1; simpl; [ring | rewrite IHl1; ring]. Qed.

Lemma sumR_map_div (f : R -> R) d l :
  sumR ops (map (fun x => f x [/] d) l) = sumR ops (map f l) [/] d.
Proof.
  induction l as [|x l IH]; simpl.
  - rewrite div_def. ring.
  - rewrite IH. rewrite !div_def. ring.
Qed.

(* ---- mean ---- *)
Lemma mean_loop_spec l c s :
  mean_loop ops l c s = (c [+] natR ops (length l), s [+] sumR ops l).
Proof.
  revert c s; induction l as [|x l IH]; intros c s; simpl.
  - f_equal; ring.
  - rewrite IH. f_equal; ring.
Qed.

Lemma mean_correct l : l <> [] -> mean ops l = Ok (mean_spec ops l).
Proof.
  intros Hne. unfold mean, mean_spec. destruct l as [|x l]; [congruence|].
  rewrite mean_loop_spec. cbn [fst snd]. f_equal. f_equal; ring.
Qed.

Lemma mean_empty : mean ops [] = Panic.
Proof. reflexivity. Qed.

Lemma variance_correct l : l <> [] -> variance ops l = Ok (var_spec ops l).
Proof.
  intros Hne. unfold variance. destruct l as [|x l]; [congruence|].
  rewrite mean_correct by congruence. cbn [obind].
  rewrite mean_correct by (cbn [map]; congruence).
  unfold var_spec, mean_spec at 1. rewrite map_length. reflexivity.
Qed.

Lemma variance_empty : variance ops [] = Panic.
Proof. reflexivity. Qed.

(* ---- one covariance cell ---- *)
Lemma combine_map {A B A2 B2 : Type} (f : A -> A2) (g : B -> B2) (xs : list A) (ys : list B) :
  combine (map f xs) (map g ys) = map (fun xy => (f (fst xy), g (snd xy))) (combine xs ys).
Proof.
  revert ys; induction xs as [|x xs IH]; intros [|y ys]; simpl; auto. now rewrite IH.
Qed.

Lemma cov_cell_spec xs ys : length ys = length xs ->
  cov_cell ops (natR ops (length xs)) xs ys = cov_spec ops xs ys.
Proof.
  intros Hlen. unfold cov_cell, cov_spec, mean_spec. rewrite !isum_spec, combine_map, map_map.
  cbn [fst snd]. rewrite Hlen. reflexivity.
Qed.

Lemma sumR_combine_sym (f : R -> R -> R) xs ys :
  sumR ops (map (fun xy => f (fst xy) (snd xy)) (combine xs ys)) =
  sumR ops (map (fun yx => f (snd yx) (fst yx)) (combine ys xs)).
Proof.
  revert ys; induction xs as [|x xs IH]; intros [|y ys]; simpl; auto. now rewrite IH.
Qed.

Lemma cov_cell_sym s xs ys : cov_cell ops s xs ys = cov_cell ops s ys xs.
Proof.
  unfold cov_cell. rewrite !isum_spec, !combine_map, !map_map. cbn [fst snd].
  f_equal.
  rewrite (sumR_combine_sym (fun x y => (x [-] sumR ops xs [/] s) [*] (y [-] sumR ops ys [/] s)) xs ys).
  f_equal. apply map_ext. intros [a b]. cbn [fst snd]. ring.
Qed.

Lemma combine_diag (l : list R) : combine l l = map (fun x => (x, x)) l.
Proof. induction l; simpl; congruence. Qed.

Lemma cov_spec_diag l : cov_spec ops l l = var_spec ops l.
Proof. unfold cov_spec, var_spec. rewrite combine_diag, map_map. reflexivity. Qed.

(* ---- tables ---- *)
Lemma square_table_length n (cell : nat -> nat -> R) : length (square_table n cell) = n.
Proof. unfold square_table. now rewrite map_length, seq_length. Qed.

Lemma square_table_rows n (cell : nat -> nat -> R) :
  Forall (fun row => length row = n) (square_table n cell).
Proof.
  unfold square_table. apply Forall_forall. intros row Hin. apply in_map_iff in Hin.
  destruct Hin as [i [<- _]]. now rewrite map_length, seq_length.
Qed.

Lemma square_table_wf n (cell : nat -> nat -> R) : wf_mat (square_table n cell) n n.
Proof. split; [apply square_table_length | apply square_table_rows]. Qed.

Lemma nth_map_seq {A} (f : nat -> A) n i d : i < n -> nth i (map f (seq 0 n)) d = f i.
Proof.
  intros Hi. rewrite (nth_indep _ d (f 0)) by now rewrite map_length, seq_length.
  rewrite map_nth. now rewrite seq_nth.
Qed.

Lemma square_table_entry n (cell : nat -> nat -> R) i j : i < n -> j < n ->
  entry ops (square_table n cell) i j = cell i j.
Proof.
  intros Hi Hj. unfold entry, square_table. rewrite nth_map_seq by assumption.
  now rewrite nth_map_seq.
Qed.

Lemma square_table_ext n (f g : nat -> nat -> R) : (forall i j, i < n -> j < n -> f i j = g i j) ->
  square_table n f = square_table n g.
Proof.
  intros H. unfold square_table. apply map_ext_in. intros i Hi. apply in_seq in Hi.
  apply map_ext_in. intros j Hj. apply in_seq in Hj. apply H; lia.
Qed.

(* ---- rows and columns of well-formed matrices ---- *)
Lemma column_iter_length (m : list (list R)) j : length (column_iter ops m j) = length m.
Proof. unfold column_iter. apply map_length. Qed.

Lemma row_iter_length m r c i : wf_mat m r c -> i < r -> length (row_iter m i) = c.
Proof.
  intros [Hr Hc] Hi. unfold row_iter. rewrite Forall_forall in Hc. apply Hc. apply nth_In. lia.
Qed.

Lemma mcols_wf m r c : wf_mat m r c -> 0 < r -> mcols m = c.
Proof.
  intros [Hr Hc] Hpos. unfold mcols. destruct m as [|row m]; simpl in *; [lia|].
  now inversion Hc.
Qed.

Lemma mrows_wf m r c : wf_mat m r c -> mrows m = r.
Proof. now intros [Hr _]. Qed.

Lemma nth_column_iter m i j : i < length m ->
  nth i (column_iter ops m j) rO = entry ops m i j.
Proof.
  intros Hi. unfold column_iter, entry.
  rewrite (nth_indep _ rO ((fun row => nth j row rO) [])) by now rewrite map_length.
  exact (map_nth (fun row => nth j row rO) m [] i).
Qed.

Lemma list_as_nths (l : list R) : map (fun j => nth j l rO) (seq 0 (length l)) = l.
Proof.
  apply (nth_ext _ _ rO rO).
  - now rewrite map_length, seq_length.
  - intros n Hn. rewrite map_length, seq_length in Hn. now rewrite nth_map_seq.
Qed.

Lemma transpose_wf m r c : wf_mat m r c -> wf_mat (transpose ops c m) c r.
Proof.
  intros [Hr Hc]. unfold transpose. split.
  - now rewrite map_length, seq_length.
  - apply Forall_forall. intros row Hin. apply in_map_iff in Hin. destruct Hin as [j [<- _]].
    now rewrite column_iter_length.
Qed.

Lemma transpose_row m c j : j < c -> row_iter (transpose ops c m) j = column_iter ops m j.
Proof. intros Hj. unfold row_iter, transpose. now rewrite nth_map_seq. Qed.

Lemma transpose_column m r c i : wf_mat m r c -> i < r ->
  column_iter ops (transpose ops c m) i = row_iter m i.
Proof.
  intros Hwf Hi. unfold transpose. unfold column_iter at 1. rewrite map_map.
  rewrite <- (list_as_nths (row_iter m i)). rewrite (row_iter_length m r c) by assumption.
  apply map_ext_in. intros j Hj. destruct Hwf as [Hr _].
  rewrite nth_column_iter by lia. reflexivity.
Qed.

Lemma transpose_entry m r c i j : wf_mat m r c -> i < r -> j < c ->
  entry ops (transpose ops c m) j i = entry ops m i j.
Proof.
  intros [Hr _] Hi Hj. unfold entry at 1. fold (row_iter (transpose ops c m) j).
  rewrite transpose_row by assumption. apply nth_column_iter. lia.
Qed.

(* ---- the three covariance entry points ---- *)
Lemma from_nat n : nof_N ops (N.of_nat n) = Some (natR ops n).
Proof. rewrite Hfrom. now rewrite Nnat.Nat2N.id. Qed.

(* column features: entry (i, j) is the population covariance of columns i and j *)
Lemma cov_columns_correct m r c : wf_mat m r c -> 0 < r ->
  exists C, covariance_column_features ops m = Ok C /\ wf_mat C c c /\
    forall i j, i < c -> j < c ->
      entry ops C i j = cov_spec ops (column_iter ops m i) (column_iter ops m j).
Proof.
  intros Hwf Hr. unfold covariance_column_features. rewrite from_nat.
  rewrite (mcols_wf m r c Hwf Hr), (mrows_wf m r c Hwf).
  eexists; split; [reflexivity|]. split; [apply square_table_wf|].
  intros i j Hi Hj. rewrite square_table_entry by assumption.
  destruct Hwf as [Hlen _].
  rewrite <- Hlen at 1. rewrite <- (column_iter_length m i).
  apply cov_cell_spec. now rewrite !column_iter_length.
Qed.

(* row features: entry (i, j) is the population covariance of rows i and j *)
Lemma cov_rows_correct m r c : wf_mat m r c -> 0 < r ->
  exists C, covariance_row_features ops m = Ok C /\ wf_mat C r r /\
    forall i j, i < r -> j < r ->
      entry ops C i j = cov_spec ops (row_iter m i) (row_iter m j).
Proof.
  intros Hwf Hr. unfold covariance_row_features. rewrite from_nat.
  rewrite (mcols_wf m r c Hwf Hr), (mrows_wf m r c Hwf).
  eexists; split; [reflexivity|]. split; [apply square_table_wf|].
  intros i j Hi Hj. rewrite square_table_entry by assumption.
  rewrite <- (row_iter_length m r c i Hwf Hi) at 1.
  apply cov_cell_spec. now rewrite !(row_iter_length m r c).
Qed.

Lemma cov_rows_transpose m r c : wf_mat m r c -> 0 < r -> 0 < c ->
  covariance_row_features ops m = covariance_column_features ops (transpose ops c m) /\
  covariance_column_features ops m = covariance_row_features ops (transpose ops c m).
Proof.
  intros Hwf Hr Hc. pose proof (transpose_wf m r c Hwf) as Hwt.
  unfold covariance_row_features, covariance_column_features.
  rewrite (mcols_wf _ _ _ Hwf Hr), (mrows_wf _ _ _ Hwf), (mcols_wf _ _ _ Hwt Hc), (mrows_wf _ _ _ Hwt).
  rewrite !from_nat. split; f_equal; apply square_table_ext; intros i j Hi Hj.
  - now rewrite !(transpose_column m r c).
  - now rewrite !transpose_row.
Qed.

(* the named-dimension route *)
Lemma cov_named_first n0 n1 m :
  covariance ops (n0, n1) m n0 =
  omap (fun C => ((name_i, N.of_nat (mrows m)), (name_j, N.of_nat (mrows m)), C))
       (covariance_row_features ops m).
Proof.
  unfold covariance, covariance_row_features. cbn [fst snd]. rewrite Nat.eqb_refl.
  destruct (nof_N ops (N.of_nat (mcols m))); reflexivity.
Qed.

Lemma cov_named_second n0 n1 m : n0 <> n1 ->
  covariance ops (n0, n1) m n1 =
  omap (fun C => ((name_i, N.of_nat (mcols m)), (name_j, N.of_nat (mcols m)), C))
       (covariance_column_features ops m).
Proof.
  intros Hne. unfold covariance, covariance_column_features. cbn [fst snd].
  apply Nat.eqb_neq in Hne. rewrite Hne, Nat.eqb_refl.
  destruct (nof_N ops (N.of_nat (mrows m))); reflexivity.
Qed.

Lemma cov_named_foreign n0 n1 m fd : fd <> n0 -> fd <> n1 -> covariance ops (n0, n1) m fd = Panic.
Proof.
  intros H0 H1. unfold covariance. cbn [fst snd].
  assert (E0 : Nat.eqb n0 fd = false) by (apply Nat.eqb_neq; congruence).
  assert (E1 : Nat.eqb n1 fd = false) by (apply Nat.eqb_neq; congruence).
  now rewrite E0, E1.
Qed.

(* ---- packaged statements used by Properties/C14.v ---- *)
Theorem cov_entry m r c : wf_mat m r c -> 0 < r -> 0 < c ->
  (exists C, covariance_column_features ops m = Ok C /\
     forall i j, i < c -> j < c ->
       entry ops C i j = cov_spec ops (column_iter ops m i) (column_iter ops m j)) /\
  (exists C, covariance_row_features ops m = Ok C /\
     forall i j, i < r -> j < r -> entry ops C i j = cov_spec ops (row_iter m i) (row_iter m j)).
Proof.
  intros Hwf Hr Hc. split.
  - destruct (cov_columns_correct m r c Hwf Hr) as [C [E [_ H]]]. eauto.
  - destruct (cov_rows_correct m r c Hwf Hr) as [C [E [_ H]]]. eauto.
Qed.

Theorem cov_symmetric m C :
  (covariance_column_features ops m = Ok C \/ covariance_row_features ops m = Ok C \/
   exists names fd d0 d1, covariance ops names m fd = Ok (d0, d1, C)) ->
  forall i j, i < length C -> j < length C -> entry ops C i j = entry ops C j i.
Proof.
  intros H.
  assert (Hsq : exists n s (it : nat -> list R),
             C = square_table n (fun i j => cov_cell ops s (it i) (it j))).
  { destruct H as [H | [H | [names [fd [d0 [d1 H]]]]]].
    - unfold covariance_column_features in H. destruct (nof_N ops _); inversion H. eauto.
    - unfold covariance_row_features in H. destruct (nof_N ops _); inversion H. eauto.
    - unfold covariance in H.
      destruct (if Nat.eqb (fst names) fd then Some 0 else if Nat.eqb (snd names) fd then Some 1 else None)
        as [fi|]; [|discriminate].
      destruct (nof_N ops _); inversion H. eauto. }
  destruct Hsq as [n [s [it ->]]]. rewrite square_table_length. intros i j Hi Hj.
  rewrite !square_table_entry by assumption. apply cov_cell_sym.
Qed.

Theorem cov_diag_is_variance m r c : wf_mat m r c -> 0 < r -> 0 < c ->
  (exists C, covariance_column_features ops m = Ok C /\
     forall i, i < c -> variance ops (column_iter ops m i) = Ok (entry ops C i i)) /\
  (exists C, covariance_row_features ops m = Ok C /\
     forall i, i < r -> variance ops (row_iter m i) = Ok (entry ops C i i)).
Proof.
  intros Hwf Hr Hc. split.
  - destruct (cov_columns_correct m r c Hwf Hr) as [C [E [_ H]]]. exists C. split; [exact E|].
    intros i Hi. rewrite H by assumption. rewrite cov_spec_diag. apply variance_correct.
    intros Hnil. apply (f_equal (@length R)) in Hnil. rewrite column_iter_length in Hnil.
    destruct Hwf as [Hlen _]. simpl in Hnil. lia.
  - destruct (cov_rows_correct m r c Hwf Hr) as [C [E [_ H]]]. exists C. split; [exact E|].
    intros i Hi. rewrite H by assumption. rewrite cov_spec_diag. apply variance_correct.
    intros Hnil. apply (f_equal (@length R)) in Hnil.
    rewrite (row_iter_length m r c i Hwf Hi) in Hnil. simpl in Hnil. lia.
Qed.

Theorem cov_shape m r c n0 n1 : wf_mat m r c -> 0 < r -> 0 < c -> n0 <> n1 ->
  (exists C, covariance_column_features ops m = Ok C /\ wf_mat C c c) /\
  (exists C, covariance_row_features ops m = Ok C /\ wf_mat C r r) /\
  (exists C, covariance ops (n0, n1) m n0 =
               Ok ((name_i, N.of_nat r), (name_j, N.of_nat r), C) /\ wf_mat C r r) /\
  (exists C, covariance ops (n0, n1) m n1 =
               Ok ((name_i, N.of_nat c), (name_j, N.of_nat c), C) /\ wf_mat C c c) /\
  (forall fd, fd <> n0 -> fd <> n1 -> covariance ops (n0, n1) m fd = Panic).
Proof.
  intros Hwf Hr Hc Hne.
  destruct (cov_columns_correct m r c Hwf Hr) as [C1 [E1 [W1 _]]].
  destruct (cov_rows_correct m r c Hwf Hr) as [C2 [E2 [W2 _]]].
  split; [eauto|]. split; [eauto|]. split; [|split].
  - exists C2. rewrite cov_named_first, E2. cbn [omap]. rewrite (mrows_wf _ _ _ Hwf). auto.
  - exists C1. rewrite cov_named_second by assumption. rewrite E1. cbn [omap].
    rewrite (mcols_wf _ _ _ Hwf Hr). auto.
  - intros fd. apply cov_named_foreign.
Qed.

Theorem cov_entry_points_agree m r c n0 n1 : wf_mat m r c -> 0 < r -> 0 < c -> n0 <> n1 ->
  covariance_row_features ops m = covariance_column_features ops (transpose ops c m) /\
  covariance_column_features ops m = covariance_row_features ops (transpose ops c m) /\
  covariance ops (n0, n1) m n0 =
    omap (fun C => ((name_i, N.of_nat r), (name_j, N.of_nat r), C)) (covariance_row_features ops m) /\
  covariance ops (n0, n1) m n1 =
    omap (fun C => ((name_i, N.of_nat c), (name_j, N.of_nat c), C)) (covariance_column_features ops m) /\
  covariance ops (n0, n1) m n0 = covariance ops (n1, n0) (transpose ops c m) n0 /\
  covariance ops (n0, n1) m n1 = covariance ops (n1, n0) (transpose ops c m) n1.
Proof.
  intros Hwf Hr Hc Hne. pose proof (transpose_wf m r c Hwf) as Hwt.
  destruct (cov_rows_transpose m r c Hwf Hr Hc) as [T1 T2].
  split; [exact T1|]. split; [exact T2|].
  rewrite cov_named_first, (cov_named_second n0 n1) by assumption.
  rewrite (mrows_wf _ _ _ Hwf), (mcols_wf _ _ _ Hwf Hr).
  split; [reflexivity|]. split; [reflexivity|]. split.
  - rewrite (cov_named_second n1 n0) by congruence. rewrite (mcols_wf _ _ _ Hwt Hc). now rewrite T1.
  - rewrite cov_named_first. rewrite (mrows_wf _ _ _ Hwt). now rewrite T2.
Qed.

(* ---- f1 ---- *)
Theorem f1_harmonic p r :
  let two := rI [+] rI in
  f1_score ops p r = (two [*] p [*] r) [/] (p [+] r) /\
  (p <> rO -> r <> rO -> p [+] r <> rO ->
   f1_score ops p r = two [/] (rI [/] p [+] rI [/] r)).
Proof.
  cbv zeta. unfold f1_score. split.
  - rewrite !div_def. ring.
  - intros Hp Hr Hpr. field. repeat split; try assumption.
    replace (r [+] p) with (p [+] r) by ring. assumption.
Qed.

(* a zero precision or recall gives a zero score in ANY field, whatever x / 0 is (0 * 1/(p+r)) *)
Theorem f1_zero p r : p = rO \/ r = rO -> f1_score ops p r = rO.
Proof. intros H. unfold f1_score. rewrite div_def. destruct H as [-> | ->]; ring. Qed.

(* the named-dimension route stated directly: entry (i, j) is the population covariance of the
   two selected feature vectors (rows when the feature dimension is the first one, columns when
   it is the second) *)
Theorem cov_tensor_entry m r c n0 n1 : wf_mat m r c -> 0 < r -> 0 < c -> n0 <> n1 ->
  (exists C, covariance ops (n0, n1) m n0 = Ok ((name_i, N.of_nat r), (name_j, N.of_nat r), C) /\
     forall i j, i < r -> j < r -> entry ops C i j = cov_spec ops (row_iter m i) (row_iter m j)) /\
  (exists C, covariance ops (n0, n1) m n1 = Ok ((name_i, N.of_nat c), (name_j, N.of_nat c), C) /\
     forall i j, i < c -> j < c ->
       entry ops C i j = cov_spec ops (column_iter ops m i) (column_iter ops m j)).
Proof.
  intros Hwf Hr Hc Hne.
  destruct (cov_columns_correct m r c Hwf Hr) as [C1 [E1 [_ H1]]].
  destruct (cov_rows_correct m r c Hwf Hr) as [C2 [E2 [_ H2]]]. split.
  - exists C2. rewrite cov_named_first, E2. cbn [omap]. rewrite (mrows_wf _ _ _ Hwf). auto.
  - exists C1. rewrite cov_named_second by assumption. rewrite E1. cbn [omap].
    rewrite (mcols_wf _ _ _ Hwf Hr). auto.
Qed.

(* ---- wave 3: why the exact element types cannot see a one-pass "optimisation" ----
   In EVERY field (N <> 0) the population covariance equals E[xy] - E[x] E[y] and the variance
   E[x^2] - E[x]^2: a refactoring of the two-pass code into the one-pass formula changes no value
   on Rat / Fp / the reals.  On floats it loses all precision for data with a large common offset;
   that is what the float tier of the correspondence (ops 8, 9) is for. *)
Lemma sum_centered (a b : R) xs : forall ys, length xs = length ys ->
  sumR ops (map (fun xy => (fst xy [-] a) [*] (snd xy [-] b)) (combine xs ys)) =
  sumR ops (map (fun xy => fst xy [*] snd xy) (combine xs ys)) [-] a [*] sumR ops ys [-] b [*] sumR ops xs
    [+] natR ops (length xs) [*] a [*] b.
Proof.
  induction xs as [|x xs IH]; intros [|y ys] Hlen; try discriminate; cbn [combine map sumR fold_right length natR fst snd].
  - ring.
  - injection Hlen as Hlen. fold (sumR ops xs). fold (sumR ops ys).
    change (fold_right (nadd ops) rO (map (fun xy => (fst xy [-] a) [*] (snd xy [-] b)) (combine xs ys)))
      with (sumR ops (map (fun xy => (fst xy [-] a) [*] (snd xy [-] b)) (combine xs ys))).
    change (fold_right (nadd ops) rO (map (fun xy => fst xy [*] snd xy) (combine xs ys)))
      with (sumR ops (map (fun xy => fst xy [*] snd xy) (combine xs ys))).
    rewrite (IH ys Hlen). ring.
Qed.

Theorem cov_one_pass xs ys : length xs = length ys -> natR ops (length xs) <> rO ->
  cov_spec ops xs ys =
  (sumR ops (map (fun xy => fst xy [*] snd xy) (combine xs ys)) [/] natR ops (length xs))
    [-] mean_spec ops xs [*] mean_spec ops ys.
Proof.
  intros Hlen Hn. unfold cov_spec, mean_spec. rewrite <- Hlen.
  rewrite (sum_centered _ _ xs ys Hlen). field. exact Hn.
Qed.

Lemma combine_self_map (f : R -> R -> R) l :
  map (fun xy => f (fst xy) (snd xy)) (combine l l) = map (fun x => f x x) l.
Proof. induction l as [|x l IH]; cbn; [reflexivity | now rewrite IH]. Qed.

Theorem var_one_pass l : natR ops (length l) <> rO ->
  var_spec ops l =
  (sumR ops (map (fun x => x [*] x) l) [/] natR ops (length l)) [-] mean_spec ops l [*] mean_spec ops l.
Proof.
  intros Hn.
  rewrite <- (combine_self_map (fun x y => x [*] y) l).
  rewrite <- (cov_one_pass l l eq_refl Hn). unfold var_spec, cov_spec.
  now rewrite (combine_self_map (fun x y => (x [-] mean_spec ops l) [*] (y [-] mean_spec ops l)) l).
Qed.

End FieldStats.

(* ================================================================================== *)
(* an ordered field with an exponential oracle: exactly the facts softmax needs *)
Record ordered_exp_field {R} (ops : numops R) (lt : R -> R -> Prop) : Prop := {
  of_field : is_field ops;
  of_irrefl : forall a, ~ lt a a;
  of_trans : forall a b c, lt a b -> lt b c -> lt a c;
  of_total : forall a b, lt a b \/ a = b \/ lt b a;
  of_add : forall a b c, lt a b -> lt (nadd ops a c) (nadd ops b c);
  of_mul : forall a b, lt (nzero ops) a -> lt (nzero ops) b -> lt (nzero ops) (nmul ops a b);
  (* PartialOrd's `<` decides the order *)
  of_ltb : forall a b, nltb ops a b = true <-> lt a b;
  (* the exp oracle: positive and strictly increasing *)
  of_exp_pos : forall x, lt (nzero ops) (nexp ops x);
  of_exp_mono : forall a b, lt a b -> lt (nexp ops a) (nexp ops b)
}.

Section OrderedSoftmax.
Context {R : Type} (ops : numops R) (lt : R -> R -> Prop).
Hypothesis OF : ordered_exp_field ops lt.

Let Fth : is_field ops := of_field ops lt OF.
Let Fth' : field_theory (nzero ops) (none_ ops) (nadd ops) (nmul ops) (nsub ops) (nneg ops)
             (ndiv ops) (ninv ops) (@eq R) := Fth.
Add Field Ffield2 : Fth'.

Implicit Types l : list R.
Notation rO := (nzero ops).
Notation rI := (none_ ops).
Notation "x [+] y" := (nadd ops x y) (at level 50, left associativity).
Notation "x [-] y" := (nsub ops x y) (at level 50, left associativity).
Notation "x [*] y" := (nmul ops x y) (at level 40, left associativity).
Notation "x [/] y" := (ndiv ops x y) (at level 40, left associativity).
Notation "x [<] y" := (lt x y) (at level 70).
Notation nexp' := (nexp ops).

Lemma lt_neq a b : a [<] b -> a <> b.
Proof. intros H E. subst. exact (of_irrefl ops lt OF _ H). Qed.

Lemma lt_sub_pos a b : a [<] b -> rO [<] b [-] a.
Proof.
  intros H. apply (of_add ops lt OF _ _ (nneg ops a)) in H.
  replace (a [+] nneg ops a) with rO in H by ring.
  replace (b [+] nneg ops a) with (b [-] a) in H by ring. exact H.
Qed.

Lemma lt_0_1 : rO [<] rI.
Proof.
  destruct (of_total ops lt OF rO rI) as [H | [H | H]]; [exact H | |].
  - exfalso. apply (F_1_neq_0 Fth'). now symmetry.
  - exfalso. pose proof (lt_sub_pos _ _ H) as Hm.
    pose proof (of_mul ops lt OF _ _ Hm Hm) as Hsq.
    replace ((rO [-] rI) [*] (rO [-] rI)) with rI in Hsq by ring.
    exact (of_irrefl ops lt OF _ (of_trans ops lt OF _ _ _ H Hsq)).
Qed.

Lemma add_pos a b : rO [<] a -> rO [<] b -> rO [<] a [+] b.
Proof.
  intros Ha Hb. apply (of_add ops lt OF _ _ b) in Ha.
  replace (rO [+] b) with b in Ha by ring. exact (of_trans ops lt OF _ _ _ Hb Ha).
Qed.

Lemma inv_pos a : rO [<] a -> rO [<] ninv ops a.
Proof.
  intros Ha. assert (Hne : a <> rO) by (intros E; apply (lt_neq _ _ Ha); now symmetry).
  pose proof (Finv_l Fth' a Hne) as Hinv.
  destruct (of_total ops lt OF rO (ninv ops a)) as [H | [H | H]]; [exact H | |]; exfalso.
  - rewrite <- H in Hinv. apply (F_1_neq_0 Fth'). rewrite <- Hinv. ring.
  - pose proof (lt_sub_pos _ _ H) as Hm.
    pose proof (of_mul ops lt OF _ _ Hm Ha) as Hp.
    replace ((rO [-] ninv ops a) [*] a) with (rO [-] ninv ops a [*] a) in Hp by ring.
    rewrite Hinv in Hp.
    apply (of_add ops lt OF _ _ rI) in Hp.
    replace (rO [+] rI) with rI in Hp by ring.
    replace (rO [-] rI [+] rI) with rO in Hp by ring.
    exact (of_irrefl ops lt OF _ (of_trans ops lt OF _ _ _ Hp lt_0_1)).
Qed.

Lemma mul_lt_r a b c : a [<] b -> rO [<] c -> a [*] c [<] b [*] c.
Proof.
  intros Hab Hc. pose proof (of_mul ops lt OF _ _ (lt_sub_pos _ _ Hab) Hc) as H.
  apply (of_add ops lt OF _ _ (a [*] c)) in H.
  replace (rO [+] a [*] c) with (a [*] c) in H by ring.
  replace ((b [-] a) [*] c [+] a [*] c) with (b [*] c) in H by ring. exact H.
Qed.

Lemma sum_pos l : l <> [] -> Forall (fun y => rO [<] y) l -> rO [<] sumR ops l.
Proof.
  induction l as [|x l IH]; intros Hne Hall; [congruence|]. simpl.
  inversion Hall as [|? ? Hx Hl]; subst. destruct l as [|y l].
  - simpl. replace (x [+] rO) with x by ring. exact Hx.
  - apply add_pos; [exact Hx | apply IH; [congruence | exact Hl]].
Qed.

Lemma ltb_shift a b c : nltb ops (a [+] c) (b [+] c) = nltb ops a b.
Proof.
  apply eq_true_iff_eq. rewrite !(of_ltb ops lt OF). split; intros H.
  - apply (of_add ops lt OF _ _ (nneg ops c)) in H.
    replace (a [+] c [+] nneg ops c) with a in H by ring.
    replace (b [+] c [+] nneg ops c) with b in H by ring. exact H.
  - now apply (of_add ops lt OF).
Qed.

Lemma max_step_shift x y c : max_step ops (x [+] c) (y [+] c) = max_step ops x y [+] c.
Proof. unfold max_step. rewrite ltb_shift. now destruct (nltb ops y x). Qed.

Lemma fold_max_shift l x c :
  fold_left (max_step ops) (map (fun y => y [+] c) l) (x [+] c) =
  fold_left (max_step ops) l x [+] c.
Proof.
  revert x; induction l as [|y l IH]; intros x; simpl; [reflexivity|].
  rewrite max_step_shift. apply IH.
Qed.

(* softmax is an element-wise strictly increasing positive function g, normalised *)
Definition soft_g (mx d x : R) : R := nexp' (x [-] mx) [/] d.

Lemma softmax_unfold x l :
  let mx := fold_left (max_step ops) l x in
  let d := sumR ops (map (fun y => nexp' (y [-] mx)) (x :: l)) in
  softmax ops (x :: l) = map (soft_g mx d) (x :: l) /\ rO [<] d.
Proof.
  cbv zeta. split.
  - unfold softmax. cbn [max_by]. rewrite (isum_spec ops Fth). reflexivity.
  - apply sum_pos; [cbn [map]; congruence|]. apply Forall_forall. intros y Hin.
    apply in_map_iff in Hin. destruct Hin as [z [<- _]]. apply (of_exp_pos ops lt OF).
Qed.

Theorem softmax_len l : length (softmax ops l) = length l.
Proof.
  destruct l as [|x l]; [reflexivity|]. unfold softmax. cbn [max_by]. now rewrite map_length.
Qed.

Theorem softmax_empty : softmax ops [] = [].
Proof. reflexivity. Qed.

Theorem softmax_pos l : Forall (fun y => rO [<] y) (softmax ops l).
Proof.
  destruct l as [|x l]; [constructor|]. destruct (softmax_unfold x l) as [-> Hd].
  apply Forall_forall. intros y Hin. apply in_map_iff in Hin. destruct Hin as [z [<- _]].
  unfold soft_g. rewrite (div_def ops Fth). apply (of_mul ops lt OF).
  - apply (of_exp_pos ops lt OF).
  - now apply inv_pos.
Qed.

Theorem softmax_sums_to_one l : l <> [] -> sumR ops (softmax ops l) = rI.
Proof.
  destruct l as [|x l]; [congruence|]. intros _. destruct (softmax_unfold x l) as [-> Hd].
  unfold soft_g. rewrite (sumR_map_div ops Fth (fun y => nexp' (y [-] fold_left (max_step ops) l x))).
  set (d := sumR ops _) in *. field. intros E. apply (lt_neq _ _ Hd). now symmetry.
Qed.

Lemma soft_g_mono mx d a b : rO [<] d -> a [<] b -> soft_g mx d a [<] soft_g mx d b.
Proof.
  intros Hd Hab. unfold soft_g. rewrite !(div_def ops Fth). apply mul_lt_r; [|now apply inv_pos].
  apply (of_exp_mono ops lt OF).
  apply (of_add ops lt OF _ _ (nneg ops mx)) in Hab.
  replace (a [+] nneg ops mx) with (a [-] mx) in Hab by ring.
  replace (b [+] nneg ops mx) with (b [-] mx) in Hab by ring. exact Hab.
Qed.

Lemma nth_map_in (g : R -> R) l i : i < length l -> nth i (map g l) rO = g (nth i l rO).
Proof.
  intros Hi. rewrite (nth_indep _ rO (g rO)) by now rewrite map_length. apply map_nth.
Qed.

Theorem softmax_order_preserving l i j : i < length l -> j < length l ->
  (nth i l rO [<] nth j l rO -> nth i (softmax ops l) rO [<] nth j (softmax ops l) rO) /\
  (nth i l rO = nth j l rO -> nth i (softmax ops l) rO = nth j (softmax ops l) rO).
Proof.
  intros Hi Hj. destruct l as [|x l]; [simpl in Hi; lia|].
  destruct (softmax_unfold x l) as [-> Hd]. rewrite !nth_map_in by assumption. split.
  - now apply soft_g_mono.
  - now intros ->.
Qed.

Lemma softmax_cons x l :
  softmax ops (x :: l) =
  map (fun y => nexp' (y [-] fold_left (max_step ops) l x)
                [/] isum ops (map (fun z => nexp' (z [-] fold_left (max_step ops) l x)) (x :: l)))
      (x :: l).
Proof. reflexivity. Qed.

Theorem softmax_shift_invariant l c : softmax ops (map (fun x => x [+] c) l) = softmax ops l.
Proof.
  destruct l as [|x l]; [reflexivity|].
  change (map (fun x => x [+] c) (x :: l)) with ((x [+] c) :: map (fun x => x [+] c) l).
  rewrite !softmax_cons. rewrite fold_max_shift. set (mx := fold_left (max_step ops) l x).
  change ((x [+] c) :: map (fun x => x [+] c) l) with (map (fun x => x [+] c) (x :: l)).
  assert (E : forall y, nexp' (y [+] c [-] (mx [+] c)) = nexp' (y [-] mx)) by (intros y; f_equal; ring).
  assert (Ed : isum ops (map (fun z => nexp' (z [-] (mx [+] c))) (map (fun x => x [+] c) (x :: l))) =
               isum ops (map (fun z => nexp' (z [-] mx)) (x :: l))).
  { f_equal. rewrite map_map. apply map_ext. exact E. }
  rewrite Ed. rewrite map_map. apply map_ext. intros y. now rewrite E.
Qed.

(* ---- session 3: the shift IS the maximum; the documented formula; order both ways; f1 ---- *)
(* a <= b is written ~ b < a *)
Lemma nlt_trans a b c : ~ b [<] a -> ~ c [<] b -> ~ c [<] a.
Proof.
  intros Hab Hbc Hca. destruct (of_total ops lt OF b c) as [H | [H | H]].
  - apply Hab. exact (of_trans ops lt OF _ _ _ H Hca).
  - subst c. now apply Hab.
  - now apply Hbc.
Qed.

Lemma nlt_antisym a b : ~ a [<] b -> ~ b [<] a -> a = b.
Proof. intros H1 H2. destruct (of_total ops lt OF a b) as [H | [H | H]]; tauto. Qed.

Lemma max_step_cases x y :
  (max_step ops x y = x \/ max_step ops x y = y) /\
  ~ max_step ops x y [<] x /\ ~ max_step ops x y [<] y.
Proof.
  unfold max_step. destruct (nltb ops y x) eqn:E.
  - apply (of_ltb ops lt OF) in E. split; [now left|]. split; [apply (of_irrefl ops lt OF)|].
    intros H. exact (of_irrefl ops lt OF _ (of_trans ops lt OF _ _ _ E H)).
  - split; [now right|]. split; [|apply (of_irrefl ops lt OF)].
    intros H. apply (of_ltb ops lt OF) in H. congruence.
Qed.

Lemma fold_max_spec l : forall x,
  In (fold_left (max_step ops) l x) (x :: l) /\
  forall z, In z (x :: l) -> ~ fold_left (max_step ops) l x [<] z.
Proof.
  induction l as [|y l IH]; intros x; cbn [fold_left].
  - split; [now left|]. intros z [<-|[]]. apply (of_irrefl ops lt OF).
  - destruct (IH (max_step ops x y)) as [Hin Hub].
    destruct (max_step_cases x y) as [Hc [Hx Hy]]. split.
    + destruct Hin as [Hin|Hin]; [|right; now right].
      rewrite <- Hin. destruct Hc as [-> | ->]; [now left | right; now left].
    + assert (Hm : ~ fold_left (max_step ops) l (max_step ops x y) [<] max_step ops x y)
        by (apply Hub; now left).
      intros z [<-|[<-|Hz]].
      * exact (nlt_trans _ _ _ Hx Hm).
      * exact (nlt_trans _ _ _ Hy Hm).
      * apply Hub. now right.
Qed.

(* the value subtracted before exponentiation is THE maximum of the inputs: an element of the
   list that no element exceeds (unique with that property); softmax is the quotient written
   with that shift; consequently no exponent is positive and one of them is zero *)
Theorem softmax_shift_is_max l : l <> [] ->
  exists mx, max_by ops l = Some mx /\ In mx l /\ (forall x, In x l -> ~ mx [<] x) /\
    (forall m, In m l -> (forall x, In x l -> ~ m [<] x) -> m = mx) /\
    softmax ops l =
      map (fun x => nexp' (x [-] mx) [/] sumR ops (map (fun y => nexp' (y [-] mx)) l)) l /\
    (forall x, In x l -> ~ rO [<] x [-] mx) /\
    (exists x, In x l /\ x [-] mx = rO).
Proof.
  destruct l as [|x l]; [congruence|]. intros _.
  destruct (fold_max_spec l x) as [Hin Hub]. set (mx := fold_left (max_step ops) l x) in *.
  exists mx. split; [reflexivity|]. split; [exact Hin|]. split; [exact Hub|].
  split; [|split; [|split]].
  - intros m Hm Hmub. apply nlt_antisym; [apply Hmub; exact Hin | apply Hub; exact Hm].
  - rewrite softmax_cons. fold mx. now rewrite (isum_spec ops Fth).
  - intros z Hz H. apply (Hub z Hz). apply (of_add ops lt OF _ _ mx) in H.
    replace (rO [+] mx) with mx in H by ring. replace (z [-] mx [+] mx) with z in H by ring. exact H.
  - exists mx. split; [exact Hin | ring].
Qed.

(* the documented formula  softmax(z)[i] = e^z_i / sum_j e^z_j : equal to the shifted computation
   as soon as exp turns differences into quotients (true of the real exponential) *)
Theorem softmax_textbook :
  (forall a b, nexp' (a [-] b) = nexp' a [/] nexp' b) ->
  forall l, softmax ops l = map (fun x => nexp' x [/] sumR ops (map nexp' l)) l.
Proof.
  intros Hexp l. destruct l as [|x0 l0]; [reflexivity|].
  destruct (softmax_unfold x0 l0) as [-> Hd]. set (l := x0 :: l0) in *.
  set (mx := fold_left (max_step ops) l0 x0) in *.
  assert (HE : nexp' mx <> rO).
  { intros E. apply (lt_neq _ _ (of_exp_pos ops lt OF mx)). now symmetry. }
  assert (HS : sumR ops (map nexp' l) <> rO).
  { intros E. assert (Hp : rO [<] sumR ops (map nexp' l)).
    { apply sum_pos; [unfold l; cbn [map]; congruence|]. apply Forall_forall. intros y Hy.
      apply in_map_iff in Hy. destruct Hy as [z [<- _]]. apply (of_exp_pos ops lt OF). }
    apply (lt_neq _ _ Hp). now symmetry. }
  assert (Hsum : sumR ops (map (fun y => nexp' (y [-] mx)) l) = sumR ops (map nexp' l) [/] nexp' mx).
  { rewrite <- (sumR_map_div ops Fth nexp' (nexp' mx) l). f_equal. apply map_ext. intros y. apply Hexp. }
  apply map_ext. intros y. unfold soft_g. rewrite Hsum, Hexp. field. split; assumption.
Qed.

(* order relations are preserved in BOTH directions: strict order, ties, non-strict order *)
Theorem softmax_order_iff l i j : i < length l -> j < length l ->
  let x k := nth k l rO in let s k := nth k (softmax ops l) rO in
  (x i [<] x j <-> s i [<] s j) /\ (x i = x j <-> s i = s j) /\ (~ x j [<] x i <-> ~ s j [<] s i).
Proof.
  intros Hi Hj x s.
  destruct (softmax_order_preserving l i j Hi Hj) as [Hlt Heq].
  destruct (softmax_order_preserving l j i Hj Hi) as [Hgt _].
  fold (x i) (x j) (s i) (s j) in Hlt, Heq, Hgt.
  assert (Irr := of_irrefl ops lt OF). assert (Tr := of_trans ops lt OF).
  split; [|split].
  - split; [exact Hlt|]. intros Hs.
    destruct (of_total ops lt OF (x i) (x j)) as [H | [H | H]]; [exact H | |]; exfalso.
    + apply Heq in H. rewrite H in Hs. exact (Irr _ Hs).
    + apply Hgt in H. exact (Irr _ (Tr _ _ _ Hs H)).
  - split; [exact Heq|]. intros Hs.
    destruct (of_total ops lt OF (x i) (x j)) as [H | [H | H]]; [exfalso | exact H | exfalso].
    + apply Hlt in H. rewrite Hs in H. exact (Irr _ H).
    + apply Hgt in H. rewrite Hs in H. exact (Irr _ H).
  - split; intros Hn Hc; apply Hn.
    + destruct (of_total ops lt OF (x j) (x i)) as [H | [H | H]]; [exact H | |]; exfalso.
      * symmetry in H. apply Heq in H. rewrite H in Hc. exact (Irr _ Hc).
      * apply Hlt in H. exact (Irr _ (Tr _ _ _ Hc H)).
    + now apply Hgt.
Qed.

(* ---- stability: with the maximum as shift every intermediate quantity is bounded ---- *)
Lemma nlt_cases a b : ~ b [<] a -> a [<] b \/ a = b.
Proof. intros H. destruct (of_total ops lt OF a b) as [H1|[H1|H1]]; auto. contradiction. Qed.

Lemma lt_nlt a b : a [<] b -> ~ b [<] a.
Proof. intros H H'. exact (of_irrefl ops lt OF _ (of_trans ops lt OF _ _ _ H H')). Qed.

Lemma add_lt_l a b c : a [<] b -> c [+] a [<] c [+] b.
Proof.
  intros H. apply (of_add ops lt OF _ _ c) in H.
  replace (c [+] a) with (a [+] c) by ring. replace (c [+] b) with (b [+] c) by ring. exact H.
Qed.

(* a <= b -> c <= d -> a + c <= b + d *)
Lemma le_add a b c d : ~ b [<] a -> ~ d [<] c -> ~ (b [+] d) [<] (a [+] c).
Proof.
  intros H1 H2.
  destruct (nlt_cases _ _ H1) as [Hab | ->]; destruct (nlt_cases _ _ H2) as [Hcd | ->].
  - apply lt_nlt. apply (of_trans ops lt OF _ (b [+] c));
      [apply (of_add ops lt OF); exact Hab | apply add_lt_l; exact Hcd].
  - apply lt_nlt. apply (of_add ops lt OF). exact Hab.
  - apply lt_nlt. apply add_lt_l. exact Hcd.
  - apply (of_irrefl ops lt OF).
Qed.

Lemma sum_nonneg l : Forall (fun y => rO [<] y) l -> ~ sumR ops l [<] rO.
Proof.
  induction l as [|a l IH]; intros Hall; [apply (of_irrefl ops lt OF)|].
  inversion Hall as [|? ? Ha Hl]; subst.
  pose proof (le_add rO a rO (sumR ops l) (lt_nlt _ _ Ha) (IH Hl)) as H.
  replace (rO [+] rO) with rO in H by ring. exact H.
Qed.

Lemma sum_ge_member l : Forall (fun y => rO [<] y) l -> forall y, In y l -> ~ sumR ops l [<] y.
Proof.
  induction l as [|a l IH]; intros Hall y Hin; [destruct Hin|].
  inversion Hall as [|? ? Ha Hl]; subst.
  change (sumR ops (a :: l)) with (a [+] sumR ops l). destruct Hin as [<- | Hin].
  - pose proof (le_add a a rO (sumR ops l) (of_irrefl ops lt OF a) (sum_nonneg l Hl)) as H.
    replace (a [+] rO) with a in H by ring. exact H.
  - pose proof (le_add rO a y (sumR ops l) (lt_nlt _ _ Ha) (IH Hl y Hin)) as H.
    replace (rO [+] y) with y in H by ring. exact H.
Qed.

Lemma sum_le_count l : (forall y, In y l -> ~ rI [<] y) -> ~ natR ops (length l) [<] sumR ops l.
Proof.
  induction l as [|a l IH]; intros Hall; [apply (of_irrefl ops lt OF)|].
  change (sumR ops (a :: l)) with (a [+] sumR ops l). cbn [length natR].
  pose proof (le_add a rI (sumR ops l) (natR ops (length l)) (Hall a (or_introl eq_refl))
                     (IH (fun y Hy => Hall y (or_intror Hy)))) as H.
  replace (rI [+] natR ops (length l)) with (natR ops (length l) [+] rI) in H by ring. exact H.
Qed.

(* with exp 0 = 1: every exponential softmax evaluates lies in (0, 1] and their sum (the
   denominator) in [1, N] — nothing can overflow and the denominator cannot vanish, however large
   the inputs are.  (A softmax that subtracts anything smaller than the maximum loses the upper
   bounds; one that subtracts anything larger loses the lower bound 1 of the denominator.) *)
Theorem softmax_intermediates_bounded : nexp' rO = rI ->
  forall l, l <> [] ->
  exists mx, max_by ops l = Some mx /\
    (forall x, In x l -> rO [<] nexp' (x [-] mx) /\ ~ rI [<] nexp' (x [-] mx)) /\
    ~ sumR ops (map (fun y => nexp' (y [-] mx)) l) [<] rI /\
    ~ natR ops (length l) [<] sumR ops (map (fun y => nexp' (y [-] mx)) l).
Proof.
  intros Hexp0 l Hne.
  destruct (softmax_shift_is_max l Hne) as (mx & Hmax & Hin & Hub & _ & _ & Hnonpos & (x0 & Hx0 & Hzero)).
  exists mx. split; [exact Hmax|].
  assert (Hterm : forall x, In x l -> rO [<] nexp' (x [-] mx) /\ ~ rI [<] nexp' (x [-] mx)).
  { intros x Hx. split; [apply (of_exp_pos ops lt OF)|].
    destruct (nlt_cases _ _ (Hnonpos x Hx)) as [Hneg | Heq].
    - rewrite <- Hexp0. apply lt_nlt. now apply (of_exp_mono ops lt OF).
    - rewrite Heq, Hexp0. apply (of_irrefl ops lt OF). }
  split; [exact Hterm|]. split.
  - rewrite <- Hexp0, <- Hzero. apply sum_ge_member.
    + apply Forall_forall. intros y Hy. apply in_map_iff in Hy. destruct Hy as [z [<- _]].
      apply (of_exp_pos ops lt OF).
    + apply in_map_iff. exists x0. auto.
  - rewrite <- (map_length (fun y => nexp' (y [-] mx)) l). apply sum_le_count.
    intros y Hy. apply in_map_iff in Hy. destruct Hy as [z [<- Hz]]. now apply Hterm.
Qed.

(* f1 on the whole unit square (any non-negative p, r): the harmonic mean 2 / (1/p + 1/r) when
   both are positive; zero as soon as one of them is zero — INCLUDING p = r = 0, the one point
   with p + r = 0, where the harmonic mean has no value and the quotient 0 / 0 of the formula is
   whatever the element type makes of it: 0 in every field with total division (0 * anything),
   hence for Rat and Fp; NaN for IEEE floats, which are not a field *)
Theorem f1_on_nonnegatives p r : ~ p [<] rO -> ~ r [<] rO ->
  (rO [<] p -> rO [<] r ->
     f1_score ops p r = (rI [+] rI) [/] (rI [/] p [+] rI [/] r)) /\
  (p = rO \/ r = rO -> f1_score ops p r = rO) /\
  (p [+] r = rO -> p = rO /\ r = rO).
Proof.
  intros Hp Hr. split; [|split].
  - intros Hp0 Hr0. destruct (f1_harmonic ops Fth p r) as [_ H]. apply H.
    + intros E. apply (lt_neq _ _ Hp0). now symmetry.
    + intros E. apply (lt_neq _ _ Hr0). now symmetry.
    + intros E. apply (lt_neq _ _ (add_pos _ _ Hp0 Hr0)). now symmetry.
  - intros H. unfold f1_score. rewrite (div_def ops Fth). destruct H as [-> | ->]; ring.
  - intros Hs.
    assert (Hp' : p = rO \/ rO [<] p) by (destruct (of_total ops lt OF rO p) as [H|[H|H]]; auto; tauto).
    assert (Hr' : r = rO \/ rO [<] r) by (destruct (of_total ops lt OF rO r) as [H|[H|H]]; auto; tauto).
    destruct Hp' as [-> | Hp0]; destruct Hr' as [-> | Hr0]; [auto | | |]; exfalso.
    + apply (lt_neq _ _ Hr0). rewrite <- Hs. ring.
    + apply (lt_neq _ _ Hp0). rewrite <- Hs. ring.
    + apply (lt_neq _ _ (add_pos _ _ Hp0 Hr0)). now symmetry.
Qed.

End OrderedSoftmax.
