(* C09, owning iterators: each original value is moved out exactly once and only placeholders
   are left behind.  Stated for any family of sources whose writes behave like a lens on the
   in-range indexes (a write succeeds, is read back, changes no other index and keeps the shape),
   and instantiated for Tensor.  Every view adaptor satisfying the TensorMut contract is such a
   family (that contract is property C02's subject). *)
From Coq Require Import List ZArith NArith Bool Arith Lia.
From EasyML Require Import Base.Sx Model.Shape Model.Tensor Model.TSource Model.ShapeIter
  Model.Transform Proofs.ShapeP Proofs.C01P Proofs.OdometerP Proofs.C09P Proofs.C13P.
Import ListNotations.
Open Scope N_scope.

Section Owned.
Context {A : Type}.
Variable dflt : A.
Variable P : tsrc A -> Prop.
Hypothesis P_set : forall s idx v, P s -> in_range idx (lens_of (src_shape s)) ->
  exists s', src_set s idx v = Some s' /\ P s' /\ src_shape s' = src_shape s /\
             src_get s' idx = Some v /\
             forall idx', in_range idx' (lens_of (src_shape s)) -> idx' <> idx ->
                          src_get s' idx' = src_get s idx'.

(* what call number q returns, relative to the source s the run starts from *)
Definition oexpected (s : tsrc A) (q : N) : option (list N * option A) * N :=
  let lens := lens_of (src_shape s) in
  if q <? prod lens
  then (option_map (fun x => (x, src_get s x)) (nth_error (all_indexes lens) (N.to_nat q)), prod lens - q - 1)
  else (None, 0).

Lemma oexpected_past (s : tsrc A) p : prod (lens_of (src_shape s)) <= p + 1 ->
  forall k st, repeat (@None (list N * option A), 0) k =
               map (fun x => oexpected s (p + N.of_nat (S x))) (seq st k).
Proof.
  intros Hp. induction k as [|k IH]; intros st; [reflexivity|].
  cbn [repeat seq map]. f_equal; [|apply IH].
  unfold oexpected. destruct (N.ltb_spec (p + N.of_nat (S st)) (prod (lens_of (src_shape s)))); [lia|reflexivity].
Qed.

Lemma owned_finished k sh idx (s : tsrc A) :
  drive (ti_next_owned dflt) ti_len k (mkTI (mkSI sh idx true) s) =
  (repeat (None, 0) k, mkTI (mkSI sh idx true) s).
Proof.
  induction k as [|k IH]; [reflexivity|].
  cbn [drive]. unfold ti_next_owned at 1. cbn [ti_shape_iter ti_source].
  rewrite iter_next_finished. rewrite IH. reflexivity.
Qed.

Lemma owned_run : forall k idx (s : tsrc A), P s -> in_range idx (lens_of (src_shape s)) ->
  let p := flat idx (lens_of (src_shape s)) in
  let r := drive (ti_next_owned dflt) ti_len k (mkTI (mkSI (src_shape s) idx false) s) in
  fst r = map (fun j => oexpected s (p + N.of_nat j)) (seq 0 k) /\
  P (ti_source (snd r)) /\ src_shape (ti_source (snd r)) = src_shape s /\
  forall x, in_range x (lens_of (src_shape s)) ->
    src_get (ti_source (snd r)) x =
    if (p <=? flat x (lens_of (src_shape s))) && (flat x (lens_of (src_shape s)) <? p + N.of_nat k)
    then Some dflt else src_get s x.
Proof.
  induction k as [|k IH]; intros idx s Ps Hr; cbv zeta.
  - cbn [drive fst snd ti_source seq map]. repeat split; auto.
    intros x Hx. destruct (N.leb_spec (flat idx (lens_of (src_shape s))) (flat x (lens_of (src_shape s))));
      destruct (N.ltb_spec (flat x (lens_of (src_shape s))) (flat idx (lens_of (src_shape s)) + N.of_nat 0));
      cbn [andb]; try reflexivity; lia.
  - set (sh := src_shape s) in *. set (lens := lens_of sh) in *.
    destruct (iter_next_spec sh idx Hr) as [idx' [fin [Hn Hs]]].
    unfold elements in Hs. fold lens in Hs.
    destruct (P_set s idx dflt Ps Hr) as [s' [Hset [Ps' [Hsh' [Hget' Hother]]]]].
    assert (Hdrive : drive (ti_next_owned dflt) ti_len (S k) (mkTI (mkSI sh idx false) s) =
              let '(rest, s'') := drive (ti_next_owned dflt) ti_len k (mkTI (mkSI sh idx' fin) s') in
              ((Some (idx, src_get s idx), ti_len (mkTI (mkSI sh idx' fin) s')) :: rest, s'')).
    { cbn [drive]. unfold ti_next_owned at 1. cbn [ti_shape_iter ti_source]. rewrite Hn, Hset. reflexivity. }
    rewrite Hdrive. clear Hdrive.
    pose proof (flat_lt _ _ Hr) as Hlt. fold lens in Hlt.
    assert (Hhead : oexpected s (flat idx lens + N.of_nat 0) =
                    (Some (idx, src_get s idx), prod lens - flat idx lens - 1)).
    { unfold oexpected. fold sh lens. rewrite N.add_0_r.
      destruct (N.ltb_spec (flat idx lens) (prod lens)); [|lia].
      rewrite all_indexes_at by exact Hr. reflexivity. }
    destruct fin.
    + (* that was the last element *)
      rewrite owned_finished. cbn [fst snd ti_source seq map]. split; [|split; [exact Ps'|split; [exact Hsh'|]]].
      * rewrite Hhead. f_equal.
        { unfold ti_len. cbn [ti_shape_iter]. rewrite iter_len_finished. f_equal. lia. }
        rewrite <- seq_shift, map_map.
        apply (oexpected_past s (flat idx lens)). fold sh lens. lia.
      * intros x Hx.
        pose proof (flat_lt _ _ Hx) as Hxl. fold lens in Hxl.
        destruct (list_eq_dec N.eq_dec x idx) as [->|Hne].
        { rewrite Hget'. destruct (N.leb_spec (flat idx lens) (flat idx lens)); [|lia].
          destruct (N.ltb_spec (flat idx lens) (flat idx lens + N.of_nat (S k))); [reflexivity|lia]. }
        rewrite Hother by assumption.
        assert (flat x lens <> flat idx lens) by (intros E; apply Hne; eapply flat_inj; eauto).
        destruct (N.leb_spec (flat idx lens) (flat x lens)); cbn [andb]; [|reflexivity]. lia.
    + destruct Hs as [Hr' Hf'].
      assert (Hr'' : in_range idx' (lens_of (src_shape s'))) by (rewrite Hsh'; exact Hr').
      specialize (IH idx' s' Ps' Hr''). cbv zeta in IH. rewrite Hsh' in IH. fold sh lens in IH.
      destruct (drive (ti_next_owned dflt) ti_len k (mkTI (mkSI sh idx' false) s')) as [rest itf] eqn:Ed.
      cbn [fst snd] in *. destruct IH as [Hrest [Pf [Hshf Hgetf]]].
      split; [|split; [exact Pf|split; [exact Hshf|]]].
      * cbn [seq map]. rewrite Hhead. f_equal.
        { unfold ti_len. cbn [ti_shape_iter]. rewrite iter_len_unfinished.
          - unfold elements. fold lens. rewrite Hf'. f_equal. lia.
          - pose proof (in_range_length _ _ Hr') as L. unfold lens, lens_of in L. rewrite map_length in L. exact L. }
        rewrite Hrest, <- seq_shift, map_map. apply map_ext_in. intros j Hj.
        rewrite Hf'. replace (flat idx lens + 1 + N.of_nat j) with (flat idx lens + N.of_nat (S j)) by lia.
        unfold oexpected. rewrite Hsh'. fold sh lens.
        destruct (N.ltb_spec (flat idx lens + N.of_nat (S j)) (prod lens)) as [Hq|]; [|reflexivity].
        f_equal.
        destruct (nth_error (all_indexes lens) (N.to_nat (flat idx lens + N.of_nat (S j)))) as [x|] eqn:Ex;
          [|reflexivity].
        cbn [option_map]. destruct (all_indexes_nth _ _ _ Ex) as [Hx Hfx].
        rewrite Hother; [reflexivity|exact Hx|]. intros ->. lia.
      * intros x Hx. rewrite Hgetf by exact Hx. rewrite Hf'.
        destruct (list_eq_dec N.eq_dec x idx) as [->|Hne].
        { destruct (N.leb_spec (flat idx lens + 1) (flat idx lens)); [lia|]. cbn [andb]. rewrite Hget'.
          destruct (N.leb_spec (flat idx lens) (flat idx lens)); [|lia].
          destruct (N.ltb_spec (flat idx lens) (flat idx lens + N.of_nat (S k))); [reflexivity|lia]. }
        rewrite Hother by assumption.
        assert (flat x lens <> flat idx lens) by (intros E; apply Hne; eapply flat_inj; eauto).
        destruct (N.leb_spec (flat idx lens + 1) (flat x lens)); destruct (N.leb_spec (flat idx lens) (flat x lens));
          destruct (N.ltb_spec (flat x lens) (flat idx lens + 1 + N.of_nat k));
          destruct (N.ltb_spec (flat x lens) (flat idx lens + N.of_nat (S k))); cbn [andb]; try reflexivity; lia.
Qed.

End Owned.

(* from the initial state: call number q returns the ORIGINAL element at the q-th index; after k
   calls the first k places hold the placeholder and every other place is untouched *)
Theorem owned_moves_once {A} (dflt : A) (P : tsrc A -> Prop)
  (P_set : forall s idx v, P s -> in_range idx (lens_of (src_shape s)) ->
     exists s', src_set s idx v = Some s' /\ P s' /\ src_shape s' = src_shape s /\
                src_get s' idx = Some v /\
                forall idx', in_range idx' (lens_of (src_shape s)) -> idx' <> idx ->
                             src_get s' idx' = src_get s idx')
  (s : tsrc A) k : P s -> lens_pos (lens_of (src_shape s)) ->
  let r := drive (ti_next_owned dflt) ti_len k (tensor_iter_from s) in
  fst r = map (fun j => oexpected s (N.of_nat j)) (seq 0 k) /\
  forall x, in_range x (lens_of (src_shape s)) ->
    src_get (ti_source (snd r)) x =
    if flat x (lens_of (src_shape s)) <? N.of_nat k then Some dflt else src_get s x.
Proof.
  intros Ps Hpos. cbv zeta. unfold tensor_iter_from, shape_iter_from.
  rewrite (proj2 (all_pos_b (src_shape s)) Hpos). cbn [negb].
  replace (length (src_shape s)) with (length (lens_of (src_shape s))) by (unfold lens_of; apply map_length).
  pose proof (owned_run dflt P P_set k (repeat 0 (length (lens_of (src_shape s)))) s Ps
                (in_range_zeros _ Hpos)) as H.
  cbv zeta in H. rewrite flat_zeros in H. destruct H as [H1 [_ [_ H2]]]. split.
  - rewrite H1. apply map_ext. intros j. f_equal.
  - intros x Hx. rewrite H2 by exact Hx.
    destruct (N.leb_spec 0 (flat x (lens_of (src_shape s)))); [|lia]. reflexivity.
Qed.

(* ---- Tensor is such a source ---- *)
Definition is_tensor {A} (s : tsrc A) : Prop := exists t, s = TBase t /\ tensor_inv t.

Lemma tensor_lens {A} (s : tsrc A) idx v : is_tensor s -> in_range idx (lens_of (src_shape s)) ->
  exists s', src_set s idx v = Some s' /\ is_tensor s' /\ src_shape s' = src_shape s /\
             src_get s' idx = Some v /\
             forall idx', in_range idx' (lens_of (src_shape s)) -> idx' <> idx ->
                          src_get s' idx' = src_get s idx'.
Proof.
  intros [t [-> Hinv]] Hr. cbn [src_shape src_set src_get] in *.
  pose proof Hinv as [Hv [Hs He]].
  pose proof (in_range_length _ _ Hr) as L. unfold lens_of in L. rewrite map_length in L.
  unfold t_set. rewrite Hs, get_index_direct_spec by exact L.
  rewrite (proj2 (in_range_b_spec _ _) Hr).
  pose proof (flat_lt _ _ Hr) as Hlt. fold (elements (t_shape t)) in Hlt.
  destruct (list_set_Some (t_data t) (N.to_nat (flat idx (lens_of (t_shape t)))) v) as [d' Hd']; [lia|].
  rewrite Hd'. cbn [option_map]. eexists. split; [reflexivity|].
  destruct (list_set_spec _ _ _ _ Hd') as [Hlen Hnth].
  set (t' := mkTensor d' (t_shape t) (compute_strides (t_shape t))).
  assert (Hinv' : tensor_inv t').
  { unfold tensor_inv, t'. cbn [t_shape t_strides t_data]. repeat split; try apply Hv. lia. }
  split; [exists t'; split; [reflexivity|exact Hinv']|]. cbn [src_shape src_get t_shape].
  split; [reflexivity|]. split.
  - rewrite (t_get_flat t') by (cbn; auto). cbn [t_data t_shape t']. rewrite Hnth, Nat.eqb_refl. reflexivity.
  - intros idx' Hr' Hne. rewrite (t_get_flat t') by (cbn; auto). rewrite (t_get_flat t) by auto.
    cbn [t_data t_shape t']. rewrite Hnth.
    destruct (Nat.eqb_spec (N.to_nat (flat idx' (lens_of (t_shape t)))) (N.to_nat (flat idx (lens_of (t_shape t)))))
      as [E|]; [|reflexivity].
    exfalso. apply Hne. eapply flat_inj; eauto. lia.
Qed.

Theorem tensor_owned_moves_once {A} (dflt : A) (t : tensor A) k : tensor_inv t ->
  let s := TBase t in
  let r := drive (ti_next_owned dflt) ti_len k (tensor_iter_from s) in
  fst r = map (fun j => oexpected s (N.of_nat j)) (seq 0 k) /\
  forall x, in_range x (lens_of (t_shape t)) ->
    src_get (ti_source (snd r)) x =
    if flat x (lens_of (t_shape t)) <? N.of_nat k then Some dflt else t_get t x.
Proof.
  intros Hinv. apply (owned_moves_once dflt is_tensor).
  - intros s idx v. apply tensor_lens.
  - exists t. split; [reflexivity|exact Hinv].
  - apply Hinv.
Qed.
