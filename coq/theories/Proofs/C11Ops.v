(* C11: each transcribed operation of Model/Matrix.v, run on the flat representation of a
   rectangular list of rows, yields the flat representation of the specified result. *)
From Coq Require Import List ZArith NArith Bool Arith Lia.
From EasyML Require Import Base.Sx Model.Matrix Proofs.C11Spec.
Import ListNotations.
Open Scope N_scope.

Section Ops.
Context {T : Type}.
Implicit Types m : list (list T).

(* ---------- small facts about lists and the spec functions ---------- *)
Lemma Forall_firstn {A} (P : A -> Prop) k l : Forall P l -> Forall P (firstn k l).
Proof. intros H; revert k; induction H; intros [|k]; cbn; auto. Qed.
Lemma Forall_skipn {A} (P : A -> Prop) k l : Forall P l -> Forall P (skipn k l).
Proof. intros H; revert k; induction H; intros [|k]; cbn; auto. Qed.

Lemma length_insert_at {A} k (x : A) l : (k <= length l)%nat -> length (insert_at k x l) = S (length l).
Proof.
  intros H. unfold insert_at. rewrite app_length, firstn_length. cbn [length]. rewrite skipn_length. lia.
Qed.

Lemma concat_insert_at m k row c : Forall (fun r => length r = c) m ->
  concat (insert_at k row m) = firstn (k * c) (concat m) ++ row ++ skipn (k * c) (concat m).
Proof.
  intros H. unfold insert_at. rewrite concat_app. cbn [concat].
  now rewrite (firstn_concat m c k H), (skipn_concat m c k H).
Qed.

Lemma rect_insert_at m k row : rect m -> length row = ncols m ->
  rect (insert_at k row m) /\ ncols (insert_at k row m) = ncols m.
Proof.
  intros [Hne [Hc Hall]] Hrow.
  assert (Hn : ncols (insert_at k row m) = ncols m).
  { unfold insert_at, ncols. destruct m as [|r0 m]; [congruence|]. destruct k; cbn; auto. }
  split; [|exact Hn]. repeat split.
  - unfold insert_at. destruct (firstn k m); discriminate.
  - now rewrite Hn.
  - rewrite Hn. unfold insert_at. apply Forall_app. split; [now apply Forall_firstn|].
    constructor; [exact Hrow|now apply Forall_skipn].
Qed.

Lemma of_rows_eq (d d' : list T) r r' c c' : d = d' -> r = r' -> c = c' -> mkM d r c = mkM d' r' c'.
Proof. now intros -> -> ->. Qed.

Lemma nrange_of_nat n : nrange (N.of_nat n) = map N.of_nat (seq 0 n).
Proof. unfold nrange. now rewrite Nat2N.id. Qed.

Lemma nlen_concat m : rect m -> nlen (concat m) = nlen m * N.of_nat (ncols m).
Proof.
  intros H. unfold nlen. rewrite (length_concat_uniform m _ (rect_forall m H)). lia.
Qed.

(* ---------- insert_row / insert_row_with ---------- *)
Lemma insert_rows_run m (i : N) (row : list T) : rect m -> i <= nlen m -> length row = ncols m ->
  insert_each (map (fun kv => (N.of_nat (N.to_nat i * ncols m + fst kv), snd kv))
                   (combine (seq 0 (length row)) row)) (concat m)
  = (concat (insert_at (N.to_nat i) row m), true).
Proof.
  intros Hr Hi Hrow. pose proof (rect_forall m Hr) as Hall.
  rewrite (concat_insert_at m _ row _ Hall).
  rewrite <- (firstn_skipn (N.to_nat i * ncols m) (concat m)) at 1.
  apply insert_each_run. rewrite firstn_length, (length_concat_uniform m _ Hall).
  unfold nlen in Hi. nia.
Qed.

Lemma insert_row_refines m i v : rect m ->
  insert_row (of_rows m) i v =
    (of_rows (fst (spec_step m (OInsertRow i v))), snd (spec_step m (OInsertRow i v)))
  /\ rect (fst (spec_step m (OInsertRow i v))).
Proof.
  intros Hr. unfold of_rows at 1. unfold insert_row, spec_step. cbn [m_rows m_cols m_data].
  destruct (i <=? nlen m) eqn:Ei; cbn [fst snd]; [|auto].
  apply N.leb_le in Ei.
  destruct (rect_insert_at m (N.to_nat i) (repeat v (ncols m)) Hr (repeat_length _ _)) as [Hr' Hn'].
  split; [|exact Hr'].
  rewrite nrange_of_nat, map_map.
  assert (E : map (fun x : nat => (get_index (mkM (concat m) (nlen m) (N.of_nat (ncols m))) i (N.of_nat x), v))
                  (seq 0 (ncols m))
              = map (fun kv => (N.of_nat (N.to_nat i * ncols m + fst kv), snd kv))
                    (combine (seq 0 (length (repeat v (ncols m)))) (repeat v (ncols m)))).
  { rewrite repeat_length, <- combine_seq_repeat, map_map. apply map_ext. intros k.
    unfold get_index. cbn [m_cols fst snd]. f_equal. lia. }
  rewrite E, (insert_rows_run m i _ Hr Ei (repeat_length _ _)).
  cbv beta iota zeta. f_equal. unfold of_rows. cbn [m_rows m_cols m_data]. apply of_rows_eq; [reflexivity| |now rewrite Hn'].
  unfold nlen. rewrite length_insert_at by (unfold nlen in Ei; lia). lia.
Qed.

Lemma insert_row_with_refines m i vs : rect m ->
  insert_row_with (of_rows m) i vs =
    (of_rows (fst (spec_step m (OInsertRowWith i vs))), snd (spec_step m (OInsertRowWith i vs)))
  /\ rect (fst (spec_step m (OInsertRowWith i vs))).
Proof.
  intros Hr. unfold of_rows at 1. unfold insert_row_with, spec_step. cbn [m_rows m_cols m_data].
  destruct (i <=? nlen m) eqn:Ei; cbn [andb fst snd]; [|auto].
  apply N.leb_le in Ei. rewrite Nat2N.id.
  assert (Hl : length (firstn (ncols m) vs) = Nat.min (ncols m) (length vs)) by apply firstn_length.
  destruct (N.of_nat (ncols m) <=? nlen vs) eqn:Ev.
  - apply N.leb_le in Ev. unfold nlen in Ev.
    assert (Hrow : length (firstn (ncols m) vs) = ncols m) by lia.
    assert (E1 : (nlen (firstn (ncols m) vs) =? N.of_nat (ncols m)) = true)
      by (apply N.eqb_eq; unfold nlen; lia).
    rewrite E1. cbn [fst snd].
    destruct (rect_insert_at m (N.to_nat i) _ Hr Hrow) as [Hr' Hn'].
    split; [|exact Hr'].
    assert (E : map (fun cv : nat * T =>
                       (get_index (mkM (concat m) (nlen m) (N.of_nat (ncols m))) i (N.of_nat (fst cv)), snd cv))
                    (combine (seq 0 (length (firstn (ncols m) vs))) (firstn (ncols m) vs))
                = map (fun kv => (N.of_nat (N.to_nat i * ncols m + fst kv), snd kv))
                      (combine (seq 0 (length (firstn (ncols m) vs))) (firstn (ncols m) vs))).
    { apply map_ext. intros kv. unfold get_index. cbn [m_cols]. f_equal. lia. }
    rewrite E, (insert_rows_run m i _ Hr Ei Hrow).
    cbv beta iota zeta. f_equal. unfold of_rows. cbn [m_rows m_cols m_data]. apply of_rows_eq; [reflexivity| |now rewrite Hn'].
    unfold nlen. rewrite length_insert_at by (unfold nlen in Ei; lia). lia.
  - apply N.leb_gt in Ev. unfold nlen in Ev.
    assert (E1 : (nlen (firstn (ncols m) vs) =? N.of_nat (ncols m)) = false)
      by (apply N.eqb_neq; unfold nlen; lia).
    rewrite E1. cbn [fst snd]. auto.
Qed.

(* ---------- insert_column / insert_column_with ---------- *)
Lemma vec_insert_app_l k (x : T) a b : (k <= length a)%nat ->
  vec_insert k x (a ++ b) = vec_insert k x a ++ b.
Proof.
  intros H. unfold vec_insert. rewrite firstn_app, skipn_app.
  replace (k - length a)%nat with 0%nat by lia. cbn [firstn skipn].
  rewrite app_nil_r, <- app_assoc. reflexivity.
Qed.

Lemma vec_insert_app_r k (x : T) a b :
  vec_insert (length a + k) x (a ++ b) = a ++ vec_insert k x b.
Proof.
  unfold vec_insert. rewrite firstn_app, skipn_app.
  replace (length a + k - length a)%nat with k by lia.
  rewrite firstn_all2 by lia. rewrite skipn_all2 by lia. cbn [app].
  rewrite <- app_assoc. reflexivity.
Qed.

Lemma combine_snoc {A B} (l1 : list A) (l2 : list B) a b : length l1 = length l2 ->
  combine (l1 ++ [a]) (l2 ++ [b]) = combine l1 l2 ++ [(a, b)].
Proof.
  revert l2; induction l1 as [|x l1 IH]; intros [|y l2] H; try discriminate; [reflexivity|].
  cbn. f_equal. apply IH. cbn in H; lia.
Qed.

Definition ins_cols (j : nat) (vs : list T) m : list (list T) :=
  map (fun p => insert_at j (fst p) (snd p)) (combine vs m).

(* the reversed loop only ever touches rows it has not passed yet *)
Lemma insert_popping_columns (j c : nat) : (j <= c)%nat -> forall m vs tail,
  Forall (fun r => length r = c) m -> length vs = length m ->
  insert_popping (map (fun row => N.of_nat j + row * N.of_nat c) (rev (map N.of_nat (seq 0 (length m)))))
                 (rev vs) (concat m ++ tail)
  = (concat (ins_cols j vs m) ++ tail, true).
Proof.
  intros Hj m. induction m as [|last m IH] using rev_ind; intros vs tail Hall Hlen.
  - destruct vs; [reflexivity|discriminate].
  - apply Forall_app in Hall as [Hm Hlast]. inversion Hlast as [|? ? Hl _]; subst.
    rewrite app_length in Hlen. cbn [length] in Hlen.
    destruct (exists_last (l := vs)) as [vs' [vl ->]]; [intros ->; cbn in Hlen; lia|].
    rewrite app_length in Hlen. cbn [length] in Hlen.
    assert (Hlen' : length vs' = length m) by lia.
    rewrite app_length. cbn [length]. rewrite Nat.add_1_r, seq_S, map_app, !rev_app_distr.
    cbn [map rev app insert_popping Nat.add].
    rewrite concat_app. cbn [concat]. rewrite app_nil_r, <- app_assoc.
    assert (Hpos : N.to_nat (N.of_nat j + N.of_nat (length m) * N.of_nat (length last))
                   = (length (concat m) + j)%nat).
    { rewrite (length_concat_uniform m _ Hm). lia. }
    assert (Hle : (N.of_nat j + N.of_nat (length m) * N.of_nat (length last)
                   <=? nlen (concat m ++ last ++ tail)) = true).
    { apply N.leb_le. unfold nlen. rewrite !app_length, (length_concat_uniform m _ Hm). lia. }
    rewrite Hle, Hpos, vec_insert_app_r, vec_insert_app_l by lia.
    rewrite IH by auto.
    unfold ins_cols. rewrite combine_snoc by auto. rewrite map_app, concat_app. cbn [map concat fst snd].
    rewrite app_nil_r, <- app_assoc. reflexivity.
Qed.

Lemma rect_ins_cols m j vs : rect m -> (j <= ncols m)%nat -> length vs = length m ->
  rect (ins_cols j vs m) /\ ncols (ins_cols j vs m) = S (ncols m) /\ length (ins_cols j vs m) = length m.
Proof.
  intros [Hne [Hc Hall]] Hj Hl.
  assert (Hlen : length (ins_cols j vs m) = length m).
  { unfold ins_cols. rewrite map_length, combine_length. lia. }
  assert (Hall' : Forall (fun r => length r = S (ncols m)) (ins_cols j vs m)).
  { unfold ins_cols. apply Forall_forall. intros r Hin. apply in_map_iff in Hin as [[v row] [<- Hin]].
    apply in_combine_r in Hin. rewrite Forall_forall in Hall. cbn [fst snd].
    rewrite length_insert_at; [now rewrite (Hall row Hin)|]. rewrite (Hall row Hin). exact Hj. }
  assert (Hn : ncols (ins_cols j vs m) = S (ncols m)).
  { unfold ncols at 1. destruct (ins_cols j vs m) as [|r0 rest] eqn:E.
    - destruct m; [congruence|]. cbn in Hlen. discriminate.
    - now inversion Hall'. }
  repeat split; auto.
  - intros E. rewrite E in Hlen. destruct m; [congruence|discriminate].
  - lia.
  - now rewrite Hn.
Qed.

Lemma insert_column_with_refines m j vs : rect m ->
  insert_column_with (of_rows m) j vs =
    (of_rows (fst (spec_step m (OInsertColumnWith j vs))), snd (spec_step m (OInsertColumnWith j vs)))
  /\ rect (fst (spec_step m (OInsertColumnWith j vs))).
Proof.
  intros Hr. unfold of_rows at 1. unfold insert_column_with, spec_step. cbn [m_rows m_cols m_data].
  destruct (j <=? N.of_nat (ncols m)) eqn:Ej; cbn [andb fst snd]; [|auto].
  destruct (nlen m <=? nlen vs) eqn:Ev; cbn [fst snd]; [|auto].
  apply N.leb_le in Ej, Ev. unfold nlen in Ev.
  replace (nrange (nlen m)) with (map N.of_nat (seq 0 (length m))) by (unfold nlen; now rewrite nrange_of_nat).
  replace (N.to_nat (nlen m)) with (length m) by (unfold nlen; now rewrite Nat2N.id).
  set (av := firstn (length m) vs).
  assert (Hav : length av = length m) by (unfold av; rewrite firstn_length; lia).
  assert (E : map (fun row : N => get_index (mkM (concat m) (nlen m) (N.of_nat (ncols m))) row j)
                  (rev (map N.of_nat (seq 0 (length m))))
              = map (fun row => N.of_nat (N.to_nat j) + row * N.of_nat (ncols m))
                    (rev (map N.of_nat (seq 0 (length m))))).
  { apply map_ext. intros row. unfold get_index. cbn [m_cols]. lia. }
  rewrite E.
  pose proof (insert_popping_columns (N.to_nat j) (ncols m) ltac:(lia) m av [] (rect_forall m Hr) Hav) as H.
  rewrite !app_nil_r in H. rewrite H. cbv beta iota zeta.
  assert (Hcomb : combine vs m = combine av m).
  { unfold av. clear. revert vs. induction m as [|r m IH]; intros [|v vs]; cbn; auto. now rewrite IH. }
  rewrite Hcomb. fold (ins_cols (N.to_nat j) av m).
  destruct (rect_ins_cols m (N.to_nat j) av Hr ltac:(lia) Hav) as [Hr' [Hn' Hl']].
  split; [|exact Hr'].
  f_equal. unfold of_rows. cbn [m_rows m_cols m_data]. apply of_rows_eq; [reflexivity|unfold nlen; now rewrite Hl'|rewrite Hn'; lia].
Qed.

Lemma ins_cols_repeat m j v : ins_cols j (repeat v (length m)) m = map (insert_at j v) m.
Proof. unfold ins_cols. induction m as [|r m IH]; cbn; [reflexivity|now rewrite IH]. Qed.

Lemma insert_column_refines m j v : rect m ->
  insert_column (of_rows m) j v =
    (of_rows (fst (spec_step m (OInsertColumn j v))), snd (spec_step m (OInsertColumn j v)))
  /\ rect (fst (spec_step m (OInsertColumn j v))).
Proof.
  intros Hr. unfold of_rows at 1. unfold insert_column, spec_step. cbn [m_rows m_cols m_data].
  destruct (j <=? N.of_nat (ncols m)) eqn:Ej; cbn [fst snd]; [|auto].
  apply N.leb_le in Ej.
  replace (nrange (nlen m)) with (map N.of_nat (seq 0 (length m))) by (unfold nlen; now rewrite nrange_of_nat).
  set (ps := rev (map N.of_nat (seq 0 (length m)))).
  assert (Hps : length ps = length m) by (unfold ps; now rewrite rev_length, map_length, seq_length).
  assert (E : map (fun row : N => (get_index (mkM (concat m) (nlen m) (N.of_nat (ncols m))) row j, v)) ps
              = combine (map (fun row => N.of_nat (N.to_nat j) + row * N.of_nat (ncols m)) ps)
                        (rev (repeat v (length m)))).
  { rewrite <- Hps. clear. induction ps as [|p ps IH]; [reflexivity|].
    cbn [length repeat map]. replace (v :: repeat v (length ps)) with (repeat v (length ps) ++ [v]).
    - rewrite rev_app_distr. cbn [rev app combine]. rewrite <- IH. f_equal.
      unfold get_index. cbn [m_cols]. f_equal. lia.
    - clear. induction (length ps); cbn; [reflexivity|now rewrite IHn]. }
  rewrite E, <- insert_popping_each
    by (now rewrite rev_length, repeat_length, map_length).
  pose proof (insert_popping_columns (N.to_nat j) (ncols m) ltac:(lia) m (repeat v (length m)) []
                (rect_forall m Hr) (repeat_length _ _)) as H.
  rewrite !app_nil_r in H. unfold ps. rewrite H, ins_cols_repeat. cbv beta iota zeta.
  destruct (rect_ins_cols m (N.to_nat j) (repeat v (length m)) Hr ltac:(lia) (repeat_length _ _))
    as [Hr' [Hn' Hl']].
  rewrite ins_cols_repeat in *.
  split; [|exact Hr'].
  f_equal. unfold of_rows. cbn [m_rows m_cols m_data]. apply of_rows_eq; [reflexivity|unfold nlen; now rewrite Hl'|rewrite Hn'; lia].
Qed.


(* ---------- Vec::retain with the running (r, c) counters ---------- *)
Fixpoint rows_from (keep : N -> N -> bool) m (r : N) : list T :=
  match m with
  | [] => []
  | row :: rest => keep_from (keep r) 0 row ++ rows_from keep rest (r + 1)
  end.

(* finishing the current row from column c0, then continuing with the next row *)
Lemma retain_row keep C (row : list T) : forall rest r c0, c0 + nlen row = C -> row <> [] ->
  retain_rc keep C (row ++ rest) r c0 = keep_from (keep r) c0 row ++ retain_rc keep C rest (r + 1) 0.
Proof.
  induction row as [|x row IH]; intros rest r c0 Hlen Hne; [congruence|].
  unfold nlen in Hlen. cbn [length] in Hlen. cbn [app retain_rc keep_from].
  destruct row as [|y row].
  - assert (Hc : (c0 <? C - 1) = false) by (apply N.ltb_ge; cbn [length] in Hlen; lia).
    rewrite Hc. cbn [fst snd app keep_from]. destruct (keep r c0); reflexivity.
  - assert (Hc : (c0 <? C - 1) = true) by (apply N.ltb_lt; cbn [length] in Hlen; lia).
    rewrite Hc. cbn [fst snd].
    rewrite (IH rest r (c0 + 1)) by (unfold nlen; cbn [length] in *; try lia; discriminate).
    destruct (keep r c0); reflexivity.
Qed.

Lemma retain_rc_rows keep m c : (0 < c)%nat -> Forall (fun row => length row = c) m -> forall r,
  retain_rc keep (N.of_nat c) (concat m) r 0 = rows_from keep m r.
Proof.
  intros Hc Hall. induction Hall as [|row m Hrow Hm IH]; intros r; [reflexivity|].
  cbn [concat rows_from]. rewrite retain_row.
  - now rewrite IH.
  - unfold nlen. lia.
  - destruct row; [cbn in Hrow; lia|discriminate].
Qed.

Lemma keep_from_ext {A} (g h : N -> bool) : (forall x, g x = h x) -> forall (l : list A) s,
  keep_from g s l = keep_from h s l.
Proof. intros E l. induction l as [|x l IH]; intros s; cbn; [reflexivity|]. now rewrite E, IH. Qed.

Lemma keep_from_true {A} (g : N -> bool) (l : list A) : forall s,
  (forall x, s <= x -> g x = true) -> keep_from g s l = l.
Proof.
  induction l as [|x l IH]; intros s H; cbn; [reflexivity|].
  rewrite H by lia. f_equal. apply IH. intros; apply H; lia.
Qed.

Lemma keep_from_false {A} (g : N -> bool) (l : list A) : forall s,
  (forall x, g x = false) -> keep_from g s l = [].
Proof. induction l as [|x l IH]; intros s H; cbn; [reflexivity|]. rewrite H. now apply IH. Qed.

Lemma rows_from_product keep gr gc : (forall r c, keep r c = gr r && gc c) -> forall m r,
  rows_from keep m r = concat (map (keep_idx gc) (keep_from gr r m)).
Proof.
  intros E m. induction m as [|row m IH]; intros r; [reflexivity|].
  cbn [rows_from keep_from]. rewrite IH. destruct (gr r) eqn:G.
  - cbn [map concat]. f_equal. unfold keep_idx. apply keep_from_ext. intros c. now rewrite E, G.
  - rewrite keep_from_false; [reflexivity|]. intros c. now rewrite E, G.
Qed.

(* dropping one index = remove_at *)
Lemma keep_from_remove {A} (l : list A) : forall g s k,
  (forall x, g x = negb (x =? s + N.of_nat k)) -> keep_from g s l = remove_at k l.
Proof.
  induction l as [|x l IH]; intros g s k Hg; [destruct k; reflexivity|].
  cbn [keep_from]. rewrite Hg. destruct k as [|k].
  - replace (s + N.of_nat 0) with s by lia. rewrite N.eqb_refl. cbn [negb remove_at].
    apply keep_from_true. intros y Hy. rewrite Hg. apply negb_true_iff, N.eqb_neq. lia.
  - assert (E : (s =? s + N.of_nat (S k)) = false) by (apply N.eqb_neq; lia).
    rewrite E. cbn [negb remove_at]. f_equal. apply IH. intros y. rewrite Hg. f_equal. f_equal. lia.
Qed.

Lemma length_keep_from {A} (g : N -> bool) (l : list A) : forall s,
  length (keep_from g s l) = length (filter g (map (fun k => s + N.of_nat k) (seq 0 (length l)))).
Proof.
  induction l as [|x l IH]; intros s; [reflexivity|].
  cbn [keep_from length seq map filter]. replace (s + N.of_nat 0) with s by lia.
  rewrite <- seq_shift, map_map.
  rewrite (map_ext (fun k => s + N.of_nat (S k)) (fun k => s + 1 + N.of_nat k)) by (intros; lia).
  destruct (g s); cbn [length]; now rewrite IH.
Qed.

Lemma count_accepted_length {A} s (l : list A) :
  count_accepted s (nlen l) = nlen (keep_idx (slice_accepts s) l).
Proof.
  unfold count_accepted, keep_idx, nlen. rewrite length_keep_from. f_equal. f_equal. f_equal.
  unfold nrange. rewrite Nat2N.id. apply map_ext. intros; lia.
Qed.

Lemma ncols_uniform m c : Forall (fun r => length r = c) m -> m <> [] -> ncols m = c.
Proof. intros H Hne. destruct m; [congruence|]. now inversion H. Qed.

Lemma rect_uniform m c : Forall (fun r => length r = c) m -> m <> [] -> (0 < c)%nat -> rect m.
Proof.
  intros H Hne Hc. pose proof (ncols_uniform m c H Hne) as E. repeat split; auto; [lia|now rewrite E].
Qed.

Lemma Forall_keep_from {A} (P : A -> Prop) g (l : list A) : Forall P l -> forall s, Forall P (keep_from g s l).
Proof. induction 1; intros s; cbn; auto. destruct (g s); auto. Qed.

Lemma Forall_remove_at {A} (P : A -> Prop) (l : list A) : Forall P l -> forall k, Forall P (remove_at k l).
Proof. induction 1; intros [|k]; cbn; auto. Qed.

Lemma length_remove_at {A} (l : list A) : forall k, (k < length l)%nat -> length (remove_at k l) = (length l - 1)%nat.
Proof.
  induction l as [|x l IH]; intros k H; [cbn in H; lia|]. destruct k; cbn; [lia|].
  cbn in H. rewrite IH by lia. lia.
Qed.

Lemma remove_row_refines m i : rect m ->
  remove_row (of_rows m) i =
    (of_rows (fst (spec_step m (ORemoveRow i))), snd (spec_step m (ORemoveRow i)))
  /\ rect (fst (spec_step m (ORemoveRow i))).
Proof.
  intros Hr. unfold of_rows at 1. unfold remove_row, spec_step. cbn [m_rows m_cols m_data].
  destruct (1 <? nlen m) eqn:E1; cbn [andb fst snd]; [|auto].
  destruct (i <? nlen m) eqn:Ei; cbn [fst snd]; [|auto].
  apply N.ltb_lt in E1, Ei. unfold nlen in E1, Ei.
  destruct Hr as [Hne [Hc Hall]].
  assert (Hlen : length (remove_at (N.to_nat i) m) = (length m - 1)%nat) by (apply length_remove_at; lia).
  assert (Hne' : remove_at (N.to_nat i) m <> []) by (intros E; rewrite E in Hlen; cbn in Hlen; lia).
  pose proof (Forall_remove_at _ m Hall (N.to_nat i)) as Hall'.
  split; [|exact (rect_uniform _ _ Hall' Hne' Hc)].
  f_equal. unfold of_rows. apply of_rows_eq.
  - rewrite (retain_rc_rows _ m (ncols m) Hc Hall).
    rewrite (rows_from_product _ (fun r => negb (r =? i)) (fun _ => true)) by (intros; now rewrite andb_true_r).
    f_equal. rewrite (keep_from_remove m _ 0 (N.to_nat i)) by (intros x; f_equal; f_equal; lia).
    rewrite <- (map_id (remove_at (N.to_nat i) m)) at 2. apply map_ext. intros row.
    unfold keep_idx. now apply keep_from_true.
  - unfold nlen. lia.
  - now rewrite (ncols_uniform _ _ Hall' Hne').
Qed.

Lemma remove_column_refines m j : rect m ->
  remove_column (of_rows m) j =
    (of_rows (fst (spec_step m (ORemoveColumn j))), snd (spec_step m (ORemoveColumn j)))
  /\ rect (fst (spec_step m (ORemoveColumn j))).
Proof.
  intros Hr. unfold of_rows at 1. unfold remove_column, spec_step. cbn [m_rows m_cols m_data].
  destruct (1 <? N.of_nat (ncols m)) eqn:E1; cbn [andb fst snd]; [|auto].
  destruct (j <? N.of_nat (ncols m)) eqn:Ej; cbn [fst snd]; [|auto].
  apply N.ltb_lt in E1, Ej.
  destruct Hr as [Hne [Hc Hall]].
  assert (Hall' : Forall (fun r => length r = (ncols m - 1)%nat) (map (remove_at (N.to_nat j)) m)).
  { apply Forall_forall. intros r Hin. apply in_map_iff in Hin as [row [<- Hin]].
    rewrite Forall_forall in Hall. rewrite length_remove_at; rewrite (Hall row Hin); lia. }
  assert (Hne' : map (remove_at (N.to_nat j)) m <> []) by (destruct m; [congruence|discriminate]).
  split; [|apply (rect_uniform _ _ Hall' Hne'); lia].
  f_equal. unfold of_rows. apply of_rows_eq.
  - rewrite (retain_rc_rows _ m (ncols m) Hc Hall).
    rewrite (rows_from_product _ (fun _ => true) (fun c => negb (c =? j))) by reflexivity.
    f_equal. rewrite keep_from_true by reflexivity. apply map_ext. intros row.
    unfold keep_idx. apply keep_from_remove. intros x. f_equal. f_equal. lia.
  - unfold nlen. now rewrite map_length.
  - rewrite (ncols_uniform _ _ Hall' Hne'). lia.
Qed.

(* ---------- retain_mut / retain ---------- *)
Lemma retain_mut_refines m s : rect m ->
  retain_mut (of_rows m) s =
    (of_rows (fst (spec_step m (ORetainMut s))), snd (spec_step m (ORetainMut s)))
  /\ rect (fst (spec_step m (ORetainMut s))).
Proof.
  intros Hr. unfold of_rows at 1. unfold retain_mut, spec_step. cbn [m_rows m_cols m_data].
  destruct Hr as [Hne [Hc Hall]].
  set (gr := slice_accepts (s_rows s)). set (gc := slice_accepts (s_columns s)).
  set (m1 := keep_idx gr m).
  assert (Hm1 : Forall (fun r => length r = ncols m) m1) by (apply Forall_keep_from; exact Hall).
  set (c' := length (filter gc (map (fun k => 0 + N.of_nat k) (seq 0 (ncols m))))).
  assert (Hm2 : Forall (fun r => length r = c') (spec_retain s m)).
  { unfold spec_retain. fold gr gc m1. apply Forall_forall. intros r Hin.
    apply in_map_iff in Hin as [row [<- Hin]]. rewrite Forall_forall in Hm1.
    unfold keep_idx. rewrite length_keep_from, (Hm1 row Hin). reflexivity. }
  assert (Hrows : count_accepted (s_rows s) (nlen m) = nlen m1) by apply count_accepted_length.
  assert (Hcols : count_accepted (s_columns s) (N.of_nat (ncols m)) = N.of_nat c').
  { unfold count_accepted, c', nlen, gc. do 3 f_equal. unfold nrange. rewrite Nat2N.id.
    apply map_ext. intros; lia. }
  rewrite Hrows, Hcols.
  assert (Hlen2 : length (spec_retain s m) = length m1) by (unfold spec_retain; now rewrite map_length).
  destruct m1 as [|r1 m1'] eqn:Em1.
  - (* no row survives *)
    assert (Es : spec_retain s m = []) by (destruct (spec_retain s m); [reflexivity|discriminate]).
    rewrite Es. cbn. split; [reflexivity|repeat split; auto].
  - assert (E0 : (0 <? nlen (r1 :: m1')) = true) by (apply N.ltb_lt; unfold nlen; cbn [length]; lia).
    rewrite E0.
    assert (Hne2 : spec_retain s m <> []) by (intros E; rewrite E in Hlen2; discriminate).
    pose proof (ncols_uniform _ _ Hm2 Hne2) as Hn2.
    destruct (0 <? N.of_nat c') eqn:Ec.
    + apply N.ltb_lt in Ec.
      assert (Hnc : no_cells (spec_retain s m) = false).
      { unfold no_cells. destruct (spec_retain s m); [congruence|]. rewrite Hn2. apply Nat.eqb_neq. lia. }
      rewrite Hnc. cbn [fst snd].
      assert (Hd : retain_rc (slice2d_accepts s) (N.of_nat (ncols m)) (concat m) 0 0 = concat (spec_retain s m)).
      { rewrite (retain_rc_rows _ m (ncols m) Hc Hall).
        now rewrite (rows_from_product _ gr gc) by reflexivity. }
      rewrite Hd.
      assert (Hcn : concat (spec_retain s m) <> []).
      { destruct (spec_retain s m) as [|r2 rest]; [congruence|]. inversion Hm2; subst.
        destruct r2; [cbn in *; lia|discriminate]. }
      split; [|apply (rect_uniform _ _ Hm2 Hne2); lia].
      destruct (concat (spec_retain s m)) eqn:Ecc; [congruence|]. rewrite <- Ecc.
      f_equal. unfold of_rows. apply of_rows_eq; [reflexivity|unfold nlen; now rewrite Hlen2|now rewrite Hn2].
    + apply N.ltb_ge in Ec.
      assert (Hnc : no_cells (spec_retain s m) = true).
      { unfold no_cells. destruct (spec_retain s m); [reflexivity|]. rewrite Hn2. apply Nat.eqb_eq. lia. }
      rewrite Hnc. cbn [fst snd]. split; [reflexivity|repeat split; auto].
Qed.

Lemma from_flat_of_rows m : rect m -> fits m ->
  from_flat_row_major (nlen m, N.of_nat (ncols m)) (concat m) = Ok (of_rows m).
Proof.
  intros Hr Hf. unfold from_flat_row_major. cbn [fst snd].
  rewrite <- (nlen_concat m Hr). unfold fits in Hf.
  assert (E1 : (nlen (concat m) <=? usize_max) = true) by now apply N.leb_le.
  rewrite E1, N.eqb_refl. cbn [andb].
  destruct Hr as [Hne [Hc Hall]].
  destruct (concat m) eqn:E; [|unfold of_rows; now rewrite E].
  exfalso. destruct m as [|r m]; [congruence|]. inversion Hall; subst. cbn in E.
  apply app_eq_nil in E as [E _]. subst r. cbn in Hc. lia.
Qed.

Lemma retain_refines m s : rect m -> fits m ->
  impl_step (of_rows m) (ORetain s) =
    (of_rows (fst (spec_step m (ORetain s))), snd (spec_step m (ORetain s)))
  /\ rect (fst (spec_step m (ORetain s))).
Proof.
  intros Hr Hf. destruct (retain_mut_refines m s Hr) as [H1 H2].
  cbn [impl_step]. unfold retain, mclone.
  change (m_rows (of_rows m), m_cols (of_rows m)) with (nlen m, N.of_nat (ncols m)).
  change (m_data (of_rows m)) with (concat m).
  rewrite (from_flat_of_rows m Hr Hf), H1.
  change (spec_step m (ORetain s)) with (spec_step m (ORetainMut s)).
  split; [|exact H2].
  destruct (snd (spec_step m (ORetainMut s))) eqn:Es; [reflexivity|].
  f_equal. unfold spec_step in *. destruct (no_cells (spec_retain s m)); [reflexivity|discriminate].
Qed.


(* ---------- set ---------- *)
Lemma vec_set_update (row : list T) : forall j v, (j < length row)%nat ->
  vec_set row j v = Some (update_at j (fun _ => v) row).
Proof.
  induction row as [|x row IH]; intros j v H; [cbn in H; lia|]. destruct j; [reflexivity|].
  cbn [vec_set update_at]. rewrite IH by (cbn in H; lia). reflexivity.
Qed.

Lemma vec_set_app_l (a b : list T) : forall k v, (k < length a)%nat ->
  vec_set (a ++ b) k v = option_map (fun a' => a' ++ b) (vec_set a k v).
Proof.
  induction a as [|x a IH]; intros k v H; [cbn in H; lia|]. destruct k; [reflexivity|].
  cbn [app vec_set]. rewrite IH by (cbn in H; lia). now destruct (vec_set a k v).
Qed.

Lemma vec_set_app_r (a b : list T) : forall k v,
  vec_set (a ++ b) (length a + k) v = option_map (app a) (vec_set b k v).
Proof.
  induction a as [|x a IH]; intros k v; [cbn; now destruct (vec_set b k v)|].
  cbn [app length Nat.add vec_set]. rewrite IH. now destruct (vec_set b k v).
Qed.

Lemma vec_set_concat m c v : Forall (fun r => length r = c) m -> forall i j,
  (i < length m)%nat -> (j < c)%nat ->
  vec_set (concat m) (i * c + j) v = Some (concat (update_at i (update_at j (fun _ => v)) m)).
Proof.
  induction 1 as [|row m Hrow Hm IH]; intros i j Hi Hj; [cbn in Hi; lia|].
  destruct i as [|i].
  - cbn [Nat.mul Nat.add concat update_at]. rewrite vec_set_app_l by lia.
    now rewrite vec_set_update by lia.
  - cbn [concat update_at]. replace (S i * c + j)%nat with (length row + (i * c + j))%nat by lia.
    rewrite vec_set_app_r, IH by (cbn in Hi; lia). reflexivity.
Qed.

Lemma length_update_at {A} (f : A -> A) (l : list A) : forall k, length (update_at k f l) = length l.
Proof. induction l as [|x l IH]; intros [|k]; cbn; auto. Qed.

Lemma Forall_update_at {A} (P : A -> Prop) (f : A -> A) (l : list A) :
  Forall P l -> (forall x, P x -> P (f x)) -> forall k, Forall P (update_at k f l).
Proof. induction 1; intros Hf [|k]; cbn; auto. Qed.

Lemma rect_same_shape m m' : rect m -> length m' = length m ->
  Forall (fun r => length r = ncols m) m' -> rect m' /\ ncols m' = ncols m.
Proof.
  intros [Hne [Hc Hall]] Hl H.
  assert (Hne' : m' <> []) by (intros ->; destruct m; [congruence|discriminate]).
  split; [exact (rect_uniform _ _ H Hne' Hc)|exact (ncols_uniform _ _ H Hne')].
Qed.

Lemma set_refines m i j v : rect m ->
  impl_step (of_rows m) (OSet i j v) =
    (of_rows (fst (spec_step m (OSet i j v))), snd (spec_step m (OSet i j v)))
  /\ rect (fst (spec_step m (OSet i j v))).
Proof.
  intros Hr. unfold of_rows at 1. unfold impl_step, mset, spec_step. cbn [m_rows m_cols m_data].
  destruct (i <? nlen m) eqn:Ei; cbn [andb fst snd]; [|auto].
  destruct (j <? N.of_nat (ncols m)) eqn:Ej; cbn [fst snd]; [|auto].
  apply N.ltb_lt in Ei, Ej. unfold nlen in Ei.
  pose proof (rect_forall m Hr) as Hall.
  unfold get_index. cbn [m_cols].
  replace (N.to_nat (j + i * N.of_nat (ncols m))) with (N.to_nat i * ncols m + N.to_nat j)%nat by lia.
  rewrite (vec_set_concat m _ v Hall) by lia. cbn [option_map].
  destruct (rect_same_shape m (update_at (N.to_nat i) (update_at (N.to_nat j) (fun _ => v)) m) Hr)
    as [Hr' Hn'].
  { apply length_update_at. }
  { apply Forall_update_at; [exact Hall|]. intros row Hrow. now rewrite length_update_at. }
  split; [|exact Hr'].
  f_equal. unfold of_rows. apply of_rows_eq; [reflexivity| |now rewrite Hn'].
  unfold nlen. now rewrite length_update_at.
Qed.

(* ---------- map_mut / map_mut_with_index ---------- *)
Lemma map_mut_refines m f : rect m ->
  impl_step (of_rows m) (OMapMut f) =
    (of_rows (fst (spec_step m (OMapMut f))), snd (spec_step m (OMapMut f)))
  /\ rect (fst (spec_step m (OMapMut f))).
Proof.
  intros Hr. cbn [impl_step spec_step fst snd]. unfold map_mut.
  destruct (rect_same_shape m (map (map f) m) Hr) as [Hr' Hn'].
  { apply map_length. }
  { pose proof (rect_forall m Hr) as Hall. apply Forall_forall. intros r Hin.
    apply in_map_iff in Hin as [row [<- Hin]]. rewrite Forall_forall in Hall.
    now rewrite map_length, (Hall row Hin). }
  split; [|exact Hr'].
  f_equal. unfold of_rows. cbn [m_rows m_cols m_data].
  apply of_rows_eq; [apply concat_map|unfold nlen; now rewrite map_length|now rewrite Hn'].
Qed.

Lemma map_rc_row f C (row : list T) : forall rest r c0, c0 + nlen row = C -> row <> [] ->
  map_rc f C (row ++ rest) r c0 = mapi_from (fun j x => f x r j) c0 row ++ map_rc f C rest (r + 1) 0.
Proof.
  induction row as [|x row IH]; intros rest r c0 Hlen Hne; [congruence|].
  unfold nlen in Hlen. cbn [length] in Hlen. cbn [app map_rc mapi_from].
  destruct row as [|y row].
  - assert (Hc : (c0 =? C - 1) = true) by (apply N.eqb_eq; cbn [length] in Hlen; lia).
    rewrite Hc. reflexivity.
  - assert (Hc : (c0 =? C - 1) = false) by (apply N.eqb_neq; cbn [length] in Hlen; lia).
    rewrite Hc. cbn [fst snd].
    rewrite (IH rest r (c0 + 1)) by (unfold nlen; cbn [length] in *; try lia; discriminate).
    reflexivity.
Qed.

Lemma map_rc_rows f m c : (0 < c)%nat -> Forall (fun row => length row = c) m -> forall r,
  map_rc f (N.of_nat c) (concat m) r 0
  = concat (mapi_from (fun i row => mapi_from (fun j x => f x i j) 0 row) r m).
Proof.
  intros Hc Hall. induction Hall as [|row m Hrow Hm IH]; intros r; [reflexivity|].
  cbn [concat mapi_from]. rewrite map_rc_row.
  - now rewrite IH.
  - unfold nlen. lia.
  - destruct row; [cbn in Hrow; lia|discriminate].
Qed.

Lemma length_mapi_from {A B} (f : N -> A -> B) (l : list A) : forall s, length (mapi_from f s l) = length l.
Proof. induction l as [|x l IH]; intros s; cbn; auto. Qed.

Lemma Forall_mapi_from {A B} (P : A -> Prop) (Q : B -> Prop) (f : N -> A -> B) (l : list A) :
  Forall P l -> (forall k x, P x -> Q (f k x)) -> forall s, Forall Q (mapi_from f s l).
Proof. induction 1; intros Hf s; cbn; auto. Qed.

Lemma map_mut_with_index_refines m f : rect m ->
  impl_step (of_rows m) (OMapMutWithIndex f) =
    (of_rows (fst (spec_step m (OMapMutWithIndex f))), snd (spec_step m (OMapMutWithIndex f)))
  /\ rect (fst (spec_step m (OMapMutWithIndex f))).
Proof.
  intros Hr. cbn [impl_step spec_step fst snd]. unfold map_mut_with_index.
  pose proof (rect_forall m Hr) as Hall.
  set (m' := mapi_from (fun i row => mapi_from (fun j x => f x i j) 0 row) 0 m).
  destruct (rect_same_shape m m' Hr) as [Hr' Hn'].
  { apply length_mapi_from. }
  { unfold m'. apply (Forall_mapi_from (fun r => length r = ncols m)); [exact Hall|].
    intros k row Hrow. now rewrite length_mapi_from. }
  split; [|exact Hr'].
  f_equal. unfold of_rows. cbn [m_rows m_cols m_data].
  apply of_rows_eq.
  - destruct Hr as [_ [Hc _]]. apply (map_rc_rows f m (ncols m) Hc Hall).
  - unfold nlen, m'. now rewrite length_mapi_from.
  - now rewrite Hn'.
Qed.

End Ops.
