(* C19, "floats always succeed with the nearest value": the integer -> float cast of
   Model/FloatConv.v (round to nearest, ties to even, p-bit significand) answers a representable
   value, a NEAREST one among all dyadic rationals m' * 2^(e' - k) with m' < 2^p (every binary
   float of that precision, whatever its exponent — fractions included), even significand on a
   tie, exact below 2^p; and the bit pattern `float_bits` denotes that value.  Integers only. *)
From Coq Require Import ZArith Bool Lia QArith.
From EasyML Require Import Model.FloatConv Model.Whole.
Open Scope Z_scope.

Lemma pow2_pos k : 0 < 2 ^ k \/ (k < 0 /\ 2 ^ k = 0).
Proof.
  destruct (Z_lt_le_dec k 0) as [H|H]; [right; split; [exact H|apply Z.pow_neg_r; exact H]|left].
  apply Z.pow_pos_nonneg; lia.
Qed.

Lemma pow2_gt0 k : 0 <= k -> 0 < 2 ^ k.
Proof. intros H. apply Z.pow_pos_nonneg; lia. Qed.

Lemma pow2_split a b : 0 <= a -> 0 <= b -> 2 ^ (a + b) = 2 ^ a * 2 ^ b.
Proof. intros. apply Z.pow_add_r; assumption. Qed.

Lemma pow2_ge2 k : 1 <= k -> 2 <= 2 ^ k.
Proof.
  intros H. replace k with (1 + (k - 1)) by lia. rewrite pow2_split by lia.
  pose proof (pow2_gt0 (k - 1)). change (2 ^ 1) with 2. lia.
Qed.

Lemma fl_len_spec n : 0 < n -> 2 ^ (fl_len n - 1) <= n < 2 ^ fl_len n /\ 1 <= fl_len n.
Proof.
  intros H. unfold fl_len. destruct (Z.eqb_spec n 0); [lia|].
  pose proof (Z.log2_spec n H) as L. pose proof (Z.log2_nonneg n).
  replace (Z.log2 n + 1 - 1) with (Z.log2 n) by lia.
  replace (Z.succ (Z.log2 n)) with (Z.log2 n + 1) in L by lia. lia.
Qed.

Lemma fl_len_0 : fl_len 0 = 0.
Proof. reflexivity. Qed.

Lemma fl_len_small p n : 0 <= n -> 0 <= p -> (fl_len n <= p <-> n < 2 ^ p).
Proof.
  intros Hn Hp. destruct (Z.eq_dec n 0) as [->|Hz].
  - rewrite fl_len_0. pose proof (pow2_gt0 p Hp). lia.
  - pose proof (fl_len_spec n ltac:(lia)) as [[L1 L2] L3]. split; intros H.
    + apply Z.lt_le_trans with (2 ^ fl_len n); [exact L2|]. apply Z.pow_le_mono_r; lia.
    + destruct (Z_le_gt_dec (fl_len n) p) as [G|G]; [exact G|exfalso].
      assert (2 ^ p <= 2 ^ (fl_len n - 1)) by (apply Z.pow_le_mono_r; lia). lia.
Qed.

(* ---------- the anatomy of the rounding branch ---------- *)
Record anatomy (p n e q r : Z) : Prop := {
  an_e : 1 <= e;
  an_n : n = q * 2 ^ e + r;
  an_r : 0 <= r < 2 ^ e;
  an_q : 2 ^ (p - 1) <= q < 2 ^ p;
  an_half : 2 * 2 ^ (e - 1) = 2 ^ e
}.

Lemma rounding_anatomy p n : 1 <= p -> 0 <= n -> p < fl_len n ->
  anatomy p n (fl_len n - p) (n / 2 ^ (fl_len n - p)) (n mod 2 ^ (fl_len n - p)).
Proof.
  intros Hp Hn Hl.
  assert (Hpos : 0 < n).
  { destruct (Z.eq_dec n 0) as [->|]; [rewrite fl_len_0 in Hl; lia|lia]. }
  pose proof (fl_len_spec n Hpos) as [[L1 L2] L3].
  set (len := fl_len n) in *. set (e := len - p).
  assert (He : 1 <= e) by (unfold e; lia).
  pose proof (pow2_gt0 e ltac:(lia)) as Pe.
  pose proof (Z.div_mod n (2 ^ e) ltac:(lia)) as DM.
  pose proof (Z.mod_pos_bound n (2 ^ e) Pe) as MB.
  assert (E1 : 2 ^ len = 2 ^ p * 2 ^ e).
  { replace len with (p + e) by (unfold e; lia). apply pow2_split; lia. }
  assert (E2 : 2 ^ (len - 1) = 2 ^ (p - 1) * 2 ^ e).
  { replace (len - 1) with (p - 1 + e) by (unfold e; lia). apply pow2_split; lia. }
  constructor.
  - exact He.
  - lia.
  - exact MB.
  - split.
    + apply Z.div_le_lower_bound; [exact Pe|]. lia.
    + apply Z.div_lt_upper_bound; [exact Pe|]. lia.
  - replace e with (1 + (e - 1)) at 2 by lia. rewrite pow2_split by lia. reflexivity.
Qed.

(* the value answered in the rounding branch is q * 2^e or (q + 1) * 2^e, the nearer one, the
   even one on a tie; the pair is normalised *)
Lemma round_branch p n : 2 <= p -> 0 <= n -> p < fl_len n ->
  let e := fl_len n - p in let q := n / 2 ^ e in let r := n mod 2 ^ e in
  exists up : bool,
    fl_val (float_round p n) = (if up then q + 1 else q) * 2 ^ e /\
    (if up then 2 ^ e <= 2 * r else 2 * r <= 2 ^ e) /\
    (2 * r = 2 ^ e -> Z.even (fst (float_round p n)) = true) /\
    2 ^ (p - 1) <= fst (float_round p n) < 2 ^ p /\ 1 <= snd (float_round p n).
Proof.
  intros Hp Hn Hl e q r.
  pose proof (rounding_anatomy p n ltac:(lia) Hn Hl) as A. fold e q r in A. destruct A as [He Hnq Hr Hq Hh].
  unfold float_round. destruct (Z.leb_spec (fl_len n) p) as [L|_]; [lia|]. fold e q r.
  set (half := 2 ^ (e - 1)) in *.
  assert (P2 : 2 ^ p = 2 * 2 ^ (p - 1)).
  { replace p with (1 + (p - 1)) at 1 by lia. rewrite pow2_split by lia. reflexivity. }
  assert (Ev : Z.even (2 ^ (p - 1)) = true).
  { replace (p - 1) with (1 + (p - 2)) by lia. rewrite pow2_split by lia. change (2 ^ 1) with 2.
    rewrite Z.even_mul. reflexivity. }
  assert (E1 : 2 ^ (e + 1) = 2 * 2 ^ e).
  { rewrite pow2_split by lia. change (2 ^ 1) with 2. lia. }
  pose proof (pow2_gt0 (p - 1) ltac:(lia)) as Pp.
  destruct (Z.ltb_spec half r) as [G|G]; cbn [orb].
  - exists true. destruct (Z.eqb_spec (q + 1) (2 ^ p)) as [C|C]; unfold fl_val; cbn [fst snd].
    + rewrite C, E1, P2. split; [ring|]. split; [lia|]. split; [intros; exact Ev|]. lia.
    + split; [reflexivity|]. split; [lia|]. split; [intros; lia|]. lia.
  - destruct (Z.eqb_spec r half) as [T|T]; cbn [andb].
    + destruct (Z.odd q) eqn:O.
      * exists true. destruct (Z.eqb_spec (q + 1) (2 ^ p)) as [C|C]; unfold fl_val; cbn [fst snd].
        -- rewrite C, E1, P2. split; [ring|]. split; [lia|]. split; [intros; exact Ev|]. lia.
        -- split; [reflexivity|]. split; [lia|].
           split; [intros _; rewrite Z.even_add, <- Z.negb_odd, O; reflexivity|]. lia.
      * exists false. destruct (Z.eqb_spec q (2 ^ p)) as [C|C]; [lia|]. unfold fl_val; cbn [fst snd].
        split; [reflexivity|]. split; [lia|].
        split; [intros _; rewrite <- Z.negb_odd, O; reflexivity|]. lia.
    + exists false. destruct (Z.eqb_spec q (2 ^ p)) as [C|C]; [lia|]. unfold fl_val; cbn [fst snd].
      split; [reflexivity|]. split; [lia|]. split; [intros; lia|]. lia.
Qed.

(* ---------- (3) exact below 2^p ---------- *)
Theorem float_round_exact p n : 0 <= p -> 0 <= n -> n < 2 ^ p -> float_round p n = (n, 0).
Proof.
  intros Hp Hn H. unfold float_round.
  destruct (Z.leb_spec (fl_len n) p) as [L|L]; [reflexivity|].
  apply (fl_len_small p n Hn Hp) in H. lia.
Qed.

(* ---------- (1) representable (and normalised) ---------- *)
Theorem float_round_representable p n : 2 <= p -> 0 <= n ->
  0 <= fst (float_round p n) < 2 ^ p /\ 0 <= snd (float_round p n) /\
  (0 < snd (float_round p n) -> 2 ^ (p - 1) <= fst (float_round p n)).
Proof.
  intros Hp Hn. destruct (Z_le_gt_dec (fl_len n) p) as [L|L].
  - assert (H : n < 2 ^ p) by (apply fl_len_small; lia).
    rewrite float_round_exact by lia. cbn [fst snd]. lia.
  - destruct (round_branch p n Hp Hn ltac:(lia)) as [up [_ [_ [_ [B1 B2]]]]].
    pose proof (pow2_gt0 (p - 1) ltac:(lia)). lia.
Qed.

(* ---------- no float of precision p strictly between q * 2^e and (q + 1) * 2^e ---------- *)
Lemma no_float_between p q E m' e' : 1 <= p -> 2 ^ (p - 1) <= q -> 0 <= E -> 0 <= e' ->
  0 <= m' < 2 ^ p -> ~ (q * 2 ^ E < m' * 2 ^ e' < (q + 1) * 2 ^ E).
Proof.
  intros Hp Hq HE He' Hm [B1 B2].
  destruct (Z_le_gt_dec E e') as [G|G].
  - replace e' with ((e' - E) + E) in B1, B2 by lia. rewrite pow2_split in B1, B2 by lia.
    pose proof (pow2_gt0 E HE) as PE. pose proof (pow2_gt0 (e' - E) ltac:(lia)) as PD.
    set (X := m' * 2 ^ (e' - E)) in *.
    replace (m' * (2 ^ (e' - E) * 2 ^ E)) with (X * 2 ^ E) in B1, B2 by (unfold X; ring).
    assert (q < X) by (apply Z.mul_lt_mono_pos_r with (2 ^ E); assumption).
    assert (X < q + 1) by (apply Z.mul_lt_mono_pos_r with (2 ^ E); assumption).
    lia.
  - replace E with ((E - e') + e') in B1 by lia. rewrite pow2_split in B1 by lia.
    pose proof (pow2_gt0 e' He') as PE. pose proof (pow2_ge2 (E - e') ltac:(lia)) as PD.
    replace (q * (2 ^ (E - e') * 2 ^ e')) with (q * 2 ^ (E - e') * 2 ^ e') in B1 by ring.
    assert (q * 2 ^ (E - e') < m') by (apply Z.mul_lt_mono_pos_r with (2 ^ e'); assumption).
    assert (P2 : 2 ^ p = 2 * 2 ^ (p - 1)).
    { replace p with (1 + (p - 1)) at 1 by lia. rewrite pow2_split by lia. reflexivity. }
    pose proof (pow2_gt0 (p - 1) ltac:(lia)). nia.
Qed.

(* ---------- (2) nearest, ties to even ----------
   A binary float of precision p is m' * 2^z for an integer exponent z; z = e' - k with
   e', k >= 0, and the comparison is written multiplied by 2^k to stay in the integers:
   |result - n| <= |m' * 2^(e'-k) - n|. *)
Theorem float_round_nearest p n : 2 <= p -> 0 <= n ->
  forall m' e' k, 0 <= m' < 2 ^ p -> 0 <= e' -> 0 <= k ->
    Z.abs (fl_val (float_round p n) * 2 ^ k - n * 2 ^ k) <= Z.abs (m' * 2 ^ e' - n * 2 ^ k) /\
    (Z.abs (fl_val (float_round p n) * 2 ^ k - n * 2 ^ k) = Z.abs (m' * 2 ^ e' - n * 2 ^ k) ->
     m' * 2 ^ e' = fl_val (float_round p n) * 2 ^ k \/ Z.even (fst (float_round p n)) = true).
Proof.
  intros Hp Hn m' e' k Hm He' Hk.
  destruct (Z_le_gt_dec (fl_len n) p) as [L|L].
  - assert (H : n < 2 ^ p) by (apply fl_len_small; lia).
    rewrite float_round_exact by lia. unfold fl_val. cbn [fst snd]. change (2 ^ 0) with 1.
    rewrite Z.mul_1_r, Z.sub_diag. cbn [Z.abs]. split; [apply Z.abs_nonneg|].
    intros E. left. lia.
  - pose proof (rounding_anatomy p n ltac:(lia) Hn ltac:(lia)) as A.
    destruct (round_branch p n Hp Hn ltac:(lia)) as [up [V [Near [Tie _]]]].
    set (e := fl_len n - p) in *. set (q := n / 2 ^ e) in *. set (r := n mod 2 ^ e) in *.
    destruct A as [He Hnq Hr Hq Hh].
    set (S := 2 ^ k). pose proof (pow2_gt0 k Hk) as PS. fold S in PS.
    pose proof (no_float_between p q (e + k) m' e' ltac:(lia) ltac:(lia) ltac:(lia) He' Hm) as NB.
    rewrite pow2_split in NB by lia. fold S in NB.
    set (v := m' * 2 ^ e') in *. set (P := 2 ^ e) in *.
    rewrite V. clear V.
    assert (Hlo : v <= q * (P * S) \/ (q + 1) * (P * S) <= v) by lia.
    destruct up.
    + (* rounded up: P <= 2 r *)
      destruct Hlo as [B|B].
      * split; [nia|]. intros E.
        assert (2 * r = P) by nia. right. apply Tie. assumption.
      * split; [nia|]. intros E. left. nia.
    + destruct Hlo as [B|B].
      * split; [nia|]. intros E. left. nia.
      * split; [nia|]. intros E.
        assert (2 * r = P) by nia. right. apply Tie. assumption.
Qed.

(* ---------- the bit pattern denotes the rounded value ---------- *)
Theorem float_bits_value mant bias n : 1 <= mant -> 0 < n ->
  (ieee_value mant bias (float_bits mant bias n) == inject_Z (fl_val (float_round (mant + 1) n)))%Q /\
  float_bits mant bias n / 2 ^ mant = fl_len (fst (float_round (mant + 1) n)) + snd (float_round (mant + 1) n) - 1 + bias.
Proof.
  intros Hm Hn. unfold float_bits. destruct (Z.eqb_spec n 0) as [?|_]; [lia|].
  pose proof (float_round_representable (mant + 1) n ltac:(lia) ltac:(lia)) as [R1 [R2 R3]].
  destruct (float_round (mant + 1) n) as [m e] eqn:FR. cbn [fst snd] in *.
  assert (Hmpos : 0 < m).
  { destruct (Z_le_gt_dec (fl_len n) (mant + 1)) as [L|L].
    - assert (H : n < 2 ^ (mant + 1)) by (apply fl_len_small; lia).
      rewrite float_round_exact in FR by lia. injection FR as <- <-. lia.
    - destruct (round_branch (mant + 1) n ltac:(lia) ltac:(lia) ltac:(lia)) as [up [_ [_ [_ [B1 B2]]]]].
      rewrite FR in B1. cbn [fst] in B1. pose proof (pow2_gt0 (mant + 1 - 1) ltac:(lia)). lia. }
  pose proof (fl_len_spec m Hmpos) as [[L1 L2] L3].
  set (len := fl_len m) in *.
  assert (Hlen : len <= mant + 1).
  { apply (fl_len_small (mant + 1) m); lia. }
  assert (He0 : 0 < e -> len = mant + 1).
  { intros H. specialize (R3 H). replace (mant + 1 - 1) with mant in R3 by lia.
    destruct (Z_le_gt_dec (mant + 1) len); [lia|exfalso].
    assert (2 ^ len <= 2 ^ mant) by (apply Z.pow_le_mono_r; lia). lia. }
  set (sig := m * 2 ^ (mant + 1 - len)).
  pose proof (pow2_gt0 (mant + 1 - len) ltac:(lia)) as Psh.
  pose proof (pow2_gt0 mant ltac:(lia)) as Pm.
  assert (S1 : 2 ^ mant <= sig < 2 * 2 ^ mant).
  { unfold sig.
    assert (E1 : 2 ^ mant = 2 ^ (len - 1) * 2 ^ (mant + 1 - len)).
    { rewrite <- pow2_split by lia. f_equal. lia. }
    assert (E2 : 2 * 2 ^ mant = 2 ^ len * 2 ^ (mant + 1 - len)).
    { rewrite <- pow2_split by lia. replace (len + (mant + 1 - len)) with (1 + mant) by lia.
      rewrite pow2_split by lia. reflexivity. }
    rewrite E1 at 1. rewrite E2. nia. }
  set (E := len + e - 1 + bias).
  assert (D : (E * 2 ^ mant + (sig - 2 ^ mant)) / 2 ^ mant = E /\
              (E * 2 ^ mant + (sig - 2 ^ mant)) mod 2 ^ mant = sig - 2 ^ mant).
  { split.
    - rewrite Z.add_comm, Z.div_add by lia. rewrite Z.div_small by lia. lia.
    - rewrite Z.add_comm, Z.mod_add by lia. apply Z.mod_small. lia. }
  destruct D as [D1 D2]. split; [|exact D1].
  unfold ieee_value. rewrite D1, D2. unfold E.
  replace (2 ^ mant + (sig - 2 ^ mant)) with sig by lia.
  replace (len + e - 1 + bias - bias - mant) with (len + e - 1 - mant) by lia.
  unfold fl_val. cbn [fst snd].
  destruct (Z.leb_spec 0 (len + e - 1 - mant)) as [G|G].
  - assert (EQ : sig * 2 ^ (len + e - 1 - mant) = m * 2 ^ e).
    { unfold sig. rewrite <- Z.mul_assoc, <- pow2_split by lia. f_equal. f_equal. lia. }
    rewrite EQ. reflexivity.
  - assert (e = 0) by lia. subst e. change (2 ^ 0) with 1. rewrite Z.mul_1_r.
    replace (- (len + 0 - 1 - mant)) with (mant + 1 - len) by lia.
    unfold Qeq. cbn [Qnum Qden inject_Z]. rewrite Z2Pos.id by lia. unfold sig. lia.
Qed.

(* `from_usize` never overflows a float: the biased exponent stays below the all-ones field *)
Theorem float_bits_finite mant bias n : 1 <= mant -> 0 < n -> n < 2 ^ 64 -> mant + 1 <= 64 ->
  bias <= float_bits mant bias n / 2 ^ mant <= 64 + bias.
Proof.
  intros Hm Hn Hb Hmant.
  pose proof (float_bits_value mant bias n Hm Hn) as [_ E]. rewrite E. clear E.
  set (p := mant + 1).
  destruct (Z_le_gt_dec (fl_len n) p) as [L|L].
  - assert (H : n < 2 ^ p) by (apply fl_len_small; lia).
    rewrite float_round_exact by lia. cbn [fst snd].
    pose proof (fl_len_spec n Hn). lia.
  - destruct (round_branch p n ltac:(lia) ltac:(lia) ltac:(lia)) as [up [V [_ [_ [B1 B2]]]]].
    pose proof (float_round_representable p n ltac:(lia) ltac:(lia)) as [R1 _].
    assert (Hlen : fl_len (fst (float_round p n)) = p).
    { pose proof (pow2_gt0 (p - 1) ltac:(lia)).
      pose proof (fl_len_spec (fst (float_round p n)) ltac:(lia)) as [[L1 L2] L3].
      destruct (Z_lt_le_dec (fl_len (fst (float_round p n))) p) as [A|A].
      - assert (2 ^ fl_len (fst (float_round p n)) <= 2 ^ (p - 1)) by (apply Z.pow_le_mono_r; lia). lia.
      - destruct (Z_lt_le_dec p (fl_len (fst (float_round p n)))) as [A'|A']; [|lia].
        assert (2 ^ p <= 2 ^ (fl_len (fst (float_round p n)) - 1)) by (apply Z.pow_le_mono_r; lia). lia. }
    rewrite Hlen.
    assert (Hle : snd (float_round p n) <= 64 - p + 1).
    { assert (fl_len n <= 64) by (apply fl_len_small; lia).
      unfold float_round. destruct (Z.leb_spec (fl_len n) p); [lia|].
      match goal with |- context [if ?c then _ else _] => destruct c end; cbn [snd]; lia. }
    lia.
Qed.

(* ---------- the two formats of from_usize_float!, counts of a 64-bit usize ---------- *)
Theorem usize_float_bits (n : N) : (n < 18446744073709551616)%N ->
  f32_bits_of_usize 0 = 0 /\ f64_bits_of_usize 0 = 0 /\
  ((0 < n)%N ->
   (ieee_value 23 127 (f32_bits_of_usize n) == inject_Z (fl_val (float_round 24 (Z.of_N n))))%Q /\
   127 <= f32_bits_of_usize n / 2 ^ 23 <= 191 /\
   (ieee_value 52 1023 (f64_bits_of_usize n) == inject_Z (fl_val (float_round 53 (Z.of_N n))))%Q /\
   1023 <= f64_bits_of_usize n / 2 ^ 52 <= 1087).
Proof.
  intros Hn. split; [reflexivity|]. split; [reflexivity|]. intros Hp.
  assert (H0 : 0 < Z.of_N n) by lia.
  assert (H1 : Z.of_N n < 2 ^ 64) by (change (2 ^ 64) with 18446744073709551616; lia).
  unfold f32_bits_of_usize, f64_bits_of_usize.
  split; [exact (proj1 (float_bits_value 23 127 _ ltac:(lia) H0))|].
  split; [pose proof (float_bits_finite 23 127 _ ltac:(lia) H0 H1 ltac:(lia)); lia|].
  split; [exact (proj1 (float_bits_value 52 1023 _ ltac:(lia) H0))|].
  pose proof (float_bits_finite 52 1023 _ ltac:(lia) H0 H1 ltac:(lia)); lia.
Qed.

(* concrete instances: 2^24 + 1 is a tie and goes to the even neighbour 2^24; 2^24 + 3 is a tie
   and goes UP to 2^24 + 4; usize::MAX rounds into the next binade (2^64) in both formats *)
Example float_round_examples :
  float_round 24 16777217 = (8388608, 1) /\ float_round 24 16777219 = (8388610, 1) /\
  float_round 24 18446744073709551615 = (8388608, 41) /\
  float_round 53 18446744073709551615 = (4503599627370496, 12) /\
  float_round 53 9007199254740993 = (4503599627370496, 1) /\
  f32_bits_of_usize 16777217 = 1266679808 /\ f64_bits_of_usize 1 = 4607182418800017408 /\
  f32_bits_of_usize 18446744073709551615 = 1602224128.
Proof. vm_compute. repeat split. Qed.
