(* C12: Matrix::partition.  The nested split_at_mut bookkeeping of Model/MatrixViews.v
   (cursor / remaining arithmetic) computes exactly the grid of parts described by the intervals
   between consecutive boundaries; it panics exactly when a boundary list decreases somewhere
   (including past its end: an entry larger than the length) — whatever check_axis let through. *)
From Coq Require Import List ZArith NArith Bool Arith Lia Sorted.
From EasyML Require Import Base.Sx Model.Shape Model.MatrixViews Proofs.C12P.
Import ListNotations.
Local Open Scope N_scope.

(* ---------- boundary lists ---------- *)
(* non-decreasing from `index` on *)
Fixpoint chain_b (index : N) (bounds : list N) : bool :=
  match bounds with
  | [] => true
  | b :: rest => (index <=? b) && chain_b b rest
  end.

Fixpoint last_bound (index : N) (bounds : list N) : N :=
  match bounds with
  | [] => index
  | b :: rest => last_bound b rest
  end.

(* (lo, hi) of every interval between consecutive boundaries, the first one starting at index *)
Definition intervals (index : N) (bounds : list N) : list (N * N) := combine (index :: bounds) bounds.

Lemma chain_last index bounds : chain_b index bounds = true -> index <= last_bound index bounds.
Proof.
  revert index; induction bounds as [|b rest IH]; intros index H; cbn in *; [lia|].
  apply andb_true_iff in H as [H1 H2]. apply N.leb_le in H1. specialize (IH b H2). lia.
Qed.

Lemma last_bound_app index l x : last_bound index (l ++ [x]) = x.
Proof. revert index; induction l as [|b l IH]; intros index; cbn; auto. Qed.

(* ---------- one row ---------- *)
Fixpoint row_slices (bounds : list N) (index cursor : N) : list (N * N) :=
  match bounds with
  | [] => []
  | b :: rest => (cursor, b - index) :: row_slices rest b (cursor + (b - index))
  end.

Lemma split_row_spec bounds : forall index cursor remaining,
  split_row bounds index cursor remaining =
  if chain_b index bounds && (last_bound index bounds - index <=? remaining)
  then Some (row_slices bounds index cursor,
             (cursor + (last_bound index bounds - index), remaining - (last_bound index bounds - index)))
  else None.
Proof.
  induction bounds as [|b rest IH]; intros index cursor remaining.
  - cbn [split_row chain_b last_bound row_slices andb].
    rewrite N.sub_diag. replace (0 <=? remaining) with true by (symmetry; apply N.leb_le; lia).
    do 3 f_equal; lia.
  - cbn [split_row chain_b last_bound row_slices].
    destruct (N.ltb_spec b index) as [Hlt|Hge].
    + replace (index <=? b) with false by (symmetry; apply N.leb_gt; lia). reflexivity.
    + replace (index <=? b) with true by (symmetry; apply N.leb_le; lia). cbn [andb].
      destruct (N.ltb_spec remaining (b - index)) as [Hr|Hr].
      * destruct (chain_b b rest) eqn:Hc; [|reflexivity]. cbn [andb].
        pose proof (chain_last b rest Hc).
        replace (last_bound b rest - index <=? remaining) with false by (symmetry; apply N.leb_gt; lia).
        reflexivity.
      * rewrite IH. destruct (chain_b b rest) eqn:Hc; [|reflexivity]. cbn [andb].
        pose proof (chain_last b rest Hc).
        destruct (N.leb_spec (last_bound b rest - b) (remaining - (b - index))) as [H1|H1].
        -- replace (last_bound b rest - index <=? remaining) with true by (symmetry; apply N.leb_le; lia).
           do 3 f_equal; lia.
        -- replace (last_bound b rest - index <=? remaining) with false by (symmetry; apply N.leb_gt; lia).
           reflexivity.
Qed.

(* the slices of one row, read off the intervals *)
Lemma row_slices_intervals bounds : forall index cursor, chain_b index bounds = true ->
  row_slices bounds index cursor
  = map (fun lh => (cursor + (fst lh - index), snd lh - fst lh)) (intervals index bounds).
Proof.
  induction bounds as [|b rest IH]; intros index cursor H; [reflexivity|].
  cbn in H. apply andb_true_iff in H as [H1 H2]. apply N.leb_le in H1.
  unfold intervals in *. cbn [row_slices combine map fst snd]. f_equal.
  - f_equal. lia.
  - rewrite (IH b _ H2). apply map_ext_in. intros [lo hi] Hin. cbn [fst snd].
    assert (b <= lo).
    { clear - Hin H2. revert b Hin H2. induction rest as [|x rest IH]; intros b Hin H2; [destruct Hin|].
      cbn in Hin, H2. apply andb_true_iff in H2 as [Ha Hb]. apply N.leb_le in Ha.
      destruct Hin as [E|Hin]; [injection E as <- <-; lia|]. specialize (IH x Hin Hb). lia. }
    f_equal. lia.
Qed.

(* ---------- a band of rows ---------- *)
Lemma split_band_spec bounds n : chain_b 0 bounds = true -> forall cursor remaining,
  let W := last_bound 0 bounds in
  split_band n bounds cursor remaining =
  if N.of_nat n * W <=? remaining
  then Some (map (fun k => row_slices bounds 0 (cursor + N.of_nat k * W)) (seq 0 n),
             (cursor + N.of_nat n * W, remaining - N.of_nat n * W))
  else None.
Proof.
  intros Hc. induction n as [|n IH]; intros cursor remaining W.
  - cbn [split_band seq map]. replace (N.of_nat 0 * W) with 0 by lia.
    replace (0 <=? remaining) with true by (symmetry; apply N.leb_le; lia).
    do 3 f_equal; lia.
  - cbn [split_band]. rewrite split_row_spec, Hc. cbn [andb]. fold W.
    replace (W - 0) with W by lia.
    destruct (N.leb_spec W remaining) as [H1|H1].
    + rewrite IH. fold W.
      destruct (N.leb_spec (N.of_nat n * W) (remaining - W)) as [H2|H2].
      * replace (N.of_nat (S n) * W <=? remaining) with true by (symmetry; apply N.leb_le; lia).
        cbn [seq map]. rewrite <- seq_shift, map_map.
        f_equal. f_equal.
        -- f_equal; [f_equal; lia|]. apply map_ext. intros k. f_equal. lia.
        -- f_equal; lia.
      * replace (N.of_nat (S n) * W <=? remaining) with false by (symmetry; apply N.leb_gt; lia).
        reflexivity.
    + replace (N.of_nat (S n) * W <=? remaining) with false by (symmetry; apply N.leb_gt; lia).
      reflexivity.
Qed.

Lemma split_band_bad bounds n cursor remaining : chain_b 0 bounds = false ->
  split_band (S n) bounds cursor remaining = None.
Proof. intros H. cbn [split_band]. now rewrite split_row_spec, H. Qed.

Lemma map_nth_seq' {A B} (f : A -> B) (d : A) (l : list A) :
  map (fun k => f (nth k l d)) (seq 0 (length l)) = map f l.
Proof.
  induction l as [|x l IH]; [reflexivity|]. cbn [length seq map nth]. f_equal.
  rewrite <- seq_shift, map_map. exact IH.
Qed.

(* regrouping the rows of a band by column interval *)
Lemma band_parts_spec bounds cursor n : chain_b 0 bounds = true ->
  let W := last_bound 0 bounds in
  band_parts (length bounds)
             (map (fun k => row_slices bounds 0 (cursor + N.of_nat k * W)) (seq 0 n))
  = map (fun lh => map (fun k => (cursor + N.of_nat k * W + fst lh, snd lh - fst lh)) (seq 0 n))
        (intervals 0 bounds).
Proof.
  intros Hc W. unfold band_parts.
  assert (Hlen : length (intervals 0 bounds) = length bounds).
  { unfold intervals. rewrite combine_length. cbn [length]. lia. }
  rewrite <- Hlen, <- (map_nth_seq' _ (0, 0) (intervals 0 bounds)).
  apply map_ext_in. intros c Hcin. apply in_seq in Hcin. rewrite map_map.
  apply map_ext. intros k. rewrite (row_slices_intervals bounds 0 _ Hc).
  rewrite (nth_indep _ (0, 0) ((fun lh => (cursor + N.of_nat k * W + (fst lh - 0), snd lh - fst lh)) (0, 0)))
    by (rewrite map_length; lia).
  rewrite (map_nth (fun lh => (cursor + N.of_nat k * W + (fst lh - 0), snd lh - fst lh))).
  f_equal. lia.
Qed.

(* ---------- all bands ---------- *)
(* the slices of the part at row interval (lo, hi) and column interval (clo, chi) *)
Definition grid_slices (W : N) (rlh clh : N * N) : list (N * N) :=
  map (fun k => ((fst rlh + N.of_nat k) * W + fst clh, snd clh - fst clh))
      (seq 0 (N.to_nat (snd rlh - fst rlh))).

Lemma split_bands_spec cb : chain_b 0 cb = true -> forall rb index cursor remaining,
  let W := last_bound 0 cb in
  cursor = index * W ->
  split_bands rb cb index cursor remaining =
  if chain_b index rb && ((last_bound index rb - index) * W <=? remaining)
  then Some (concat (map (fun rlh => map (grid_slices W rlh) (intervals 0 cb)) (intervals index rb)))
  else None.
Proof.
  intros Hc rb. induction rb as [|b rest IH]; intros index cursor remaining W Hcur.
  - cbn [split_bands chain_b last_bound andb intervals combine map concat].
    replace ((index - index) * W) with 0 by lia.
    now replace (0 <=? remaining) with true by (symmetry; apply N.leb_le; lia).
  - cbn [split_bands chain_b last_bound].
    destruct (N.ltb_spec b index) as [Hlt|Hge].
    + replace (index <=? b) with false by (symmetry; apply N.leb_gt; lia). reflexivity.
    + replace (index <=? b) with true by (symmetry; apply N.leb_le; lia). cbn [andb].
      rewrite (split_band_spec cb _ Hc). fold W. rewrite N2Nat.id.
      destruct (N.leb_spec ((b - index) * W) remaining) as [H1|H1].
      * rewrite (IH b (cursor + (b - index) * W) (remaining - (b - index) * W)) by (subst cursor; nia).
        fold W. destruct (chain_b b rest) eqn:Hcr; cbn [andb].
        -- pose proof (chain_last b rest Hcr).
           destruct (N.leb_spec ((last_bound b rest - b) * W) (remaining - (b - index) * W)) as [H2|H2].
           ++ replace ((last_bound b rest - index) * W <=? remaining) with true
                by (symmetry; apply N.leb_le; nia).
              f_equal. change (intervals index (b :: rest)) with ((index, b) :: intervals b rest).
              cbn [map concat]. f_equal.
              rewrite (band_parts_spec cb cursor _ Hc). fold W.
              apply map_ext. intros clh. unfold grid_slices. cbn [fst snd].
              apply map_ext. intros k. f_equal. subst cursor. nia.
           ++ replace ((last_bound b rest - index) * W <=? remaining) with false
                by (symmetry; apply N.leb_gt; nia).
              reflexivity.
        -- reflexivity.
      * destruct (chain_b b rest) eqn:Hcr; cbn [andb]; [|reflexivity].
        pose proof (chain_last b rest Hcr).
        replace ((last_bound b rest - index) * W <=? remaining) with false
          by (symmetry; apply N.leb_gt; nia).
        reflexivity.
Qed.

Lemma split_bands_bad_rows cb rb : forall index cursor remaining,
  chain_b index rb = false -> split_bands rb cb index cursor remaining = None.
Proof.
  induction rb as [|b rest IH]; intros index cursor remaining H; [discriminate|].
  cbn [split_bands]. cbn in H. destruct (N.ltb_spec b index) as [Hlt|Hge]; [reflexivity|].
  replace (index <=? b) with true in H by (symmetry; apply N.leb_le; lia). cbn [andb] in H.
  destruct (split_band _ _ _ _) as [[band [c r]]|]; [|reflexivity]. now rewrite (IH b c r H).
Qed.

Lemma split_bands_bad_cols cb : chain_b 0 cb = false -> forall rb index cursor remaining,
  index < last_bound index rb -> split_bands rb cb index cursor remaining = None.
Proof.
  intros Hc rb. induction rb as [|b rest IH]; intros index cursor remaining H; [cbn in H; lia|].
  cbn [split_bands]. cbn [last_bound] in H.
  destruct (N.ltb_spec b index) as [Hlt|Hge]; [reflexivity|].
  destruct (N.to_nat (b - index)) as [|n] eqn:En.
  - assert (b = index) by lia. subst b. cbn [split_band]. now rewrite (IH index cursor remaining H).
  - now rewrite (split_band_bad cb n _ _ Hc).
Qed.

(* ---------- facts about boundary lists ---------- *)
Lemma interval_bounds bounds : forall lo lh, chain_b lo bounds = true -> In lh (intervals lo bounds) ->
  lo <= fst lh /\ fst lh <= snd lh /\ snd lh <= last_bound lo bounds.
Proof.
  induction bounds as [|b rest IH]; intros lo lh Hc Hin; [destruct Hin|].
  cbn in Hc. apply andb_true_iff in Hc as [H1 H2]. apply N.leb_le in H1.
  change (intervals lo (b :: rest)) with ((lo, b) :: intervals b rest) in Hin.
  pose proof (chain_last b rest H2). cbn [last_bound].
  destruct Hin as [<-|Hin]; cbn [fst snd]; [lia|]. specialize (IH b lh H2 Hin). lia.
Qed.

Lemma interval_cover bounds : forall lo x, chain_b lo bounds = true -> lo <= x < last_bound lo bounds ->
  exists lh, In lh (intervals lo bounds) /\ fst lh <= x < snd lh.
Proof.
  induction bounds as [|b rest IH]; intros lo x Hc Hx; [cbn in Hx; lia|].
  cbn in Hc. apply andb_true_iff in Hc as [H1 H2]. apply N.leb_le in H1.
  change (intervals lo (b :: rest)) with ((lo, b) :: intervals b rest). cbn [last_bound] in Hx.
  destruct (N.ltb_spec x b) as [Hlt|Hge].
  - exists (lo, b). split; [now left|cbn; lia].
  - destruct (IH b x H2 ltac:(lia)) as [lh [Hin Hlh]]. exists lh. split; [now right|exact Hlh].
Qed.

(* intervals are ordered: the one at a later position starts where an earlier one has ended *)
Lemma interval_order bounds : forall lo r r' lh lh', chain_b lo bounds = true -> (r < r')%nat ->
  nth_error (intervals lo bounds) r = Some lh -> nth_error (intervals lo bounds) r' = Some lh' ->
  snd lh <= fst lh'.
Proof.
  induction bounds as [|b rest IH]; intros lo r r' lh lh' Hc Hlt E E'; [destruct r; discriminate|].
  cbn in Hc. apply andb_true_iff in Hc as [H1 H2].
  change (intervals lo (b :: rest)) with ((lo, b) :: intervals b rest) in E, E'.
  destruct r' as [|r']; [lia|]. cbn [nth_error] in E'.
  destruct r as [|r]; cbn [nth_error] in E.
  - injection E as <-. cbn [snd]. apply nth_error_In in E'.
    destruct (interval_bounds rest b lh' H2 E') as [Hb _]. exact Hb.
  - apply (IH b r r' lh lh' H2); auto; lia.
Qed.

Lemma interval_unique bounds lo r r' lh lh' x : chain_b lo bounds = true ->
  nth_error (intervals lo bounds) r = Some lh -> nth_error (intervals lo bounds) r' = Some lh' ->
  fst lh <= x < snd lh -> fst lh' <= x < snd lh' -> r = r'.
Proof.
  intros Hc E E' Hx Hx'. destruct (Nat.lt_trichotomy r r') as [H|[H|H]]; [|exact H|].
  - pose proof (interval_order bounds lo r r' lh lh' Hc H E E'). lia.
  - pose proof (interval_order bounds lo r' r lh' lh Hc H E' E). lia.
Qed.

Lemma chain_all_le bounds : forall lo x, chain_b lo bounds = true -> In x bounds -> x <= last_bound lo bounds.
Proof.
  induction bounds as [|b rest IH]; intros lo x Hc Hin; [destruct Hin|].
  cbn in Hc. apply andb_true_iff in Hc as [H1 H2]. cbn [last_bound].
  destruct Hin as [<-|Hin]; [apply (chain_last _ _ H2)|apply (IH b x H2 Hin)].
Qed.

Lemma chain_app l1 : forall lo l2, chain_b lo (l1 ++ l2) = true -> chain_b (last_bound lo l1) l2 = true.
Proof.
  induction l1 as [|b l1 IH]; intros lo l2 H; [exact H|].
  cbn in H. apply andb_true_iff in H as [_ H]. cbn [last_bound]. now apply IH.
Qed.

(* the documented precondition: strictly ascending, every entry <= len *)
Lemma sorted_chain l : forall lo len, StronglySorted N.lt l -> Forall (fun x => lo <= x /\ x <= len) l ->
  lo <= len -> chain_b lo (l ++ [len]) = true.
Proof.
  induction l as [|x l IH]; intros lo len Hs Hb Hlo.
  - cbn. now replace (lo <=? len) with true by (symmetry; apply N.leb_le; lia).
  - inversion Hs as [|? ? Hs' Hx]; subst. inversion Hb as [|? ? [Hx1 Hx2] Hb']; subst.
    cbn [app chain_b]. replace (lo <=? x) with true by (symmetry; apply N.leb_le; lia). cbn [andb].
    apply IH; auto. rewrite Forall_forall in *. intros y Hy. specialize (Hx y Hy). specialize (Hb' y Hy). lia.
Qed.

Lemma sorted_check_axis l len : StronglySorted N.lt l -> Forall (fun x => x <= len) l ->
  check_axis l len = true.
Proof.
  intros Hs Hb. unfold check_axis. destruct l as [|x l]; [reflexivity|].
  inversion Hs as [|? ? _ Hx]; subst. inversion Hb as [|? ? Hx1 Hb']; subst.
  cbn [check_axis_from]. replace (x <=? len) with true by (symmetry; apply N.leb_le; lia).
  clear Hs Hb. induction l as [|y l IH]; [reflexivity|].
  inversion Hx as [|? ? Hy Hx']; subst. inversion Hb' as [|? ? Hy1 Hb'']; subst.
  cbn [check_axis_from]. replace (y <=? len) with true by (symmetry; apply N.leb_le; lia).
  replace (x <? y) with true by (symmetry; apply N.ltb_lt; lia). now apply IH.
Qed.

(* a list is refused when some entry exceeds the length or some entry is smaller than the one
   before it *)
Definition bad_list (len : N) (l : list N) : Prop :=
  (exists x, In x l /\ len < x) \/ (exists l1 a b l2, l = l1 ++ a :: b :: l2 /\ b < a).

Lemma bad_list_no_chain len l : bad_list len l -> chain_b 0 (l ++ [len]) = false.
Proof.
  intros H. destruct (chain_b 0 (l ++ [len])) eqn:Hc; [exfalso|reflexivity].
  destruct H as [[x [Hin Hx]]|[l1 [a [b [l2 [-> Hba]]]]]].
  - pose proof (chain_all_le _ 0 x Hc (in_or_app _ _ _ (or_introl Hin))) as H.
    rewrite last_bound_app in H. lia.
  - rewrite <- app_assoc in Hc. apply chain_app in Hc. cbn in Hc.
    apply andb_true_iff in Hc as [_ Hc]. apply andb_true_iff in Hc as [Hc _]. apply N.leb_le in Hc. lia.
Qed.

(* ---------- Matrix::partition ---------- *)
(* the grid of parts, row interval by row interval, column interval by column interval *)
Definition grid_parts (rows cols : N) (rp cp : list N) : list part :=
  concat (map (fun rlh => map (fun clh => make_part (grid_slices cols rlh clh)) (intervals 0 (cp ++ [cols])))
              (intervals 0 (rp ++ [rows]))).

Theorem partition_spec rows cols rp cp : 1 <= rows ->
  partition rows cols rp cp =
  if check_axis rp rows && check_axis cp cols && chain_b 0 (rp ++ [rows]) && chain_b 0 (cp ++ [cols])
  then Ok (grid_parts rows cols rp cp) else Panic.
Proof.
  intros Hrows. unfold partition.
  destruct (check_axis rp rows); cbn [andb]; [|reflexivity].
  destruct (check_axis cp cols); cbn [andb]; [|reflexivity].
  destruct (chain_b 0 (cp ++ [cols])) eqn:Hcc.
  - rewrite (split_bands_spec _ Hcc (rp ++ [rows]) 0 0 (rows * cols)) by lia.
    rewrite !last_bound_app. rewrite andb_true_r.
    destruct (chain_b 0 (rp ++ [rows])); cbn [andb]; [|reflexivity].
    replace ((rows - 0) * cols <=? rows * cols) with true by (symmetry; apply N.leb_le; lia).
    f_equal. unfold grid_parts. rewrite concat_map, map_map. f_equal. apply map_ext. intros rlh.
    now rewrite map_map.
  - rewrite andb_false_r. rewrite split_bands_bad_cols; [reflexivity|exact Hcc|].
    rewrite last_bound_app. lia.
Qed.

Theorem partition_accepts rows cols rp cp : 1 <= rows ->
  StronglySorted N.lt rp -> Forall (fun x => x <= rows) rp ->
  StronglySorted N.lt cp -> Forall (fun x => x <= cols) cp ->
  partition rows cols rp cp = Ok (grid_parts rows cols rp cp).
Proof.
  intros Hrows Sr Br Sc Bc. rewrite (partition_spec rows cols rp cp Hrows).
  rewrite (sorted_check_axis rp rows Sr Br), (sorted_check_axis cp cols Sc Bc).
  rewrite (sorted_chain rp 0 rows Sr), (sorted_chain cp 0 cols Sc); try reflexivity; try lia;
    (eapply Forall_impl; [|eassumption]; intros; cbn in *; lia).
Qed.

Theorem partition_rejects rows cols rp cp : 1 <= rows ->
  bad_list rows rp \/ bad_list cols cp -> partition rows cols rp cp = Panic.
Proof.
  intros Hrows H. rewrite (partition_spec rows cols rp cp Hrows).
  destruct H as [H|H]; rewrite (bad_list_no_chain _ _ H); now rewrite ?andb_false_r.
Qed.

(* ---------- the parts ---------- *)
Lemma nth_error_map_seq {A} (f : nat -> A) n k : (k < n)%nat -> nth_error (map f (seq 0 n)) k = Some (f k).
Proof.
  intros H. rewrite nth_error_map, (nth_error_nth' _ 0%nat) by (rewrite seq_length; lia).
  now rewrite seq_nth by lia.
Qed.

(* size (normalised to 0 x 0 when empty) and cell mapping of the part at a row interval and a
   column interval *)
Lemma grid_part_get W rlo rhi clo chi : rlo <= rhi -> clo <= chi ->
  let p := make_part (grid_slices W (rlo, rhi) (clo, chi)) in
  let h := rhi - rlo in let w := chi - clo in
  (p_rows p, p_cols p) = (if (h =? 0) || (w =? 0) then (0, 0) else (h, w)) /\
  forall i j, try_get (VPart p) i j =
    if (i <? h) && (j <? w) then Cell ((rlo + i) * W + clo + j) else Absent.
Proof.
  intros Hr Hc p h w. unfold p, make_part, grid_slices. cbn [fst snd]. fold h w.
  rewrite map_length, seq_length, N2Nat.id.
  destruct (N.to_nat h) as [|n] eqn:Eh.
  - assert (h = 0) by lia. cbn [seq map]. cbn [N.eqb]. replace (h =? 0) with true by (symmetry; apply N.eqb_eq; lia).
    cbn [orb p_rows p_cols]. split; [reflexivity|]. intros i j. cbn [try_get p_rows p_cols].
    replace (i <? h) with false by (symmetry; apply N.ltb_ge; lia). cbn [andb].
    now replace (0 <=? i) with true by (symmetry; apply N.leb_le; lia).
  - cbn [seq map]. replace (h =? 0) with false by (symmetry; apply N.eqb_neq; lia). cbn [orb].
    destruct (w =? 0) eqn:Ew.
    + cbn [p_rows p_cols]. split; [reflexivity|]. intros i j. cbn [try_get p_rows p_cols].
      apply N.eqb_eq in Ew. replace (j <? w) with false by (symmetry; apply N.ltb_ge; lia).
      rewrite andb_false_r. now replace (0 <=? i) with true by (symmetry; apply N.leb_le; lia).
    + cbn [p_rows p_cols]. split; [reflexivity|]. intros i j. cbn [try_get p_rows p_cols p_slices].
      destruct (N.ltb_spec i h) as [Hi|Hi]; cbn [andb].
      * replace (h <=? i) with false by (symmetry; apply N.leb_gt; lia). cbn [orb].
        destruct (N.ltb_spec j w) as [Hj|Hj].
        -- replace (w <=? j) with false by (symmetry; apply N.leb_gt; lia).
           change (((rlo + N.of_nat 0) * W + clo, w)
                     :: map (fun k => ((rlo + N.of_nat k) * W + clo, w)) (seq 1 n))
             with (map (fun k => ((rlo + N.of_nat k) * W + clo, w)) (seq 0 (S n))).
           rewrite nth_error_map_seq by lia. rewrite N2Nat.id.
           replace (j <? w) with true by (symmetry; apply N.ltb_lt; lia). reflexivity.
        -- now replace (w <=? j) with true by (symmetry; apply N.leb_le; lia).
      * now replace (h <=? i) with true by (symmetry; apply N.leb_le; lia).
Qed.

Lemma grid_part_ok rows cols rlo rhi clo chi : rlo <= rhi -> rhi <= rows -> clo <= chi -> chi <= cols ->
  part_ok (rows * cols) (make_part (grid_slices cols (rlo, rhi) (clo, chi))).
Proof.
  intros H1 H2 H3 H4. unfold make_part, grid_slices. cbn [fst snd].
  set (sl := map _ _).
  assert (Hall : Forall (fun s => snd s = chi - clo /\ fst s + snd s <= rows * cols) sl).
  { unfold sl. apply Forall_forall. intros s Hin. apply in_map_iff in Hin as [k [<- Hk]]. apply in_seq in Hk.
    cbn [fst snd]. split; [reflexivity|]. nia. }
  destruct sl as [|[off l] rest] eqn:E.
  - left. cbn. auto.
  - inversion Hall as [|? ? [Hl _] _]; subst. cbn [snd] in Hl. subst l.
    destruct (chi - clo =? 0) eqn:Ew; [left; cbn; auto|].
    right. cbn [p_rows p_cols p_slices]. split; [reflexivity|exact Hall].
Qed.

(* every part handed out is a well formed view leaf *)
Theorem partition_parts_ok rows cols rp cp parts : 1 <= rows ->
  partition rows cols rp cp = Ok parts -> Forall (part_ok (rows * cols)) parts.
Proof.
  intros Hrows. rewrite (partition_spec rows cols rp cp Hrows).
  destruct (check_axis rp rows && check_axis cp cols); cbn [andb]; [|discriminate].
  destruct (chain_b 0 (rp ++ [rows])) eqn:Hcr; cbn [andb]; [|discriminate].
  destruct (chain_b 0 (cp ++ [cols])) eqn:Hcc; [|discriminate].
  intros [= <-]. unfold grid_parts. apply Forall_forall. intros p Hin.
  apply in_concat in Hin as [l [Hl Hin]]. apply in_map_iff in Hl as [[rlo rhi] [<- Hr]].
  apply in_map_iff in Hin as [[clo chi] [<- Hc]].
  destruct (interval_bounds _ 0 _ Hcr Hr) as [_ [R1 R2]]. destruct (interval_bounds _ 0 _ Hcc Hc) as [_ [C1 C2]].
  rewrite last_bound_app in R2, C2. cbn [fst snd] in *. now apply grid_part_ok.
Qed.

(* ---------- cover and disjointness ---------- *)
Ltac Zify.zify_post_hook ::= Z.div_mod_to_equations.

Lemma partition_ok_inv rows cols rp cp parts : 1 <= rows -> partition rows cols rp cp = Ok parts ->
  chain_b 0 (rp ++ [rows]) = true /\ chain_b 0 (cp ++ [cols]) = true /\ parts = grid_parts rows cols rp cp.
Proof.
  intros Hrows. rewrite (partition_spec rows cols rp cp Hrows).
  destruct (check_axis rp rows && check_axis cp cols); cbn [andb]; [|discriminate].
  destruct (chain_b 0 (rp ++ [rows])); cbn [andb]; [|discriminate].
  destruct (chain_b 0 (cp ++ [cols])); [|discriminate]. intros [= <-]. auto.
Qed.

(* every cell of the matrix is exposed by some part *)
Theorem partition_cover rows cols rp cp parts : 1 <= rows -> partition rows cols rp cp = Ok parts ->
  forall x y, x < rows -> y < cols ->
  exists p i j, In p parts /\ try_get (VPart p) i j = Cell (x * cols + y).
Proof.
  intros Hrows Hok x y Hx Hy. destruct (partition_ok_inv _ _ _ _ _ Hrows Hok) as [Hcr [Hcc ->]].
  destruct (interval_cover _ 0 x Hcr) as [[rlo rhi] [Hr Hxr]]; [rewrite last_bound_app; lia|].
  destruct (interval_cover _ 0 y Hcc) as [[clo chi] [Hc Hyc]]; [rewrite last_bound_app; lia|].
  cbn [fst snd] in *.
  exists (make_part (grid_slices cols (rlo, rhi) (clo, chi))), (x - rlo), (y - clo). split.
  - unfold grid_parts. apply in_concat. eexists. split.
    + apply in_map_iff. exists (rlo, rhi). split; [reflexivity|exact Hr].
    + apply in_map_iff. exists (clo, chi). split; [reflexivity|exact Hc].
  - destruct (grid_part_get cols rlo rhi clo chi ltac:(lia) ltac:(lia)) as [_ Hget]. rewrite Hget.
    replace (x - rlo <? rhi - rlo) with true by (symmetry; apply N.ltb_lt; lia).
    replace (y - clo <? chi - clo) with true by (symmetry; apply N.ltb_lt; lia).
    cbn [andb]. f_equal. replace (rlo + (x - rlo)) with x by lia. lia.
Qed.

Lemma nth_error_grid {A B C} (f : A -> B -> C) (la : list A) (lb : list B) : lb <> [] -> forall k x,
  nth_error (concat (map (fun a => map (f a) lb) la)) k = Some x ->
  exists a b, nth_error la (k / length lb) = Some a /\ nth_error lb (k mod length lb) = Some b /\ x = f a b.
Proof.
  intros Hne. assert (Hn : (0 < length lb)%nat) by (destruct lb; [congruence|cbn; lia]).
  induction la as [|a la IH]; intros k x H; [destruct k; discriminate|].
  cbn [map concat] in H. destruct (Nat.ltb_spec k (length lb)) as [Hk|Hk].
  - rewrite nth_error_app1 in H by (now rewrite map_length).
    rewrite nth_error_map in H. destruct (nth_error lb k) as [b|] eqn:Eb; [|discriminate].
    injection H as <-. exists a, b. rewrite Nat.div_small, Nat.mod_small by lia. auto.
  - rewrite nth_error_app2 in H by (rewrite map_length; lia). rewrite map_length in H.
    destruct (IH _ _ H) as [a' [b [Ha [Hb ->]]]]. exists a', b.
    assert (Ek : k = ((k - length lb) + 1 * length lb)%nat) by lia.
    assert (E1 : (k / length lb = S ((k - length lb) / length lb))%nat)
      by (rewrite Ek at 1; rewrite Nat.div_add by lia; lia).
    assert (E2 : (k mod length lb = (k - length lb) mod length lb)%nat)
      by (rewrite Ek at 1; rewrite Nat.mod_add by lia; reflexivity).
    rewrite E1, E2. auto.
Qed.

(* no cell of the matrix is exposed twice: neither by two parts nor at two indexes of one part *)
Theorem partition_disjoint rows cols rp cp parts : 1 <= rows -> partition rows cols rp cp = Ok parts ->
  forall k k' p p' i j i' j' a,
  nth_error parts k = Some p -> nth_error parts k' = Some p' ->
  try_get (VPart p) i j = Cell a -> try_get (VPart p') i' j' = Cell a ->
  k = k' /\ i = i' /\ j = j'.
Proof.
  intros Hrows Hok k k' p p' i j i' j' a Ek Ek' Ha Ha'.
  destruct (partition_ok_inv _ _ _ _ _ Hrows Hok) as [Hcr [Hcc ->]].
  set (rints := intervals 0 (rp ++ [rows])) in *. set (cints := intervals 0 (cp ++ [cols])) in *.
  assert (Hne : cints <> []).
  { unfold cints, intervals. destruct cp; discriminate. }
  unfold grid_parts in Ek, Ek'. fold rints cints in Ek, Ek'.
  destruct (nth_error_grid (fun rlh clh => make_part (grid_slices cols rlh clh)) rints cints Hne _ _ Ek)
    as [[rlo rhi] [[clo chi] [Er [Ec ->]]]].
  destruct (nth_error_grid (fun rlh clh => make_part (grid_slices cols rlh clh)) rints cints Hne _ _ Ek')
    as [[rlo' rhi'] [[clo' chi'] [Er' [Ec' ->]]]].
  destruct (interval_bounds _ 0 _ Hcr (nth_error_In _ _ Er)) as [_ [R1 R2]].
  destruct (interval_bounds _ 0 _ Hcc (nth_error_In _ _ Ec)) as [_ [C1 C2]].
  destruct (interval_bounds _ 0 _ Hcr (nth_error_In _ _ Er')) as [_ [R1' R2']].
  destruct (interval_bounds _ 0 _ Hcc (nth_error_In _ _ Ec')) as [_ [C1' C2']].
  rewrite last_bound_app in R2, C2, R2', C2'. cbn [fst snd] in *.
  destruct (grid_part_get cols rlo rhi clo chi R1 C1) as [_ Hget]. rewrite Hget in Ha.
  destruct (grid_part_get cols rlo' rhi' clo' chi' R1' C1') as [_ Hget']. rewrite Hget' in Ha'.
  destruct (N.ltb_spec i (rhi - rlo)) as [Hi|Hi]; cbn [andb] in Ha; [|discriminate].
  destruct (N.ltb_spec j (chi - clo)) as [Hj|Hj]; [|discriminate].
  destruct (N.ltb_spec i' (rhi' - rlo')) as [Hi'|Hi']; cbn [andb] in Ha'; [|discriminate].
  destruct (N.ltb_spec j' (chi' - clo')) as [Hj'|Hj']; [|discriminate].
  injection Ha as Ea. injection Ha' as Ea'.
  assert (Hxy : rlo + i = rlo' + i' /\ clo + j = clo' + j').
  { assert (clo + j < cols) by lia. assert (clo' + j' < cols) by lia.
    assert (E : (rlo + i) * cols + (clo + j) = (rlo' + i') * cols + (clo' + j')) by lia.
    apply (N.div_mod_unique cols); auto. lia. }
  destruct Hxy as [Hx Hy].
  assert (Hr : (k / length cints = k' / length cints)%nat).
  { apply (interval_unique _ 0 _ _ _ _ (rlo + i) Hcr Er Er'); cbn [fst snd]; lia. }
  assert (Hc : (k mod length cints = k' mod length cints)%nat).
  { apply (interval_unique _ 0 _ _ _ _ (clo + j) Hcc Ec Ec'); cbn [fst snd]; lia. }
  assert (Hn : (0 < length cints)%nat) by (destruct cints; [congruence|cbn; lia]).
  assert (Hk : k = k').
  { rewrite (Nat.div_mod k (length cints)), (Nat.div_mod k' (length cints)) by lia. now rewrite Hr, Hc. }
  subst k'. rewrite Er in Er'. rewrite Ec in Ec'. injection Er' as <- <-. injection Ec' as <- <-.
  repeat split; lia.
Qed.

(* a write through one part changes only that part's cell of the matrix: every cell of every
   OTHER part (and every other cell of the same part) reads as before *)
Theorem write_through_part {T} rows cols rp cp parts (data : list T) : 1 <= rows ->
  N.of_nat (length data) = rows * cols ->
  partition rows cols rp cp = Ok parts ->
  forall k p i j x data', nth_error parts k = Some p ->
  write data (VPart p) i j x = (data', true) ->
  read data' (try_get (VPart p) i j) = Ok (Some x) /\
  forall k' p' i' j', nth_error parts k' = Some p' -> (k', i', j') <> (k, i, j) ->
    read data' (try_get (VPart p') i' j') = read data (try_get (VPart p') i' j').
Proof.
  intros Hrows Hlen Hok k p i j x data' Ek Hw.
  pose proof (partition_parts_ok _ _ _ _ _ Hrows Hok) as Hall. rewrite Forall_forall in Hall.
  assert (Hwf : wf (N.of_nat (length data)) (VPart p)).
  { constructor. rewrite Hlen. apply Hall. eapply nth_error_In; eauto. }
  pose proof (write_spec data (VPart p) i j x Hwf) as W.
  destruct (inside (VPart p) i j); [|rewrite W in Hw; discriminate].
  destruct W as [a [Ea [Hlt [Hwr [Hrd Hother]]]]]. rewrite Hw in Hrd, Hother. cbn [fst] in Hrd, Hother.
  split; [exact Hrd|]. intros k' p' i' j' Ek' Hneq.
  assert (Hwf' : wf (N.of_nat (length data)) (VPart p')).
  { constructor. rewrite Hlen. apply Hall. eapply nth_error_In; eauto. }
  pose proof (view_contract _ _ Hwf' i' j') as C.
  destruct (inside (VPart p') i' j').
  - destruct C as [a' [Ea' Hlt']]. rewrite Ea'. unfold read.
    assert (Hne : a' <> a).
    { intros ->. destruct (partition_disjoint _ _ _ _ _ Hrows Hok _ _ _ _ _ _ _ _ _ Ek' Ek Ea' Ea) as [-> [-> ->]].
      now apply Hneq. }
    rewrite Hother by lia. reflexivity.
  - rewrite C. reflexivity.
Qed.

(* partition_quadrants is the 2 x 2 case *)
Theorem quadrants_spec rows cols row column : 1 <= rows -> row <= rows -> column <= cols ->
  partition_quadrants rows cols row column
  = Ok [ make_part (grid_slices cols (0, row) (0, column)); make_part (grid_slices cols (0, row) (column, cols));
         make_part (grid_slices cols (row, rows) (0, column)); make_part (grid_slices cols (row, rows) (column, cols)) ].
Proof.
  intros Hrows Hr Hc. unfold partition_quadrants.
  rewrite (partition_accepts rows cols [row] [column] Hrows); [reflexivity|..]; repeat constructor; assumption.
Qed.

(* ---------- every stack of views that the API can build ---------- *)
Inductive stack (rows cols : N) : mview -> Prop :=
| st_matrix : stack rows cols (VMatrix rows cols)
| st_part rp cp parts p : partition rows cols rp cp = Ok parts -> In p parts -> stack rows cols (VPart p)
| st_range src r c : stack rows cols src -> stack rows cols (range_from src r c)
| st_reverse src rr rc : stack rows cols src -> stack rows cols (VReverse rr rc src)
| st_map src : stack rows cols src -> stack rows cols (VMap src)
| st_tensor src n0 n1 v : stack rows cols src -> via_tensor src n0 n1 = Ok v -> stack rows cols v.

Lemma stack_wf rows cols v : 1 <= rows -> stack rows cols v -> wf (rows * cols) v.
Proof.
  intros Hrows. induction 1 as [|rp cp parts p Hok Hin|src r c Hs IH|src rr rc Hs IH|src Hs IH|src n0 n1 v Hs IH Hv].
  - now constructor.
  - constructor. pose proof (partition_parts_ok _ _ _ _ _ Hrows Hok) as H. rewrite Forall_forall in H. now apply H.
  - now apply range_from_wf.
  - now constructor.
  - now constructor.
  - eapply via_tensor_wf; eauto.
Qed.

Theorem stack_contract rows cols v : 1 <= rows -> stack rows cols v -> forall row column,
  if inside v row column
  then exists p, try_get v row column = Cell p /\ p < rows * cols
  else try_get v row column = Absent.
Proof. intros Hrows Hs. apply view_contract. now apply stack_wf. Qed.
