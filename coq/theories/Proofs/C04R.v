(* C04 — the analytic half: over Coq's real numbers (sin, cos, exp, ln, sqrt, Rpower) the formal
   derivative `grad` of Spec/FormalD.v IS the partial derivative (stdlib `derivable_pt_lim`) of
   the plain computation, with respect to every variable, under the domain side conditions:
   non-zero denominators, positive arguments of ln / sqrt, positive bases of powers, and
   caller-supplied derivative functions that are derivatives of the supplied functions.
   Uses the axioms of the Coq Reals library only. *)
From Coq Require Import List Arith Lia Reals Lra Ring Field.
From EasyML Require Import Base.Sx Model.Num Model.AD Spec.FormalD Proofs.C04P.
Import ListNotations.
Open Scope R_scope.

(* the dictionary of operations of the real numbers *)
Definition Rops : numops R := {|
  nzero := 0; none_ := 1;
  nadd := Rplus; nsub := Rminus; nmul := Rmult; ndiv := Rdiv; nneg := Ropp;
  neqb := fun a b => if Req_EM_T a b then true else false;
  nltb := fun a b => if Rlt_dec a b then true else false;
  nleb := fun a b => if Rle_dec a b then true else false;
  nsqrt := sqrt; nexp := exp; nln := ln; nsin := sin; ncos := cos;
  npow := Rpower; npi := PI;
  nof_N := fun n => Some (INR (N.to_nat n));
  nenc := fun _ => SL [];
  ndec := fun _ => None
|}.

Lemma Rops_ring : ring_theory (nzero Rops) (none_ Rops) (nadd Rops) (nmul Rops) (nsub Rops) (nneg Rops) (@eq R).
Proof. exact RTheory. Qed.

Lemma Rops_field : field_theory (nzero Rops) (none_ Rops) (nadd Rops) (nmul Rops) (nsub Rops) (nneg Rops)
                                (ndiv Rops) (fun x => ndiv Rops (none_ Rops) x) (@eq R).
Proof.
  constructor; cbn.
  - exact RTheory.
  - exact R1_neq_R0.
  - intros p q. unfold Rdiv. ring.
  - intros p Hp. field. exact Hp.
Qed.

(* "dx, dy are the derivative of the two-argument function f at (x, y)", in the form the chain
   rule needs: along every differentiable curve through (x, y) *)
Definition total_derivative2 (f dx dy : R -> R -> R) (x y : R) : Prop :=
  forall (u w : R -> R) (t du dw : R), u t = x -> w t = y ->
    derivable_pt_lim u t du -> derivable_pt_lim w t dw ->
    derivable_pt_lim (fun z => f (u z) (w z)) t (dx x y * du + dy x y * dw).

(* the domain side condition of one instruction at the plain values vs of the earlier ones *)
Definition dom_instr (vs : list R) (ins : instr R) : Prop :=
  let v n := nth n vs 0 in
  match ins with
  | IBin BDiv _ b => v b <> 0
  | IBin BPow a _ => 0 < v a
  | IBinC BDiv _ c => c <> 0
  | IBinC BPow a _ => 0 < v a
  | ICBin CDiv _ b => v b <> 0
  | ICBin CPow c _ => 0 < c
  | IUn ULn a => 0 < v a
  | IUn USqrt a => 0 < v a
  | IUser1 f df a => derivable_pt_lim f (v a) (df (v a))
  | IUser2 f dx dy a b => total_derivative2 f dx dy (v a) (v b)
  | _ => True
  end.

(* every instruction of the program is inside its domain at the point where the program runs *)
Fixpoint dom_from (vs : list R) (prog : list (instr R)) : Prop :=
  match prog with
  | [] => True
  | ins :: r => dom_instr vs ins /\ dom_from (vs ++ [value_instr Rops vs ins]) r
  end.
Definition dom (prog : list (instr R)) : Prop := dom_from [] prog.

(* the program with the variable created by instruction i moved to the point t *)
Fixpoint set_var (prog : list (instr R)) (i : nat) (t : R) : list (instr R) :=
  match prog, i with
  | [], _ => []
  | _ :: r, O => IVar t :: r
  | ins :: r, S i' => ins :: set_var r i' t
  end.

(* ------------------------------------------------------------------ bookkeeping *)
Lemma value_snoc prog ins :
  value Rops (prog ++ [ins]) = value Rops prog ++ [value_instr Rops (value Rops prog) ins].
Proof.
  unfold value. rewrite drun_snoc. destruct (drun Rops _ prog) as [vs ts]. reflexivity.
Qed.

Lemma value_length prog : length (value Rops prog) = length prog.
Proof.
  induction prog as [|ins prog IH] using rev_ind; [reflexivity|].
  rewrite value_snoc, !app_length, IH. reflexivity.
Qed.

Lemma tangent_snoc prog s ins :
  tangent Rops (prog ++ [ins]) s =
  tangent Rops prog s ++ [tangent_instr Rops (value Rops prog) (tangent Rops prog s) (s (length prog)) ins].
Proof.
  unfold tangent, value. rewrite drun_snoc.
  pose proof (drun_fst Rops s (fun _ => nzero Rops) prog) as E. pose proof (value_length prog) as L.
  unfold value in L. destruct (drun Rops s prog) as [vs ts]. cbn [fst] in E. subst vs.
  cbn [dstep snd fst]. rewrite L. reflexivity.
Qed.

Lemma tangent_length prog s : length (tangent Rops prog s) = length prog.
Proof.
  induction prog as [|ins prog IH] using rev_ind; [reflexivity|].
  rewrite tangent_snoc, !app_length, IH. reflexivity.
Qed.

Lemma dom_from_app vs p q : dom_from vs (p ++ q) <->
  dom_from vs p /\ dom_from (fold_left (fun vs ins => vs ++ [value_instr Rops vs ins]) p vs) q.
Proof.
  revert vs; induction p as [|ins p IH]; intros vs; cbn [app dom_from fold_left]; [tauto|].
  rewrite IH. tauto.
Qed.

Lemma value_fold p : forall vs ts,
  fst (fold_left (dstep Rops (fun _ => 0)) p (vs, ts)) =
  fold_left (fun vs ins => vs ++ [value_instr Rops vs ins]) p vs.
Proof. induction p as [|ins p IH]; intros vs ts; cbn [fold_left]; [reflexivity|]. apply IH. Qed.

Lemma dom_snoc prog ins : dom (prog ++ [ins]) <-> dom prog /\ dom_instr (value Rops prog) ins.
Proof.
  unfold dom. rewrite dom_from_app. cbn [dom_from]. unfold value, drun. rewrite value_fold. tauto.
Qed.

Lemma set_var_length prog i t : length (set_var prog i t) = length prog.
Proof. revert i; induction prog; destruct i; cbn; auto. Qed.

Lemma set_var_snoc_lt prog ins i t : (i < length prog)%nat ->
  set_var (prog ++ [ins]) i t = set_var prog i t ++ [ins].
Proof.
  revert i; induction prog as [|x prog IH]; intros i H; cbn in *; [lia|].
  destruct i; cbn; [reflexivity|]. rewrite IH by lia. reflexivity.
Qed.

Lemma set_var_snoc_eq prog ins t : set_var (prog ++ [ins]) (length prog) t = prog ++ [IVar t].
Proof. induction prog as [|x prog IH]; cbn; [reflexivity|]. rewrite IH. reflexivity. Qed.

Lemma set_var_same prog i x0 : nth_error prog i = Some (IVar x0) -> set_var prog i x0 = prog.
Proof.
  revert i; induction prog as [|x prog IH]; intros i H; destruct i; cbn in *; try discriminate.
  - inversion H. reflexivity.
  - rewrite IH by exact H. reflexivity.
Qed.

Lemma nth_snoc {A} (l : list A) x d n : length l = n -> nth n (l ++ [x]) d = x.
Proof. intros <-. rewrite app_nth2, Nat.sub_diag by lia. reflexivity. Qed.

(* ------------------------------------------------------------------ calculus *)
Lemma dl_eq f x l l' : derivable_pt_lim f x l -> l = l' -> derivable_pt_lim f x l'.
Proof. intros H <-; exact H. Qed.

Lemma dl_ext (f g : R -> R) x l : (forall t, f t = g t) -> derivable_pt_lim f x l -> derivable_pt_lim g x l.
Proof.
  intros E H eps Heps. destruct (H eps Heps) as [delta Hd]. exists delta. intros h Hh Hlt.
  rewrite <- !E. apply Hd; assumption.
Qed.

Lemma dl_total (V : R -> list R) (T : list R) x0 l : forall (acc : R -> R) dacc,
  (forall a, derivable_pt_lim (fun t => nth a (V t) 0) x0 (nth a T 0)) ->
  derivable_pt_lim acc x0 dacc ->
  derivable_pt_lim (fun t => fold_left (fun acc x => acc + x) (map (fun a => nth a (V t) 0) l) (acc t)) x0
                   (fold_left (fun acc x => acc + x) (map (fun a => nth a T 0) l) dacc).
Proof.
  induction l as [|a l IH]; intros acc dacc Hall Hacc; cbn [map fold_left]; [exact Hacc|].
  apply (IH (fun t => acc t + nth a (V t) 0) (dacc + nth a T 0) Hall).
  apply (derivable_pt_lim_plus acc (fun t => nth a (V t) 0)); auto.
Qed.

Lemma Rpower_deriv (u w : R -> R) x du dw : 0 < u x ->
  derivable_pt_lim u x du -> derivable_pt_lim w x dw ->
  derivable_pt_lim (fun t => Rpower (u t) (w t)) x
    (w x * Rpower (u x) (w x - 1) * du + Rpower (u x) (w x) * ln (u x) * dw).
Proof.
  intros Hpos Hu Hw. unfold Rpower. eapply dl_eq.
  - change (fun t => exp (w t * ln (u t))) with (comp exp (w * comp ln u)%F).
    apply derivable_pt_lim_comp; [|apply derivable_pt_lim_exp].
    apply derivable_pt_lim_mult; [exact Hw|].
    apply derivable_pt_lim_comp; [exact Hu|apply derivable_pt_lim_ln; exact Hpos].
  - unfold mult_fct, comp.
    replace (exp ((w x - 1) * ln (u x))) with (exp (w x * ln (u x)) * / u x).
    + field. lra.
    + unfold Rminus. rewrite Rmult_plus_distr_r, exp_plus.
      replace (- (1) * ln (u x)) with (- ln (u x)) by ring.
      rewrite exp_Ropp, exp_ln; auto.
Qed.

Ltac rsimp := cbn [bop_f bop_dx bop_dy cop_bop uop_f uop_d nzero none_ nadd nsub nmul ndiv nneg
                      npow nln nsin ncos nexp nsqrt Rops].

(* one instruction: if every earlier value is differentiable in t with the listed tangent, so is
   this one, with the tangent the chain rule of the specification assigns *)
Lemma instr_deriv (V : R -> list R) (T : list R) x0 sd ins :
  (forall a, derivable_pt_lim (fun t => nth a (V t) 0) x0 (nth a T 0)) ->
  is_var ins = false -> dom_instr (V x0) ins ->
  derivable_pt_lim (fun t => value_instr Rops (V t) ins) x0 (tangent_instr Rops (V x0) T sd ins).
Proof.
  intros Hall Hnv Hdom.
  destruct ins as [x|c|o a b|o a c|o c b|o a|l|f df a|f dx dy a b];
    cbn [value_instr tangent_instr dom_instr] in *; rsimp.
  - discriminate.
  - apply derivable_pt_lim_const.
  - pose proof (Hall a) as Ha. pose proof (Hall b) as Hb.
    destruct o; rsimp.
    + eapply dl_eq; [apply (derivable_pt_lim_plus _ _ _ _ _ Ha Hb)|ring].
    + eapply dl_eq; [apply (derivable_pt_lim_minus _ _ _ _ _ Ha Hb)|ring].
    + eapply dl_eq; [apply (derivable_pt_lim_mult _ _ _ _ _ Ha Hb)|ring].
    + eapply dl_eq; [apply (derivable_pt_lim_div _ _ _ _ _ Ha Hb Hdom)|unfold Rsqr; field; exact Hdom].
    + eapply dl_eq; [apply (Rpower_deriv (fun t => nth a (V t) 0) (fun t => nth b (V t) 0) x0 _ _ Hdom Ha Hb)|ring].
  - pose proof (Hall a) as Ha.
    assert (Hc : derivable_pt_lim (fun _ => c) x0 0) by apply derivable_pt_lim_const.
    destruct o; rsimp.
    + eapply dl_eq; [apply (derivable_pt_lim_plus _ _ _ _ _ Ha Hc)|ring].
    + eapply dl_eq; [apply (derivable_pt_lim_minus _ _ _ _ _ Ha Hc)|ring].
    + eapply dl_eq; [apply (derivable_pt_lim_mult _ _ _ _ _ Ha Hc)|ring].
    + eapply dl_eq; [apply (derivable_pt_lim_div _ _ _ _ _ Ha Hc Hdom)|unfold Rsqr; field; exact Hdom].
    + eapply dl_eq; [apply (Rpower_deriv (fun t => nth a (V t) 0) (fun _ => c) x0 _ _ Hdom Ha Hc)|ring].
  - pose proof (Hall b) as Hb.
    assert (Hc : derivable_pt_lim (fun _ => c) x0 0) by apply derivable_pt_lim_const.
    destruct o; rsimp.
    + eapply dl_eq; [apply (derivable_pt_lim_minus _ _ _ _ _ Hc Hb)|ring].
    + eapply dl_eq; [apply (derivable_pt_lim_div _ _ _ _ _ Hc Hb Hdom)|unfold Rsqr; field; exact Hdom].
    + eapply dl_eq; [apply (Rpower_deriv (fun _ => c) (fun t => nth b (V t) 0) x0 _ _ Hdom Hc Hb)|ring].
  - pose proof (Hall a) as Ha.
    destruct o; rsimp.
    + eapply dl_eq; [apply (derivable_pt_lim_opp _ _ _ Ha)|ring].
    + eapply dl_eq.
      * change (fun t => sin (nth a (V t) 0)) with (comp sin (fun t => nth a (V t) 0)).
        apply derivable_pt_lim_comp; [exact Ha|apply derivable_pt_lim_sin].
      * ring.
    + eapply dl_eq.
      * change (fun t => cos (nth a (V t) 0)) with (comp cos (fun t => nth a (V t) 0)).
        apply derivable_pt_lim_comp; [exact Ha|apply derivable_pt_lim_cos].
      * ring.
    + eapply dl_eq.
      * change (fun t => exp (nth a (V t) 0)) with (comp exp (fun t => nth a (V t) 0)).
        apply derivable_pt_lim_comp; [exact Ha|apply derivable_pt_lim_exp].
      * ring.
    + eapply dl_eq.
      * change (fun t => ln (nth a (V t) 0)) with (comp ln (fun t => nth a (V t) 0)).
        apply derivable_pt_lim_comp; [exact Ha|apply derivable_pt_lim_ln; exact Hdom].
      * field. lra.
    + eapply dl_eq.
      * change (fun t => sqrt (nth a (V t) 0)) with (comp sqrt (fun t => nth a (V t) 0)).
        apply derivable_pt_lim_comp; [exact Ha|apply derivable_pt_lim_sqrt; exact Hdom].
      * field. apply Rgt_not_eq. apply sqrt_lt_R0. exact Hdom.
  - unfold total. apply (dl_total V T x0 l (fun _ => 0) 0 Hall). apply derivable_pt_lim_const.
  - pose proof (Hall a) as Ha. eapply dl_eq.
    + change (fun t => f (nth a (V t) 0)) with (comp f (fun t => nth a (V t) 0)).
      apply derivable_pt_lim_comp; [exact Ha|exact Hdom].
    + cbn. ring.
  - cbn [nadd nmul Rops].
    apply (Hdom (fun t => nth a (V t) 0) (fun t => nth b (V t) 0) x0 _ _ eq_refl eq_refl (Hall a) (Hall b)).
Qed.

(* no seeded variable so far: every tangent is zero *)
Lemma total_zero l : (forall x, In x l -> x = 0) -> total Rops l = 0.
Proof. intros H. unfold total. rewrite (total_zero_aux Rops Rops_ring) by exact H. reflexivity. Qed.

Lemma tangent_all_zero prog s : (forall n, (n < length prog)%nat -> s n = 0) ->
  forall k, nth k (tangent Rops prog s) 0 = 0.
Proof.
  induction prog as [|ins prog IH] using rev_ind; intros Hs k.
  - destruct k; reflexivity.
  - rewrite tangent_snoc. rewrite app_length in Hs. cbn [length] in Hs.
    assert (Z : forall a, nth a (tangent Rops prog s) 0 = 0) by (apply IH; intros; apply Hs; lia).
    destruct (Nat.lt_ge_cases k (length prog)) as [Hlt|Hge].
    + rewrite app_nth1 by (rewrite tangent_length; lia). apply Z.
    + destruct (Nat.eq_dec k (length prog)) as [->|Hne];
        [|apply nth_overflow; rewrite app_length, tangent_length; simpl; lia].
      rewrite (nth_snoc _ _ _ _ (tangent_length prog s)).
      destruct ins as [x|c|o a b|o a c|o c b|o a|l|f df a|f dx dy a b]; cbn [tangent_instr];
        rewrite ?Z; cbn [nadd nmul nzero Rops]; try ring.
      * apply Hs. lia.
      * apply total_zero. intros x Hin. apply in_map_iff in Hin as [a [<- _]]. apply Z.
Qed.

(* ------------------------------------------------------------------ the theorem *)
Definition ind (i : nat) : nat -> R := fun n => if Nat.eqb n i then 1 else 0.

Lemma partials prog : forall i x0, nth_error prog i = Some (IVar x0) -> dom prog ->
  forall k, derivable_pt_lim (fun t => nth k (value Rops (set_var prog i t)) 0) x0
                             (nth k (tangent Rops prog (ind i)) 0).
Proof.
  induction prog as [|ins prog IH] using rev_ind; intros i x0 Hi Hdom k.
  - destruct i; discriminate.
  - apply dom_snoc in Hdom as [Hdp Hdi].
    destruct (lt_eq_lt_dec i (length prog)) as [[Hlt|Heq]|Hgt].
    + (* the variable is an earlier instruction *)
      rewrite nth_error_app1 in Hi by exact Hlt.
      pose proof (IH i x0 Hi Hdp) as D. rewrite tangent_snoc.
      destruct (Nat.lt_ge_cases k (length prog)) as [Hk|Hk].
      * rewrite app_nth1 by (rewrite tangent_length; lia).
        eapply dl_ext; [|apply (D k)]. intros t. cbv beta.
        rewrite set_var_snoc_lt by exact Hlt. rewrite value_snoc.
        rewrite app_nth1 by (rewrite value_length, set_var_length; lia). reflexivity.
      * destruct (Nat.eq_dec k (length prog)) as [->|Hne].
        -- rewrite (nth_snoc _ _ _ _ (tangent_length prog (ind i))).
           destruct (is_var ins) eqn:Hiv.
           ++ destruct ins; try discriminate. cbn [tangent_instr]. unfold ind.
              destruct (Nat.eqb_spec (length prog) i); [lia|].
              eapply dl_ext; [|apply (derivable_pt_lim_const x)]. intros t. cbv beta.
              rewrite set_var_snoc_lt by exact Hlt. rewrite value_snoc.
              rewrite nth_snoc by (rewrite value_length, set_var_length; reflexivity). reflexivity.
           ++ pose proof (instr_deriv (fun t => value Rops (set_var prog i t)) (tangent Rops prog (ind i))
                                      x0 (ind i (length prog)) ins D Hiv) as Hd.
              cbv beta in Hd. rewrite (set_var_same prog i x0 Hi) in Hd. specialize (Hd Hdi).
              eapply dl_ext; [|exact Hd]. intros t. cbv beta.
              rewrite set_var_snoc_lt by exact Hlt. rewrite value_snoc.
              rewrite nth_snoc by (rewrite value_length, set_var_length; reflexivity). reflexivity.
        -- rewrite (nth_overflow (_ ++ _)) by (rewrite app_length, tangent_length; simpl; lia).
           eapply dl_ext; [|apply (derivable_pt_lim_const 0)]. intros t. cbv beta.
           rewrite nth_overflow; [reflexivity|].
           rewrite value_length, set_var_length, app_length. simpl. lia.
    + (* the variable is this instruction *)
      subst i. rewrite nth_error_app2, Nat.sub_diag in Hi by lia. cbn in Hi. inversion Hi; subst ins.
      rewrite tangent_snoc.
      assert (Z : forall a, nth a (tangent Rops prog (ind (length prog))) 0 = 0).
      { apply tangent_all_zero. intros n Hn. unfold ind. destruct (Nat.eqb_spec n (length prog)); [lia|reflexivity]. }
      destruct (Nat.lt_ge_cases k (length prog)) as [Hk|Hk].
      * rewrite app_nth1 by (rewrite tangent_length; lia). rewrite Z.
        eapply dl_ext; [|apply (derivable_pt_lim_const (nth k (value Rops prog) 0))]. intros t. cbv beta.
        rewrite set_var_snoc_eq, value_snoc. rewrite app_nth1 by (rewrite value_length; lia). reflexivity.
      * destruct (Nat.eq_dec k (length prog)) as [->|Hne].
        -- rewrite (nth_snoc _ _ _ _ (tangent_length prog (ind (length prog)))).
           cbn [tangent_instr]. unfold ind. rewrite Nat.eqb_refl.
           eapply dl_ext; [|apply derivable_pt_lim_id]. intros t. unfold id.
           rewrite set_var_snoc_eq, value_snoc. rewrite nth_snoc by apply value_length. reflexivity.
        -- rewrite (nth_overflow (_ ++ _)) by (rewrite app_length, tangent_length; simpl; lia).
           eapply dl_ext; [|apply (derivable_pt_lim_const 0)]. intros t. cbv beta.
           rewrite nth_overflow; [reflexivity|].
           rewrite value_length, set_var_length, app_length. simpl. lia.
    + assert (E : nth_error (prog ++ [ins]) i = None) by (apply nth_error_None; rewrite app_length; simpl; lia).
      congruence.
Qed.

(* C04_formal_is_true_derivative *)
Theorem formal_is_true_derivative prog i x0 out :
  nth_error prog i = Some (IVar x0) -> dom prog ->
  derivable_pt_lim (fun t => nth out (value Rops (set_var prog i t)) 0) x0 (grad Rops prog out i).
Proof. intros Hi Hd. apply (partials prog i x0 Hi Hd out). Qed.

(* the headline: the derivative REPORTED by Record::try_derivatives (Model/AD.v, over the reals)
   for input variable i is the true partial derivative of the result's number *)
Theorem reverse_mode_is_true_derivative prog i x0 out d :
  nth_error prog i = Some (IVar x0) -> dom prog ->
  try_derivatives Rops (run_prog Rops prog) out = Some d ->
  derivable_pt_lim (fun t => number (getr Rops (fst (run_prog Rops (set_var prog i t))) out)) x0
                   (at_ Rops d (getr Rops (fst (run_prog Rops prog)) i)).
Proof.
  intros Hi Hd Ht.
  rewrite (try_derivatives_is_gradient Rops Rops_ring prog out i x0 d Hi Ht).
  eapply dl_ext; [|apply (formal_is_true_derivative prog i x0 out Hi Hd)].
  intros t. cbv beta. symmetry. apply (value_correct Rops Rops_ring).
Qed.

(* ------------------------------------------------------------------ the caller-supplied functions
   of the correspondence (Model/AD.v user1_table / user2_table): entries 0, 1, 2 satisfy the
   hypothesis "the supplied derivative is the derivative" (entry 2 / 1 away from 0); entries 3 are
   deliberately not derivatives (the API records what it is given: C04_sweep_is_gradient holds for
   them, C04_formal_is_true_derivative does not apply) *)
Lemma user1_table_derivative k F x : (k = 0%Z \/ k = 1%Z \/ (k = 2%Z /\ x <> 0)) ->
  user1_table Rops k = Some F -> derivable_pt_lim (f1 F) x (f1dx F x).
Proof.
  intros Hk HF. destruct Hk as [Hk|[Hk|[Hk Hx]]]; subst k; cbn in HF; inversion HF; subst F; cbn [f1 f1dx]; unfold two; cbn.
  - eapply dl_eq; [apply (derivable_pt_lim_mult id id x 1 1); apply derivable_pt_lim_id|unfold id; ring].
  - eapply dl_eq.
    + apply (derivable_pt_lim_plus (fun x => x * x * x) (fun x => (1 + 1) * x) x).
      * apply (derivable_pt_lim_mult (fun x => x * x) id x).
        -- apply (derivable_pt_lim_mult id id x 1 1); apply derivable_pt_lim_id.
        -- apply derivable_pt_lim_id.
      * apply (derivable_pt_lim_scal id (1 + 1) x 1). apply derivable_pt_lim_id.
    + unfold id. ring.
  - eapply dl_eq.
    + apply (derivable_pt_lim_div (fun _ => 1) id x 0 1);
        [apply derivable_pt_lim_const|apply derivable_pt_lim_id|exact Hx].
    + unfold id, Rsqr. field. exact Hx.
Qed.

Lemma user2_table_derivative k F x y : (k = 0%Z \/ (k = 1%Z /\ y <> 0) \/ k = 2%Z) ->
  user2_table Rops k = Some F -> total_derivative2 (f2 F) (f2dx F) (f2dy F) x y.
Proof.
  intros Hk HF u w t du dw Hu Hw Du Dw.
  destruct Hk as [Hk|[[Hk Hy]|Hk]]; subst k; cbn in HF; inversion HF; subst F; cbn [f2 f2dx f2dy]; cbn; subst x y.
  - eapply dl_eq.
    + apply (derivable_pt_lim_plus (fun z => u z * w z) u t).
      * apply (derivable_pt_lim_mult u w t du dw Du Dw).
      * exact Du.
    + ring.
  - eapply dl_eq; [apply (derivable_pt_lim_div u w t du dw Du Dw Hy)|unfold Rsqr; field; exact Hy].
  - eapply dl_eq.
    + apply (derivable_pt_lim_minus u (fun z => w z * w z) t).
      * exact Du.
      * apply (derivable_pt_lim_mult w w t dw dw Dw Dw).
    + ring.
Qed.
