(* The FromUsize bodies that tools/gen_arith.py regenerates from src/numeric.rs on every run
   (Gen/ArithNumeric.v) are equal to the hand-written model of Model/Numeric.v — the functions
   the C19 from_usize theorems are about — and the macro is invoked at exactly the twelve
   integer (two float) types the model enumerates. *)
From Coq Require Import List ZArith NArith Bool.
From EasyML Require Import Base.Sx Model.Numeric Gen.ArithNumeric.
Import ListNotations.
From EasyML Require Import Proofs.GenTac.

(* gen_equiv: Proofs/GenTac.v (the specific script, then the shape-independent finisher) *)

Lemma gen_from_usize_integral_eq : forall t n, gen_from_usize_integral t n = from_usize t n.
Proof. gen_equiv gen_from_usize_integral_eq by (intros; reflexivity). Qed.

Lemma gen_from_usize_integral_types_eq : forall t, In t gen_from_usize_integral_types <-> In t all_ity.
Proof.
  gen_equiv gen_from_usize_integral_types_eq by
    (intros t; unfold gen_from_usize_integral_types, all_ity; cbn [In]; split; intros H;
     repeat (destruct H as [H|H]; [subst t; auto 20|]); try contradiction).
Qed.

Lemma gen_from_usize_float_eq : forall n, gen_from_usize_float n = from_usize_float n.
Proof. gen_equiv gen_from_usize_float_eq by (intros; reflexivity). Qed.

Lemma gen_from_usize_float_types_eq : forall b, In b gen_from_usize_float_types <-> (b = 32 \/ b = 64)%N.
Proof.
  gen_equiv gen_from_usize_float_types_eq by
    (intros b; unfold gen_from_usize_float_types; cbn [In]; split; intros H;
     repeat (destruct H as [H|H]; [subst b; auto|]); try contradiction; subst; auto).
Qed.

Lemma gen_from_usize_wrappers_eq : forall t n,
  gen_from_usize_Wrapping (from_usize t) n = from_usize_wrapper t n /\
  gen_from_usize_Saturating (from_usize t) n = from_usize_wrapper t n.
Proof. gen_equiv gen_from_usize_wrappers_eq by (intros; split; reflexivity). Qed.
