(* C10, tensors: the representation invariant of Tensor { data, shape, strides } holds in every
   state reached by any sequence of its safe mutators (Model/TensorOps.v), steps that panic or
   err included; writes through ANY adaptor stack leave shape, strides and stored length of the
   tensor at the bottom untouched. *)
From Coq Require Import List ZArith NArith Bool Arith Lia.
From EasyML Require Import Base.Sx Model.Shape Model.Tensor Model.TSource Model.ShapeIter
  Model.Transform Model.TensorOps Model.U64
  Proofs.ShapeP Proofs.C01P Proofs.C13P Proofs.SrcWfP Proofs.SwapLoopP.
Import ListNotations.
Open Scope N_scope.

Section C10Tensor.
Context {A : Type}.

(* what the unchecked accessors rely on: unique names, no zero length, strides = the row-major
   strides of the shape, stored element count = product of the lengths (and, as for any Vec,
   representable) *)
Definition tensor_rep (t : tensor A) : Prop :=
  tensor_inv t /\ elements (t_shape t) <= usize_max.

(* same shape, same strides, same stored length *)
Definition same_frame (t t' : tensor A) : Prop :=
  t_shape t' = t_shape t /\ t_strides t' = t_strides t /\ length (t_data t') = length (t_data t).

Lemma same_frame_refl t : same_frame t t.
Proof. repeat split. Qed.

Lemma same_frame_trans t1 t2 t3 : same_frame t1 t2 -> same_frame t2 t3 -> same_frame t1 t3.
Proof. intros [a [b c]] [d [e f]]. repeat split; congruence. Qed.

Lemma same_frame_rep t t' : same_frame t t' -> tensor_rep t -> tensor_rep t'.
Proof.
  intros [Hs [Hst Hl]] [[Hv [Hstr Hel]] Hb]. unfold tensor_rep, tensor_inv.
  rewrite Hs, Hst, Hl. auto.
Qed.

Lemma list_set_length (l : list A) : forall n v l', list_set l n v = Some l' -> length l' = length l.
Proof.
  induction l as [|x l IH]; intros [|n] v l' H; cbn [list_set] in H; try discriminate.
  - injection H as <-. reflexivity.
  - destruct (list_set l n v) as [r|] eqn:E; cbn [option_map] in H; [|discriminate].
    injection H as <-. cbn [length]. f_equal. eapply IH. exact E.
Qed.

Lemma t_set_frame (t t' : tensor A) idx v : t_set t idx v = Some t' -> same_frame t t'.
Proof.
  unfold t_set. destruct (get_index_direct idx (t_strides t) (t_shape t)) as [i|]; [|discriminate].
  destruct (list_set (t_data t) (N.to_nat i) v) as [d|] eqn:E; cbn [option_map]; [|discriminate].
  intros [= <-]. repeat split. cbn [t_data]. eapply list_set_length. exact E.
Qed.

(* a write through any adaptor term — well-formed or not — only replaces one stored element of
   the tensor at the bottom *)
Lemma src_set_frame : forall (s s' : tsrc A) idx v, src_set s idx v = Some s' ->
  same_frame (src_base s) (src_base s').
Proof.
  induction s as [t|s IH rev|s IH rg|s IH tbl|s IH tbl|s IH mk|s IH names];
    intros s' idx v H; cbn [src_set] in H.
  - destruct (t_set t idx v) as [t'|] eqn:E; cbn [option_map] in H; [|discriminate].
    injection H as <-. cbn [src_base]. eapply t_set_frame. exact E.
  - destruct (src_set s _ v) as [x|] eqn:E; cbn [option_map] in H; [|discriminate].
    injection H as <-. cbn [src_base]. eapply IH. exact E.
  - destruct (map_indexes_by_range idx rg) as [m|]; [|discriminate].
    destruct (src_set s m v) as [x|] eqn:E; cbn [option_map] in H; [|discriminate].
    injection H as <-. cbn [src_base]. eapply IH. exact E.
  - destruct (src_set s _ v) as [x|] eqn:E; cbn [option_map] in H; [|discriminate].
    injection H as <-. cbn [src_base]. eapply IH. exact E.
  - destruct (src_set s _ v) as [x|] eqn:E; cbn [option_map] in H; [|discriminate].
    injection H as <-. cbn [src_base]. eapply IH. exact E.
  - destruct (src_set s _ v) as [x|] eqn:E; cbn [option_map] in H; [|discriminate].
    injection H as <-. cbn [src_base]. eapply IH. exact E.
  - destruct (src_set s idx v) as [x|] eqn:E; cbn [option_map] in H; [|discriminate].
    injection H as <-. cbn [src_base]. eapply IH. exact E.
Qed.

(* building adaptors never touches the tensor underneath *)
Lemma apply_vstep_base (s s' : tsrc A) v : apply_vstep s v = Ok s' -> src_base s' = src_base s.
Proof.
  unfold apply_vstep, trev_from, trange_from_all, taccess_from, ttranspose_from, tmask_from_all,
    trename_from.
  destruct v; intros H;
    repeat match type of H with
           | (if ?c then _ else _) = _ => destruct c
           | match ?c with Some _ => _ | None => _ end = _ => destruct c
           end; try discriminate; injection H as <-; reflexivity.
Qed.

Lemma apply_vsteps_base : forall vs (s s' : tsrc A), apply_vsteps s vs = Ok s' -> src_base s' = src_base s.
Proof.
  induction vs as [|v vs IH]; intros s s' H; cbn [apply_vsteps] in H.
  - injection H as <-. reflexivity.
  - destruct (apply_vstep s v) as [x| |] eqn:E; cbn [obind] in H; try discriminate.
    rewrite (IH _ _ H). eapply apply_vstep_base. exact E.
Qed.

(* the mutable iterator loop of map_mut_with_index, run for any number of closure calls over any
   source: only element writes *)
Lemma ti_write_frame (it : tensor_iter A) place v :
  same_frame (src_base (ti_source it)) (src_base (ti_source (ti_write it place v))).
Proof.
  unfold ti_write. destruct (src_set (ti_source it) place v) as [s'|] eqn:E.
  - cbn [ti_source]. eapply src_set_frame. exact E.
  - apply same_frame_refl.
Qed.

Lemma ti_next_source (it it' : tensor_iter A) x : ti_next it = (x, it') -> ti_source it' = ti_source it.
Proof.
  unfold ti_next. destruct (iter_next (ti_shape_iter it)) as [[idx|] si']; intros [= _ <-]; reflexivity.
Qed.

Lemma for_each_mut_wi_frame (f : list N -> A -> A) : forall fuel (it : tensor_iter A),
  same_frame (src_base (ti_source it)) (src_base (ti_source (for_each_mut_wi f fuel it))).
Proof.
  induction fuel as [|fuel IH]; intros it; cbn [for_each_mut_wi]; [apply same_frame_refl|].
  unfold ti_with_index. destruct (ti_next it) as [[[place [v|]]|] it'] eqn:E;
    pose proof (ti_next_source _ _ _ E) as Hs.
  - eapply same_frame_trans; [|apply IH]. rewrite <- Hs. apply ti_write_frame.
  - rewrite <- Hs. apply IH.
  - rewrite Hs. apply same_frame_refl.
Qed.

Lemma for_each_mut_frame (f : A -> A) : forall fuel (it : tensor_iter A),
  same_frame (src_base (ti_source it)) (src_base (ti_source (for_each_mut f fuel it))).
Proof.
  induction fuel as [|fuel IH]; intros it; cbn [for_each_mut]; [apply same_frame_refl|].
  destruct (ti_next it) as [[[place [v|]]|] it'] eqn:E; pose proof (ti_next_source _ _ _ E) as Hs.
  - eapply same_frame_trans; [|apply IH]. rewrite <- Hs. apply ti_write_frame.
  - rewrite <- Hs. apply IH.
  - rewrite Hs. apply same_frame_refl.
Qed.

Lemma map_prefix_length (f : A -> A) k (data : list A) : length (map_prefix f k data) = length data.
Proof.
  unfold map_prefix. rewrite app_length, map_length, <- app_length, firstn_skipn. reflexivity.
Qed.

(* ---- the constructors and the shape-changing mutators re-validate ---- *)
Lemma validated_rep sh (data : list A) :
  validate_dimensions sh (N.of_nat (length data)) = true ->
  tensor_rep (mkTensor data sh (compute_strides sh)).
Proof.
  intros V. apply validate_dimensions_spec in V. destruct V as [Hv [He Hb]].
  unfold tensor_rep, tensor_inv. cbn [t_shape t_strides t_data]. auto.
Qed.

Lemma tensor_from_rep sh (data : list A) t :
  tensor_try_from sh data = Ok t \/ tensor_from sh data = Ok t -> tensor_rep t.
Proof.
  unfold tensor_try_from, tensor_from.
  intros [H|H]; destruct (validate_dimensions sh (N.of_nat (length data))) eqn:V; try discriminate;
    injection H as <-; apply validated_rep; exact V.
Qed.

Lemma reshape_rep (t t' : tensor A) sh :
  reshape_mut t sh = Ok t' \/ reshape_owned t sh = Ok t' -> tensor_rep t'.
Proof.
  unfold reshape_mut, reshape_owned, tensor_from.
  intros [H|H]; destruct (validate_dimensions sh (N.of_nat (length (t_data t)))) eqn:V; try discriminate;
    injection H as <-; apply validated_rep; exact V.
Qed.

Lemma rename_rep (t t' : tensor A) dims : tensor_rep t -> length dims = length (t_shape t) ->
  rename t dims = Ok t' -> tensor_rep t'.
Proof.
  intros [[[Hnd Hpos] [Hst Hel]] Hb] Hl. unfold rename.
  destruct (has_duplicates dims) eqn:E; [discriminate|]. intros [= <-].
  apply has_duplicates_false in E.
  unfold tensor_rep, tensor_inv, valid_shape, elements. cbn [t_shape t_strides t_data].
  rewrite rename_shape_names, rename_shape_lens by exact Hl.
  repeat split; auto.
  rewrite Hst. apply strides_lens. symmetry. apply rename_shape_lens. exact Hl.
Qed.

Lemma reorder_rep (s : tsrc A) dims t' : reorder s dims = Ok t' -> tensor_rep t'.
Proof.
  unfold reorder. destruct (dm_new (names_of (src_shape s)) dims) as [tbl|]; [|discriminate].
  intros H. eapply tensor_from_rep. right. exact H.
Qed.

Lemma reorder_mut_rep (t t' : tensor A) dims : tensor_rep t -> length dims = length (t_shape t) ->
  reorder_mut t dims = Ok t' -> tensor_rep t'.
Proof.
  intros [Hinv Hb] Hl. rewrite reorder_mut_eq_reorder by assumption. apply reorder_rep.
Qed.

Lemma transpose_mut_rep (t t' : tensor A) dims : tensor_rep t -> length dims = length (t_shape t) ->
  transpose_mut t dims = Ok t' -> tensor_rep t'.
Proof.
  intros [Hinv Hb] Hl. rewrite transpose_mut_eq_transpose by assumption.
  unfold transpose, reorder. cbn [src_shape].
  destruct (dm_new (names_of (t_shape t)) dims) as [tbl|] eqn:Hd; [|discriminate].
  unfold tensor_from.
  destruct (validate_dimensions _ _) eqn:V; [|discriminate]. cbn [omap]. intros [= <-].
  cbn [t_data t_shape t_strides].
  apply validate_dimensions_spec in V. destruct V as [[Hnd Hpos] [He Hbb]].
  set (sh' := map_shape_to_requested tbl (t_shape t)) in *.
  assert (Hlen : length (t_shape t) = length sh').
  { unfold sh'. unfold map_shape_to_requested, dm_r2s. rewrite !map_length.
    pose proof (dm_new_length _ _ _ Hd) as L. unfold names_of in L. rewrite map_length in L. lia. }
  pose proof (lens_with_names (t_shape t) sh' Hlen) as Hlens.
  destruct Hinv as [[Hnd0 _] _].
  unfold tensor_rep, tensor_inv, valid_shape, elements. cbn [t_shape t_strides t_data].
  rewrite Hlens. unfold elements in He, Hbb.
  repeat split; auto.
  - unfold with_names_of. rewrite transpose_shape_names by lia. exact Hnd0.
  - apply strides_lens. symmetry. exact Hlens.
Qed.

(* ---- one step, whatever its arguments and whatever its result code ---- *)
Theorem tstep_rep (t : tensor A) (o : top A) : tensor_rep t -> tensor_rep (fst (tstep t o)).
Proof.
  intros Hrep. destruct o as [sh|dims|dims|dims|f k|f k|idx v|vs idx v]; cbn [tstep].
  - destruct (Nat.eqb (length sh) (length (t_shape t))); [|exact Hrep].
    destruct (reshape_mut t sh) as [t'| |] eqn:E; cbn [settle fst]; try exact Hrep.
    eapply reshape_rep. left. exact E.
  - destruct (Nat.eqb_spec (length dims) (length (t_shape t))) as [Hl|]; [|exact Hrep].
    destruct (rename t dims) as [t'| |] eqn:E; cbn [settle fst]; try exact Hrep.
    eapply rename_rep; eassumption.
  - destruct (Nat.eqb_spec (length dims) (length (t_shape t))) as [Hl|]; [|exact Hrep].
    destruct (transpose_mut t dims) as [t'| |] eqn:E; cbn [settle fst]; try exact Hrep.
    eapply transpose_mut_rep; eassumption.
  - destruct (Nat.eqb_spec (length dims) (length (t_shape t))) as [Hl|]; [|exact Hrep].
    destruct (reorder_mut t dims) as [t'| |] eqn:E; cbn [settle fst]; try exact Hrep.
    eapply reorder_mut_rep; eassumption.
  - cbn [fst]. eapply same_frame_rep; [|exact Hrep]. repeat split. cbn [t_data]. apply map_prefix_length.
  - cbn [fst]. eapply same_frame_rep; [|exact Hrep].
    exact (for_each_mut_wi_frame f k (tensor_iter_from (TBase t))).
  - destruct (Nat.eqb (length idx) (length (t_shape t))); [|exact Hrep].
    destruct (t_set t idx v) as [t'|] eqn:E; cbn [fst]; [|exact Hrep].
    eapply same_frame_rep; [|exact Hrep]. eapply t_set_frame. exact E.
  - destruct (Nat.eqb (length idx) (length (t_shape t))); [|exact Hrep].
    destruct (apply_vsteps (TBase t) vs) as [s| |] eqn:Ev; cbn [fst]; try exact Hrep.
    destruct (src_set s idx v) as [s'|] eqn:E; cbn [fst]; [|exact Hrep].
    eapply same_frame_rep; [|exact Hrep].
    pose proof (src_set_frame _ _ _ _ E) as F. rewrite (apply_vsteps_base _ _ _ Ev) in F. exact F.
Qed.

Theorem ttrace_rep : forall (ops : list (top A)) (t : tensor A), tensor_rep t ->
  Forall (fun st => tensor_rep (fst st)) (ttrace t ops).
Proof.
  induction ops as [|o ops IH]; intros t H; cbn [ttrace]; constructor.
  - apply tstep_rep. exact H.
  - apply IH. apply tstep_rep. exact H.
Qed.

Theorem trun_rep : forall (ops : list (top A)) (t : tensor A), tensor_rep t -> tensor_rep (trun t ops).
Proof.
  unfold trun. induction ops as [|o ops IH]; intros t H; cbn [fold_left]; [exact H|].
  apply IH. apply tstep_rep. exact H.
Qed.

(* a step that reports a panic / an error of a validating call (2 / 1 from reshape, rename,
   reorder, transpose, an adaptor constructor) or an absent index (3) or an inexpressible call
   (4) has not touched the tensor at all: the validation precedes every access *)
Theorem tstep_rejection_before_access (t : tensor A) (o : top A) :
  match o with TMapMut _ _ | TMapMutWithIndex _ _ => False | _ => True end ->
  snd (tstep t o) <> 0%nat -> fst (tstep t o) = t.
Proof.
  destruct o as [sh|dims|dims|dims|f k|f k|idx v|vs idx v]; cbn [tstep]; intros Hk H; try contradiction.
  - destruct (Nat.eqb (length sh) (length (t_shape t))); [|reflexivity].
    destruct (reshape_mut t sh); cbn [settle fst snd] in *; congruence.
  - destruct (Nat.eqb (length dims) (length (t_shape t))); [|reflexivity].
    destruct (rename t dims); cbn [settle fst snd] in *; congruence.
  - destruct (Nat.eqb (length dims) (length (t_shape t))); [|reflexivity].
    destruct (transpose_mut t dims); cbn [settle fst snd] in *; congruence.
  - destruct (Nat.eqb (length dims) (length (t_shape t))); [|reflexivity].
    destruct (reorder_mut t dims); cbn [settle fst snd] in *; congruence.
  - destruct (Nat.eqb (length idx) (length (t_shape t))); [|reflexivity].
    destruct (t_set t idx v); cbn [fst snd] in *; congruence.
  - destruct (Nat.eqb (length idx) (length (t_shape t))); [|reflexivity].
    destruct (apply_vsteps (TBase t) vs); cbn [fst snd] in *; try reflexivity.
    destruct (src_set a idx v); cbn [fst snd] in *; congruence.
Qed.

(* in the in-place square branch of reorder_mut / transpose_mut the only panic is the rejected
   dimension list, raised before the swap loop starts (the unwraps inside the loop never fire) *)
Theorem reorder_mut_panics_only_on_names (t : tensor A) dims :
  tensor_rep t -> length dims = length (t_shape t) ->
  (reorder_mut t dims = Panic <-> dm_new (names_of (t_shape t)) dims = None) /\
  (transpose_mut t dims = Panic <-> dm_new (names_of (t_shape t)) dims = None).
Proof.
  intros [Hinv Hb] Hl.
  rewrite transpose_mut_eq_transpose, reorder_mut_eq_reorder by assumption.
  unfold transpose, reorder. cbn [src_shape].
  destruct (dm_new (names_of (t_shape t)) dims) as [tbl|] eqn:Hd.
  - assert (Hok : exists r, tensor_from (src_shape (TAccess (TBase t) tbl))
                                        (iter_values (TAccess (TBase t) tbl)) = Ok r).
    { assert (Hw : src_wf (TAccess (TBase t) tbl)).
      { cbn [src_wf src_shape]. split; [split; assumption|]. exists dims. split; assumption. }
      destruct (reorder_materialises (TBase t) dims tbl Hd (wf_good_view _ Hw)) as [r [Hr _]].
      unfold reorder in Hr. cbn [src_shape] in Hr. rewrite Hd in Hr. eauto. }
    destruct Hok as [r Hr]. cbn [src_shape] in Hr. rewrite Hr. cbn [omap].
    split; split; discriminate.
  - cbn [omap]. split; split; reflexivity.
Qed.

End C10Tensor.
