(* C18: formatted output is tied to the model -- proofs about Model/Format.v.
   1. the loop transcriptions equal the readable layout ("[ " rows joined by "\n  ", cells joined
      by ", ", " ]");
   2. the layout is INJECTIVE: for an element renderer whose texts contain no blank, comma or
      newline and which is itself injective, the rendered text determines the number of rows, the
      number of columns and every element (matrices; tensors with D <= 2 of a given shape);
   3. the text of an r-row matrix has exactly r lines;
   4. the two element renderers used by the correspondence (decimal i64, Tok) satisfy the
      hypotheses of 2. *)
From Coq Require Import List NArith ZArith Bool Arith Lia.
From EasyML Require Import Model.Format.
Import ListNotations.

(* ---------------------------------------------------------------- words and separators *)
Definition sepc (c : N) : bool := (N.eqb c 44 || N.eqb c 32 || N.eqb c 10)%bool.   (* ',' ' ' '\n' *)
Definition word (w : text) : Prop := Forall (fun c => sepc c = false) w.
Definition tail_ok (t : text) : Prop := t = [] \/ exists c t', t = c :: t' /\ sepc c = true.
(* a tail that does not continue the row: empty, or starting with a blank or a newline *)
Definition tail2 (t : text) : Prop := t = [] \/ exists c t', t = c :: t' /\ sepc c = true /\ c <> 44%N.

Lemma tail2_ok t : tail2 t -> tail_ok t.
Proof. intros [E|(c & t' & E & S & _)]; [left; exact E | right; exists c, t'; auto]. Qed.

Lemma word_prefix_free w1 : forall w2 r1 r2,
  word w1 -> word w2 -> tail_ok r1 -> tail_ok r2 -> w1 ++ r1 = w2 ++ r2 -> w1 = w2 /\ r1 = r2.
Proof.
  induction w1 as [|a w1 IH]; intros [|b w2] r1 r2 W1 W2 T1 T2 E; simpl in E.
  - split; [reflexivity | exact E].
  - exfalso. inversion W2 as [|? ? Hb _]; subst.
    destruct T1 as [E1|(c & t' & E1 & S)]; [discriminate|]. inversion E1; subst. congruence.
  - exfalso. inversion W1 as [|? ? Ha _]; subst.
    destruct T2 as [E2|(c & t' & E2 & S)]; [discriminate|]. inversion E2; subst. congruence.
  - inversion E; subst. inversion W1; inversion W2; subst.
    destruct (IH w2 r1 r2) as [Ew Er]; auto. subst. split; reflexivity.
Qed.

(* ---------------------------------------------------------------- the readable layout *)
Fixpoint join (sep : text) (ws : list text) : text :=
  match ws with
  | [] => []
  | w :: rest => match rest with [] => w | _ :: _ => w ++ sep ++ join sep rest end
  end.

Lemma join_cons2 sep w x rest : join sep (w :: x :: rest) = w ++ sep ++ join sep (x :: rest).
Proof. reflexivity. Qed.

Lemma concat_sep_join (f : nat -> text) (sep : text) : forall n s,
  concat (map (fun c => f c ++ (if Nat.ltb c (s + n - 1) then sep else [])) (seq s n))
  = join sep (map f (seq s n)).
Proof.
  induction n as [|n IH]; intro s; [reflexivity|].
  destruct n as [|n'].
  - simpl. replace (s + 1 - 1) with s by lia. rewrite Nat.ltb_irrefl. rewrite !app_nil_r. reflexivity.
  - change (seq s (S (S n'))) with (s :: seq (S s) (S n')).
    rewrite !map_cons, concat_cons.
    assert (Hj : join sep (f s :: map f (seq (S s) (S n'))) = f s ++ sep ++ join sep (map f (seq (S s) (S n'))))
      by reflexivity.
    rewrite Hj.
    replace (Nat.ltb s (s + S (S n') - 1)) with true by (symmetry; apply Nat.ltb_lt; lia).
    rewrite <- app_assoc. f_equal. f_equal.
    rewrite <- IH. replace (S s + S n' - 1) with (s + S (S n') - 1) by lia. reflexivity.
Qed.

Lemma rows_sep_join (g : nat -> text) (ind nl : text) : forall n s,
  concat (map (fun r => (if Nat.ltb 0 r then ind else []) ++ g r
                        ++ (if Nat.ltb r (s + S n - 1) then nl else [])) (seq s (S n)))
  = (if Nat.ltb 0 s then ind else []) ++ join (nl ++ ind) (map g (seq s (S n))).
Proof.
  induction n as [|n IH]; intro s.
  - simpl. replace (s + 1 - 1) with s by lia. rewrite Nat.ltb_irrefl. rewrite !app_nil_r. reflexivity.
  - change (seq s (S (S n))) with (s :: seq (S s) (S n)).
    rewrite !map_cons, concat_cons.
    assert (Hj : join (nl ++ ind) (g s :: map g (seq (S s) (S n)))
                 = g s ++ (nl ++ ind) ++ join (nl ++ ind) (map g (seq (S s) (S n)))) by reflexivity.
    rewrite Hj.
    replace (Nat.ltb s (s + S (S n) - 1)) with true by (symmetry; apply Nat.ltb_lt; lia).
    replace (s + S (S n) - 1) with (S s + S n - 1) by lia.
    rewrite IH. change (Nat.ltb 0 (S s)) with true. cbv iota.
    rewrite <- !app_assoc. reflexivity.
Qed.

Section Layout.
Context {E : Type} (re : option N -> E -> text) (prec : option N).

(* the table of rendered cells *)
Definition cells_of (rows cols : nat) (get : nat -> nat -> E) : list (list text) :=
  map (fun r => map (fun c => re prec (get r c)) (seq 0 cols)) (seq 0 rows).

Definition layout (tab : list (list text)) : text :=
  t_open ++ join (t_nl ++ t_indent) (map (join t_comma) tab) ++ t_close.

Lemma fmt_cells_join cols get :
  fmt_cells re prec cols get = join t_comma (map (fun c => re prec (get c)) (seq 0 cols)).
Proof. unfold fmt_cells. exact (concat_sep_join (fun c => re prec (get c)) t_comma cols 0). Qed.

Lemma fmt_matrix_layout rows cols get : 0 < rows ->
  fmt_matrix re prec rows cols get = layout (cells_of rows cols get).
Proof.
  intro Hr. destruct rows as [|n]; [lia|]. unfold fmt_matrix, layout, cells_of.
  f_equal. f_equal.
  pose proof (rows_sep_join (fun r => fmt_cells re prec cols (get r)) t_indent t_nl n 0) as H.
  change (0 + S n - 1) with (S n - 1) in H. change (Nat.ltb 0 0) with false in H. cbv iota in H.
  cbn [app] in H. rewrite H. rewrite map_map. f_equal. apply map_ext. intro r. apply fmt_cells_join.
Qed.
End Layout.

(* ---------------------------------------------------------------- injectivity of the layout *)
Lemma join_comma_inj : forall ws1 ws2 T1 T2,
  ws1 <> [] -> ws2 <> [] -> Forall word ws1 -> Forall word ws2 -> tail2 T1 -> tail2 T2 ->
  join t_comma ws1 ++ T1 = join t_comma ws2 ++ T2 -> ws1 = ws2 /\ T1 = T2.
Proof.
  induction ws1 as [|w1 ws1 IH]; intros [|w2 ws2] T1 T2 N1 N2 F1 F2 H1 H2 Eq; try congruence.
  inversion F1 as [|? ? Hw1 F1']; inversion F2 as [|? ? Hw2 F2']; subst.
  destruct ws1 as [|x1 r1]; destruct ws2 as [|x2 r2].
  - simpl in Eq. destruct (word_prefix_free w1 w2 T1 T2) as [A B]; auto using tail2_ok.
    subst. split; reflexivity.
  - exfalso. rewrite join_cons2 in Eq. cbn [join] in Eq. rewrite <- !app_assoc in Eq.
    destruct (word_prefix_free w1 w2 T1 (t_comma ++ join t_comma (x2 :: r2) ++ T2)) as [A B]; auto using tail2_ok.
    { right. eexists; eexists; split; [reflexivity | reflexivity]. }
    destruct H1 as [E1|(c & t' & E1 & _ & Nc)]; subst; [discriminate|]. inversion B. congruence.
  - exfalso. rewrite join_cons2 in Eq. cbn [join] in Eq. rewrite <- !app_assoc in Eq.
    destruct (word_prefix_free w1 w2 (t_comma ++ join t_comma (x1 :: r1) ++ T1) T2) as [A B]; auto using tail2_ok.
    { right. eexists; eexists; split; [reflexivity | reflexivity]. }
    destruct H2 as [E2|(c & t' & E2 & _ & Nc)]; subst; [discriminate|]. inversion B. congruence.
  - rewrite !join_cons2 in Eq. rewrite <- !app_assoc in Eq.
    destruct (word_prefix_free w1 w2 (t_comma ++ join t_comma (x1 :: r1) ++ T1)
                                     (t_comma ++ join t_comma (x2 :: r2) ++ T2)) as [A B]; auto.
    { right. eexists; eexists; split; [reflexivity | reflexivity]. }
    { right. eexists; eexists; split; [reflexivity | reflexivity]. }
    subst. inversion B as [B'].
    destruct (IH (x2 :: r2) T1 T2) as [C D]; auto; try congruence.
    rewrite C. split; [reflexivity | exact D].
Qed.

Definition row_ok (ws : list text) : Prop := ws <> [] /\ Forall word ws.

Lemma rows_inj : forall R1 R2 T,
  R1 <> [] -> R2 <> [] -> Forall row_ok R1 -> Forall row_ok R2 ->
  join (t_nl ++ t_indent) (map (join t_comma) R1) ++ t_close ++ T
  = join (t_nl ++ t_indent) (map (join t_comma) R2) ++ t_close ++ T -> R1 = R2.
Proof.
  induction R1 as [|r1 R1 IH]; intros [|r2 R2] T N1 N2 F1 F2 Eq; try congruence.
  inversion F1 as [|? ? [Hn1 Hw1] F1']; inversion F2 as [|? ? [Hn2 Hw2] F2']; subst.
  assert (Tc : forall X, tail2 (t_close ++ X)).
  { intro X. right. exists 32%N. eexists. split; [reflexivity|]. split; [reflexivity | discriminate]. }
  assert (Tn : forall X, tail2 ((t_nl ++ t_indent) ++ X)).
  { intro X. right. exists 10%N. eexists. split; [reflexivity|]. split; [reflexivity | discriminate]. }
  destruct R1 as [|x1 q1]; destruct R2 as [|x2 q2]; cbn [map] in Eq.
  - cbn [join] in Eq. destruct (join_comma_inj r1 r2 (t_close ++ T) (t_close ++ T)) as [A _]; auto.
    subst. reflexivity.
  - exfalso. rewrite join_cons2 in Eq. cbn [join] in Eq. rewrite <- !app_assoc in Eq.
    match type of Eq with _ ++ ?A = _ ++ ?B => destruct (join_comma_inj r1 r2 A B) as [_ D]; auto end.
    { rewrite app_assoc. apply Tn. }
    discriminate D.
  - exfalso. rewrite join_cons2 in Eq. cbn [join] in Eq. rewrite <- !app_assoc in Eq.
    match type of Eq with _ ++ ?A = _ ++ ?B => destruct (join_comma_inj r1 r2 A B) as [_ D]; auto end.
    { rewrite app_assoc. apply Tn. }
    discriminate D.
  - change (join t_comma x1 :: map (join t_comma) q1) with (map (join t_comma) (x1 :: q1)) in Eq.
    change (join t_comma x2 :: map (join t_comma) q2) with (map (join t_comma) (x2 :: q2)) in Eq.
    cbn [map] in Eq. rewrite !join_cons2 in Eq. rewrite <- !app_assoc in Eq.
    match type of Eq with _ ++ ?A = _ ++ ?B => destruct (join_comma_inj r1 r2 A B) as [C D]; auto end.
    { rewrite app_assoc. apply Tn. }
    { rewrite app_assoc. apply Tn. }
    subst. f_equal. inversion D as [D'].
    apply (IH (x2 :: q2) T); auto; congruence.
Qed.

Lemma layout_inj R1 R2 :
  R1 <> [] -> R2 <> [] -> Forall row_ok R1 -> Forall row_ok R2 -> layout R1 = layout R2 -> R1 = R2.
Proof.
  intros N1 N2 F1 F2 Eq. unfold layout in Eq. apply app_inv_head in Eq.
  apply (rows_inj R1 R2 []); auto.
Qed.

(* ---------------------------------------------------------------- from the table back to the getters *)
Section Inj.
Context {E : Type} (re : option N -> E -> text) (prec : option N).
Hypothesis re_word : forall e, word (re prec e).
Hypothesis re_inj : forall a b, re prec a = re prec b -> a = b.

Lemma cells_rows_ok rows cols get : 0 < cols -> Forall row_ok (cells_of re prec rows cols get).
Proof.
  intro Hc. unfold cells_of. apply Forall_forall. intros ws Hin.
  apply in_map_iff in Hin. destruct Hin as (r & <- & _). split.
  - destruct cols; [lia|]. simpl. discriminate.
  - apply Forall_forall. intros w Hw. apply in_map_iff in Hw. destruct Hw as (c & <- & _). apply re_word.
Qed.

Lemma cells_nonempty rows cols get : 0 < rows -> cells_of re prec rows cols get <> [].
Proof. intro H. destruct rows; [lia|]. unfold cells_of. simpl. discriminate. Qed.

Lemma cells_eq rows1 cols1 get1 rows2 cols2 get2 :
  0 < rows1 -> cells_of re prec rows1 cols1 get1 = cells_of re prec rows2 cols2 get2 ->
  rows1 = rows2 /\ cols1 = cols2 /\ forall r c, r < rows1 -> c < cols1 -> get1 r c = get2 r c.
Proof.
  intros Hr Eq. unfold cells_of in Eq.
  assert (Er : rows1 = rows2).
  { apply (f_equal (@length _)) in Eq. rewrite !map_length, !seq_length in Eq. exact Eq. }
  subst rows2.
  assert (Ec : cols1 = cols2).
  { destruct rows1; [lia|]. change (seq 0 (S rows1)) with (0 :: seq 1 rows1) in Eq.
    rewrite !map_cons in Eq. injection Eq as H0 _.
    apply (f_equal (@length _)) in H0. rewrite !map_length, !seq_length in H0. exact H0. }
  subst cols2. split; [reflexivity|]. split; [reflexivity|].
  intros r c Hlr Hlc.
  pose proof (proj1 (@map_ext_in_iff _ _ _ _ _) Eq r) as Hrow.
  assert (In r (seq 0 rows1)) as Hin by (apply in_seq; lia). specialize (Hrow Hin). cbv beta in Hrow.
  pose proof (proj1 (@map_ext_in_iff _ _ _ _ _) Hrow c) as Hcell.
  assert (In c (seq 0 cols1)) as Hin2 by (apply in_seq; lia). specialize (Hcell Hin2). cbv beta in Hcell.
  apply re_inj. exact Hcell.
Qed.

(* matrices/views.rs format_view: the text determines rows, columns and every element *)
Theorem matrix_display_injective rows1 cols1 get1 rows2 cols2 get2 :
  0 < rows1 -> 0 < cols1 -> 0 < rows2 -> 0 < cols2 ->
  fmt_matrix re prec rows1 cols1 get1 = fmt_matrix re prec rows2 cols2 get2 ->
  rows1 = rows2 /\ cols1 = cols2 /\ forall r c, r < rows1 -> c < cols1 -> get1 r c = get2 r c.
Proof.
  intros R1 C1 R2 C2 Eq. rewrite !fmt_matrix_layout in Eq by assumption.
  apply layout_inj in Eq; auto using cells_nonempty, cells_rows_ok.
  apply cells_eq; assumption.
Qed.

(* tensors/display.rs format_view for D <= 2 and a given shape: the text determines every element *)
Theorem tensor_display_injective (sh : list (nat * nat)) (g1 g2 : list nat -> E) t :
  length sh <= 2 -> Forall (fun p => 0 < snd p) sh ->
  fmt_tensor re prec sh g1 = Some t -> fmt_tensor re prec sh g2 = Some t ->
  forall idx, Forall2 (fun i p => i < snd p) idx sh -> g1 idx = g2 idx.
Proof.
  intros HD Hpos F1 F2 idx Hidx.
  destruct sh as [|[n0 l0] [|[n1 l1] [|p3 rest]]]; cbn [fmt_tensor] in F1, F2; cbn [length] in HD; try lia.
  - inversion Hidx; subst.
    assert (Eq : t_open ++ re prec (g1 []) ++ t_close = t_open ++ re prec (g2 []) ++ t_close).
    { apply (app_inv_head (fmt_header [])). congruence. }
    apply (app_inv_head t_open) in Eq.
    destruct (word_prefix_free (re prec (g1 [])) (re prec (g2 [])) t_close t_close) as [A _]; auto;
      try (right; eexists; eexists; split; reflexivity).
  - inversion Hidx as [|i ? ? ? Hi Hrest]; subst. inversion Hrest; subst. cbn [snd] in Hi.
    assert (Eq' : t_open ++ fmt_cells re prec l0 (fun i => g1 [i]) ++ t_close
                  = t_open ++ fmt_cells re prec l0 (fun i => g2 [i]) ++ t_close).
    { apply (app_inv_head (fmt_header [(n0, l0)])). congruence. }
    apply (app_inv_head t_open) in Eq'. rewrite !fmt_cells_join in Eq'.
    inversion Hpos as [|? ? Hl0 _]; subst. cbn [snd] in Hl0.
    assert (T : tail2 t_close).
    { right. exists 32%N. eexists. split; [reflexivity|]. split; [reflexivity | discriminate]. }
    destruct (join_comma_inj (map (fun c => re prec (g1 [c])) (seq 0 l0))
                             (map (fun c => re prec (g2 [c])) (seq 0 l0)) t_close t_close) as [A _]; auto.
    + destruct l0; [lia|]. simpl. discriminate.
    + destruct l0; [lia|]. simpl. discriminate.
    + apply Forall_forall. intros w Hw. apply in_map_iff in Hw. destruct Hw as (c & <- & _). apply re_word.
    + apply Forall_forall. intros w Hw. apply in_map_iff in Hw. destruct Hw as (c & <- & _). apply re_word.
    + pose proof (proj1 (@map_ext_in_iff _ _ _ _ _) A i) as Hc.
      assert (In i (seq 0 l0)) as Hin by (apply in_seq; lia). specialize (Hc Hin). cbv beta in Hc.
      apply re_inj. exact Hc.
  - inversion Hidx as [|i ? ? ? Hi Hrest]; subst. inversion Hrest as [|j ? ? ? Hj Hrest']; subst.
    inversion Hrest'; subst. cbn [snd] in Hi, Hj.
    inversion Hpos as [|? ? Hl0 Hpos']; subst. inversion Hpos' as [|? ? Hl1 _]; subst. cbn [snd] in Hl0, Hl1.
    assert (Eq : fmt_matrix re prec l0 l1 (fun i j => g1 [i; j]) = fmt_matrix re prec l0 l1 (fun i j => g2 [i; j])).
    { apply (app_inv_head (fmt_header [(n0, l0); (n1, l1)])). congruence. }
    destruct (matrix_display_injective l0 l1 (fun i j => g1 [i; j]) l0 l1 (fun i j => g2 [i; j])) as (_ & _ & P); auto.
Qed.
End Inj.

(* ---------------------------------------------------------------- one line per row *)
Definition newlines (t : text) : nat := count_occ N.eq_dec t 10%N.

Lemma newlines_app a b : newlines (a ++ b) = newlines a + newlines b.
Proof. unfold newlines. apply count_occ_app. Qed.

Lemma word_no_newline w : word w -> newlines w = 0.
Proof.
  unfold newlines. induction 1 as [|c w Hc _ IH]; [reflexivity|].
  simpl. destruct (N.eq_dec c 10) as [->|_]; [discriminate Hc | exact IH].
Qed.

Lemma join_comma_no_newline ws : Forall word ws -> newlines (join t_comma ws) = 0.
Proof.
  induction 1 as [|w ws Hw _ IH]; [reflexivity|].
  destruct ws as [|x r]; [exact (word_no_newline w Hw)|].
  rewrite join_cons2, !newlines_app, IH, (word_no_newline w Hw). reflexivity.
Qed.

Lemma join_rows_newlines R : Forall (fun ws => Forall word ws) R ->
  newlines (join (t_nl ++ t_indent) (map (join t_comma) R)) = length R - 1.
Proof.
  induction 1 as [|r R Hr _ IH]; [reflexivity|].
  destruct R as [|x q]; [simpl; apply join_comma_no_newline; exact Hr|].
  cbn [map]. change (join t_comma x :: map (join t_comma) q) with (map (join t_comma) (x :: q)).
  cbn [map] in IH |- *. rewrite join_cons2, !newlines_app, IH, (join_comma_no_newline r Hr).
  simpl. lia.
Qed.

Theorem matrix_display_lines {E} (re : option N -> E -> text) prec rows cols get :
  (forall e, word (re prec e)) -> 0 < rows ->
  newlines (fmt_matrix re prec rows cols get) = rows - 1.
Proof.
  intros Hw Hr. rewrite fmt_matrix_layout by exact Hr. unfold layout.
  rewrite !newlines_app, join_rows_newlines.
  - unfold cells_of. rewrite map_length, seq_length.
    replace (newlines t_open) with 0 by reflexivity. replace (newlines t_close) with 0 by reflexivity. lia.
  - unfold cells_of. apply Forall_forall. intros ws Hin. apply in_map_iff in Hin.
    destruct Hin as (r & <- & _). apply Forall_forall. intros w Hin. apply in_map_iff in Hin.
    destruct Hin as (c & <- & _). apply Hw.
Qed.

(* ---------------------------------------------------------------- the decimal renderers *)
Definition digit (c : N) : Prop := (48 <= c <= 57)%N.

Lemma dec_fuel_digits f : forall n acc, Forall digit acc -> Forall digit (dec_fuel f n acc).
Proof.
  induction f as [|f IH]; intros n acc Ha; cbn [dec_fuel]; [exact Ha|].
  destruct (N.ltb_spec n 10) as [L|G].
  - constructor; [unfold digit; lia | exact Ha].
  - apply IH. constructor; [|exact Ha]. unfold digit.
    pose proof (N.mod_lt n 10 ltac:(discriminate)) as Hm. set (m := (n mod 10)%N) in *. clearbody m. lia.
Qed.

Lemma dec_N_digits n : Forall digit (dec_N n).
Proof. apply dec_fuel_digits. constructor. Qed.

Definition dstep (a c : N) : N := (10 * a + (c - 48))%N.
Definition undigits (l : text) : N := fold_left dstep l 0%N.

Lemma undigits_dec_fuel f : forall n acc, (n < 2 ^ N.of_nat f)%N ->
  fold_left dstep (dec_fuel f n acc) 0%N = fold_left dstep acc n.
Proof.
  induction f as [|f IH]; intros n acc Hn.
  - cbn [dec_fuel]. change (2 ^ N.of_nat 0)%N with 1%N in Hn. replace n with 0%N by lia. reflexivity.
  - cbn [dec_fuel]. rewrite Nat2N.inj_succ, N.pow_succ_r' in Hn.
    destruct (N.ltb_spec n 10) as [L|G].
    + cbn [fold_left]. f_equal. unfold dstep. lia.
    + rewrite IH.
      * cbn [fold_left]. f_equal. unfold dstep.
        pose proof (N.div_mod' n 10) as Hd. pose proof (N.mod_lt n 10 ltac:(discriminate)) as Hm.
        set (m := (n mod 10)%N) in *. set (q := (n / 10)%N) in *. clearbody m q. lia.
      * apply N.div_lt_upper_bound; [discriminate | lia].
Qed.

Lemma pos_fuel_bound p : (Npos p < 2 ^ N.of_nat (pos_fuel p))%N.
Proof.
  induction p as [q IH|q IH|]; cbn [pos_fuel].
  - rewrite Nat2N.inj_succ, N.pow_succ_r'. lia.
  - rewrite Nat2N.inj_succ, N.pow_succ_r'. lia.
  - reflexivity.
Qed.

Lemma undigits_dec_N n : undigits (dec_N n) = n.
Proof.
  unfold undigits, dec_N. rewrite undigits_dec_fuel; [reflexivity|].
  destruct n as [|p]; [reflexivity | apply pos_fuel_bound].
Qed.

Lemma dec_N_inj a b : dec_N a = dec_N b -> a = b.
Proof. intro H. rewrite <- (undigits_dec_N a), <- (undigits_dec_N b), H. reflexivity. Qed.

Lemma dec_fuel_nonempty f : forall n acc, acc <> [] \/ f <> 0 -> dec_fuel f n acc <> [].
Proof.
  induction f as [|f IH]; intros n acc H; cbn [dec_fuel].
  - destruct H as [H|H]; [exact H | congruence].
  - destruct (N.ltb n 10); [discriminate|]. apply IH. left. discriminate.
Qed.

Lemma n_fuel_pos n : n_fuel n <> 0.
Proof. destruct n as [|[q|q|]]; cbn; discriminate. Qed.

Lemma dec_N_head_digit n : exists c r, dec_N n = c :: r /\ digit c.
Proof.
  pose proof (dec_N_digits n) as F.
  destruct (dec_N n) as [|c r] eqn:E.
  - exfalso. apply (dec_fuel_nonempty (n_fuel n) n []); [right; apply n_fuel_pos | exact E].
  - exists c, r. inversion F; subst. split; [reflexivity | assumption].
Qed.

Lemma dec_Z_inj a b : dec_Z a = dec_Z b -> a = b.
Proof.
  assert (Hneg : forall p m, 45%N :: dec_N (Npos p) = dec_N m -> False).
  { intros p m H. destruct (dec_N_head_digit m) as (c & r & E & D). rewrite E in H.
    inversion H; subst. unfold digit in D. lia. }
  destruct a as [|p|p], b as [|q|q]; cbn [dec_Z]; intro H;
    try (exfalso; eapply Hneg; (exact H || (symmetry; exact H)); fail).
  - reflexivity.
  - apply dec_N_inj in H. cbn in H. discriminate H.
  - apply dec_N_inj in H. cbn in H. discriminate H.
  - apply dec_N_inj in H. cbn in H. congruence.
  - inversion H as [H']. apply dec_N_inj in H'. congruence.
Qed.

Lemma digit_word c : digit c -> sepc c = false.
Proof.
  unfold digit, sepc. intro H.
  destruct (N.eqb_spec c 44), (N.eqb_spec c 32), (N.eqb_spec c 10); try lia; reflexivity.
Qed.

Lemma dec_N_word n : word (dec_N n).
Proof. eapply Forall_impl; [|apply dec_N_digits]. intros c. apply digit_word. Qed.

Lemma dec_Z_word z : word (dec_Z z).
Proof.
  destruct z; cbn [dec_Z]; try apply dec_N_word.
  constructor; [reflexivity | apply dec_N_word].
Qed.

(* both element renderers of the correspondence satisfy the hypotheses of the injectivity theorems *)
Lemma render_word el prec v : word (render el prec v).
Proof.
  destruct el, prec as [k|]; cbn [render]; try apply dec_Z_word.
  apply Forall_app. split; [apply dec_Z_word|]. constructor; [reflexivity | apply dec_N_word].
Qed.

Lemma render_inj el prec a b : render el prec a = render el prec b -> a = b.
Proof.
  destruct el, prec as [k|]; cbn [render]; intro H; try (apply dec_Z_inj; exact H).
  apply app_inv_tail in H. apply dec_Z_inj. exact H.
Qed.

(* the decimal renderer on a concrete matrix: the documented text "[ 1, 2\n  3, 4 ]" *)
Lemma documented_example :
  fmt_matrix (render ElInt) None 2 2 (flat2 0%Z 2 [1; 2; 3; 4]%Z)
  = [91;32;49;44;32;50;10;32;32;51;44;32;52;32;93]%N.
Proof. vm_compute. reflexivity. Qed.
