(* C13, third extension wave: the hypotheses of the `_over_any_source` theorems, discharged for
   every CONSTRUCTED view of the C02 algebra from facts about its LEAVES only.
   The two hypotheses were `elements (view shape) <= usize::MAX` and `the store has an element for
   every in-bounds leaf offset` (+ C02's `usize_view`).  They are NOT consequences of
   `v_ctor v = Ok c` alone: stacking one zero-sized-element leaf of 2^63 elements with itself is
   accepted by TensorStack::from and has 2^64 elements (`elements_hypothesis_needed` below; such a
   view cannot be materialised at all).  What IS true, and proved here:
     view_elements_le_leaves   a view with pairwise distinct leaf objects has at most as many
                               elements as its leaves store together (C02's injectivity +
                               in-bounds resolution + pigeonhole);
     sum_usize_view            hence every length of every intermediate shape is a usize;
     leaves_cover              leaf containers satisfying their representation invariant
                               (data.len() = element count: C01 / C10 `tensor_inv`, matrix invariant)
                               cover every in-bounds leaf offset.
   So for a constructed view the only facts needed are about the leaf containers: they are distinct
   objects, each holds `data.len() = elements` values, and together they hold at most usize::MAX
   values (for ONE leaf: the typing fact `Vec::len() : usize`; in general: distinct live Vecs of a
   non-zero-sized element type share one address space). *)
From Coq Require Import List ZArith NArith Bool Arith Lia.
From EasyML Require Import Base.Sx Model.Shape Model.Tensor Model.TSource Model.ShapeIter
  Model.Transform Model.TransformG Model.IterG Model.TransformMutG
  Proofs.ShapeP Proofs.C01P Proofs.OdometerP Proofs.C09P Proofs.C13P Proofs.C13GenP Proofs.C09GenP
  Proofs.C09ViewsP Proofs.C13MutGenP.
From EasyML Require Import Model.Views Proofs.C02Lemmas Proofs.C02P Proofs.C02Q Proofs.C02W Proofs.C02Inj.
Import ListNotations.
Open Scope N_scope.

(* every (leaf, offset) inside the stored data of the leaves, listed *)
Definition cells (leaves : list (N * N)) : list (N * N) :=
  flat_map (fun e => map (fun j => (fst e, N.of_nat j)) (seq 0 (N.to_nat (snd e)))) leaves.

Lemma cells_length leaves : N.of_nat (length (cells leaves)) = Views.sum (map snd leaves).
Proof.
  induction leaves as [|e r IH]; [reflexivity|].
  unfold cells in *. cbn [flat_map map Views.sum fold_right]. rewrite app_length, map_length, seq_length.
  rewrite Nat2N.inj_add, N2Nat.id. unfold Views.sum in IH. rewrite IH. reflexivity.
Qed.

Lemma in_cells l off n leaves : In (l, n) leaves -> off < n -> In (l, off) (cells leaves).
Proof.
  intros Hin Hlt. unfold cells. apply in_flat_map. exists (l, n). split; [exact Hin|].
  cbn [fst snd]. apply in_map_iff. exists (N.to_nat off). split; [rewrite N2Nat.id; reflexivity|].
  apply in_seq. lia.
Qed.

(* pigeonhole: the index map of a view with distinct leaf objects is an injection of the view's
   index space into the cells of its leaves *)
Theorem view_elements_le_leaves c : cwf c -> usize_view c -> NoDup (leaf_ids c) ->
  elements (c_shape c) <= Views.sum (map snd (c_leaves c)).
Proof.
  intros Hw Hu Hn.
  set (all := Transform.all_indexes (lens_of (c_shape c))).
  set (img := map (fun idx => match c_get c idx with Some e => e | None => (0, 0) end) all).
  assert (Hres : forall idx, In idx all ->
            exists l off n, c_get c idx = Some (l, off) /\ In (l, n) (c_leaves c) /\ off < n).
  { intros idx Hin. pose proof (OdometerP.all_indexes_in_range (lens_of (c_shape c))) as F.
    rewrite Forall_forall in F. pose proof (F idx Hin) as Hr.
    assert (Hlen : length idx = length (c_shape c)).
    { pose proof (in_range_length _ _ Hr) as L. unfold lens_of in L. rewrite map_length in L. exact L. }
    destruct (cwf_contract c Hw Hu) as [_ Hp]. pose proof (proj2 (Hp idx Hlen) Hr) as Hsome.
    destruct (c_get c idx) as [[l off]|] eqn:Eg; [|congruence].
    destruct (cwf_resolves_in_bounds c Hw idx l off Eg) as [n [H1 H2]]. exists l, off, n. auto. }
  assert (Hnd : NoDup img).
  { unfold img. apply NoDup_map_inj_in; [|apply all_indexes_NoDup].
    intros a b Ha Hb E. pose proof (OdometerP.all_indexes_in_range (lens_of (c_shape c))) as F.
    rewrite Forall_forall in F.
    destruct (Hres a Ha) as [l1 [o1 [n1 [E1 _]]]]. destruct (Hres b Hb) as [l2 [o2 [n2 [E2 _]]]].
    rewrite E1, E2 in E. apply (view_injective c Hw Hu Hn a b (F a Ha) (F b Hb)). congruence. }
  assert (Hincl : incl img (cells (c_leaves c))).
  { intros e He. unfold img in He. apply in_map_iff in He. destruct He as [idx [<- Hin]].
    destruct (Hres idx Hin) as [l [off [n [E [H1 H2]]]]]. rewrite E. eapply in_cells; eauto. }
  pose proof (NoDup_incl_length Hnd Hincl) as Hle.
  unfold img in Hle. rewrite map_length in Hle. unfold all in Hle.
  rewrite OdometerP.all_indexes_length in Hle.
  pose proof (cells_length (c_leaves c)) as Hcl. unfold elements. lia.
Qed.

Lemma len_le_prod lens : Forall (fun l => 0 < l) lens -> forall l, In l lens -> l <= prod lens.
Proof.
  induction 1 as [|x r Hx Hr IH]; intros l Hin; [destruct Hin|].
  destruct Hin as [<-|Hin]; rewrite prod_cons.
  - pose proof (prod_pos r Hr). nia.
  - specialize (IH l Hin). nia.
Qed.

Lemma fold_add_acc l z : fold_right N.add z l = fold_right N.add 0 l + z.
Proof. induction l as [|a l IH]; cbn [fold_right]; [lia|rewrite IH; lia]. Qed.

Lemma sum_flat_map_in (cs : list cview) x : In x cs ->
  Views.sum (map snd (c_leaves x)) <= Views.sum (map snd (flat_map c_leaves cs)).
Proof.
  induction cs as [|y r IH]; intros Hin; [destruct Hin|].
  destruct Hin as [->|Hin]; cbn [flat_map]; rewrite map_app;
    unfold Views.sum in *; rewrite fold_right_app;
    rewrite (fold_add_acc _ (fold_right N.add 0 (map snd (flat_map c_leaves r)))).
  - lia.
  - specialize (IH Hin). lia.
Qed.

(* every length of every intermediate shape is a usize as soon as the leaves together hold at most
   usize::MAX elements *)
Theorem sum_usize_view c : cwf c -> NoDup (leaf_ids c) ->
  Views.sum (map snd (c_leaves c)) <= usize_max -> usize_view c.
Proof.
  induction c using cview_ind'; unfold leaf_ids in *; cbn [cwf usize_view c_leaves]; intros Hw Hn Hs;
    try exact I; try (apply IHc; [apply Hw|exact Hn|exact Hs]).
  - (* mask *)
    assert (Hu : usize_view c) by (apply IHc; [apply Hw|exact Hn|exact Hs]). split; [|exact Hu].
    pose proof (view_elements_le_leaves c (proj1 Hw) Hu Hn) as He.
    destruct (cwf_contract c (proj1 Hw) Hu) as [[_ Hpos] _].
    apply Forall_forall. intros d Hd.
    assert (snd d <= prod (lens_of (c_shape c))).
    { apply len_le_prod; [exact Hpos|]. unfold lens_of. apply in_map. exact Hd. }
    unfold elements in He. lia.
  - (* stack *)
    destruct Hw as [_ [Hall _]]. rewrite all_Forall in *. rewrite Forall_forall in *. intros x Hx.
    apply H; [exact Hx|apply Hall; exact Hx| |].
    + rewrite leaf_ids_flat in Hn. exact (NoDup_flat_map_in leaf_ids cs x Hn Hx).
    + pose proof (sum_flat_map_in cs x Hx). lia.
  - (* chain *)
    destruct Hw as [_ [Hall _]]. rewrite all_Forall in *. rewrite Forall_forall in *. intros x Hx.
    apply H; [exact Hx|apply Hall; exact Hx| |].
    + rewrite leaf_ids_flat in Hn. exact (NoDup_flat_map_in leaf_ids cs x Hn Hx).
    + pose proof (sum_flat_map_in cs x Hx). lia.
Qed.

(* ---------- leaf containers ---------- *)
Section Leaves.
Context {A : Type}.

(* the store given by the leaf containers: leaf id -> its Vec *)
Definition store_of (L : N -> list A) : N * N -> option A :=
  fun e => nth_error (L (fst e)) (N.to_nat (snd e)).

(* each leaf container holds exactly its element count (tensor_inv / the matrix invariant) *)
Definition leaves_hold (c : cview) (L : N -> list A) : Prop :=
  forall l n, In (l, n) (c_leaves c) -> N.of_nat (length (L l)) = n.

Lemma leaves_cover c L : leaves_hold c L -> covers c (store_of L).
Proof.
  intros H l n off Hin Hlt. unfold store_of. cbn [fst snd].
  destruct (nth_error (L l) (N.to_nat off)) as [x|] eqn:E; [eauto|].
  apply nth_error_None in E. pose proof (H l n Hin). lia.
Qed.

(* a tensor leaf built by the validating constructor holds its element count *)
Lemma tensor_leaf_holds id (t : tensor A) L : tensor_inv t -> L id = t_data t ->
  leaves_hold (CTensor id (t_shape t) (t_strides t)) L.
Proof. intros [_ [_ He]] HL l n [[= <- <-]|[]]. rewrite HL. exact He. Qed.

(* THE DISCHARGE: for a constructed view over leaf containers, the three hypotheses of the
   any-source theorems follow from facts about the leaves *)
Theorem constructed_view_hypotheses v c L :
  v_ctor v = Ok c -> NoDup (leaf_ids c) -> leaves_hold c L ->
  Views.sum (map snd (c_leaves c)) <= usize_max ->
  usize_view c /\ elements (c_shape c) <= usize_max /\ covers c (store_of L) /\
  g_contract (of_cview c (store_of L)).
Proof.
  intros Hc Hn HL Hs. pose proof (ctor_wf v c Hc) as Hw.
  pose proof (sum_usize_view c Hw Hn Hs) as Hu.
  pose proof (view_elements_le_leaves c Hw Hu Hn) as He.
  assert (Hb : elements (c_shape c) <= usize_max) by lia.
  pose proof (leaves_cover c L HL) as Hcov.
  split; [exact Hu|]. split; [exact Hb|]. split; [exact Hcov|].
  exact (cview_contract v c (store_of L) Hc Hu Hb Hcov).
Qed.

(* map_mut_with_index / map_mut through a constructed view, from leaf facts only: exactly the
   designated stored elements change, to f(index, old); every other stored element of every leaf is
   untouched; and the view afterwards reads what the allocating map_with_index returns *)
Theorem constructed_view_map_mut v c L (f : list N -> A -> A) :
  v_ctor v = Ok c -> NoDup (leaf_ids c) -> leaves_hold c L ->
  Views.sum (map snd (c_leaves c)) <= usize_max ->
  forall st st', st = store_of L -> st' = gm_map_mut_with_index (cview_source c) f st ->
  covers c st' /\
  (forall x e, in_range x (lens_of (c_shape c)) -> c_get c x = Some e -> st' e = option_map (f x) (st e)) /\
  (forall e, ~ designated c e -> st' e = st e) /\
  exists t, g_map_with_index f (of_cview c st) = Ok t /\ t_shape t = c_shape c /\
    forall x, in_range x (lens_of (c_shape c)) -> ts_get (cview_source c) st' x = t_get t x.
Proof.
  intros Hc Hn HL Hs st st' -> ->.
  destruct (constructed_view_hypotheses v c L Hc Hn HL Hs) as [Hu [Hb [Hcov _]]].
  destruct (cview_map_mut_with_index v c Hc Hu Hn f (store_of L) Hcov) as [H1 [_ [H3 H4]]].
  split; [exact H1|]. split; [exact H3|]. split; [exact H4|].
  exact (cview_map_mut_eq_map v c Hc Hu Hn f (store_of L) Hcov Hb).
Qed.

End Leaves.

(* the element-count hypothesis is needed when leaf objects are SHARED: TensorStack::from accepts
   [&t, &t] for a 2^63-element tensor t (zero-sized elements make t constructible); the view has
   2^64 elements, more than any Vec can hold, so no materialising method can succeed on it *)
Theorem elements_hypothesis_needed :
  let t := VTensor 0 [(0%nat, 2 ^ 63)] in
  exists c, v_ctor (VStack [t; t] 0 1%nat) = Ok c /\ usize_max < elements (c_shape c) /\
            ~ NoDup (leaf_ids c).
Proof.
  cbv zeta. eexists. split; [vm_compute; reflexivity|]. split; [vm_compute; reflexivity|].
  vm_compute. intros H. inversion H as [|? ? Hin _]. apply Hin. left. reflexivity.
Qed.
