(* C08 division safety (stdlib style), continued: the Cholesky statement over the bundle
   `ordered_sqrt_field` of Proofs/C08P5.v, and concrete runs of the instrumented models
   (kernel evaluation) over the dictionaries of the correspondence:
     Qops   (harness type StrictRat:  sqrt stand-in x^3 + 7x + 23, never zero on x >= 0)
     Qops0  (harness type StrictRat0: sqrt stand-in x^3 + 7x, zero at zero) *)
From Coq Require Import List Arith Bool ZArith QArith.
From EasyML Require Import Base.Sx Model.Num Model.LinAlg Model.Decomp Model.DivOutcome
  Model.DecompDiv Proofs.C07Div Proofs.C08P5 Proofs.C08Div.
Import ListNotations.

Lemma osf_sqrt_nonzero {R : Type} (ops : numops R) (lt : R -> R -> Prop) :
  ordered_sqrt_field ops lt ->
  forall e, nleb ops e (nzero ops) = false -> neqb ops (nsqrt ops e) (nzero ops) = false.
Proof.
  intros [_ [Hirr [Hle [_ [Heq [_ Hpos]]]]]] e He.
  apply Hle in He. apply Hpos in He.
  destruct (neqb ops (nsqrt ops e) (nzero ops)) eqn:E; [|reflexivity].
  apply Heq in E. rewrite E in He. exfalso. exact (Hirr _ He).
Qed.

Theorem cholesky_i_strict_osf {R : Type} (ops : numops R) (lt : R -> R -> Prop) a :
  ordered_sqrt_field ops lt ->
  cholesky_i ops (strict_div ops) a = Ok (cholesky ops a).
Proof. intros H. apply cholesky_i_strict. exact (osf_sqrt_nonzero ops lt H). Qed.

(* ------------------------------------------------------------------ concrete runs *)
Definition qi (z : Z) : Q := Qmake z 1.
Definition qmat (m : list (list Z)) : list (list Q) := map (map qi) m.
Definition no_div : Q -> Q -> option Q := fun _ _ => None.

(* QR, sqrt zero at zero: a zero first column is 0 / 0 in the first reflection *)
Definition ex_zero_col : list (list Q) := qmat [[0; 1]; [0; 2]; [0; 3]]%Z.
(* rank 1, first column fine, second column a multiple of e_0: zero sub-column in reflection 2 *)
Definition ex_second_step : list (list Q) := qmat [[1; 2]; [0; 0]; [0; 0]]%Z.
(* rank 2 < 3 columns, but the dependent column is the LAST one of a square input, which is
   never reflected (min(M-1, N) = 2 reflections): no division by zero *)
Definition ex_rank_deficient_safe : list (list Q) := qmat [[1; 0; 1]; [0; 1; 1]; [0; 0; 0]]%Z.
(* full column rank *)
Definition ex_full_rank : list (list Q) := qmat [[1; 2]; [0; 1]; [0; 0]]%Z.

Lemma qr_examples :
  qr_i Qops0 (strict_div Qops0) ex_zero_col = Panic /\
  qr_div_safe Qops0 ex_zero_col = false /\
  qr_i Qops0 (strict_div Qops0) ex_second_step = Panic /\
  qr_i Qops0 (strict_div Qops0) ex_rank_deficient_safe = Ok (qr Qops0 ex_rank_deficient_safe) /\
  qr_i Qops0 (strict_div Qops0) ex_full_rank = Ok (qr Qops0 ex_full_rank) /\
  (* with the stand-in that is 23 at zero nothing panics *)
  qr_i Qops (strict_div Qops) ex_zero_col = Ok (qr Qops ex_zero_col).
Proof. vm_compute. repeat split. Qed.

(* the instrumentation is not vacuous: on an element type that cannot divide at all the three
   routines panic as soon as they need their first quotient, and answer absence where the
   source decides absence BEFORE dividing (zero pivot, non-positive pivot, non-square, N > M) *)
Definition ex_spd2 : list (list Q) := qmat [[4; 2]; [2; 3]]%Z.
Definition ex_col34 : list (list Q) := qmat [[3]; [4]]%Z.
Definition ex_zero_first_pivot : list (list Q) := qmat [[0; 2]; [2; 3]]%Z.
Definition ex_anti : list (list Q) := qmat [[0; 1]; [1; 0]]%Z.
Definition ex_row : list (list Q) := qmat [[1; 2; 3]]%Z.
Lemma divisions_evaluated :
  cholesky_i Qops no_div ex_spd2 = Panic /\
  ldlt_i Qops no_div ex_spd2 = Panic /\
  qr_i Qops no_div ex_col34 = Panic /\
  cholesky_i Qops no_div ex_zero_first_pivot = Ok None /\
  ldlt_i Qops no_div ex_anti = Ok None /\
  ldlt_i Qops no_div ex_row = Ok None /\
  qr_i Qops no_div ex_row = Ok None.
Proof. vm_compute. repeat split. Qed.
