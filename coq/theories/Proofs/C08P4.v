(* C08, QR algebra (mathcomp / ssreflect style).  Over any real field F with a square-root
   oracle `sq` (any function; what is needed of it is part of `qr_regular`: on the squared length
   s of every reflected vector u, s <> 0 and sq s * sq s = s):
   - every reflection matrix built by the transcribed qr loop (householder, padded into the
     identity) is  1 - 2 w w^T  with  w^T w = 1  (provided the reflected vector u is non-zero),
     hence symmetric and an involution;
   - therefore Q^T Q = 1 and Q R = A at the end of the loop (telescoping). *)
From Coq Require Import PeanoNat List.
From mathcomp Require Import all_ssreflect all_algebra zify.
From EasyML Require Import Base.Sx Model.Num Model.LinAlg Model.Decomp Proofs.C07P1 Proofs.C07P2 Proofs.C08P3.
Set Implicit Arguments. Unset Strict Implicit. Unset Printing Implicit Defensive.
Import GRing.Theory Num.Theory.
Local Open Scope ring_scope.

(* ---------------------------------------------------------------- pure matrix algebra *)
Section Householder.
Variable F : fieldType.
Variable n : nat.
Variable v : 'cV[F]_n.
Hypothesis vv : v^T *m v = 1%:M.

Definition hh : 'M[F]_n := 1%:M - 2%:R *: (v *m v^T).

Lemma hh_sym : hh^T = hh.
Proof. by rewrite /hh linearB /= trmx1 linearZ /= trmx_mul trmxK. Qed.

Lemma hh_invol : hh *m hh = 1%:M.
Proof.
  rewrite /hh. set X := v *m v^T.
  have XX : X *m X = X by rewrite /X mulmxA -[v *m v^T *m v]mulmxA vv mulmx1.
  rewrite mulmxBl mul1mx mulmxBr mulmx1 -scalemxAl -scalemxAr XX scalerA.
  have -> : 2%:R * 2%:R = 2%:R + 2%:R :> F by rewrite -natrM -natrD.
  rewrite scalerDl. set Y := 2%:R *: X.
  by rewrite opprB addrK subrK.
Qed.
End Householder.

Section Telescoping.
Variable F : fieldType.
Variables m k : nat.
Lemma qr_step (q h : 'M[F]_m) (r a : 'M[F]_(m, k)) :
  q *m r = a -> h *m h = 1%:M -> (q *m h) *m (h *m r) = a.
Proof. move=> qr hh1. by rewrite mulmxA -[q *m h *m h]mulmxA hh1 mulmx1. Qed.

Lemma orth_step (q h : 'M[F]_m) :
  q^T *m q = 1%:M -> h^T *m h = 1%:M -> (q *m h)^T *m (q *m h) = 1%:M.
Proof. move=> qq hh1. by rewrite trmx_mul mulmxA -[h^T *m q^T *m q]mulmxA qq mulmx1. Qed.
End Telescoping.

(* ---------------------------------------------------------------- the model *)
Section QR.
Variable F : realFieldType.
Variable sq : F -> F.

(* the dictionary of F with the oracle as sqrt and F's order as the comparisons *)
Definition rops : numops F :=
  @mkNumops F 0 1 +%R (fun x y => x - y) *%R (fun x y => x / y) -%R (fun x y => x == y)
            (fun x y => x < y) (fun x y => x <= y) sq id id id id (fun x _ => x) 0
            (fun _ => None) (fun _ => SZ BinNums.Z0) (fun _ => None).

Definition mxo (r c : nat) (m : list (list F)) : 'M[F]_(r, c) := \matrix_(i, j) mget rops m i j.

Lemma fold_left_sum (A : Type) (g : A -> F) l acc :
  List.fold_left (fun s x => s + g x) l acc = acc + \sum_(x <- l) g x.
Proof.
  elim: l acc => [|a l IH] acc /=; first by rewrite big_nil addr0.
  by rewrite IH big_cons addrA.
Qed.

Lemma sum_nth (g : F -> F) (l : list F) :
  \sum_(0 <= t < length l) g (List.nth t l 0) = \sum_(x <- l) g x.
Proof.
  elim: l => [|a l IH] /=; first by rewrite big_nil big_geq.
  rewrite big_cons big_nat_recl //. congr (_ + _). by rewrite -IH.
Qed.

Lemma scalar_product_sum (u v : list F) k : length u = k -> length v = k ->
  scalar_product rops u v = \sum_(0 <= t < k) List.nth t u 0 * List.nth t v 0.
Proof.
  rewrite /scalar_product.
  have -> : match List.combine u v with
            | [::] => nzero rops
            | xy :: r => List.fold_left (fun acc p => nadd rops acc (nmul rops p.1 p.2)) r
                                        (nmul rops xy.1 xy.2)
            end = \sum_(p <- List.combine u v) p.1 * p.2.
  { case: (List.combine u v) => [|xy r]; first by rewrite big_nil.
    by rewrite (fold_left_sum (fun p => p.1 * p.2)) big_cons. }
  elim: u v k => [|x u IH] [|y v] k /=.
  - move=> <- _. by rewrite big_nil big_geq.
  - by move=> <-.
  - by move=> <-.
  - move=> <- [Hv]. rewrite big_cons big_nat_recl //=. congr (_ + _). by rewrite (IH v (length u)).
Qed.

Lemma mxo_mmul r k c (a b : list (list F)) : wf2 r k a -> wf2 k c b -> (1 <= k)%N ->
  mxo r c (mmul rops a b) = mxo r k a *m mxo k c b.
Proof.
  move=> Ha Hb Hk. apply/matrixP => i j. rewrite !mxE.
  rewrite (@mget_mmul F rops r k c a b i j Ha Hb); [|lia|exact/ltP|exact/ltP].
  rewrite (@scalar_product_sum _ _ k); first last.
  - rewrite length_column. by case: Hb.
  - apply: wf2_nth Ha _. exact/ltP.
  rewrite big_mkord. apply: eq_bigr => t _. rewrite !mxE nth_column //.
  case: Hb => -> _. exact/ltP.
Qed.

Lemma sumsq_sum (x : list F) : sumsq rops x = \sum_(e <- x) e * e.
Proof. by rewrite /sumsq (fold_left_sum (fun e => e * e)) add0r. Qed.

Lemma sumsq_ge0 (x : list F) : 0 <= sumsq rops x.
Proof. rewrite sumsq_sum. apply: sumr_ge0 => e _. by rewrite -expr2 sqr_ge0. Qed.

(* the vector of a reflection inset by c into `rows` coordinates *)
Definition wvec (rows c : nat) (x : list F) : 'cV[F]_rows :=
  \col_i (if (c <= i)%N then List.nth (i - c)%N (householder_v rops x) 0 else 0).

Lemma wvec_unit rows c (x : list F) : (c + length x)%N = rows ->
  sumsq rops (householder_u rops x) != 0 ->
  sq (sumsq rops (householder_u rops x)) * sq (sumsq rops (householder_u rops x)) =
    sumsq rops (householder_u rops x) ->
  (wvec rows c x)^T *m wvec rows c x = 1%:M.
Proof.
  move=> Hrows Hs Hsq0. apply/matrixP => i j. rewrite !ord1 !mxE eqxx mulr1n.
  under eq_bigr => t _ do rewrite !mxE.
  rewrite -(big_mkord xpredT (fun t => (if (c <= t)%N then List.nth (t - c)%N (householder_v rops x) 0 else 0)
                                * (if (c <= t)%N then List.nth (t - c)%N (householder_v rops x) 0 else 0))).
  rewrite -Hrows (@big_cat_nat _ _ _ c) //=; last by rewrite leq_addr.
  rewrite big_nat_cond big1 ?add0r; last first.
  { move=> t /andP [/andP [_ Ht] _]. by rewrite leqNgt Ht /= mul0r. }
  rewrite -{1}[c]add0n big_addn addKn.
  under eq_big_nat => t _ do rewrite leq_addl addnK.
  rewrite -(length_householder_v rops x) (sum_nth (fun e => e * e)).
  rewrite /householder_v. set u := householder_u rops x in Hs Hsq0 *. set s := sumsq rops u in Hs Hsq0 *.
  have Hsq : sq s * sq s = s by exact: Hsq0.
  have Hl : sq s != 0. { apply/eqP => E. move: Hsq. rewrite E mul0r => /esym /eqP. by rewrite (negbTE Hs). }
  rewrite /euclidean_length -/s /=.
  rewrite big_map. under eq_bigr => e _ do rewrite mulf_div.
  rewrite -mulr_suml -sumsq_sum -/s Hsq. by rewrite divff.
Qed.

(* the padded Householder matrix of one iteration is  1 - 2 w w^T *)
Lemma mxo_pad_householder rows c (x : list F) : (c + length x)%N = rows ->
  mxo rows rows (pad_h rops (householder rops x) c rows) = hh (wvec rows c x).
Proof.
  move=> Hrows. apply/matrixP => i j. rewrite /hh !mxE.
  rewrite (@mget_pad_h F rops _ c rows i j); [|exact/ltP|exact/ltP].
  rewrite big_ord1 !mxE !leb_leq.
  case Hci: (c <= i)%N; case Hcj: (c <= j)%N => /=; rewrite ?mul0r ?mulr0 ?scaler0 ?mulr0 ?subr0.
  - rewrite mget_householder; [| |].
    + have -> : Nat.eqb (i - c) (j - c) = (i == j).
      { apply/Nat.eqb_spec/eqP => [H|->] //. apply: val_inj => /=. lia. }
      rewrite /= /two /= mulr_natl. case: (i == j) => /=; by rewrite ?mulr1n ?mulr0n mulrC mulr2n mulrDl mul1r.
    + have := ltn_ord i. lia.
    + have := ltn_ord j. lia.
  - have -> : (i == j) = Nat.eqb i j by apply/eqP/Nat.eqb_spec => [->|H] //; apply: val_inj.
    by case: (Nat.eqb i j).
  - have -> : (i == j) = Nat.eqb i j by apply/eqP/Nat.eqb_spec => [->|H] //; apply: val_inj.
    by case: (Nat.eqb i j).
  - have -> : (i == j) = Nat.eqb i j by apply/eqP/Nat.eqb_spec => [->|H] //; apply: val_inj.
    by case: (Nat.eqb i j).
Qed.

(* every reflection of the loop is symmetric and an involution (u non-zero) *)
Theorem householder_sym_invol rows c (x : list F) : (c + length x)%N = rows ->
  sumsq rops (householder_u rops x) != 0 ->
  sq (sumsq rops (householder_u rops x)) * sq (sumsq rops (householder_u rops x)) =
    sumsq rops (householder_u rops x) ->
  let H := mxo rows rows (pad_h rops (householder rops x) c rows) in
  H^T = H /\ H *m H = 1%:M.
Proof.
  move=> Hrows Hs Hsq H. rewrite /H mxo_pad_householder //.
  have Hw := wvec_unit Hrows Hs Hsq. split; [exact: hh_sym|exact: hh_invol].
Qed.

Lemma mxo_identity n : mxo n n (identity rops n) = 1%:M.
Proof.
  apply/matrixP => i j. rewrite !mxE mget_identity; [|exact/ltP|exact/ltP].
  have -> : Nat.eqb i j = (i == j).
  { apply/Nat.eqb_spec/eqP => [H|->] //. exact: val_inj. }
  by case: (i == j).
Qed.

Definition Qmx (rows : nat) (q : option (list (list F))) : 'M[F]_rows :=
  match q with None => 1%:M | Some q0 => mxo rows rows q0 end.

(* the run is regular when no reflected vector u = x + a e is the zero vector and the oracle
   returned a square root of its squared length *)
Fixpoint qr_regular (rows : nat) (cs : list nat) (r : list (list F)) : Prop :=
  match cs with
  | [::] => True
  | c :: cs' =>
      let col := List.skipn c (column rops r c) in
      sumsq rops (householder_u rops col) <> 0 /\
      sq (sumsq rops (householder_u rops col)) * sq (sumsq rops (householder_u rops col)) =
        sumsq rops (householder_u rops col) /\
      qr_regular rows cs' (mmul rops (pad_h rops (householder rops col) c rows) r)
  end.

Lemma qr_loop_inv rows cols (A : 'M[F]_(rows, cols)) : (1 <= rows)%N -> forall cs q r,
  (forall c, List.In c cs -> (c <= rows)%N) ->
  wf2 rows cols r -> (forall q0, q = Some q0 -> wf2 rows rows q0) ->
  qr_regular rows cs r ->
  (Qmx rows q)^T *m Qmx rows q = 1%:M -> Qmx rows q *m mxo rows cols r = A ->
  (Qmx rows (qr_loop rops rows cs q r).1)^T *m Qmx rows (qr_loop rops rows cs q r).1 = 1%:M /\
  Qmx rows (qr_loop rops rows cs q r).1 *m mxo rows cols (qr_loop rops rows cs q r).2 = A.
Proof.
  move=> Hrows. elim=> [|c cs IH] q r Hcs Hr Hq Hreg Horth Hprod //=.
  case: Hreg => Hs [Hsq Hreg].
  set col := List.skipn c (column rops r c) in Hs Hsq Hreg *.
  have Hc : (c <= rows)%N by apply: Hcs; left.
  have Hlen : (c + length col)%N = rows.
  { rewrite /col List.skipn_length length_column. case: Hr => -> _. lia. }
  have Hs' : sumsq rops (householder_u rops col) != 0 by apply/eqP.
  have [Hsym Hinv] := householder_sym_invol Hlen Hs' Hsq.
  set h := pad_h rops (householder rops col) c rows in Hreg Hsym Hinv *.
  have Hh : wf2 rows rows h by apply: wf2_pad_h.
  have Hr' : mxo rows cols (mmul rops h r) = mxo rows rows h *m mxo rows cols r.
  { exact: (mxo_mmul Hh Hr Hrows). }
  apply: IH.
  - move=> c' Hc'. apply: Hcs. by right.
  - apply: (@wf2_mmul F rops rows rows cols) => //. lia.
  - move=> q0. case: q Hq Horth Hprod => [hp|] Hq Horth Hprod [<-] //.
    apply: (@wf2_mmul F rops rows rows rows) => //; [exact: Hq|lia].
  - exact: Hreg.
  - case: q Hq Horth Hprod => [hp|] Hq /= Horth Hprod.
    + rewrite (mxo_mmul (Hq _ (erefl _)) Hh Hrows). apply: orth_step => //. by rewrite Hsym.
    + by rewrite Hsym.
  - case: q Hq Horth Hprod => [hp|] Hq /= Horth Hprod.
    + rewrite (mxo_mmul (Hq _ (erefl _)) Hh Hrows) Hr'. exact: qr_step.
    + rewrite Hr' mulmxA Hinv. exact: Hprod.
Qed.

(* Q^T Q = 1 and Q R = A for every regular run *)
Theorem qr_sound rows cols (m q r : list (list F)) : wf2 rows cols m -> (1 <= rows)%N ->
  qr rops m = Some (q, r) ->
  qr_regular rows (List.seq 0 (Nat.min (rows - 1) cols)) m ->
  (mxo rows rows q)^T *m mxo rows rows q = 1%:M /\
  mxo rows rows q *m mxo rows cols r = mxo rows cols m.
Proof.
  move=> Hm Hrows Hqr Hreg.
  have Hc : mcols m = cols by apply: wf2_mcols Hm _; apply/leP.
  have Hl : mrows m = rows by case: Hm.
  move: Hqr. rewrite /qr Hl Hc. case: (Nat.ltb rows cols) => // [[Hq Hrr]].
  have := @qr_loop_inv rows cols (mxo rows cols m) Hrows
            (List.seq 0 (Nat.min (rows - 1) cols)) None m _ Hm _ Hreg.
  rewrite /= trmx1 mul1mx mul1mx. move=> Hinv.
  have [] := Hinv _ _ (erefl _) (erefl _).
  - move=> c /List.in_seq. lia.
  - by [].
  rewrite Hrr. move: Hq. case: (qr_loop rops rows _ None m).1 => [q1|] /= <- //.
  by rewrite mxo_identity.
Qed.
End QR.

(* ---------------------------------------------------------------- cores of the parts delivered
   as `_partial` (pure matrix algebra; not yet connected to the list-level transcription) *)

(* Cholesky completeness core: if the leading block is L L^T with L invertible, the new
   off-diagonal part l solves L l = c and the bordered matrix is positive definite, then the next
   pivot a - l^T l is positive: the `<= 0 -> None` exit is not taken. *)
Section Pivot.
Variable F : realFieldType.
Variable n : nat.
Variable L : 'M[F]_n.
Variable l : 'cV[F]_n.
Variable a : F.
Hypothesis Lunit : L \in unitmx.

Definition bordered : 'M[F]_(n + 1) :=
  block_mx (L *m L^T) (L *m l) ((L *m l)^T) (a%:M).

Definition posdef m (B : 'M[F]_m) := forall x : 'cV[F]_m, x != 0 -> 0 < (x^T *m B *m x) 0 0.

Theorem next_pivot_positive : posdef bordered -> 0 < a - (l^T *m l) 0 0.
Proof.
  move=> pd.
  have [y Ly] : exists y : 'cV[F]_n, L^T *m y = l.
  { exists (invmx (L^T) *m l). by rewrite mulKVmx // unitmx_tr. }
  have yL : y^T *m L = l^T by rewrite -Ly trmx_mul trmxK.
  pose x : 'cV[F]_(n + 1) := col_mx (- y) (1%:M : 'M_1).
  have xn0 : x != 0.
  { apply/eqP => x0. have : dsubmx x = 0 by rewrite x0 linear0.
    rewrite /x col_mxKd => /matrixP /(_ ord0 ord0). rewrite !mxE eqxx /=.
    by move/eqP; rewrite oner_eq0. }
  have := pd x xn0.
  have -> : (x^T *m bordered *m x) 0 0 = a - (l^T *m l) 0 0; last by [].
  rewrite /x /bordered tr_col_mx mul_row_block mul_row_col.
  have E1 : (- y)^T *m (L *m L^T) + (1%:M)^T *m (L *m l)^T = 0.
  { by rewrite linearN /= mulNmx mulmxA yL trmx1 mul1mx trmx_mul addNr. }
  have E2 : (- y)^T *m (L *m l) + (1%:M)^T *m a%:M = a%:M - l^T *m l.
  { by rewrite linearN /= mulNmx mulmxA yL trmx1 mul1mx addrC. }
  by rewrite E1 E2 mul0mx add0r mulmx1 !mxE eqxx mulr1n.
Qed.
End Pivot.

(* QR triangularity core: with u = x + a e, e^T e = 1, a^2 = x^T x and a^2 + a (e^T x) <> 0,
   the reflection I - (2 / u^T u) u u^T maps x to - a e (every entry of the column below the first
   is annihilated). *)
Section Reflect.
Variable F : fieldType.
Variable n : nat.
Variables (x e : 'cV[F]_n) (a x0 : F).
Hypothesis ee : e^T *m e = 1%:M.
Hypothesis ex : e^T *m x = x0%:M.
Hypothesis xe : x^T *m e = x0%:M.
Hypothesis xx : x^T *m x = (a * a)%:M.

Definition uvec : 'cV[F]_n := x + a *: e.
Definition tval : F := a * a + a * x0.
Hypothesis t0 : tval != 0.
Hypothesis two0 : (2%:R : F) != 0.

Lemma ux : uvec^T *m x = tval%:M.
Proof.
  rewrite /uvec /tval linearD /= linearZ /= mulmxDl -scalemxAl xx ex scale_scalar_mx.
  by rewrite -raddfD.
Qed.

Lemma uu : uvec^T *m uvec = (2%:R * tval)%:M.
Proof.
  rewrite {2}/uvec mulmxDr -scalemxAr ux.
  rewrite /uvec linearD /= linearZ /= mulmxDl -scalemxAl xe ee.
  rewrite !scale_scalar_mx mulr1 scalerDr !scale_scalar_mx -!raddfD /=.
  congr (_%:M). rewrite /tval mulr2n mulrDl mul1r. by rewrite [a * x0 + _]addrC.
Qed.

Definition Hmx : 'M[F]_n := 1%:M - (2%:R / (2%:R * tval)) *: (uvec *m uvec^T).

Theorem reflect : Hmx *m x = - (a *: e).
Proof.
  rewrite /Hmx mulmxBl mul1mx -scalemxAl -mulmxA ux mul_mx_scalar scalerA.
  have -> : 2%:R / (2%:R * tval) * tval = 1.
  { rewrite invfM mulrA mulfV // mul1r mulVf //. }
  by rewrite scale1r /uvec opprD addrA subrr sub0r.
Qed.
End Reflect.
