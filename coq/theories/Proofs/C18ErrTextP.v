(* C18 (wave 2): what the Display text of the error types says about their payload
   (Model/FormatDebug.v).
   1. CONTAINMENT: the Display text of every error value contains the Debug text of the offending
      shape / dimension names / index ranges / data length exactly as the payload has them.
   2. FAITHFULNESS of that text: the Debug text of a shape array and of a name array determines
      the array (names and lengths; for ALL lengths in N and all names), so the message
      identifies the payload: equal messages of tensors::InvalidShapeError come from equal shapes.
   3. the text of tensors::indexing::InvalidDimensionsError AS WRITTEN: the shape of the source is
      printed after the label "Requested dimension order: " and the requested names after
      " does not match the shape in the source: " (the two arguments are swapped w.r.t. the labels). *)
From Coq Require Import List NArith ZArith Bool Arith Lia.
From EasyML Require Import Model.Format Model.FormatDebug Proofs.C18FormatP.
Import ListNotations.

Definition contains (t s : text) : Prop := exists pre post, t = pre ++ s ++ post.

Lemma contains_refl s : contains s s.
Proof. exists [], []. rewrite app_nil_r. reflexivity. Qed.
Lemma contains_here s post : contains (s ++ post) s.
Proof. exists [], post. reflexivity. Qed.
Lemma contains_skip a t s : contains t s -> contains (a ++ t) s.
Proof. intros (pre & post & ->). exists (a ++ pre), post. rewrite app_assoc. reflexivity. Qed.
Lemma contains_cons c t s : contains t s -> contains (c :: t) s.
Proof. intros (pre & post & ->). exists (c :: pre), post. reflexivity. Qed.
Lemma contains_trans t u s : contains t u -> contains u s -> contains t s.
Proof.
  intros (p1 & q1 & ->) (p2 & q2 & ->). exists (p1 ++ p2), (q2 ++ q1).
  rewrite <- !app_assoc. reflexivity.
Qed.

Ltac find_sub :=
  repeat rewrite <- app_assoc;
  solve [ repeat first [ apply contains_refl | apply contains_here | apply contains_skip | apply contains_cons ] ].

(* ---------------------------------------------------------------- the Debug text of one-field / two-field structs *)
Lemma dbg_c_struct1 name f v : dbg_c (DStruct name [(f, v)]) = name ++ [32; 123; 32]%N ++ f ++ [58; 32]%N ++ dbg_c v ++ [32; 125]%N.
Proof. cbn. rewrite app_nil_r, <- !app_assoc. reflexivity. Qed.

Lemma dbg_c_struct2 name f1 v1 f2 v2 :
  dbg_c (DStruct name [(f1, v1); (f2, v2)])
  = name ++ [32; 123; 32]%N ++ f1 ++ [58; 32]%N ++ dbg_c v1 ++ t_comma ++ f2 ++ [58; 32]%N ++ dbg_c v2 ++ [32; 125]%N.
Proof. cbn. rewrite app_nil_r, <- !app_assoc. cbn. rewrite <- !app_assoc. reflexivity. Qed.

Lemma dbg_c_tuple1 name v : name <> [] -> dbg_c (DTuple name [v]) = name ++ [40]%N ++ dbg_c v ++ [41]%N.
Proof. intro H. destruct name; [congruence|]. cbn. rewrite app_nil_r. reflexivity. Qed.

(* ---------------------------------------------------------------- 1. containment *)
(* tensors::InvalidShapeError *)
Theorem err_shape_contains sh : contains (fmt_err_shape sh) (dbg_c (d_shape sh)).
Proof. unfold fmt_err_shape. find_sub. Qed.

(* tensors::InvalidDimensionsError: always the provided names; the valid names whenever P > 0 *)
Theorem err_dims_contains provided valid :
  contains (fmt_err_dims provided valid) (dbg_c (d_names provided)) /\
  (provided <> [] -> contains (fmt_err_dims provided valid) (dbg_c (d_names valid))).
Proof.
  unfold fmt_err_dims. destruct provided as [|p ps]; cbn [length Nat.ltb Nat.leb]; split.
  - find_sub.
  - congruence.
  - find_sub.
  - intros _. find_sub.
Qed.

(* tensors::indexing::InvalidDimensionsError *)
Theorem err_access_contains actual requested :
  contains (fmt_err_access actual requested) (dbg_c (d_shape actual)) /\
  contains (fmt_err_access actual requested) (dbg_c (d_names requested)).
Proof. unfold fmt_err_access. split; find_sub. Qed.

(* ... and the text as written: which list follows which label *)
Theorem err_access_text_as_written actual requested :
  fmt_err_access actual requested
  = t_requested_order ++ dbg_c (d_shape actual) ++ t_not_match_source ++ dbg_c (d_names requested).
Proof. reflexivity. Qed.

(* IndexRangeValidationError *)
Theorem err_irv_contains e :
  match e with
  | IrvShape sh => contains (fmt_err_irv e) (dbg_c (d_shape sh))
  | IrvDims p v => contains (fmt_err_irv e) (dbg_c (d_names p)) /\ contains (fmt_err_irv e) (dbg_c (d_names v))
  end.
Proof.
  destruct e as [sh|p v]; cbn [fmt_err_irv].
  - unfold d_invalid_shape. rewrite dbg_c_struct1. find_sub.
  - unfold d_invalid_dims. rewrite dbg_c_struct2. split; find_sub.
Qed.

(* StrictIndexRangeValidationError *)
Definition d_ranges (rs : list (option (N * N))) : dbg := DList (map (fun r => d_opt (option_map d_index_range r)) rs).

Theorem err_strict_contains e :
  match e with
  | StrictOutside sh rs => contains (fmt_err_strict e) (dbg_c (d_shape sh)) /\ contains (fmt_err_strict e) (dbg_c (d_ranges rs))
  | StrictError (IrvShape sh) => contains (fmt_err_strict e) (dbg_c (d_shape sh))
  | StrictError (IrvDims p v) => contains (fmt_err_strict e) (dbg_c (d_names p)) /\ contains (fmt_err_strict e) (dbg_c (d_names v))
  end.
Proof.
  destruct e as [sh rs|[sh|p v]]; cbn [fmt_err_strict d_irv].
  - unfold d_ranges. split; find_sub.
  - rewrite dbg_c_tuple1 by discriminate. unfold d_invalid_shape. rewrite dbg_c_struct1. find_sub.
  - rewrite dbg_c_tuple1 by discriminate. unfold d_invalid_dims. rewrite dbg_c_struct2. split; find_sub.
Qed.

(* InvalidRecordIteratorError::Shape: the requested shape and the length of the data *)
Theorem err_rie_shape_contains sh len :
  contains (fmt_err_rie (RieShape sh len)) (dbg_c (d_shape sh)) /\
  contains (fmt_err_rie (RieShape sh len)) (dec_N len).
Proof. cbn [fmt_err_rie]. split; find_sub. Qed.

(* MultivariateGaussianError *)
Theorem err_mvg_contains e :
  contains (fmt_err_mvg e) (dbg_c (d_shape (mg_cov_shape e))) /\
  (mg_wrong_length e = true -> contains (fmt_err_mvg e) (dbg_c (d_shape (mg_mean_shape e)))).
Proof.
  unfold fmt_err_mvg. destruct (mg_wrong_length e); split.
  - find_sub.
  - intros _. find_sub.
  - unfold d_tensor. cbn [dbg_c map fst snd sep_items concat is_nil].
    repeat rewrite <- app_assoc. cbn [app].
    repeat first [ apply contains_here | apply contains_skip | apply contains_cons ].
  - discriminate.
Qed.

(* ---------------------------------------------------------------- 2. the Debug text determines the array *)
Definition nondigit_head (t : text) : Prop := t = [] \/ exists c t', t = c :: t' /\ ~ digit c.

Lemma digits_prefix_free a : forall b r1 r2,
  Forall digit a -> Forall digit b -> nondigit_head r1 -> nondigit_head r2 ->
  a ++ r1 = b ++ r2 -> a = b /\ r1 = r2.
Proof.
  induction a as [|x a IH]; intros [|y b] r1 r2 Da Db H1 H2 E; simpl in E.
  - split; [reflexivity | exact E].
  - exfalso. inversion Db as [|? ? Dy _]; subst.
    destruct H1 as [E1|(c & t' & E1 & Nc)]; [discriminate|]. inversion E1; subst. contradiction.
  - exfalso. inversion Da as [|? ? Dx _]; subst.
    destruct H2 as [E2|(c & t' & E2 & Nc)]; [discriminate|]. inversion E2; subst. contradiction.
  - inversion E; subst. inversion Da; inversion Db; subst.
    destruct (IH b r1 r2) as [Ea Er]; auto. subst. split; reflexivity.
Qed.

Lemma nondigit_cons c t : ~ digit c -> nondigit_head (c :: t).
Proof. intro H. right. exists c, t. split; [reflexivity | exact H]. Qed.

Lemma dec_nat_inj a b : dec_nat a = dec_nat b -> a = b.
Proof. unfold dec_nat. intro H. apply dec_N_inj in H. lia. Qed.

(* a name `"d<n>"` followed by anything *)
Lemma dbg_name_inj a b r1 r2 : dbg_name a ++ r1 = dbg_name b ++ r2 -> a = b /\ r1 = r2.
Proof.
  unfold dbg_name. rewrite <- !app_assoc. cbn [app]. intro E. inversion E as [E'].
  destruct (digits_prefix_free (dec_nat a) (dec_nat b) (34%N :: r1) (34%N :: r2)) as [A B]; auto.
  - apply dec_N_digits.
  - apply dec_N_digits.
  - apply nondigit_cons. unfold digit. lia.
  - apply nondigit_cons. unfold digit. lia.
  - split; [apply dec_nat_inj; exact A | congruence].
Qed.

(* one entry `("d<n>", <len>)` of a shape followed by a non-digit *)
Definition shape_item (p : nat * N) : text := dbg_c (DTuple [] [d_name (fst p); d_N (snd p)]).

Lemma shape_item_eq p : shape_item p = [40]%N ++ dbg_name (fst p) ++ t_comma ++ dec_N (snd p) ++ [41]%N.
Proof. unfold shape_item. cbn. rewrite ?app_nil_r, <- ?app_assoc. reflexivity. Qed.

Lemma shape_item_inj p q r1 r2 : shape_item p ++ r1 = shape_item q ++ r2 -> p = q /\ r1 = r2.
Proof.
  rewrite !shape_item_eq, <- !app_assoc. intro E.
  apply app_inv_head in E. apply dbg_name_inj in E. destruct E as [En E].
  apply app_inv_head in E.
  destruct (digits_prefix_free (dec_N (snd p)) (dec_N (snd q)) (41%N :: r1) (41%N :: r2)) as [A B]; auto.
  - apply dec_N_digits.
  - apply dec_N_digits.
  - apply nondigit_cons. unfold digit. lia.
  - apply nondigit_cons. unfold digit. lia.
  - apply dec_N_inj in A. split; [destruct p, q; cbn in *; congruence | congruence].
Qed.

(* lists `[x, y, ..]` of items with the unique-prefix property *)
Section ListInj.
Context {A : Type} (item : A -> text).
Hypothesis item_inj : forall p q r1 r2, item p ++ r1 = item q ++ r2 -> p = q /\ r1 = r2.
Hypothesis item_head : forall p, exists c t, item p = c :: t /\ c <> 93%N.

Lemma tail_items_inj : forall l1 l2 r,
  concat (map (fun y => t_comma ++ item y) l1) ++ 93%N :: r = concat (map (fun y => t_comma ++ item y) l2) ++ 93%N :: r ->
  l1 = l2.
Proof.
  induction l1 as [|x l1 IH]; intros [|y l2] r E; cbn [map concat app] in E.
  - reflexivity.
  - exfalso. cbn [t_comma app] in E. discriminate E.
  - exfalso. cbn [t_comma app] in E. discriminate E.
  - rewrite <- !app_assoc in E. cbn [t_comma app] in E. inversion E as [E'].
    apply item_inj in E'. destruct E' as [-> E'']. f_equal. apply (IH l2 r). exact E''.
Qed.

Lemma list_text_inj l1 l2 :
  [91]%N ++ sep_items [] t_comma (map item l1) ++ [93]%N = [91]%N ++ sep_items [] t_comma (map item l2) ++ [93]%N -> l1 = l2.
Proof.
  intro E. apply app_inv_head in E.
  destruct l1 as [|x l1], l2 as [|y l2]; cbn [map sep_items app] in E.
  - reflexivity.
  - exfalso. destruct (item_head y) as (c & t & Hy & Hc). rewrite Hy in E. cbn in E. inversion E. congruence.
  - exfalso. destruct (item_head x) as (c & t & Hx & Hc). rewrite Hx in E. cbn in E. inversion E. congruence.
  - rewrite <- !app_assoc in E. rewrite !map_map in E.
    apply item_inj in E. destruct E as [-> E]. f_equal. apply (tail_items_inj l1 l2 []). exact E.
Qed.
End ListInj.

Lemma dbg_c_list items : dbg_c (DList items) = [91]%N ++ sep_items [] t_comma (map dbg_c items) ++ [93]%N.
Proof. reflexivity. Qed.

Theorem shape_text_inj sh1 sh2 : dbg_c (d_shape sh1) = dbg_c (d_shape sh2) -> sh1 = sh2.
Proof.
  unfold d_shape. rewrite !dbg_c_list, !map_map. intro E.
  apply (list_text_inj shape_item); [exact shape_item_inj | | exact E].
  intro p. rewrite shape_item_eq. eexists; eexists; split; [reflexivity | discriminate].
Qed.

Theorem names_text_inj ns1 ns2 : dbg_c (d_names ns1) = dbg_c (d_names ns2) -> ns1 = ns2.
Proof.
  unfold d_names. rewrite !dbg_c_list, !map_map. intro E.
  apply (list_text_inj dbg_name); [exact dbg_name_inj | | exact E].
  intro p. unfold dbg_name. eexists; eexists; split; [reflexivity | discriminate].
Qed.

(* the message of tensors::InvalidShapeError identifies the shape *)
Theorem err_shape_text_inj sh1 sh2 : fmt_err_shape sh1 = fmt_err_shape sh2 -> sh1 = sh2.
Proof. unfold fmt_err_shape. intro E. apply app_inv_head in E. apply shape_text_inj. exact E. Qed.

(* the message of tensors::indexing::InvalidDimensionsError identifies both lists *)
Lemma shape_text_tail sh : exists t, dbg_c (d_shape sh) = 91%N :: t.
Proof. unfold d_shape. rewrite dbg_c_list. eexists. reflexivity. Qed.

(* ---------------------------------------------------------------- concrete texts (documentation + non-vacuity) *)
Definition ascii_of (s : list N) : text := s.

Example err_shape_example :
  fmt_err_shape [(0, 2%N); (0, 3%N)]
  = t_invalid_shape ++ [91; 40;34;100;48;34;44;32;50;41; 44;32; 40;34;100;48;34;44;32;51;41; 93]%N.
Proof. vm_compute. reflexivity. Qed.

(* the access error for a tensor [("d0", 2), ("d1", 3)] indexed by ["d1", "d7"]: the text says
   `Requested dimension order: [("d0", 2), ("d1", 3)] does not match the shape in the source: ["d1", "d7"]` *)
Example err_access_example :
  fmt_err_access [(0, 2%N); (1, 3%N)] [1; 7]
  = t_requested_order ++ [91; 40;34;100;48;34;44;32;50;41; 44;32; 40;34;100;49;34;44;32;51;41; 93]%N
    ++ t_not_match_source ++ [91; 34;100;49;34; 44;32; 34;100;55;34; 93]%N.
Proof. vm_compute. reflexivity. Qed.

(* {:#?} of InvalidShapeError { shape: [("d0", 2)] } *)
Example pretty_debug_example :
  dbg_p (d_invalid_shape [(0, 2%N)])
  = n_InvalidShapeError ++ [32;123;10]%N
    ++ [32;32;32;32]%N ++ n_shape ++ [58;32;91;10]%N
    ++ [32;32;32;32;32;32;32;32; 40;10]%N
    ++ [32;32;32;32;32;32;32;32;32;32;32;32; 34;100;48;34;44;10]%N
    ++ [32;32;32;32;32;32;32;32;32;32;32;32; 50;44;10]%N
    ++ [32;32;32;32;32;32;32;32; 41;44;10]%N
    ++ [32;32;32;32; 93;44;10]%N
    ++ [125]%N.
Proof. vm_compute. reflexivity. Qed.
