(* C09 over ANY source (Model/IterG.v).
   1. `gi_*`: an iterator = place iterator + source.  The shared iterators yield, for every place
      the place iterator produces, the element the source has there (`gi_drive`); under the
      TensorMut / MatrixMut "lens" behaviour of the source the owning iterator yields the SAME
      items — the original values — and leaves the placeholder exactly at the places handed out
      (`gi_owned_drive`); WithIndex pairs each item with the place it was read from.
   2. The three place iterators: ShapeIterator (Proofs/OdometerP.v), the row-/column-major
      counters and the Range-based line counters (their closed forms are obtained from the
      theorems about the term-level iterators of Model/MatrixIter.v run over a size-only
      skeleton source).
   3. The tensor / matrix iterator theorems for any source (`gen_*`), and that the term-level
      iterators of Model/ShapeIter.v / Model/MatrixIter.v are instances.
   Instances for the C02 view algebra and the C12 matrix views: Proofs/C09ViewsP.v. *)
From Coq Require Import List ZArith NArith Bool Arith Lia.
From EasyML Require Import Base.Sx Model.Shape Model.Tensor Model.TSource Model.ShapeIter
  Model.MatrixIter Model.Transform Model.IterG Proofs.ShapeP Proofs.OdometerP Proofs.C09P.
Import ListNotations.
Open Scope N_scope.

Definition places_of {Pl} (l : list (option Pl * N)) : list Pl := somes (map fst l).

Lemma places_of_cons_some {Pl} (p : Pl) n l : places_of ((Some p, n) :: l) = p :: places_of l.
Proof. reflexivity. Qed.
Lemma places_of_cons_none {Pl} n (l : list (option Pl * N)) : places_of ((None, n) :: l) = places_of l.
Proof. reflexivity. Qed.

(* ---------- 1. iterator = place iterator + source ---------- *)
Section OverPlaces.
Context {C Pl St A : Type}.
Variable step : C -> option Pl * C.
Variable len : C -> N.
Variable index_of : C -> Pl.
Variable get : St -> Pl -> option A.
Variable set : St -> Pl -> A -> option St.

Definition with_elements (s : St) (l : list (option Pl * N)) : list (option (Pl * option A) * N) :=
  map (fun o => (option_map (fun p => (p, get s p)) (fst o), snd o)) l.

Lemma gi_next_eq c s :
  gi_next step get (mkGI c s) =
  (option_map (fun p => (p, get s p)) (fst (step c)), mkGI (snd (step c)) s).
Proof. unfold gi_next. cbn [gi_places gi_source]. destruct (step c) as [[p|] c']; reflexivity. Qed.

(* the shared iterators: the source never changes, the items are the places with the elements *)
Theorem gi_drive : forall k c s,
  fst (drive (gi_next step get) (gi_len len) k (mkGI c s)) = with_elements s (fst (drive step len k c))
  /\ gi_source (snd (drive (gi_next step get) (gi_len len) k (mkGI c s))) = s.
Proof.
  induction k as [|k IH]; intros c s; [split; reflexivity|].
  rewrite !drive_S, gi_next_eq. cbn [fst snd]. destruct (IH (snd (step c)) s) as [I1 I2].
  split.
  - unfold with_elements in *. cbn [map fst snd]. rewrite I1. reflexivity.
  - cbn [drive]. rewrite gi_next_eq. cbn [fst snd].
    destruct (drive (gi_next step get) (gi_len len) k (mkGI (snd (step c)) s)) as [rest itf] eqn:E.
    cbn [snd] in *. exact I2.
Qed.

(* WithIndex: whenever the place iterator's counters ARE the next place, the index paired with an
   item is the place the item was read from (every state; shared and owned) *)
Hypothesis index_is_next : forall c p c', step c = (Some p, c') -> index_of c = p.

Theorem gi_with_index_true (it it' : giter C St) index place v :
  gi_with_index index_of (gi_next step get) it = (Some (index, (place, v)), it') -> index = place.
Proof.
  unfold gi_with_index, gi_next. destruct (step (gi_places it)) as [[p|] c'] eqn:E; [|discriminate].
  intros [= <- <- _ _]. exact (index_is_next _ _ _ E).
Qed.

Theorem gi_with_index_true_owned dflt (it it' : giter C St) index place v :
  gi_with_index index_of (gi_next_owned step get set dflt) it = (Some (index, (place, v)), it') ->
  index = place.
Proof.
  unfold gi_with_index, gi_next_owned. destruct (step (gi_places it)) as [[p|] c'] eqn:E; [|discriminate].
  intros [= <- <- _ _]. exact (index_is_next _ _ _ E).
Qed.

(* the owning iterators, over a source whose writes at the places concerned behave like a lens *)
Section Lens.
Variable ok : Pl -> Prop.          (* the places inside the source's shape / size *)
Variable P : St -> Prop.           (* the source's invariant (incl. "same shape as at the start") *)
Hypothesis P_set : forall s p v, P s -> ok p ->
  exists s', set s p v = Some s' /\ P s' /\ get s' p = Some v /\
             forall p', ok p' -> p' <> p -> get s' p' = get s p'.

Theorem gi_owned_drive dflt : forall k c s, P s ->
  Forall ok (places_of (fst (drive step len k c))) -> NoDup (places_of (fst (drive step len k c))) ->
  let r := drive (gi_next_owned step get set dflt) (gi_len len) k (mkGI c s) in
  fst r = with_elements s (fst (drive step len k c)) /\
  P (gi_source (snd r)) /\
  forall x, ok x ->
    (In x (places_of (fst (drive step len k c))) -> get (gi_source (snd r)) x = Some dflt) /\
    (~ In x (places_of (fst (drive step len k c))) -> get (gi_source (snd r)) x = get s x).
Proof.
  induction k as [|k IH]; intros c s Ps Hok Hnd; cbv zeta.
  - cbn [drive fst snd gi_source]. repeat split; auto. intros [].
  - rewrite (drive_S step len k c) in Hok, Hnd |- *.
    destruct (step c) as [[p|] c'] eqn:Es; cbn [fst snd] in *.
    + rewrite places_of_cons_some in Hok, Hnd |- *.
      inversion Hok as [|? ? Hp Hok']; subst. inversion Hnd as [|? ? Hnotin Hnd']; subst.
      destruct (P_set s p dflt Ps Hp) as [s' [Hset [Ps' [Hget' Hother]]]].
      assert (En : gi_next_owned step get set dflt (mkGI c s) = (Some (p, get s p), mkGI c' s')).
      { unfold gi_next_owned. cbn [gi_places gi_source]. rewrite Es, Hset. reflexivity. }
      cbn [drive]. rewrite En. cbv beta iota zeta.
      specialize (IH c' s' Ps' Hok' Hnd'). cbv zeta in IH.
      destruct (drive (gi_next_owned step get set dflt) (gi_len len) k (mkGI c' s')) as [rest itf].
      cbn [fst snd] in *. destruct IH as [I1 [I2 I3]]. split; [|split; [exact I2|]].
      * unfold with_elements. cbn [map fst snd option_map]. f_equal. rewrite I1.
        unfold with_elements. apply map_ext_in. intros [[q|] n] Hin; cbn [fst snd option_map]; [|reflexivity].
        assert (Hq : In q (places_of (fst (drive step len k c')))).
        { unfold places_of. clear - Hin. induction (fst (drive step len k c')) as [|[[y|] m] l IHl];
            cbn [map somes fst] in *; [destruct Hin| |].
          - destruct Hin as [E|Hin]; [injection E as -> _; left; reflexivity|right; auto].
          - destruct Hin as [E|Hin]; [discriminate|auto]. }
        rewrite Hother; [reflexivity| |intros ->; contradiction].
        rewrite Forall_forall in Hok'. apply Hok'. exact Hq.
      * intros x Hx. destruct (I3 x Hx) as [J1 J2]. split.
        -- intros [<-|Hin]; [|apply J1; exact Hin].
           rewrite J2 by exact Hnotin. exact Hget'.
        -- intros Hn. rewrite J2 by (intros H; apply Hn; right; exact H).
           apply Hother; [exact Hx|]. intros ->. apply Hn. left. reflexivity.
    + rewrite places_of_cons_none in Hok, Hnd |- *.
      assert (En : gi_next_owned step get set dflt (mkGI c s) = (None, mkGI c' s)).
      { unfold gi_next_owned. cbn [gi_places gi_source]. rewrite Es. reflexivity. }
      cbn [drive]. rewrite En. cbv beta iota zeta.
      specialize (IH c' s Ps Hok Hnd). cbv zeta in IH.
      destruct (drive (gi_next_owned step get set dflt) (gi_len len) k (mkGI c' s)) as [rest itf].
      cbn [fst snd] in *. destruct IH as [I1 [I2 I3]]. split; [|split; [exact I2|exact I3]].
      unfold with_elements. cbn [map fst snd option_map]. f_equal. exact I1.
Qed.

End Lens.
End OverPlaces.

(* helper: the places of a closed-form run *)
Lemma places_of_cexpected {Pl} total (item : N -> Pl) : forall k s,
  places_of (map (fun j => cexpected total item (N.of_nat j)) (seq s k)) =
  map item (filter (fun q => q <? total) (map N.of_nat (seq s k))).
Proof.
  induction k as [|k IH]; intros s; [reflexivity|].
  cbn [seq map filter]. unfold cexpected at 1.
  destruct (N.of_nat s <? total); [rewrite places_of_cons_some|rewrite places_of_cons_none];
    cbn [map]; rewrite IH; reflexivity.
Qed.

Lemma NoDup_map_inj_in {X Y} (f : X -> Y) (l : list X) :
  (forall a b, In a l -> In b l -> f a = f b -> a = b) -> NoDup l -> NoDup (map f l).
Proof.
  induction l as [|x l IH]; intros Hinj Hnd; cbn [map]; [constructor|].
  inversion Hnd as [|? ? Hx Hn]; subst. constructor.
  - intros Hin. apply in_map_iff in Hin as [y [E Hy]]. apply Hx.
    rewrite <- (Hinj y x (or_intror Hy) (or_introl eq_refl) E). exact Hy.
  - apply IH; [|exact Hn]. intros a b Ha Hb. apply Hinj; right; assumption.
Qed.

Lemma nth_error_firstn_lt {X} (l : list X) : forall k n, (n < k)%nat ->
  nth_error (firstn k l) n = nth_error l n.
Proof.
  induction l as [|x l IH]; intros [|k] [|n] H; cbn; try reflexivity; try lia. apply IH. lia.
Qed.

Lemma NoDup_filter {X} (f : X -> bool) (l : list X) : NoDup l -> NoDup (filter f l).
Proof.
  induction 1 as [|x l Hx Hn IH]; cbn [filter]; [constructor|].
  destruct (f x); [constructor; [|exact IH]|exact IH]. intros H. apply filter_In in H. tauto.
Qed.

Lemma NoDup_map_of_nat l : NoDup l -> NoDup (map N.of_nat l).
Proof. apply NoDup_map_inj_in. intros a b _ _. apply Nat2N.inj. Qed.

(* ---------- 2. the place iterators ---------- *)
(* ShapeIterator: the counters are the next index *)
Lemma shape_iter_index_is_next si p si' : iter_next si = (Some p, si') -> si_indexes si = p.
Proof.
  unfold iter_next. destruct (si_finished si); [discriminate|].
  destruct (length (si_shape si)); intros [= <- _]; reflexivity.
Qed.

(* row-major / column-major counters: closed form, from the term-level theorem over a skeleton *)
Definition mskel (rows cols : N) : msrc unit := MBase (mkMatrix [] rows cols).
Definition mi_of (d : msrc unit) (c : mcounters) : major_iter unit :=
  mkMI (mc_row_major c) (mc_column_counter c) (mc_columns c) (mc_row_counter c) (mc_rows c) (mc_finished c) d.

Lemma mc_sim d : forall k c,
  map (fun o => (option_map fst (fst o), snd o)) (fst (drive mi_next mi_len k (mi_of d c))) =
  fst (drive mc_step mc_len k c).
Proof.
  induction k as [|k IH]; intros c; [reflexivity|].
  rewrite !drive_S. cbn [map fst snd].
  assert (E : mi_next (mi_of d c) =
              (option_map (fun p => (p, ms_get d (fst p) (snd p))) (fst (mc_step c)), mi_of d (snd (mc_step c)))).
  { unfold mi_next, mi_step, mc_step, mi_of.
    cbn [mi_row_major mi_finished mi_rows mi_columns mi_row_counter mi_column_counter mi_source].
    destruct ((if mc_row_major c then row_major_step else column_major_step)
                (mc_finished c) (mc_rows c) (mc_columns c) (mc_row_counter c) (mc_column_counter c))
      as [[p|] [[fin rc] cc]]; reflexivity. }
  rewrite E. cbn [fst snd]. rewrite IH. f_equal. f_equal.
  destruct (fst (mc_step c)); reflexivity.
Qed.

Lemma cexpected_map {I J} (f : I -> J) total (item : N -> I) q :
  (option_map f (fst (cexpected total item q)), snd (cexpected total item q)) =
  cexpected total (fun x => f (item x)) q.
Proof. unfold cexpected. destruct (q <? total); reflexivity. Qed.

Theorem mc_spec rm rows cols k :
  fst (drive mc_step mc_len k (mc_from rm rows cols)) =
  map (fun j => cexpected (rows * cols) (mi_place rm rows cols) (N.of_nat j)) (seq 0 k)
  /\ mc_len (mc_from rm rows cols) = rows * cols.
Proof.
  pose proof (major_iter_spec rm (mskel rows cols) k) as H. cbv zeta in H.
  cbn [mskel ms_rows ms_cols m_rows m_cols] in H. destruct H as [H1 H2].
  assert (Ef : major_iter_from rm (mskel rows cols) = mi_of (mskel rows cols) (mc_from rm rows cols)) by reflexivity.
  split.
  - rewrite <- (mc_sim (mskel rows cols)), <- Ef, H1, map_map. apply map_ext. intros j.
    rewrite (cexpected_map fst). reflexivity.
  - rewrite Ef in H2. exact H2.
Qed.

Lemma mc_index_is_next c p c' : mc_step c = (Some p, c') -> mc_index c = p.
Proof.
  unfold mc_step, mc_index, row_major_step, column_major_step.
  destruct (mc_row_major c); destruct (mc_finished c); try discriminate.
  - destruct (mc_column_counter c =? mc_columns c - 1); intros [= <- _]; reflexivity.
  - destruct (mc_row_counter c =? mc_rows c - 1); intros [= <- _]; reflexivity.
Qed.

(* line counters *)
Definition li_of (d : msrc unit) (c : lcounters) : line_iter unit :=
  mkLI (lc_kind c) (lc_fixed c) (lc_range c) d.

Lemma lc_sim d : forall k c,
  map (fun o => (option_map fst (fst o), snd o)) (fst (drive li_next li_len k (li_of d c))) =
  fst (drive lc_step lc_len k c).
Proof.
  induction k as [|k IH]; intros c; [reflexivity|].
  rewrite !drive_S. cbn [map fst snd].
  assert (E : li_next (li_of d c) =
              (option_map (fun p => (p, ms_get d (fst p) (snd p))) (fst (lc_step c)), li_of d (snd (lc_step c)))).
  { unfold li_next, lc_step, li_of, li_place, lc_place. cbn [li_range li_kind li_fixed li_source].
    destruct (range_next (lc_range c)) as [[i|] rg']; reflexivity. }
  rewrite E. cbn [fst snd]. rewrite IH. f_equal. f_equal.
  destruct (fst (lc_step c)); reflexivity.
Qed.

Theorem lc_spec kind fixed n k :
  fst (drive lc_step lc_len k (mkLC kind fixed (0, n))) =
  map (fun j => cexpected n (lc_place (mkLC kind fixed (0, n))) (N.of_nat j)) (seq 0 k)
  /\ lc_len (mkLC kind fixed (0, n)) = n.
Proof.
  pose proof (line_iter_spec kind fixed n (mskel 0 0) k) as [H1 H2]. split.
  - rewrite <- (lc_sim (mskel 0 0)). unfold li_of. cbn [lc_kind lc_fixed lc_range].
    rewrite H1, map_map. apply map_ext. intros j. rewrite (cexpected_map fst). reflexivity.
  - exact H2.
Qed.

(* ---------- 3a. tensor iterators over any source ---------- *)
Section TensorAny.
Context {St A : Type}.
Variable o : tsource St A.

Lemma gti_drive k (s : St) :
  fst (drive (gti_next o) gti_len k (gti_from o s)) =
  with_elements (ts_get o) s (outs k (shape_iter_from (ts_shape o s))).
Proof. unfold gti_next, gti_len, gti_from, outs. apply gi_drive. Qed.

(* enumerates each element of the source once, in row-major order of the VIEW shape, then None
   forever (fused) *)
Theorem gen_tensor_iter_enumerates (s : St) m :
  let all := all_indexes (lens_of (ts_shape o s)) in
  map fst (fst (drive (gti_next o) gti_len (length all + m) (gti_from o s))) =
  map (fun idx => Some (idx, ts_get o s idx)) all ++ repeat None m.
Proof.
  cbv zeta. rewrite gti_drive. unfold with_elements. rewrite map_map. cbn [fst].
  rewrite <- (map_map fst (option_map (fun idx => (idx, ts_get o s idx)))).
  rewrite shape_iter_enumerates, map_app, map_map. cbn [option_map]. f_equal.
  induction m as [|m IH]; [reflexivity|]. cbn [repeat map]. f_equal. exact IH.
Qed.

(* the exact remaining length, before the first call and after every call *)
Theorem gen_tensor_iter_len_after (s : St) k :
  gti_len (gti_from o s) = elements (ts_shape o s) /\
  map snd (fst (drive (gti_next o) gti_len k (gti_from o s))) =
  map (fun j => elements (ts_shape o s) - N.of_nat (S j)) (seq 0 k).
Proof.
  split; [apply shape_iter_len0|].
  rewrite gti_drive. unfold with_elements. rewrite map_map. cbn [snd].
  rewrite <- shape_iter_len_after. apply map_ext. reflexivity.
Qed.

Theorem gen_with_index_true (it it' : giter shape_iter St) index place v :
  gti_with_index (gti_next o) it = (Some (index, (place, v)), it') -> index = place.
Proof. apply gi_with_index_true. exact shape_iter_index_is_next. Qed.

Theorem gen_with_index_true_owned dflt (it it' : giter shape_iter St) index place v :
  gti_with_index (gti_next_owned o dflt) it = (Some (index, (place, v)), it') -> index = place.
Proof. apply gi_with_index_true_owned. exact shape_iter_index_is_next. Qed.

(* the places handed to the source: a prefix of the enumeration, hence inside the view shape and
   pairwise distinct *)
Lemma places_with_elements (s : St) l :
  map fst (somes (map fst (with_elements (ts_get o) s l))) = places_of l.
Proof.
  unfold with_elements, places_of. induction l as [|[[x|] n] l IH]; cbn [map somes option_map fst];
    [reflexivity| |exact IH]. f_equal. exact IH.
Qed.

Theorem gen_tensor_iter_places (s : St) k :
  map fst (somes (map fst (fst (drive (gti_next o) gti_len k (gti_from o s))))) =
  firstn k (all_indexes (lens_of (ts_shape o s))).
Proof. rewrite gti_drive, places_with_elements. apply shape_iter_places. Qed.

Theorem gen_tensor_iter_distinct (s : St) k :
  NoDup (map fst (somes (map fst (fst (drive (gti_next o) gti_len k (gti_from o s)))))).
Proof. rewrite gen_tensor_iter_places. apply NoDup_firstn, all_indexes_NoDup. Qed.

Theorem gen_tensor_iter_places_in_shape (s : St) k :
  Forall (fun idx => in_range idx (lens_of (ts_shape o s)))
         (map fst (somes (map fst (fst (drive (gti_next o) gti_len k (gti_from o s)))))).
Proof.
  rewrite gen_tensor_iter_places.
  pose proof (all_indexes_in_range (lens_of (ts_shape o s))) as F.
  rewrite <- (firstn_skipn k) in F. apply Forall_app in F. tauto.
Qed.

(* the owning iterator over a source meeting the TensorMut contract (in-range writes succeed, are
   read back, change no other in-range index, keep shape and invariant): it yields what the
   shared iterator yields on the ORIGINAL source — each original value once, in order — and leaves
   the placeholder at exactly the first k places *)
Theorem gen_owned_moves_once (dflt : A) (P : St -> Prop) (sh : shape)
  (P_set : forall s idx v, P s -> in_range idx (lens_of sh) ->
     exists s', ts_set o s idx v = Some s' /\ P s' /\ ts_get o s' idx = Some v /\
                forall idx', in_range idx' (lens_of sh) -> idx' <> idx -> ts_get o s' idx' = ts_get o s idx')
  (s : St) k : P s -> ts_shape o s = sh ->
  let r := drive (gti_next_owned o dflt) gti_len k (gti_from o s) in
  fst r = fst (drive (gti_next o) gti_len k (gti_from o s)) /\
  P (gi_source (snd r)) /\
  forall x, in_range x (lens_of sh) ->
    ts_get o (gi_source (snd r)) x = if flat x (lens_of sh) <? N.of_nat k then Some dflt else ts_get o s x.
Proof.
  intros Ps Hsh. cbv zeta.
  pose proof (shape_iter_places sh k) as Hpl. fold (places_of (outs k (shape_iter_from sh))) in Hpl.
  unfold outs in Hpl.
  assert (Hok : Forall (fun idx => in_range idx (lens_of sh))
                  (places_of (fst (drive iter_next iter_len k (shape_iter_from sh))))).
  { rewrite Hpl. pose proof (all_indexes_in_range (lens_of sh)) as F.
    rewrite <- (firstn_skipn k) in F. apply Forall_app in F. tauto. }
  assert (Hnd : NoDup (places_of (fst (drive iter_next iter_len k (shape_iter_from sh))))).
  { rewrite Hpl. apply NoDup_firstn, all_indexes_NoDup. }
  pose proof (gi_owned_drive iter_next iter_len (ts_get o) (ts_set o)
                (fun idx => in_range idx (lens_of sh)) P P_set dflt k (shape_iter_from sh) s Ps Hok Hnd) as H.
  cbv zeta in H. unfold gti_next_owned, gti_from, gti_len. rewrite Hsh.
  destruct H as [H1 [H2 H3]]. split; [|split; [exact H2|]].
  - rewrite H1. symmetry. apply gi_drive.
  - intros x Hx. destruct (H3 x Hx) as [J1 J2]. rewrite Hpl in J1, J2.
    pose proof (flat_lt _ _ Hx) as Hlt.
    assert (Hnth : nth_error (all_indexes (lens_of sh)) (N.to_nat (flat x (lens_of sh))) = Some x)
      by (apply all_indexes_at; exact Hx).
    destruct (N.ltb_spec (flat x (lens_of sh)) (N.of_nat k)) as [Hk|Hk].
    + apply J1. apply (nth_error_In _ (N.to_nat (flat x (lens_of sh)))).
      rewrite nth_error_firstn_lt by lia. exact Hnth.
    + apply J2. intros Hin. apply In_nth_error in Hin as [n Hn].
      assert (Hnk : (n < k)%nat).
      { destruct (Nat.lt_ge_cases n k) as [Hc|Hc]; [exact Hc|].
        assert (Hnone : nth_error (firstn k (all_indexes (lens_of sh))) n = None).
        { apply nth_error_None. rewrite firstn_length. lia. }
        congruence. }
      rewrite nth_error_firstn_lt in Hn by exact Hnk.
      destruct (all_indexes_nth _ _ _ Hn) as [_ Hf]. lia.
Qed.

End TensorAny.

(* ---------- 3b. matrix iterators over any source ---------- *)
Section MatrixAny.
Context {St A : Type}.
Variable o : msource St A.

Definition in_msize (s : St) (p : N * N) : Prop := fst p < mo_rows o s /\ snd p < mo_cols o s.

(* row-major and column-major iterators (copy / reference / mutable), empty sources included:
   call number q returns the element at (q / columns, q mod columns) resp. (q mod rows, q / rows)
   and the length rows*columns - q - 1; from q = rows*columns on: (None, 0) *)
Theorem gen_major_iter_spec rm (s : St) k :
  let rows := mo_rows o s in let cols := mo_cols o s in
  fst (drive (gmi_next o) gmi_len k (gmi_from o rm s)) =
  map (fun j => cexpected (rows * cols)
                 (fun q => let p := mi_place rm rows cols q in (p, mo_get o s p)) (N.of_nat j)) (seq 0 k)
  /\ gmi_len (gmi_from o rm s) = rows * cols.
Proof.
  cbv zeta. unfold gmi_next, gmi_len, gmi_from. split.
  - rewrite (proj1 (gi_drive mc_step mc_len (mo_get o) k _ s)), (proj1 (mc_spec rm _ _ k)).
    unfold with_elements. rewrite map_map. apply map_ext. intros j.
    rewrite (cexpected_map (fun p => (p, mo_get o s p))). reflexivity.
  - unfold gi_len. cbn [gi_places]. exact (proj2 (mc_spec rm _ _ 0%nat)).
Qed.

(* single column / row / diagonal: the constructors accept exactly the existing column / row *)
Theorem gen_line_iter_spec kind fixed n (s : St) k :
  fst (drive (gli_next o) gli_len k (mkGI (mkLC kind fixed (0, n)) s)) =
  map (fun j => cexpected n (fun q => let p := lc_place (mkLC kind fixed (0, n)) q in (p, mo_get o s p))
                 (N.of_nat j)) (seq 0 k)
  /\ gli_len (mkGI (mkLC kind fixed (0, n)) s) = n.
Proof.
  unfold gli_next, gli_len. split.
  - rewrite (proj1 (gi_drive lc_step lc_len (mo_get o) k _ s)), (proj1 (lc_spec kind fixed n k)).
    unfold with_elements. rewrite map_map. apply map_ext. intros j.
    rewrite (cexpected_map (fun p => (p, mo_get o s p))). reflexivity.
  - unfold gi_len. cbn [gi_places]. exact (proj2 (lc_spec kind fixed n 0%nat)).
Qed.

Theorem gen_major_with_index_true (it it' : giter mcounters St) index place v :
  gmi_with_index (gmi_next o) it = (Some (index, (place, v)), it') -> index = place.
Proof. apply gi_with_index_true. exact mc_index_is_next. Qed.

Theorem gen_major_with_index_true_owned dflt (it it' : giter mcounters St) index place v :
  gmi_with_index (gmi_next_owned o dflt) it = (Some (index, (place, v)), it') -> index = place.
Proof. apply gi_with_index_true_owned. exact mc_index_is_next. Qed.

(* the places the row-/column-major counters produce in k calls *)
Lemma mc_places rm rows cols k :
  places_of (fst (drive mc_step mc_len k (mc_from rm rows cols))) =
  map (mi_place rm rows cols) (filter (fun q => q <? rows * cols) (map N.of_nat (seq 0 k))).
Proof. rewrite (proj1 (mc_spec rm rows cols k)). apply places_of_cexpected. Qed.

Ltac Zify.zify_post_hook ::= Z.div_mod_to_equations.

Lemma mi_place_in_size rm rows cols q : q < rows * cols ->
  fst (mi_place rm rows cols q) < rows /\ snd (mi_place rm rows cols q) < cols.
Proof.
  intros H. unfold mi_place. destruct rm; cbn [fst snd].
  - assert (cols <> 0) by nia. split; [apply N.div_lt_upper_bound; lia|apply N.mod_lt; lia].
  - assert (rows <> 0) by nia. split; [apply N.mod_lt; lia|apply N.div_lt_upper_bound; lia].
Qed.

Lemma mc_places_ok rm rows cols k :
  Forall (fun p => fst p < rows /\ snd p < cols)
         (places_of (fst (drive mc_step mc_len k (mc_from rm rows cols)))) /\
  NoDup (places_of (fst (drive mc_step mc_len k (mc_from rm rows cols)))).
Proof.
  rewrite mc_places. split.
  - apply Forall_forall. intros p Hin. apply in_map_iff in Hin as [q [<- Hq]].
    apply filter_In in Hq as [_ Hq]. apply N.ltb_lt in Hq. apply mi_place_in_size. exact Hq.
  - apply NoDup_map_inj_in.
    + intros a b Ha Hb. apply filter_In in Ha as [_ Ha]. apply filter_In in Hb as [_ Hb].
      apply N.ltb_lt in Ha, Hb. apply mi_place_injective; assumption.
    + apply NoDup_filter, NoDup_map_of_nat, seq_NoDup.
Qed.

(* every (row, column) the row-/column-major iterators hand to get_reference_unchecked(_mut) is
   inside the source's size; an empty source receives no access at all *)
Theorem gen_major_iter_places_in_size rm (s : St) k :
  Forall (in_msize s) (map fst (somes (map fst (fst (drive (gmi_next o) gmi_len k (gmi_from o rm s)))))).
Proof.
  unfold gmi_next, gmi_len, gmi_from.
  rewrite (proj1 (gi_drive mc_step mc_len (mo_get o) k _ s)).
  assert (E : forall l, map fst (somes (map fst (with_elements (mo_get o) s l))) = places_of l).
  { unfold with_elements, places_of. induction l as [|[[x|] n] l IH]; cbn [map somes option_map fst];
      [reflexivity| |exact IH]. f_equal. exact IH. }
  rewrite E. exact (proj1 (mc_places_ok rm _ _ k)).
Qed.

Theorem gen_line_iter_places_in_size kind fixed (s : St) k c :
  (kind = LColumn /\ lc_column (mo_rows o s) (mo_cols o s) fixed = Ok c) \/
  (kind = LRow /\ lc_row (mo_rows o s) (mo_cols o s) fixed = Ok c) \/
  (kind = LDiagonal /\ c = lc_diagonal (mo_rows o s) (mo_cols o s)) ->
  Forall (in_msize s) (map fst (somes (map fst (fst (drive (gli_next o) gli_len k (mkGI c s)))))).
Proof.
  intros Hc.
  assert (E : forall l, map fst (somes (map fst (with_elements (mo_get o) s l))) = places_of l).
  { unfold with_elements, places_of. induction l as [|[[x|] n] l IH]; cbn [map somes option_map fst];
      [reflexivity| |exact IH]. f_equal. exact IH. }
  unfold gli_next, gli_len. rewrite (proj1 (gi_drive lc_step lc_len (mo_get o) k _ s)), E.
  assert (G : forall kd fx n, (forall q, q < n -> in_msize s (lc_place (mkLC kd fx (0, n)) q)) ->
            Forall (in_msize s) (places_of (fst (drive lc_step lc_len k (mkLC kd fx (0, n)))))).
  { intros kd fx n Hq. rewrite (proj1 (lc_spec kd fx n k)), places_of_cexpected.
    apply Forall_forall. intros p Hin. apply in_map_iff in Hin as [q [<- Hin]].
    apply filter_In in Hin as [_ Hin]. apply N.ltb_lt in Hin. apply Hq. exact Hin. }
  destruct Hc as [[-> Hc]|[[-> Hc]|[-> ->]]].
  - unfold lc_column in Hc.
    destruct (N.ltb_spec 0 (mo_rows o s)); destruct (N.ltb_spec fixed (mo_cols o s)); cbn [andb] in Hc;
      try discriminate. injection Hc as <-. apply G. intros q Hq. split; cbn; assumption.
  - unfold lc_row in Hc.
    destruct (N.ltb_spec fixed (mo_rows o s)); destruct (N.ltb_spec 0 (mo_cols o s)); cbn [andb] in Hc;
      try discriminate. injection Hc as <-. apply G. intros q Hq. split; cbn; assumption.
  - unfold lc_diagonal. apply G. intros q Hq. split; cbn; lia.
Qed.

(* the owning iterators over a source meeting the MatrixMut contract *)
Theorem gen_matrix_owned_moves_once (dflt : A) (P : St -> Prop) (rows cols : N)
  (P_set : forall s p v, P s -> fst p < rows /\ snd p < cols ->
     exists s', mo_set o s p v = Some s' /\ P s' /\ mo_get o s' p = Some v /\
                forall p', fst p' < rows /\ snd p' < cols -> p' <> p -> mo_get o s' p' = mo_get o s p')
  rm (s : St) k : P s -> mo_rows o s = rows -> mo_cols o s = cols ->
  let r := drive (gmi_next_owned o dflt) gmi_len k (gmi_from o rm s) in
  fst r = fst (drive (gmi_next o) gmi_len k (gmi_from o rm s)) /\
  P (gi_source (snd r)) /\
  forall q, q < rows * cols ->
    mo_get o (gi_source (snd r)) (mi_place rm rows cols q) =
    if q <? N.of_nat k then Some dflt else mo_get o s (mi_place rm rows cols q).
Proof.
  intros Ps Hr Hc. cbv zeta. unfold gmi_next_owned, gmi_next, gmi_len, gmi_from. rewrite Hr, Hc.
  destruct (mc_places_ok rm rows cols k) as [Hok Hnd].
  pose proof (gi_owned_drive mc_step mc_len (mo_get o) (mo_set o)
                (fun p => fst p < rows /\ snd p < cols) P P_set dflt k (mc_from rm rows cols) s Ps Hok Hnd) as H.
  cbv zeta in H. destruct H as [H1 [H2 H3]]. split; [|split; [exact H2|]].
  - rewrite H1. symmetry. apply gi_drive.
  - intros q Hq. destruct (H3 _ (mi_place_in_size rm rows cols q Hq)) as [J1 J2].
    rewrite mc_places in J1, J2.
    destruct (N.ltb_spec q (N.of_nat k)) as [Hk|Hk].
    + apply J1. apply in_map. apply filter_In. split; [|apply N.ltb_lt; exact Hq].
      apply in_map_iff. exists (N.to_nat q). split; [lia|]. apply in_seq. lia.
    + apply J2. intros Hin. apply in_map_iff in Hin as [q' [E Hin]].
      apply filter_In in Hin as [Hin Hq']. apply N.ltb_lt in Hq'.
      apply (mi_place_injective rm rows cols q' q Hq' Hq) in E. subst q'.
      apply in_map_iff in Hin as [n [<- Hn]]. apply in_seq in Hn. lia.
Qed.

End MatrixAny.

(* ---------- 3c. the term-level iterators are instances ---------- *)
Section Instances.
Context {A : Type}.

(* Model/ShapeIter.v's tensor iterators over the source terms of Model/TSource.v *)
Theorem tensor_iter_is_generic (s : tsrc A) k :
  fst (drive ti_next ti_len k (tensor_iter_from s)) =
  fst (drive (gti_next tsrc_source) gti_len k (gti_from tsrc_source s)).
Proof.
  unfold tensor_iter_from. rewrite ti_drive, gti_drive. reflexivity.
Qed.

Definition gi_of_ti (it : tensor_iter A) : giter shape_iter (tsrc A) :=
  mkGI (ti_shape_iter it) (ti_source it).

Lemma ti_owned_step dflt (it : tensor_iter A) :
  gti_next_owned tsrc_source dflt (gi_of_ti it) =
  (fst (ti_next_owned dflt it), gi_of_ti (snd (ti_next_owned dflt it))).
Proof.
  unfold gti_next_owned, gi_next_owned, ti_next_owned, gi_of_ti.
  cbn [gi_places gi_source tsrc_source ts_get ts_set].
  destruct (iter_next (ti_shape_iter it)) as [[idx|] si']; reflexivity.
Qed.

Theorem ti_owned_is_generic dflt : forall k (it : tensor_iter A),
  drive (gti_next_owned tsrc_source dflt) gti_len k (gi_of_ti it) =
  (fst (drive (ti_next_owned dflt) ti_len k it), gi_of_ti (snd (drive (ti_next_owned dflt) ti_len k it))).
Proof.
  induction k as [|k IH]; intros it; [reflexivity|].
  cbn [drive]. rewrite ti_owned_step. destruct (ti_next_owned dflt it) as [x it1]. cbn [fst snd].
  rewrite IH. destruct (drive (ti_next_owned dflt) ti_len k it1) as [rest itf]. reflexivity.
Qed.

(* Model/MatrixIter.v's row-/column-major iterators over the matrix source terms *)
Theorem major_iter_is_generic rm (s : msrc A) k :
  fst (drive mi_next mi_len k (major_iter_from rm s)) =
  fst (drive (gmi_next msrc_source) gmi_len k (gmi_from msrc_source rm s)).
Proof.
  rewrite (proj1 (major_iter_spec rm s k)), (proj1 (gen_major_iter_spec msrc_source rm s k)). reflexivity.
Qed.

End Instances.
