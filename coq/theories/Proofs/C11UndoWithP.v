(* C11 - undo laws for the iterator-fed insertions. *)
From Coq Require Import List ZArith NArith Bool Arith Lia.
From EasyML Require Import Base.Sx Model.Matrix Proofs.C11Spec Proofs.C11Ops Proofs.C11Transpose Proofs.C11P Proofs.C11UndoP.
Import ListNotations.
Open Scope N_scope.

Section UndoWith.
Context {T : Type}.

Lemma spec_insert_with_remove_row (m : list (list T)) i vs : rect m -> i <= nlen m ->
  N.of_nat (ncols m) <= nlen vs ->
  spec_run m [OInsertRowWith i vs; ORemoveRow i] = m.
Proof.
  intros [Hne _] Hi Hv. unfold spec_run. cbn [fold_left spec_step].
  destruct (N.leb_spec i (nlen m)) as [_|]; [|lia].
  destruct (N.leb_spec (N.of_nat (ncols m)) (nlen vs)) as [_|]; [|lia]. cbn [andb fst].
  unfold nlen at 1 2. rewrite insert_at_length.
  assert (0 < length m)%nat by (destruct m; [contradiction|cbn [length]; lia]).
  unfold nlen in Hi.
  destruct (N.ltb_spec 1 (N.of_nat (S (length m)))) as [_|]; [|lia].
  destruct (N.ltb_spec i (N.of_nat (S (length m)))) as [_|]; [|lia].
  cbn [andb fst]. apply remove_insert_at. lia.
Qed.

Lemma map_combine_insert_remove k : forall (vs : list T) (m : list (list T)),
  (length m <= length vs)%nat -> Forall (fun r => (k <= length r)%nat) m ->
  map (remove_at k) (map (fun p => insert_at k (fst p) (snd p)) (combine vs m)) = m.
Proof.
  induction vs as [|v vs IH]; intros m Hl Hall.
  - destruct m; [reflexivity|cbn [length] in Hl; lia].
  - destruct m as [|r m]; [reflexivity|]. cbn [combine map fst snd]. inversion Hall as [|? ? Hr Hm]; subst.
    rewrite remove_insert_at by exact Hr. f_equal. apply IH; [cbn [length] in Hl; lia|exact Hm].
Qed.

Lemma spec_insert_with_remove_column (m : list (list T)) j vs : rect m -> j <= N.of_nat (ncols m) ->
  nlen m <= nlen vs ->
  spec_run m [OInsertColumnWith j vs; ORemoveColumn j] = m.
Proof.
  intros [Hne [Hc Hall]] Hj Hv. unfold spec_run. cbn [fold_left spec_step].
  destruct (N.leb_spec j (N.of_nat (ncols m))) as [_|]; [|lia].
  destruct (N.leb_spec (nlen m) (nlen vs)) as [_|]; [|lia]. cbn [andb fst].
  unfold nlen in Hv.
  assert (Hnc : ncols (map (fun p => insert_at (N.to_nat j) (fst p) (snd p)) (combine vs m)) = S (ncols m)).
  { unfold ncols. destruct m as [|r0 m']; [contradiction|]. destruct vs as [|v0 vs']; [cbn [length] in Hv; lia|].
    cbn [combine map hd fst snd]. apply insert_at_length. }
  rewrite Hnc.
  destruct (N.ltb_spec 1 (N.of_nat (S (ncols m)))) as [_|]; [|lia].
  destruct (N.ltb_spec j (N.of_nat (S (ncols m)))) as [_|]; [|lia].
  cbn [andb fst]. apply map_combine_insert_remove; [lia|].
  eapply Forall_impl; [|exact Hall]. cbn beta. intros r Hr. rewrite Hr. lia.
Qed.

Theorem insert_with_remove_row_undo (s : matrix T) i vs : Inv s -> i <= m_rows s -> m_cols s <= nlen vs ->
  all_fit (abs s) [OInsertRowWith i vs; ORemoveRow i] ->
  abs (impl_run s [OInsertRowWith i vs; ORemoveRow i]) = abs s /\
  Inv (impl_run s [OInsertRowWith i vs; ORemoveRow i]).
Proof.
  intros Hinv Hi Hv Hfit. destruct (run_refines s _ Hinv Hfit) as [E I]. split; [|exact I].
  destruct (observe_refines s Hinv) as [Hsz _]. injection Hsz as Hr Hc.
  rewrite E. apply spec_insert_with_remove_row; [exact (proj1 (abs_of_inv s Hinv))| |]; congruence.
Qed.

Theorem insert_with_remove_column_undo (s : matrix T) j vs : Inv s -> j <= m_cols s -> m_rows s <= nlen vs ->
  all_fit (abs s) [OInsertColumnWith j vs; ORemoveColumn j] ->
  abs (impl_run s [OInsertColumnWith j vs; ORemoveColumn j]) = abs s /\
  Inv (impl_run s [OInsertColumnWith j vs; ORemoveColumn j]).
Proof.
  intros Hinv Hj Hv Hfit. destruct (run_refines s _ Hinv Hfit) as [E I]. split; [|exact I].
  destruct (observe_refines s Hinv) as [Hsz _]. injection Hsz as Hr Hc.
  rewrite E. apply spec_insert_with_remove_column; [exact (proj1 (abs_of_inv s Hinv))| |]; congruence.
Qed.
End UndoWith.
