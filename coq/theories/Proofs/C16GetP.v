(* C16, API level: the checked getters of TensorMask / TensorReverse over a validated tensor and
   of MatrixRange / MatrixReverse over a matrix are total over the whole usize domain and
   independent of the build profile; with_names and try_into_scalar are total with exact
   success conditions and payloads. *)
From Coq Require Import List ZArith NArith Bool Arith Lia.
From EasyML Require Import Base.Sx Model.Shape Model.U64 Model.Fallible Model.FallibleApi
     Proofs.ShapeP Proofs.C16P Proofs.C16ApiP Proofs.C16CtorP.
Import ListNotations.
Open Scope N_scope.

(* ---------- TensorMask ---------- *)

(* IndexRange::mask as a pure function (saturating, cannot fail) *)
Definition mask_index (r : index_range) (i : N) : N :=
  if i <? r_start r then i else sat_add i (r_length r).

Theorem tensor_mask_get_total m sh cl idx :
  valid_shape sh -> elements sh <= usize_max ->
  tensor_mask_get m sh cl idx =
  Ok (get_index_direct (map (fun p => mask_index (fst p) (snd p)) (combine cl idx))
                       (compute_strides sh) sh).
Proof.
  intros Hv He. unfold tensor_mask_get.
  rewrite (omapM_ok (fun p : index_range * N => mask_index (fst p) (snd p))).
  2:{ intros p _. unfold ir_mask, mask_index. destruct (snd p <? r_start (fst p)); reflexivity. }
  cbn [obind]. unfold leaf_get. apply get_index_direct_total; assumption.
Qed.

(* ---------- TensorReverse ---------- *)

Definition rev_spec (len i : N) : N := if len - 1 <? i then i else len - 1 - i.

Lemma rev_index_total m len i : 0 < len -> rev_index m len i = Ok (rev_spec len i).
Proof.
  intros H. unfold rev_index, rev_spec. rewrite u_sub_ok by lia. cbn [obind].
  destruct (N.ltb_spec (len - 1) i); [reflexivity|]. apply u_sub_ok. lia.
Qed.

Definition reverse_map (p : N * (bool * N)) : N :=
  let '(l, (b, i)) := p in if (b : bool) then rev_spec l i else i.

Theorem tensor_reverse_get_total m sh reversed idx :
  valid_shape sh -> elements sh <= usize_max ->
  tensor_reverse_get m sh reversed idx =
  Ok (get_index_direct (map reverse_map (combine (lens_of sh) (combine reversed idx)))
                       (compute_strides sh) sh).
Proof.
  intros Hv He. unfold tensor_reverse_get.
  rewrite (omapM_ok reverse_map).
  2:{ intros [l [b i]] Hp. apply in_combine_l in Hp. cbn [reverse_map].
      destruct b; [|reflexivity]. apply rev_index_total.
      destruct Hv as [_ Hpos]. rewrite Forall_forall in Hpos. apply Hpos. exact Hp. }
  cbn [obind]. unfold leaf_get. apply get_index_direct_total; assumption.
Qed.

(* an out-of-range coordinate of a reversed dimension stays out of range (it is passed through
   unchanged), an in-range one is mirrored inside the dimension: reversal never makes an absent
   element present *)
Lemma rev_spec_in_range len i : 0 < len -> (rev_spec len i < len <-> i < len).
Proof. intros H. unfold rev_spec. destruct (N.ltb_spec (len - 1) i); lia. Qed.

(* ---------- MatrixRange / MatrixReverse ---------- *)

Lemma ir_map_total m r len i : r_start r + r_length r <= len -> len <= usize_max ->
  ir_map m r i = Ok (if i <? r_length r then Some (r_start r + i) else None).
Proof.
  intros H Hb. unfold ir_map. destruct (N.ltb_spec i (r_length r)); [|reflexivity].
  rewrite u_add_ok by lia. cbn [omap]. do 2 f_equal. lia.
Qed.

Lemma clip_spec_inside r len : r_start (clip_spec r len) + r_length (clip_spec r len) <= len \/
  r_length (clip_spec r len) = 0.
Proof. apply clip_inside. Qed.

Lemma ir_map_clip_total m r len i : len <= usize_max ->
  ir_map m (clip_spec r len) i =
  Ok (if i <? clipped_length r len then Some (r_start r + i) else None).
Proof.
  intros Hb. unfold ir_map. cbn [clip_spec r_start r_length].
  destruct (N.ltb_spec i (clipped_length r len)) as [H|H]; [|reflexivity].
  unfold clipped_length in H. rewrite u_add_ok by lia. cbn [omap]. do 2 f_equal. lia.
Qed.

Theorem matrix_range_get_total m rows cols rr cr row col :
  rows * cols <= usize_max -> 0 < rows -> 0 < cols ->
  matrix_range_get m rows cols rr cr row col =
  Ok (clipped_length rr rows, clipped_length cr cols,
      if (row <? clipped_length rr rows) && (col <? clipped_length cr cols)
      then Some ((r_start rr + row) * cols + (r_start cr + col)) else None).
Proof.
  intros Hb Hr Hc. assert (rows <= usize_max) by nia. assert (cols <= usize_max) by nia.
  unfold matrix_range_get. rewrite !ir_clip_spec by assumption. cbn [obind].
  rewrite !ir_map_clip_total by assumption. cbn [obind clip_spec r_length].
  destruct (N.ltb_spec row (clipped_length rr rows)) as [H1|H1]; [|reflexivity].
  destruct (N.ltb_spec col (clipped_length cr cols)) as [H2|H2]; [|reflexivity].
  cbn [andb]. rewrite matrix_try_index_total by exact Hb. cbn [omap].
  unfold clipped_length in H1, H2.
  destruct (N.ltb_spec (r_start rr + row) rows); [|lia].
  destruct (N.ltb_spec (r_start cr + col) cols); [|lia]. reflexivity.
Qed.

Theorem matrix_reverse_get_total m rows cols rr cr rrev crev row col :
  rows * cols <= usize_max -> 0 < rows -> 0 < cols ->
  exists r, matrix_reverse_get m rows cols rr cr rrev crev row col = Ok r /\
    (r <> None <-> row < clipped_length rr rows /\ col < clipped_length cr cols).
Proof.
  intros Hb Hr Hc. assert (rows <= usize_max) by nia. assert (cols <= usize_max) by nia.
  unfold matrix_reverse_get. rewrite !ir_clip_spec by assumption. cbn [obind clip_spec r_length].
  set (vr := clipped_length rr rows). set (vc := clipped_length cr cols).
  destruct (N.eqb_spec vr 0) as [E|E]; [exists None; split; [reflexivity|]; split; [congruence|lia]|].
  destruct (N.eqb_spec vc 0) as [E'|E']; [exists None; split; [reflexivity|]; split; [congruence|lia]|].
  cbn [orb].
  assert (Hr1 : (if rrev then rev_index m vr row else Ok row) = Ok (if rrev then rev_spec vr row else row))
    by (destruct rrev; [apply rev_index_total; lia|reflexivity]).
  assert (Hc1 : (if crev then rev_index m vc col else Ok col) = Ok (if crev then rev_spec vc col else col))
    by (destruct crev; [apply rev_index_total; lia|reflexivity]).
  rewrite Hr1. cbn [obind]. rewrite Hc1. cbn [obind].
  change (mkRange (r_start rr) vr) with (clip_spec rr rows).
  change (mkRange (r_start cr) vc) with (clip_spec cr cols).
  rewrite !ir_map_clip_total by assumption. cbn [obind]. fold vr vc.
  set (r1 := if rrev then rev_spec vr row else row). set (c1 := if crev then rev_spec vc col else col).
  assert (Hr1' : r1 < vr <-> row < vr)
    by (unfold r1; destruct rrev; [apply rev_spec_in_range; lia|tauto]).
  assert (Hc1' : c1 < vc <-> col < vc)
    by (unfold c1; destruct crev; [apply rev_spec_in_range; lia|tauto]).
  destruct (N.ltb_spec r1 vr) as [H1|H1].
  - destruct (N.ltb_spec c1 vc) as [H2|H2].
    + rewrite matrix_try_index_total by exact Hb. unfold vr, vc, clipped_length in H1, H2.
      destruct (N.ltb_spec (r_start rr + r1) rows); [|lia].
      destruct (N.ltb_spec (r_start cr + c1) cols); [|lia]. cbn [andb].
      eexists. split; [reflexivity|]. split; [intros _; tauto|discriminate].
    + exists None. split; [reflexivity|]. split; [congruence|]. intros [_ Hx]. apply Hc1' in Hx. lia.
  - exists None. split; [reflexivity|]. split; [congruence|]. intros [Hx _]. apply Hr1' in Hx. lia.
Qed.

(* ---------- with_names / try_into_scalar ---------- *)

Theorem with_names_total rows cols rr cr n0 n1 : rows <= usize_max -> cols <= usize_max ->
  let sh := [(n0, clipped_length rr rows); (n1, clipped_length cr cols)] in
  with_names rows cols rr cr n0 n1 =
  if negb (Nat.eqb n0 n1) && (0 <? clipped_length rr rows) && (0 <? clipped_length cr cols)
  then Ok sh else Err (sshape sh).
Proof.
  intros Hr Hc. cbv zeta. unfold with_names. rewrite !ir_clip_spec by assumption.
  cbn [obind clip_spec r_length]. unfold valid_shape_b, has_zero.
  cbn [names_of map fst snd has_duplicates existsb orb].
  rewrite !orb_false_r.
  destruct (Nat.eqb n0 n1); cbn [negb andb]; [reflexivity|].
  destruct (N.eqb_spec (clipped_length rr rows) 0) as [->|H1]; cbn [orb negb andb]; [reflexivity|].
  replace (0 <? clipped_length rr rows) with true by (symmetry; apply N.ltb_lt; lia). cbn [andb].
  destruct (N.eqb_spec (clipped_length cr cols) 0) as [->|H2]; cbn [negb]; [reflexivity|].
  replace (0 <? clipped_length cr cols) with true by (symmetry; apply N.ltb_lt; lia). reflexivity.
Qed.

Theorem try_into_scalar_total rows cols :
  try_into_scalar rows cols <> Panic /\
  ((exists x, try_into_scalar rows cols = Ok x) <-> rows = 1 /\ cols = 1).
Proof.
  unfold try_into_scalar. destruct (N.eqb_spec rows 1); destruct (N.eqb_spec cols 1); cbn [andb];
    (split; [discriminate|]); split; eauto; try (intros [x H]; discriminate); lia.
Qed.
