(* C05 — all integer powers at any base without a pole: forward mode over the dictionary Rops_z of
   Proofs/C04RZ.v (zpow x z = powerRZ x z for an integer z - x^n, 1 / x^n -, Rpower otherwise);
   dom_z admits trace ^ number and trace ^ constant-trace at a negative base for any integer
   exponent and at a zero base for a natural-number exponent. *)
From Coq Require Import List Arith Lia Ring Field Bool Reals.
From EasyML Require Import Base.Sx Model.Num Model.Tape Model.AD Model.Forward Spec.FormalD
  Proofs.C04P Proofs.C04R Proofs.C04RZ Proofs.C05P.
Import ListNotations.
Open Scope R_scope.

Lemma Rops_z_is_field : is_field Rops_z.
Proof.
  constructor; cbn.
  - exact RTheory.
  - exact R1_neq_R0.
  - intros p q. unfold Rdiv. ring.
  - intros p Hp. field. exact Hp.
Qed.

Lemma dom_from_z_nz pre vs prog : dom_from_z pre vs prog -> nz_from Rops_z vs prog.
Proof.
  revert pre vs; induction prog as [|ins prog IH]; intros pre vs; cbn [dom_from_z nz_from]; [auto|].
  intros [Hi Hr]. split; [|eapply IH; exact Hr].
  destruct ins as [x|c|o a b|o a c|o c b|o a|l|f df a|f dx dy a b]; cbn; auto; destruct o; cbn in *; auto.
Qed.

Theorem forward_mode_is_true_derivative_z prog i x0 out :
  nth_error prog i = Some (IVar x0) -> dom_z prog ->
  derivable_pt_lim (fun t => tnumber (gett Rops_z (trun Rops_z i (set_var prog i t)) out)) x0
                   (tderivative (gett Rops_z (trun Rops_z i prog) out)).
Proof.
  intros Hi Hd.
  destruct (forward_correct Rops_z Rops_z_is_field i prog out (dom_from_z_nz [] [] prog Hd)) as [_ Hg].
  rewrite Hg.
  eapply dl_ext; [|apply (formal_is_true_derivative_z prog i x0 out Hi Hd)].
  intros t. cbv beta. symmetry. apply (forward_value Rops_z Rops_z_is_field).
Qed.
