(* C04 — analytic half, integer powers: the dictionary `Rops_i` is Coq's real numbers with the power
   function `rpow` that f64 `powf` approximates on a larger domain than exp(y ln x):
   rpow x y = x^n when y is the natural number n (ANY base, negative and zero included), and
   Rpower x y otherwise (they agree for a positive base).  Over Rops_i the formal derivative is the
   true partial derivative under `dom_i`, which is `dom` of Proofs/C04R.v except that
   record ^ number (IBinC BPow) is also allowed at ANY base when the number is a natural number:
   x^3 at x = -2 is inside the domain, as it is for easy-ml on f64.
   (Same proof as C04R.v; only the three power cases of the one-instruction lemma differ.) *)
From Coq Require Import List Arith Lia Reals Lra Ring Field ZArith.
From EasyML Require Import Base.Sx Model.Num Model.AD Spec.FormalD Proofs.C04P Proofs.C04R.
Import ListNotations.
Open Scope R_scope.

(* ------------------------------------------------------------------ the power function *)
Definition nat_of (y : R) : option nat :=
  let z := Int_part y in
  if Req_EM_T (IZR z) y then (if Z_le_dec 0 z then Some (Z.to_nat z) else None) else None.

Lemma Int_part_INR n : Int_part (INR n) = Z.of_nat n.
Proof.
  unfold Int_part. rewrite <- (tech_up (INR n) (Z.of_nat n + 1)).
  - lia.
  - rewrite plus_IZR, <- INR_IZR_INZ. lra.
  - rewrite plus_IZR, <- INR_IZR_INZ. lra.
Qed.

Lemma nat_of_INR n : nat_of (INR n) = Some n.
Proof.
  unfold nat_of. rewrite Int_part_INR. rewrite <- INR_IZR_INZ.
  destruct (Req_EM_T (INR n) (INR n)) as [_|H]; [|contradiction].
  destruct (Z_le_dec 0 (Z.of_nat n)) as [_|H]; [|lia]. rewrite Nat2Z.id. reflexivity.
Qed.

Lemma nat_of_spec y n : nat_of y = Some n -> y = INR n.
Proof.
  unfold nat_of. destruct (Req_EM_T (IZR (Int_part y)) y) as [E|]; [|discriminate].
  destruct (Z_le_dec 0 (Int_part y)) as [H|]; [|discriminate].
  intros H1. inversion H1. rewrite INR_IZR_INZ, Z2Nat.id by exact H. symmetry. exact E.
Qed.

Definition rpow (x y : R) : R :=
  match nat_of y with Some n => x ^ n | None => Rpower x y end.

Lemma rpow_nat x n : rpow x (INR n) = x ^ n.
Proof. unfold rpow. rewrite nat_of_INR. reflexivity. Qed.

Lemma rpow_pos x y : 0 < x -> rpow x y = Rpower x y.
Proof.
  intros Hx. unfold rpow. destruct (nat_of y) as [n|] eqn:E; [|reflexivity].
  apply nat_of_spec in E. subst y. symmetry. apply Rpower_pow. exact Hx.
Qed.

Definition Rops_i : numops R := {|
  nzero := 0; none_ := 1;
  nadd := Rplus; nsub := Rminus; nmul := Rmult; ndiv := Rdiv; nneg := Ropp;
  neqb := fun a b => if Req_EM_T a b then true else false;
  nltb := fun a b => if Rlt_dec a b then true else false;
  nleb := fun a b => if Rle_dec a b then true else false;
  nsqrt := sqrt; nexp := exp; nln := ln; nsin := sin; ncos := cos;
  npow := rpow; npi := PI;
  nof_N := fun n => Some (INR (N.to_nat n));
  nenc := fun _ => SL [];
  ndec := fun _ => None
|}.

Lemma Rops_i_ring : ring_theory (nzero Rops_i) (none_ Rops_i) (nadd Rops_i) (nmul Rops_i) (nsub Rops_i) (nneg Rops_i) (@eq R).
Proof. exact RTheory. Qed.

(* the domain: as Proofs/C04R.v, but record ^ number also at any base for a natural-number exponent *)
Definition dom_instr_i (vs : list R) (ins : instr R) : Prop :=
  match ins with
  | IBinC BPow a c => 0 < nth a vs 0 \/ exists n : nat, c = INR n
  | _ => dom_instr vs ins
  end.
Fixpoint dom_from_i (vs : list R) (prog : list (instr R)) : Prop :=
  match prog with
  | [] => True
  | ins :: r => dom_instr_i vs ins /\ dom_from_i (vs ++ [value_instr Rops_i vs ins]) r
  end.
Definition dom_i (prog : list (instr R)) : Prop := dom_from_i [] prog.

(* ------------------------------------------------------------------ calculus of rpow *)
(* derivable_pt_lim only looks at a neighbourhood of the point *)
Lemma dl_local (f g : R -> R) x l delta : 0 < delta ->
  (forall h, Rabs h < delta -> f (x + h) = g (x + h)) ->
  derivable_pt_lim f x l -> derivable_pt_lim g x l.
Proof.
  intros Hd E H eps Heps. destruct (H eps Heps) as [d1 H1].
  assert (Hm : 0 < Rmin delta d1) by (apply Rmin_pos; [exact Hd|apply cond_pos]).
  exists (mkposreal _ Hm). intros h Hh Hlt. cbn [pos] in Hlt.
  rewrite <- (E h) by (eapply Rlt_le_trans; [exact Hlt|apply Rmin_l]).
  assert (E0 : f x = g x).
  { pose proof (E 0) as E0. rewrite Rplus_0_r in E0. apply E0. rewrite Rabs_R0. exact Hd. }
  rewrite <- E0. apply H1; [exact Hh|]. eapply Rlt_le_trans; [exact Hlt|apply Rmin_r].
Qed.

Lemma positive_nearby (u : R -> R) x du : derivable_pt_lim u x du -> 0 < u x ->
  exists delta, 0 < delta /\ forall h, Rabs h < delta -> 0 < u (x + h).
Proof.
  intros Hu Hpos.
  assert (Hc : continuity_pt u x) by (apply derivable_continuous_pt; exists du; exact Hu).
  destruct (Hc (u x) Hpos) as [alp [Halp Hclose]]. exists alp. split; [exact Halp|].
  intros h Hh. destruct (Req_dec h 0) as [->|Hne]; [rewrite Rplus_0_r; exact Hpos|].
  assert (Hd : R_dist (u (x + h)) (u x) < u x).
  { apply Hclose. split.
    - split; [exact I|]. intros E. apply Hne. lra.
    - simpl. unfold R_dist. replace (x + h - x) with h by ring. exact Hh. }
  unfold R_dist in Hd. apply Rabs_def2 in Hd. lra.
Qed.

Lemma rpow_deriv_pos (u w : R -> R) x du dw : 0 < u x ->
  derivable_pt_lim u x du -> derivable_pt_lim w x dw ->
  derivable_pt_lim (fun t => rpow (u t) (w t)) x
    (w x * rpow (u x) (w x - 1) * du + rpow (u x) (w x) * ln (u x) * dw).
Proof.
  intros Hpos Hu Hw. rewrite !rpow_pos by exact Hpos.
  destruct (positive_nearby u x du Hu Hpos) as [delta [Hdelta Hnear]].
  apply (dl_local (fun t => Rpower (u t) (w t)) _ x _ delta Hdelta).
  - intros h Hh. symmetry. apply rpow_pos. apply Hnear. exact Hh.
  - apply Rpower_deriv; assumption.
Qed.

Lemma rpow_deriv_nat (u : R -> R) x du n : derivable_pt_lim u x du ->
  derivable_pt_lim (fun t => rpow (u t) (INR n)) x (INR n * rpow (u x) (INR n - 1) * du).
Proof.
  intros Hu. apply (dl_ext (fun t => (u t) ^ n)); [intros t; symmetry; apply rpow_nat|].
  eapply dl_eq.
  - change (fun t => u t ^ n) with (comp (fun y => y ^ n) u).
    apply derivable_pt_lim_comp; [exact Hu|apply derivable_pt_lim_pow].
  - destruct n as [|m].
    + cbn [INR pred pow]. ring.
    + replace (INR (S m) - 1) with (INR m) by (rewrite S_INR; ring).
      rewrite rpow_nat. cbn [pred]. ring.
Qed.

(* ------------------------------------------------------------------ bookkeeping *)
Lemma value_snoc prog ins :
  value Rops_i (prog ++ [ins]) = value Rops_i prog ++ [value_instr Rops_i (value Rops_i prog) ins].
Proof.
  unfold value. rewrite drun_snoc. destruct (drun Rops_i _ prog) as [vs ts]. reflexivity.
Qed.

Lemma value_length prog : length (value Rops_i prog) = length prog.
Proof.
  induction prog as [|ins prog IH] using rev_ind; [reflexivity|].
  rewrite value_snoc, !app_length, IH. reflexivity.
Qed.

Lemma tangent_snoc prog s ins :
  tangent Rops_i (prog ++ [ins]) s =
  tangent Rops_i prog s ++ [tangent_instr Rops_i (value Rops_i prog) (tangent Rops_i prog s) (s (length prog)) ins].
Proof.
  unfold tangent, value. rewrite drun_snoc.
  pose proof (drun_fst Rops_i s (fun _ => nzero Rops_i) prog) as E. pose proof (value_length prog) as L.
  unfold value in L. destruct (drun Rops_i s prog) as [vs ts]. cbn [fst] in E. subst vs.
  cbn [dstep snd fst]. rewrite L. reflexivity.
Qed.

Lemma tangent_length prog s : length (tangent Rops_i prog s) = length prog.
Proof.
  induction prog as [|ins prog IH] using rev_ind; [reflexivity|].
  rewrite tangent_snoc, !app_length, IH. reflexivity.
Qed.

Lemma dom_from_i_app vs p q : dom_from_i vs (p ++ q) <->
  dom_from_i vs p /\ dom_from_i (fold_left (fun vs ins => vs ++ [value_instr Rops_i vs ins]) p vs) q.
Proof.
  revert vs; induction p as [|ins p IH]; intros vs; cbn [app dom_from_i fold_left]; [tauto|].
  rewrite IH. tauto.
Qed.

Lemma value_fold p : forall vs ts,
  fst (fold_left (dstep Rops_i (fun _ => 0)) p (vs, ts)) =
  fold_left (fun vs ins => vs ++ [value_instr Rops_i vs ins]) p vs.
Proof. induction p as [|ins p IH]; intros vs ts; cbn [fold_left]; [reflexivity|]. apply IH. Qed.

Lemma dom_snoc prog ins : dom_i (prog ++ [ins]) <-> dom_i prog /\ dom_instr_i (value Rops_i prog) ins.
Proof.
  unfold dom_i. rewrite dom_from_i_app. cbn [dom_from_i]. unfold value, drun. rewrite value_fold. tauto.
Qed.

(* ------------------------------------------------------------------ calculus *)
Ltac rsimp := cbn [bop_f bop_dx bop_dy cop_bop uop_f uop_d nzero none_ nadd nsub nmul ndiv nneg
                      npow nln nsin ncos nexp nsqrt Rops_i].

(* one instruction: if every earlier value is differentiable in t with the listed tangent, so is
   this one, with the tangent the chain rule of the specification assigns *)
Lemma instr_deriv (V : R -> list R) (T : list R) x0 sd ins :
  (forall a, derivable_pt_lim (fun t => nth a (V t) 0) x0 (nth a T 0)) ->
  is_var ins = false -> dom_instr_i (V x0) ins ->
  derivable_pt_lim (fun t => value_instr Rops_i (V t) ins) x0 (tangent_instr Rops_i (V x0) T sd ins).
Proof.
  intros Hall Hnv Hdom.
  destruct ins as [x|c|o a b|o a c|o c b|o a|l|f df a|f dx dy a b];
    cbn [value_instr tangent_instr dom_instr_i dom_instr] in *; rsimp.
  - discriminate.
  - apply derivable_pt_lim_const.
  - pose proof (Hall a) as Ha. pose proof (Hall b) as Hb.
    destruct o; rsimp.
    + eapply dl_eq; [apply (derivable_pt_lim_plus _ _ _ _ _ Ha Hb)|ring].
    + eapply dl_eq; [apply (derivable_pt_lim_minus _ _ _ _ _ Ha Hb)|ring].
    + eapply dl_eq; [apply (derivable_pt_lim_mult _ _ _ _ _ Ha Hb)|ring].
    + eapply dl_eq; [apply (derivable_pt_lim_div _ _ _ _ _ Ha Hb Hdom)|unfold Rsqr; field; exact Hdom].
    + eapply dl_eq; [apply (rpow_deriv_pos (fun t => nth a (V t) 0) (fun t => nth b (V t) 0) x0 _ _ Hdom Ha Hb)|ring].
  - pose proof (Hall a) as Ha.
    assert (Hc : derivable_pt_lim (fun _ => c) x0 0) by apply derivable_pt_lim_const.
    destruct o; rsimp.
    + eapply dl_eq; [apply (derivable_pt_lim_plus _ _ _ _ _ Ha Hc)|ring].
    + eapply dl_eq; [apply (derivable_pt_lim_minus _ _ _ _ _ Ha Hc)|ring].
    + eapply dl_eq; [apply (derivable_pt_lim_mult _ _ _ _ _ Ha Hc)|ring].
    + eapply dl_eq; [apply (derivable_pt_lim_div _ _ _ _ _ Ha Hc Hdom)|unfold Rsqr; field; exact Hdom].
    + destruct Hdom as [Hpos|[n ->]].
      * eapply dl_eq; [apply (rpow_deriv_pos (fun t => nth a (V t) 0) (fun _ => c) x0 _ _ Hpos Ha Hc)|ring].
      * eapply dl_eq; [apply (rpow_deriv_nat (fun t => nth a (V t) 0) x0 _ n Ha)|ring].
  - pose proof (Hall b) as Hb.
    assert (Hc : derivable_pt_lim (fun _ => c) x0 0) by apply derivable_pt_lim_const.
    destruct o; rsimp.
    + eapply dl_eq; [apply (derivable_pt_lim_minus _ _ _ _ _ Hc Hb)|ring].
    + eapply dl_eq; [apply (derivable_pt_lim_div _ _ _ _ _ Hc Hb Hdom)|unfold Rsqr; field; exact Hdom].
    + eapply dl_eq; [apply (rpow_deriv_pos (fun _ => c) (fun t => nth b (V t) 0) x0 _ _ Hdom Hc Hb)|ring].
  - pose proof (Hall a) as Ha.
    destruct o; rsimp.
    + eapply dl_eq; [apply (derivable_pt_lim_opp _ _ _ Ha)|ring].
    + eapply dl_eq.
      * change (fun t => sin (nth a (V t) 0)) with (comp sin (fun t => nth a (V t) 0)).
        apply derivable_pt_lim_comp; [exact Ha|apply derivable_pt_lim_sin].
      * ring.
    + eapply dl_eq.
      * change (fun t => cos (nth a (V t) 0)) with (comp cos (fun t => nth a (V t) 0)).
        apply derivable_pt_lim_comp; [exact Ha|apply derivable_pt_lim_cos].
      * ring.
    + eapply dl_eq.
      * change (fun t => exp (nth a (V t) 0)) with (comp exp (fun t => nth a (V t) 0)).
        apply derivable_pt_lim_comp; [exact Ha|apply derivable_pt_lim_exp].
      * ring.
    + eapply dl_eq.
      * change (fun t => ln (nth a (V t) 0)) with (comp ln (fun t => nth a (V t) 0)).
        apply derivable_pt_lim_comp; [exact Ha|apply derivable_pt_lim_ln; exact Hdom].
      * field. lra.
    + eapply dl_eq.
      * change (fun t => sqrt (nth a (V t) 0)) with (comp sqrt (fun t => nth a (V t) 0)).
        apply derivable_pt_lim_comp; [exact Ha|apply derivable_pt_lim_sqrt; exact Hdom].
      * field. apply Rgt_not_eq. apply sqrt_lt_R0. exact Hdom.
  - unfold total. apply (dl_total V T x0 l (fun _ => 0) 0 Hall). apply derivable_pt_lim_const.
  - pose proof (Hall a) as Ha. eapply dl_eq.
    + change (fun t => f (nth a (V t) 0)) with (comp f (fun t => nth a (V t) 0)).
      apply derivable_pt_lim_comp; [exact Ha|exact Hdom].
    + cbn. ring.
  - cbn [nadd nmul Rops_i].
    apply (Hdom (fun t => nth a (V t) 0) (fun t => nth b (V t) 0) x0 _ _ eq_refl eq_refl (Hall a) (Hall b)).
Qed.

(* no seeded variable so far: every tangent is zero *)
Lemma total_zero l : (forall x, In x l -> x = 0) -> total Rops_i l = 0.
Proof. intros H. unfold total. rewrite (total_zero_aux Rops_i Rops_i_ring) by exact H. reflexivity. Qed.

Lemma tangent_all_zero prog s : (forall n, (n < length prog)%nat -> s n = 0) ->
  forall k, nth k (tangent Rops_i prog s) 0 = 0.
Proof.
  induction prog as [|ins prog IH] using rev_ind; intros Hs k.
  - destruct k; reflexivity.
  - rewrite tangent_snoc. rewrite app_length in Hs. cbn [length] in Hs.
    assert (Z : forall a, nth a (tangent Rops_i prog s) 0 = 0) by (apply IH; intros; apply Hs; lia).
    destruct (Nat.lt_ge_cases k (length prog)) as [Hlt|Hge].
    + rewrite app_nth1 by (rewrite tangent_length; lia). apply Z.
    + destruct (Nat.eq_dec k (length prog)) as [->|Hne];
        [|apply nth_overflow; rewrite app_length, tangent_length; simpl; lia].
      rewrite (nth_snoc _ _ _ _ (tangent_length prog s)).
      destruct ins as [x|c|o a b|o a c|o c b|o a|l|f df a|f dx dy a b]; cbn [tangent_instr];
        rewrite ?Z; cbn [nadd nmul nzero Rops_i]; try ring.
      * apply Hs. lia.
      * apply total_zero. intros x Hin. apply in_map_iff in Hin as [a [<- _]]. apply Z.
Qed.

(* ------------------------------------------------------------------ the theorem *)

Lemma partials prog : forall i x0, nth_error prog i = Some (IVar x0) -> dom_i prog ->
  forall k, derivable_pt_lim (fun t => nth k (value Rops_i (set_var prog i t)) 0) x0
                             (nth k (tangent Rops_i prog (ind i)) 0).
Proof.
  induction prog as [|ins prog IH] using rev_ind; intros i x0 Hi Hdom k.
  - destruct i; discriminate.
  - apply dom_snoc in Hdom as [Hdp Hdi].
    destruct (lt_eq_lt_dec i (length prog)) as [[Hlt|Heq]|Hgt].
    + (* the variable is an earlier instruction *)
      rewrite nth_error_app1 in Hi by exact Hlt.
      pose proof (IH i x0 Hi Hdp) as D. rewrite tangent_snoc.
      destruct (Nat.lt_ge_cases k (length prog)) as [Hk|Hk].
      * rewrite app_nth1 by (rewrite tangent_length; lia).
        eapply dl_ext; [|apply (D k)]. intros t. cbv beta.
        rewrite set_var_snoc_lt by exact Hlt. rewrite value_snoc.
        rewrite app_nth1 by (rewrite value_length, set_var_length; lia). reflexivity.
      * destruct (Nat.eq_dec k (length prog)) as [->|Hne].
        -- rewrite (nth_snoc _ _ _ _ (tangent_length prog (ind i))).
           destruct (is_var ins) eqn:Hiv.
           ++ destruct ins; try discriminate. cbn [tangent_instr]. unfold ind.
              destruct (Nat.eqb_spec (length prog) i); [lia|].
              eapply dl_ext; [|apply (derivable_pt_lim_const x)]. intros t. cbv beta.
              rewrite set_var_snoc_lt by exact Hlt. rewrite value_snoc.
              rewrite nth_snoc by (rewrite value_length, set_var_length; reflexivity). reflexivity.
           ++ pose proof (instr_deriv (fun t => value Rops_i (set_var prog i t)) (tangent Rops_i prog (ind i))
                                      x0 (ind i (length prog)) ins D Hiv) as Hd.
              cbv beta in Hd. rewrite (set_var_same prog i x0 Hi) in Hd. specialize (Hd Hdi).
              eapply dl_ext; [|exact Hd]. intros t. cbv beta.
              rewrite set_var_snoc_lt by exact Hlt. rewrite value_snoc.
              rewrite nth_snoc by (rewrite value_length, set_var_length; reflexivity). reflexivity.
        -- rewrite (nth_overflow (_ ++ _)) by (rewrite app_length, tangent_length; simpl; lia).
           eapply dl_ext; [|apply (derivable_pt_lim_const 0)]. intros t. cbv beta.
           rewrite nth_overflow; [reflexivity|].
           rewrite value_length, set_var_length, app_length. simpl. lia.
    + (* the variable is this instruction *)
      subst i. rewrite nth_error_app2, Nat.sub_diag in Hi by lia. cbn in Hi. inversion Hi; subst ins.
      rewrite tangent_snoc.
      assert (Z : forall a, nth a (tangent Rops_i prog (ind (length prog))) 0 = 0).
      { apply tangent_all_zero. intros n Hn. unfold ind. destruct (Nat.eqb_spec n (length prog)); [lia|reflexivity]. }
      destruct (Nat.lt_ge_cases k (length prog)) as [Hk|Hk].
      * rewrite app_nth1 by (rewrite tangent_length; lia). rewrite Z.
        eapply dl_ext; [|apply (derivable_pt_lim_const (nth k (value Rops_i prog) 0))]. intros t. cbv beta.
        rewrite set_var_snoc_eq, value_snoc. rewrite app_nth1 by (rewrite value_length; lia). reflexivity.
      * destruct (Nat.eq_dec k (length prog)) as [->|Hne].
        -- rewrite (nth_snoc _ _ _ _ (tangent_length prog (ind (length prog)))).
           cbn [tangent_instr]. unfold ind. rewrite Nat.eqb_refl.
           eapply dl_ext; [|apply derivable_pt_lim_id]. intros t. unfold id.
           rewrite set_var_snoc_eq, value_snoc. rewrite nth_snoc by apply value_length. reflexivity.
        -- rewrite (nth_overflow (_ ++ _)) by (rewrite app_length, tangent_length; simpl; lia).
           eapply dl_ext; [|apply (derivable_pt_lim_const 0)]. intros t. cbv beta.
           rewrite nth_overflow; [reflexivity|].
           rewrite value_length, set_var_length, app_length. simpl. lia.
    + assert (E : nth_error (prog ++ [ins]) i = None) by (apply nth_error_None; rewrite app_length; simpl; lia).
      congruence.
Qed.

(* C04_formal_is_true_derivative *)
Theorem formal_is_true_derivative_i prog i x0 out :
  nth_error prog i = Some (IVar x0) -> dom_i prog ->
  derivable_pt_lim (fun t => nth out (value Rops_i (set_var prog i t)) 0) x0 (grad Rops_i prog out i).
Proof. intros Hi Hd. apply (partials prog i x0 Hi Hd out). Qed.

(* the headline: the derivative REPORTED by Record::try_derivatives (Model/AD.v, over the reals)
   for input variable i is the true partial derivative of the result's number *)
Theorem reverse_mode_is_true_derivative_i prog i x0 out d :
  nth_error prog i = Some (IVar x0) -> dom_i prog ->
  try_derivatives Rops_i (run_prog Rops_i prog) out = Some d ->
  derivable_pt_lim (fun t => number (getr Rops_i (fst (run_prog Rops_i (set_var prog i t))) out)) x0
                   (at_ Rops_i d (getr Rops_i (fst (run_prog Rops_i prog)) i)).
Proof.
  intros Hi Hd Ht.
  rewrite (try_derivatives_is_gradient Rops_i Rops_i_ring prog out i x0 d Hi Ht).
  eapply dl_ext; [|apply (formal_is_true_derivative_i prog i x0 out Hi Hd)].
  intros t. cbv beta. symmetry. apply (value_correct Rops_i Rops_i_ring).
Qed.

