(* C18 — what a theorem can carry about determinism.  The Gallina models are functions, so "same
   inputs => same outputs" is definitional for them; the content is that the ONE place where the
   crate consults an address (ptr::eq in same_lists) cannot make results depend on the addresses:
   the multi-tape machine of Model/Determinism.v, run with `same_lists := equality of the addresses
   an arbitrary injective allocator handed out`, is observationally equal to the reference
   machine that compares tape identities. *)
From Coq Require Import List Arith Bool ZArith Lia.
From EasyML Require Import Base.Sx Model.Num Model.Tape Model.Determinism.
Import ListNotations.

Section Ext.
Context {R : Type} (ops : numops R).
Variables sl1 sl2 : tid -> tid -> bool.
Hypothesis Hsl : forall a b, sl1 a b = sl2 a b.

Lemma same_list_ext x y : same_list sl1 x y = same_list sl2 x y.
Proof. destruct x, y; simpl; auto. Qed.

Lemma exact_ext x y : are_exact_same_list sl1 x y = are_exact_same_list sl2 x y.
Proof. destruct x, y; simpl; auto. Qed.

Lemma collect_ext rs : forall first err,
  @collect R sl1 first err rs = collect sl2 first err rs.
Proof.
  induction rs as [|r rs IH]; intros first err; simpl; [reflexivity|].
  rewrite exact_ext. apply IH.
Qed.

Lemma binop_ext f dx dy s x y :
  binop ops sl1 f dx dy s x y = binop ops sl2 f dx dy s x y.
Proof. unfold binop. rewrite same_list_ext. reflexivity. Qed.

Lemma step_ext s i : machine_step ops sl1 s i = machine_step ops sl2 s i.
Proof.
  destruct i as [|t v|v|a b|a b|rs|t|a]; simpl; try reflexivity.
  - destruct (nth_error (regs s) a), (nth_error (regs s) b); try reflexivity. apply binop_ext.
  - destruct (nth_error (regs s) a), (nth_error (regs s) b); try reflexivity. apply binop_ext.
  - destruct (lookup_regs s rs) as [[|r rest]|]; try reflexivity.
    rewrite collect_ext. reflexivity.
Qed.

Lemma run_ext p : forall s, machine_run ops sl1 s p = machine_run ops sl2 s p.
Proof.
  induction p as [|i p IH]; intro s; simpl; [reflexivity|].
  rewrite step_ext. destruct (machine_step ops sl2 s i) as [s' e]. rewrite IH. reflexivity.
Qed.
End Ext.

(* an address assignment is injective w.r.t. the pointer comparison *)
Definition injective {A} (eqA : A -> A -> bool) (addr : tid -> A) : Prop :=
  forall a b, eqA (addr a) (addr b) = true <-> a = b.

Lemma sl_of_injective {A} (eqA : A -> A -> bool) addr :
  injective eqA addr -> forall a b, sl_of eqA addr a b = sl_id a b.
Proof.
  intros Hinj a b. unfold sl_of, sl_id.
  destruct (Nat.eqb_spec a b) as [E|N].
  - apply Hinj. exact E.
  - destruct (eqA (addr a) (addr b)) eqn:Q; [|reflexivity].
    exfalso. apply N. apply Hinj. exact Q.
Qed.

(* with injective addresses the machine IS the reference machine ... *)
Lemma run_addresses_irrelevant {R} (ops : numops R) {A} (eqA : A -> A -> bool) addr :
  injective eqA addr ->
  forall s p, machine_run ops (sl_of eqA addr) s p = machine_run ops sl_id s p.
Proof. intros Hinj s p. apply run_ext. apply sl_of_injective. exact Hinj. Qed.

(* ... hence any two injective address assignments (two processes, two heap layouts, two
   allocators, even two different pointer types) give the same final state and the same events:
   values, tape positions, panics, error values *)
Lemma address_parametric {R} (ops : numops R) {A B} (eqA : A -> A -> bool) (eqB : B -> B -> bool)
      (addr1 : tid -> A) (addr2 : tid -> B) :
  injective eqA addr1 -> injective eqB addr2 ->
  forall s p, machine_run ops (sl_of eqA addr1) s p = machine_run ops (sl_of eqB addr2) s p.
Proof.
  intros H1 H2 s p.
  rewrite (run_addresses_irrelevant ops eqA addr1 H1), (run_addresses_irrelevant ops eqB addr2 H2).
  reflexivity.
Qed.

(* injectivity is what the allocator provides for live objects, and it is needed: if two live
   tapes compared equal, a cross-tape addition would be recorded instead of panicking *)
Definition collision_program : list (instr Z) :=
  [INewTape; INewTape; IVar 0 2%Z; IVar 1 3%Z; IAdd 2 3; IAdd 0 1].

Lemma collision_observable :
  snd (machine_run Fpops (sl_of Nat.eqb (fun _ => 0)) (machine_init (R:=Z)) collision_program)
  <> snd (machine_run Fpops sl_id (machine_init (R:=Z)) collision_program).
Proof. vm_compute. intro H. discriminate H. Qed.

Lemma identity_is_injective : injective Nat.eqb (fun t : tid => t).
Proof. intros a b. apply Nat.eqb_eq. Qed.

Lemma shifted_is_injective : forall k, injective Nat.eqb (fun t : tid => k + 8 * t).
Proof. intros k a b. rewrite Nat.eqb_eq. split; intro H; [lia | subst; reflexivity]. Qed.

(* ---------------------------------------------------------------- tape positions *)

Lemma nth_set_nth_eq {A} (l : list A) n x d : n < length l -> nth n (set_nth l n x) d = x.
Proof.
  revert n; induction l as [|y l IH]; intros n H; simpl in *; [lia|].
  destruct n; simpl; [reflexivity|]. apply IH. lia.
Qed.

Lemma nth_set_nth_neq {A} (l : list A) n m x d : n <> m -> nth m (set_nth l n x) d = nth m l d.
Proof.
  revert n m; induction l as [|y l IH]; intros n m H; simpl.
  - destruct n, m; reflexivity.
  - destruct n, m; simpl; try reflexivity; try congruence. apply IH. congruence.
Qed.

Section Positions.
Context {R : Type} (ops : numops R).
Variable sl : tid -> tid -> bool.

(* what an appending step does to the tapes: the record produced on tape h sits at the position
   that was the tape's length (append order only -- no address, no hashing, nothing else), the
   tape grows by exactly one entry and every other tape is untouched *)
Definition appended (s s' : st R) (r : rcd R) (h : tid) : Prop :=
  r_idx r = length (tape_at s h) /\
  length (tape_at s' h) = S (length (tape_at s h)) /\
  (forall h', h' <> h -> tape_at s' h' = tape_at s h').

Lemma push_appended s h t' r :
  h < length (tapes s) -> r_idx r = length (tape_at s h) -> length t' = S (length (tape_at s h)) ->
  appended s (fst (push s (set_nth (tapes s) h t') r)) r h.
Proof.
  intros Hh Hi Hl. unfold appended, push, tape_at; simpl. split; [exact Hi|]. split.
  - rewrite nth_set_nth_eq by exact Hh. exact Hl.
  - intros h' N. apply nth_set_nth_neq. congruence.
Qed.

Lemma binop_positions f dx dy s x y s' r h :
  binop ops sl f dx dy s x y = (s', ERec r) -> r_hist r = Some h -> h < length (tapes s) ->
  appended s s' r h.
Proof.
  unfold binop. destruct (same_list sl (r_hist x) (r_hist y)); [|discriminate].
  destruct (r_hist x) as [hx|], (r_hist y) as [hy|]; unfold append_unary, append_binary, push;
    intros E Hh Hlt; inversion E; subst; simpl in Hh; inversion Hh; subst.
  - apply (push_appended s h _ _ Hlt); [reflexivity | rewrite app_length; simpl; lia].
  - apply (push_appended s h _ _ Hlt); [reflexivity | rewrite app_length; simpl; lia].
  - apply (push_appended s h _ _ Hlt); [reflexivity | rewrite app_length; simpl; lia].
Qed.

Lemma positions_append_order s i s' r h :
  machine_step ops sl s i = (s', ERec r) -> r_hist r = Some h -> h < length (tapes s) ->
  appended s s' r h.
Proof.
  destruct i as [|t v|v|a b|a b|rs|t|a]; simpl; intros E Hh Hlt.
  - discriminate.
  - destruct (Nat.ltb t (length (tapes s))); [|discriminate].
    unfold append_nullary, push in E. inversion E; subst. simpl in Hh. inversion Hh; subst.
    apply (push_appended s h _ _ Hlt); [reflexivity | rewrite app_length; simpl; lia].
  - unfold push in E. inversion E; subst. discriminate.
  - destruct (nth_error (regs s) a), (nth_error (regs s) b); try discriminate.
    eapply binop_positions; eassumption.
  - destruct (nth_error (regs s) a), (nth_error (regs s) b); try discriminate.
    eapply binop_positions; eassumption.
  - destruct (lookup_regs s rs) as [[|q rest]|]; try discriminate.
    destruct (collect sl (r_hist q) None rest) as [[f l]|]; discriminate.
  - destruct (Nat.ltb t (length (tapes s))); discriminate.
  - destruct (nth_error (regs s) a) as [x|]; [|discriminate].
    destruct (r_hist x); [|discriminate].
    destruct (derivatives ops (tape_at s t) (r_idx x)); discriminate.
Qed.
End Positions.
