(* The C09 / C13 theorems restated for every CONSTRUCTED source (Proofs/SrcWfP.v): the TensorRef /
   TensorMut contract hypotheses (good_view, src_total, the lens family P) are discharged by
   wf_contract / wf_lens, so nothing is assumed about the source beyond "its constructors
   returned Ok". *)
From Coq Require Import List ZArith NArith Bool Arith Lia Permutation.
From EasyML Require Import Base.Sx Model.Shape Model.Tensor Model.TSource Model.ShapeIter
  Model.Transform Proofs.ShapeP Proofs.C01P Proofs.OdometerP Proofs.C09P Proofs.C13P Proofs.C13bP
  Proofs.C13SymP Proofs.C09OwnedP Proofs.C13MutP Proofs.SrcWfP Proofs.SrcLensP.
Import ListNotations.
Open Scope N_scope.

Section Ctor.
Context {A : Type}.

Lemma wf_valid (s : tsrc A) : src_wf s -> valid_shape (src_shape s).
Proof. intros H. apply (wf_contract s H). Qed.

Lemma wf_total (s : tsrc A) : src_wf s -> src_total s.
Proof. intros H. apply (wf_good_view s H). Qed.

Lemma wf_access (s : tsrc A) dims tbl : src_wf s -> length dims = length (src_shape s) ->
  dm_new (names_of (src_shape s)) dims = Some tbl -> src_wf (TAccess s tbl).
Proof. intros H Hl Hn. split; [exact H|]. eauto. Qed.

(* every element the iterators hand out is present *)
Theorem ctor_iter_values (s : tsrc A) : constructed s ->
  exists vals, map (src_get s) (all_indexes (lens_of (src_shape s))) = map Some vals /\
               iter_values s = vals /\ length vals = N.to_nat (elements (src_shape s)).
Proof. intros H. apply total_vals, wf_total, constructed_wf. exact H. Qed.

(* reorder / transpose *)
Theorem ctor_reorder (s : tsrc A) dims : constructed s -> length dims = length (src_shape s) ->
  match dm_new (names_of (src_shape s)) dims with
  | Some tbl => exists t, reorder s dims = Ok t /\
                          materialises t (src_shape (TAccess s tbl)) (src_get (TAccess s tbl))
  | None => reorder s dims = Panic
  end.
Proof.
  intros Hc Hl. apply constructed_wf in Hc.
  destruct (dm_new (names_of (src_shape s)) dims) as [tbl|] eqn:E.
  - apply reorder_materialises; [exact E|]. apply wf_good_view. eapply wf_access; eauto.
  - apply reorder_rejects. exact E.
Qed.

Theorem ctor_transpose (s : tsrc A) dims : constructed s -> length dims = length (src_shape s) ->
  match dm_new (names_of (src_shape s)) dims with
  | Some tbl => exists t, transpose s dims = Ok t /\
                          materialises t (src_shape (TTranspose s tbl)) (src_get (TTranspose s tbl))
  | None => transpose s dims = Panic
  end.
Proof.
  intros Hc Hl. apply constructed_wf in Hc.
  destruct (dm_new (names_of (src_shape s)) dims) as [tbl|] eqn:E.
  - apply transpose_materialises; [exact E|]. apply wf_good_view. eapply wf_access; eauto.
  - apply reorder_rejects. exact E.
Qed.

(* the map family and elementwise *)
Theorem ctor_map {B} (f : A -> B) (s : tsrc A) : constructed s ->
  exists t, view_map f s = Ok t /\
            materialises t (src_shape s) (fun idx => option_map f (src_get s idx)).
Proof. intros H. apply view_map_materialises, constructed_good_view. exact H. Qed.

Theorem ctor_map_with_index {B} (f : list N -> A -> B) (s : tsrc A) : constructed s ->
  exists t, view_map_with_index f s = Ok t /\
            materialises t (src_shape s) (fun idx => option_map (f idx) (src_get s idx)).
Proof. intros H. apply view_map_with_index_materialises, constructed_good_view. exact H. Qed.

Theorem ctor_elementwise (f : A -> A -> A) (l r : tsrc A) : constructed l -> constructed r ->
  (src_shape l = src_shape r ->
   exists t, view_elementwise f l r = Ok t /\ materialises t (src_shape l) (zip_get f l r)) /\
  (src_shape l <> src_shape r -> view_elementwise f l r = Panic).
Proof. intros Hl Hr. apply view_elementwise_materialises; apply constructed_good_view; assumption. Qed.

Theorem ctor_elementwise_with_index (f : list N -> A -> A -> A) (l r : tsrc A) :
  constructed l -> constructed r -> src_shape l = src_shape r ->
  exists t, view_elementwise_with_index f l r = Ok t /\
            materialises t (src_shape l) (fun idx => zip_get (f idx) l r idx).
Proof.
  intros Hl Hr. apply view_elementwise_with_index_materialises; apply constructed_good_view; assumption.
Qed.

(* the in-place maps through the mutable iterators *)
Theorem ctor_map_mut_with_index (f : list N -> A -> A) (s : tsrc A) : constructed s ->
  let s' := view_map_mut_with_index f s in
  src_wf s' /\ src_shape s' = src_shape s /\
  forall x, in_range x (lens_of (src_shape s)) -> src_get s' x = option_map (f x) (src_get s x).
Proof.
  intros Hc. apply constructed_wf in Hc.
  apply (view_map_mut_with_index_spec f src_wf).
  - intros s0 idx v H0 Hr. apply wf_P_set; assumption.
  - intros s0 idx H0 Hr. apply wf_P_total; assumption.
  - exact Hc.
  - apply (wf_valid s Hc).
Qed.

(* the owning iterator *)
Theorem ctor_owned_moves_once (dflt : A) (s : tsrc A) k : constructed s ->
  let r := drive (ti_next_owned dflt) ti_len k (tensor_iter_from s) in
  fst r = map (fun j => oexpected s (N.of_nat j)) (seq 0 k) /\
  forall x, in_range x (lens_of (src_shape s)) ->
    src_get (ti_source (snd r)) x =
    if flat x (lens_of (src_shape s)) <? N.of_nat k then Some dflt else src_get s x.
Proof.
  intros Hc. apply constructed_wf in Hc.
  apply (owned_moves_once dflt src_wf).
  - intros s0 idx v H0 Hr. apply wf_P_set; assumption.
  - exact Hc.
  - apply (wf_valid s Hc).
Qed.

(* equality and similarity *)
Variable eqb : A -> A -> bool.
Hypothesis eqb_spec : forall x y, eqb x y = true <-> x = y.

Theorem ctor_equality_iff (l r : tsrc A) : constructed l -> constructed r ->
  (tensor_equality eqb l r = true <->
   src_shape l = src_shape r /\
   forall idx, in_range idx (lens_of (src_shape l)) -> src_get l idx = src_get r idx).
Proof.
  intros Hl Hr. apply (equality_iff eqb eqb_spec); apply wf_total, constructed_wf; assumption.
Qed.

Theorem ctor_similarity_sym (l r : tsrc A) : constructed l -> constructed r ->
  length (src_shape l) = length (src_shape r) ->
  tensor_similarity eqb l r = tensor_similarity eqb r l.
Proof.
  intros Hl Hr HD. apply constructed_wf in Hl. apply constructed_wf in Hr.
  apply (similarity_sym eqb eqb_spec); auto using wf_total.
  - apply (wf_valid l Hl).
  - apply (wf_valid r Hr).
Qed.

(* similar <-> the materialised reordering of r into l's name order equals l, element by element *)
Theorem ctor_similarity_iff (l r : tsrc A) : constructed l -> constructed r ->
  length (src_shape l) = length (src_shape r) ->
  (tensor_similarity eqb l r = true <->
   exists tbl, dm_new (names_of (src_shape r)) (names_of (src_shape l)) = Some tbl /\
     src_shape l = src_shape (TAccess r tbl) /\
     forall idx, in_range idx (lens_of (src_shape l)) ->
       src_get l idx = src_get r (map_dimensions_to_source tbl idx 0)).
Proof.
  intros Hl Hr HD. apply constructed_wf in Hl. apply constructed_wf in Hr.
  rewrite similarity_iff. split.
  - intros [tbl [Hn He]]. exists tbl. split; [exact Hn|].
    apply (equality_iff eqb eqb_spec l (TAccess r tbl)); auto using wf_total.
    apply wf_total. eapply (wf_access r (names_of (src_shape l))); eauto.
    unfold names_of. rewrite map_length. exact HD.
  - intros [tbl [Hn [Hs Hg]]]. exists tbl. split; [exact Hn|].
    apply (equality_iff eqb eqb_spec l (TAccess r tbl)); auto using wf_total.
    apply wf_total. eapply (wf_access r (names_of (src_shape l))); eauto.
    unfold names_of. rewrite map_length. exact HD.
Qed.

End Ctor.
