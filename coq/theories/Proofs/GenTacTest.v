(* Regression test of the shape-independent finisher of Proofs/GenTac.v (wave 5): definitions in
   the shape the translator emits for behaviour-preserving rewrites of the Rust source must be
   proved equal to the hand-written model by the finisher alone (`by fail`: no specific script),
   and the mutants M1 M2 M4 of notes/GEN.md (and a wrong operand in `map`) must NOT be. *)
From Coq Require Import List ZArith NArith Bool Arith Lia.
From EasyML Require Import Base.Sx Model.Shape Model.U64 Model.Fallible Gen.Arith.
From EasyML Require Import Proofs.GenTac.
Import ListNotations.
Open Scope N_scope.
(* harmless reshapes *)
Definition h_map (md : mode) (self : index_range) (index : N) : outcome (option N) :=
  match index <? (r_length self) with true => obind (u_add md (r_start self) index) (fun tmp1 => Ok (Some tmp1)) | false => Ok None end.
Lemma h_map_eq : forall md r i, h_map md r i = ir_map md r i.
Proof. gen_equiv h_map_eq by fail. Qed.
Definition h_mask (md : mode) (self : index_range) (index : N) : outcome N :=
  if negb ((r_start self) <=? index) then Ok index else Ok (sat_add (r_length self) index).
Lemma h_mask_eq : forall md r i, h_mask md r i = ir_mask r i.
Proof. gen_equiv h_mask_eq by fail. Qed.
Definition h_rev (md : mode) (indexes_d : N) (shape_d : (N * N)) (reversed_d : bool) : outcome N :=
  if negb reversed_d then Ok indexes_d else let length_ := snd shape_d in obind (u_sub md length_ 1) (fun tmp1 => let last_index := tmp1 in let index := indexes_d in if index <=? last_index then u_sub md last_index index else Ok index).
Lemma h_rev_eq : forall md i nm len,
  h_rev md i (nm, len) true = rev_index md len i /\
  h_rev md i (nm, len) false = Ok i.
Proof. gen_equiv h_rev_eq by fail. Qed.
Definition h_body (md : mode) (index : N) (indexes_d : N) (strides_d : N) (shape_d : (N * N)) : outcome (flow (option N) N) :=
  let n := indexes_d in if n <? (snd shape_d) then obind (u_mul md strides_d n) (fun tmp1 => obind (u_add md tmp1 index) (fun tmp2 => let index1 := tmp2 in Ok (Next index1))) else Ok (Return None).
Lemma h_body_eq : forall md acc i s nm l,
  h_body md acc i s (nm, l) =
  if l <=? i then Ok (Return None)
  else obind (u_mul md i s) (fun p => omap Next (u_add md acc p)).
Proof. gen_equiv h_body_eq by fail. Qed.
(* clip rewritten as in harmless/views/2 (min(length, max_index.saturating_sub(start)), no saturating
   add): equal to the model for every usize input, but NOT over all of N (start = 0, length and
   max_index above usize_max), so the unconditional lemma is false and stays rejected; with the
   bound on max_index the finisher proves it *)
Definition h_clip (md : mode) (self : index_range) (max_index : N) : outcome index_range :=
  let available := sat_sub max_index (r_start self) in let self1 := mkRange (r_start self) (N.min (r_length self) available) in Ok self1.
Lemma h_clip_eq : forall md r mx, h_clip md r mx = ir_clip r mx.
Proof. Fail gen_equiv h_clip_eq by fail. Abort.
Lemma h_clip_bounded_eq : forall md r mx, mx <= usize_max -> h_clip md r mx = ir_clip r mx.
Proof. gen_equiv h_clip_bounded_eq by fail. Qed.
(* mutants *)
Definition m1 (md : mode) (self : index_range) (index : N) : outcome N :=
  if index <=? (r_start self) then Ok index else Ok (sat_add index (r_length self)).
Lemma m1_eq : forall md r i, m1 md r i = ir_mask r i.
Proof. Fail gen_equiv m1_eq by fail. Abort.
Definition m2 (md : mode) (self : index_range) (max_index : N) : outcome index_range :=
  obind (u_add md (r_start self) (r_length self)) (fun end_ => let end_1 := N.min end_ max_index in let length_ := sat_sub end_1 (r_start self) in let self1 := mkRange (r_start self) length_ in Ok self1).
Lemma m2_eq : forall md r mx, m2 md r mx = ir_clip r mx.
Proof. Fail gen_equiv m2_eq by fail. Abort.
Definition m4 (md : mode) (indexes_d : N) (shape_d : (N * N)) (reversed_d : bool) : outcome N :=
  if reversed_d then let length_ := snd shape_d in obind (u_sub md length_ 1) (fun tmp1 => let last_index := tmp1 in let index := indexes_d in if last_index <=? index then Ok index else u_sub md last_index index) else Ok indexes_d.
Lemma m4_eq : forall md i nm len,
  m4 md i (nm, len) true = rev_index md len i /\
  m4 md i (nm, len) false = Ok i.
Proof. Fail gen_equiv m4_eq by fail. Abort.
Definition m5 (md : mode) (self : index_range) (index : N) : outcome (option N) :=
  if index <? (r_length self) then obind (u_add md index (r_length self)) (fun tmp1 => Ok (Some tmp1)) else Ok None.
Lemma m5_eq : forall md r i, m5 md r i = ir_map md r i.
Proof. Fail gen_equiv m5_eq by fail. Abort.
