(* C16: record-container collection (from_iter / from_iters) is total — the `history.unwrap()`
   is never reached with None — and its result is characterised exactly: Ok iff the stream is
   non-empty, has one history and matches the shape; the error values carry the first and the
   LAST differing history, the requested shape and the stream length. *)
From Coq Require Import List ZArith NArith Bool Arith Lia.
From EasyML Require Import Base.Sx Model.Shape Model.U64 Model.RecordCollect Proofs.ShapeP.
Import ListNotations.
Open Scope N_scope.

(* the specification: the last history of the stream that differs from the first one *)
Fixpoint last_differing (f : N) (l : list N) : option N :=
  match l with
  | [] => None
  | h :: r => match last_differing f r with
              | Some x => Some x
              | None => if f =? h then None else Some h
              end
  end.

Lemma fold_collect_from_some f : forall l e,
  fold_left collect_step l (Some f, e) =
  (Some f, match last_differing f l with Some x => Some (f, x) | None => e end).
Proof.
  induction l as [|h l IH]; intros e; [reflexivity|].
  cbn [fold_left last_differing]. unfold collect_step at 2. cbn [fst snd]. unfold same_history.
  destruct (N.eqb_spec f h) as [->|Hne].
  - rewrite IH. destruct (last_differing h l); reflexivity.
  - rewrite IH. destruct (last_differing f l); reflexivity.
Qed.

Lemma fold_collect f l :
  fold_left collect_step (f :: l) (None, None) =
  (Some f, option_map (pair f) (last_differing f l)).
Proof.
  cbn [fold_left]. unfold collect_step at 2. cbn [fst snd]. rewrite fold_collect_from_some.
  destruct (last_differing f l); reflexivity.
Qed.

Lemma last_differing_None f l : last_differing f l = None <-> Forall (eq f) l.
Proof.
  induction l as [|h l IH]; cbn [last_differing]; [split; auto|].
  destruct (last_differing f l) as [x|].
  - split; [discriminate|]. intros H. inversion H; subst. apply IH in H3. discriminate.
  - destruct (N.eqb_spec f h) as [->|Hne].
    + split; [|reflexivity]. intros _. constructor; [reflexivity|]. apply IH. reflexivity.
    + split; [discriminate|]. intros H. inversion H; subst. contradiction.
Qed.

Lemma last_differing_Some f l x : last_differing f l = Some x -> In x l /\ x <> f.
Proof.
  induction l as [|h l IH]; cbn [last_differing]; [discriminate|].
  destruct (last_differing f l) as [y|].
  - intros [= <-]. destruct (IH eq_refl). split; [right|]; assumption.
  - destruct (N.eqb_spec f h); [discriminate|]. intros [= <-]. split; [left; reflexivity|congruence].
Qed.

(* collect_into_components, completely: *)
Theorem collect_components_spec tags :
  collect_components tags =
  match tags with
  | [] => Err e_empty
  | f :: l => match last_differing f l with
              | Some x => Err (e_inconsistent f x)
              | None => Ok f
              end
  end.
Proof.
  destruct tags as [|f l]; [reflexivity|].
  unfold collect_components. rewrite fold_collect. cbn [fst snd].
  destruct (last_differing f l); cbn [option_map]; [reflexivity|].
  replace (N.of_nat (length (f :: l)) =? 0) with false; [reflexivity|].
  symmetry. apply N.eqb_neq. cbn [length]. lia.
Qed.

Theorem collect_components_total tags : collect_components tags <> Panic.
Proof.
  rewrite collect_components_spec. destruct tags as [|f l]; [discriminate|].
  destruct (last_differing f l); discriminate.
Qed.

Theorem collect_components_ok_iff tags h :
  collect_components tags = Ok h <-> tags <> [] /\ Forall (eq h) tags.
Proof.
  rewrite collect_components_spec. destruct tags as [|f l].
  - split; [discriminate|]. intros [H _]. contradiction.
  - destruct (last_differing f l) as [x|] eqn:E.
    + split; [discriminate|]. intros [_ H]. inversion H; subst.
      apply last_differing_None in H3. congruence.
    + apply last_differing_None in E. split.
      * intros [= <-]. split; [discriminate|]. constructor; [reflexivity|exact E].
      * intros [_ H]. inversion H; subst. reflexivity.
Qed.

Theorem collect_components_err tags e :
  collect_components tags = Err e ->
  (tags = [] /\ e = e_empty) \/
  (exists f l x, tags = f :: l /\ e = e_inconsistent f x /\ In x l /\ x <> f).
Proof.
  rewrite collect_components_spec. destruct tags as [|f l].
  - intros [= <-]. left. split; reflexivity.
  - destruct (last_differing f l) as [x|] eqn:E; [|discriminate].
    intros [= <-]. right. exists f, l, x. destruct (last_differing_Some _ _ _ E).
    repeat split; assumption.
Qed.

(* RecordTensor::from_iter *)
Theorem record_tensor_from_iter_total sh tags : record_tensor_from_iter sh tags <> Panic.
Proof.
  unfold record_tensor_from_iter. pose proof (collect_components_total tags) as T.
  destruct (collect_components tags); cbn [obind]; try discriminate; [|contradiction].
  destruct (validate_dimensions _ _); discriminate.
Qed.

Theorem record_tensor_from_iter_ok_iff sh tags r :
  record_tensor_from_iter sh tags = Ok r <->
  tags <> [] /\ Forall (eq (snd r)) tags /\ fst r = sh /\
  valid_shape sh /\ elements sh = N.of_nat (length tags) /\ elements sh <= usize_max.
Proof.
  unfold record_tensor_from_iter. destruct r as [sh' h]. cbn [fst snd].
  destruct (collect_components tags) as [h0| |] eqn:C; cbn [obind].
  - pose proof (validate_dimensions_spec sh (N.of_nat (length tags))) as V.
    apply collect_components_ok_iff in C. destruct C as [Hne Hall].
    destruct (validate_dimensions _ _).
    + split.
      * intros [= <- <-]. destruct V as [V _]. destruct (V eq_refl) as [Hv [He Hb]].
        split; [assumption|]. split; [assumption|]. split; [reflexivity|]. auto.
      * intros [_ [Hall' [-> _]]]. f_equal. f_equal.
        destruct tags as [|t tags]; [contradiction|]. inversion Hall; inversion Hall'; congruence.
    + split; [discriminate|]. intros [_ [_ [_ [Hv [He Hb]]]]]. destruct V as [_ V].
      discriminate V. auto.
  - split; [discriminate|]. intros [Hne [Hall _]].
    assert (collect_components tags = Ok h) as C' by (apply collect_components_ok_iff; split; assumption).
    congruence.
  - exfalso. exact (collect_components_total tags C).
Qed.

(* the error of from_iter names what is wrong: the histories, or the requested shape and the
   number of records *)
Theorem record_tensor_from_iter_err sh tags e :
  record_tensor_from_iter sh tags = Err e ->
  (tags = [] /\ e = e_empty) \/
  (exists f l x, tags = f :: l /\ e = e_inconsistent f x /\ In x l /\ x <> f) \/
  (e = e_shape_len sh (N.of_nat (length tags)) /\
   ~ (valid_shape sh /\ elements sh = N.of_nat (length tags) /\ elements sh <= usize_max)).
Proof.
  unfold record_tensor_from_iter.
  destruct (collect_components tags) as [h0| |] eqn:C; cbn [obind].
  - pose proof (validate_dimensions_spec sh (N.of_nat (length tags))) as V.
    destruct (validate_dimensions _ _); [discriminate|]. intros [= <-]. right. right.
    split; [reflexivity|]. intros H. apply V in H. discriminate.
  - intros [= <-]. destruct (collect_components_err _ _ C) as [H|H]; [left|right; left]; exact H.
  - discriminate.
Qed.

(* RecordMatrix::from_iter: the size product is checked (checked_mul), never multiplied *)
Theorem record_matrix_from_iter_total rows cols tags : record_matrix_from_iter rows cols tags <> Panic.
Proof.
  unfold record_matrix_from_iter. pose proof (collect_components_total tags) as T.
  destruct (collect_components tags); cbn [obind]; try discriminate; [|contradiction].
  destruct (checked_mul rows cols); [destruct (_ =? _)|]; discriminate.
Qed.

Theorem record_matrix_from_iter_ok_iff rows cols tags r :
  record_matrix_from_iter rows cols tags = Ok r <->
  tags <> [] /\ Forall (eq (snd r)) tags /\ fst r = [(0%nat, rows); (1%nat, cols)] /\
  rows * cols = N.of_nat (length tags) /\ rows * cols <= usize_max.
Proof.
  unfold record_matrix_from_iter, checked_mul. destruct r as [sh' h]. cbn [fst snd].
  destruct (collect_components tags) as [h0| |] eqn:C; cbn [obind].
  - apply collect_components_ok_iff in C. destruct C as [Hne Hall].
    destruct (N.leb_spec (rows * cols) usize_max) as [Hb|Hb].
    + destruct (N.eqb_spec (rows * cols) (N.of_nat (length tags))) as [E|E].
      * split.
        -- intros [= <- <-]. auto.
        -- intros [_ [Hall' [-> _]]]. f_equal. f_equal.
           destruct tags as [|t tags]; [contradiction|]. inversion Hall; inversion Hall'; congruence.
      * split; [discriminate|]. intros [_ [_ [_ [H _]]]]. contradiction.
    + split; [discriminate|]. intros [_ [_ [_ [_ H]]]]. lia.
  - split; [discriminate|]. intros [Hne [Hall _]].
    assert (collect_components tags = Ok h) as C' by (apply collect_components_ok_iff; split; assumption).
    congruence.
  - exfalso. exact (collect_components_total tags C).
Qed.

Theorem record_matrix_from_iter_err rows cols tags e :
  record_matrix_from_iter rows cols tags = Err e ->
  (tags = [] /\ e = e_empty) \/
  (exists f l x, tags = f :: l /\ e = e_inconsistent f x /\ In x l /\ x <> f) \/
  (e = e_shape_len [(0%nat, rows); (1%nat, cols)] (N.of_nat (length tags)) /\
   ~ (rows * cols = N.of_nat (length tags) /\ rows * cols <= usize_max)).
Proof.
  unfold record_matrix_from_iter, checked_mul.
  destruct (collect_components tags) as [h0| |] eqn:C; cbn [obind].
  - destruct (N.leb_spec (rows * cols) usize_max) as [Hb|Hb].
    + destruct (N.eqb_spec (rows * cols) (N.of_nat (length tags))) as [E|E]; [discriminate|].
      intros [= <-]. right. right. split; [reflexivity|]. intros [H _]. contradiction.
    + intros [= <-]. right. right. split; [reflexivity|]. intros [_ H]. lia.
  - intros [= <-]. destruct (collect_components_err _ _ C) as [H|H]; [left|right; left]; exact H.
  - discriminate.
Qed.

(* from_iters: every stream is decided on its own *)
Theorem from_iters_pointwise sh rows cols streams :
  record_tensor_from_iters sh streams = map (record_tensor_from_iter sh) streams /\
  record_matrix_from_iters rows cols streams = map (record_matrix_from_iter rows cols) streams /\
  Forall (fun o => o <> Panic) (record_tensor_from_iters sh streams) /\
  Forall (fun o => o <> Panic) (record_matrix_from_iters rows cols streams).
Proof.
  repeat split; try reflexivity; apply Forall_forall; intros o Ho; apply in_map_iff in Ho;
    destruct Ho as [t [<- _]];
    [apply record_tensor_from_iter_total|apply record_matrix_from_iter_total].
Qed.
