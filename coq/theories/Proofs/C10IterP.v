(* C10, iterators: the 21 `unsafe { .. }` blocks of the crate (4 in src/tensors/indexing.rs, 17 in
   src/matrices/iterators.rs) are the only places where SAFE code hands an index to an unchecked
   accessor.  This file shows, over the C09 transcriptions, that every index they hand over lies
   inside the accessed source's shape (for every source, every iteration prefix, exhausted and
   empty iterators included), and that for every source term built by the constructors the index
   is then routed, adaptor by adaptor, to an in-shape index of the tensor at the bottom whose
   storage offset is inside the stored data. *)
From Coq Require Import List ZArith NArith Bool Arith Lia.
From EasyML Require Import Base.Sx Model.Shape Model.Tensor Model.TSource Model.ShapeIter
  Model.MatrixIter Model.Transform Model.U64
  Proofs.ShapeP Proofs.C01P Proofs.OdometerP Proofs.C09P Proofs.C09MatOwnedP Proofs.C13P
  Proofs.SrcWfP Proofs.C10P.
Import ListNotations.
Open Scope N_scope.

Lemma Forall_firstn' {X} (P : X -> Prop) (l : list X) k : Forall P l -> Forall P (firstn k l).
Proof.
  intros H. rewrite <- (firstn_skipn k l) in H. apply Forall_app in H. tauto.
Qed.

Lemma Forall_somes_map {J X} (P : X -> Prop) (g : J -> option X) (l : list J) :
  (forall j x, In j l -> g j = Some x -> P x) -> Forall P (somes (map g l)).
Proof.
  induction l as [|j l IH]; intros H; cbn [map somes]; [constructor|].
  destruct (g j) as [x|] eqn:E.
  - constructor; [eapply H; [left; reflexivity|exact E]|]. apply IH. intros; eapply H; [right|]; eassumption.
  - apply IH. intros; eapply H; [right|]; eassumption.
Qed.

Section TensorIterPlaces.
Context {A : Type}.

(* TensorIterator / TensorReferenceIterator / TensorReferenceMutIterator (indexing.rs:919, 1101,
   1219): every index passed to get_reference_unchecked(_mut) is inside source.view_shape() *)
Theorem tensor_iter_places_in_shape (s : tsrc A) k :
  Forall (fun idx => in_range idx (lens_of (src_shape s)))
         (map fst (somes (map fst (fst (drive ti_next ti_len k (tensor_iter_from s)))))).
Proof.
  unfold tensor_iter_from. rewrite ti_drive, map_map. cbn [fst].
  assert (E : forall l : list (option (list N) * N),
            map fst (somes (map (fun o => option_map (fun idx => (idx, src_get s idx)) (fst o)) l))
            = somes (map fst l)).
  { induction l as [|[[x|] n] l IH]; cbn [map somes option_map fst]; [reflexivity| |exact IH].
    f_equal. exact IH. }
  rewrite E. fold (outs k (shape_iter_from (src_shape s))). rewrite shape_iter_places.
  apply Forall_firstn', all_indexes_in_range.
Qed.

(* TensorOwnedIterator (indexing.rs:1385) *)
Theorem tensor_owned_iter_places_in_shape dflt (s : tsrc A) k :
  Forall (fun idx => in_range idx (lens_of (src_shape s)))
         (map fst (somes (map fst (fst (drive (ti_next_owned dflt) ti_len k (tensor_iter_from s)))))).
Proof.
  unfold tensor_iter_from.
  pose proof (ti_owned_places dflt k (shape_iter_from (src_shape s)) s) as P.
  assert (E : forall l : list (option (list N * option A) * N),
            map fst (somes (map fst l)) = somes (map fst (map (fun o => (option_map fst (fst o), snd o)) l))).
  { induction l as [|[[x|] n] l IH]; cbn [map somes option_map fst]; [reflexivity| |exact IH].
    f_equal. exact IH. }
  rewrite E, P. rewrite shape_iter_places. apply Forall_firstn', all_indexes_in_range.
Qed.

(* ---- routing an index through the adaptors down to the tensor at the bottom ---- *)
Fixpoint src_route (s : tsrc A) (idx : list N) : option (list N) :=
  match s with
  | TBase _ => Some idx
  | TRev s' rev => src_route s' (reverse_indexes idx (src_shape s') rev)
  | TRange s' rg =>
      match map_indexes_by_range idx rg with
      | Some m => src_route s' m
      | None => None
      end
  | TAccess s' tbl | TTranspose s' tbl => src_route s' (map_dimensions_to_source tbl idx 0)
  | TMask s' mk => src_route s' (map_indexes_by_mask idx mk)
  | TRename s' _ => src_route s' idx
  end.

Lemma src_get_route : forall (s : tsrc A) idx,
  src_get s idx = match src_route s idx with
                  | Some b => t_get (src_base s) b
                  | None => None
                  end.
Proof.
  induction s as [t|s IH rev|s IH rg|s IH tbl|s IH tbl|s IH mk|s IH names]; intros idx;
    cbn [src_get src_route src_base]; try apply IH; [reflexivity|].
  destruct (map_indexes_by_range idx rg); [apply IH|reflexivity].
Qed.

Lemma src_wf_base : forall s : tsrc A, src_wf s ->
  tensor_inv (src_base s) /\ elements (t_shape (src_base s)) <= usize_max.
Proof.
  induction s as [t|s IH rev|s IH rg|s IH tbl|s IH tbl|s IH mk|s IH names]; cbn [src_wf src_base];
    intros H; try (apply IH; tauto). exact H.
Qed.

(* for every source the adaptor constructors can build: an index inside the view's shape is
   routed to an index inside the shape of the tensor at the bottom, and the storage offset
   computed for it is inside the stored data — the fact `unwrap_unchecked` + `get_unchecked` in
   Tensor::get_reference_unchecked(_mut) rely on *)
Theorem constructed_route_in_bounds (s : tsrc A) idx : constructed s ->
  in_range idx (lens_of (src_shape s)) ->
  exists b p x, src_route s idx = Some b /\
    in_range b (lens_of (t_shape (src_base s))) /\
    get_index_direct b (t_strides (src_base s)) (t_shape (src_base s)) = Some p /\
    (N.to_nat p < length (t_data (src_base s)))%nat /\
    nth_error (t_data (src_base s)) (N.to_nat p) = Some x /\ src_get s idx = Some x.
Proof.
  intros Hc Hr. pose proof (constructed_wf s Hc) as Hw.
  destruct (wf_contract s Hw) as [_ [_ Hget]].
  assert (Hl : length idx = length (src_shape s)).
  { apply in_range_length in Hr. unfold lens_of in Hr. rewrite map_length in Hr. exact Hr. }
  destruct (proj1 (Hget idx Hl) Hr) as [x Hx].
  pose proof (src_get_route s idx) as Hroute. rewrite Hx in Hroute.
  destruct (src_route s idx) as [b|]; [|discriminate].
  destruct (src_wf_base s Hw) as [Hinv Hb].
  unfold t_get in Hroute.
  destruct (get_index_direct b (t_strides (src_base s)) (t_shape (src_base s))) as [p|] eqn:Ep; [|discriminate].
  assert (Hlt : (N.to_nat p < length (t_data (src_base s)))%nat).
  { apply nth_error_Some. rewrite <- Hroute. discriminate. }
  assert (Hin : in_range b (lens_of (t_shape (src_base s)))).
  { destruct Hinv as [_ [Hst _]]. rewrite Hst in Ep.
    destruct (Nat.eq_dec (length b) (length (t_shape (src_base s)))) as [Hlb|Hlb].
    - rewrite get_index_direct_spec in Ep by exact Hlb.
      destruct (in_range_b b (lens_of (t_shape (src_base s)))) eqn:E; [|discriminate].
      apply in_range_b_spec. exact E.
    - exfalso. unfold get_index_direct in Ep. rewrite gid_bad_length in Ep; [discriminate|].
      unfold lens_of. rewrite map_length. exact Hlb. }
  exists b, p, x. repeat split; auto.
Qed.

(* so: every unchecked access issued by a tensor iterator over a constructed source finds an
   element (never an out-of-bounds access), at every prefix *)
Corollary constructed_iter_accesses_present (s : tsrc A) k : constructed s ->
  Forall (fun item : list N * option A => exists x, snd item = Some x)
         (somes (map fst (fst (drive ti_next ti_len k (tensor_iter_from s))))).
Proof.
  intros Hc. pose proof (tensor_iter_places_in_shape s k) as F.
  unfold tensor_iter_from in *. rewrite ti_drive in *. rewrite map_map in *. cbn [fst] in *.
  induction (outs k (shape_iter_from (src_shape s))) as [|[[idx|] n] l IH]; cbn [map somes option_map fst] in *;
    [constructor| |apply IH; exact F].
  inversion F as [|? ? Hidx F']; subst. constructor; [|apply IH; exact F'].
  cbn [snd fst] in *. destruct (constructed_route_in_bounds s idx Hc Hidx) as [b [p [x [_ [_ [_ [_ [_ Hx]]]]]]]].
  eauto.
Qed.

End TensorIterPlaces.

(* ---- matrix iterators (iterators.rs: 17 unsafe blocks) ---- *)
Ltac Zify.zify_post_hook ::= Z.div_mod_to_equations.

Lemma place_in_size rm rows cols q : q < rows * cols ->
  fst (mi_place rm rows cols q) < rows /\ snd (mi_place rm rows cols q) < cols.
Proof.
  intros H. unfold mi_place. destruct rm; cbn [fst snd].
  - assert (cols <> 0) by nia. split; [apply N.div_lt_upper_bound; lia|apply N.mod_lt; lia].
  - assert (rows <> 0) by nia. split; [apply N.mod_lt; lia|apply N.div_lt_upper_bound; lia].
Qed.

Section MatrixIterPlaces.
Context {A : Type}.

Definition in_size (s : msrc A) (p : N * N) : Prop := fst p < ms_rows s /\ snd p < ms_cols s.

(* ColumnMajor / RowMajor {,Reference,ReferenceMut}Iterator (lines 431 607 892 1011 1263 1396):
   every (row, column) passed to get_reference_unchecked(_mut) is inside the source's size; an
   empty source (0xN, Nx0) issues no access at all *)
Theorem major_iter_places_in_size rm (s : msrc A) k :
  Forall (in_size s) (map fst (somes (map fst (fst (drive mi_next mi_len k (major_iter_from rm s)))))).
Proof.
  destruct (major_iter_spec rm s k) as [-> _]. rewrite map_map.
  set (total := ms_rows s * ms_cols s).
  assert (G : forall l : list nat,
    Forall (in_size s)
      (map fst (somes (map (fun j => fst (cexpected total
          (fun q => let p := mi_place rm (ms_rows s) (ms_cols s) q in (p, ms_get s (fst p) (snd p)))
          (N.of_nat j))) l)))).
  { induction l as [|j l IH]; cbn [map somes]; [constructor|].
    unfold cexpected at 1. destruct (N.ltb_spec (N.of_nat j) total) as [Hlt|]; cbn [fst somes map].
    - constructor; [|exact IH]. cbn [fst]. apply place_in_size. exact Hlt.
    - exact IH. }
  apply G.
Qed.

(* Column / Row / Diagonal {,Reference,ReferenceMut}Iterator (lines 186 274 714 798 1101 1167
   1846 1940 2033): the constructor's assertion fixes the column / row inside the size, the range
   runs over the other coordinate *)
Theorem column_iter_places_in_size (s : msrc A) column it k : column_iter_from s column = Ok it ->
  Forall (in_size s) (map fst (somes (map fst (fst (drive li_next li_len k it))))).
Proof.
  unfold column_iter_from, index_is_valid.
  destruct (N.ltb_spec 0 (ms_rows s)); destruct (N.ltb_spec column (ms_cols s)); cbn [andb]; try discriminate.
  intros [= <-]. destruct (line_iter_spec LColumn column (ms_rows s) s k) as [-> _]. rewrite map_map.
  generalize (seq 0 k). induction l as [|j l IH]; cbn [map somes]; [constructor|].
  unfold cexpected at 1. destruct (N.ltb_spec (N.of_nat j) (ms_rows s)); cbn [fst somes map]; [|exact IH].
  constructor; [|exact IH]. split; cbn; assumption.
Qed.

Theorem row_iter_places_in_size (s : msrc A) row it k : row_iter_from s row = Ok it ->
  Forall (in_size s) (map fst (somes (map fst (fst (drive li_next li_len k it))))).
Proof.
  unfold row_iter_from, index_is_valid.
  destruct (N.ltb_spec row (ms_rows s)); destruct (N.ltb_spec 0 (ms_cols s)); cbn [andb]; try discriminate.
  intros [= <-]. destruct (line_iter_spec LRow row (ms_cols s) s k) as [-> _]. rewrite map_map.
  generalize (seq 0 k). induction l as [|j l IH]; cbn [map somes]; [constructor|].
  unfold cexpected at 1. destruct (N.ltb_spec (N.of_nat j) (ms_cols s)); cbn [fst somes map]; [|exact IH].
  constructor; [|exact IH]. split; cbn; assumption.
Qed.

Theorem diagonal_iter_places_in_size (s : msrc A) k :
  Forall (in_size s) (map fst (somes (map fst (fst (drive li_next li_len k (diagonal_iter_from s)))))).
Proof.
  unfold diagonal_iter_from.
  destruct (line_iter_spec LDiagonal 0 (N.min (ms_rows s) (ms_cols s)) s k) as [-> _]. rewrite map_map.
  generalize (seq 0 k). induction l as [|j l IH]; cbn [map somes]; [constructor|].
  unfold cexpected at 1.
  destruct (N.ltb_spec (N.of_nat j) (N.min (ms_rows s) (ms_cols s))); cbn [fst somes map]; [|exact IH].
  constructor; [|exact IH]. split; cbn; lia.
Qed.

(* ColumnMajorOwnedIterator / RowMajorOwnedIterator (lines 1573 1744): the owned iterators step
   through the same places as the borrowing ones, whatever they write into the source *)
Lemma mi_step_set_source (it : major_iter A) s' :
  mi_step (mi_set_source it s') = (fst (mi_step it), mi_set_source (snd (mi_step it)) s').
Proof.
  unfold mi_step, mi_set_source. cbn.
  destruct ((if mi_row_major it then row_major_step else column_major_step)
              (mi_finished it) (mi_rows it) (mi_columns it) (mi_row_counter it) (mi_column_counter it))
    as [p [[fin rc] cc]]. reflexivity.
Qed.

Lemma mi_len_set_source (it : major_iter A) s' : mi_len (mi_set_source it s') = mi_len it.
Proof. reflexivity. Qed.

Lemma mi_owned_places dflt : forall k (it : major_iter A) s',
  map (fun o => option_map fst (fst o)) (fst (drive (mi_next_owned dflt) mi_len k (mi_set_source it s'))) =
  map (fun o => option_map fst (fst o)) (fst (drive mi_next mi_len k it)).
Proof.
  induction k as [|k IH]; intros it s'; [reflexivity|].
  rewrite !drive_S. cbn [map fst].
  unfold mi_next_owned at 1 3, mi_next at 1 3. rewrite mi_step_set_source.
  destruct (mi_step it) as [[p|] it'] eqn:E; cbn [fst snd option_map].
  - f_equal.
    replace (mi_set_source (mi_set_source it' s') _) with (mi_set_source it' (match ms_set (mi_source (mi_set_source it s')) (fst p) (snd p) dflt with Some x => x | None => mi_source (mi_set_source it s') end)) by reflexivity.
    apply IH.
  - f_equal. apply IH.
Qed.

Theorem major_owned_iter_places_in_size dflt rm (s : msrc A) k :
  Forall (in_size s)
         (map fst (somes (map fst (fst (drive (mi_next_owned dflt) mi_len k (major_iter_from rm s)))))).
Proof.
  pose proof (major_iter_places_in_size rm s k) as F.
  assert (E : forall l : list (option ((N * N) * option A) * N),
            map fst (somes (map fst l)) = somes (map (fun o => option_map fst (fst o)) l)).
  { induction l as [|[[x|] n] l IH]; cbn [map somes option_map fst]; [reflexivity| |exact IH].
    f_equal. exact IH. }
  rewrite E in *.
  replace (major_iter_from rm s) with (mi_set_source (major_iter_from rm s) s) at 1 by reflexivity.
  rewrite mi_owned_places. exact F.
Qed.

(* and inside the size of a well-formed matrix source (Matrix, MatrixRange incl. empty,
   MatrixReverse) every element exists: the access is never out of bounds *)
Theorem wf_matrix_place_present (s : msrc A) p : msrc_wf s -> in_size s p ->
  exists x, ms_get s (fst p) (snd p) = Some x.
Proof. intros Hw [Hr Hc]. apply msrc_total; assumption. Qed.

End MatrixIterPlaces.
