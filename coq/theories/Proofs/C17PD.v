(* C17 x C08 over a real closed field (mathcomp / ssreflect style): with the dictionary of a real
   closed field F (sqrt = Num.sqrt, the field's own order as comparisons) the multivariate draw
   is ABSENT for every symmetric covariance that is not positive definite, and — names distinct,
   at least one sample, enough source numbers — PRESENT exactly for the positive definite ones.
   Composition of C08's completeness / rejection theorems (Proofs/C08P6.v, C08P9.v) with
   Proofs/C17Chol.cholesky_same and Proofs/C17P.draw_tensor_samples_spec.
   The definitions below give mathcomp-free names to the notions the statement needs, so that
   Properties/C17.v (stdlib style) can state the theorems without importing mathcomp. *)
From Coq Require Import PeanoNat List NArith.
From EasyML Require Import Base.Sx Model.Num Model.LinAlg Model.Decomp Proofs.C08P1 Proofs.C08P5.
From EasyML Require Model.Gaussian Proofs.C17P Proofs.C17Chol.
From mathcomp Require Import all_ssreflect all_algebra.
From EasyML Require Import Proofs.C08P4 Proofs.C08P6 Proofs.C08P9.
Set Implicit Arguments. Unset Strict Implicit. Unset Printing Implicit Defensive.
Import GRing.Theory Num.Theory.
Local Open Scope ring_scope.

(* any real closed field (the real numbers, the real algebraic numbers, ...) and its carrier *)
Definition real_closed_field : Type := rcfType.
Definition carrier (F : real_closed_field) : Type := F.

Section RCF.
Variable F : real_closed_field.

(* the numops dictionary of F: field operations, F's order, sqrt = Num.sqrt (C08P4.rops) *)
Definition rcf_ops : numops (carrier F) := rops (@Num.sqrt F).
(* cov[i][j] = cov[j][i] for i, j < rows *)
Definition cov_symmetric (a : list (list (carrier F))) : Prop := C08P1.symmetric rcf_ops a (mrows a).
(* 0 < x^T cov x for every non-zero vector x (C08P4.posdef on the matrix of the list of rows) *)
Definition cov_posdef (a : list (list (carrier F))) : Prop :=
  posdef (mxo (@Num.sqrt F) (mrows a) (mrows a) a).

Theorem mv_draw_absent_not_posdef (mean : list (carrier F)) cov (src : list (carrier F))
    (k : N) (ns nf : nat) :
  cov_symmetric cov -> ~ cov_posdef cov ->
  Gaussian.draw_tensor_samples rcf_ops mean cov src k ns nf = (None, src).
Proof.
  move=> Hs Hn. rewrite /Gaussian.draw_tensor_samples. case: (Nat.eqb ns nf) => //.
  by rewrite C17Chol.cholesky_same (cholesky_rejects_not_posdef Hs Hn).
Qed.

Theorem mv_draw_present_iff_posdef (mean : list (carrier F)) cov (src : list (carrier F))
    (k ns nf : nat) :
  mrows cov = mcols cov -> cov_symmetric cov -> ns <> nf -> (0 < k)%coq_nat ->
  (k * C17P.width (length mean) <= length src)%coq_nat ->
  ((exists t rest, Gaussian.draw_tensor_samples rcf_ops mean cov src (N.of_nat k) ns nf = (Some t, rest))
   <-> cov_posdef cov).
Proof.
  move=> Hsq Hs Hne Hk Hlen. rewrite C17P.draw_tensor_samples_spec C17Chol.cholesky_same.
  have -> : Nat.eqb ns nf = false by apply/Nat.eqb_neq.
  have -> : Nat.eqb k 0 = false by apply/Nat.eqb_neq => E; rewrite E in Hk; exact: (Nat.lt_irrefl _ Hk).
  have -> : Nat.leb (k * C17P.width (length mean)) (length src) = true by apply/Nat.leb_le.
  split.
  - case=> t [rest H]. apply/(cholesky_present_iff_posdef Hsq Hs).
    case E: (cholesky (rops (@Num.sqrt F)) cov) H => [L|] // _. by exists L.
  - move/(cholesky_present_iff_posdef Hsq Hs) => [L HL]. rewrite /rcf_ops HL. by eexists; eexists.
Qed.

End RCF.
