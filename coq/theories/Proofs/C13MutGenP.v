(* C13, third extension wave: the MUTABLE TensorView methods over any TensorMut source
   (Model/TransformMutG.v), in particular over every constructed view of the C02 algebra.
   1. The sequential write loops of map_mut / map_mut_with_index through the generic mutable
      iterator leave f(index, element) at every index of the view shape, for any source family
      whose in-range writes behave like a lens (`gm_map_mut_with_index_spec`; map_mut is the
      with-index loop with a closure ignoring the index: `gm_for_each_is_wi`).
   2. Every constructed C02 view over covering leaf storage with distinct leaf objects is such a
      family (C02's injectivity / write exactness, through Proofs/C09ViewsP.v `cview_lens`), and
      the loop changes EXACTLY the designated stored elements: a stored element that no index of
      the view shape resolves to is untouched (`cview_map_mut_with_index`).  The view afterwards
      reads, at every index, what the allocating map_with_index returned (`cview_map_mut_eq_map`),
      and writing that tensor back through the view gives the same store (`cview_map_mut_is_write_back`).
   3. first / scalar / into_scalar / elementwise_with_index over any source meeting the contract. *)
From Coq Require Import List ZArith NArith Bool Arith Lia.
From EasyML Require Import Base.Sx Model.Shape Model.Tensor Model.TSource Model.ShapeIter
  Model.Transform Model.TransformG Model.IterG Model.TransformMutG
  Proofs.ShapeP Proofs.C01P Proofs.OdometerP Proofs.C09P Proofs.C13P Proofs.C13bP Proofs.SwapLoopP
  Proofs.C13MutP Proofs.SrcWfP Proofs.C13CtorP Proofs.C13GenP Proofs.C09GenP Proofs.C09ViewsP.
From EasyML Require Model.Views Proofs.C02P Proofs.C02Q Proofs.C02W Proofs.C02Inj.
Import ListNotations.
Open Scope N_scope.

(* ---------- 1. the loops over any lens-like source ---------- *)
Section ForEachG.
Context {St A : Type}.
Variable o : tsource St A.
Variable sh : shape.
Variable P : St -> Prop.
Hypothesis P_set : forall s idx v, P s -> in_range idx (lens_of sh) ->
  exists s', ts_set o s idx v = Some s' /\ P s' /\ ts_get o s' idx = Some v /\
             forall idx', in_range idx' (lens_of sh) -> idx' <> idx -> ts_get o s' idx' = ts_get o s idx'.
Hypothesis P_total : forall s idx, P s -> in_range idx (lens_of sh) -> exists v, ts_get o s idx = Some v.

Section WithF.
Variable f : list N -> A -> A.

Lemma gm_wi_finished fuel idx (s : St) :
  gm_for_each_wi o f fuel (mkGI (mkSI sh idx true) s) = mkGI (mkSI sh idx true) s.
Proof. destruct fuel; reflexivity. Qed.

Lemma gm_wi_run : forall fuel idx (s : St), P s -> in_range idx (lens_of sh) ->
  elements sh - flat idx (lens_of sh) <= N.of_nat fuel ->
  let itf := gm_for_each_wi o f fuel (mkGI (mkSI sh idx false) s) in
  P (gi_source itf) /\
  forall x, in_range x (lens_of sh) ->
    ts_get o (gi_source itf) x =
    if flat idx (lens_of sh) <=? flat x (lens_of sh) then option_map (f x) (ts_get o s x) else ts_get o s x.
Proof.
  induction fuel as [|fuel IH]; intros idx s Ps Hr Hfuel; cbv zeta.
  - exfalso. pose proof (flat_lt _ _ Hr). unfold elements in Hfuel. lia.
  - set (lens := lens_of sh) in *.
    destruct (iter_next_spec sh idx Hr) as [idx' [fin [Hn Hs]]].
    unfold elements in Hs, Hfuel. fold lens in Hs, Hfuel.
    destruct (P_total s idx Ps Hr) as [v Hv].
    destruct (P_set s idx (f idx v) Ps Hr) as [s' [Hset [Ps' [Hget' Hother]]]].
    assert (Hstep : gm_for_each_wi o f (S fuel) (mkGI (mkSI sh idx false) s) =
                    gm_for_each_wi o f fuel (mkGI (mkSI sh idx' fin) s')).
    { cbn [gm_for_each_wi]. unfold gti_with_index, gi_with_index, gti_next, gi_next.
      cbn [gi_places gi_source si_indexes]. rewrite Hn, Hv.
      unfold gti_write, gi_write. cbn [gi_source gi_places]. rewrite Hset. reflexivity. }
    rewrite Hstep. clear Hstep.
    pose proof (flat_lt _ _ Hr) as Hlt. fold lens in Hlt.
    destruct fin.
    + rewrite gm_wi_finished. cbn [gi_source]. split; [exact Ps'|].
      intros x Hx. pose proof (flat_lt _ _ Hx) as Hxl. fold lens in Hxl.
      destruct (list_eq_dec N.eq_dec x idx) as [->|Hne].
      * rewrite Hget', Hv. destruct (N.leb_spec (flat idx lens) (flat idx lens)); [reflexivity|lia].
      * rewrite Hother by assumption.
        assert (flat x lens <> flat idx lens) by (intros E; apply Hne; eapply flat_inj; eauto).
        destruct (N.leb_spec (flat idx lens) (flat x lens)); [lia|reflexivity].
    + destruct Hs as [Hr' Hf'].
      assert (Hfuel' : elements sh - flat idx' (lens_of sh) <= N.of_nat fuel).
      { unfold elements. fold lens. rewrite Hf'. lia. }
      specialize (IH idx' s' Ps' Hr' Hfuel'). cbv zeta in IH. fold lens in IH.
      destruct IH as [Pf Hgetf]. split; [exact Pf|].
      intros x Hx. rewrite Hgetf by exact Hx. rewrite Hf'.
      destruct (list_eq_dec N.eq_dec x idx) as [->|Hne].
      * destruct (N.leb_spec (flat idx lens + 1) (flat idx lens)); [lia|].
        rewrite Hget', Hv. destruct (N.leb_spec (flat idx lens) (flat idx lens)); [reflexivity|lia].
      * rewrite Hother by assumption.
        assert (flat x lens <> flat idx lens) by (intros E; apply Hne; eapply flat_inj; eauto).
        destruct (N.leb_spec (flat idx lens + 1) (flat x lens)); destruct (N.leb_spec (flat idx lens) (flat x lens));
          try reflexivity; lia.
Qed.

(* map_mut_with_index from the initial state: every element replaced by f(index, element) *)
Theorem gm_map_mut_with_index_spec (s : St) : P s -> ts_shape o s = sh -> lens_pos (lens_of sh) ->
  let s' := gm_map_mut_with_index o f s in
  P s' /\ forall x, in_range x (lens_of sh) -> ts_get o s' x = option_map (f x) (ts_get o s x).
Proof.
  intros Ps Hsh Hpos. cbv zeta. unfold gm_map_mut_with_index, gm_fuel, gti_from, shape_iter_from.
  rewrite Hsh. rewrite (proj2 (all_pos_b sh) Hpos). cbn [negb].
  replace (length sh) with (length (lens_of sh)) by (unfold lens_of; apply map_length).
  pose proof (gm_wi_run (S (N.to_nat (elements sh))) (repeat 0 (length (lens_of sh))) s Ps
                (in_range_zeros _ Hpos)) as H.
  cbv zeta in H. rewrite flat_zeros in H.
  destruct H as [H1 H3]; [lia|]. split; [exact H1|].
  intros x Hx. rewrite H3 by exact Hx.
  destruct (N.leb_spec 0 (flat x (lens_of sh))); [reflexivity|lia].
Qed.
End WithF.

(* map_mut is the with-index loop with a closure that ignores the index *)
Lemma gm_for_each_is_wi (g : A -> A) : forall fuel it,
  gm_for_each o g fuel it = gm_for_each_wi o (fun _ => g) fuel it.
Proof.
  induction fuel as [|fuel IH]; intros it; [reflexivity|].
  cbn [gm_for_each gm_for_each_wi]. unfold gti_with_index, gi_with_index.
  destruct (gti_next o it) as [[[place [v|]]|] it']; try apply IH. reflexivity.
Qed.

Theorem gm_map_mut_spec (g : A -> A) (s : St) : P s -> ts_shape o s = sh -> lens_pos (lens_of sh) ->
  let s' := gm_map_mut o g s in
  gm_map_mut o g s = gm_map_mut_with_index o (fun _ => g) s /\
  P s' /\ forall x, in_range x (lens_of sh) -> ts_get o s' x = option_map g (ts_get o s x).
Proof.
  intros Ps Hsh Hpos. cbv zeta.
  assert (E : gm_map_mut o g s = gm_map_mut_with_index o (fun _ => g) s).
  { unfold gm_map_mut, gm_map_mut_with_index. rewrite gm_for_each_is_wi. reflexivity. }
  split; [exact E|]. rewrite E. exact (gm_map_mut_with_index_spec (fun _ => g) s Ps Hsh Hpos).
Qed.

End ForEachG.

(* the term-level loops of Model/Transform.v are instances (source terms of Model/TSource.v) *)
Lemma for_each_wi_is_generic {A} (f : list N -> A -> A) : forall fuel (it : tensor_iter A),
  let g := gm_for_each_wi tsrc_source f fuel (mkGI (ti_shape_iter it) (ti_source it)) in
  for_each_mut_wi f fuel it = mkTI (gi_places g) (gi_source g).
Proof.
  induction fuel as [|fuel IH]; intros [si s]; cbv zeta; [reflexivity|].
  cbn [for_each_mut_wi gm_for_each_wi ti_shape_iter ti_source].
  unfold ti_with_index, ti_next, gti_with_index, gi_with_index, gti_next, gi_next.
  cbn [ti_shape_iter ti_source gi_places gi_source tsrc_source ts_get].
  destruct (iter_next si) as [[p|] si']; [|reflexivity].
  destruct (src_get s p) as [v|].
  - unfold ti_write, gti_write, gi_write. cbn [ti_source ti_shape_iter gi_source gi_places tsrc_source ts_set].
    destruct (src_set s p (f (si_indexes si) v)) as [s'|]; apply (IH (mkTI si' _)).
  - apply (IH (mkTI si' s)).
Qed.

Theorem view_map_mut_with_index_is_generic {A} (f : list N -> A -> A) (s : tsrc A) :
  view_map_mut_with_index f s = gm_map_mut_with_index tsrc_source f s.
Proof.
  unfold view_map_mut_with_index, gm_map_mut_with_index, gm_fuel, fuel_of, tensor_iter_from, gti_from.
  pose proof (for_each_wi_is_generic f (S (N.to_nat (elements (src_shape s))))
                (mkTI (shape_iter_from (src_shape s)) s)) as H.
  cbv zeta in H. cbn [ti_shape_iter ti_source] in H. rewrite H. reflexivity.
Qed.

(* ---------- 2. every constructed C02 view ---------- *)
Section CViewMut.
Context {A : Type}.
Variables (v : Views.view) (c : Views.cview).
Hypothesis Hc : Views.v_ctor v = Ok c.
Hypothesis Hu : C02P.usize_view c.
Hypothesis Hnd : NoDup (C02Inj.leaf_ids c).

Notation src := (cview_source (A := A) c).
Notation sh := (Views.c_shape c).

(* a stored element (leaf, offset) some index of the view shape resolves to *)
Definition designated (e : N * N) : Prop :=
  exists idx, in_range idx (lens_of sh) /\ Views.c_get c idx = Some e.

Definition mut_inv (st0 st : N * N -> option A) : Prop :=
  covers c st /\ forall e, ~ designated e -> st e = st0 e.

Lemma mut_inv_set st0 st idx x : mut_inv st0 st -> in_range idx (lens_of sh) ->
  exists st', ts_set src st idx x = Some st' /\ mut_inv st0 st' /\ ts_get src st' idx = Some x /\
    forall idx', in_range idx' (lens_of sh) -> idx' <> idx -> ts_get src st' idx' = ts_get src st idx'.
Proof.
  intros [Hcov Hfr] Hr.
  destruct (cview_lens v c Hc Hu Hnd st idx x Hcov Hr) as [st' [Hset [Hcov' [Hget Hoth]]]].
  exists st'. split; [exact Hset|]. split; [|split; [exact Hget|exact Hoth]].
  split; [exact Hcov'|]. intros e Hne. rewrite <- (Hfr e Hne).
  cbn [cview_source ts_set] in Hset. destruct (Views.c_get c idx) as [e0|] eqn:Eg; [|discriminate].
  injection Hset as <-. unfold store_set.
  destruct (N.eqb_spec (fst e) (fst e0)) as [E1|]; [|reflexivity].
  destruct (N.eqb_spec (snd e) (snd e0)) as [E2|]; [|reflexivity].
  exfalso. apply Hne. exists idx. split; [exact Hr|]. rewrite Eg. f_equal.
  destruct e, e0; cbn [fst snd] in *; congruence.
Qed.

Lemma mut_inv_total st0 st idx : mut_inv st0 st -> in_range idx (lens_of sh) ->
  exists x, ts_get src st idx = Some x.
Proof.
  intros [Hcov _] Hr. destruct (cview_present v c Hc Hu st idx Hcov Hr) as [e [x [_ [_ H]]]]. eauto.
Qed.

Lemma cview_lens_pos : lens_pos (lens_of sh).
Proof. exact (proj2 (C02Q.view_shape_valid v c Hc Hu)). Qed.

(* map_mut_with_index through ANY constructed view: afterwards the store still covers the leaves,
   every index of the view reads f(index, old element), the stored element an index resolves to
   is f(index, old stored element), and every stored element NO index resolves to (outside a
   range, masked out, not selected, other leaves' untouched parts ...) is untouched *)
Theorem cview_map_mut_with_index (f : list N -> A -> A) st : covers c st ->
  let st' := gm_map_mut_with_index src f st in
  covers c st' /\
  (forall x, in_range x (lens_of sh) -> ts_get src st' x = option_map (f x) (ts_get src st x)) /\
  (forall x e, in_range x (lens_of sh) -> Views.c_get c x = Some e -> st' e = option_map (f x) (st e)) /\
  (forall e, ~ designated e -> st' e = st e).
Proof.
  intros Hcov. cbv zeta.
  destruct (gm_map_mut_with_index_spec src sh (mut_inv st) (mut_inv_set st) (mut_inv_total st) f st)
    as [[Hcov' Hfr] Hget].
  - split; [exact Hcov|reflexivity].
  - reflexivity.
  - exact cview_lens_pos.
  - split; [exact Hcov'|]. split; [exact Hget|]. split; [|exact Hfr].
    intros x e Hx Eg. pose proof (Hget x Hx) as G. cbn [cview_source ts_get] in G. rewrite Eg in G. exact G.
Qed.

Theorem cview_map_mut (g : A -> A) st : covers c st ->
  let st' := gm_map_mut src g st in
  covers c st' /\
  (forall x, in_range x (lens_of sh) -> ts_get src st' x = option_map g (ts_get src st x)) /\
  (forall x e, in_range x (lens_of sh) -> Views.c_get c x = Some e -> st' e = option_map g (st e)) /\
  (forall e, ~ designated e -> st' e = st e).
Proof.
  intros Hcov. cbv zeta.
  assert (E : gm_map_mut src g st = gm_map_mut_with_index src (fun _ => g) st).
  { unfold gm_map_mut, gm_map_mut_with_index. rewrite gm_for_each_is_wi. reflexivity. }
  rewrite E. exact (cview_map_mut_with_index (fun _ => g) st Hcov).
Qed.

(* in-place = allocating: what the view shows after map_mut_with_index is, index by index, the
   tensor the allocating map_with_index over the same view (before) returns *)
Theorem cview_map_mut_eq_map (f : list N -> A -> A) st :
  covers c st -> elements sh <= usize_max ->
  exists t, g_map_with_index f (of_cview c st) = Ok t /\ t_shape t = sh /\
    forall x, in_range x (lens_of sh) ->
      ts_get src (gm_map_mut_with_index src f st) x = t_get t x.
Proof.
  intros Hcov Hb.
  destruct (gen_map_with_index_materialises f (of_cview c st)
              (cview_contract v c st Hc Hu Hb Hcov)) as [t [Hok [Hsh [_ Hm]]]].
  exists t. split; [exact Hok|]. split; [exact Hsh|]. intros x Hx.
  destruct (cview_map_mut_with_index f st Hcov) as [_ [Hget _]]. rewrite (Hget x Hx).
  cbn [of_cview gs_shape gs_get] in Hm. rewrite (Hm x Hx). reflexivity.
Qed.

End CViewMut.

(* ---------- 3. first / scalar / with-index elementwise over any source ---------- *)
Section FirstScalar.
Context {A : Type}.

Lemma g_iter_head (g : gsrc A) : g_contract g ->
  exists rest, g_iter g = (repeat 0 (length (gs_shape g)), gs_get g (repeat 0 (length (gs_shape g)))) :: rest.
Proof.
  intros [[_ Hpos] _]. unfold g_iter. rewrite shape_iter_all_spec.
  pose proof (in_range_zeros _ Hpos) as Hz.
  pose proof (all_indexes_at _ _ Hz) as Hn. rewrite flat_zeros in Hn. cbn [N.to_nat nth_error] in Hn.
  destruct (all_indexes (lens_of (gs_shape g))) as [|i0 r]; [discriminate|]. injection Hn as ->.
  replace (length (lens_of (gs_shape g))) with (length (gs_shape g)) by (unfold lens_of; symmetry; apply map_length).
  cbn [map]. eexists. reflexivity.
Qed.

(* first() over any source meeting the contract: never panics, and is the element at [0, .., 0] *)
Theorem gen_first (g : gsrc A) : g_contract g ->
  exists x, g_first g = Ok x /\ gs_get g (repeat 0 (length (gs_shape g))) = Some x.
Proof.
  intros Hc. destruct (g_iter_head g Hc) as [rest E]. unfold g_first. rewrite E.
  destruct Hc as [[_ Hpos] [_ Ht]].
  destruct (Ht (repeat 0 (length (gs_shape g)))) as [x Hx].
  { replace (length (gs_shape g)) with (length (lens_of (gs_shape g))) by (unfold lens_of; apply map_length).
    apply in_range_zeros. exact Hpos. }
  exists x. rewrite Hx. split; reflexivity.
Qed.

(* ... and it is the first stored value of the materialised view *)
Theorem gen_first_is_materialised_first (g : gsrc A) : g_contract g ->
  exists t, g_map (fun x => x) g = Ok t /\ g_first g = tensor_first t.
Proof.
  intros Hc. destruct (gen_map_materialises (fun x => x) g Hc) as [t [Hok [Hsh [Hst Hm]]]].
  exists t. split; [exact Hok|]. destruct (gen_first g Hc) as [x [Hf Hx]]. rewrite Hf.
  pose proof Hc as [[_ Hpos] _].
  assert (Hz : in_range (repeat 0 (length (gs_shape g))) (lens_of (gs_shape g))).
  { replace (length (gs_shape g)) with (length (lens_of (gs_shape g))) by (unfold lens_of; apply map_length).
    apply in_range_zeros. exact Hpos. }
  pose proof (Hm _ Hz) as G. rewrite Hx in G. cbn [option_map] in G.
  rewrite t_get_flat in G; [|rewrite Hsh; exact Hst|rewrite Hsh; exact Hz].
  rewrite Hsh in G.
  replace (length (gs_shape g)) with (length (lens_of (gs_shape g))) in G by (unfold lens_of; apply map_length).
  rewrite flat_zeros in G. cbn [N.to_nat] in G. unfold tensor_first.
  destruct (t_data t) as [|d0 r]; [discriminate|]. cbn [nth_error] in G. injection G as ->. reflexivity.
Qed.

(* scalar() of a 0-dimensional view is first() *)
Theorem gen_scalar (g : gsrc A) : g_contract g -> gs_shape g = [] ->
  exists x, g_scalar g = Ok x /\ g_first g = Ok x /\ gs_get g [] = Some x.
Proof.
  intros Hc Hs. destruct (gen_first g Hc) as [x [Hf Hx]]. rewrite Hs in Hx. cbn [length repeat] in Hx.
  exists x. unfold g_scalar. rewrite Hx. auto.
Qed.

(* elementwise_with_index over any two sources meeting the contract *)
Theorem gen_elementwise_with_index (f : list N -> A -> A -> A) (l r : gsrc A) :
  g_contract l -> g_contract r ->
  (gs_shape l = gs_shape r ->
   exists t, g_elementwise_with_index f l r = Ok t /\
     materialises t (gs_shape l)
       (fun idx => match gs_get l idx, gs_get r idx with Some x, Some y => Some (f idx x y) | _, _ => None end)) /\
  (gs_shape l <> gs_shape r -> g_elementwise_with_index f l r = Panic).
Proof.
  intros Hcl Hcr. destruct (contract_standin l Hcl) as [sl [Hsl Hel]].
  destruct (contract_standin r Hcr) as [sr [Hsr Her]].
  rewrite (equiv_elementwise_with_index l r sl sr Hel Her). rewrite (proj1 Hel), (proj1 Her). split.
  - intros Es. destruct (ctor_elementwise_with_index f sl sr Hsl Hsr Es) as [t [Hok [Hsh [Hst Hm]]]].
    exists t. split; [exact Hok|]. unfold materialises. repeat split; auto.
    intros idx Hr. rewrite (Hm idx Hr). unfold zip_get.
    rewrite (proj2 Hel idx Hr). rewrite Es in Hr. rewrite (proj2 Her idx Hr). reflexivity.
  - intros Hne. unfold view_elementwise_with_index.
    destruct (shape_eqb (src_shape sl) (src_shape sr)) eqn:E; [|reflexivity].
    exfalso. apply Hne. apply (proj1 (C13P.shape_eqb_eq _ _)). exact E.
Qed.

End FirstScalar.

(* scalar / into_scalar through a mutable 0-dimensional source: into_scalar moves out the element
   scalar() reads, and leaves the placeholder behind *)
Section IntoScalar.
Context {St A : Type}.
Variable o : tsource St A.
Theorem gm_into_scalar_spec (dflt : A) (s : St) : ts_shape o s = [] ->
  fst (gm_into_scalar o dflt s) = gm_scalar o s /\
  (forall x, ts_get o s [] = Some x ->
     snd (gm_into_scalar o dflt s) = match ts_set o s [] dflt with Some s' => s' | None => s end).
Proof.
  intros Hs. unfold gm_into_scalar, gm_scalar, gti_next_owned, gi_next_owned, gti_from, shape_iter_from.
  rewrite Hs. cbn [forallb negb length repeat gi_places gi_source iter_next si_finished si_shape si_indexes].
  destruct (ts_get o s []) as [x|]; cbn [fst snd of_option]; split; try reflexivity; intros y Hy; try discriminate.
Qed.
End IntoScalar.
