(* Results about Matrix and its views exported for property C10 (no safe call sequence reaches
   an out-of-bounds unchecked access / a broken representation invariant).  Standalone lemmas
   with self-contained statements over the transcriptions Model/Matrix.v (C11) and
   Model/MatrixViews.v (C12); the proofs are the C11 / C12 developments. *)
From Coq Require Import List ZArith NArith Bool Arith Lia.
From EasyML Require Import Base.Sx Model.Matrix Model.MatrixViews
  Proofs.C11Spec Proofs.C11P Proofs.C12P Proofs.C12Partition.
Import ListNotations.
Local Open Scope N_scope.

(* the representation invariant of Matrix { data, rows, columns } *)
Definition matrix_invariant {T} (s : matrix T) : Prop :=
  m_rows s * m_cols s = N.of_nat (length (m_data s)) /\ 1 <= m_rows s /\ 1 <= m_cols s.

Lemma matrix_invariant_Inv {T} (s : matrix T) : matrix_invariant s <-> Inv s.
Proof. unfold matrix_invariant, Inv, nlen. tauto. Qed.

(* (a) From every valid start, for every finite sequence of operations (insert_row(_with),
   insert_column(_with), remove_row, remove_column, retain_mut, retain, transpose, transpose_mut,
   set, map_mut, map_mut_with_index) with arbitrary arguments, the state after EVERY step —
   including the state a panicking step leaves behind — satisfies the invariant.  No size
   hypothesis: Clone / transpose re-validate the element count and leave the matrix untouched
   when that fails. *)
Theorem matrix_invariant_every_reached_state :
  forall (T : Type) (s : matrix T) (ops : list (op T)),
  matrix_invariant s ->
  Forall (fun r : matrix T * bool => matrix_invariant (fst r)) (impl_trace s ops).
Proof.
  intros T s ops H. apply matrix_invariant_Inv in H. pose proof (trace_inv ops s H) as F.
  eapply Forall_impl; [|exact F]. intros r Hr. now apply matrix_invariant_Inv.
Qed.

Theorem matrix_invariant_step :
  forall (T : Type) (s : matrix T) (o : op T),
  matrix_invariant s -> matrix_invariant (fst (impl_step s o)).
Proof. intros T s o H. apply matrix_invariant_Inv, step_inv, matrix_invariant_Inv, H. Qed.

(* the constructors establish it *)
Theorem matrix_invariant_constructors : forall (T : Type),
  (forall v : T, matrix_invariant (from_scalar v)) /\
  (forall (vs : list T) s, row_ctor vs = Ok s -> matrix_invariant s) /\
  (forall (vs : list T) s, column_ctor vs = Ok s -> matrix_invariant s) /\
  (forall (rows : list (list T)) s, from_rows rows = Ok s -> matrix_invariant s) /\
  (forall r c (vs : list T) s, from_flat_row_major (r, c) vs = Ok s -> matrix_invariant s) /\
  (forall r c (f : N -> N -> T) s, from_fn (r, c) f = Ok s -> matrix_invariant s) /\
  (forall (v : T) r c s, empty_ctor v (r, c) = Ok s -> matrix_invariant s).
Proof.
  intros T. destruct (@constructors_valid T) as [C1 [C2 [C3 [C4 C5]]]].
  destruct (@generated_constructors T) as [G1 G2].
  split; [|split; [|split; [|split; [|split; [|split]]]]].
  - intros v. apply matrix_invariant_Inv, C1.
  - intros vs s H. apply matrix_invariant_Inv. specialize (C2 vs). rewrite H in C2. tauto.
  - intros vs s H. apply matrix_invariant_Inv. specialize (C3 vs). rewrite H in C3. tauto.
  - intros rows s H. apply matrix_invariant_Inv. specialize (C4 rows). rewrite H in C4. tauto.
  - intros r c vs s H. apply matrix_invariant_Inv. specialize (C5 r c vs). rewrite H in C5. tauto.
  - intros r c f s H. apply matrix_invariant_Inv. specialize (G1 r c f). rewrite H in G1. tauto.
  - intros v r c s H. apply matrix_invariant_Inv. specialize (G2 v r c). rewrite H in G2. tauto.
Qed.

(* a storage position is the cell (r, c) of the root *)
Definition root_cell (rows cols p : N) : Prop :=
  exists r c, r < rows /\ c < cols /\ p = r * cols + c.

Lemma position_is_cell rows cols p : p < rows * cols -> root_cell rows cols p.
Proof.
  intros H. assert (Hc : cols <> 0) by (intros ->; lia).
  exists (p / cols), (p mod cols). repeat split.
  - apply N.div_lt_upper_bound; [exact Hc|lia].
  - now apply N.mod_lt.
  - rewrite N.mul_comm. now apply N.div_mod.
Qed.

(* (b) For every view stack the API can build over a matrix satisfying the invariant — the
   matrix itself or a part of an accepted partition at the bottom, then MatrixRange,
   MatrixReverse, MatrixMap and tensor round trips in any order and to any depth —:
   an index is reported present exactly when it is inside the view's size; every present index
   resolves (for the shared, mutable and unchecked accessors alike) to a root cell (r, c) with
   r < rows and c < cols, i.e. to the storage position r * cols + c < length data; every other
   index is absent; no index makes the accessor panic. *)
Theorem matrix_view_resolves_in_bounds :
  forall (T : Type) (s : matrix T) (v : mview),
  matrix_invariant s -> stack (m_rows s) (m_cols s) v ->
  forall row column,
    (inside v row column = true ->
       exists p, try_get v row column = Cell p /\ root_cell (m_rows s) (m_cols s) p /\
                 p < N.of_nat (length (m_data s)) /\
                 exists x, nth_error (m_data s) (N.to_nat p) = Some x) /\
    (inside v row column = false -> try_get v row column = Absent) /\
    try_get v row column <> AccessPanic.
Proof.
  intros T s v [Hlen [Hr Hc]] Hst row column.
  pose proof (stack_contract _ _ v Hr Hst row column) as C.
  destruct (inside v row column).
  - destruct C as [p [E Hp]]. split; [|split; [discriminate|rewrite E; discriminate]].
    intros _. exists p. split; [exact E|]. split; [now apply position_is_cell|]. split; [lia|].
    destruct (nth_error (m_data s) (N.to_nat p)) eqn:En; [eauto|]. apply nth_error_None in En. lia.
  - split; [discriminate|]. split; [auto|rewrite C; discriminate].
Qed.

(* (c) The same for the parts of an accepted partition (the leaves handed out as MatrixPart):
   every index inside a part's size resolves to a root cell in bounds, every other index is
   absent, and no two (part, index) pairs resolve to the same storage position — which is what
   makes handing out several mutable parts sound. *)
Theorem matrix_part_resolves_in_bounds :
  forall (T : Type) (s : matrix T) rp cp parts,
  matrix_invariant s -> partition (m_rows s) (m_cols s) rp cp = Ok parts ->
  (forall p, In p parts -> forall row column,
     (inside (VPart p) row column = true ->
        exists a, try_get (VPart p) row column = Cell a /\ root_cell (m_rows s) (m_cols s) a /\
                  a < N.of_nat (length (m_data s))) /\
     (inside (VPart p) row column = false -> try_get (VPart p) row column = Absent)) /\
  (forall k k' p p' i j i' j' a,
     nth_error parts k = Some p -> nth_error parts k' = Some p' ->
     try_get (VPart p) i j = Cell a -> try_get (VPart p') i' j' = Cell a ->
     k = k' /\ i = i' /\ j = j').
Proof.
  intros T s rp cp parts Hinv Hok. split.
  - intros p Hin row column.
    destruct (matrix_view_resolves_in_bounds T s (VPart p) Hinv (st_part _ _ rp cp parts p Hok Hin) row column)
      as [H1 [H2 _]].
    split; [|exact H2]. intros Hi. destruct (H1 Hi) as [a [E [Hc [Hl _]]]]. eauto.
  - destruct Hinv as [_ [Hr _]]. exact (partition_disjoint _ _ rp cp parts Hr Hok).
Qed.

(* (a) + (c): partitioning a matrix that has been resized by any history *)
Corollary matrix_part_after_history_in_bounds :
  forall (T : Type) (s : matrix T) (ops : list (op T)) rp cp parts,
  matrix_invariant s ->
  let s' := impl_run s ops in
  partition (m_rows s') (m_cols s') rp cp = Ok parts ->
  forall p, In p parts -> forall row column,
    (inside (VPart p) row column = true ->
       exists a, try_get (VPart p) row column = Cell a /\ root_cell (m_rows s') (m_cols s') a /\
                 a < N.of_nat (length (m_data s'))) /\
    (inside (VPart p) row column = false -> try_get (VPart p) row column = Absent).
Proof.
  intros T s ops rp cp parts Hinv s' Hok.
  assert (Hinv' : matrix_invariant s') by (apply matrix_invariant_Inv, run_inv, matrix_invariant_Inv, Hinv).
  exact (proj1 (matrix_part_resolves_in_bounds T s' rp cp parts Hinv' Hok)).
Qed.

Print Assumptions matrix_invariant_every_reached_state.
Print Assumptions matrix_view_resolves_in_bounds.
Print Assumptions matrix_part_resolves_in_bounds.
Print Assumptions matrix_part_after_history_in_bounds.
