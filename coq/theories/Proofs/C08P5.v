(* C08: the hypotheses of Proofs/C08P1.v bundled as one predicate, the theorems restated over the
   bundle, and the instance for Coq's real numbers (stdlib style). *)
From Coq Require Import List Arith Lia Bool Reals Lra.
From EasyML Require Import Base.Sx Model.Num Model.LinAlg Model.Decomp
     Proofs.C07P1 Proofs.C08P1 Proofs.C08P2.
Import ListNotations.
Close Scope R_scope.
Open Scope nat_scope.

(* an ordered field with a square-root oracle, as seen through the dictionary `ops`:
   ring laws; (1/x) * x = 1 for x <> 0; == decides equality; `lt` is irreflexive and the test
   `x <= y` fails exactly when y < x; for 0 < x: sqrt x * sqrt x = x and 0 < sqrt x *)
Definition ordered_sqrt_field {R : Type} (ops : numops R) (lt : R -> R -> Prop) : Prop :=
  ring_theory (nzero ops) (none_ ops) (nadd ops) (nmul ops) (nsub ops) (nneg ops) (@eq R) /\
  (forall x, ~ lt x x) /\
  (forall x y, nleb ops x y = false <-> lt y x) /\
  (forall x, x <> nzero ops -> nmul ops (ndiv ops (none_ ops) x) x = none_ ops) /\
  (forall x y, neqb ops x y = true <-> x = y) /\
  (forall x, lt (nzero ops) x -> nmul ops (nsqrt ops x) (nsqrt ops x) = x) /\
  (forall x, lt (nzero ops) x -> lt (nzero ops) (nsqrt ops x)).

(* the defining identities of a Cholesky factor L of a (n = rows of a) *)
Definition cholesky_factor {R : Type} (ops : numops R) (lt : R -> R -> Prop) (a L : mat) : Prop :=
  let n := mrows a in
  mcols a = n /\ wf n L /\
  (forall i j, i < n -> j < n -> i < j -> mget ops L i j = nzero ops) /\
  (forall i, i < n -> lt (nzero ops) (mget ops L i i)) /\
  (forall i j, i < n -> j <= i -> dot ops (nth i L []) (nth j L []) n = mget ops a i j) /\
  (symmetric ops a n -> forall i j, i < n -> j < n ->
     dot ops (nth i L []) (nth j L []) n = mget ops a i j).

Theorem cholesky_sound_b {R : Type} (ops : numops R) lt (a L : mat) :
  ordered_sqrt_field ops lt -> cholesky ops a = Some L -> cholesky_factor ops lt a L.
Proof.
  intros (H1 & H2 & H3 & H4 & H5 & H6 & H7) Hc.
  exact (cholesky_sound ops H1 lt H2 H3 H4 H6 H7 a L Hc).
Qed.

(* whatever has no such factor is rejected (in particular every input that is not positive
   definite, since L * L^T with an invertible L is positive definite), as is every non-square one *)
Theorem cholesky_rejects_b {R : Type} (ops : numops R) lt (a : mat) :
  ordered_sqrt_field ops lt ->
  (~ exists L, cholesky_factor ops lt a L) \/ mrows a <> mcols a -> cholesky ops a = None.
Proof.
  intros Hf [Hno|Hns]; [|apply cholesky_nonsquare; exact Hns].
  destruct (cholesky ops a) as [L|] eqn:E; [|reflexivity].
  exfalso. apply Hno. exists L. apply cholesky_sound_b; assumption.
Qed.

(* the first pivot test: a non-positive leading entry is rejected *)
Theorem cholesky_first_pivot {R : Type} (ops : numops R) lt (a : mat) :
  ordered_sqrt_field ops lt -> 1 <= mrows a -> ~ lt (nzero ops) (mget ops a 0 0) ->
  cholesky ops a = None.
Proof.
  intros (H1 & H2 & H3 & H4 & H5 & H6 & H7) Hn Hnp. unfold cholesky.
  destruct (negb (is_square a)); [reflexivity|]. destruct (mrows a) as [|n]; [lia|].
  cbn [chol_rows chol_row length Nat.eqb dot].
  assert (E : nsub ops (mget ops a 0 0) (nzero ops) = mget ops a 0 0).
  { pose proof (Rsub_def H1) as Hs. rewrite Hs.
    rewrite <- (Radd_0_l H1 (nneg ops (nzero ops))), (Ropp_def H1).
    rewrite (Radd_comm H1). apply (Radd_0_l H1). }
  rewrite E. destruct (nleb ops (mget ops a 0 0) (nzero ops)) eqn:Hle; [reflexivity|].
  apply H3 in Hle. contradiction.
Qed.

Definition ldlt_factors {R : Type} (ops : numops R) (a l d : mat) : Prop :=
  let n := mrows a in
  mcols a = n /\ wf n l /\ wf n d /\
  (forall i j, i < n -> j < n -> i < j -> mget ops l i j = nzero ops) /\
  (forall i, i < n -> mget ops l i i = none_ ops) /\
  (forall i j, i < n -> j < n -> i <> j -> mget ops d i j = nzero ops) /\
  (forall i, i < n -> mget ops d i i <> nzero ops) /\
  (forall i j, i < n -> j <= i -> ldl_entry ops l d i j n = mget ops a i j) /\
  (symmetric ops a n -> forall i j, i < n -> j < n -> ldl_entry ops l d i j n = mget ops a i j).

Theorem ldlt_sound_b {R : Type} (ops : numops R) lt (a l d : mat) :
  ordered_sqrt_field ops lt -> ldlt ops a = Some (l, d) -> ldlt_factors ops a l d.
Proof.
  intros (H1 & H2 & H3 & H4 & H5 & H6 & H7) Hc. exact (ldlt_sound ops H1 H4 H5 a l d Hc).
Qed.

Theorem ldlt_rejects_b {R : Type} (ops : numops R) lt (a : mat) :
  ordered_sqrt_field ops lt ->
  mrows a <> mcols a \/ (1 <= mrows a /\ mget ops a 0 0 = nzero ops) \/
  (~ exists l d, ldlt_factors ops a l d) -> ldlt ops a = None.
Proof.
  intros Hf [Hns|[[Hn Hz]|Hno]].
  - apply ldlt_nonsquare. exact Hns.
  - destruct Hf as (H1 & H2 & H3 & H4 & H5 & H6 & H7). apply (ldlt_zero_first_pivot ops H1 H5); assumption.
  - destruct (ldlt ops a) as [[l d]|] eqn:E; [|reflexivity].
    exfalso. apply Hno. exists l, d. eapply ldlt_sound_b; eassumption.
Qed.

(* the hypotheses are satisfiable: Coq's reals *)
Lemma Rops_ordered_sqrt_field : ordered_sqrt_field Rops Rlt.
Proof.
  split; [exact Rops_ring|]. split; [exact Rlt_irrefl|]. split; [exact Rops_leb_false|].
  split; [exact Rops_div_mul|]. split; [exact Rops_eqb|]. split; [exact Rops_sqrt_sqrt|exact Rops_sqrt_pos].
Qed.
