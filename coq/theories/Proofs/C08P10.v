(* C08, QR (mathcomp / ssreflect style): over a real closed field with sqrt = Num.sqrt, an input
   with linearly independent columns (\rank A = number of columns) makes the run regular:
   no reflected vector is zero and the oracle conditions hold.  Hence for every M x N input with
   M >= N and independent columns: Q^T Q = 1, Q R = A and R is upper triangular. *)
From Coq Require Import PeanoNat List.
From mathcomp Require Import all_ssreflect all_algebra zify.
From EasyML Require Import Base.Sx Model.Num Model.LinAlg Model.Decomp Proofs.C07P1 Proofs.C07P2
     Proofs.C08P3 Proofs.C08P4 Proofs.C08P7 Proofs.C08P8.
Set Implicit Arguments. Unset Strict Implicit. Unset Printing Implicit Defensive.
Import GRing.Theory Num.Theory.
Local Open Scope ring_scope.

Section FullRank.
Variable F : rcfType.
Notation sq := (@Num.sqrt F).
Notation ops := (rops sq).

Lemma sqrt_ok (x : list F) : sq (sumsq ops x) * sq (sumsq ops x) = sumsq ops x.
Proof. by rewrite -expr2 sqr_sqrtr // sumsq_ge0. Qed.

Lemma sumsq_eq0 (x : list F) : sumsq ops x = 0 -> forall t, List.nth t x 0 = 0.
Proof.
  rewrite sumsq_sum. elim: x => [|e x IH]; first by move=> _ [|t].
  rewrite big_cons => /eqP. rewrite paddr_eq0; first last.
  - apply: sumr_ge0 => y _. by rewrite -expr2 sqr_ge0.
  - by rewrite -expr2 sqr_ge0.
  case/andP => /eqP He /eqP Hx [|t] /=; last exact: IH.
  by move/eqP: He; rewrite mulf_eq0 orbb => /eqP.
Qed.

(* a non-zero sub-column gives a non-zero reflected vector: u.u = 2 (x.x + a x0), a x0 >= 0 *)
Lemma hu_nonzero (x : list F) : sumsq ops x != 0 -> sumsq ops (householder_u ops x) != 0.
Proof.
  move=> HS. rewrite (@hu_dot F sq x (sqrt_ok x)).
  case: x HS => [|x0 xs] HS; first by move: HS; rewrite /sumsq /= eqxx.
  rewrite /householder_u /euclidean_length /=.
  set S := sumsq ops (x0 :: xs) in HS *.
  set a := if 0 < x0 then sq S else - sq S.
  rewrite big_nat_recl //= (sum_nth (fun e => e * e)).
  have HSge : 0 < S by rewrite lt0r HS sumsq_ge0.
  have HSval : S = x0 * x0 + \sum_(e <- xs) e * e by rewrite /S sumsq_sum big_cons.
  have Hax : 0 <= a * x0.
  { rewrite /a. case: (lerP x0 0) => Hx0.
    - by rewrite mulNr -mulrN mulr_ge0 ?sqrtr_ge0 // oppr_ge0.
    - by rewrite mulr_ge0 ?sqrtr_ge0 // Order.POrderTheory.ltW. }
  have -> : (x0 + a) * x0 + \sum_(e <- xs) e * e = S + a * x0.
  { by rewrite HSval mulrDl addrAC. }
  apply: lt0r_neq0. apply: mulr_gt0; first by rewrite ltr0n.
  exact: ltr_paddr.
Qed.

(* independent columns + the first c columns already triangular: sub-column c is not zero *)
Lemma subcol_nonzero rows cols c (r : list (list F)) :
  wf2 rows cols r -> (c < rows)%N -> (c < cols)%N ->
  \rank (mxo sq rows cols r) = cols -> tri_upto sq rows cols c r ->
  sumsq ops (List.skipn c (column ops r c)) != 0.
Proof.
  move=> Hr Hc Hcc Hrank Htri. apply/eqP => Hz.
  have Hrl : length r = rows by case: Hr.
  set Rm := mxo sq rows cols r in Hrank.
  have Hzero : forall (i : 'I_rows) (j : 'I_cols), (c <= i)%N -> (j <= c)%N -> Rm i j = 0.
  { move=> i j Hi Hj. rewrite mxE. have Hir := ltn_ord i. have Hjcols := ltn_ord j.
    have [Hjlt|Hjeq] : (j < c)%N \/ (j : nat) = c by lia.
    - apply: Htri => //. lia.
    - rewrite Hjeq. have := sumsq_eq0 Hz (i - c)%N.
      rewrite nth_skipn_add nth_column; last by rewrite Hrl; apply/ltP; lia.
      have -> : (c + (i - c))%N = i by lia. by []. }
  pose W := Rm *m (pid_mx c.+1 : 'M[F]_cols).
  have HW : forall (i : 'I_rows) (j : 'I_cols), W i j = Rm i j * (j < c.+1)%:R.
  { move=> i j. rewrite mxE (bigD1 j) //= big1 ?addr0.
    - by rewrite [pid_mx _ _ _]mxE eqxx.
    - move=> k Hk. rewrite [pid_mx _ _ _]mxE.
      have -> : ((k : nat) == j) = false by apply/negbTE; rewrite -val_eqE in Hk.
      by rewrite mulr0. }
  have HW1 : W = (pid_mx c : 'M[F]_rows) *m W.
  { apply/matrixP => i j. rewrite [RHS]mxE (bigD1 i) //= big1 ?addr0; last first.
    { move=> k Hk. rewrite [pid_mx _ _ _]mxE.
      have -> : ((i : nat) == k) = false by apply/negbTE; rewrite eq_sym -val_eqE in Hk.
      by rewrite mul0r. }
    rewrite [pid_mx _ _ _]mxE eqxx /= !HW. case Hic: (i < c)%N; first by rewrite mul1r.
    rewrite mul0r. case Hjc: (j < c.+1)%N; last by rewrite mulr0.
    rewrite Hzero ?mul0r //; lia. }
  have Hle : (\rank W <= c)%N.
  { rewrite HW1. apply: leq_trans (mxrankM_maxl _ _) _. by rewrite rank_pid_mx //; lia. }
  have Heq : \rank W = c.+1.
  { rewrite /W -mxrank_tr trmx_mul mxrankMfree; last by rewrite /row_free mxrank_tr Hrank.
    by rewrite mxrank_tr rank_pid_mx. }
  by rewrite Heq ltnn in Hle.
Qed.

Lemma regular_of_rank rows cols k : forall c0 (r : list (list F)),
  wf2 rows cols r -> (c0 + k <= rows)%N -> (c0 + k <= cols)%N ->
  \rank (mxo sq rows cols r) = cols -> tri_upto sq rows cols c0 r ->
  qr_regular sq rows (List.seq c0 k) r /\ qr_lengths_ok sq rows (List.seq c0 k) r.
Proof.
  elim: k => [|k IH] c0 r Hr H1 H2 Hrank Htri //=.
  set col := List.skipn c0 (column ops r c0).
  have Hc : (c0 < rows)%N by lia.
  have Hcc : (c0 < cols)%N by lia.
  have HS : sumsq ops col != 0 by apply: subcol_nonzero Hr Hc Hcc Hrank Htri.
  have Hu : sumsq ops (householder_u ops col) != 0 by apply: hu_nonzero.
  have Hcl : (c0 + length col)%N = rows.
  { rewrite /col List.skipn_length length_column. case: Hr => -> _. lia. }
  have [Hsym Hinv] := householder_sym_invol Hcl Hu (sqrt_ok _).
  set h := pad_h ops (householder ops col) c0 rows in Hsym Hinv *.
  have Hr' : wf2 rows cols (mmul ops h r).
  { apply: (@wf2_mmul F ops rows rows cols) => //; [exact: wf2_pad_h|lia]. }
  have Hmx : mxo sq rows cols (mmul ops h r) = mxo sq rows rows h *m mxo sq rows cols r.
  { apply: mxo_mmul => //; [exact: wf2_pad_h|lia]. }
  have Hrank' : \rank (mxo sq rows cols (mmul ops h r)) = cols.
  { rewrite Hmx. have [Hunit _] := mulmx1_unit Hinv.
    have Hfull : row_full (mxo sq rows rows h) by rewrite row_full_unit.
    have [-> _] := eqmxMfull (mxo sq rows cols r) Hfull. exact: Hrank. }
  have Htri' : tri_upto sq rows cols c0.+1 (mmul ops h r).
  { apply: qr_step_tri => //; exact: sqrt_ok. }
  have [IH1 IH2] := IH c0.+1 (mmul ops h r) Hr' ltac:(lia) ltac:(lia) Hrank' Htri'.
  split; first by split; [exact/eqP|split; [exact: sqrt_ok|]].
  by split; [exact: sqrt_ok|].
Qed.

(* M x N, M >= N, linearly independent columns: Q^T Q = 1, Q R = A, R upper triangular *)
Theorem qr_full_rank rows cols (m : list (list F)) :
  wf2 rows cols m -> (1 <= rows)%N -> (cols <= rows)%N ->
  \rank (mxo sq rows cols m) = cols ->
  exists q r, qr ops m = Some (q, r) /\
    wf2 rows rows q /\ wf2 rows cols r /\
    (mxo sq rows rows q)^T *m mxo sq rows rows q = 1%:M /\
    mxo sq rows rows q *m mxo sq rows cols r = mxo sq rows cols m /\
    (forall i j, (j < i)%N -> (i < rows)%N -> (j < cols)%N -> mget ops r i j = 0).
Proof.
  move=> Hm Hrows Hcr Hrank.
  have [Hreg Hlen] := @regular_of_rank rows cols (Nat.min (rows - 1) cols) 0 m Hm
                        ltac:(lia) ltac:(lia) Hrank ltac:(by move=> i j; rewrite ltn0).
  case E: (qr ops m) => [[q r]|]; last first.
  { move/qr_absent_iff: E. have [Hl _] := Hm.
    rewrite /mrows Hl /mcols (wf2_mcols rows cols m Hm (elimT leP Hrows)). move/ltP. lia. }
  exists q, r. split=> //.
  have [_ [Hq Hr]] := @qr_shapes F ops rows cols m q r Hm (elimT leP Hrows) E.
  have [Horth Hprod] := @qr_sound F sq rows cols m q r Hm Hrows E Hreg.
  do 4 (split=> //). exact: (@qr_upper_triangular F sq rows cols m q r Hm Hrows E Hreg Hlen).
Qed.
End FullRank.
