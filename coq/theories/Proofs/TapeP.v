(* The reverse sweep of Record::try_derivatives computes, for EVERY seed vector, the forward
   tangent of the output, on every tape whose entries satisfy what append_nullary / unary /
   binary guarantee.  Over any commutative ring (the dictionary `ops` with ring laws). *)
From Coq Require Import List Arith Lia Ring.
From EasyML Require Import Base.Sx Model.Num Model.Tape.
Import ListNotations.

Section Sweep.
Context {R : Type} (ops : numops R).
Hypothesis Rth : ring_theory (nzero ops) (none_ ops) (nadd ops) (nmul ops) (nsub ops) (nneg ops) (@eq R).
Add Ring Rring : Rth.
Notation rO := (nzero ops).
Notation rI := (none_ ops).
Notation "x [+] y" := (nadd ops x y) (at level 50, left associativity).
Notation "x [*] y" := (nmul ops x y) (at level 40, left associativity).

Lemma upd_length (l : list R) j f : length (upd l j f) = length l.
Proof. revert j; induction l; destruct j; simpl; auto. Qed.

Lemma nth_upd (l : list R) j f k : nth k (upd l j f) rO =
  if Nat.eqb k j then (if Nat.ltb j (length l) then f (nth k l rO) else nth k l rO) else nth k l rO.
Proof.
  revert j k; induction l as [|x l IH]; intros j k; simpl.
  - destruct (Nat.eqb k j); destruct k; auto.
  - destruct j, k; simpl; auto.
    rewrite IH. destruct (Nat.eqb k j); auto.
Qed.

(* forward tangents of every tape position for an arbitrary seed vector s *)
Fixpoint tangents (t : tape R) (s : nat -> R) (acc : list R) : list R :=
  match t with
  | [] => acc
  | e :: r =>
     tangents r s (acc ++ [s (length acc) [+] lw e [*] nth (lp e) acc rO [+] rw e [*] nth (rp e) acc rO])
  end.

Fixpoint sumn (n : nat) (f : nat -> R) : R :=
  match n with O => rO | S m => sumn m f [+] f m end.

(* what every append_* of the WengertList guarantees *)
Definition wf_entry (i : nat) (e : entry R) : Prop :=
  lp e <= i /\ rp e <= i /\ (lp e = i -> lw e = rO) /\ (rp e = i -> rw e = rO).

Fixpoint wf_from (i : nat) (t : tape R) : Prop :=
  match t with [] => True | e :: r => wf_entry i e /\ wf_from (S i) r end.

Lemma sumn_ext n f g : (forall j, j < n -> f j = g j) -> sumn n f = sumn n g.
Proof.
  induction n; simpl; intros H; auto.
  rewrite IHn by (intros; apply H; lia). rewrite H by lia. reflexivity.
Qed.

Lemma sumn_point n k f g delta : k < n -> (forall j, j < n -> j <> k -> f j = g j) ->
  f k = g k [+] delta -> sumn n f = sumn n g [+] delta.
Proof.
  induction n; intros Hk Hne Hk'; [lia|]. simpl.
  destruct (Nat.eq_dec k n) as [->|Hn].
  - rewrite Hk'. rewrite (sumn_ext n f g) by (intros; apply Hne; lia). ring.
  - rewrite IHn by (try lia; auto; intros; apply Hne; lia).
    rewrite (Hne n) by lia. ring.
Qed.

Definition upd_add (d : list R) p c := upd d p (fun x => x [+] c).

Lemma sumn_upd_add n d p c (h : nat -> R) : p < length d -> p < n ->
  sumn n (fun j => nth j (upd_add d p c) rO [*] h j) = sumn n (fun j => nth j d rO [*] h j) [+] c [*] h p.
Proof.
  intros Hp Hn. apply sumn_point with (k := p); auto.
  - intros j _ Hj. unfold upd_add. rewrite nth_upd.
    destruct (Nat.eqb_spec j p); [contradiction|reflexivity].
  - unfold upd_add. rewrite nth_upd, Nat.eqb_refl.
    destruct (Nat.ltb_spec p (length d)); [ring|lia].
Qed.

Lemma tangents_length T s acc : length (tangents T s acc) = length acc + length T.
Proof. revert acc; induction T; intros; simpl; [lia|]. rewrite IHT, app_length; simpl; lia. Qed.

Lemma tangents_app T e s acc :
  tangents (T ++ [e]) s acc =
  let r := tangents T s acc in
  r ++ [s (length r) [+] lw e [*] nth (lp e) r rO [+] rw e [*] nth (rp e) r rO].
Proof. revert acc; induction T; intros; simpl; auto. Qed.

Lemma wf_from_app i T e : wf_from i (T ++ [e]) <-> wf_from i T /\ wf_entry (i + length T) e.
Proof.
  revert i; induction T; intros; simpl.
  - rewrite Nat.add_0_r. tauto.
  - rewrite IHT. replace (S i + length T) with (i + S (length T)) by lia. tauto.
Qed.

Definition hw (T : tape R) (s : nat -> R) (j : nat) : R :=
  if Nat.ltb j (length T) then nth j (tangents T s []) rO else s j.

Lemma step_length d i e : length (step ops d i e) = length d.
Proof. unfold step. rewrite !upd_length. reflexivity. Qed.

Lemma sweep_from_length T i d : length (sweep_from ops T i d) = length d.
Proof. revert i d; induction T; intros; simpl; auto. rewrite IHT, step_length. reflexivity. Qed.

Lemma sweep_invariant T s : wf_from 0 T -> forall N d, length d = N -> length T <= N ->
  sumn N (fun j => nth j (sweep_from ops (rev T) (length T - 1) d) rO [*] s j)
  = sumn N (fun j => nth j d rO [*] hw T s j).
Proof.
  induction T as [|e T IH] using rev_ind; intros Hwf N d Hd HN.
  - simpl. apply sumn_ext; intros; unfold hw; simpl. reflexivity.
  - apply wf_from_app in Hwf as [HwfT [Hl [Hr [Hl0 Hr0]]]]. simpl in Hl, Hr, Hl0, Hr0.
    rewrite rev_unit. rewrite app_length in *. simpl in *.
    set (k := length T) in *.
    replace (k + 1 - 1) with k by lia.
    rewrite (IH HwfT N (step ops d k e)) by (rewrite ?step_length; lia).
    unfold step.
    change (upd (upd d (lp e) (fun x => x [+] nth k d rO [*] lw e)) (rp e) (fun x => x [+] nth k d rO [*] rw e))
      with (upd_add (upd_add d (lp e) (nth k d rO [*] lw e)) (rp e) (nth k d rO [*] rw e)).
    rewrite sumn_upd_add by (unfold upd_add; rewrite ?upd_length; lia).
    rewrite sumn_upd_add by lia.
    symmetry.
    rewrite (sumn_point N k (fun j => nth j d rO [*] hw (T ++ [e]) s j) (fun j => nth j d rO [*] hw T s j)
                (nth k d rO [*] (lw e [*] nth (lp e) (tangents T s []) rO [+] rw e [*] nth (rp e) (tangents T s []) rO))).
    + assert (HL : lw e [*] nth (lp e) (tangents T s []) rO = lw e [*] hw T s (lp e)).
      { unfold hw. destruct (Nat.ltb_spec (lp e) (length T)); auto.
        assert (lp e = k) by (unfold k; lia). rewrite Hl0 by auto. ring. }
      assert (HR : rw e [*] nth (rp e) (tangents T s []) rO = rw e [*] hw T s (rp e)).
      { unfold hw. destruct (Nat.ltb_spec (rp e) (length T)); auto.
        assert (rp e = k) by (unfold k; lia). rewrite Hr0 by auto. ring. }
      rewrite HL, HR. ring.
    + lia.
    + intros j Hj Hjk. unfold hw. rewrite app_length; simpl. fold k.
      rewrite tangents_app; simpl.
      destruct (Nat.ltb_spec j (k + 1)), (Nat.ltb_spec j k); try lia; auto.
      rewrite app_nth1 by (rewrite tangents_length; simpl; fold k; lia). reflexivity.
    + unfold hw. rewrite app_length; simpl. fold k.
      destruct (Nat.ltb_spec k (k + 1)); [|lia].
      destruct (Nat.ltb_spec k k); [lia|].
      rewrite tangents_app; simpl.
      rewrite app_nth2 by (rewrite tangents_length; simpl; fold k; lia).
      rewrite tangents_length; simpl. fold k. replace (k - k) with 0 by lia. simpl. ring.
Qed.

Lemma onehot_length n k : length (onehot ops n k) = n.
Proof. unfold onehot. rewrite map_length, seq_length. reflexivity. Qed.

Lemma nth_map_seq (f : nat -> R) a n j d : j < n -> nth j (map f (seq a n)) d = f (a + j).
Proof.
  revert a j; induction n; intros a j Hj; [lia|]. destruct j; simpl.
  - rewrite Nat.add_0_r. reflexivity.
  - rewrite IHn by lia. f_equal. lia.
Qed.

Lemma nth_onehot n k j : j < n -> nth j (onehot ops n k) rO = if Nat.eqb j k then rI else rO.
Proof. intros Hj. unfold onehot. rewrite nth_map_seq by auto. reflexivity. Qed.

Lemma sumn_zero n f : (forall j, j < n -> f j = rO) -> sumn n f = rO.
Proof.
  induction n; simpl; intros H; auto.
  rewrite IHn by (intros; apply H; lia). rewrite H by lia. ring.
Qed.

Lemma sumn_onehot n k (h : nat -> R) : k < n ->
  sumn n (fun j => nth j (onehot ops n k) rO [*] h j) = h k.
Proof.
  intros Hk.
  rewrite (sumn_point n k _ (fun _ => rO) (h k)); auto.
  - rewrite sumn_zero by auto. ring.
  - intros j Hj Hne. rewrite nth_onehot by auto. destruct (Nat.eqb_spec j k); [contradiction|ring].
  - rewrite nth_onehot by auto. rewrite Nat.eqb_refl. ring.
Qed.

(* every derivative set has exactly one entry per tape entry *)
Lemma sweep_length t out : length (sweep ops t out) = length t.
Proof. unfold sweep. rewrite sweep_from_length, onehot_length. reflexivity. Qed.

(* For EVERY seed vector s, the adjoints computed by the reverse sweep, paired with the seeds,
   give the forward tangent of the output: taking s = e_x yields  adjoint[x] = d out / d x. *)
Theorem sweep_is_tangent t s out : wf_from 0 t -> out < length t ->
  sumn (length t) (fun j => nth j (sweep ops t out) rO [*] s j) = nth out (tangents t s []) rO.
Proof.
  intros Hwf Hout. unfold sweep.
  rewrite (sweep_invariant t s Hwf (length t)) by (rewrite ?onehot_length; lia).
  rewrite sumn_onehot by auto. unfold hw.
  destruct (Nat.ltb_spec out (length t)); [reflexivity|lia].
Qed.

(* the append functions preserve well-formedness and return the next unused position *)
Lemma append_nullary_wf t : wf_from 0 t -> wf_from 0 (fst (append_nullary ops t)) /\
  snd (append_nullary ops t) = length t /\ length (fst (append_nullary ops t)) = S (length t).
Proof.
  intros H. unfold append_nullary. cbn [fst snd]. rewrite app_length. cbn [length].
  split; [|split; [reflexivity|lia]].
  apply wf_from_app. split; [exact H|]. unfold wf_entry. cbn. repeat split; auto.
Qed.

Lemma append_unary_wf t p d : wf_from 0 t -> p < length t ->
  wf_from 0 (fst (append_unary ops t p d)) /\
  snd (append_unary ops t p d) = length t /\ length (fst (append_unary ops t p d)) = S (length t).
Proof.
  intros H Hp. unfold append_unary. cbn [fst snd]. rewrite app_length. cbn [length].
  split; [|split; [reflexivity|lia]].
  apply wf_from_app. split; [exact H|]. unfold wf_entry. cbn. repeat split; auto; lia.
Qed.

Lemma append_binary_wf t l dl r dr : wf_from 0 t -> l < length t -> r < length t ->
  wf_from 0 (fst (append_binary t l dl r dr)) /\
  snd (append_binary t l dl r dr) = length t /\
  length (fst (append_binary t l dl r dr)) = S (length t).
Proof.
  intros H Hl Hr. unfold append_binary. cbn [fst snd]. rewrite app_length. cbn [length].
  split; [|split; [reflexivity|lia]].
  apply wf_from_app. split; [exact H|]. unfold wf_entry. cbn. repeat split; auto; lia.
Qed.

End Sweep.
