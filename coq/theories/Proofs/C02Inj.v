(* C02, injectivity: two different in-shape indexes of a view never resolve to the same source
   element, so a write through the view changes exactly the element the mapping designates.
   `view_injective`: for EVERY view term (all adaptors incl. stack and chain, any depth), given
   pairwise distinct leaf ids.  `single_source_injective`: the corollary for compositions of the
   nine single-source adaptors (which have one leaf, so no distinctness hypothesis is needed). *)
From Coq Require Import List ZArith NArith Bool Arith Lia Permutation.
From EasyML Require Import Base.Sx Model.Shape Model.Views Proofs.ShapeP Proofs.C01P
  Proofs.C02Lemmas Proofs.C02P Proofs.C02W.
Import ListNotations.
Open Scope N_scope.

Fixpoint single_source (c : cview) : Prop :=
  match c with
  | CTensor _ _ _ | CMatrix _ _ _ _ _ => True
  | CStack _ _ _ | CChain _ _ => False
  | CRange c _ | CMask c _ | CIndex c _ | CExpand c _ | CRename c _ | CReverse c _
  | CAccess c _ | CTranspose c _ | CWrap c => single_source c
  end.

Definition inj_on (c : cview) : Prop :=
  forall i1 i2, in_range i1 (lens_of (c_shape c)) -> in_range i2 (lens_of (c_shape c)) ->
    c_get c i1 = c_get c i2 -> i1 = i2.

(* ---- the per-adaptor maps are injective ---- *)
Lemma range_spec_inj rs : forall i1 i2, length i1 = length rs -> length i2 = length rs ->
  range_spec rs i1 = range_spec rs i2 -> i1 = i2.
Proof.
  unfold range_spec. induction rs as [|r rs IH]; intros [|a i1] [|b i2] H1 H2 E; cbn [length] in *;
    try lia; [reflexivity|].
  cbn [zipwith] in E. injection E as E1 E2. f_equal; [lia|]. apply IH; auto; lia.
Qed.

Lemma mask_spec_inj ms : forall i1 i2, length i1 = length ms -> length i2 = length ms ->
  mask_spec ms i1 = mask_spec ms i2 -> i1 = i2.
Proof.
  unfold mask_spec. induction ms as [|m ms IH]; intros [|a i1] [|b i2] H1 H2 E; cbn [length] in *;
    try lia; [reflexivity|].
  cbn [zipwith] in E. injection E as E1 E2. f_equal; [|apply IH; auto; lia].
  destruct (N.ltb_spec a (r_start m)), (N.ltb_spec b (r_start m)); lia.
Qed.

Lemma reverse_spec_inj (sh : shape) : forall rev i1 i2, length rev = length sh ->
  in_range i1 (lens_of sh) -> in_range i2 (lens_of sh) ->
  reverse_spec i1 sh rev = reverse_spec i2 sh rev -> i1 = i2.
Proof.
  induction sh as [|d sh IH]; intros [|r rev] [|a i1] [|b i2] Hr H1 H2 E; cbn [length lens_of map in_range] in *;
    try lia; try tauto.
  cbn [reverse_spec] in E. injection E as E1 E2. destruct H1 as [A1 B1], H2 as [A2 B2].
  f_equal; [destruct r; lia|]. eapply IH; eauto.
Qed.

Lemma select_idx_inj pr : forall i1 i2 a, length i1 = length i2 ->
  select_idx pr i1 = Some a -> select_idx pr i2 = Some a ->
  (length i1 = length (filter is_none pr)) -> i1 = i2.
Proof.
  induction pr as [|o pr IH]; intros i1 i2 a HL E1 E2 Hc; cbn [select_idx filter] in *.
  - cbn [length] in Hc. destruct i1; cbn in Hc; try lia. destruct i2; cbn in HL; try lia. reflexivity.
  - destruct o as [i|]; cbn [is_none] in Hc.
    + destruct (select_idx pr i1) as [a1|] eqn:A1; cbn [option_map] in E1; [|discriminate].
      destruct (select_idx pr i2) as [a2|] eqn:A2; cbn [option_map] in E2; [|discriminate].
      injection E1 as <-. injection E2 as E2. eapply IH; eauto. congruence.
    + destruct i1 as [|s1 i1], i2 as [|s2 i2]; cbn [length] in *; try discriminate; try lia.
      destruct (select_idx pr i1) as [a1|] eqn:A1; cbn [option_map] in E1; [|discriminate].
      destruct (select_idx pr i2) as [a2|] eqn:A2; cbn [option_map] in E2; [|discriminate].
      injection E1 as <-. injection E2 as E2 E3. subst s2. f_equal. eapply IH; eauto; try lia. congruence.
Qed.

Lemma unprovided_count (sh : shape) : forall pr, Forall2 provided_ok sh pr ->
  length (unprovided sh pr) = length (filter is_none pr).
Proof.
  induction sh as [|d sh IH]; intros pr HF; inversion HF as [|? o ? pr' _ HF']; subst; [reflexivity|].
  destruct o; cbn [unprovided filter is_none length]; rewrite (IH pr' HF'); reflexivity.
Qed.

Lemma expand_idx_inj : forall i1 i2 i ex a, length i1 = length i2 ->
  expand_idx i1 i ex = Some a -> expand_idx i2 i ex = Some a -> i1 = i2.
Proof.
  induction i1 as [|x i1 IH]; intros [|y i2] i ex a HL E1 E2; cbn [length] in HL; try lia; [reflexivity|].
  cbn [expand_idx] in E1, E2. destruct ex as [|[j n] ex'].
  - destruct (expand_idx i1 (S i) []) as [a1|] eqn:A1; cbn [option_map] in E1; [|discriminate].
    destruct (expand_idx i2 (S i) []) as [a2|] eqn:A2; cbn [option_map] in E2; [|discriminate].
    injection E1 as <-. injection E2 as E2 E3. subst y. f_equal. eapply IH; eauto. congruence.
  - destruct (Nat.eqb j i).
    + destruct (N.eqb_spec x 0); [|discriminate]. destruct (N.eqb_spec y 0); [|discriminate].
      subst. f_equal. eapply IH; eauto.
    + destruct (expand_idx i1 (S i) ((j, n) :: ex')) as [a1|] eqn:A1; cbn [option_map] in E1; [|discriminate].
      destruct (expand_idx i2 (S i) ((j, n) :: ex')) as [a2|] eqn:A2; cbn [option_map] in E2; [|discriminate].
      injection E1 as <-. injection E2 as E2 E3. subst y. f_equal. eapply IH; eauto. congruence.
Qed.

Lemma to_source_inj (sh : shape) req tbl i1 i2 :
  NoDup (names_of sh) -> length req = length sh -> dm_new (names_of sh) req = Some tbl ->
  length i1 = length sh -> length i2 = length sh ->
  map_dimensions_to_source tbl i1 0 = map_dimensions_to_source tbl i2 0 -> i1 = i2.
Proof.
  intros Hnd Hlen Hnew L1 L2 E.
  assert (Hl : length req = length (names_of sh)) by (rewrite names_of_length; exact Hlen).
  assert (Hls : length (names_of sh) = length sh) by apply names_of_length.
  pose proof (s2r_length _ _ _ Hnew) as Ls.
  apply nth_ext with (d := 0) (d' := 0); [lia|]. intros e He. rewrite L1, <- Hls in He.
  destruct (tables_inverse _ _ _ Hnd Hl Hnew e He) as [_ Hinv].
  destruct (r2s_spec _ _ _ Hnd Hl Hnew e He) as [Hb _].
  set (d := nth e (dm_r2s tbl) 0%nat) in *.
  assert (Hn : forall i, nth d (map_dimensions_to_source tbl i 0) 0 = nth e i 0).
  { intros i. unfold map_dimensions_to_source.
    rewrite nth_map_in with (da := 0%nat) by lia. rewrite Hinv. reflexivity. }
  rewrite <- (Hn i1), <- (Hn i2), E. reflexivity.
Qed.

Definition leaf_ids (c : cview) : list N := map fst (c_leaves c).

Lemma leaf_ids_flat cs : map fst (flat_map c_leaves cs) = flat_map leaf_ids cs.
Proof. induction cs as [|c r IH]; cbn [flat_map]; [reflexivity|]. rewrite map_app, IH. reflexivity. Qed.

Lemma NoDup_app_disjoint {A} (l1 l2 : list A) x : NoDup (l1 ++ l2) -> In x l1 -> In x l2 -> False.
Proof.
  induction l1 as [|a l1 IH]; cbn [app]; intros H H1 H2; [contradiction|].
  inversion H as [|? ? Ha H']; subst. destruct H1 as [->|H1].
  - apply Ha. apply in_or_app. right. exact H2.
  - apply IH; assumption.
Qed.

Lemma NoDup_app_l {A} (l1 l2 : list A) : NoDup (l1 ++ l2) -> NoDup l1.
Proof.
  induction l1 as [|a l1 IH]; cbn [app]; intros H; [constructor|].
  inversion H as [|? ? Ha H']; subst. constructor; [|apply IH; exact H'].
  intros Hin. apply Ha. apply in_or_app. left. exact Hin.
Qed.
Lemma NoDup_app_r {A} (l1 l2 : list A) : NoDup (l1 ++ l2) -> NoDup l2.
Proof. induction l1 as [|a l1 IH]; cbn [app]; intros H; [exact H|]. inversion H; subst. auto. Qed.

Lemma NoDup_flat_map_in {A B} (f : A -> list B) l a : NoDup (flat_map f l) -> In a l -> NoDup (f a).
Proof.
  induction l as [|c r IH]; cbn [flat_map]; intros H Hin; [contradiction|].
  destruct Hin as [->|Hin]; [eapply NoDup_app_l; exact H|].
  apply IH; [eapply NoDup_app_r; exact H|exact Hin].
Qed.

Lemma NoDup_flat_map_disjoint {A B} (f : A -> list B) l : forall k1 k2 a b x,
  NoDup (flat_map f l) -> nth_error l k1 = Some a -> nth_error l k2 = Some b -> k1 <> k2 ->
  In x (f a) -> In x (f b) -> False.
Proof.
  induction l as [|c r IH]; intros k1 k2 a b x H E1 E2 Hne Ha Hb.
  - destruct k1; discriminate.
  - cbn [flat_map] in H. destruct k1 as [|k1], k2 as [|k2]; cbn [nth_error] in E1, E2; try lia.
    + injection E1 as ->. apply (NoDup_app_disjoint _ _ x H Ha).
      apply in_flat_map. exists b. split; [eapply nth_error_In; exact E2|exact Hb].
    + injection E2 as ->. apply (NoDup_app_disjoint _ _ x H Hb).
      apply in_flat_map. exists a. split; [eapply nth_error_In; exact E1|exact Ha].
    + eapply (IH k1 k2); eauto. eapply NoDup_app_r; exact H.
Qed.

Lemma remove_at_inj : forall i1 i2 d along, length i1 = length i2 ->
  nth (along - d) i1 0 = nth (along - d) i2 0 ->
  (d <= along)%nat -> remove_at d along i1 = remove_at d along i2 -> i1 = i2.
Proof.
  induction i1 as [|a i1 IH]; intros [|b i2] d along HL Hn Hd E; cbn [length] in HL; try lia; [reflexivity|].
  cbn [remove_at] in E. destruct (Nat.eqb_spec d along) as [->|Hne].
  - rewrite Nat.sub_diag in Hn. cbn [nth] in Hn. subst b.
    destruct (stack_passed [] (S along) along (0%nat, 0) i1 ltac:(lia)) as [_ A1].
    destruct (stack_passed [] (S along) along (0%nat, 0) i2 ltac:(lia)) as [_ A2].
    rewrite A1, A2 in E. f_equal. exact E.
  - injection E as -> E. f_equal. apply (IH i2 (S d) along); try lia; [|exact E].
    replace (along - d)%nat with (S (along - S d)) in Hn by lia. exact Hn.
Qed.

Lemma mapping_range' c rs idx : cwf (CRange c rs) -> c_get (CRange c rs) idx =
  match map_indexes_by_range idx rs with Some idx' => c_get c idx' | None => None end.
Proof. reflexivity. Qed.

Theorem view_injective c : cwf c -> usize_view c -> NoDup (leaf_ids c) -> inj_on c.
Proof.
  induction c using cview_ind'; unfold leaf_ids in *; cbn [cwf usize_view c_leaves]; unfold inj_on.
  - (* tensor *)
    intros [Hv ->] _ _ i1 i2 R1 R2. cbn [c_shape c_get] in *.
    rewrite !get_index_direct_spec by (apply in_range_length in R1, R2; rewrite lens_of_length in *; assumption).
    pose proof R1 as B1. pose proof R2 as B2. apply in_range_b_spec in B1, B2. rewrite B1, B2.
    cbn [option_map]. intros [= E]. eapply flat_inj; eauto.
  - (* matrix *)
    intros [Hn [Hr Hk]] _ _ i1 i2 R1 R2. cbn [c_shape c_get lens_of map snd] in *.
    destruct i1 as [|a1 [|b1 [|? ?]]]; cbn [in_range] in R1; try tauto.
    destruct i2 as [|a2 [|b2 [|? ?]]]; cbn [in_range] in R2; try tauto.
    destruct R1 as [A1 [B1 _]], R2 as [A2 [B2 _]].
    destruct (N.ltb_spec a1 r), (N.ltb_spec b1 k), (N.ltb_spec a2 r), (N.ltb_spec b2 k); try lia.
    cbn [andb]. intros [= E]. assert (a1 = a2) by nia. subst. f_equal. f_equal. lia.
  - (* range *)
    intros [Hw HF] Hu Hs i1 i2 R1 R2.
    pose proof (Forall2_length' _ _ _ HF) as Hlen.
    assert (L1 := in_range_length _ _ R1). assert (L2 := in_range_length _ _ R2).
    cbn [c_shape] in L1, L2. rewrite lens_of_length, zipwith_length in L1, L2 by lia.
    rewrite (mapping_range' c rs i1), (mapping_range' c rs i2) by (cbn [cwf]; auto).
    cbn [c_shape] in R1, R2. rewrite lens_range_shape in R1, R2 by lia.
    pose proof (range_step (c_shape c) rs i1 HF L1) as S1.
    pose proof (range_step (c_shape c) rs i2 HF L2) as S2.
    destruct (map_indexes_by_range i1 rs); [|contradiction].
    destruct (map_indexes_by_range i2 rs); [|contradiction].
    destruct S1 as [_ [Q1 ->]], S2 as [_ [Q2 ->]]. intros E.
    apply (IHc Hw Hu Hs) in E; auto. eapply range_spec_inj; eauto; lia.
  - (* mask *)
    intros [Hw HF] [HU Hu] Hs i1 i2 R1 R2.
    pose proof (Forall2_length' _ _ _ HF) as Hlen.
    assert (L1 := in_range_length _ _ R1). assert (L2 := in_range_length _ _ R2).
    cbn [c_shape] in L1, L2. rewrite lens_of_length, zipwith_length in L1, L2 by lia.
    cbn [c_shape c_get] in *. rewrite lens_mask_shape in R1, R2 by lia.
    destruct (mask_step (c_shape c) ms i1 HF HU L1) as [P1 S1].
    destruct (mask_step (c_shape c) ms i2 HF HU L2) as [P2 S2].
    intros E. apply (IHc Hw Hu Hs) in E; [| apply P1; exact R1 | apply P2; exact R2].
    rewrite (S1 R1), (S2 R2) in E. eapply mask_spec_inj; eauto; lia.
  - (* index *)
    intros [Hw HF] Hu Hs i1 i2 R1 R2. cbn [c_shape c_get] in *.
    assert (L1 := in_range_length _ _ R1). assert (L2 := in_range_length _ _ R2).
    rewrite lens_of_length in L1, L2.
    destruct (select_step (c_shape c) pr i1 HF L1) as [a1 [E1 [La1 H1]]].
    destruct (select_step (c_shape c) pr i2 HF L2) as [a2 [E2 [La2 H2]]].
    rewrite E1, E2. intros E. apply (IHc Hw Hu Hs) in E; [| apply H1; exact R1 | apply H2; exact R2].
    subst a2. eapply select_idx_inj; eauto; [lia|]. rewrite L1. apply unprovided_count. exact HF.
  - (* expansion *)
    intros [Hw [Hso [Hnd Hni]]] Hu Hs i1 i2 R1 R2. cbn [c_shape c_get] in *.
    set (sh := c_shape c) in *.
    assert (L1 := in_range_length _ _ R1). assert (L2 := in_range_length _ _ R2).
    rewrite lens_of_length in L1, L2.
    assert (Hgen : forall idx, length idx = (length sh + length ex)%nat -> _) by
      (intros idx Hl; exact (expand_step (length sh + length ex) sh 0 ex idx (length sh) Hso
                              ltac:(lia) eq_refl Hl)).
    destruct (Hgen (repeat 0 (length sh + length ex)) ltac:(apply repeat_length)) as [P _].
    apply Permutation_length in P. rewrite app_length in P. unfold extra_dims in P.
    rewrite map_length in P. rewrite P in L1, L2.
    destruct (Hgen i1 L1) as [_ H1]. destruct (Hgen i2 L2) as [_ H2].
    destruct (expand_idx i1 0 ex) as [a1|] eqn:E1; [|contradiction].
    destruct (expand_idx i2 0 ex) as [a2|] eqn:E2; [|contradiction].
    destruct H1 as [_ H1], H2 as [_ H2]. intros E.
    apply (IHc Hw Hu Hs) in E; [| apply H1; exact R1 | apply H2; exact R2]. subst a2.
    eapply expand_idx_inj; eauto. lia.
  - (* rename *)
    intros [Hw [Hl Hnd]] Hu Hs i1 i2 R1 R2. cbn [c_shape c_get] in *.
    destruct (lens_rename_shape (c_shape c) ns Hl) as [A _]. rewrite A in R1, R2.
    apply (IHc Hw Hu Hs); assumption.
  - (* reverse *)
    intros [Hw Hl] Hu Hs i1 i2 R1 R2. cbn [c_shape c_get] in *.
    destruct (cwf_contract c Hw Hu) as [[_ Hp] _].
    assert (L1 := in_range_length _ _ R1). assert (L2 := in_range_length _ _ R2).
    rewrite lens_of_length in L1, L2.
    destruct (reverse_step (c_shape c) rev i1 Hp Hl L1) as [_ [P1 S1]].
    destruct (reverse_step (c_shape c) rev i2 Hp Hl L2) as [_ [P2 S2]].
    intros E. apply (IHc Hw Hu Hs) in E; [| apply P1; exact R1 | apply P2; exact R2].
    rewrite (S1 R1), (S2 R2) in E. eapply reverse_spec_inj; eauto.
  - (* access *)
    intros [Hw [req [Hl Hnew]]] Hu Hs i1 i2 R1 R2. cbn [c_shape c_get] in *.
    destruct (cwf_contract c Hw Hu) as [[Hnd _] _].
    pose proof (access_shape_perm (c_shape c) req tbl Hnd Hl Hnew) as P.
    assert (L1 := in_range_length _ _ R1). assert (L2 := in_range_length _ _ R2).
    rewrite lens_of_length, (Permutation_length P) in L1, L2.
    destruct (access_step (c_shape c) req tbl i1 Hnd Hl Hnew L1) as [_ H1].
    destruct (access_step (c_shape c) req tbl i2 Hnd Hl Hnew L2) as [_ H2].
    intros E. apply (IHc Hw Hu Hs) in E; [| apply H1; exact R1 | apply H2; exact R2].
    eapply to_source_inj; eauto.
  - (* transpose *)
    intros [Hw [req [Hl Hnew]]] Hu Hs i1 i2 R1 R2. cbn [c_shape c_get] in *.
    destruct (cwf_contract c Hw Hu) as [[Hnd _] _].
    pose proof (access_shape_perm (c_shape c) req tbl Hnd Hl Hnew) as P.
    destruct (lens_transpose_shape (c_shape c) (map_shape_to_requested tbl (c_shape c))
                (Permutation_length P)) as [A _]. rewrite A in R1, R2.
    assert (L1 := in_range_length _ _ R1). assert (L2 := in_range_length _ _ R2).
    rewrite lens_of_length, (Permutation_length P) in L1, L2.
    destruct (access_step (c_shape c) req tbl i1 Hnd Hl Hnew L1) as [_ H1].
    destruct (access_step (c_shape c) req tbl i2 Hnd Hl Hnew L2) as [_ H2].
    intros E. apply (IHc Hw Hu Hs) in E; [| apply H1; exact R1 | apply H2; exact R2].
    eapply to_source_inj; eauto.
  - (* stack *)
    intros Hw Hu Hnd i1 i2 R1 R2 E.
    destruct (cwf_contract (CStack cs along n) Hw Hu) as [_ Hpres].
    destruct Hw as [Hne [Hall [Hal [Hnin Hsame]]]]. rewrite all_Forall in Hall, Hu.
    rewrite leaf_ids_flat in Hnd.
    assert (L1 := in_range_length _ _ R1). assert (L2 := in_range_length _ _ R2).
    rewrite lens_of_length in L1, L2.
    pose proof (proj2 (Hpres i1 L1) R1) as P1. pose proof (proj2 (Hpres i2 L2) R2) as P2.
    set (sh0 := first_shape cs) in *.
    assert (HS : length (c_shape (CStack cs along n)) = S (length sh0)).
    { cbn [c_shape]. fold (first_shape cs). fold sh0.
      destruct (stack_step sh0 0 along (n, N.of_nat (length cs)) (repeat 0 (S (length sh0)))
                  ltac:(lia) ltac:(apply repeat_length)) as [P _].
      apply Permutation_length in P. exact P. }
    rewrite HS in L1, L2.
    destruct (stack_step sh0 0 along (n, N.of_nat (length cs)) i1 ltac:(lia) L1) as [_ [LR1 _]].
    destruct (stack_step sh0 0 along (n, N.of_nat (length cs)) i2 ltac:(lia) L2) as [_ [LR2 _]].
    rewrite c_get_stack, pickN_spec in P1, P2. rewrite !c_get_stack, !pickN_spec in E.
    destruct (nth_error cs (N.to_nat (nth along i1 0))) as [ck1|] eqn:E1; [|congruence].
    destruct (nth_error cs (N.to_nat (nth along i2 0))) as [ck2|] eqn:E2; [|congruence].
    destruct (c_get ck1 (remove_at 0 along i1)) as [[l off]|] eqn:G1; [|congruence].
    symmetry in E. rename E into G2.
    pose proof (Forall_nth_error _ _ _ _ Hall E1) as W1. pose proof (Forall_nth_error _ _ _ _ Hall E2) as W2.
    destruct (cwf_resolves_in_bounds ck1 W1 _ _ _ G1) as [n1 [M1 _]].
    destruct (cwf_resolves_in_bounds ck2 W2 _ _ _ G2) as [n2 [M2 _]].
    assert (I1 : In l (leaf_ids ck1)) by (unfold leaf_ids; change l with (fst (l, n1)); apply in_map; exact M1).
    assert (I2 : In l (leaf_ids ck2)) by (unfold leaf_ids; change l with (fst (l, n2)); apply in_map; exact M2).
    assert (Hk : N.to_nat (nth along i1 0) = N.to_nat (nth along i2 0)).
    { destruct (Nat.eq_dec (N.to_nat (nth along i1 0)) (N.to_nat (nth along i2 0))) as [e|ne]; [exact e|].
      exfalso. exact (NoDup_flat_map_disjoint leaf_ids cs _ _ _ _ l Hnd E1 E2 ne I1 I2). }
    rewrite <- Hk in E2. rewrite E1 in E2. injection E2 as <-.
    pose proof (Forall_nth_error _ _ _ _ H E1) as IH.
    pose proof (Forall_nth_error _ _ _ _ Hu E1) as U1.
    pose proof (Forall_nth_error _ _ _ _ Hsame E1) as S1. cbn beta in S1.
    assert (N1 : NoDup (leaf_ids ck1)) by (eapply NoDup_flat_map_in; [exact Hnd|eapply nth_error_In; exact E1]).
    destruct (cwf_contract ck1 W1 U1) as [_ Hc1].
    assert (Q1 : in_range (remove_at 0 along i1) (lens_of (c_shape ck1)))
      by (apply Hc1; [rewrite S1; exact LR1|congruence]).
    assert (Q2 : in_range (remove_at 0 along i2) (lens_of (c_shape ck1)))
      by (apply Hc1; [rewrite S1; exact LR2|congruence]).
    assert (ER : remove_at 0 along i1 = remove_at 0 along i2)
      by (apply (IH W1 U1 N1 _ _ Q1 Q2); congruence).
    apply (remove_at_inj i1 i2 0 along); [lia| |lia|exact ER].
    rewrite Nat.sub_0_r. apply N2Nat.inj. exact Hk.
  - (* chain *)
    intros Hw Hu Hnd i1 i2 R1 R2 E.
    destruct (cwf_contract (CChain cs along) Hw Hu) as [_ Hpres].
    destruct Hw as [Hne [Hall [Hal Hsim]]]. rewrite all_Forall in Hall, Hu.
    rewrite leaf_ids_flat in Hnd.
    assert (L1 := in_range_length _ _ R1). assert (L2 := in_range_length _ _ R2).
    rewrite lens_of_length in L1, L2.
    pose proof (proj2 (Hpres i1 L1) R1) as P1. pose proof (proj2 (Hpres i2 L2) R2) as P2.
    set (sh0 := first_shape cs) in *.
    assert (HS : length (c_shape (CChain cs along)) = length sh0).
    { cbn [c_shape]. fold (first_shape cs). fold sh0. apply list_upd_length. }
    rewrite HS in L1, L2.
    rewrite c_get_chain in P1, P2. rewrite !c_get_chain in E.
    set (lens := map (fun c0 => len_at (c_shape c0) along) cs) in *.
    pose proof (chain_find_spec lens (nth along i1 0) 0) as F1.
    pose proof (chain_find_spec lens (nth along i2 0) 0) as F2.
    destruct (chain_find lens (nth along i1 0) 0) as [[k1 j1]|]; [|congruence].
    destruct (chain_find lens (nth along i2 0) 0) as [[k2 j2]|]; [|congruence].
    rewrite picknat_spec in P1, P2. rewrite !picknat_spec in E.
    destruct (nth_error cs k1) as [ck1|] eqn:E1; [|congruence].
    destruct (nth_error cs k2) as [ck2|] eqn:E2; [|congruence].
    destruct (c_get ck1 (list_upd i1 along j1)) as [[l off]|] eqn:G1; [|congruence].
    symmetry in E. rename E into G2.
    pose proof (Forall_nth_error _ _ _ _ Hall E1) as W1. pose proof (Forall_nth_error _ _ _ _ Hall E2) as W2.
    destruct (cwf_resolves_in_bounds ck1 W1 _ _ _ G1) as [n1 [M1 _]].
    destruct (cwf_resolves_in_bounds ck2 W2 _ _ _ G2) as [n2 [M2 _]].
    assert (I1 : In l (leaf_ids ck1)) by (unfold leaf_ids; change l with (fst (l, n1)); apply in_map; exact M1).
    assert (I2 : In l (leaf_ids ck2)) by (unfold leaf_ids; change l with (fst (l, n2)); apply in_map; exact M2).
    assert (Hk : k1 = k2).
    { destruct (Nat.eq_dec k1 k2) as [e|ne]; [exact e|].
      exfalso. exact (NoDup_flat_map_disjoint leaf_ids cs _ _ _ _ l Hnd E1 E2 ne I1 I2). }
    subst k2. rewrite E1 in E2. injection E2 as <-.
    pose proof (Forall_nth_error _ _ _ _ H E1) as IH.
    pose proof (Forall_nth_error _ _ _ _ Hu E1) as U1.
    pose proof (Forall_nth_error _ _ _ _ Hsim E1) as S1. cbn beta in S1.
    destruct (similar_from_spec _ _ _ _ S1) as [SL _].
    assert (N1 : NoDup (leaf_ids ck1)) by (eapply NoDup_flat_map_in; [exact Hnd|eapply nth_error_In; exact E1]).
    destruct (cwf_contract ck1 W1 U1) as [_ Hc1].
    assert (Q1 : in_range (list_upd i1 along j1) (lens_of (c_shape ck1)))
      by (apply Hc1; [rewrite list_upd_length; lia|congruence]).
    assert (Q2 : in_range (list_upd i2 along j2) (lens_of (c_shape ck1)))
      by (apply Hc1; [rewrite list_upd_length; lia|congruence]).
    assert (ER : list_upd i1 along j1 = list_upd i2 along j2)
      by (apply (IH W1 U1 N1 _ _ Q1 Q2); congruence).
    destruct F1 as [_ [_ S1']], F2 as [_ [_ S2']].
    assert (Hj : j1 = j2).
    { pose proof (f_equal (fun l0 => nth along l0 0) ER) as Hn. cbn beta in Hn.
      rewrite !list_upd_nth_same in Hn by lia. exact Hn. }
    apply nth_ext with (d := 0) (d' := 0); [lia|]. intros d Hd.
    destruct (Nat.eq_dec d along) as [->|Hne'].
    + rewrite S1', S2', Hj. reflexivity.
    + pose proof (f_equal (fun l0 => nth d l0 0) ER) as Hn. cbn beta in Hn.
      rewrite !list_upd_nth_other in Hn by exact Hne'. exact Hn.
  - (* wrap *)
    intros Hw Hu Hs i1 i2 R1 R2. cbn [c_shape c_get] in *. apply (IHc Hw Hu Hs); assumption.
Qed.

Lemma single_source_one_leaf c : single_source c -> exists x, c_leaves c = [x].
Proof.
  induction c using cview_ind'; cbn [single_source c_leaves]; intros Hs; try (apply IHc; exact Hs);
    try contradiction; eexists; reflexivity.
Qed.

Theorem single_source_injective c : cwf c -> usize_view c -> single_source c -> inj_on c.
Proof.
  intros Hw Hu Hs. apply view_injective; auto. unfold leaf_ids.
  destruct (single_source_one_leaf c Hs) as [x ->]. cbn. constructor; [intros []|constructor].
Qed.

(* write exactness: a write through the view at idx1 stores into (leaf, offset) = c_get c idx1;
   what any OTHER in-shape index reads is a different element, hence unchanged *)
Theorem view_write_exact c : cwf c -> usize_view c -> NoDup (leaf_ids c) ->
  forall i1 i2, in_range i1 (lens_of (c_shape c)) -> in_range i2 (lens_of (c_shape c)) ->
    i1 <> i2 -> c_get c i1 <> c_get c i2.
Proof. intros Hw Hu Hn i1 i2 R1 R2 Hne E. apply Hne. eapply view_injective; eauto. Qed.
