(* C09: iterators.  On top of Proofs/OdometerP.v (the ShapeIterator):
     - a generic "counting iterator" lemma: an iterator whose state has a position that each
       next() advances by one until `total` yields item(0), item(1), ... then None forever, and
       reports total - position as its length;
     - the tensor iterators (copy / reference / mutable / owned, WithIndex) over any source;
     - the matrix iterators (row / column / diagonal over a Range, row-major / column-major with
       their size hints), including empty (0xN, Nx0) sources;
     - WithIndex pairs each item with the index of the place it was read from;
     - the places handed out are pairwise distinct. *)
From Coq Require Import List ZArith NArith Bool Arith Lia.
From EasyML Require Import Base.Sx Model.Shape Model.Tensor Model.TSource Model.ShapeIter
  Model.MatrixIter Model.Transform Proofs.ShapeP Proofs.OdometerP.
Import ListNotations.
Open Scope N_scope.

(* ---------- generic counting iterators ---------- *)
Section Counting.
Context {St I : Type}.
Variable next : St -> option I * St.
Variable len : St -> N.
Variable pos : St -> N.
Variable total : N.
Variable inv : St -> Prop.     (* live states *)
Variable fin : St -> Prop.     (* exhausted states *)
Variable item : N -> I.

Hypothesis Hfin : forall s, fin s -> len s = 0 /\ exists s', next s = (None, s') /\ fin s'.
Hypothesis Hstep : forall s, inv s ->
  pos s < total /\ len s = total - pos s /\
  exists s', next s = (Some (item (pos s)), s') /\
    ((pos s + 1 < total /\ inv s' /\ pos s' = pos s + 1) \/ (pos s + 1 = total /\ fin s')).

Definition cexpected (q : N) : option I * N :=
  if q <? total then (Some (item q), total - q - 1) else (None, 0).

Lemma drive_S k s : fst (drive next len (S k) s) =
  (fst (next s), len (snd (next s))) :: fst (drive next len k (snd (next s))).
Proof.
  cbn [drive]. destruct (next s) as [x s']. cbn [fst snd].
  destruct (drive next len k s') as [rest s'']. reflexivity.
Qed.

Lemma drive_fin : forall k s, fin s -> fst (drive next len k s) = repeat (None, 0) k.
Proof.
  induction k as [|k IH]; intros s Hs; [reflexivity|].
  rewrite drive_S. destruct (Hfin s Hs) as [_ [s' [Hn Hs']]]. rewrite Hn. cbn [fst snd repeat].
  rewrite IH by exact Hs'. destruct (Hfin s' Hs') as [-> _]. reflexivity.
Qed.

Lemma repeat_expected_past q : forall n s, total <= q + N.of_nat s ->
  repeat (@None I, 0) n = map (fun j => cexpected (q + N.of_nat j)) (seq s n).
Proof.
  induction n as [|n IH]; intros s Hs; [reflexivity|].
  cbn [repeat seq map]. f_equal; [|apply IH; lia].
  unfold cexpected. destruct (N.ltb_spec (q + N.of_nat s) total); [lia|reflexivity].
Qed.

Theorem drive_counting : forall k s, inv s ->
  fst (drive next len k s) = map (fun j => cexpected (pos s + N.of_nat j)) (seq 0 k).
Proof.
  induction k as [|k IH]; intros s Hs; [reflexivity|].
  rewrite drive_S. destruct (Hstep s Hs) as [Hlt [Hlen [s' [Hn Hcase]]]]. rewrite Hn.
  cbn [fst snd seq map]. f_equal.
  - unfold cexpected. rewrite N.add_0_r. destruct (N.ltb_spec (pos s) total); [|lia]. f_equal.
    destruct Hcase as [[Hlt' [Hs' Hp]]|[He Hs']].
    + destruct (Hstep s' Hs') as [_ [-> _]]. lia.
    + destruct (Hfin s' Hs') as [-> _]. lia.
  - destruct Hcase as [[Hlt' [Hs' Hp]]|[He Hs']].
    + rewrite IH by exact Hs'. rewrite <- seq_shift, map_map. apply map_ext. intros j. f_equal. lia.
    + rewrite drive_fin by exact Hs'. apply repeat_expected_past. lia.
Qed.

(* the length reported after the j-th call is total - (pos + j + 1), and 0 beyond the end *)
Corollary counting_len_after k s : inv s ->
  map snd (fst (drive next len k s)) = map (fun j => total - (pos s + N.of_nat (S j))) (seq 0 k).
Proof.
  intros Hs. rewrite drive_counting by exact Hs. rewrite map_map. apply map_ext. intros j.
  unfold cexpected. destruct (N.ltb_spec (pos s + N.of_nat j) total); cbn [snd]; lia.
Qed.

End Counting.

(* ---------- helper: the Some items of an expected-run are a prefix of the enumeration ---------- *)

Lemma somes_prefix {X} (all : list X) (E : N) : N.of_nat (length all) = E ->
  forall k s, somes (map (fun j => if N.of_nat j <? E then nth_error all j else None) (seq s k))
              = firstn k (skipn s all).
Proof.
  intros HE. induction k as [|k IH]; intros s; [reflexivity|].
  cbn [seq map]. destruct (N.ltb_spec (N.of_nat s) E) as [Hlt|Hge].
  - destruct (nth_error all s) as [x|] eqn:Ex.
    + cbn [somes]. rewrite IH.
      assert (Hsk : skipn s all = x :: skipn (S s) all).
      { clear -Ex. revert s Ex. induction all as [|y all IHa]; intros [|s] Ex; cbn in *; try discriminate.
        - injection Ex as ->. reflexivity.
        - apply IHa. exact Ex. }
      rewrite Hsk. reflexivity.
    + apply nth_error_None in Ex. lia.
  - cbn [somes]. rewrite IH. rewrite !skipn_all2 by lia. destruct k; reflexivity.
Qed.

Lemma NoDup_app_l {X} (l1 l2 : list X) : NoDup (l1 ++ l2) -> NoDup l1.
Proof.
  induction l1 as [|x l1 IH]; cbn [app]; intros H; [constructor|].
  inversion H as [|? ? Hx Hn]; subst. constructor; [|apply IH; exact Hn].
  intros Hin. apply Hx. apply in_or_app. left. exact Hin.
Qed.

Lemma NoDup_firstn {X} (l : list X) k : NoDup l -> NoDup (firstn k l).
Proof.
  intros H. rewrite <- (firstn_skipn k l) in H. eapply NoDup_app_l. exact H.
Qed.

Lemma NoDup_map_inv' {X Y} (f : X -> Y) l : NoDup (map f l) -> NoDup l.
Proof.
  induction l as [|x l IH]; cbn [map]; intros H; [constructor|].
  inversion H as [|? ? Hx Hn]; subst. constructor; [|apply IH; exact Hn].
  intros Hin. apply Hx. apply in_map. exact Hin.
Qed.

Lemma nseq_NoDup s n : NoDup (nseq s n).
Proof.
  revert s; induction n as [|n IH]; intros s; cbn [nseq]; constructor; [|apply IH].
  assert (G : forall m t v, In v (nseq t m) -> t <= v).
  { induction m as [|m IHm]; intros t v; cbn [nseq In]; [tauto|].
    intros [<-|H]; [lia|]. apply IHm in H. lia. }
  intros H. apply G in H. lia.
Qed.

Lemma all_indexes_NoDup lens : NoDup (all_indexes lens).
Proof.
  apply (NoDup_map_inv' (fun x => flat x lens)). rewrite all_indexes_flat. apply nseq_NoDup.
Qed.

(* ---------- ShapeIterator: lengths and distinctness ---------- *)

Theorem shape_iter_len_after sh k :
  map snd (outs k (shape_iter_from sh)) = map (fun j => elements sh - N.of_nat (S j)) (seq 0 k).
Proof.
  rewrite shape_iter_outs, map_map. apply map_ext. intros j. unfold expected.
  fold (elements sh). destruct (N.ltb_spec (N.of_nat j) (elements sh)); cbn [snd]; lia.
Qed.

Theorem shape_iter_zero_length sh k : ~ lens_pos (lens_of sh) ->
  outs k (shape_iter_from sh) = repeat (None, 0) k /\ all_indexes (lens_of sh) = [].
Proof.
  intros H. pose proof (prod_zero _ H) as Hz. split.
  - rewrite shape_iter_outs. generalize 0%nat. induction k as [|k IH]; intros s; [reflexivity|].
    cbn [seq map repeat]. f_equal; [|apply IH]. unfold expected. rewrite Hz.
    destruct (N.ltb_spec (N.of_nat s) 0); [lia|reflexivity].
  - apply length_zero_iff_nil. rewrite all_indexes_length, Hz. reflexivity.
Qed.

(* the indexes yielded by the first k calls: a prefix of the enumeration *)
Theorem shape_iter_places sh k :
  somes (map fst (outs k (shape_iter_from sh))) = firstn k (all_indexes (lens_of sh)).
Proof.
  rewrite shape_iter_outs, map_map.
  rewrite <- (somes_prefix (all_indexes (lens_of sh)) (prod (lens_of sh))) with (s := 0%nat)
    by (rewrite all_indexes_length; lia).
  f_equal. apply map_ext. intros j. unfold expected.
  destruct (N.ltb_spec (N.of_nat j) (prod (lens_of sh))); cbn [fst]; [rewrite Nat2N.id|]; reflexivity.
Qed.

Theorem shape_iter_distinct sh k : NoDup (somes (map fst (outs k (shape_iter_from sh)))).
Proof. rewrite shape_iter_places. apply NoDup_firstn, all_indexes_NoDup. Qed.

(* ---------- tensor iterators over a source ---------- *)
Section TensorIters.
Context {A : Type}.

(* copy / reference / mutable: the source never changes, the item is (place, element there) *)
Lemma ti_next_eq (s : tsrc A) si :
  ti_next (mkTI si s) =
  (option_map (fun idx => (idx, src_get s idx)) (fst (iter_next si)), mkTI (snd (iter_next si)) s).
Proof.
  unfold ti_next. cbn [ti_shape_iter ti_source]. destruct (iter_next si) as [[idx|] si']; reflexivity.
Qed.

Lemma ti_drive (s : tsrc A) : forall k si,
  fst (drive ti_next ti_len k (mkTI si s)) =
  map (fun o => (option_map (fun idx => (idx, src_get s idx)) (fst o), snd o)) (outs k si).
Proof.
  induction k as [|k IH]; intros si; [reflexivity|].
  rewrite drive_S, outs_S, ti_next_eq. cbn [fst snd map]. rewrite IH. reflexivity.
Qed.

Theorem tensor_iter_enumerates (s : tsrc A) m :
  let all := all_indexes (lens_of (src_shape s)) in
  map fst (fst (drive ti_next ti_len (length all + m) (tensor_iter_from s))) =
  map (fun idx => Some (idx, src_get s idx)) all ++ repeat None m.
Proof.
  cbv zeta. unfold tensor_iter_from. rewrite ti_drive, map_map. cbn [fst].
  rewrite <- (map_map fst (option_map (fun idx => (idx, src_get s idx)))).
  rewrite shape_iter_enumerates, map_app, map_map. cbn [option_map]. f_equal.
  induction m as [|m IH]; [reflexivity|]. cbn [repeat map]. f_equal. exact IH.
Qed.

Theorem tensor_iter_len_after (s : tsrc A) k :
  ti_len (tensor_iter_from s) = elements (src_shape s) /\
  map snd (fst (drive ti_next ti_len k (tensor_iter_from s))) =
  map (fun j => elements (src_shape s) - N.of_nat (S j)) (seq 0 k).
Proof.
  split; [apply shape_iter_len0|].
  unfold tensor_iter_from. rewrite ti_drive, map_map. cbn [snd].
  rewrite <- shape_iter_len_after. apply map_ext. reflexivity.
Qed.

(* WithIndex: the index paired with an item is the place the item was read from; holds in every
   state, for the shared/mutable and for the owned iterators *)
Theorem with_index_true (it it' : tensor_iter A) index place v :
  ti_with_index ti_next it = (Some (index, (place, v)), it') -> index = place.
Proof.
  unfold ti_with_index, ti_next, iter_next.
  destruct (si_finished (ti_shape_iter it)); [discriminate|].
  destruct (length (si_shape (ti_shape_iter it))); intros [= <- <- _ _]; reflexivity.
Qed.

Theorem with_index_true_owned dflt (it it' : tensor_iter A) index place v :
  ti_with_index (ti_next_owned dflt) it = (Some (index, (place, v)), it') -> index = place.
Proof.
  unfold ti_with_index, ti_next_owned, iter_next.
  destruct (si_finished (ti_shape_iter it)); [discriminate|].
  destruct (length (si_shape (ti_shape_iter it))); intros [= <- <- _ _]; reflexivity.
Qed.

(* WithIndex does not change what is iterated: same items, same lengths *)
Lemma with_index_same (next : tensor_iter A -> option (list N * option A) * tensor_iter A) it :
  fst (ti_with_index next it) = option_map (fun x => (si_indexes (ti_shape_iter it), x)) (fst (next it))
  /\ snd (ti_with_index next it) = snd (next it).
Proof. unfold ti_with_index. destruct (next it) as [[x|] it']; split; reflexivity. Qed.

(* the owned iterator visits the same places with the same lengths, whatever it writes *)
Lemma ti_owned_places dflt : forall k si (s : tsrc A),
  map (fun o => (option_map fst (fst o), snd o)) (fst (drive (ti_next_owned dflt) ti_len k (mkTI si s)))
  = outs k si.
Proof.
  induction k as [|k IH]; intros si s; [reflexivity|].
  rewrite drive_S, outs_S.
  assert (E : exists s', ti_next_owned dflt (mkTI si s) =
            (option_map (fun idx => (idx, src_get s idx)) (fst (iter_next si)), mkTI (snd (iter_next si)) s')).
  { unfold ti_next_owned. cbn [ti_shape_iter ti_source].
    destruct (iter_next si) as [[idx|] si']; eexists; reflexivity. }
  destruct E as [s' E]. rewrite E. cbn [fst snd map]. rewrite IH.
  destruct (fst (iter_next si)); reflexivity.
Qed.

(* the places handed out by k calls of the mutable / owned iterators are pairwise distinct *)
Theorem tensor_iter_mut_distinct (s : tsrc A) k :
  NoDup (map fst (somes (map fst (fst (drive ti_next ti_len k (tensor_iter_from s)))))).
Proof.
  unfold tensor_iter_from. rewrite ti_drive, map_map. cbn [fst].
  assert (E : forall l : list (option (list N) * N),
            map fst (somes (map (fun o => option_map (fun idx => (idx, src_get s idx)) (fst o)) l))
            = somes (map fst l)).
  { induction l as [|[[x|] n] l IH]; cbn [map somes option_map fst]; [reflexivity| |exact IH].
    f_equal. exact IH. }
  rewrite E. apply shape_iter_distinct.
Qed.

Theorem tensor_iter_owned_distinct dflt (s : tsrc A) k :
  NoDup (map fst (somes (map fst (fst (drive (ti_next_owned dflt) ti_len k (tensor_iter_from s)))))).
Proof.
  unfold tensor_iter_from.
  pose proof (ti_owned_places dflt k (shape_iter_from (src_shape s)) s) as P.
  assert (E : forall l : list (option (list N * option A) * N),
            map fst (somes (map fst l)) = somes (map fst (map (fun o => (option_map fst (fst o), snd o)) l))).
  { induction l as [|[[x|] n] l IH]; cbn [map somes option_map fst]; [reflexivity| |exact IH].
    f_equal. exact IH. }
  rewrite E, P. apply shape_iter_distinct.
Qed.

End TensorIters.

(* ---------- a Tensor iterates its storage in order ---------- *)

Lemma somes_map_Some {X} (l : list X) : somes (map Some l) = l.
Proof. induction l as [|x l IH]; cbn [map somes]; [reflexivity|]. f_equal. exact IH. Qed.

(* ---------- matrix iterators ---------- *)
Section MatrixIters.
Context {A : Type}.

(* --- Range-based: column, row, diagonal --- *)
Definition li_inv (n : N) (it : line_iter A) : Prop :=
  snd (li_range it) = n /\ fst (li_range it) < n.
Definition li_fin (it : line_iter A) : Prop := snd (li_range it) <= fst (li_range it).

Lemma line_counting (kind : line_kind) (fixed n : N) (s : msrc A) k lo : lo < n ->
  fst (drive li_next li_len k (mkLI kind fixed (lo, n) s)) =
  map (fun j => cexpected n (fun q => let p := li_place (mkLI kind fixed (0, n) s) q in
                                      (p, ms_get s (fst p) (snd p))) (lo + N.of_nat j)) (seq 0 k).
Proof.
  intros Hlo.
  apply (drive_counting li_next li_len (fun it => fst (li_range it)) n
           (fun it => li_inv n it /\ li_kind it = kind /\ li_fixed it = fixed /\ li_source it = s)
           li_fin).
  - intros it Hf. unfold li_fin in Hf. split.
    + unfold li_len, range_len. destruct (N.ltb_spec (fst (li_range it)) (snd (li_range it))); [lia|reflexivity].
    + unfold li_next, range_next. destruct (N.ltb_spec (fst (li_range it)) (snd (li_range it))); [lia|].
      eexists. split; [reflexivity|]. exact Hf.
  - intros it [[Hn Hl] [Hk [Hfx Hs]]].
    destruct it as [kd fx [a b] src]. cbn [li_range li_kind li_fixed li_source fst snd] in *. subst.
    split; [exact Hl|]. split.
    + unfold li_len, range_len. cbn [li_range fst snd]. destruct (N.ltb_spec a n); [reflexivity|lia].
    + unfold li_next, range_next. cbn [li_range fst snd li_kind li_fixed li_source].
      destruct (N.ltb_spec a n); [|lia].
      eexists. split; [reflexivity|].
      unfold li_inv, li_fin. cbn [li_range fst snd li_kind li_fixed li_source].
      destruct (N.ltb_spec (a + 1) n); [left|right]; repeat split; auto; lia.
  - unfold li_inv. cbn. repeat split; auto.
Qed.

Lemma line_empty (kind : line_kind) (fixed : N) (s : msrc A) k lo n : n <= lo ->
  fst (drive li_next li_len k (mkLI kind fixed (lo, n) s)) = repeat (None, 0) k.
Proof.
  intros H. apply (drive_fin li_next li_len li_fin).
  - intros it Hf. unfold li_fin in Hf. split.
    + unfold li_len, range_len. destruct (N.ltb_spec (fst (li_range it)) (snd (li_range it))); [lia|reflexivity].
    + unfold li_next, range_next. destruct (N.ltb_spec (fst (li_range it)) (snd (li_range it))); [lia|].
      eexists. split; [reflexivity|]. exact Hf.
  - exact H.
Qed.

(* a uniform statement for both cases: n items (possibly 0), then None forever *)
Theorem line_iter_spec (kind : line_kind) (fixed n : N) (s : msrc A) k :
  fst (drive li_next li_len k (mkLI kind fixed (0, n) s)) =
  map (fun j => cexpected n (fun q => let p := li_place (mkLI kind fixed (0, n) s) q in
                                      (p, ms_get s (fst p) (snd p))) (N.of_nat j)) (seq 0 k)
  /\ li_len (mkLI kind fixed (0, n) s) = n.
Proof.
  split.
  - destruct (N.eq_dec n 0) as [->|Hn].
    + rewrite line_empty by lia. generalize 0%nat. induction k as [|k IH]; intros st; [reflexivity|].
      cbn [repeat seq map]. f_equal; [|apply IH]. unfold cexpected.
      destruct (N.ltb_spec (N.of_nat st) 0); [lia|reflexivity].
    + rewrite line_counting by lia. apply map_ext. intros j. f_equal.
  - unfold li_len, range_len. cbn [li_range fst snd]. destruct (N.ltb_spec 0 n); lia.
Qed.

(* --- row-major / column-major --- *)
Definition mi_pos (it : major_iter A) : N :=
  if mi_row_major it then mi_row_counter it * mi_columns it + mi_column_counter it
  else mi_column_counter it * mi_rows it + mi_row_counter it.

Definition mi_inv (rm : bool) (rows cols : N) (s : msrc A) (it : major_iter A) : Prop :=
  mi_row_major it = rm /\ mi_rows it = rows /\ mi_columns it = cols /\ mi_source it = s /\
  mi_finished it = false /\ mi_row_counter it < rows /\ mi_column_counter it < cols.

(* after the last element: finished, counters one past the end in the slow dimension; or the
   initial state of an empty source: finished, counters zero, one of the sizes zero *)
Definition mi_fin (rm : bool) (rows cols : N) (it : major_iter A) : Prop :=
  mi_row_major it = rm /\ mi_rows it = rows /\ mi_columns it = cols /\ mi_finished it = true /\
  ((if rm then mi_row_counter it = rows /\ mi_column_counter it = 0
    else mi_column_counter it = cols /\ mi_row_counter it = 0)
   \/ (mi_row_counter it = 0 /\ mi_column_counter it = 0 /\ (rows = 0 \/ cols = 0))).

Definition mi_place (rm : bool) (rows cols q : N) : N * N :=
  if rm then (q / cols, q mod cols) else (q mod rows, q / rows).

Ltac Zify.zify_post_hook ::= Z.div_mod_to_equations.

Lemma major_fin_facts rm rows cols (it : major_iter A) : mi_fin rm rows cols it ->
  mi_len it = 0 /\ exists it', mi_next it = (None, it') /\ mi_fin rm rows cols it'.
Proof.
  intros [Hrm [Hr [Hc [Hf Hcnt]]]]. destruct it as [rm' cc cols' rc rows' f src].
  cbn [mi_row_major mi_rows mi_columns mi_finished mi_row_counter mi_column_counter] in *. subst.
  split.
  - unfold mi_len, row_major_size_hint, column_major_size_hint.
    cbn [mi_row_major mi_rows mi_columns mi_row_counter mi_column_counter].
    destruct rm.
    + destruct (N.eqb_spec (rows - rc) 0); [reflexivity|].
      destruct (N.eqb_spec (rows - rc) 1); destruct Hcnt as [[? ?]|[? [? [?|?]]]]; subst; nia.
    + destruct (N.eqb_spec (cols - cc) 0); [reflexivity|].
      destruct (N.eqb_spec (cols - cc) 1); destruct Hcnt as [[? ?]|[? [? [?|?]]]]; subst; nia.
  - unfold mi_next, mi_step, row_major_step, column_major_step.
    cbn [mi_row_major mi_rows mi_columns mi_finished mi_row_counter mi_column_counter mi_source].
    destruct rm; eexists; (split; [reflexivity|]); unfold mi_fin; cbn; repeat split; auto.
Qed.

Lemma major_step_facts rm rows cols s (it : major_iter A) : mi_inv rm rows cols s it ->
  mi_pos it < rows * cols /\ mi_len it = rows * cols - mi_pos it /\
  exists it', mi_next it = (Some (let p := mi_place rm rows cols (mi_pos it) in
                                   (p, ms_get s (fst p) (snd p))), it') /\
    ((mi_pos it + 1 < rows * cols /\ mi_inv rm rows cols s it' /\ mi_pos it' = mi_pos it + 1)
     \/ (mi_pos it + 1 = rows * cols /\ mi_fin rm rows cols it')).
Proof.
  intros [Hrm [Hr [Hc [Hs [Hf [Hrc Hcc]]]]]]. destruct it as [rm' cc cols' rc rows' f src].
  cbn [mi_row_major mi_rows mi_columns mi_finished mi_row_counter mi_column_counter mi_source] in *.
  subst. unfold mi_pos, mi_len, mi_next, mi_step, mi_place.
  cbn [mi_row_major mi_rows mi_columns mi_finished mi_row_counter mi_column_counter mi_source].
  destruct rm.
  - (* row major *)
    split; [nia|]. split.
    { unfold row_major_size_hint.
      destruct (N.eqb_spec (rows - rc) 0); [lia|]. destruct (N.eqb_spec (rows - rc) 1); nia. }
    unfold row_major_step.
    assert (Hd : (rc * cols + cc) / cols = rc) by (symmetry; apply (N.div_unique _ _ _ cc); lia).
    assert (Hm : (rc * cols + cc) mod cols = cc) by (symmetry; apply (N.mod_unique _ _ rc); lia).
    rewrite Hd, Hm.
    destruct (N.eqb_spec cc (cols - 1)) as [Ec|Ec]; destruct (N.eqb_spec rc (rows - 1)) as [Er|Er];
      cbn [andb]; eexists; (split; [reflexivity|]);
      unfold mi_inv, mi_fin, mi_pos;
      cbn [mi_row_major mi_rows mi_columns mi_finished mi_row_counter mi_column_counter mi_source].
    + right. split; [nia|]. repeat split; auto. left. split; lia.
    + left. split; [nia|]. split; [repeat split; auto; lia|nia].
    + left. split; [nia|]. split; [repeat split; auto; lia|nia].
    + left. split; [nia|]. split; [repeat split; auto; lia|nia].
  - (* column major *)
    split; [nia|]. split.
    { unfold column_major_size_hint.
      destruct (N.eqb_spec (cols - cc) 0); [lia|]. destruct (N.eqb_spec (cols - cc) 1); nia. }
    unfold column_major_step.
    assert (Hd : (cc * rows + rc) / rows = cc) by (symmetry; apply (N.div_unique _ _ _ rc); lia).
    assert (Hm : (cc * rows + rc) mod rows = rc) by (symmetry; apply (N.mod_unique _ _ cc); lia).
    rewrite Hd, Hm.
    destruct (N.eqb_spec rc (rows - 1)) as [Er|Er]; destruct (N.eqb_spec cc (cols - 1)) as [Ec|Ec];
      cbn [andb]; eexists; (split; [reflexivity|]);
      unfold mi_inv, mi_fin, mi_pos;
      cbn [mi_row_major mi_rows mi_columns mi_finished mi_row_counter mi_column_counter mi_source].
    + right. split; [nia|]. repeat split; auto. left. split; lia.
    + left. split; [nia|]. split; [repeat split; auto; lia|nia].
    + left. split; [nia|]. split; [repeat split; auto; lia|nia].
    + left. split; [nia|]. split; [repeat split; auto; lia|nia].
Qed.

(* every call, from the initial state, over any source (empty ones included) *)
Theorem major_iter_spec (rm : bool) (s : msrc A) k :
  let rows := ms_rows s in let cols := ms_cols s in
  fst (drive mi_next mi_len k (major_iter_from rm s)) =
  map (fun j => cexpected (rows * cols)
                 (fun q => let p := mi_place rm rows cols q in (p, ms_get s (fst p) (snd p)))
                 (N.of_nat j)) (seq 0 k)
  /\ mi_len (major_iter_from rm s) = rows * cols.
Proof.
  cbv zeta. set (rows := ms_rows s). set (cols := ms_cols s).
  unfold major_iter_from, index_is_valid. fold rows cols.
  destruct (N.ltb_spec 0 rows) as [Hr|Hr]; destruct (N.ltb_spec 0 cols) as [Hc|Hc]; cbn [andb negb].
  1: { split.
       - rewrite (drive_counting mi_next mi_len mi_pos (rows * cols) (mi_inv rm rows cols s)
                    (mi_fin rm rows cols)
                    (fun q => let p := mi_place rm rows cols q in (p, ms_get s (fst p) (snd p)))).
         + apply map_ext. intros j. f_equal. unfold mi_pos. cbn. destruct rm; lia.
         + apply major_fin_facts.
         + apply major_step_facts.
         + unfold mi_inv. cbn. repeat split; auto.
       - pose proof (major_step_facts rm rows cols s (mkMI rm 0 cols 0 rows false s)) as F.
         destruct F as [_ [-> _]]; [unfold mi_inv; cbn; repeat split; auto|].
         unfold mi_pos. cbn. destruct rm; lia. }
  all: assert (Hz : rows * cols = 0) by nia; rewrite Hz; split.
  all: try (rewrite (drive_fin mi_next mi_len (mi_fin rm rows cols));
            [ generalize 0%nat; induction k as [|k IH]; intros st; [reflexivity|];
              cbn [repeat seq map]; f_equal; [|apply IH]; unfold cexpected;
              destruct (N.ltb_spec (N.of_nat st) 0); [lia|reflexivity]
            | apply major_fin_facts
            | unfold mi_fin; cbn; repeat split; auto; right; repeat split; auto; lia ]).
  all: pose proof (major_fin_facts rm rows cols (mkMI rm 0 cols 0 rows true s)) as F;
       destruct F as [-> _]; [|reflexivity];
       unfold mi_fin; cbn; repeat split; auto; right; repeat split; auto; lia.
Qed.

(* WithIndex over the major iterators *)
Theorem major_with_index_true (it it' : major_iter A) index place v :
  mi_with_index mi_next it = (Some (index, (place, v)), it') -> index = place.
Proof.
  unfold mi_with_index, mi_next, mi_step, row_major_step, column_major_step.
  destruct (mi_row_major it); destruct (mi_finished it); try discriminate.
  - destruct (mi_column_counter it =? mi_columns it - 1); intros [= <- <- _ _]; reflexivity.
  - destruct (mi_row_counter it =? mi_rows it - 1); intros [= <- <- _ _]; reflexivity.
Qed.

Theorem major_with_index_true_owned dflt (it it' : major_iter A) index place v :
  mi_with_index (mi_next_owned dflt) it = (Some (index, (place, v)), it') -> index = place.
Proof.
  unfold mi_with_index, mi_next_owned, mi_step, row_major_step, column_major_step.
  destruct (mi_row_major it); destruct (mi_finished it); try discriminate.
  - destruct (mi_column_counter it =? mi_columns it - 1); intros [= <- <- _ _]; reflexivity.
  - destruct (mi_row_counter it =? mi_rows it - 1); intros [= <- <- _ _]; reflexivity.
Qed.

(* distinct positions give distinct places: with the enumeration theorems, no element is handed
   out twice *)
Theorem mi_place_injective rm rows cols q1 q2 : q1 < rows * cols -> q2 < rows * cols ->
  mi_place rm rows cols q1 = mi_place rm rows cols q2 -> q1 = q2.
Proof.
  unfold mi_place. intros H1 H2. destruct rm; intros [= Ha Hb].
  - assert (cols <> 0) by nia.
    rewrite (N.div_mod q1 cols), (N.div_mod q2 cols) by assumption. rewrite Ha, Hb. reflexivity.
  - assert (rows <> 0) by nia.
    rewrite (N.div_mod q1 rows), (N.div_mod q2 rows) by assumption. rewrite Ha, Hb. reflexivity.
Qed.

Theorem li_place_injective kind fixed rg (s : msrc A) q1 q2 :
  li_place (mkLI kind fixed rg s) q1 = li_place (mkLI kind fixed rg s) q2 -> q1 = q2.
Proof. unfold li_place. cbn. destruct kind; intros [= ?]; auto. Qed.

End MatrixIters.
