(* C11, second extension wave: API forms of one operation that the histories use interchangeably.
   (1) transposition: the allocating `transpose` and the in-place `transpose_mut` (square swap
       loop and non-square rebuild) produce the same matrix with the same outcome from every valid
       state; transposing twice gives the matrix back.
   (2) element writes through view wrappers created between resizing steps and dropped again:
       MatrixView::from(&mut m).set / m.range_mut(0..rows, 0..columns).set (the C12 model's
       `write` through VMatrix / a full VRange) change the storage exactly as Matrix::set does and
       refuse exactly the same indexes. *)
From Coq Require Import List ZArith NArith Bool Arith Lia.
From EasyML Require Import Base.Sx Model.Matrix Model.MatrixViews
  Proofs.C11Spec Proofs.C11Ops Proofs.C11Transpose Proofs.C11P Proofs.C12P.
Import ListNotations.
Local Open Scope N_scope.

Section Forms.
Context {T : Type}.

(* ---------- transposition ---------- *)
Theorem transpose_forms_agree (s : matrix T) : Inv s -> nlen (m_data s) <= usize_max ->
  impl_step s OTransposeMut = impl_step s OTranspose /\
  snd (impl_step s OTranspose) = true /\
  abs (fst (impl_step s OTranspose)) = spec_transpose (abs s) /\
  m_rows (fst (impl_step s OTranspose)) = m_cols s /\ m_cols (fst (impl_step s OTranspose)) = m_rows s.
Proof.
  intros Hinv Hl. destruct (abs_of_inv s Hinv) as [Hr Hs].
  assert (Hf : fits (abs s)) by (apply fits_abs; assumption).
  assert (Hrows : m_rows s = nlen (abs s)) by (rewrite <- Hs at 1; reflexivity).
  assert (Hcols : m_cols s = N.of_nat (ncols (abs s))) by (rewrite <- Hs at 1; reflexivity).
  destruct (step_refines (abs s) OTransposeMut Hr Hf) as [E1 _].
  destruct (step_refines (abs s) OTranspose Hr Hf) as [E2 R]. rewrite Hs in E1, E2.
  rewrite E1, E2. cbn [spec_step fst snd] in *. split; [reflexivity|]. split; [reflexivity|].
  destruct (of_rows_abs _ R) as [A _]. split; [exact A|].
  destruct (rect_transpose (abs s) Hr) as [_ [Hn' [Hl' _]]].
  unfold of_rows. cbn [m_rows m_cols]. unfold nlen in *. rewrite Hl', Hn', Hrows, Hcols. split; reflexivity.
Qed.

Lemma list_eq_nth_error' {A} (l l' : list A) : (forall q, nth_error l q = nth_error l' q) -> l = l'.
Proof.
  revert l'; induction l as [|x l IH]; intros [|y l'] H; auto.
  - specialize (H 0%nat); discriminate.
  - specialize (H 0%nat); discriminate.
  - pose proof (H 0%nat) as H0. cbn in H0. injection H0 as ->. f_equal. apply IH. intros q. exact (H (S q)).
Qed.

Lemma spec_transpose_involutive (m : list (list T)) : rect m -> spec_transpose (spec_transpose m) = m.
Proof.
  intros Hr. pose proof Hr as [Hne [Hc Hall]].
  destruct (rect_transpose m Hr) as [Hr' [Hn' [Hl' Hall']]].
  destruct (rect_transpose _ Hr') as [_ [_ [Hl'' _]]].
  apply (nth_ext _ _ [] []); [rewrite Hl'', Hn'; reflexivity|].
  intros j Hj. rewrite Hl'', Hn' in Hj.
  rewrite nth_spec_transpose by (rewrite Hn'; exact Hj).
  apply list_eq_nth_error'. intros i.
  rewrite (nth_error_column_of _ _ j Hall' Hj i).
  destruct (nth_error (spec_transpose m) i) as [col|] eqn:Ei.
  - assert (Hi : (i < ncols m)%nat) by (rewrite <- Hl'; apply nth_error_Some; congruence).
    assert (Ec : col = column_of i m).
    { apply (nth_error_nth _ _ []) in Ei. rewrite nth_spec_transpose in Ei by exact Hi. now symmetry. }
    subst col. rewrite (nth_error_column_of m _ i Hall Hi j).
    rewrite (nth_error_nth' m [] Hj). reflexivity.
  - apply nth_error_None in Ei. rewrite Hl' in Ei. symmetry. apply nth_error_None.
    assert (Hrow : length (nth j m []) = ncols m).
    { rewrite Forall_forall in Hall. apply Hall. apply nth_In. exact Hj. }
    lia.
Qed.

(* transposing twice, in any mix of the two forms, gives the matrix back *)
Theorem transpose_twice (s : matrix T) (o1 o2 : op T) : Inv s -> nlen (m_data s) <= usize_max ->
  (o1 = OTranspose \/ o1 = OTransposeMut) -> (o2 = OTranspose \/ o2 = OTransposeMut) ->
  impl_step (fst (impl_step s o1)) o2 = (s, true).
Proof.
  intros Hinv Hl H1 H2. destruct (abs_of_inv s Hinv) as [Hr Hs].
  assert (Hf : fits (abs s)) by (apply fits_abs; assumption).
  assert (E1 : impl_step s o1 = (of_rows (spec_transpose (abs s)), true)).
  { destruct (step_refines (abs s) o1 Hr Hf) as [E _]. rewrite Hs in E. rewrite E.
    destruct H1 as [-> | ->]; reflexivity. }
  rewrite E1. cbn [fst].
  destruct (rect_transpose (abs s) Hr) as [Hr' _].
  destruct (step_refines (spec_transpose (abs s)) o2 Hr' (fits_transpose _ Hr Hf)) as [E _]. rewrite E.
  assert (E2 : spec_step (spec_transpose (abs s)) o2 = (spec_transpose (spec_transpose (abs s)), true))
    by (destruct H2 as [-> | ->]; reflexivity).
  rewrite E2. cbn [fst snd]. rewrite (spec_transpose_involutive _ Hr), Hs. reflexivity.
Qed.

(* ---------- element writes through view wrappers ---------- *)
Lemma vec_set_replace_nth (l : list T) : forall k v, (k < length l)%nat ->
  vec_set l k v = Some (replace_nth l k v).
Proof.
  induction l as [|x l IH]; intros [|k] v H; cbn [length] in H; try lia; cbn [vec_set replace_nth]; [reflexivity|].
  rewrite IH by lia. reflexivity.
Qed.

Theorem view_write_is_set (s : matrix T) r c v : Inv s -> nlen (m_data s) <= usize_max ->
  let res := match mset s r c v with Some s' => (m_data s', true) | None => (m_data s, false) end in
  (* MatrixView::from(&mut m).set(r, c, v) *)
  write (m_data s) (VMatrix (m_rows s) (m_cols s)) r c v = res /\
  (* m.range_mut(0..rows, 0..columns).set(r, c, v) *)
  write (m_data s) (range_from (VMatrix (m_rows s) (m_cols s)) (ir_of_range 0 (m_rows s)) (ir_of_range 0 (m_cols s)))
        r c v = res.
Proof.
  intros [I1 [I2 I3]] Hl res.
  assert (Hr : m_rows s <= usize_max) by nia. assert (Hc : m_cols s <= usize_max) by nia.
  assert (E : write (m_data s) (VMatrix (m_rows s) (m_cols s)) r c v = res).
  { unfold res, write, mset, get_index. cbn [try_get].
    destruct (N.ltb_spec r (m_rows s)) as [Hr1|Hr1]; cbn [andb]; [|reflexivity].
    destruct (N.ltb_spec c (m_cols s)) as [Hc1|Hc1]; [|reflexivity].
    assert (Hp : c + r * m_cols s < N.of_nat (length (m_data s))) by (unfold nlen in I3; nia).
    replace (c + r * m_cols s <? N.of_nat (length (m_data s))) with true by (symmetry; now apply N.ltb_lt).
    rewrite vec_set_replace_nth by lia. reflexivity. }
  split; [exact E|].
  assert (G : try_get (range_from (VMatrix (m_rows s) (m_cols s)) (ir_of_range 0 (m_rows s)) (ir_of_range 0 (m_cols s))) r c
              = try_get (VMatrix (m_rows s) (m_cols s)) r c).
  { unfold range_from, ir_clip, ir_of_range, sat_add, sat_sub. cbn [view_rows view_cols ir_start ir_length].
    replace (N.min (N.min (0 + (m_rows s - 0)) usize_max) (m_rows s) - 0) with (m_rows s) by lia.
    replace (N.min (N.min (0 + (m_cols s - 0)) usize_max) (m_cols s) - 0) with (m_cols s) by lia.
    cbn [try_get]. unfold ir_map. cbn [ir_start ir_length]. rewrite !N.add_0_r.
    destruct (r <? m_rows s) eqn:E1; destruct (c <? m_cols s) eqn:E2; cbn [try_get]; rewrite ?E1, ?E2; reflexivity. }
  rewrite <- E. unfold write. rewrite G. reflexivity.
Qed.

End Forms.
