(* C19, user-defined element types: the generic routines of src/linear_algebra.rs that divide
   (mean, variance, the covariance entry points, f1_score) evaluate their DOCUMENTED formula with
   the element type's own operations, in the documented order — for ANY dictionary of operations,
   no algebraic law assumed (so also for types that are not fields: integers, wrapping integers,
   a user-defined whole-number type, where a / n and a * (1 / n) differ).
   Also: the bit patterns answered by Pi for f32 / f64 denote the floats nearest to pi. *)
From Coq Require Import List ZArith NArith QArith Bool Arith Lia.
From EasyML Require Import Base.Sx Model.Num Model.Stats Model.Whole.
Import ListNotations.

Section AnyType.
Context {R : Type} (ops : numops R).

(* the documented formulas, written with the type's own + - * / only *)
Definition sum_of (l : list R) : R := fold_left (nadd ops) l (nzero ops).
(* the number of items, counted in T: 0 + 1 + 1 + ... *)
Definition count_of (l : list R) : R :=
  fold_left (fun c _ => nadd ops c (none_ ops)) l (nzero ops).
(* mean: "the sum of the data divided by its count" *)
Definition mean_formula (l : list R) : R := ndiv ops (sum_of l) (count_of l).
(* variance: "the mean of the squared differences from the mean" *)
Definition variance_formula (l : list R) : R :=
  let m := mean_formula l in
  mean_formula (map (fun x => nmul ops (nsub ops x m) (nsub ops x m)) l).
(* covariance entry: "the zero meaned dot product of the two feature vectors divided by the
   number of samples" — each mean is sum / n, the entry is sum / n: division by n comes last *)
Definition covariance_formula (n : R) (xs ys : list R) : R :=
  let mean_x := ndiv ops (sum_of xs) n in
  let mean_y := ndiv ops (sum_of ys) n in
  ndiv ops (sum_of (map (fun xy => nmul ops (nsub ops (fst xy) mean_x) (nsub ops (snd xy) mean_y))
                        (combine xs ys))) n.
(* f1: "2 * (precision * recall) / (precision + recall)", 2 = 1 + 1 *)
Definition f1_formula (p r : R) : R :=
  nmul ops (nadd ops (none_ ops) (none_ ops)) (ndiv ops (nmul ops p r) (nadd ops p r)).

Lemma mean_loop_any l : forall c s,
  mean_loop ops l c s =
  (fold_left (fun c _ => nadd ops c (none_ ops)) l c, fold_left (nadd ops) l s).
Proof. induction l as [|x l IH]; intros c s; cbn; [reflexivity|apply IH]. Qed.

Theorem any_type_mean l : l <> [] -> mean ops l = Ok (mean_formula l).
Proof.
  intros H. destruct l as [|x l]; [congruence|]. unfold mean. rewrite mean_loop_any. reflexivity.
Qed.

Theorem any_type_variance l : l <> [] -> variance ops l = Ok (variance_formula l).
Proof.
  intros H. destruct l as [|x l]; [congruence|]. unfold variance.
  rewrite any_type_mean by discriminate. cbn [obind].
  rewrite any_type_mean by discriminate. reflexivity.
Qed.

Lemma combine_map2 {A B A2 B2} (f : A -> A2) (g : B -> B2) xs ys :
  combine (map f xs) (map g ys) = map (fun xy => (f (fst xy), g (snd xy))) (combine xs ys).
Proof. revert ys; induction xs as [|x xs IH]; intros [|y ys]; cbn; auto. f_equal. apply IH. Qed.

Theorem cov_cell_is_formula n xs ys : cov_cell ops n xs ys = covariance_formula n xs ys.
Proof.
  unfold cov_cell, covariance_formula, isum, sum_of. rewrite combine_map2, map_map. reflexivity.
Qed.

Lemma nth_map_seq_any {A} (f : nat -> A) n i d : (i < n)%nat -> nth i (map f (seq 0 n)) d = f i.
Proof.
  intros H. rewrite (nth_indep _ d (f 0%nat)) by (rewrite map_length, seq_length; exact H).
  rewrite map_nth, seq_nth by exact H. reflexivity.
Qed.

Lemma square_table_entry_any n (cell : nat -> nat -> R) i j : (i < n)%nat -> (j < n)%nat ->
  nth j (nth i (square_table n cell) []) (nzero ops) = cell i j.
Proof.
  intros Hi Hj. unfold square_table. rewrite (nth_map_seq_any _ n i []) by exact Hi.
  apply nth_map_seq_any. exact Hj.
Qed.

(* every entry of the three covariance routines is the documented formula on the two feature
   vectors, n = T::from_usize(number of samples) *)
Theorem any_type_covariance (m : list (list R)) :
  (forall n, nof_N ops (N.of_nat (mrows m)) = Some n ->
     exists t, covariance_column_features ops m = Ok t /\
       forall i j, (i < mcols m)%nat -> (j < mcols m)%nat ->
         nth j (nth i t []) (nzero ops) =
         covariance_formula n (column_iter ops m i) (column_iter ops m j)) /\
  (forall n, nof_N ops (N.of_nat (mcols m)) = Some n ->
     exists t, covariance_row_features ops m = Ok t /\
       forall i j, (i < mrows m)%nat -> (j < mrows m)%nat ->
         nth j (nth i t []) (nzero ops) = covariance_formula n (row_iter m i) (row_iter m j)) /\
  (forall n0 n1 n, nof_N ops (N.of_nat (mcols m)) = Some n ->
     exists t, covariance ops (n0, n1) m n0 = Ok ((name_i, N.of_nat (mrows m)), (name_j, N.of_nat (mrows m)), t) /\
       forall i j, (i < mrows m)%nat -> (j < mrows m)%nat ->
         nth j (nth i t []) (nzero ops) = covariance_formula n (row_iter m i) (row_iter m j)) /\
  (forall n0 n1 n, n0 <> n1 -> nof_N ops (N.of_nat (mrows m)) = Some n ->
     exists t, covariance ops (n0, n1) m n1 = Ok ((name_i, N.of_nat (mcols m)), (name_j, N.of_nat (mcols m)), t) /\
       forall i j, (i < mcols m)%nat -> (j < mcols m)%nat ->
         nth j (nth i t []) (nzero ops) =
         covariance_formula n (column_iter ops m i) (column_iter ops m j)).
Proof.
  split; [|split; [|split]].
  - intros n Hn. unfold covariance_column_features. rewrite Hn. eexists. split; [reflexivity|].
    intros i j Hi Hj. rewrite square_table_entry_any by assumption. apply cov_cell_is_formula.
  - intros n Hn. unfold covariance_row_features. rewrite Hn. eexists. split; [reflexivity|].
    intros i j Hi Hj. rewrite square_table_entry_any by assumption. apply cov_cell_is_formula.
  - intros n0 n1 n Hn. unfold covariance. cbn [fst snd]. rewrite Nat.eqb_refl. rewrite Hn.
    eexists. split; [reflexivity|].
    intros i j Hi Hj. rewrite square_table_entry_any by assumption. apply cov_cell_is_formula.
  - intros n0 n1 n Hne Hn. unfold covariance. cbn [fst snd].
    destruct (Nat.eqb_spec n0 n1) as [E|_]; [congruence|]. rewrite Nat.eqb_refl. rewrite Hn.
    eexists. split; [reflexivity|].
    intros i j Hi Hj. rewrite square_table_entry_any by assumption. apply cov_cell_is_formula.
Qed.

Theorem any_type_f1 p r : f1_score ops p r = f1_formula p r.
Proof. reflexivity. Qed.
End AnyType.

(* ---------------- the whole-number type is a genuine non-field instance ---------------- *)
Open Scope Z_scope.
Example whole_is_not_a_field :
  (* truncating division: 7 / 2 = 3 but 7 * (1 / 2) = 0 *)
  ndiv Wholeops 7 2 = 3 /\ nmul Wholeops 7 (ndiv Wholeops 1 2) = 0 /\
  (* the seed demo: 4 samples of 2 features *)
  covariance_column_features Wholeops [[2; 1]; [4; 3]; [6; 2]; [8; 6]] = Ok [[5; 3]; [3; 3]] /\
  covariance Wholeops (0%nat, 1%nat) [[2; 1]; [4; 3]; [6; 2]; [8; 6]] 1%nat =
    Ok ((name_i, 2%N), (name_j, 2%N), [[5; 3]; [3; 3]]) /\
  mean Wholeops [1; 2; 4] = Ok 2 /\ variance Wholeops [1; 2; 4; 9] = Ok 9 /\
  (* with a hoisted reciprocal every entry would be 0: the formula is order sensitive *)
  (let rcp := ndiv Wholeops 1 4 in nmul Wholeops (sum_of Wholeops [2; 4; 6; 8]) rcp = 0) /\
  covariance_formula Wholeops 4 [2; 4; 6; 8] [1; 3; 2; 6] = 3.
Proof. vm_compute. repeat split. Qed.

(* ---------------- Pi ---------------- *)
(* std::f32::consts::PI / std::f64::consts::PI are the floats nearest to pi: every real in
   [3.14159265358979323, 3.14159265358979324] (pi = 3.14159265358979323846...) is within half a
   unit in the last place of the value the bit pattern denotes (ulp = 2^-22 resp. 2^-51 in [2, 4)) *)
Open Scope Q_scope.
Definition pi_lo : Q := 314159265358979323 # 100000000000000000.
Definition pi_hi : Q := 314159265358979324 # 100000000000000000.
Theorem pi_bits_nearest :
  ieee_value 23 127 pi_bits_f32 == 13176795 # 4194304 /\
  ieee_value 23 127 pi_bits_f32 - (1 # 8388608) < pi_lo /\
  pi_hi < ieee_value 23 127 pi_bits_f32 + (1 # 8388608) /\
  ieee_value 52 1023 pi_bits_f64 == 884279719003555 # 281474976710656 /\
  ieee_value 52 1023 pi_bits_f64 - (1 # 4503599627370496) < pi_lo /\
  pi_hi < ieee_value 52 1023 pi_bits_f64 + (1 # 4503599627370496).
Proof. repeat split; vm_compute; reflexivity. Qed.
