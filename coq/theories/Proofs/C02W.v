(* C02, third part: every present index resolves inside the stored data of one leaf
   (`resolves_in_bounds`), and full injectivity / write exactness for EVERY term including stack
   and chain, given pairwise distinct leaf ids (`view_injective`). *)
From Coq Require Import List ZArith NArith Bool Arith Lia Permutation.
From EasyML Require Import Base.Sx Model.Shape Model.Views Proofs.ShapeP Proofs.C01P
  Proofs.C02Lemmas Proofs.C02P.
Import ListNotations.
Open Scope N_scope.

(* ---------- the element a view resolves to lies inside one of its leaves ---------- *)
Theorem cwf_resolves_in_bounds c : cwf c -> forall idx l off,
  c_get c idx = Some (l, off) -> exists n, In (l, n) (c_leaves c) /\ off < n.
Proof.
  induction c using cview_ind'; cbn [cwf]; intros Hw idx l off Hg.
  - (* tensor *)
    destruct Hw as [[_ Hp] ->]. cbn [c_get c_leaves] in *.
    destruct (Nat.eq_dec (length idx) (length sh)) as [E|E].
    + rewrite get_index_direct_spec in Hg by exact E.
      destruct (in_range_b idx (lens_of sh)) eqn:B; cbn [option_map] in Hg; [|discriminate].
      injection Hg as <- <-. exists (elements sh). split; [left; reflexivity|].
      apply flat_lt. apply in_range_b_spec. exact B.
    + unfold get_index_direct in Hg. rewrite gid_bad_length in Hg by (rewrite lens_of_length; exact E).
      discriminate.
  - (* matrix *)
    cbn [c_get c_leaves] in *. destruct idx as [|a [|b [|? ?]]]; try discriminate.
    destruct (N.ltb_spec a r), (N.ltb_spec b k); cbn [andb] in Hg; try discriminate.
    injection Hg as <- <-. exists (r * k). split; [left; reflexivity|nia].
  - destruct Hw as [Hw _]. cbn [c_get c_leaves] in *.
    destruct (map_indexes_by_range idx rs); [|discriminate]. eapply IHc; eauto.
  - destruct Hw as [Hw _]. cbn [c_get c_leaves] in *. eapply IHc; eauto.
  - destruct Hw as [Hw _]. cbn [c_get c_leaves] in *.
    destruct (select_idx pr idx); [|discriminate]. eapply IHc; eauto.
  - destruct Hw as [Hw _]. cbn [c_get c_leaves] in *.
    destruct (expand_idx idx 0 ex); [|discriminate]. eapply IHc; eauto.
  - destruct Hw as [Hw _]. cbn [c_get c_leaves] in *. eapply IHc; eauto.
  - destruct Hw as [Hw _]. cbn [c_get c_leaves] in *. eapply IHc; eauto.
  - destruct Hw as [Hw _]. cbn [c_get c_leaves] in *. eapply IHc; eauto.
  - destruct Hw as [Hw _]. cbn [c_get c_leaves] in *. eapply IHc; eauto.
  - (* stack *)
    destruct Hw as [_ [Hall _]]. rewrite all_Forall in Hall.
    rewrite c_get_stack, pickN_spec in Hg.
    destruct (nth_error cs (N.to_nat (nth along idx 0))) as [ck|] eqn:Ek; [|discriminate].
    pose proof (Forall_nth_error _ _ _ _ H Ek) as IH. pose proof (Forall_nth_error _ _ _ _ Hall Ek) as Hwk.
    destruct (IH Hwk _ _ _ Hg) as [n0 [Hin Hlt]]. exists n0. split; [|exact Hlt].
    cbn [c_leaves]. apply in_flat_map. exists ck. split; [eapply nth_error_In; exact Ek|exact Hin].
  - (* chain *)
    destruct Hw as [_ [Hall _]]. rewrite all_Forall in Hall.
    rewrite c_get_chain in Hg. destruct (chain_find _ _ _) as [[k i]|]; [|discriminate].
    rewrite picknat_spec in Hg. destruct (nth_error cs k) as [ck|] eqn:Ek; [|discriminate].
    pose proof (Forall_nth_error _ _ _ _ H Ek) as IH. pose proof (Forall_nth_error _ _ _ _ Hall Ek) as Hwk.
    destruct (IH Hwk _ _ _ Hg) as [n0 [Hin Hlt]]. exists n0. split; [|exact Hlt].
    cbn [c_leaves]. apply in_flat_map. exists ck. split; [eapply nth_error_In; exact Ek|exact Hin].
  - cbn [c_get c_leaves] in *. eapply IHc; eauto.
Qed.

Theorem resolves_in_bounds v c idx l off : v_ctor v = Ok c -> c_get c idx = Some (l, off) ->
  exists n, In (l, n) (c_leaves c) /\ off < n.
Proof. intros H. apply cwf_resolves_in_bounds. eapply ctor_wf; exact H. Qed.
