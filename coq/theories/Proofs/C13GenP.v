(* C13 over ANY TensorRef source (Model/TransformG.v).
   1. On the source terms of Model/TSource.v the generic transcriptions ARE the transcriptions of
      Model/Transform.v (`gen_*_on_terms`).
   2. They observe a source only through its view_shape and its elements at in-range indexes
      (`g_equiv g s`), so they agree with the term versions on any source term that exposes the same
      shape and elements (`equiv_*`).
   3. Every abstract source meeting the TensorRef contract (`g_contract`) has such a stand-in: the
      tensor of its elements, built by Tensor::from (`contract_standin`); hence every C13 theorem
      proved for constructed source terms holds for it (`gen_map_materialises`, `gen_reorder`,
      `gen_equality_iff`, `gen_similarity_iff`, ...).
   4. Every constructed view of the C02 algebra over covering leaf storage meets the contract
      (`cview_contract`) -- by C02's view_shape_valid / view_present_iff / resolves_in_bounds. *)
From Coq Require Import List ZArith NArith Bool Arith Lia Permutation.
From EasyML Require Import Base.Sx Model.Shape Model.Tensor Model.TSource Model.ShapeIter
  Model.Transform Model.TransformG Proofs.ShapeP Proofs.C01P Proofs.OdometerP Proofs.C09P Proofs.C13P
  Proofs.C13bP Proofs.C13SymP Proofs.SwapLoopP Proofs.SrcWfP Proofs.C13CtorP.
From EasyML Require Model.Views Proofs.C02P Proofs.C02Q Proofs.C02W.
Import ListNotations.
Open Scope N_scope.

Section Gen.
Context {A : Type}.

(* ---------- 1. agreement on source terms ---------- *)
Lemma gen_values_on_terms (s : tsrc A) : g_iter_values (of_tsrc s) = iter_values s.
Proof.
  unfold g_iter_values, g_iter. cbn [of_tsrc gs_shape gs_get].
  rewrite shape_iter_all_spec, map_map, iter_values_spec. reflexivity.
Qed.
Lemma gen_indexed_on_terms (s : tsrc A) : g_iter_indexed (of_tsrc s) = iter_indexed s.
Proof.
  unfold g_iter_indexed, g_iter. cbn [of_tsrc gs_shape gs_get].
  rewrite shape_iter_all_spec, map_map, iter_indexed_spec. reflexivity.
Qed.
Lemma gen_access_on_terms (s : tsrc A) tbl : g_access (of_tsrc s) tbl = of_tsrc (TAccess s tbl).
Proof. reflexivity. Qed.

(* ---------- 2. the operations observe (view_shape, in-range elements) only ---------- *)
Definition g_equiv (g : gsrc A) (s : tsrc A) : Prop :=
  gs_shape g = src_shape s /\
  forall idx, in_range idx (lens_of (src_shape s)) -> gs_get g idx = src_get s idx.

Lemma of_tsrc_equiv (s : tsrc A) : g_equiv (of_tsrc s) s.
Proof. split; reflexivity. Qed.

Lemma equiv_iter (g : gsrc A) s : g_equiv g s ->
  g_iter g = map (fun idx => (idx, src_get s idx)) (all_indexes (lens_of (src_shape s))).
Proof.
  intros [Hs Hg]. unfold g_iter. rewrite shape_iter_all_spec, Hs. apply map_ext_in. intros idx Hin.
  f_equal. apply Hg. pose proof (all_indexes_in_range (lens_of (src_shape s))) as F.
  rewrite Forall_forall in F. apply F. exact Hin.
Qed.
Lemma equiv_values (g : gsrc A) s : g_equiv g s -> g_iter_values g = iter_values s.
Proof.
  intros H. unfold g_iter_values. rewrite (equiv_iter g s H), map_map, iter_values_spec. reflexivity.
Qed.
Lemma equiv_indexed (g : gsrc A) s : g_equiv g s -> g_iter_indexed g = iter_indexed s.
Proof.
  intros H. unfold g_iter_indexed. rewrite (equiv_iter g s H), map_map, iter_indexed_spec. reflexivity.
Qed.

Lemma equiv_access (g : gsrc A) s req tbl : g_equiv g s ->
  NoDup (names_of (src_shape s)) -> length req = length (src_shape s) ->
  dm_new (names_of (src_shape s)) req = Some tbl ->
  g_equiv (g_access g tbl) (TAccess s tbl).
Proof.
  intros [Hs Hg] Hnd Hl Hnew. split.
  - cbn [g_access gs_shape src_shape]. rewrite Hs. reflexivity.
  - intros idx Hr. cbn [g_access gs_get src_get]. apply Hg.
    apply (m2s_in_range s req tbl Hnd Hl Hnew). exact Hr.
Qed.

Section Ops.
Variables (g : gsrc A) (s : tsrc A).
Hypothesis H : g_equiv g s.
Hypothesis Hnd : NoDup (names_of (src_shape s)).

Lemma equiv_map {B} (f : A -> B) : g_map f g = view_map f s.
Proof. unfold g_map, view_map. rewrite (equiv_values g s H), (proj1 H). reflexivity. Qed.
Lemma equiv_map_with_index {B} (f : list N -> A -> B) : g_map_with_index f g = view_map_with_index f s.
Proof.
  unfold g_map_with_index, view_map_with_index. rewrite (equiv_indexed g s H), (proj1 H). reflexivity.
Qed.
Lemma equiv_reorder dims : length dims = length (src_shape s) -> g_reorder g dims = reorder s dims.
Proof.
  intros Hl. unfold g_reorder, reorder. rewrite (proj1 H).
  destruct (dm_new (names_of (src_shape s)) dims) as [tbl|] eqn:E; [|reflexivity].
  pose proof (equiv_access g s dims tbl H Hnd Hl E) as Ha.
  rewrite (equiv_values _ _ Ha), (proj1 Ha). reflexivity.
Qed.
Lemma equiv_transpose dims : length dims = length (src_shape s) -> g_transpose g dims = transpose s dims.
Proof. intros Hl. unfold g_transpose, transpose. rewrite (equiv_reorder dims Hl), (proj1 H). reflexivity. Qed.
End Ops.

Section Ops2.
Variables (gl gr : gsrc A) (l r : tsrc A).
Hypothesis Hl : g_equiv gl l.
Hypothesis Hr : g_equiv gr r.
Hypothesis Ndl : NoDup (names_of (src_shape l)).
Hypothesis Ndr : NoDup (names_of (src_shape r)).

Lemma equiv_elementwise f : g_elementwise f gl gr = view_elementwise f l r.
Proof.
  unfold g_elementwise, view_elementwise.
  rewrite (equiv_values _ _ Hl), (equiv_values _ _ Hr), (proj1 Hl), (proj1 Hr). reflexivity.
Qed.
Lemma equiv_elementwise_with_index f :
  g_elementwise_with_index f gl gr = view_elementwise_with_index f l r.
Proof.
  unfold g_elementwise_with_index, view_elementwise_with_index.
  rewrite (equiv_indexed _ _ Hl), (equiv_values _ _ Hr), (proj1 Hl), (proj1 Hr). reflexivity.
Qed.

Variable eqb : A -> A -> bool.
Lemma equiv_equality : g_equality eqb gl gr = tensor_equality eqb l r.
Proof.
  unfold g_equality, tensor_equality.
  rewrite (equiv_values _ _ Hl), (equiv_values _ _ Hr), (proj1 Hl), (proj1 Hr). reflexivity.
Qed.
Lemma equiv_similarity : length (src_shape l) = length (src_shape r) ->
  g_similarity eqb gl gr = tensor_similarity eqb l r.
Proof.
  intros HD.
  unfold g_similarity, tensor_similarity. cbv zeta. rewrite (proj1 Hl), (proj1 Hr).
  assert (Ln : length (names_of (src_shape l)) = length (src_shape l)) by (unfold names_of; apply map_length).
  pose proof (dm_new_same (names_of (src_shape l))) as Hsame. rewrite Ln in Hsame.
  pose proof (equiv_access gl l _ _ Hl Ndl Ln Hsame) as Hla.
  destruct (dm_new (names_of (src_shape r)) (names_of (src_shape l))) as [tbl|] eqn:E; [|reflexivity].
  assert (Lr : length (names_of (src_shape l)) = length (src_shape r)) by (rewrite Ln; exact HD).
  pose proof (equiv_access gr r _ _ Hr Ndr Lr E) as Hra.
  rewrite (equiv_values _ _ Hla), (equiv_values _ _ Hra), (proj1 Hra). reflexivity.
Qed.
End Ops2.

(* ---------- 3. the contract gives a constructed stand-in ---------- *)
Definition g_contract (g : gsrc A) : Prop :=
  valid_shape (gs_shape g) /\ elements (gs_shape g) <= usize_max /\
  forall idx, in_range idx (lens_of (gs_shape g)) -> exists x, gs_get g idx = Some x.

Theorem contract_standin (g : gsrc A) : g_contract g ->
  exists s, constructed s /\ g_equiv g s.
Proof.
  intros [Hv [Hb Ht]].
  destruct (all_indexes (lens_of (gs_shape g))) as [|i0 rest] eqn:Eall.
  { exfalso. pose proof (all_indexes_length (lens_of (gs_shape g))) as L. rewrite Eall in L.
    destruct Hv as [_ Hp]. pose proof (prod_pos _ Hp). cbn [length] in L. lia. }
  destruct (Ht i0) as [x0 Hx0].
  { pose proof (all_indexes_in_range (lens_of (gs_shape g))) as F. rewrite Eall in F.
    inversion F; assumption. }
  set (g0 := fun idx => match gs_get g idx with Some x => x | None => x0 end).
  destruct (from_enumeration (gs_shape g) g0 Hv Hb) as [t [Hok [[Hsh [Hst Hm]] _]]].
  exists (TBase t). split; [eapply C_base; exact Hok|]. split; [cbn [src_shape]; congruence|].
  cbn [src_shape src_get]. rewrite Hsh. intros idx Hr. rewrite (Hm idx Hr). unfold g0.
  destruct (Ht idx Hr) as [x Hx]. rewrite Hx. reflexivity.
Qed.

Lemma standin_nodup (g : gsrc A) s : g_contract g -> g_equiv g s -> NoDup (names_of (src_shape s)).
Proof. intros [[Hnd _] _] [Hs _]. rewrite <- Hs. exact Hnd. Qed.

(* ---------- the C13 theorems for any source meeting the contract ---------- *)
Theorem gen_map_materialises {B} (f : A -> B) (g : gsrc A) : g_contract g ->
  exists t, g_map f g = Ok t /\
            materialises t (gs_shape g) (fun idx => option_map f (gs_get g idx)).
Proof.
  intros Hc. destruct (contract_standin g Hc) as [s [Hs He]].
  destruct (ctor_map f s Hs) as [t [Hok [Hsh [Hst Hm]]]].
  exists t. split; [rewrite (equiv_map g s He); exact Hok|].
  destruct He as [Es Eg]. unfold materialises. rewrite Es. repeat split; auto.
  intros idx Hr. rewrite (Hm idx Hr), (Eg idx Hr). reflexivity.
Qed.

Theorem gen_map_with_index_materialises {B} (f : list N -> A -> B) (g : gsrc A) : g_contract g ->
  exists t, g_map_with_index f g = Ok t /\
            materialises t (gs_shape g) (fun idx => option_map (f idx) (gs_get g idx)).
Proof.
  intros Hc. destruct (contract_standin g Hc) as [s [Hs He]].
  destruct (ctor_map_with_index f s Hs) as [t [Hok [Hsh [Hst Hm]]]].
  exists t. split; [rewrite (equiv_map_with_index g s He); exact Hok|].
  destruct He as [Es Eg]. unfold materialises. rewrite Es. repeat split; auto.
  intros idx Hr. rewrite (Hm idx Hr), (Eg idx Hr). reflexivity.
Qed.

Theorem gen_reorder (g : gsrc A) dims : g_contract g -> length dims = length (gs_shape g) ->
  match dm_new (names_of (gs_shape g)) dims with
  | Some tbl => exists t, g_reorder g dims = Ok t /\
                          materialises t (gs_shape (g_access g tbl)) (gs_get (g_access g tbl))
  | None => g_reorder g dims = Panic
  end.
Proof.
  intros Hc Hl. destruct (contract_standin g Hc) as [s [Hs He]].
  pose proof (standin_nodup g s Hc He) as Hnd.
  assert (Hl' : length dims = length (src_shape s)) by (rewrite <- (proj1 He); exact Hl).
  pose proof (ctor_reorder s dims Hs Hl') as R. rewrite (equiv_reorder g s He Hnd dims Hl').
  rewrite (proj1 He). destruct (dm_new (names_of (src_shape s)) dims) as [tbl|] eqn:E; [|exact R].
  destruct R as [t [Hok [Hsh [Hst Hm]]]]. exists t. split; [exact Hok|].
  destruct (equiv_access g s dims tbl He Hnd Hl' E) as [Es Eg].
  unfold materialises. rewrite Es. repeat split; auto.
  intros idx Hr. rewrite (Hm idx Hr), (Eg idx Hr). reflexivity.
Qed.

Theorem gen_transpose (g : gsrc A) dims : g_contract g -> length dims = length (gs_shape g) ->
  match dm_new (names_of (gs_shape g)) dims with
  | Some tbl => exists t, g_transpose g dims = Ok t /\
      materialises t (with_names_of (gs_shape g) (gs_shape (g_access g tbl))) (gs_get (g_access g tbl))
  | None => g_transpose g dims = Panic
  end.
Proof.
  intros Hc Hl. destruct (contract_standin g Hc) as [s [Hs He]].
  pose proof (standin_nodup g s Hc He) as Hnd.
  assert (Hl' : length dims = length (src_shape s)) by (rewrite <- (proj1 He); exact Hl).
  pose proof (ctor_transpose s dims Hs Hl') as R. rewrite (equiv_transpose g s He Hnd dims Hl').
  rewrite (proj1 He). destruct (dm_new (names_of (src_shape s)) dims) as [tbl|] eqn:E; [|exact R].
  destruct R as [t [Hok [Hsh [Hst Hm]]]]. exists t. split; [exact Hok|].
  destruct (equiv_access g s dims tbl He Hnd Hl' E) as [Es Eg].
  cbn [g_access gs_shape gs_get] in *. cbn [src_shape src_get] in *. rewrite (proj1 He).
  unfold materialises. repeat split; auto.
  intros idx Hr. rewrite (Hm idx Hr). symmetry. apply Eg.
  unfold with_names_of in Hr. fold (with_names_of (src_shape s) (map_shape_to_requested tbl (src_shape s))) in Hr.
  rewrite lens_with_names in Hr; [exact Hr|].
  unfold map_shape_to_requested. rewrite map_length.
  pose proof (r2s_length _ _ _ E) as L. unfold names_of in L. rewrite map_length in L. exact (eq_sym L).
Qed.

Theorem gen_elementwise (f : A -> A -> A) (l r : gsrc A) : g_contract l -> g_contract r ->
  (gs_shape l = gs_shape r ->
   exists t, g_elementwise f l r = Ok t /\
     materialises t (gs_shape l)
       (fun idx => match gs_get l idx, gs_get r idx with Some x, Some y => Some (f x y) | _, _ => None end)) /\
  (gs_shape l <> gs_shape r -> g_elementwise f l r = Panic).
Proof.
  intros Hcl Hcr. destruct (contract_standin l Hcl) as [sl [Hsl Hel]].
  destruct (contract_standin r Hcr) as [sr [Hsr Her]].
  rewrite (equiv_elementwise l r sl sr Hel Her). destruct (ctor_elementwise f sl sr Hsl Hsr) as [P1 P2].
  rewrite (proj1 Hel), (proj1 Her). split; [|exact P2].
  intros Es. destruct (P1 Es) as [t [Hok [Hsh [Hst Hm]]]]. exists t. split; [exact Hok|].
  unfold materialises. repeat split; auto. intros idx Hr. rewrite (Hm idx Hr). unfold zip_get.
  rewrite (proj2 Hel idx Hr). rewrite Es in Hr. rewrite (proj2 Her idx Hr). reflexivity.
Qed.

Section Eq.
Variable eqb : A -> A -> bool.
Hypothesis eqb_spec : forall x y, eqb x y = true <-> x = y.

Theorem gen_equality_iff (l r : gsrc A) : g_contract l -> g_contract r ->
  (g_equality eqb l r = true <->
   gs_shape l = gs_shape r /\
   forall idx, in_range idx (lens_of (gs_shape l)) -> gs_get l idx = gs_get r idx).
Proof.
  intros Hcl Hcr. destruct (contract_standin l Hcl) as [sl [Hsl Hel]].
  destruct (contract_standin r Hcr) as [sr [Hsr Her]].
  rewrite (equiv_equality l r sl sr Hel Her eqb), (ctor_equality_iff eqb eqb_spec sl sr Hsl Hsr).
  rewrite (proj1 Hel), (proj1 Her). split; intros [Es Hg]; (split; [exact Es|]); intros idx Hr.
  - rewrite (proj2 Hel idx Hr), (Hg idx Hr). rewrite Es in Hr. rewrite (proj2 Her idx Hr). reflexivity.
  - rewrite <- (proj2 Hel idx Hr), (Hg idx Hr). rewrite Es in Hr. rewrite (proj2 Her idx Hr). reflexivity.
Qed.

Theorem gen_similarity_iff (l r : gsrc A) : g_contract l -> g_contract r ->
  length (gs_shape l) = length (gs_shape r) ->
  (g_similarity eqb l r = true <->
   exists tbl, dm_new (names_of (gs_shape r)) (names_of (gs_shape l)) = Some tbl /\
     gs_shape l = gs_shape (g_access r tbl) /\
     forall idx, in_range idx (lens_of (gs_shape l)) -> gs_get l idx = gs_get (g_access r tbl) idx).
Proof.
  intros Hcl Hcr HD. destruct (contract_standin l Hcl) as [sl [Hsl Hel]].
  destruct (contract_standin r Hcr) as [sr [Hsr Her]].
  pose proof (standin_nodup l sl Hcl Hel) as Ndl. pose proof (standin_nodup r sr Hcr Her) as Ndr.
  assert (HD' : length (src_shape sl) = length (src_shape sr))
    by (rewrite <- (proj1 Hel), <- (proj1 Her); exact HD).
  rewrite (equiv_similarity l r sl sr Hel Her Ndl Ndr eqb HD').
  rewrite (ctor_similarity_iff eqb eqb_spec sl sr Hsl Hsr HD').
  rewrite (proj1 Hel), (proj1 Her).
  split; intros [tbl [Hnew [Es Hg]]]; exists tbl; (split; [exact Hnew|]).
  - assert (Lr : length (names_of (src_shape sl)) = length (src_shape sr))
      by (unfold names_of; rewrite map_length; exact HD').
    destruct (equiv_access r sr _ tbl Her Ndr Lr Hnew) as [Ea Eg].
    split; [rewrite Ea; exact Es|]. intros idx Hr.
    rewrite (proj2 Hel idx Hr), (Hg idx Hr). symmetry. apply Eg. rewrite <- Es. exact Hr.
  - assert (Lr : length (names_of (src_shape sl)) = length (src_shape sr))
      by (unfold names_of; rewrite map_length; exact HD').
    destruct (equiv_access r sr _ tbl Her Ndr Lr Hnew) as [Ea Eg].
    split; [rewrite <- Ea; exact Es|]. intros idx Hr.
    rewrite <- (proj2 Hel idx Hr), (Hg idx Hr). apply Eg. rewrite <- Ea, <- Es. exact Hr.
Qed.

Theorem gen_similarity_sym (l r : gsrc A) : g_contract l -> g_contract r ->
  length (gs_shape l) = length (gs_shape r) ->
  g_similarity eqb l r = g_similarity eqb r l.
Proof.
  intros Hcl Hcr HD. destruct (contract_standin l Hcl) as [sl [Hsl Hel]].
  destruct (contract_standin r Hcr) as [sr [Hsr Her]].
  pose proof (standin_nodup l sl Hcl Hel) as Ndl. pose proof (standin_nodup r sr Hcr Her) as Ndr.
  assert (HD' : length (src_shape sl) = length (src_shape sr))
    by (rewrite <- (proj1 Hel), <- (proj1 Her); exact HD).
  rewrite (equiv_similarity l r sl sr Hel Her Ndl Ndr eqb HD'),
    (equiv_similarity r l sr sl Her Hel Ndr Ndl eqb (eq_sym HD')).
  apply (ctor_similarity_sym eqb eqb_spec); auto.
Qed.
End Eq.

(* ---------- 4. every constructed C02 view meets the contract ---------- *)
Theorem cview_contract v c (store : N * N -> option A) :
  Views.v_ctor v = Ok c -> C02P.usize_view c -> elements (Views.c_shape c) <= usize_max ->
  (forall l n off, In (l, n) (Views.c_leaves c) -> off < n -> exists x, store (l, off) = Some x) ->
  g_contract (of_cview c store).
Proof.
  intros Hc Hu Hb Hst. split; [|split; [exact Hb|]]; cbn [of_cview gs_shape gs_get].
  - exact (C02Q.view_shape_valid v c Hc Hu).
  - intros idx Hr.
    assert (Hlen : length idx = length (Views.c_shape c)).
    { pose proof (in_range_length _ _ Hr) as L. unfold lens_of in L. rewrite map_length in L. exact L. }
    pose proof (proj2 (C02Q.view_present_iff v c idx Hc Hu Hlen) Hr) as Hp.
    destruct (Views.c_get c idx) as [[l off]|] eqn:Eg; [|congruence].
    destruct (C02W.resolves_in_bounds v c idx l off Hc Eg) as [n [Hin Hlt]].
    exact (Hst l n off Hin Hlt).
Qed.

End Gen.

(* the generic transcriptions, run on a source term, ARE the transcriptions of Model/Transform.v *)
Section OnTerms.
Context {A : Type}.
Theorem gen_ops_on_terms (s : tsrc A) : NoDup (names_of (src_shape s)) ->
  g_iter_values (of_tsrc s) = iter_values s /\ g_iter_indexed (of_tsrc s) = iter_indexed s /\
  (forall B (f : A -> B), g_map f (of_tsrc s) = view_map f s) /\
  (forall B (f : list N -> A -> B), g_map_with_index f (of_tsrc s) = view_map_with_index f s) /\
  (forall dims, length dims = length (src_shape s) ->
     g_reorder (of_tsrc s) dims = reorder s dims /\ g_transpose (of_tsrc s) dims = transpose s dims).
Proof.
  intros Hnd. pose proof (of_tsrc_equiv s) as He.
  split; [apply gen_values_on_terms|]. split; [apply gen_indexed_on_terms|].
  split; [intros B f; apply (equiv_map _ s He)|].
  split; [intros B f; apply (equiv_map_with_index _ s He)|].
  intros dims Hl. split; [apply (equiv_reorder _ s He Hnd dims Hl)|apply (equiv_transpose _ s He Hnd dims Hl)].
Qed.

Theorem gen_binary_on_terms (l r : tsrc A) (eqb : A -> A -> bool) :
  NoDup (names_of (src_shape l)) -> NoDup (names_of (src_shape r)) ->
  (forall f, g_elementwise f (of_tsrc l) (of_tsrc r) = view_elementwise f l r) /\
  (forall f, g_elementwise_with_index f (of_tsrc l) (of_tsrc r) = view_elementwise_with_index f l r) /\
  g_equality eqb (of_tsrc l) (of_tsrc r) = tensor_equality eqb l r /\
  (length (src_shape l) = length (src_shape r) ->
   g_similarity eqb (of_tsrc l) (of_tsrc r) = tensor_similarity eqb l r).
Proof.
  intros Ndl Ndr. pose proof (of_tsrc_equiv l) as Hl. pose proof (of_tsrc_equiv r) as Hr.
  split; [intros f; apply (equiv_elementwise _ _ l r Hl Hr)|].
  split; [intros f; apply (equiv_elementwise_with_index _ _ l r Hl Hr)|].
  split; [apply (equiv_equality _ _ l r Hl Hr)|].
  intros HD. apply (equiv_similarity _ _ l r Hl Hr Ndl Ndr eqb HD).
Qed.
End OnTerms.
