(* C05 — extension round: "seeding each input in turn reproduces exactly the gradient that
   reverse mode reports", stated for the WHOLE gradient at once: the list of forward-mode
   derivative components obtained by seeding every variable instruction of the program in turn is
   the list of entries Derivatives::at reports for those variables (and all zeros when the output
   is a constant).  Also: a variable the output does not depend on (in particular one created
   after the output) has derivative component exactly zero when seeded.
   Any field, non-zero record / record and record / number denominators; on top of C05P / C04P. *)
From Coq Require Import List Arith Lia Ring Field Bool.
From EasyML Require Import Base.Sx Model.Num Model.Tape Model.AD Model.Forward Spec.FormalD
  Proofs.C04P Proofs.C05P.
Import ListNotations.

Section C05X.
Context {R : Type} (ops : numops R).
Hypothesis Fth : field_theory (nzero ops) (none_ ops) (nadd ops) (nmul ops) (nsub ops) (nneg ops)
                              (ndiv ops) (fun x => ndiv ops (none_ ops) x) (@eq R).
Notation rO := (nzero ops).

(* var_nodes lists exactly the positions of the IVar instructions *)
Lemma var_nodes_from_spec (prog : list (instr R)) : forall n v,
  In v (var_nodes_from n prog) -> n <= v /\ exists x, nth_error prog (v - n) = Some (IVar x).
Proof.
  induction prog as [|ins prog IH]; intros n v Hin; cbn [var_nodes_from] in Hin; [contradiction|].
  apply in_app_or in Hin as [Hin|Hin].
  - destruct ins; cbn [is_var] in Hin; try contradiction.
    destruct Hin as [<-|[]]. split; [lia|]. rewrite Nat.sub_diag. eexists. reflexivity.
  - destruct (IH (S n) v Hin) as [Hle [x Hx]]. split; [lia|]. exists x.
    replace (v - n) with (S (v - S n)) by lia. exact Hx.
Qed.

Lemma var_nodes_spec (prog : list (instr R)) v :
  In v (var_nodes prog) -> exists x, nth_error prog v = Some (IVar x).
Proof.
  intros Hin. destruct (var_nodes_from_spec prog 0 v Hin) as [_ [x Hx]].
  rewrite Nat.sub_0_r in Hx. exists x. exact Hx.
Qed.

Theorem gradient_by_seeding (prog : list (instr R)) out : nonzero_denominators ops prog ->
  let forward := map (fun s => tderivative (gett ops (trun ops s prog) out)) (var_nodes prog) in
  match try_derivatives ops (run_prog ops prog) out with
  | Some d => forward = map (fun s => at_ ops d (getr ops (fst (run_prog ops prog)) s)) (var_nodes prog)
  | None => forward = map (fun _ => rO) (var_nodes prog)
  end.
Proof.
  intros Hnz. cbv zeta.
  destruct (try_derivatives ops (run_prog ops prog) out) as [d|] eqn:E; apply map_ext_in; intros s Hs;
    destruct (var_nodes_spec prog s Hs) as [x Hx];
    pose proof (forward_equals_reverse ops Fth prog s x out Hx Hnz) as H; rewrite E in H; exact H.
Qed.

(* seeding an input the output does not depend on gives derivative component zero *)
Theorem forward_independent_zero (prog : list (instr R)) seed out : nonzero_denominators ops prog ->
  nth out (depends_on prog seed) false = false ->
  tderivative (gett ops (trun ops seed prog) out) = rO.
Proof.
  intros Hnz Hdep. destruct (forward_correct ops Fth seed prog out Hnz) as [_ Hd]. rewrite Hd.
  unfold grad. apply (independent_tangent_zero ops (Rth5 ops Fth)). exact Hdep.
Qed.

End C05X.
