(* C11: the history theorem.  Every operation of Model/Matrix.v refines the list-of-rows
   specification (Proofs/C11Spec.v) — per operation in C11Ops.v / C11Transpose.v — and therefore so
   does every finite history, by induction; the representation invariant holds in every state
   reached; an operation panics exactly when its documented precondition fails and then leaves
   the matrix as it was. *)
From Coq Require Import List ZArith NArith Bool Arith Lia.
From EasyML Require Import Base.Sx Model.Matrix Proofs.C11Spec Proofs.C11Ops Proofs.C11Transpose.
Import ListNotations.
Local Open Scope N_scope.

Section History.
Context {T : Type}.
Implicit Types m : list (list T).

(* one step, on the flat representation of a rectangle *)
Lemma step_refines m (o : op T) : rect m -> fits m ->
  impl_step (of_rows m) o = (of_rows (fst (spec_step m o)), snd (spec_step m o))
  /\ rect (fst (spec_step m o)).
Proof.
  intros Hr Hf. destruct o.
  - apply insert_row_refines; exact Hr.
  - apply insert_row_with_refines; exact Hr.
  - apply insert_column_refines; exact Hr.
  - apply insert_column_with_refines; exact Hr.
  - apply remove_row_refines; exact Hr.
  - apply remove_column_refines; exact Hr.
  - apply retain_mut_refines; exact Hr.
  - apply retain_refines; assumption.
  - apply transpose_refines; assumption.
  - apply transpose_mut_refines; assumption.
  - apply set_refines; exact Hr.
  - apply map_mut_refines; exact Hr.
  - apply map_mut_with_index_refines; exact Hr.
Qed.

(* the element count fits a usize before every operation of the history (on the real machine
   a Vec cannot be larger; the copying constructors check it) *)
Fixpoint all_fit m (ops : list (op T)) : Prop :=
  match ops with
  | [] => True
  | o :: rest => fits m /\ all_fit (fst (spec_step m o)) rest
  end.

Definition abs_result (r : matrix T * bool) : list (list T) * bool := (abs (fst r), snd r).

Lemma trace_refines (ops : list (op T)) : forall m, rect m -> all_fit m ops ->
  map abs_result (impl_trace (of_rows m) ops) = spec_trace m ops
  /\ Forall (fun r => Inv (fst r)) (impl_trace (of_rows m) ops).
Proof.
  induction ops as [|o ops IH]; intros m Hr Hfit; [split; [reflexivity|constructor]|].
  destruct Hfit as [Hf Hrest].
  destruct (step_refines m o Hr Hf) as [Hstep Hr'].
  cbn [impl_trace spec_trace map]. rewrite Hstep. cbn [fst].
  destruct (IH _ Hr' Hrest) as [H1 H2].
  destruct (of_rows_abs _ Hr') as [Habs Hinv].
  split.
  - rewrite H1. unfold abs_result at 1. cbn [fst snd]. rewrite Habs.
    now destruct (spec_step m o).
  - constructor; [exact Hinv|exact H2].
Qed.

Theorem history_refines (s : matrix T) (ops : list (op T)) :
  Inv s -> all_fit (abs s) ops ->
  map abs_result (impl_trace s ops) = spec_trace (abs s) ops
  /\ Forall (fun r => Inv (fst r)) (impl_trace s ops).
Proof.
  intros Hinv Hfit. destruct (abs_of_inv s Hinv) as [Hr Hs].
  rewrite <- Hs at 1 3. now apply trace_refines.
Qed.

(* the state after the whole history *)
Definition impl_run (s : matrix T) (ops : list (op T)) : matrix T :=
  fold_left (fun s o => fst (impl_step s o)) ops s.
Definition spec_run m (ops : list (op T)) : list (list T) :=
  fold_left (fun m o => fst (spec_step m o)) ops m.

Theorem run_refines (s : matrix T) (ops : list (op T)) :
  Inv s -> all_fit (abs s) ops -> abs (impl_run s ops) = spec_run (abs s) ops /\ Inv (impl_run s ops).
Proof.
  intros Hinv Hfit. destruct (abs_of_inv s Hinv) as [Hr Hs]. rewrite <- Hs at 1 3.
  clear Hs Hinv. revert Hr Hfit. generalize (abs s) as m. clear s.
  induction ops as [|o ops IH]; intros m Hr Hfit.
  - cbn. apply of_rows_abs. exact Hr.
  - destruct Hfit as [Hf Hrest]. destruct (step_refines m o Hr Hf) as [Hstep Hr'].
    cbn [impl_run spec_run fold_left]. rewrite Hstep. cbn [fst]. now apply IH.
Qed.

(* ---------- what a client observes ---------- *)
Lemma observe_of_rows m : rect m ->
  (m_rows (of_rows m), m_cols (of_rows m)) = (nlen m, N.of_nat (ncols m)) /\
  forall r c, mget (of_rows m) r c =
    if (r <? nlen m) && (c <? N.of_nat (ncols m))
    then nth_error (nth (N.to_nat r) m []) (N.to_nat c) else None.
Proof.
  intros Hr. split; [reflexivity|]. intros r c.
  destruct (r <? nlen m) eqn:Er; [|unfold mget; cbn [m_rows of_rows]; now rewrite Er].
  destruct (c <? N.of_nat (ncols m)) eqn:Ec; [|unfold mget; cbn [m_rows m_cols of_rows]; now rewrite Er, Ec].
  apply N.ltb_lt in Er, Ec. unfold nlen in Er. cbn [andb].
  rewrite <- (N2Nat.id r) at 1. rewrite <- (N2Nat.id c) at 1. apply mget_of_rows; auto; lia.
Qed.

Theorem observe_refines (s : matrix T) : Inv s ->
  (m_rows s, m_cols s) = (nlen (abs s), N.of_nat (ncols (abs s))) /\
  1 <= m_rows s /\ 1 <= m_cols s /\
  forall r c, mget s r c =
    if (r <? m_rows s) && (c <? m_cols s)
    then nth_error (nth (N.to_nat r) (abs s) []) (N.to_nat c) else None.
Proof.
  intros Hinv. destruct (abs_of_inv s Hinv) as [Hr Hs].
  destruct (observe_of_rows (abs s) Hr) as [H1 H2]. rewrite Hs in H1, H2.
  destruct Hinv as [I1 [I2 _]]. repeat split; auto.
  intros r c. rewrite H2. injection H1 as -> ->. reflexivity.
Qed.

(* ---------- panics: exactly the documented preconditions, and nothing is modified ---------- *)
Definition accepts_none (s : slice) (n : N) : Prop := existsb (slice_accepts s) (nrange n) = false.

Definition precondition_fails m (o : op T) : Prop :=
  let rows := nlen m in
  let cols := N.of_nat (ncols m) in
  match o with
  | OInsertRow i _ => rows < i
  | OInsertRowWith i vs => rows < i \/ nlen vs < cols
  | OInsertColumn j _ => cols < j
  | OInsertColumnWith j vs => cols < j \/ nlen vs < rows
  | ORemoveRow i => rows <= 1 \/ rows <= i
  | ORemoveColumn j => cols <= 1 \/ cols <= j
  | ORetainMut s | ORetain s => accepts_none (s_rows s) rows \/ accepts_none (s_columns s) cols
  | OSet i j _ => rows <= i \/ cols <= j
  | OTranspose | OTransposeMut | OMapMut _ | OMapMutWithIndex _ => False
  end.

Lemma filter_none {A} (g : A -> bool) (l : list A) : length (filter g l) = 0%nat <-> existsb g l = false.
Proof.
  induction l as [|x l IH]; cbn; [tauto|]. destruct (g x); cbn; [split; [lia|discriminate]|exact IH].
Qed.

Lemma no_cells_retain m s : rect m ->
  no_cells (spec_retain s m) = true <->
  accepts_none (s_rows s) (nlen m) \/ accepts_none (s_columns s) (N.of_nat (ncols m)).
Proof.
  intros [Hne [Hc Hall]]. unfold accepts_none, spec_retain.
  set (gr := slice_accepts (s_rows s)). set (gc := slice_accepts (s_columns s)).
  assert (Er : forall n, nrange (N.of_nat n) = map (fun k => 0 + N.of_nat k) (seq 0 n)).
  { intros n. rewrite nrange_of_nat. apply map_ext. intros; lia. }
  unfold nlen. rewrite !Er, <- !filter_none.
  pose proof (length_keep_from gr m 0) as L1. fold (keep_idx gr m) in L1.
  pose proof (Forall_keep_from _ gr m Hall 0) as Hm1. fold (keep_idx gr m) in Hm1.
  destruct (keep_idx gr m) as [|r1 m1] eqn:E1.
  - cbn [map no_cells]. cbn [length] in L1. split; [intros _; left; lia|reflexivity].
  - cbn [map no_cells]. unfold ncols. cbn [hd]. inversion Hm1 as [|? ? Hr1 _]; subst.
    unfold keep_idx at 1. rewrite length_keep_from, Hr1. cbn [length] in L1.
    rewrite Nat.eqb_eq. split; [intros H; right; exact H|intros [H|H]; [lia|exact H]].
Qed.

Lemma spec_panics m (o : op T) : rect m ->
  (snd (spec_step m o) = false <-> precondition_fails m o)
  /\ (snd (spec_step m o) = false -> fst (spec_step m o) = m).
Proof.
  intros Hr. unfold spec_step, precondition_fails.
  destruct o as [i v|i vs|j v|j vs|i|j|s|s| | |i j v|f|f]; cbn zeta;
    repeat match goal with
    | |- context [if ?b then _ else _] => let E := fresh "E" in destruct b eqn:E
    end; cbn [fst snd];
    try (split; [split; [discriminate|intros HP; exfalso]|discriminate]);
    try (split; [split; [intros _|reflexivity]|reflexivity]);
    try contradiction;
    try (apply (no_cells_retain m s Hr); exact E);
    try (apply (no_cells_retain m s Hr) in HP; congruence);
    rewrite ?andb_true_iff, ?andb_false_iff, ?N.leb_le, ?N.leb_gt, ?N.ltb_lt, ?N.ltb_ge in *;
    lia.
Qed.

Theorem panics_iff (s : matrix T) (o : op T) : Inv s -> fits (abs s) ->
  (snd (impl_step s o) = false <-> precondition_fails (abs s) o)
  /\ (snd (impl_step s o) = false -> fst (impl_step s o) = s).
Proof.
  intros Hinv Hf. destruct (abs_of_inv s Hinv) as [Hr Hs].
  destruct (step_refines (abs s) o Hr Hf) as [Hstep _]. rewrite Hs in Hstep.
  rewrite Hstep. cbn [fst snd]. destruct (spec_panics (abs s) o Hr) as [H1 H2].
  split; [exact H1|]. intros H. now rewrite (H2 H).
Qed.

(* ---------- constructors ---------- *)
Theorem constructors_valid :
  (forall v : T, Inv (from_scalar v) /\ abs (from_scalar v) = [[v]]) /\
  (forall vs : list T, match row_ctor vs with
                       | Ok s => vs <> [] /\ Inv s /\ abs s = [vs]
                       | _ => vs = [] end) /\
  (forall vs : list T, match column_ctor vs with
                       | Ok s => vs <> [] /\ Inv s /\ abs s = map (fun v => [v]) vs
                       | _ => vs = [] end) /\
  (forall rows : list (list T), match from_rows rows with
                       | Ok s => rect rows /\ Inv s /\ abs s = rows
                       | _ => ~ rect rows end) /\
  (forall r c (vs : list T), match from_flat_row_major (r, c) vs with
                       | Ok s => s = mkM vs r c /\ Inv s
                       | _ => ~ (r * c = nlen vs /\ 1 <= nlen vs /\ r * c <= usize_max) end).
Proof.
  split; [|split; [|split; [|split]]].
  - intros v. split; [unfold Inv, from_scalar, nlen; cbn; lia|reflexivity].
  - intros vs. destruct vs as [|v vs]; [reflexivity|]. cbn [row_ctor].
    assert (Hr : rect [v :: vs]) by (repeat split; [discriminate|cbn; lia|repeat constructor]).
    destruct (of_rows_abs _ Hr) as [H1 H2]. unfold of_rows in H1, H2. cbn [concat app] in H1, H2.
    rewrite app_nil_r in H1, H2. split; [discriminate|split; [exact H2|exact H1]].
  - intros vs. destruct vs as [|v vs]; [reflexivity|]. cbn [column_ctor].
    set (m := map (fun x => [x]) (v :: vs)).
    assert (Hall : Forall (fun r => length r = 1%nat) m)
      by (apply Forall_forall; intros r Hin; apply in_map_iff in Hin as [x [<- _]]; reflexivity).
    assert (Hr : rect m) by (apply (rect_uniform m 1 Hall); [discriminate|lia]).
    destruct (of_rows_abs _ Hr) as [H1 H2]. unfold of_rows in H1, H2.
    assert (Ec : concat m = v :: vs).
    { unfold m. clear. induction (v :: vs) as [|x l IH]; [reflexivity|]. cbn. now rewrite IH. }
    rewrite Ec in H1, H2. unfold nlen, m in H1, H2. rewrite map_length in H1, H2.
    cbn [ncols hd map length] in H1, H2.
    split; [discriminate|split; [exact H2|exact H1]].
  - intros rows. unfold from_rows. destruct rows as [|first rest]; [intros [H _]; congruence|].
    destruct first as [|x first].
    { intros [_ [H _]]. cbn in H. lia. }
    destruct (forallb _ _) eqn:E.
    + assert (Hr : rect ((x :: first) :: rest)).
      { repeat split; [discriminate|cbn; lia|]. apply Forall_forall. intros r Hin.
        rewrite forallb_forall in E. specialize (E r Hin). apply N.eqb_eq in E. unfold nlen in E.
        unfold ncols. cbn [hd length] in *. lia. }
      destruct (of_rows_abs _ Hr) as [H1 H2]. split; [exact Hr|split; [exact H2|exact H1]].
    + intros [_ [_ Hall]]. apply Bool.not_true_iff_false in E. apply E.
      apply forallb_forall. intros r Hin. rewrite Forall_forall in Hall. apply N.eqb_eq.
      unfold nlen. rewrite (Hall r Hin). reflexivity.
  - intros r c vs. unfold from_flat_row_major. cbn [fst snd].
    destruct (r * c <=? usize_max) eqn:E1; cbn [andb].
    + destruct (r * c =? nlen vs) eqn:E2.
      * apply N.eqb_eq in E2. destruct vs as [|v vs].
        { unfold nlen; cbn. lia. }
        split; [reflexivity|]. unfold Inv. cbn [m_rows m_cols m_data]. unfold nlen in *. cbn [length] in *.
        repeat split; nia.
      * apply N.eqb_neq in E2. tauto.
    + apply N.leb_gt in E1. lia.
Qed.


(* the generating constructors *)
Definition table (r c : N) (f : N -> N -> T) : list (list T) :=
  map (fun i => map (fun j => f i j) (nrange c)) (nrange r).

Lemma length_nrange n : length (nrange n) = N.to_nat n.
Proof. unfold nrange. now rewrite map_length, seq_length. Qed.

Lemma table_uniform r c f : Forall (fun row => length row = N.to_nat c) (table r c f).
Proof.
  unfold table. apply Forall_forall. intros row Hin. apply in_map_iff in Hin as [i [<- _]].
  now rewrite map_length, length_nrange.
Qed.

Lemma concat_repeat (v : T) a b : concat (repeat (repeat v b) a) = repeat v (a * b).
Proof. induction a as [|a IH]; [reflexivity|]. cbn [repeat concat Nat.mul]. now rewrite IH, repeat_app. Qed.

Theorem generated_constructors :
  (forall r c f, match from_fn (r, c) f with
                 | Ok s => 1 <= r /\ 1 <= c /\ Inv s /\ abs s = table r c f
                 | _ => r = 0 \/ c = 0 \/ usize_max < r * c end) /\
  (forall (v : T) r c, match empty_ctor v (r, c) with
                 | Ok s => 1 <= r /\ 1 <= c /\ Inv s /\ abs s = repeat (repeat v (N.to_nat c)) (N.to_nat r)
                 | _ => r = 0 \/ c = 0 end).
Proof.
  split.
  - intros r c f. unfold from_fn. cbn [fst snd]. unfold pairs.
    rewrite (map_list_prod (fun p => f (fst p) (snd p))). cbn [fst snd]. fold (table r c f).
    pose proof (table_uniform r c f) as Hall.
    assert (Hlen : length (table r c f) = N.to_nat r) by (unfold table; now rewrite map_length, length_nrange).
    assert (Hcl : nlen (concat (table r c f)) = r * c).
    { unfold nlen. rewrite (length_concat_uniform _ _ Hall), Hlen. lia. }
    unfold from_flat_row_major. cbn [fst snd]. rewrite Hcl, N.eqb_refl, andb_true_r.
    destruct (r * c <=? usize_max) eqn:E; [|apply N.leb_gt in E; auto].
    destruct (concat (table r c f)) as [|x l] eqn:Ec.
    + unfold nlen in Hcl. cbn in Hcl. lia.
    + rewrite <- Ec. assert (Hrc : 1 <= r /\ 1 <= c) by (unfold nlen in Hcl; cbn [length] in Hcl; nia).
      destruct Hrc as [Hr Hc].
      assert (Hne : table r c f <> []) by (intros E0; rewrite E0 in Hlen; cbn in Hlen; lia).
      assert (Hrect : rect (table r c f)) by (apply (rect_uniform _ _ Hall Hne); lia).
      destruct (of_rows_abs _ Hrect) as [H1 H2]. unfold of_rows in H1, H2.
      rewrite (ncols_uniform _ _ Hall Hne) in H1, H2. unfold nlen in H1, H2. rewrite Hlen, !N2Nat.id in H1, H2.
      auto.
  - intros v r c. unfold empty_ctor. cbn [fst snd].
    destruct (0 <? r) eqn:Er; cbn [andb]; [|apply N.ltb_ge in Er; left; lia].
    destruct (0 <? c) eqn:Ec; [|apply N.ltb_ge in Ec; right; lia].
    apply N.ltb_lt in Er, Ec.
    set (m := repeat (repeat v (N.to_nat c)) (N.to_nat r)).
    assert (Hall : Forall (fun row => length row = N.to_nat c) m).
    { apply Forall_forall. intros row Hin. apply repeat_spec in Hin. subst row. apply repeat_length. }
    assert (Hlen : length m = N.to_nat r) by apply repeat_length.
    assert (Hne : m <> []) by (intros E0; rewrite E0 in Hlen; cbn in Hlen; lia).
    assert (Hrect : rect m) by (apply (rect_uniform _ _ Hall Hne); lia).
    assert (Hcm : concat m = repeat v (N.to_nat (r * c))).
    { unfold m. replace (N.to_nat (r * c)) with (N.to_nat r * N.to_nat c)%nat by lia. apply concat_repeat. }
    destruct (of_rows_abs _ Hrect) as [H1 H2]. unfold of_rows in H1, H2.
    rewrite (ncols_uniform _ _ Hall Hne), Hcm in H1, H2. unfold nlen in H1, H2. rewrite Hlen, !N2Nat.id in H1, H2.
    split; [lia|split; [lia|split; [exact H2|exact H1]]].
Qed.


(* ---------- iteration orders ---------- *)
Lemma sequence_some {A} (l : list (option A)) x : sequence l = Some x -> l = map Some x.
Proof.
  revert x; induction l as [|o l IH]; intros x H; cbn in H; [now injection H as <-|].
  destruct o; [|discriminate]. destruct (sequence l); [|discriminate]. injection H as <-.
  cbn. now rewrite (IH _ eq_refl).
Qed.

Lemma map_nth_error_seq {A} (l : list A) : map (nth_error l) (seq 0 (length l)) = map Some l.
Proof.
  induction l as [|x l IH]; [reflexivity|]. cbn [length seq map nth_error]. f_equal.
  rewrite <- seq_shift, map_map. exact IH.
Qed.

Lemma elements_of_rows m : rect m -> obs_elements (of_rows m) = map Some (concat m).
Proof.
  intros Hr. pose proof (rect_forall m Hr) as Hall. unfold obs_elements.
  change (m_rows (of_rows m)) with (nlen m). change (m_cols (of_rows m)) with (N.of_nat (ncols m)).
  unfold pairs, nlen. rewrite !nrange_of_nat, map_list_prod. cbn [fst snd]. rewrite map_map.
  rewrite (map_ext_in _ (fun i => map Some (nth i m []))).
  - rewrite (map_nth_seq (map Some) [] m). now rewrite concat_map.
  - intros i Hi. apply in_seq in Hi. rewrite map_map.
    rewrite (map_ext_in _ (nth_error (nth i m []))).
    + rewrite Forall_forall in Hall. rewrite <- (Hall (nth i m [])) by (apply nth_In; lia).
      apply map_nth_error_seq.
    + intros j Hj. apply in_seq in Hj. apply mget_of_rows; auto; lia.
Qed.

Lemma column_major_of_rows m : rect m ->
  obs_column_major (of_rows m) = map Some (concat (spec_transpose m)).
Proof. intros Hr. apply sequence_some. exact (transpose_data m Hr). Qed.

(* reading all cells in row-major order lists the rows one after the other; in column-major
   order it lists the columns one after the other *)
Theorem iteration_orders (s : matrix T) : Inv s ->
  obs_elements s = map Some (concat (abs s)) /\
  obs_column_major s = map Some (concat (spec_transpose (abs s))) /\
  m_data s = concat (abs s).
Proof.
  intros Hinv. destruct (abs_of_inv s Hinv) as [Hr Hs].
  pose proof (elements_of_rows _ Hr) as H1. pose proof (column_major_of_rows _ Hr) as H2.
  rewrite Hs in H1, H2. repeat split; auto. rewrite <- Hs at 1. reflexivity.
Qed.


(* ---------- the invariant alone: no size hypothesis at all ---------- *)
(* Clone / transpose re-validate the element count; when that check fails they panic and the
   matrix is left as it was, so the invariant survives every step unconditionally *)
Lemma from_flat_inv r c (vs : list T) s : from_flat_row_major (r, c) vs = Ok s -> s = mkM vs r c /\ Inv s.
Proof.
  intros H. destruct constructors_valid as [_ [_ [_ [_ Hc]]]]. specialize (Hc r c vs). now rewrite H in Hc.
Qed.

Lemma step_inv (s : matrix T) (o : op T) : Inv s -> Inv (fst (impl_step s o)).
Proof.
  intros Hinv. destruct (abs_of_inv s Hinv) as [Hr Hs]. set (m := abs s) in *. rewrite <- Hs.
  assert (Hm : Inv (of_rows m)) by (rewrite Hs; exact Hinv).
  assert (Hof : forall m', rect m' -> Inv (of_rows m')) by (intros m' H'; apply of_rows_abs; exact H').
  destruct o.
  - destruct (insert_row_refines m row v Hr) as [E R]. cbn [impl_step]. rewrite E. cbn [fst]. auto.
  - destruct (insert_row_with_refines m row vs Hr) as [E R]. cbn [impl_step]. rewrite E. cbn [fst]. auto.
  - destruct (insert_column_refines m column v Hr) as [E R]. cbn [impl_step]. rewrite E. cbn [fst]. auto.
  - destruct (insert_column_with_refines m column vs Hr) as [E R]. cbn [impl_step]. rewrite E. cbn [fst]. auto.
  - destruct (remove_row_refines m row Hr) as [E R]. cbn [impl_step]. rewrite E. cbn [fst]. auto.
  - destruct (remove_column_refines m column Hr) as [E R]. cbn [impl_step]. rewrite E. cbn [fst]. auto.
  - destruct (retain_mut_refines m s0 Hr) as [E R]. cbn [impl_step]. rewrite E. cbn [fst]. auto.
  - cbn [impl_step]. unfold retain, mclone.
    destruct (from_flat_row_major (m_rows (of_rows m), m_cols (of_rows m)) (m_data (of_rows m))) as [c|e|] eqn:Ec;
      cbn [fst]; auto.
    apply from_flat_inv in Ec as [Ec _].
    replace c with (of_rows m) by (rewrite Ec; reflexivity).
    destruct (retain_mut_refines m s0 Hr) as [E R]. rewrite E.
    destruct (snd (spec_step m (ORetainMut s0))); cbn [fst]; auto.
  - cbn [impl_step]. unfold transpose.
    destruct (sequence _) as [data|]; cbn [fst]; auto.
    destruct (from_flat_row_major _ data) as [t|e|] eqn:Et; cbn [fst]; auto.
    destruct (m_cols (of_rows m), m_rows (of_rows m)) as [a b] eqn:Eab. now apply from_flat_inv in Et as [_ Et].
  - cbn [impl_step]. unfold transpose_mut.
    destruct (negb (m_rows (of_rows m) =? m_cols (of_rows m))) eqn:Esq.
    + unfold transpose. destruct (sequence _) as [data|]; cbn [fst]; auto.
      destruct (from_flat_row_major _ data) as [t|e|] eqn:Et; cbn [fst]; auto.
      destruct (m_cols (of_rows m), m_rows (of_rows m)) as [a b] eqn:Eab. now apply from_flat_inv in Et as [_ Et].
    + apply negb_false_iff, N.eqb_eq in Esq. cbn [of_rows m_rows m_cols] in Esq. unfold nlen in Esq.
      change (m_rows (of_rows m)) with (nlen m). change (m_cols (of_rows m)) with (N.of_nat (ncols m)).
      rewrite (transpose_mut_square m Hr) by lia. cbn [fst]. apply Hof, (rect_transpose m Hr).
  - destruct (set_refines m row column v Hr) as [E R]. rewrite E. cbn [fst]. auto.
  - destruct (map_mut_refines m f Hr) as [E R]. rewrite E. cbn [fst]. auto.
  - destruct (map_mut_with_index_refines m f Hr) as [E R]. rewrite E. cbn [fst]. auto.
Qed.

Theorem trace_inv (ops : list (op T)) : forall s : matrix T, Inv s ->
  Forall (fun r => Inv (fst r)) (impl_trace s ops).
Proof.
  induction ops as [|o ops IH]; intros s Hinv; [constructor|].
  cbn [impl_trace]. pose proof (step_inv s o Hinv) as H. constructor; [exact H|apply IH; exact H].
Qed.

Theorem run_inv (ops : list (op T)) : forall s : matrix T, Inv s -> Inv (impl_run s ops).
Proof.
  induction ops as [|o ops IH]; intros s Hinv; [exact Hinv|].
  cbn [impl_run fold_left]. apply IH, step_inv, Hinv.
Qed.

(* ---------- when does `all_fit` hold? ---------- *)
(* operations that never increase the element count: everything except the four insertions *)
Definition non_growing (o : op T) : bool :=
  match o with
  | OInsertRow _ _ | OInsertRowWith _ _ | OInsertColumn _ _ | OInsertColumnWith _ _ => false
  | _ => true
  end.

Lemma length_concat_le_map (f : list T -> list T) m :
  (forall row, length (f row) <= length row)%nat -> (length (concat (map f m)) <= length (concat m))%nat.
Proof.
  intros Hf. induction m as [|row m IH]; [cbn; lia|]. cbn [map concat]. rewrite !app_length.
  specialize (Hf row). lia.
Qed.

Lemma length_keep_from_le {A} g (l : list A) : forall k, (length (keep_from g k l) <= length l)%nat.
Proof. induction l as [|x l IH]; intros k; cbn; [lia|]. specialize (IH (k + 1)). destruct (g k); cbn; lia. Qed.

Lemma length_concat_keep_from_le g m : forall k, (length (concat (keep_from g k m)) <= length (concat m))%nat.
Proof.
  induction m as [|row m IH]; intros k; cbn [keep_from concat]; [lia|]. specialize (IH (k + 1)).
  destruct (g k); cbn [concat]; rewrite ?app_length; lia.
Qed.

Lemma length_remove_at_le {A} (l : list A) : forall k, (length (remove_at k l) <= length l)%nat.
Proof. induction l as [|x l IH]; intros [|k]; cbn; try lia. specialize (IH k). lia. Qed.

Lemma length_concat_remove_at_le m : forall k, (length (concat (remove_at k m)) <= length (concat m))%nat.
Proof.
  induction m as [|row m IH]; intros [|k]; cbn [remove_at concat]; rewrite ?app_length; try lia.
  specialize (IH k). lia.
Qed.

Lemma non_growing_count m (o : op T) : rect m -> non_growing o = true ->
  (length (concat (fst (spec_step m o))) <= length (concat m))%nat.
Proof.
  intros Hr Hng. destruct o; try discriminate; unfold spec_step;
    repeat match goal with
    | |- context [if ?b then _ else _] => destruct b
    end; cbn [fst]; try lia.
  - apply length_concat_remove_at_le.
  - apply length_concat_le_map. intros; apply length_remove_at_le.
  - unfold spec_retain. etransitivity; [apply length_concat_le_map; intros; apply length_keep_from_le|].
    apply length_concat_keep_from_le.
  - unfold spec_retain. etransitivity; [apply length_concat_le_map; intros; apply length_keep_from_le|].
    apply length_concat_keep_from_le.
  - destruct (rect_transpose m Hr) as [Hr' [Hn' [Hl' Hall']]].
    rewrite (length_concat_uniform _ _ Hall'), (length_concat_uniform _ _ (rect_forall m Hr)), Hl'. lia.
  - destruct (rect_transpose m Hr) as [Hr' [Hn' [Hl' Hall']]].
    rewrite (length_concat_uniform _ _ Hall'), (length_concat_uniform _ _ (rect_forall m Hr)), Hl'. lia.
  - pose proof (rect_forall m Hr) as Hall.
    rewrite (length_concat_uniform _ (ncols m)), (length_concat_uniform _ _ Hall), length_update_at; [lia|].
    apply Forall_update_at; [exact Hall|]. intros r0 H0. now rewrite length_update_at.
  - rewrite <- concat_map, map_length. lia.
  - pose proof (rect_forall m Hr) as Hall.
    rewrite (length_concat_uniform _ (ncols m)), (length_concat_uniform _ _ Hall), length_mapi_from; [lia|].
    apply (Forall_mapi_from (fun r0 => length r0 = ncols m)); [exact Hall|].
    intros k r0 H0. now rewrite length_mapi_from.
Qed.

(* a history without insertions, started from a matrix whose storage fits a usize (every
   allocated Vec), satisfies `all_fit`: the size hypothesis of the refinement theorems only
   matters for histories that GROW a matrix towards usize::MAX elements *)
Theorem all_fit_non_growing (ops : list (op T)) : forall m, rect m -> fits m ->
  forallb non_growing ops = true -> all_fit m ops.
Proof.
  induction ops as [|o ops IH]; intros m Hr Hf Hng; [exact I|].
  cbn [forallb] in Hng. apply andb_true_iff in Hng as [Ho Hrest].
  split; [exact Hf|]. destruct (step_refines m o Hr Hf) as [_ Hr'].
  apply IH; auto. unfold fits, nlen in *. pose proof (non_growing_count m o Hr Ho). lia.
Qed.

Theorem all_fit_of_allocated (s : matrix T) (ops : list (op T)) : Inv s ->
  nlen (m_data s) <= usize_max -> forallb non_growing ops = true -> all_fit (abs s) ops.
Proof.
  intros Hinv Hlen Hng. destruct (abs_of_inv s Hinv) as [Hr Hs]. apply all_fit_non_growing; auto.
  unfold fits. replace (concat (abs s)) with (m_data s); [exact Hlen|]. rewrite <- Hs at 1. reflexivity.
Qed.

(* in general: it is enough that the element count stays within usize before every step *)
Lemma all_fit_bound (ops : list (op T)) : forall m bound, bound <= usize_max ->
  (forall k, (k <= length ops)%nat -> nlen (concat (spec_run m (firstn k ops))) <= bound) -> all_fit m ops.
Proof.
  induction ops as [|o ops IH]; intros m bound Hb H; [exact I|]. split.
  - unfold fits. specialize (H 0%nat ltac:(cbn; lia)). cbn in H. lia.
  - apply (IH _ bound Hb). intros k Hk. specialize (H (S k) ltac:(cbn; lia)). exact H.
Qed.

End History.

(* ---------- `all_fit`, stated on the implementation's own states ---------- *)
(* `all_fit` speaks about the specification's element counts.  The same condition on the states
   the IMPLEMENTATION passes through: before every operation the stored Vec has at most
   usize::MAX elements — which holds in every execution that exists, a Vec<T> of a sized,
   non-zero-sized T holding at most isize::MAX bytes. *)
Section ImplFit.
Context {T : Type}.

Fixpoint impl_all_fit (s : matrix T) (ops : list (op T)) : Prop :=
  match ops with
  | [] => True
  | o :: rest => nlen (m_data s) <= usize_max /\ impl_all_fit (fst (impl_step s o)) rest
  end.

Lemma fits_abs (s : matrix T) : Inv s -> (fits (abs s) <-> nlen (m_data s) <= usize_max).
Proof.
  intros Hinv. destruct (iteration_orders s Hinv) as [_ [_ E]]. unfold fits. rewrite <- E. tauto.
Qed.

Lemma abs_step (s : matrix T) (o : op T) : Inv s -> fits (abs s) ->
  abs (fst (impl_step s o)) = fst (spec_step (abs s) o).
Proof.
  intros Hinv Hf. destruct (abs_of_inv s Hinv) as [Hr Hs].
  destruct (step_refines (abs s) o Hr Hf) as [Hstep Hr']. rewrite Hs in Hstep. rewrite Hstep.
  cbn [fst]. apply of_rows_abs. exact Hr'.
Qed.

Theorem all_fit_iff_impl (ops : list (op T)) : forall s : matrix T, Inv s ->
  (all_fit (abs s) ops <-> impl_all_fit s ops).
Proof.
  induction ops as [|o ops IH]; intros s Hinv; [cbn; tauto|].
  cbn [all_fit impl_all_fit]. pose proof (fits_abs s Hinv) as Hfa.
  pose proof (step_inv s o Hinv) as Hinv'. specialize (IH _ Hinv'). split.
  - intros [Hf Hrest]. split; [apply Hfa; exact Hf|]. apply IH. rewrite (abs_step s o Hinv Hf). exact Hrest.
  - intros [Hl Hrest]. assert (Hf : fits (abs s)) by (apply Hfa; exact Hl). split; [exact Hf|].
    rewrite <- (abs_step s o Hinv Hf). apply IH. exact Hrest.
Qed.

(* every state of the trace is an allocated Vec (at most isize::MAX elements) => all_fit *)
Definition isize_max : N := 9223372036854775807.

Lemma impl_all_fit_of_states (ops : list (op T)) : forall s : matrix T,
  Forall (fun st => nlen (m_data st) <= isize_max) (s :: map fst (impl_trace s ops)) ->
  impl_all_fit s ops.
Proof.
  induction ops as [|o ops IH]; intros s H; [exact I|].
  cbn [impl_trace map] in H. inversion H as [|? ? H0 Hrest]; subst.
  cbn [impl_all_fit]. split; [unfold isize_max, usize_max in *; lia|]. apply IH. exact Hrest.
Qed.

Theorem history_refines_allocated (s : matrix T) (ops : list (op T)) :
  Inv s -> Forall (fun st => nlen (m_data st) <= isize_max) (s :: map fst (impl_trace s ops)) ->
  map abs_result (impl_trace s ops) = spec_trace (abs s) ops
  /\ Forall (fun r => Inv (fst r)) (impl_trace s ops).
Proof.
  intros Hinv Hall. apply history_refines; [exact Hinv|].
  apply all_fit_iff_impl; [exact Hinv|]. apply impl_all_fit_of_states. exact Hall.
Qed.

(* one step from an allocated state: no size hypothesis left *)
Theorem panics_iff_allocated (s : matrix T) (o : op T) : Inv s -> nlen (m_data s) <= isize_max ->
  (snd (impl_step s o) = false <-> precondition_fails (abs s) o)
  /\ (snd (impl_step s o) = false -> fst (impl_step s o) = s)
  /\ abs (fst (impl_step s o)) = fst (spec_step (abs s) o)
  /\ snd (impl_step s o) = snd (spec_step (abs s) o).
Proof.
  intros Hinv Hl. assert (Hf : fits (abs s)) by (apply fits_abs; [exact Hinv|unfold isize_max, usize_max in *; lia]).
  destruct (panics_iff s o Hinv Hf) as [H1 H2]. split; [exact H1|]. split; [exact H2|].
  split; [apply abs_step; assumption|].
  destruct (abs_of_inv s Hinv) as [Hr Hs].
  destruct (step_refines (abs s) o Hr Hf) as [Hstep _]. rewrite Hs in Hstep. now rewrite Hstep.
Qed.

End ImplFit.
