(* C11: matrix resizing histories.  The short specification (a plain list of rows) and the proof
   that the transcribed flat-storage implementation (Model/Matrix.v) refines it, operation by
   operation and then for every finite history by induction. *)
From Coq Require Import List ZArith NArith Bool Arith Lia.
From EasyML Require Import Base.Sx Model.Matrix.
Import ListNotations.
Open Scope N_scope.

(* ================= specification: a matrix is a list of rows ================= *)
Section Spec.
Context {T : Type}.

Definition ncols (m : list (list T)) : nat := length (hd [] m).

Definition insert_at {A} (k : nat) (x : A) (l : list A) : list A := firstn k l ++ x :: skipn k l.

Fixpoint remove_at {A} (k : nat) (l : list A) : list A :=
  match l, k with
  | [], _ => []
  | _ :: t, O => t
  | x :: t, S k' => x :: remove_at k' t
  end.

Fixpoint update_at {A} (k : nat) (f : A -> A) (l : list A) : list A :=
  match l, k with
  | [], _ => []
  | x :: t, O => f x :: t
  | x :: t, S k' => x :: update_at k' f t
  end.

(* keep the entries whose index (counted from k) satisfies g *)
Fixpoint keep_from {A} (g : N -> bool) (k : N) (l : list A) : list A :=
  match l with
  | [] => []
  | x :: t => if g k then x :: keep_from g (k + 1) t else keep_from g (k + 1) t
  end.
Definition keep_idx {A} (g : N -> bool) (l : list A) : list A := keep_from g 0 l.

Fixpoint mapi_from {A B} (f : N -> A -> B) (k : N) (l : list A) : list B :=
  match l with
  | [] => []
  | x :: t => f k x :: mapi_from f (k + 1) t
  end.

(* column j of a list of rows *)
Definition column_of (j : nat) (m : list (list T)) : list T :=
  flat_map (fun row => match nth_error row j with Some x => [x] | None => [] end) m.
Definition spec_transpose (m : list (list T)) : list (list T) :=
  map (fun j => column_of j m) (seq 0 (ncols m)).

Definition spec_retain (s : slice2d) (m : list (list T)) : list (list T) :=
  map (keep_idx (slice_accepts (s_columns s))) (keep_idx (slice_accepts (s_rows s)) m).

Definition no_cells (m : list (list T)) : bool :=
  match m with [] => true | _ => Nat.eqb (ncols m) 0 end.

(* one operation on the list of rows: the new list of rows and whether the call returned
   (false = it panicked, and then the matrix is unchanged) *)
Definition spec_step (m : list (list T)) (o : op T) : list (list T) * bool :=
  let rows := nlen m in
  let cols := N.of_nat (ncols m) in
  match o with
  | OInsertRow i v =>
      if i <=? rows then (insert_at (N.to_nat i) (repeat v (ncols m)) m, true) else (m, false)
  | OInsertRowWith i vs =>
      if (i <=? rows) && (cols <=? nlen vs)
      then (insert_at (N.to_nat i) (firstn (ncols m) vs) m, true) else (m, false)
  | OInsertColumn j v =>
      if j <=? cols then (map (insert_at (N.to_nat j) v) m, true) else (m, false)
  | OInsertColumnWith j vs =>
      if (j <=? cols) && (rows <=? nlen vs)
      then (map (fun p => insert_at (N.to_nat j) (fst p) (snd p)) (combine vs m), true)
      else (m, false)
  | ORemoveRow i =>
      if (1 <? rows) && (i <? rows) then (remove_at (N.to_nat i) m, true) else (m, false)
  | ORemoveColumn j =>
      if (1 <? cols) && (j <? cols) then (map (remove_at (N.to_nat j)) m, true) else (m, false)
  | ORetainMut s | ORetain s =>
      if no_cells (spec_retain s m) then (m, false) else (spec_retain s m, true)
  | OTranspose | OTransposeMut => (spec_transpose m, true)
  | OSet i j v =>
      if (i <? rows) && (j <? cols)
      then (update_at (N.to_nat i) (update_at (N.to_nat j) (fun _ => v)) m, true) else (m, false)
  | OMapMut f => (map (map f) m, true)
  | OMapMutWithIndex f => (mapi_from (fun i row => mapi_from (fun j x => f x i j) 0 row) 0 m, true)
  end.

Fixpoint spec_trace (m : list (list T)) (ops : list (op T)) : list (list (list T) * bool) :=
  match ops with
  | [] => []
  | o :: rest => let r := spec_step m o in r :: spec_trace (fst r) rest
  end.

(* ---- the link between the two representations ---- *)
Fixpoint chunk (n c : nat) (l : list T) : list (list T) :=
  match n with
  | O => []
  | S n' => firstn c l :: chunk n' c (skipn c l)
  end.

(* abstraction: the rows of the flat storage *)
Definition abs (s : matrix T) : list (list T) :=
  chunk (N.to_nat (m_rows s)) (N.to_nat (m_cols s)) (m_data s).

(* the representation invariant *)
Definition Inv (s : matrix T) : Prop :=
  1 <= m_rows s /\ 1 <= m_cols s /\ m_rows s * m_cols s = nlen (m_data s).

(* the flat representation of a list of rows *)
Definition of_rows (m : list (list T)) : matrix T :=
  mkM (concat m) (nlen m) (N.of_nat (ncols m)).

(* a non-empty rectangle *)
Definition rect (m : list (list T)) : Prop :=
  m <> [] /\ (0 < ncols m)%nat /\ Forall (fun r => length r = ncols m) m.

(* memory bound: the element count fits a usize (the clone / transpose constructors check it) *)
Definition fits (m : list (list T)) : Prop := nlen (concat m) <= usize_max.

End Spec.

(* ================= list lemmas ================= *)
Section Lists.
Context {T : Type}.
Implicit Types m : list (list T).

Lemma length_concat_uniform m c :
  Forall (fun r => length r = c) m -> length (concat m) = (length m * c)%nat.
Proof. induction 1; simpl; auto. rewrite app_length. lia. Qed.

Lemma firstn_concat m c k : Forall (fun r => length r = c) m ->
  firstn (k * c) (concat m) = concat (firstn k m).
Proof.
  intros H. revert k. induction H as [|r m Hr Hm IH]; intros k.
  - destruct k; simpl; [reflexivity|]. now rewrite firstn_nil.
  - destruct k; [reflexivity|]. cbn [concat firstn]. rewrite <- IH.
    replace (S k * c)%nat with (length r + k * c)%nat by lia.
    now rewrite firstn_app_2.
Qed.

Lemma skipn_concat m c k : Forall (fun r => length r = c) m ->
  skipn (k * c) (concat m) = concat (skipn k m).
Proof.
  intros H. revert k. induction H as [|r m Hr Hm IH]; intros k.
  - destruct k; simpl; [reflexivity|]. now rewrite skipn_nil.
  - destruct k; [reflexivity|]. cbn [concat skipn]. rewrite <- IH.
    replace (S k * c)%nat with (length r + k * c)%nat by lia.
    rewrite skipn_app. rewrite skipn_all2 by lia.
    replace (length r + k * c - length r)%nat with (k * c)%nat by lia. reflexivity.
Qed.

Lemma chunk_concat m c : Forall (fun r => length r = c) m -> chunk (length m) c (concat m) = m.
Proof.
  induction 1 as [|r m Hr Hm IH]; [reflexivity|]. cbn [length chunk concat].
  rewrite <- Hr at 1. rewrite firstn_app, Nat.sub_diag, firstn_all. cbn [firstn]. rewrite app_nil_r.
  rewrite <- Hr. rewrite skipn_app, Nat.sub_diag, skipn_all. cbn [skipn app]. rewrite Hr.
  now rewrite IH.
Qed.

Lemma chunk_spec n c (l : list T) : length l = (n * c)%nat ->
  length (chunk n c l) = n /\ Forall (fun r => length r = c) (chunk n c l) /\ concat (chunk n c l) = l.
Proof.
  revert l; induction n as [|n IH]; intros l Hl.
  - destruct l; [repeat split; auto; constructor|discriminate].
  - cbn [chunk]. destruct (IH (skipn c l)) as [H1 [H2 H3]].
    { rewrite skipn_length. lia. }
    repeat split.
    + cbn [length]. now rewrite H1.
    + constructor; [rewrite firstn_length; lia|exact H2].
    + cbn [concat]. rewrite H3. apply firstn_skipn.
Qed.

Lemma rect_forall m : rect m -> Forall (fun r => length r = ncols m) m.
Proof. intros [_ [_ H]]; exact H. Qed.

Lemma of_rows_abs m : rect m -> abs (of_rows m) = m /\ Inv (of_rows m).
Proof.
  intros [Hne [Hc Hall]]. unfold abs, of_rows, Inv, nlen. cbn [m_rows m_cols m_data].
  rewrite !Nat2N.id. split; [apply chunk_concat; exact Hall|].
  rewrite (length_concat_uniform m _ Hall). destruct m; [congruence|]. cbn [length]. lia.
Qed.

Lemma abs_of_inv (s : matrix T) : Inv s -> rect (abs s) /\ of_rows (abs s) = s.
Proof.
  intros [Hr [Hc Hlen]]. unfold abs.
  destruct s as [data rows cols]. cbn [m_rows m_cols m_data] in *.
  assert (Hl : length data = (N.to_nat rows * N.to_nat cols)%nat) by (unfold nlen in Hlen; lia).
  destruct (chunk_spec _ _ _ Hl) as [H1 [H2 H3]].
  set (ch := chunk (N.to_nat rows) (N.to_nat cols) data) in *.
  assert (Hne : ch <> []) by (intros E; rewrite E in H1; cbn in H1; lia).
  assert (Hnc : ncols ch = N.to_nat cols).
  { unfold ncols. destruct ch; [congruence|]. now inversion H2. }
  split.
  - repeat split; auto; [lia|]. now rewrite Hnc.
  - unfold of_rows, nlen. rewrite H3, H1, Hnc, !N2Nat.id. reflexivity.
Qed.

(* ---- Vec::insert runs ---- *)
Lemma vec_insert_at_length (pre post : list T) x :
  vec_insert (length pre) x (pre ++ post) = pre ++ x :: post.
Proof.
  unfold vec_insert. rewrite firstn_app, Nat.sub_diag, firstn_all. cbn [firstn].
  rewrite skipn_app, Nat.sub_diag, skipn_all. cbn [skipn app]. now rewrite app_nil_r.
Qed.

(* inserting the values vs one after the other at consecutive positions *)
Lemma insert_each_run (vs : list T) : forall s off (pre post : list T),
  length pre = (off + s)%nat ->
  insert_each (map (fun kv => (N.of_nat (off + fst kv), snd kv)) (combine (seq s (length vs)) vs))
              (pre ++ post) = (pre ++ vs ++ post, true).
Proof.
  induction vs as [|v vs IH]; intros s off pre post Hpre; [reflexivity|].
  cbn [length seq combine map insert_each fst snd].
  assert (E : (N.of_nat (off + s) <=? nlen (pre ++ post)) = true).
  { apply N.leb_le. unfold nlen. rewrite app_length. lia. }
  rewrite E, Nat2N.id, <- Hpre, vec_insert_at_length.
  replace (pre ++ v :: post) with ((pre ++ [v]) ++ post) by (now rewrite <- app_assoc).
  rewrite IH by (rewrite app_length; cbn; lia). now rewrite <- !app_assoc.
Qed.

Lemma combine_seq_repeat (v : T) n s :
  map (fun k => (k, v)) (seq s n) = combine (seq s n) (repeat v n).
Proof. revert s; induction n; intros; cbn; [|rewrite IHn]; reflexivity. Qed.

(* the popping loop with as many values as positions = insert_each on the pairs *)
Lemma insert_popping_each (ps : list N) : forall (vs data : list T), length vs = length ps ->
  insert_popping ps vs data = insert_each (combine ps vs) data.
Proof.
  induction ps as [|p ps IH]; intros vs data Hl; [reflexivity|].
  destruct vs as [|v vs]; [discriminate|]. cbn [insert_popping combine insert_each].
  destruct (p <=? nlen data); [|reflexivity]. apply IH. cbn in Hl; lia.
Qed.

End Lists.
