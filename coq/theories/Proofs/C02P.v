(* C02: the TensorRef contract for every view term, by structural induction.
   - `cwf c`        the invariants a successful constructor establishes on the stored fields
   - `ctor_wf`      v_ctor v = Ok c -> cwf c                       (every constructor, every depth)
   - `cwf_contract` cwf c -> usize_view c -> the shape is valid (unique names, non-zero lengths)
                    and an index is present exactly when it lies inside the shape
   `usize_view c`: every length of every mask source is a usize (<= usize::MAX); the model
   computes in N, Rust's type guarantees it. *)
From Coq Require Import List ZArith NArith Bool Arith Lia Permutation.
From EasyML Require Import Base.Sx Model.Shape Model.Views Proofs.ShapeP Proofs.C01P Proofs.C02Lemmas.
Import ListNotations.
Open Scope N_scope.

(* ---------- induction principle for the nested inductive ---------- *)
Section CviewInd.
  Variable P : cview -> Prop.
  Hypothesis HT : forall id sh st, P (CTensor id sh st).
  Hypothesis HM : forall id r k n0 n1, P (CMatrix id r k n0 n1).
  Hypothesis HRange : forall c rs, P c -> P (CRange c rs).
  Hypothesis HMask : forall c ms, P c -> P (CMask c ms).
  Hypothesis HIndex : forall c pr, P c -> P (CIndex c pr).
  Hypothesis HExpand : forall c ex, P c -> P (CExpand c ex).
  Hypothesis HRename : forall c ns, P c -> P (CRename c ns).
  Hypothesis HReverse : forall c rev, P c -> P (CReverse c rev).
  Hypothesis HAccess : forall c tbl, P c -> P (CAccess c tbl).
  Hypothesis HTranspose : forall c tbl, P c -> P (CTranspose c tbl).
  Hypothesis HStack : forall cs along n, Forall P cs -> P (CStack cs along n).
  Hypothesis HChain : forall cs along, Forall P cs -> P (CChain cs along).
  Hypothesis HWrap : forall c, P c -> P (CWrap c).

  Fixpoint cview_ind' (c : cview) : P c :=
    match c with
    | CTensor id sh st => HT id sh st
    | CMatrix id r k n0 n1 => HM id r k n0 n1
    | CRange c rs => HRange c rs (cview_ind' c)
    | CMask c ms => HMask c ms (cview_ind' c)
    | CIndex c pr => HIndex c pr (cview_ind' c)
    | CExpand c ex => HExpand c ex (cview_ind' c)
    | CRename c ns => HRename c ns (cview_ind' c)
    | CReverse c rev => HReverse c rev (cview_ind' c)
    | CAccess c tbl => HAccess c tbl (cview_ind' c)
    | CTranspose c tbl => HTranspose c tbl (cview_ind' c)
    | CStack cs along n =>
        HStack cs along n
          ((fix go (l : list cview) : Forall P l :=
              match l with
              | [] => Forall_nil P
              | x :: r => Forall_cons x (cview_ind' x) (go r)
              end) cs)
    | CChain cs along =>
        HChain cs along
          ((fix go (l : list cview) : Forall P l :=
              match l with
              | [] => Forall_nil P
              | x :: r => Forall_cons x (cview_ind' x) (go r)
              end) cs)
    | CWrap c => HWrap c (cview_ind' c)
    end.
End CviewInd.

(* ---------- the constructor invariants ---------- *)
Definition first_shape (cs : list cview) : shape := head_shape (map c_shape cs).

Fixpoint cwf (c : cview) : Prop :=
  match c with
  | CTensor _ sh st => valid_shape sh /\ st = compute_strides sh
  | CMatrix _ rows cols n0 n1 => n0 <> n1 /\ 0 < rows /\ 0 < cols
  | CRange c rs => cwf c /\ Forall2 range_ok (c_shape c) rs
  | CMask c ms => cwf c /\ Forall2 mask_ok (c_shape c) ms
  | CIndex c pr => cwf c /\ Forall2 provided_ok (c_shape c) pr
  | CExpand c ex =>
      cwf c /\ ex_sorted 0 (length (c_shape c)) ex /\ NoDup (map snd ex) /\
      Forall (fun e => ~ In (snd e) (names_of (c_shape c))) ex
  | CRename c ns => cwf c /\ length ns = length (c_shape c) /\ NoDup ns
  | CReverse c rev => cwf c /\ length rev = length (c_shape c)
  | CAccess c tbl | CTranspose c tbl =>
      cwf c /\ exists req, length req = length (c_shape c) /\
                           dm_new (names_of (c_shape c)) req = Some tbl
  | CStack cs along n =>
      cs <> [] /\
      (fix all (l : list cview) : Prop := match l with [] => True | x :: r => cwf x /\ all r end) cs /\
      (along <= length (first_shape cs))%nat /\ ~ In n (names_of (first_shape cs)) /\
      Forall (fun c => c_shape c = first_shape cs) cs
  | CChain cs along =>
      cs <> [] /\
      (fix all (l : list cview) : Prop := match l with [] => True | x :: r => cwf x /\ all r end) cs /\
      (along < length (first_shape cs))%nat /\
      Forall (fun c => similar_from 0 along (c_shape c) (first_shape cs) = true) cs
  | CWrap c => cwf c
  end.

Fixpoint usize_view (c : cview) : Prop :=
  match c with
  | CTensor _ _ _ | CMatrix _ _ _ _ _ => True
  | CMask c _ => Forall (fun d => snd d <= usize_max) (c_shape c) /\ usize_view c
  | CRange c _ | CIndex c _ | CExpand c _ | CRename c _ | CReverse c _ | CAccess c _
  | CTranspose c _ | CWrap c => usize_view c
  | CStack cs _ _ | CChain cs _ =>
      (fix all (l : list cview) : Prop := match l with [] => True | x :: r => usize_view x /\ all r end) cs
  end.

Lemma all_Forall (Q : cview -> Prop) cs :
  (fix all (l : list cview) : Prop := match l with [] => True | x :: r => Q x /\ all r end) cs <->
  Forall Q cs.
Proof.
  induction cs as [|x r IH]; [split; auto|]. rewrite IH. split.
  - intros [A B]. constructor; assumption.
  - intros H. inversion H; subst. split; assumption.
Qed.

(* ---------- the contract ---------- *)
Definition contract (c : cview) : Prop :=
  valid_shape (c_shape c) /\
  forall idx, length idx = length (c_shape c) ->
    (c_get c idx <> None <-> in_range idx (lens_of (c_shape c))).

Lemma valid_perm (sh sh' : shape) : Permutation sh sh' -> valid_shape sh' -> valid_shape sh.
Proof.
  intros P [A B]. split.
  - eapply Permutation_NoDup; [|exact A]. unfold names_of. apply Permutation_map. symmetry. exact P.
  - eapply Permutation_Forall; [|exact B]. unfold lens_of. apply Permutation_map. symmetry. exact P.
Qed.

Lemma NoDup_app_iff' {A} (l1 l2 : list A) :
  NoDup l1 -> NoDup l2 -> (forall x, In x l1 -> In x l2 -> False) -> NoDup (l1 ++ l2).
Proof.
  induction l1 as [|a l1 IH]; intros H1 H2 Hd; cbn [app]; [exact H2|].
  inversion H1 as [|? ? Ha H1']; subst. constructor.
  - rewrite in_app_iff. intros [H|H]; [contradiction|]. apply (Hd a); [left; reflexivity|exact H].
  - apply IH; auto. intros x Hx. apply Hd. right. exact Hx.
Qed.

Lemma lens_rename_shape (sh : shape) ns : length ns = length sh ->
  lens_of (zipwith (fun d n => (n, snd d)) sh ns) = lens_of sh /\
  names_of (zipwith (fun d n => (n, snd d)) sh ns) = ns.
Proof.
  revert ns; induction sh as [|d sh IH]; intros [|n ns] H; cbn [length] in H; try lia.
  - split; reflexivity.
  - destruct (IH ns ltac:(lia)) as [A B]. cbn [zipwith lens_of names_of map fst snd].
    split; f_equal; assumption.
Qed.

Lemma lens_transpose_shape (sh sh' : shape) : length sh' = length sh ->
  lens_of (zipwith (fun a b => (fst a, snd b)) sh sh') = lens_of sh' /\
  names_of (zipwith (fun a b => (fst a, snd b)) sh sh') = names_of sh.
Proof.
  revert sh'; induction sh as [|d sh IH]; intros [|e sh'] H; cbn [length] in H; try lia.
  - split; reflexivity.
  - destruct (IH sh' ltac:(lia)) as [A B]. cbn [zipwith lens_of names_of map fst snd].
    split; f_equal; assumption.
Qed.

Lemma names_list_upd (sh : shape) k x :
  names_of (list_upd sh k (fst (nth k sh (0%nat, 0)), x)) = names_of sh.
Proof.
  revert k; induction sh as [|d sh IH]; intros [|k]; cbn [list_upd names_of map nth fst]; auto.
  f_equal. apply IH.
Qed.
Lemma lens_list_upd (sh : shape) k n x : lens_of (list_upd sh k (n, x)) = list_upd (lens_of sh) k x.
Proof.
  revert k; induction sh as [|d sh IH]; intros [|k]; cbn [list_upd lens_of map snd]; auto.
  f_equal. apply IH.
Qed.
Lemma len_at_nth (sh : shape) d : len_at sh d = nth d (lens_of sh) 0.
Proof. unfold len_at, lens_of. symmetry. apply (map_nth snd sh (0%nat, 0) d). Qed.

Lemma Forall_nth_error {A} (Q : A -> Prop) l k x : Forall Q l -> nth_error l k = Some x -> Q x.
Proof. intros H E. apply nth_error_In in E. rewrite Forall_forall in H. auto. Qed.

Lemma head_in_first cs : cs <> [] -> exists c0 r, cs = c0 :: r /\ first_shape cs = c_shape c0.
Proof. destruct cs as [|c0 r]; [congruence|]. intros _. exists c0, r. split; reflexivity. Qed.

Lemma c_get_stack cs along n idx :
  c_get (CStack cs along n) idx =
  pickN (fun c1 => c_get c1 (remove_at 0 along idx)) cs (nth along idx 0).
Proof.
  cbn [c_get]. generalize (nth along idx 0). induction cs as [|c1 r IH]; intros k; [reflexivity|].
  cbn [pickN]. destruct (k =? 0); [reflexivity|]. apply IH.
Qed.

Lemma c_get_chain cs along idx :
  c_get (CChain cs along) idx =
  match chain_find (map (fun c0 => len_at (c_shape c0) along) cs) (nth along idx 0) 0 with
  | None => None
  | Some (k, i) => picknat (fun c1 => c_get c1 (list_upd idx along i)) cs k
  end.
Proof.
  cbn [c_get]. destruct (chain_find _ _ _) as [[k i]|]; [|reflexivity].
  revert k; induction cs as [|c1 r IH]; intros k; [reflexivity|].
  destruct k as [|k]; [reflexivity|]. cbn [picknat]. apply IH.
Qed.

Theorem cwf_contract c : cwf c -> usize_view c -> contract c.
Proof.
  induction c using cview_ind'; cbn [cwf usize_view]; unfold contract.
  - (* tensor *)
    intros [Hv ->] _. cbn [c_shape c_get]. split; [exact Hv|]. intros idx Hl.
    rewrite get_index_direct_spec by exact Hl. rewrite <- in_range_b_spec.
    destruct (in_range_b idx (lens_of sh)); cbn [option_map]; split; intros H;
      try reflexivity; try discriminate; exfalso; apply H; reflexivity.
  - (* matrix *)
    intros [Hn [Hr Hk]] _. cbn [c_shape c_get]. split.
    + split; cbn [names_of lens_of map fst snd].
      * constructor; [intros [H|[]]; congruence|constructor; [intros []|constructor]].
      * repeat constructor; assumption.
    + intros idx Hl. destruct idx as [|a [|b [|? ?]]]; cbn [length] in Hl; try lia.
      cbn [lens_of map snd in_range].
      destruct (N.ltb_spec a r), (N.ltb_spec b k); cbn [andb]; split; intros Hq;
        try discriminate; try tauto; try lia; exfalso; apply Hq; reflexivity.
  - (* range *)
    intros [Hw HF] Hu. destruct (IHc Hw Hu) as [Hv Hg]. cbn [c_shape c_get].
    pose proof (Forall2_length' _ _ _ HF) as Hlen.
    assert (Hsh : lens_of (zipwith (fun d r => (fst d, r_len r)) (c_shape c) rs) = map r_len rs)
      by (apply lens_range_shape; lia).
    split.
    + split.
      * rewrite names_zipwith_fst by lia. apply Hv.
      * rewrite Hsh. clear - HF. induction HF as [|d r sh rs' [_ H] _ IH]; cbn [map]; constructor; auto.
    + intros idx Hl. rewrite zipwith_length in Hl by lia. rewrite Hsh.
      pose proof (range_step (c_shape c) rs idx HF Hl) as Hs.
      destruct (map_indexes_by_range idx rs) as [idx'|].
      * destruct Hs as [A [B _]]. split; [intros _; exact A|]. intros _. apply Hg; [|exact B].
        apply in_range_length in B. rewrite lens_of_length in B. exact B.
      * split; [intros H; exfalso; apply H; reflexivity|]. intros H. contradiction.
  - (* mask *)
    intros [Hw HF] [HU Hu]. destruct (IHc Hw Hu) as [Hv Hg]. cbn [c_shape c_get].
    pose proof (Forall2_length' _ _ _ HF) as Hlen.
    assert (Hsh := lens_mask_shape (c_shape c) ms ltac:(lia)).
    split.
    + split.
      * rewrite names_zipwith_fst by lia. apply Hv.
      * rewrite Hsh. clear - HF. induction HF as [|d m sh ms' [_ H] _ IH]; cbn [zipwith]; constructor; auto. lia.
    + intros idx Hl. rewrite zipwith_length in Hl by lia. rewrite Hsh.
      destruct (mask_step (c_shape c) ms idx HF HU Hl) as [Hs _]. rewrite <- Hs.
      apply Hg. unfold map_indexes_by_mask. rewrite zipwith_length by lia. lia.
  - (* index *)
    intros [Hw HF] Hu. destruct (IHc Hw Hu) as [Hv Hg]. cbn [c_shape c_get].
    destruct (unprovided_sub (c_shape c) pr HF) as [_ [B C]]. split.
    + split; [apply B; apply Hv|apply C; apply Hv].
    + intros idx Hl. destruct (select_step (c_shape c) pr idx HF Hl) as [idx' [E [L H]]].
      rewrite E, <- H. apply Hg. exact L.
  - (* expansion *)
    intros [Hw [Hs [Hnd Hni]]] Hu. destruct (IHc Hw Hu) as [Hv Hg]. cbn [c_shape c_get].
    set (sh := c_shape c) in *.
    assert (Hgen : forall idx, length idx = (length sh + length ex)%nat -> _) by
      (intros idx Hl; exact (expand_step (length sh + length ex) sh 0 ex idx (length sh) Hs
                              ltac:(lia) eq_refl Hl)).
    destruct (Hgen (repeat 0 (length sh + length ex)) ltac:(apply repeat_length)) as [P _].
    split.
    + apply (valid_perm _ _ P). destruct Hv as [Hv1 Hv2]. split.
      * unfold names_of. rewrite map_app. apply NoDup_app_iff'.
        -- exact Hv1.
        -- unfold extra_dims. rewrite map_map. cbn [fst]. exact Hnd.
        -- intros x Hx Hy. unfold extra_dims in Hy. rewrite map_map in Hy. cbn [fst] in Hy.
           apply in_map_iff in Hy. destruct Hy as [e [<- He]]. rewrite Forall_forall in Hni.
           exact (Hni e He Hx).
      * unfold lens_of. rewrite map_app. apply Forall_app. split; [exact Hv2|].
        unfold extra_dims. rewrite map_map. cbn [snd]. apply Forall_forall. intros x Hx.
        apply in_map_iff in Hx. destruct Hx as [? [<- _]]. lia.
    + intros idx Hl. apply Permutation_length in P. rewrite app_length in P.
      unfold extra_dims in P. rewrite map_length in P. rewrite P in Hl.
      destruct (Hgen idx Hl) as [_ H]. destruct (expand_idx idx 0 ex) as [idx'|].
      * destruct H as [L H]. rewrite <- H. apply Hg. exact L.
      * split; [intros E; exfalso; apply E; reflexivity|]. intros E. contradiction.
  - (* rename *)
    intros [Hw [Hl Hnd]] Hu. destruct (IHc Hw Hu) as [Hv Hg]. cbn [c_shape c_get].
    destruct (lens_rename_shape (c_shape c) ns Hl) as [A B]. split.
    + split; [rewrite B; exact Hnd|rewrite A; apply Hv].
    + intros idx Hi. rewrite zipwith_length in Hi by lia. rewrite A. apply Hg. exact Hi.
  - (* reverse *)
    intros [Hw Hl] Hu. destruct (IHc Hw Hu) as [Hv Hg]. cbn [c_shape c_get]. split; [exact Hv|].
    intros idx Hi.
    destruct (reverse_step (c_shape c) rev idx (proj2 Hv) Hl Hi) as [L [H _]].
    rewrite <- H. apply Hg. exact L.
  - (* access *)
    intros [Hw [req [Hl Hnew]]] Hu. destruct (IHc Hw Hu) as [Hv Hg]. cbn [c_shape c_get].
    pose proof (access_shape_perm (c_shape c) req tbl (proj1 Hv) Hl Hnew) as P. split.
    + apply (valid_perm _ _ P). exact Hv.
    + intros idx Hi. rewrite (Permutation_length P) in Hi.
      destruct (access_step (c_shape c) req tbl idx (proj1 Hv) Hl Hnew Hi) as [L H].
      rewrite <- H. apply Hg. exact L.
  - (* transpose *)
    intros [Hw [req [Hl Hnew]]] Hu. destruct (IHc Hw Hu) as [Hv Hg]. cbn [c_shape c_get].
    pose proof (access_shape_perm (c_shape c) req tbl (proj1 Hv) Hl Hnew) as P.
    destruct (lens_transpose_shape (c_shape c) (map_shape_to_requested tbl (c_shape c))
                (Permutation_length P)) as [A B].
    split.
    + split; [rewrite B; apply Hv|]. rewrite A.
      eapply Permutation_Forall; [|exact (proj2 Hv)]. unfold lens_of. apply Permutation_map.
      symmetry. exact P.
    + intros idx Hi. rewrite zipwith_length in Hi by (symmetry; exact (Permutation_length P)).
      rewrite A. destruct (access_step (c_shape c) req tbl idx (proj1 Hv) Hl Hnew Hi) as [L H'].
      rewrite <- H'. apply Hg. exact L.
  - (* stack *)
    intros [Hne [Hall [Hal [Hnin Hsame]]]] Hu. rewrite all_Forall in Hall, Hu.
    assert (Hc : Forall contract cs).
    { rewrite Forall_forall in *. intros x Hx. apply H; auto. }
    destruct (head_in_first cs Hne) as [c0 [r [Ecs Efs]]].
    assert (Hv0 : valid_shape (first_shape cs)).
    { rewrite Efs. rewrite Forall_forall in Hc. apply Hc. rewrite Ecs. left. reflexivity. }
    cbn [c_shape]. fold (first_shape cs). set (sh0 := first_shape cs) in *.
    set (x := (n, N.of_nat (length cs))).
    assert (Hgen : forall idx, length idx = S (length sh0) -> _) by
      (intros idx Hl; exact (stack_step sh0 0 along x idx ltac:(lia) Hl)).
    destruct (Hgen (repeat 0 (S (length sh0))) ltac:(apply repeat_length)) as [P _].
    split.
    + apply (valid_perm _ _ P). destruct Hv0 as [A B]. split.
      * cbn [names_of map fst x]. constructor; assumption.
      * cbn [lens_of map snd x]. constructor; [|exact B]. destruct cs; [congruence|cbn [length]; lia].
    + intros idx Hl. rewrite (Permutation_length P) in Hl. cbn [length] in Hl.
      destruct (Hgen idx Hl) as [_ [L Hr]]. rewrite Hr. rewrite Nat.sub_0_r. cbn [snd x].
      rewrite c_get_stack.
      rewrite pickN_spec. set (k := nth along idx 0).
      destruct (nth_error cs (N.to_nat k)) as [ck|] eqn:Ek.
      * assert (Hk : k < N.of_nat (length cs)).
        { assert (N.to_nat k < length cs)%nat by (apply nth_error_Some; congruence). lia. }
        destruct (Forall_nth_error _ _ _ _ Hc Ek) as [_ Hgk].
        pose proof (Forall_nth_error _ _ _ _ Hsame Ek) as Hsk. cbn beta in Hsk.
        rewrite Hgk by (rewrite Hsk; exact L). rewrite Hsk. tauto.
      * apply nth_error_None in Ek. split; [intros E; exfalso; apply E; reflexivity|].
        intros [E _]. lia.
  - (* chain *)
    intros [Hne [Hall [Hal Hsim]]] Hu. rewrite all_Forall in Hall, Hu.
    assert (Hc : Forall contract cs).
    { rewrite Forall_forall in *. intros x Hx. apply H; auto. }
    destruct (head_in_first cs Hne) as [c0 [r [Ecs Efs]]].
    assert (Hv0 : valid_shape (first_shape cs)).
    { rewrite Efs. rewrite Forall_forall in Hc. apply Hc. rewrite Ecs. left. reflexivity. }
    cbn [c_shape]. fold (first_shape cs). set (sh0 := first_shape cs) in *.
    rewrite map_map. set (lens := map (fun c1 => len_at (c_shape c1) along) cs).
    assert (Hlens : length lens = length cs) by (unfold lens; apply map_length).
    assert (Hnth : forall k ck, nth_error cs k = Some ck -> nth k lens 0 = nth along (lens_of (c_shape ck)) 0).
    { intros k ck E. unfold lens. rewrite <- len_at_nth.
      erewrite nth_indep by (rewrite map_length; apply nth_error_Some; congruence).
      apply map_nth_error with (f := fun c1 => len_at (c_shape c1) along) in E.
      apply nth_error_nth with (d := len_at (c_shape ck) along) in E. exact E. }
    split.
    + split.
      * rewrite names_list_upd. apply Hv0.
      * rewrite lens_list_upd. destruct Hv0 as [_ Hp].
        assert (Hpos : 0 < sum lens).
        { subst lens. rewrite Ecs. cbn [map sum fold_right]. rewrite len_at_nth, <- Efs.
          rewrite Forall_forall in Hp. specialize (Hp (nth along (lens_of sh0) 0)
            ltac:(apply nth_In; rewrite lens_of_length; exact Hal)). lia. }
        assert (Hgen : forall (ls : list N) a s, Forall (fun l => 0 < l) ls -> 0 < s ->
                       Forall (fun l => 0 < l) (list_upd ls a s)).
        { clear. intros ls a s Hp; revert a; induction Hp as [|l ls Hl Hp IH]; intros [|a] Hs;
            cbn [list_upd]; constructor; auto. }
        apply Hgen; assumption.
    + intros idx Hl. rewrite list_upd_length in Hl. rewrite lens_list_upd.
      rewrite c_get_chain. fold lens.
      pose proof (chain_find_spec lens (nth along idx 0) 0) as Hf.
      assert (HD : length (list_upd (lens_of sh0) along (sum lens)) = length sh0)
        by (rewrite list_upd_length; apply lens_of_length).
      rewrite (in_range_nth idx (list_upd (lens_of sh0) along (sum lens))) by lia. rewrite HD.
      destruct (chain_find lens (nth along idx 0) 0) as [[k i']|].
      * destruct Hf as [Hk [Hi' Hsum]]. rewrite Nat.sub_0_r in *.
        rewrite picknat_spec.
        destruct (nth_error cs k) as [ck|] eqn:Ek;
          [|apply nth_error_None in Ek; lia].
        destruct (Forall_nth_error _ _ _ _ Hc Ek) as [_ Hgk].
        pose proof (Forall_nth_error _ _ _ _ Hsim Ek) as Hsk. cbn beta in Hsk.
        destruct (similar_from_spec _ _ _ _ Hsk) as [SL [_ SK]].
        rewrite Hgk by (rewrite list_upd_length; lia).
        rewrite (in_range_nth (list_upd idx along i') (lens_of (c_shape ck)))
          by (rewrite list_upd_length, lens_of_length; lia).
        rewrite lens_of_length, SL.
        pose proof (sum_firstn_lt lens k ltac:(lia)) as Hle.
        rewrite (Hnth k ck Ek) in Hi', Hle.
        split; intros Hall' d Hd; specialize (Hall' d Hd); destruct (Nat.eq_dec d along) as [->|Hne'].
        -- rewrite list_upd_nth_same by (rewrite lens_of_length; lia). lia.
        -- rewrite list_upd_nth_other in * by exact Hne'. rewrite <- SK by (cbn; exact Hne'). exact Hall'.
        -- rewrite list_upd_nth_same by lia. exact Hi'.
        -- rewrite list_upd_nth_other in * by exact Hne'. rewrite SK by (cbn; exact Hne'). exact Hall'.
      * split; [intros E; exfalso; apply E; reflexivity|]. intros Hall'.
        specialize (Hall' along Hal). rewrite list_upd_nth_same in Hall' by (rewrite lens_of_length; lia). lia.
  - (* wrap *)
    intros Hw Hu. destruct (IHc Hw Hu) as [Hv Hg]. cbn [c_shape c_get]. split; assumption.
Qed.

(* ================= constructors establish the invariants ================= *)

Section ViewInd.
  Variable P : view -> Prop.
  Hypothesis HT : forall id sh, P (VTensor id sh).
  Hypothesis HM : forall id r k n0 n1, P (VMatrix id r k n0 n1).
  Hypothesis HRange : forall v p, P v -> P (VRange v p).
  Hypothesis HMask : forall v p, P v -> P (VMask v p).
  Hypothesis HIndex : forall v ps, P v -> P (VIndex v ps).
  Hypothesis HExpand : forall v es, P v -> P (VExpand v es).
  Hypothesis HRename : forall v ns, P v -> P (VRename v ns).
  Hypothesis HReverse : forall v ns, P v -> P (VReverse v ns).
  Hypothesis HAccess : forall v ns, P v -> P (VAccess v ns).
  Hypothesis HTranspose : forall v ns, P v -> P (VTranspose v ns).
  Hypothesis HStack : forall vs pos n, Forall P vs -> P (VStack vs pos n).
  Hypothesis HChain : forall vs n, Forall P vs -> P (VChain vs n).
  Hypothesis HWrap : forall v, P v -> P (VWrap v).

  Fixpoint view_ind' (v : view) : P v :=
    match v with
    | VTensor id sh => HT id sh
    | VMatrix id r k n0 n1 => HM id r k n0 n1
    | VRange v p => HRange v p (view_ind' v)
    | VMask v p => HMask v p (view_ind' v)
    | VIndex v ps => HIndex v ps (view_ind' v)
    | VExpand v es => HExpand v es (view_ind' v)
    | VRename v ns => HRename v ns (view_ind' v)
    | VReverse v ns => HReverse v ns (view_ind' v)
    | VAccess v ns => HAccess v ns (view_ind' v)
    | VTranspose v ns => HTranspose v ns (view_ind' v)
    | VStack vs pos n =>
        HStack vs pos n
          ((fix go (l : list view) : Forall P l :=
              match l with
              | [] => Forall_nil P
              | x :: r => Forall_cons x (view_ind' x) (go r)
              end) vs)
    | VChain vs n =>
        HChain vs n
          ((fix go (l : list view) : Forall P l :=
              match l with
              | [] => Forall_nil P
              | x :: r => Forall_cons x (view_ind' x) (go r)
              end) vs)
    | VWrap v => HWrap v (view_ind' v)
    end.
End ViewInd.

(* sources are constructed first, in order *)
Fixpoint ctor_all (vs : list view) : outcome (list cview) :=
  match vs with
  | [] => Ok []
  | v0 :: r => obind (v_ctor v0) (fun c0 => omap (cons c0) (ctor_all r))
  end.

Lemma v_ctor_stack vs pos n : v_ctor (VStack vs pos n) = obind (ctor_all vs) (fun cs => stack_ctor cs pos n).
Proof.
  reflexivity.
Qed.
Lemma v_ctor_chain vs n : v_ctor (VChain vs n) = obind (ctor_all vs) (fun cs => chain_ctor cs n).
Proof.
  reflexivity.
Qed.

Lemma ctor_all_wf vs : Forall (fun v => forall c, v_ctor v = Ok c -> cwf c) vs ->
  forall cs, ctor_all vs = Ok cs -> Forall cwf cs.
Proof.
  induction 1 as [|v r Hv _ IH]; intros cs H; cbn [ctor_all] in H.
  - injection H as <-. constructor.
  - destruct (v_ctor v) as [c0| |] eqn:E; cbn [obind] in H; try discriminate.
    destruct (ctor_all r) as [cr| |]; cbn [omap] in H; try discriminate. injection H as <-.
    constructor; [apply Hv; reflexivity|apply IH; reflexivity].
Qed.

(* ---- range / mask ---- *)
Lemma r_clip_ok r l : let r' := r_clip r l in
  r_start r' = r_start r /\ (0 < r_len r' -> r_start r' + r_len r' <= l) /\ r_len r' <= l.
Proof. unfold r_clip, sat_add. cbn [r_start r_len]. lia. Qed.

Lemma clip_all_length (sh : shape) rs : length rs = length sh -> length (clip_all sh rs) = length sh.
Proof. intros H. unfold clip_all. apply zipwith_length. lia. Qed.

Lemma clip_all_range_ok (sh : shape) : forall rs, length rs = length sh ->
  Forall (fun l => 0 < l) (map r_len (clip_all sh rs)) -> Forall2 range_ok sh (clip_all sh rs).
Proof.
  unfold clip_all. induction sh as [|d sh IH]; intros [|r rs] Hl Hp; cbn [length] in Hl; try lia;
    cbn [zipwith map] in *; [constructor|].
  inversion Hp as [|? ? H1 H2]; subst. constructor; [|apply IH; [lia|exact H2]].
  clear - H1. unfold range_ok, r_clip, sat_add in *. cbn [r_start r_len] in *. lia.
Qed.

Lemma clip_all_mask_ok (sh : shape) : forall ms, length ms = length sh ->
  Forall (fun l => 0 < l) (zipwith (fun d m => snd d - r_len m) sh (clip_all sh ms)) ->
  Forall2 mask_ok sh (clip_all sh ms).
Proof.
  unfold clip_all. induction sh as [|d sh IH]; intros [|r rs] Hl Hp; cbn [length] in Hl; try lia;
    cbn [zipwith map] in *; [constructor|].
  inversion Hp as [|? ? H1 H2]; subst. constructor; [|apply IH; [lia|exact H2]].
  clear - H1. unfold mask_ok, r_clip, sat_add in *. cbn [r_start r_len] in *. lia.
Qed.

Lemma range_clip_from_wf c rs c' : length rs = length (c_shape c) ->
  range_clip_from c rs = Ok c' -> exists rs', c' = CRange c rs' /\ Forall2 range_ok (c_shape c) rs'.
Proof.
  intros Hl. unfold range_clip_from.
  set (rs' := clip_all (c_shape c) (range_defaults (c_shape c) rs)).
  destruct (valid_shape_b _) eqn:E; [|discriminate]. intros [= <-]. exists rs'. split; [reflexivity|].
  assert (Hl' : length (range_defaults (c_shape c) rs) = length (c_shape c))
    by (unfold range_defaults; apply zipwith_length; lia).
  apply clip_all_range_ok; [exact Hl'|]. apply valid_shape_b_spec in E. destruct E as [_ E].
  rewrite lens_range_shape in E by (apply clip_all_length; exact Hl'). exact E.
Qed.

Lemma mask_clip_from_wf c ms c' : length ms = length (c_shape c) ->
  mask_clip_from c ms = Ok c' -> exists ms', c' = CMask c ms' /\ Forall2 mask_ok (c_shape c) ms'.
Proof.
  intros Hl. unfold mask_clip_from.
  set (ms' := clip_all (c_shape c) (mask_defaults ms)).
  destruct (valid_shape_b _) eqn:E; [|discriminate]. intros [= <-]. exists ms'. split; [reflexivity|].
  assert (Hl' : length (mask_defaults ms) = length (c_shape c))
    by (unfold mask_defaults; rewrite map_length; exact Hl).
  apply clip_all_mask_ok; [exact Hl'|]. apply valid_shape_b_spec in E. destruct E as [_ E].
  rewrite lens_mask_shape in E by (apply clip_all_length; exact Hl'). exact E.
Qed.

Lemma place_named_length sh : forall named acc all,
  place_named sh named acc = Some all -> length all = length acc.
Proof.
  induction named as [|[n r] rest IH]; intros acc all H; cbn [place_named] in H.
  - injection H as <-. reflexivity.
  - destruct (position_of sh n); [|discriminate]. apply IH in H. rewrite list_upd_length in H. exact H.
Qed.

Lemma from_named_length sh named all : from_named_to_all sh named = Ok all -> length all = length sh.
Proof.
  unfold from_named_to_all. destruct (has_duplicates _); [discriminate|].
  destruct (place_named _ _ _) as [a|] eqn:E; [|discriminate]. intros [= <-].
  apply place_named_length in E. rewrite repeat_length in E. exact E.
Qed.

Lemma map_err_Ok {A} f (o : outcome A) a : map_err f o = Ok a -> o = Ok a.
Proof. destruct o; cbn; congruence. Qed.

(* whatever the constructor form, an Ok result is clip_from applied to one range per dimension *)
Lemma ranged_ctor_Ok clip_from c p c' : ranged_ctor clip_from c p = Ok c' ->
  exists all, length all = length (c_shape c) /\ clip_from c all = Ok c'.
Proof.
  unfold ranged_ctor. destruct p as [[|] named|[|] rs].
  - destruct (from_named_to_all _ _) as [all| |] eqn:E; cbn [map_err obind]; try discriminate.
    destruct (range_exceeds_bounds _ _); [discriminate|]. intros H. apply map_err_Ok in H.
    exists all. split; [eapply from_named_length; exact E|exact H].
  - destruct (from_named_to_all _ _) as [all| |] eqn:E; cbn [obind]; try discriminate.
    intros H. apply map_err_Ok in H. exists all. split; [eapply from_named_length; exact E|exact H].
  - destruct (Nat.eqb_spec (length rs) (length (c_shape c))) as [E|E]; cbn [negb]; [|discriminate].
    destruct (range_exceeds_bounds _ _); [discriminate|]. intros H. apply map_err_Ok in H.
    exists rs. split; assumption.
  - destruct (Nat.eqb_spec (length rs) (length (c_shape c))) as [E|E]; cbn [negb]; [|discriminate].
    intros H. exists rs. split; assumption.
Qed.

(* ---- index selection ---- *)
Lemma find_sel_spec (sh : shape) n index : forall i k, find_sel sh n index i = Some k ->
  (i <= k < i + length sh)%nat /\ index < snd (nth (k - i) sh (0%nat, 0)).
Proof.
  induction sh as [|d sh IH]; intros i k H; cbn [find_sel] in H; [discriminate|].
  destruct (Nat.eqb (fst d) n && (index <? snd d)) eqn:E.
  - injection H as <-. apply andb_prop in E as [_ E]. apply N.ltb_lt in E.
    rewrite Nat.sub_diag. cbn [nth length]. split; [lia|exact E].
  - apply IH in H. destruct H as [A B]. cbn [length]. split; [lia|].
    replace (k - i)%nat with (S (k - S i)) by lia. exact B.
Qed.

Lemma Forall2_list_upd {A B} (R : A -> B -> Prop) l1 : forall l2 k x d,
  Forall2 R l1 l2 -> (k < length l1)%nat -> R (nth k l1 d) x -> Forall2 R l1 (list_upd l2 k x).
Proof.
  induction l1 as [|a l1 IH]; intros l2 k x d HF Hk Hx; inversion HF; subst; cbn [length] in Hk; [lia|].
  destruct k as [|k]; cbn [list_upd nth] in *; constructor; auto. eapply IH; eauto. lia.
Qed.

Lemma place_provided_ok (sh : shape) : forall ps acc pr,
  place_provided sh ps acc = Some pr -> Forall2 provided_ok sh acc -> Forall2 provided_ok sh pr.
Proof.
  induction ps as [|[n index] rest IH]; intros acc pr H HF; cbn [place_provided] in H.
  - injection H as <-. exact HF.
  - destruct (find_sel sh n index 0) as [i|] eqn:E; [|discriminate].
    apply find_sel_spec in E. destruct E as [A B]. rewrite Nat.sub_0_r in B.
    eapply IH; [exact H|]. eapply Forall2_list_upd with (d := (0%nat, 0)); [exact HF|lia|exact B].
Qed.

Lemma Forall2_repeat_None (sh : shape) : Forall2 provided_ok sh (repeat None (length sh)).
Proof. induction sh; cbn; constructor; [exact I|assumption]. Qed.

(* ---- expansion ---- *)
Lemma contains_false (sh : shape) n : contains sh n = false -> ~ In n (names_of sh).
Proof.
  unfold contains. intros H Hin. apply in_map_iff in Hin. destruct Hin as [d [<- Hd]].
  assert (existsb (fun d0 => Nat.eqb (fst d0) (fst d)) sh = true)
    by (apply existsb_exists; exists d; split; [exact Hd|apply Nat.eqb_refl]).
  congruence.
Qed.

Lemma existsb_false_Forall {A} (f : A -> bool) l : existsb f l = false -> Forall (fun x => f x = false) l.
Proof.
  induction l as [|x l IH]; cbn [existsb]; [constructor|]. intros H. apply orb_false_elim in H as [A0 B].
  constructor; auto.
Qed.

(* ---- stack / chain ---- *)
Lemma forallb_Forall' {A} (f : A -> bool) l : forallb f l = true -> Forall (fun x => f x = true) l.
Proof. intros H. rewrite forallb_forall in H. apply Forall_forall. exact H. Qed.

Lemma similar_from_refl (s : shape) : forall d along, similar_from d along s s = true.
Proof.
  induction s as [|a s IH]; intros d along; cbn [similar_from]; [reflexivity|].
  rewrite IH, Nat.eqb_refl, N.eqb_refl. destruct (Nat.eqb d along); reflexivity.
Qed.

Theorem ctor_wf v : forall c, v_ctor v = Ok c -> cwf c.
Proof.
  induction v using view_ind'; intros c0 Hc.
  - (* tensor *)
    cbn [v_ctor] in Hc. destruct (valid_shape_b sh) eqn:E; [|discriminate]. injection Hc as <-.
    cbn [cwf]. split; [apply valid_shape_b_spec; exact E|reflexivity].
  - (* matrix *)
    cbn [v_ctor] in Hc. destruct (N.eqb_spec (r * k) 0) as [Z|Z]; [discriminate|].
    destruct (valid_shape_b _) eqn:E; [|discriminate]. injection Hc as <-.
    apply valid_shape_b_spec in E. destruct E as [E1 E2]. cbn [names_of lens_of map fst snd] in *.
    cbn [cwf]. inversion E1 as [|? ? Hn _]; subst. inversion E2 as [|? ? H1 H2]; subst.
    inversion H2; subst. split; [|split; assumption]. intros ->. apply Hn. left. reflexivity.
  - (* range *)
    cbn [v_ctor] in Hc. destruct (v_ctor v) as [c| |] eqn:E; cbn [obind] in Hc; try discriminate.
    apply ranged_ctor_Ok in Hc. destruct Hc as [all [Hl Hc]].
    apply range_clip_from_wf in Hc; [|exact Hl]. destruct Hc as [rs' [-> HF]].
    cbn [cwf]. split; [apply IHv; reflexivity|exact HF].
  - (* mask *)
    cbn [v_ctor] in Hc. destruct (v_ctor v) as [c| |] eqn:E; cbn [obind] in Hc; try discriminate.
    apply ranged_ctor_Ok in Hc. destruct Hc as [all [Hl Hc]].
    apply mask_clip_from_wf in Hc; [|exact Hl]. destruct Hc as [ms' [-> HF]].
    cbn [cwf]. split; [apply IHv; reflexivity|exact HF].
  - (* index *)
    cbn [v_ctor] in Hc. destruct (v_ctor v) as [c| |] eqn:E; cbn [obind] in Hc; try discriminate.
    unfold index_ctor in Hc. destruct (length (c_shape c) <? length ps)%nat; [discriminate|].
    destruct (has_duplicates _); [discriminate|].
    destruct (place_provided _ _ _) as [pr|] eqn:Ep; [|discriminate]. injection Hc as <-.
    cbn [cwf]. split; [apply IHv; reflexivity|].
    eapply place_provided_ok; [exact Ep|apply Forall2_repeat_None].
  - (* expansion *)
    cbn [v_ctor] in Hc. destruct (v_ctor v) as [c| |] eqn:E; cbn [obind] in Hc; try discriminate.
    unfold expand_ctor in Hc. destruct (has_duplicates (map snd es)) eqn:Ed; [discriminate|].
    destruct (existsb _ es) eqn:Ee; [discriminate|]. injection Hc as <-.
    apply has_duplicates_false in Ed. apply existsb_false_Forall in Ee.
    pose proof (stable_sort_perm es) as P.
    cbn [cwf]. split; [apply IHv; reflexivity|]. split; [|split].
    + apply stable_sort_sorted. eapply Forall_impl; [|exact Ee]. cbn beta. intros e He.
      apply orb_false_elim in He as [He _]. apply Nat.ltb_ge in He. exact He.
    + eapply Permutation_NoDup; [|exact Ed]. apply Permutation_map. symmetry. exact P.
    + eapply Permutation_Forall; [symmetry; exact P|]. eapply Forall_impl; [|exact Ee]. cbn beta.
      intros e He. apply orb_false_elim in He as [_ He]. apply contains_false. exact He.
  - (* rename *)
    cbn [v_ctor] in Hc. destruct (v_ctor v) as [c| |] eqn:E; cbn [obind] in Hc; try discriminate.
    unfold rename_ctor in Hc.
    destruct (Nat.eqb_spec (length ns) (length (c_shape c))) as [El|El]; cbn [negb] in Hc; [|discriminate].
    destruct (has_duplicates ns) eqn:Ed; [discriminate|]. injection Hc as <-.
    cbn [cwf]. split; [apply IHv; reflexivity|]. split; [exact El|apply has_duplicates_false; exact Ed].
  - (* reverse *)
    cbn [v_ctor] in Hc. destruct (v_ctor v) as [c| |] eqn:E; cbn [obind] in Hc; try discriminate.
    unfold reverse_ctor in Hc. destruct (has_duplicates ns); [discriminate|].
    destruct (existsb _ ns); [discriminate|]. injection Hc as <-.
    cbn [cwf]. split; [apply IHv; reflexivity|apply map_length].
  - (* access *)
    cbn [v_ctor] in Hc. destruct (v_ctor v) as [c| |] eqn:E; cbn [obind] in Hc; try discriminate.
    unfold access_tbl in Hc.
    destruct (Nat.eqb_spec (length ns) (length (c_shape c))) as [El|El]; cbn [negb omap] in Hc; [|discriminate].
    destruct (dm_new _ ns) as [tbl|] eqn:En; cbn [omap] in Hc; [|discriminate]. injection Hc as <-.
    cbn [cwf]. split; [apply IHv; reflexivity|]. exists ns. split; assumption.
  - (* transpose *)
    cbn [v_ctor] in Hc. destruct (v_ctor v) as [c| |] eqn:E; cbn [obind] in Hc; try discriminate.
    unfold access_tbl in Hc.
    destruct (Nat.eqb_spec (length ns) (length (c_shape c))) as [El|El]; cbn [negb omap] in Hc; [|discriminate].
    destruct (dm_new _ ns) as [tbl|] eqn:En; cbn [omap] in Hc; [|discriminate]. injection Hc as <-.
    cbn [cwf]. split; [apply IHv; reflexivity|]. exists ns. split; assumption.
  - (* stack *)
    rewrite v_ctor_stack in Hc. destruct (ctor_all vs) as [cs| |] eqn:E; cbn [obind] in Hc; try discriminate.
    pose proof (ctor_all_wf vs H cs E) as Hw.
    unfold stack_ctor in Hc. destruct cs as [|c1 r] eqn:Ecs; [discriminate|].
    destruct (length (c_shape c1) <? pos)%nat eqn:Ep; [discriminate|].
    destruct (contains (c_shape c1) n) eqn:Ect; [discriminate|].
    destruct (shapes_equal _) eqn:Es; cbn [negb] in Hc; [|discriminate]. injection Hc as <-.
    cbn [cwf]. rewrite all_Forall. unfold first_shape. cbn [map head_shape].
    split; [discriminate|]. split; [inversion Hw; subst; split; assumption|]. split; [apply Nat.ltb_ge; exact Ep|].
    split; [apply contains_false; exact Ect|].
    constructor; [reflexivity|]. cbn [shapes_equal map] in Es. apply forallb_Forall' in Es.
    rewrite Forall_map in Es. eapply Forall_impl; [|exact Es]. cbn beta. intros a Ha.
    apply shape_eqb_eq. exact Ha.
  - (* chain *)
    rewrite v_ctor_chain in Hc. destruct (ctor_all vs) as [cs| |] eqn:E; cbn [obind] in Hc; try discriminate.
    pose proof (ctor_all_wf vs H cs E) as Hw.
    unfold chain_ctor, chain_ctor_gen in Hc. destruct cs as [|c1 r] eqn:Ecs; [discriminate|].
    destruct (c_shape c1) as [|d0 sh1] eqn:Esh; [discriminate|].
    destruct (position_of _ n) as [along|] eqn:Ep; [|discriminate].
    destruct (shapes_similar_checked _ along) eqn:Es'; cbn [negb] in Hc; [|discriminate]. injection Hc as <-.
    cbn [map] in Es'. apply shapes_similar_checked_spec in Es'. destruct Es' as [Es _].
    change (c_shape c1 :: map c_shape r) with (map c_shape (c1 :: r)) in Es.
    cbn [cwf]. rewrite all_Forall. unfold first_shape. cbn [map head_shape]. rewrite Esh.
    split; [discriminate|]. split; [inversion Hw; subst; split; assumption|]. split.
    + unfold position_of in Ep. apply index_of_Some in Ep. rewrite names_of_length in Ep. apply Ep.
    + constructor; [rewrite Esh; apply similar_from_refl|].
      cbn [shapes_similar map] in Es. rewrite Esh in Es. apply forallb_Forall' in Es.
      rewrite Forall_map in Es. exact Es.
  - (* wrap *)
    cbn [v_ctor] in Hc. destruct (v_ctor v) as [c| |] eqn:E; cbn [omap] in Hc; try discriminate.
    injection Hc as <-. cbn [cwf]. apply IHv. reflexivity.
Qed.
