(* C10: representation invariants and in-bounds access, composed from the shared index algebra.
   (Further clauses — matrix histories, iterators, view compositions — are imported from the
   developments of C11, C09, C02 in Properties/C10.v as they become available.) *)
From Coq Require Import List ZArith NArith Bool Arith Lia.
From EasyML Require Import Base.Sx Model.Shape Model.Tensor Model.U64 Model.Fallible
     Proofs.ShapeP Proofs.C01P Proofs.C16P.
Import ListNotations.
Open Scope N_scope.

(* every validating constructor establishes the invariant, whichever entry point *)
Lemma ctor_inv {A} sh (data : list A) t :
  tensor_try_from sh data = Ok t \/ tensor_from sh data = Ok t -> tensor_inv t.
Proof.
  intros [H|H]; [|apply from_agrees in H]; apply try_from_inv in H; tauto.
Qed.

(* a write through any accepted ordering keeps the invariant *)
Lemma set_preserves_inv {A} (t : tensor A) req a idx v a' :
  tensor_inv t -> length req = length (t_shape t) -> length idx = length (t_shape t) ->
  access_try_from t req = Ok a -> access_set a idx v = Some a' -> tensor_inv (a_src a').
Proof.
  intros Hinv Hlen Hidx Ha Hset.
  destruct (in_range_b idx (lens_of (access_shape a))) eqn:E.
  - apply in_range_b_spec in E.
    destruct (access_set_exact t req a idx v Hinv Hlen Hidx Ha E) as [a'' [Hs [_ [Hsh [Hst [Hl _]]]]]].
    rewrite Hs in Hset. injection Hset as <-.
    destruct Hinv as [Hv [Hs1 He]]. unfold tensor_inv. rewrite Hsh, Hst, Hl. auto.
  - assert (~ in_range idx (lens_of (access_shape a))) as Hn
      by (intros H; apply in_range_b_spec in H; congruence).
    destruct (access_get_oob t req a idx Hinv Hlen Hidx Ha Hn) as [_ Hnone].
    rewrite Hnone in Hset. discriminate.
Qed.

(* the storage position computed for an in-range index lies inside the stored data; for an
   out-of-range index NO position is computed at all (the bounds test precedes the access) *)
Lemma position_in_bounds {A} (t : tensor A) idx : tensor_inv t -> length idx = length (t_shape t) ->
  match get_index_direct idx (t_strides t) (t_shape t) with
  | Some p => in_range idx (lens_of (t_shape t)) /\ (N.to_nat p < length (t_data t))%nat
  | None => ~ in_range idx (lens_of (t_shape t))
  end.
Proof.
  intros [[Hnd Hpos] [Hst Hel]] Hlen. rewrite Hst, get_index_direct_spec by exact Hlen.
  destruct (in_range_b idx (lens_of (t_shape t))) eqn:E.
  - apply in_range_b_spec in E. split; [exact E|].
    apply flat_lt in E. unfold elements in Hel. lia.
  - intros H. apply in_range_b_spec in H. congruence.
Qed.

(* and computing it cannot overflow in either build profile *)
Lemma position_no_overflow {A} (t : tensor A) m idx : tensor_inv t ->
  elements (t_shape t) <= usize_max ->
  gid_m m idx (t_strides t) (lens_of (t_shape t)) 0 =
  Ok (get_index_direct idx (t_strides t) (t_shape t)).
Proof.
  intros [Hv [Hst _]] Hb. rewrite Hst. apply get_index_direct_total; assumption.
Qed.
