(* C04 — proofs at the level of an arbitrary commutative ring (the dictionary `ops` with ring
   laws): running a straight-line program through the Record operators of Model/AD.v yields
   (1) the plain values of Spec/FormalD.v, (2) a tape whose reverse sweep, read at the position of
   any variable, is the formal partial derivative `grad`, (3) constants without tape entries,
   (4) exactly 0 for variables the output does not depend on.
   The analytic half (the formal derivative is the true derivative over Coq's reals) is in
   Proofs/C04R.v. *)
From Coq Require Import List Arith Lia Ring Bool ZArith.
From EasyML Require Import Base.Sx Model.Num Model.Tape Model.AD Spec.FormalD Proofs.TapeP.
Import ListNotations.

Section C04.
Context {R : Type} (ops : numops R).
Hypothesis Rth : ring_theory (nzero ops) (none_ ops) (nadd ops) (nmul ops) (nsub ops) (nneg ops) (@eq R).
Add Ring Rring4 : Rth.
Notation rO := (nzero ops).
Notation rI := (none_ ops).
Notation "x [+] y" := (nadd ops x y) (at level 50, left associativity).
Notation "x [*] y" := (nmul ops x y) (at level 40, left associativity).
Notation "x [-] y" := (nsub ops x y) (at level 50, left associativity).

(* ------------------------------------------------------------------ ghost seeds *)
(* seeds : one number per tape position (the velocity injected at that position) *)
Definition sd_of (seeds : list R) (j : nat) : R := nth j seeds rO.
Definition tans (t : tape R) (sd : list R) : list R := tangents ops t (sd_of sd) [].

Lemma tangents_ext (t : tape R) s s' acc :
  (forall j, j < length acc + length t -> s j = s' j) ->
  tangents ops t s acc = tangents ops t s' acc.
Proof.
  revert acc; induction t as [|e t IH]; intros acc H; cbn [tangents]; [reflexivity|].
  rewrite (H (length acc)) by (simpl; lia).
  apply IH. intros j Hj. apply H. rewrite app_length in Hj. simpl in *. lia.
Qed.

Lemma tans_length t sd : length (tans t sd) = length t.
Proof. unfold tans. rewrite tangents_length. reflexivity. Qed.

Lemma tans_push t sd e z : length sd = length t ->
  tans (t ++ [e]) (sd ++ [z]) =
  tans t sd ++ [z [+] lw e [*] nth (lp e) (tans t sd) rO [+] rw e [*] nth (rp e) (tans t sd) rO].
Proof.
  intros Hlen. unfold tans. rewrite tangents_app. cbv zeta.
  assert (E : tangents ops t (sd_of (sd ++ [z])) [] = tangents ops t (sd_of sd) []).
  { apply tangents_ext. intros j Hj. simpl in Hj. unfold sd_of. rewrite app_nth1 by lia. reflexivity. }
  rewrite E. f_equal. f_equal. f_equal. f_equal.
  rewrite tangents_length. simpl. unfold sd_of.
  rewrite app_nth2 by lia. rewrite Hlen, Nat.sub_diag. reflexivity.
Qed.

Definition ginv (t : tape R) (sd : list R) : Prop := wf_from ops 0 t /\ length sd = length t.

(* a record is related to a (value, tangent) pair of the specification *)
Definition rec_ok (t : tape R) (sd : list R) (r : rec R) (v d : R) : Prop :=
  number r = v /\
  if history r then index r < length t /\ nth (index r) (tans t sd) rO = d else d = rO.

Lemma rec_ok_push t sd e z r v d : length sd = length t ->
  rec_ok t sd r v d -> rec_ok (t ++ [e]) (sd ++ [z]) r v d.
Proof.
  intros Hlen [Hv Ht]. split; [exact Hv|]. destruct (history r); [|exact Ht].
  destruct Ht as [Hp Hd]. split; [rewrite app_length; simpl; lia|].
  rewrite tans_push by auto. rewrite app_nth1; [exact Hd|]. rewrite tans_length. lia.
Qed.

Lemma rec_ok_constant t sd c : rec_ok t sd (constant c) c rO.
Proof. split; reflexivity. Qed.

(* the ghost state after some appends: seeds extended by zeros, every old record still related *)
Definition gext (t : tape R) (sd : list R) (t' : tape R) (sd' : list R) : Prop :=
  (exists zs, sd' = sd ++ zs /\ Forall (fun z => z = rO) zs) /\
  ginv t' sd' /\
  (forall r v d, rec_ok t sd r v d -> rec_ok t' sd' r v d) /\
  length t <= length t'.

Lemma gext_refl t sd : ginv t sd -> gext t sd t sd.
Proof.
  intros H. split; [exists []; rewrite app_nil_r; auto|]. split; [exact H|]. split; auto.
Qed.

Lemma gext_trans t sd t1 sd1 t2 sd2 : gext t sd t1 sd1 -> gext t1 sd1 t2 sd2 -> gext t sd t2 sd2.
Proof.
  intros [[zs [E1 Z1]] [G1 [M1 L1]]] [[zs' [E2 Z2]] [G2 [M2 L2]]].
  split; [exists (zs ++ zs'); subst; rewrite app_assoc; split; auto; apply Forall_app; auto|].
  split; [exact G2|]. split; [auto|lia].
Qed.

Lemma gext_push t sd e : ginv t sd -> wf_entry ops (length t) e -> gext t sd (t ++ [e]) (sd ++ [rO]).
Proof.
  intros [Hwf Hlen] He. split; [exists [rO]; auto|].
  split; [split; [apply wf_from_app; split; [exact Hwf|exact He]|rewrite !app_length; simpl; lia]|].
  split; [intros; apply rec_ok_push; auto|rewrite app_length; lia].
Qed.

(* res = (record, tape') is a correct result for specification value v and tangent d *)
Definition step_ok (t : tape R) (sd : list R) (res : rec R * tape R) (v d : R) : Prop :=
  exists sd', gext t sd (snd res) sd' /\ rec_ok (snd res) sd' (fst res) v d.

Lemma step_eq t sd res v d v' d' : step_ok t sd res v d -> v = v' -> d = d' -> step_ok t sd res v' d'.
Proof. intros H <- <-. exact H. Qed.

Lemma step_trans t sd t1 sd1 res v d :
  gext t sd t1 sd1 -> step_ok t1 sd1 res v d -> step_ok t sd res v d.
Proof. intros G [sd' [G' H]]. exists sd'. split; [eapply gext_trans; eauto|exact H]. Qed.

Lemma step_none t sd v : ginv t sd -> step_ok t sd (mkRec v false 0, t) v rO.
Proof. intros G. exists sd. split; [apply gext_refl; exact G|]. split; reflexivity. Qed.

Lemma new_tangent t sd e : length sd = length t ->
  nth (length t) (tans (t ++ [e]) (sd ++ [rO])) rO =
  rO [+] lw e [*] nth (lp e) (tans t sd) rO [+] rw e [*] nth (rp e) (tans t sd) rO.
Proof.
  intros Hlen. rewrite tans_push by exact Hlen.
  rewrite app_nth2 by (rewrite tans_length; lia). rewrite tans_length, Nat.sub_diag. reflexivity.
Qed.

Lemma step_unary t sd a va da w f : ginv t sd -> rec_ok t sd a va da -> history a = true ->
  step_ok t sd (let '(t', i) := append_unary ops t (index a) w in (mkRec f true i, t')) f (w [*] da).
Proof.
  intros G [_ Ha] Hh. rewrite Hh in Ha. destruct Ha as [Hp Hd]. pose proof G as [Hwf Hlen].
  unfold append_unary. exists (sd ++ [rO]). cbn [fst snd]. split.
  - apply gext_push; [exact G|]. unfold wf_entry. cbn. repeat split; auto; lia.
  - split; [reflexivity|]. cbn [history index].
    split; [rewrite app_length; simpl; lia|].
    rewrite new_tangent by exact Hlen. cbn [lw rw lp rp]. rewrite Hd. ring.
Qed.

Lemma step_binary t sd a b va da vb db wa wb f : ginv t sd ->
  rec_ok t sd a va da -> history a = true -> rec_ok t sd b vb db -> history b = true ->
  step_ok t sd (let '(t', i) := append_binary t (index a) wa (index b) wb in (mkRec f true i, t'))
          f (wa [*] da [+] wb [*] db).
Proof.
  intros G [_ Ha] Hha [_ Hb] Hhb. rewrite Hha in Ha. rewrite Hhb in Hb.
  destruct Ha as [Hpa Hda]. destruct Hb as [Hpb Hdb]. pose proof G as [Hwf Hlen].
  unfold append_binary. exists (sd ++ [rO]). cbn [fst snd]. split.
  - apply gext_push; [exact G|]. unfold wf_entry. cbn. repeat split; auto; lia.
  - split; [reflexivity|]. cbn [history index].
    split; [rewrite app_length; simpl; lia|].
    rewrite new_tangent by exact Hlen. cbn [lw rw lp rp]. rewrite Hda, Hdb. ring.
Qed.

(* ------------------------------------------------------------------ the operators *)
Lemma rec_num_ok F t sd a c va da : ginv t sd -> rec_ok t sd a va da ->
  step_ok t sd (rec_num ops F t a c) (f2 F va c) (f2dx F va c [*] da).
Proof.
  intros G Ha. pose proof Ha as [Hn Hd]. subst va. unfold rec_num.
  destruct (history a) eqn:Hh.
  - apply step_unary with (va := number a); auto.
  - subst da. eapply step_eq; [apply step_none; exact G|reflexivity|ring].
Qed.

Lemma num_rec_ok F t sd c b vb db : ginv t sd -> rec_ok t sd b vb db ->
  step_ok t sd (num_rec ops F t c b) (f2 F c vb) (f2dy F c vb [*] db).
Proof.
  intros G Hb. pose proof Hb as [Hn Hd]. subst vb. unfold num_rec.
  destruct (history b) eqn:Hh.
  - apply step_unary with (va := number b); auto.
  - subst db. eapply step_eq; [apply step_none; exact G|reflexivity|ring].
Qed.

Lemma rec_rec_ok F cm t sd a b va da vb db : ginv t sd ->
  rec_ok t sd a va da -> rec_ok t sd b vb db ->
  (cm = true -> forall x y, f2 F y x = f2 F x y /\ f2dx F y x = f2dy F x y) ->
  step_ok t sd (rec_rec ops F cm t a b) (f2 F va vb) (f2dx F va vb [*] da [+] f2dy F va vb [*] db).
Proof.
  intros G Ha Hb Hcm. pose proof Ha as [Hna Hda]. pose proof Hb as [Hnb Hdb]. unfold rec_rec.
  destruct (history a) eqn:Hha, (history b) eqn:Hhb.
  - subst va vb. apply step_binary with (va := number a) (vb := number b); auto.
  - subst db. rewrite Hnb. eapply step_eq; [apply rec_num_ok; eauto|reflexivity|ring].
  - subst da. destruct cm.
    + destruct (Hcm eq_refl va vb) as [E1 E2]. rewrite Hna.
      eapply step_eq; [apply rec_num_ok; eauto|exact E1|rewrite E2; ring].
    + rewrite Hna. eapply step_eq; [apply num_rec_ok; eauto|reflexivity|ring].
  - subst da db va vb. eapply step_eq; [apply step_none; exact G|reflexivity|ring].
Qed.

Lemma rec_binary_ok F t sd a b va da vb db : ginv t sd ->
  rec_ok t sd a va da -> rec_ok t sd b vb db ->
  step_ok t sd (rec_binary ops F t a b) (f2 F va vb) (f2dx F va vb [*] da [+] f2dy F va vb [*] db).
Proof.
  intros G Ha Hb. pose proof Ha as [Hna Hda]. pose proof Hb as [Hnb Hdb]. unfold rec_binary.
  subst va vb. destruct (history a) eqn:Hha, (history b) eqn:Hhb.
  - apply step_binary with (va := number a) (vb := number b); auto.
  - subst db. eapply step_eq; [apply step_unary with (va := number a); eauto|reflexivity|ring].
  - subst da. eapply step_eq; [apply step_unary with (va := number b); eauto|reflexivity|ring].
  - subst da db. eapply step_eq; [apply step_none; exact G|reflexivity|ring].
Qed.

Lemma rec_un_ok F t sd a va da : ginv t sd -> rec_ok t sd a va da ->
  step_ok t sd (rec_un ops F t a) (f1 F va) (f1dx F va [*] da).
Proof.
  intros G Ha. pose proof Ha as [Hn Hd]. subst va. unfold rec_un.
  destruct (history a) eqn:Hh.
  - apply step_unary with (va := number a); auto.
  - subst da. eapply step_eq; [apply step_none; exact G|reflexivity|ring].
Qed.

Lemma rec_neg_ok t sd a va da : ginv t sd -> rec_ok t sd a va da ->
  step_ok t sd (rec_neg ops t a) (nneg ops va) (nneg ops rI [*] da).
Proof.
  intros G Ha. unfold rec_neg. destruct (history a) eqn:Hh.
  - eapply step_eq.
    + unfold rec_sub. apply rec_rec_ok with (va := rO) (da := rO); eauto.
      * apply rec_ok_constant.
      * discriminate.
    + cbn. ring.
    + cbn. ring.
  - destruct Ha as [Hn Hd]. rewrite Hh in Hd. subst va da.
    eapply step_eq; [apply step_none; exact G|reflexivity|ring].
Qed.

Lemma sum_step_ok t sd tot next vt dt vn dn : ginv t sd ->
  rec_ok t sd tot vt dt -> rec_ok t sd next vn dn ->
  step_ok t sd (sum_step ops (tot, t) next) (vt [+] vn) (dt [+] dn).
Proof.
  intros G Ht Hn. pose proof Ht as [Hnt Hdt]. pose proof Hn as [Hnn Hdn]. unfold sum_step.
  subst vt vn. destruct (history tot) eqn:Hht, (history next) eqn:Hhn.
  - eapply step_eq; [apply step_binary with (va := number tot) (vb := number next); eauto
                    |reflexivity|ring].
  - subst dn. eapply step_eq; [apply step_unary with (va := number tot); eauto|reflexivity|ring].
  - subst dt. eapply step_eq; [apply step_unary with (va := number next); eauto|reflexivity|ring].
  - subst dt dn. eapply step_eq; [apply step_none; exact G|reflexivity|ring].
Qed.

Lemma sum_fold_ok (nodes : list (rec R)) (v tn : nat -> R) l : forall t sd tot vt dt,
  ginv t sd -> rec_ok t sd tot vt dt ->
  (forall a, rec_ok t sd (getr ops nodes a) (v a) (tn a)) ->
  step_ok t sd (fold_left (sum_step ops) (map (getr ops nodes) l) (tot, t))
          (fold_left (fun acc x => acc [+] x) (map v l) vt)
          (fold_left (fun acc x => acc [+] x) (map tn l) dt).
Proof.
  induction l as [|a l IH]; intros t sd tot vt dt G Ht Hall; cbn [map fold_left].
  - exists sd. split; [apply gext_refl; exact G|exact Ht].
  - destruct (sum_step_ok t sd tot (getr ops nodes a) vt dt (v a) (tn a) G Ht (Hall a))
      as [sd1 [G1 H1]].
    destruct (sum_step ops (tot, t) (getr ops nodes a)) as [tot1 t1]. cbn [fst snd] in *.
    eapply step_trans; [exact G1|].
    apply IH; [apply G1|exact H1|]. intros b. apply G1. apply Hall.
Qed.

(* ------------------------------------------------------------------ one instruction *)
Lemma bop_fd_f o x y : f2 (bop_fd ops o) x y = bop_f ops o x y.
Proof. destruct o; reflexivity. Qed.
Lemma bop_fd_dx o x y : f2dx (bop_fd ops o) x y = bop_dx ops o x y.
Proof. destruct o; reflexivity. Qed.
Lemma bop_fd_dy o x y : f2dy (bop_fd ops o) x y = bop_dy ops o x y.
Proof. destruct o; reflexivity. Qed.
Lemma cop_fd_f o x y : f2 (cop_fd ops o) x y = bop_f ops (cop_bop o) x y.
Proof. destruct o; reflexivity. Qed.
Lemma cop_fd_dy o x y : f2dy (cop_fd ops o) x y = bop_dy ops (cop_bop o) x y.
Proof. destruct o; reflexivity. Qed.

Lemma exec_op_ok nodes t sd vs ts sdv ins : ginv t sd ->
  (forall a, rec_ok t sd (getr ops nodes a) (nth a vs rO) (nth a ts rO)) ->
  is_var ins = false ->
  step_ok t sd (exec_op ops nodes t ins) (value_instr ops vs ins) (tangent_instr ops vs ts sdv ins).
Proof.
  intros G Hall Hnv.
  destruct ins as [x|c|o a b|o a c|o c b|o a|l|f df a|f dx dy a b]; cbn [exec_op value_instr tangent_instr].
  - discriminate.
  - eapply step_eq; [apply step_none; exact G|reflexivity|reflexivity].
  - eapply step_eq.
    + apply rec_rec_ok; [exact G|apply Hall|apply Hall|].
      intros Hc x y. destruct o; try discriminate; cbn; split; try reflexivity; ring.
    + apply bop_fd_f.
    + rewrite bop_fd_dx, bop_fd_dy. reflexivity.
  - eapply step_eq; [apply rec_num_ok; [exact G|apply Hall]|apply bop_fd_f|rewrite bop_fd_dx; reflexivity].
  - eapply step_eq; [apply num_rec_ok; [exact G|apply Hall]|apply cop_fd_f|rewrite cop_fd_dy; reflexivity].
  - destruct o.
    + eapply step_eq; [apply rec_neg_ok; [exact G|apply Hall]|reflexivity|reflexivity].
    + eapply step_eq; [apply rec_un_ok; [exact G|apply Hall]|reflexivity|reflexivity].
    + eapply step_eq; [apply rec_un_ok; [exact G|apply Hall]|reflexivity|reflexivity].
    + eapply step_eq; [apply rec_un_ok; [exact G|apply Hall]|reflexivity|reflexivity].
    + eapply step_eq; [apply rec_un_ok; [exact G|apply Hall]|reflexivity|reflexivity].
    + eapply step_eq; [apply rec_un_ok; [exact G|apply Hall]|reflexivity|reflexivity].
  - unfold rec_sum, total.
    apply sum_fold_ok with (v := fun a => nth a vs rO) (tn := fun a => nth a ts rO);
      [exact G|apply rec_ok_constant|exact Hall].
  - eapply step_eq; [apply (rec_un_ok (mkFd1 f df)); [exact G|apply Hall]|reflexivity|reflexivity].
  - eapply step_eq; [apply (rec_binary_ok (mkFd2 f dx dy)); [exact G|apply Hall|apply Hall]
                    |reflexivity|reflexivity].
Qed.

(* ------------------------------------------------------------------ whole programs *)
Definition dflt : instr R := IConst rO.

(* the invariant of a run, for an arbitrary assignment s of velocities to the variables *)
Definition run_inv (s : nat -> R) (prog : list (instr R)) (st : state R) (ds : list R * list R) : Prop :=
  let '(nodes, t) := st in let '(vs, ts) := ds in
  exists sd,
    length nodes = length prog /\ length vs = length prog /\ length ts = length prog /\
    ginv t sd /\
    (forall a, rec_ok t sd (getr ops nodes a) (nth a vs rO) (nth a ts rO)) /\
    (forall j, j < length sd -> nth j sd rO = rO \/
       exists k, k < length prog /\ is_var (nth k prog dflt) = true /\
                 index (getr ops nodes k) = j /\ nth j sd rO = s k) /\
    (forall k, k < length prog -> is_var (nth k prog dflt) = true ->
       history (getr ops nodes k) = true /\ index (getr ops nodes k) < length sd /\
       nth (index (getr ops nodes k)) sd rO = s k).

Lemma getr_app_old nodes (r : rec R) a : a < length nodes -> getr ops (nodes ++ [r]) a = getr ops nodes a.
Proof. intros H. unfold getr. rewrite app_nth1 by exact H. reflexivity. Qed.
Lemma getr_app_new nodes (r : rec R) : getr ops (nodes ++ [r]) (length nodes) = r.
Proof. unfold getr. rewrite app_nth2, Nat.sub_diag by lia. reflexivity. Qed.
Lemma getr_overflow nodes a : length nodes <= a -> getr ops nodes a = constant rO.
Proof. intros H. unfold getr. rewrite nth_overflow by exact H. reflexivity. Qed.

Lemma all_ok_snoc t sd nodes r vs ts v d :
  length nodes = length vs -> length nodes = length ts ->
  (forall a, rec_ok t sd (getr ops nodes a) (nth a vs rO) (nth a ts rO)) ->
  rec_ok t sd r v d ->
  forall a, rec_ok t sd (getr ops (nodes ++ [r]) a) (nth a (vs ++ [v]) rO) (nth a (ts ++ [d]) rO).
Proof.
  intros Hv Ht Hall Hr a.
  destruct (Nat.lt_ge_cases a (length nodes)) as [Hlt|Hge].
  - rewrite getr_app_old by exact Hlt. rewrite !app_nth1 by lia. apply Hall.
  - destruct (Nat.eq_dec a (length nodes)) as [->|Hne].
    + rewrite getr_app_new. rewrite Hv at 1. rewrite Ht at 1.
      rewrite !app_nth2, !Nat.sub_diag by lia. exact Hr.
    + rewrite getr_overflow by (rewrite app_length; simpl; lia).
      rewrite !nth_overflow by (rewrite app_length; simpl; lia). apply rec_ok_constant.
Qed.

Lemma run_inv_step s prog st ds ins :
  run_inv s prog st ds -> run_inv s (prog ++ [ins]) (exec ops st ins) (dstep ops s ds ins).
Proof.
  destruct st as [nodes t]. destruct ds as [vs ts].
  intros [sd [Hn [Hvs [Hts [G [Hall [Hsd Hvar]]]]]]].
  cbn [exec dstep]. rewrite Hvs.
  destruct (is_var ins) eqn:Hiv.
  - (* a new variable: one nullary entry, seeded with s (its position) *)
    destruct ins as [x| | | | | | | |]; try discriminate. cbn [exec_op variable append_nullary].
    cbn [value_instr tangent_instr]. pose proof G as [Hwf Hlen].
    exists (sd ++ [s (length prog)]).
    assert (G' : ginv (t ++ [mkEntry (length t) (length t) rO rO]) (sd ++ [s (length prog)])).
    { split; [|rewrite !app_length; simpl; lia].
      apply wf_from_app. split; [exact Hwf|]. unfold wf_entry. cbn. repeat split; auto. }
    rewrite !app_length. cbn [length].
    split; [lia|]. split; [lia|]. split; [lia|]. split; [exact G'|]. split; [|split].
    + apply all_ok_snoc; try lia.
      * intros a. apply rec_ok_push; [exact Hlen|apply Hall].
      * split; [reflexivity|]. cbn [history index]. split; [rewrite app_length; simpl; lia|].
        rewrite tans_push by exact Hlen.
        rewrite app_nth2 by (rewrite tans_length; lia). rewrite tans_length, Nat.sub_diag.
        cbn [nth lw rw lp rp]. ring.
    + intros j Hj.
      destruct (Nat.eq_dec j (length sd)) as [->|Hne].
      * right. exists (length prog). split; [lia|].
        split; [rewrite app_nth2, Nat.sub_diag by lia; reflexivity|].
        rewrite <- Hn at 1. rewrite getr_app_new. cbn [index].
        split; [lia|]. rewrite app_nth2, Nat.sub_diag by lia. reflexivity.
      * rewrite app_nth1 by lia. destruct (Hsd j ltac:(lia)) as [H0|[k [Hk [Hkv [Hki Hks]]]]]; [left; exact H0|].
        right. exists k. split; [lia|]. rewrite app_nth1 by lia.
        rewrite getr_app_old by lia. auto.
    + intros k Hk Hkv. destruct (Nat.eq_dec k (length prog)) as [->|Hne].
      * rewrite <- Hn at 1 2 3. rewrite getr_app_new. cbn [history index].
        split; [reflexivity|]. split; [lia|].
        rewrite <- Hlen. rewrite app_nth2, Nat.sub_diag by lia. reflexivity.
      * rewrite app_nth1 in Hkv by lia. rewrite getr_app_old by lia.
        destruct (Hvar k ltac:(lia) Hkv) as [H1 [H2 H3]].
        split; [exact H1|]. split; [lia|]. rewrite app_nth1 by lia. exact H3.
  - (* any other instruction: zero seeds for whatever it appends *)
    pose proof (exec_op_ok nodes t sd vs ts (s (length prog)) ins G Hall Hiv) as [sd' [Gx Hr]].
    destruct (exec_op ops nodes t ins) as [r t']. cbn [fst snd] in *.
    destruct Gx as [[zs [-> Hz]] [G' [Hmono Hle]]].
    exists (sd ++ zs). rewrite !app_length. cbn [length].
    split; [lia|]. split; [lia|]. split; [lia|]. split; [exact G'|]. split; [|split].
    + apply all_ok_snoc; try lia; auto.
    + intros j Hj.
      destruct (Nat.lt_ge_cases j (length sd)) as [Hlt|Hge].
      * rewrite app_nth1 by lia. destruct (Hsd j Hlt) as [H0|[k [Hk [Hkv [Hki Hks]]]]]; [left; exact H0|].
        right. exists k. split; [lia|]. rewrite app_nth1 by lia. rewrite getr_app_old by lia. auto.
      * left. rewrite app_nth2 by lia. rewrite Forall_forall in Hz.
        destruct (nth_in_or_default (j - length sd) zs rO) as [Hin|Hd]; [apply Hz; exact Hin|exact Hd].
    + intros k Hk Hkv. destruct (Nat.eq_dec k (length prog)) as [->|Hne].
      * rewrite app_nth2, Nat.sub_diag in Hkv by lia. cbn in Hkv. congruence.
      * rewrite app_nth1 in Hkv by lia. rewrite getr_app_old by lia.
        destruct (Hvar k ltac:(lia) Hkv) as [H1 [H2 H3]].
        split; [exact H1|]. split; [lia|]. rewrite app_nth1 by lia. exact H3.
Qed.

Lemma run_prog_snoc prog ins : run_prog ops (prog ++ [ins]) = exec ops (run_prog ops prog) ins.
Proof. unfold run_prog. rewrite fold_left_app. reflexivity. Qed.
Lemma drun_snoc s prog ins : drun ops s (prog ++ [ins]) = dstep ops s (drun ops s prog) ins.
Proof. unfold drun. rewrite fold_left_app. reflexivity. Qed.

Lemma run_inv_holds s prog : run_inv s prog (run_prog ops prog) (drun ops s prog).
Proof.
  induction prog as [|ins prog IH] using rev_ind.
  - cbn. exists []. split; [reflexivity|]. split; [reflexivity|]. split; [reflexivity|].
    split; [split; [exact I|reflexivity]|]. split; [|split; cbn; intros; lia].
    intros a. destruct a; apply rec_ok_constant.
  - rewrite run_prog_snoc, drun_snoc. apply run_inv_step. exact IH.
Qed.

(* the plain values do not depend on the velocities *)
Lemma drun_fst s s' prog : fst (drun ops s prog) = fst (drun ops s' prog).
Proof.
  induction prog as [|ins prog IH] using rev_ind; [reflexivity|].
  rewrite !drun_snoc. destruct (drun ops s prog) as [vs ts]. destruct (drun ops s' prog) as [vs' ts'].
  cbn in IH. subst vs'. reflexivity.
Qed.

(* ---- C04_value ---- *)
Theorem value_correct prog k :
  number (getr ops (fst (run_prog ops prog)) k) = nth k (value ops prog) rO.
Proof.
  pose proof (run_inv_holds (fun _ => rO) prog) as H. unfold value.
  destruct (run_prog ops prog) as [nodes t]. destruct (drun ops (fun _ => rO) prog) as [vs ts].
  destruct H as [sd [_ [_ [_ [_ [Hall _]]]]]]. apply (Hall k).
Qed.

(* pairing a list with a one-hot seed list *)
Lemma sumn_pick n q (f g : nat -> R) : q < n ->
  (forall j, j < n -> j <> q -> g j = rO) -> g q = rI ->
  sumn ops n (fun j => f j [*] g j) = f q.
Proof.
  intros Hq Hz H1.
  rewrite (sumn_point ops Rth n q _ (fun _ => rO) (f q)); auto.
  - rewrite (sumn_zero ops Rth) by auto. ring.
  - intros j Hj Hne. rewrite Hz by auto. ring.
  - rewrite H1. ring.
Qed.

(* ---- C04_sweep_is_gradient ---- *)
Theorem sweep_is_gradient prog out v :
  v < length prog -> is_var (nth v prog dflt) = true ->
  let st := run_prog ops prog in
  let r := getr ops (fst st) out in
  history r = true ->
  at_ ops (sweep ops (snd st) (index r)) (getr ops (fst st) v) = grad ops prog out v.
Proof.
  intros Hv Hvar. cbv zeta.
  set (s := fun n => if Nat.eqb n v then rI else rO).
  pose proof (run_inv_holds s prog) as H. unfold grad, tangent. fold s.
  destruct (run_prog ops prog) as [nodes t]. destruct (drun ops s prog) as [vs ts].
  destruct H as [sd [Hn [Hvs [Hts [[Hwf Hlen] [Hall [Hsd Hvars]]]]]]]. cbn [fst snd].
  intros Hh. destruct (Hall out) as [_ Hout]. rewrite Hh in Hout. destruct Hout as [Hp Hd].
  destruct (Hvars v Hv Hvar) as [Hvh [Hvi Hvs1]].
  rewrite <- Hd. unfold tans.
  rewrite <- (sweep_is_tangent ops Rth t (sd_of sd) (index (getr ops nodes out)) Hwf Hp).
  unfold at_. symmetry.
  apply (sumn_pick (length t) (index (getr ops nodes v))
           (fun j => nth j (sweep ops t (index (getr ops nodes out))) rO) (sd_of sd)).
  - lia.
  - intros j Hj Hne. unfold sd_of.
    destruct (Hsd j ltac:(lia)) as [H0|[k [Hk [Hkv [Hki Hks]]]]]; [exact H0|].
    rewrite Hks. unfold s. destruct (Nat.eqb_spec k v) as [->|Hkv']; [congruence|reflexivity].
  - unfold sd_of. rewrite Hvs1. unfold s. rewrite Nat.eqb_refl. reflexivity.
Qed.

(* ---- C04_const_iff: a record has no tape exactly when no variable contributed ---- *)
Lemma sum_fold_history l : forall (tot : rec R) t,
  history (fst (fold_left (sum_step ops) l (tot, t))) = history tot || existsb (@history R) l.
Proof.
  induction l as [|a l IH]; intros tot t; cbn [fold_left existsb].
  - rewrite orb_false_r. reflexivity.
  - destruct (sum_step ops (tot, t) a) as [tot1 t1] eqn:E. rewrite IH.
    unfold sum_step in E. unfold append_unary, append_binary in E.
    destruct (history tot), (history a); inversion E; reflexivity.
Qed.

Lemma exec_op_history nodes t ins :
  history (fst (exec_op ops nodes t ins)) = dep_instr (map (@history R) nodes) true ins.
Proof.
  assert (G : forall a, history (getr ops nodes a) = nth a (map (@history R) nodes) false).
  { intros a. unfold getr. change false with (history (constant rO)). rewrite map_nth. reflexivity. }
  destruct ins as [x|c|o a b|o a c|o c b|o a|l|f df a|f dx dy a b]; cbn [exec_op dep_instr instr_refs existsb].
  - reflexivity.
  - reflexivity.
  - rewrite <- !G, orb_false_r. unfold rec_rec, rec_num, num_rec, append_unary, append_binary.
    destruct (history (getr ops nodes a)) eqn:Ha, (history (getr ops nodes b)) eqn:Hb;
      try destruct (bop_commuted o); cbn; rewrite ?Ha, ?Hb; reflexivity.
  - rewrite <- G, orb_false_r. unfold rec_num, append_unary.
    destruct (history (getr ops nodes a)); reflexivity.
  - rewrite <- G, orb_false_r. unfold num_rec, append_unary.
    destruct (history (getr ops nodes b)); reflexivity.
  - rewrite <- G, orb_false_r.
    destruct o; unfold rec_neg, rec_sub, rec_rec, num_rec, rec_un, append_unary; cbn;
      destruct (history (getr ops nodes a)) eqn:Ha; cbn; rewrite ?Ha; reflexivity.
  - unfold rec_sum. rewrite sum_fold_history. cbn [history constant orb].
    induction l as [|a l IH]; [reflexivity|]. cbn [map existsb]. rewrite IH, G. reflexivity.
  - rewrite <- G, orb_false_r. unfold rec_un, append_unary.
    destruct (history (getr ops nodes a)); reflexivity.
  - rewrite <- !G, orb_false_r. unfold rec_binary, append_unary, append_binary.
    destruct (history (getr ops nodes a)), (history (getr ops nodes b)); reflexivity.
Qed.

Lemma depends_any_snoc (prog : list (instr R)) ins :
  depends_any (prog ++ [ins]) =
  depends_any prog ++ [dep_instr (depends_any prog) true ins].
Proof. unfold depends_any. rewrite fold_left_app. reflexivity. Qed.

Theorem const_iff (prog : list (instr R)) :
  map (@history R) (fst (run_prog ops prog)) = depends_any prog.
Proof.
  induction prog as [|ins prog IH] using rev_ind; [reflexivity|].
  rewrite run_prog_snoc, depends_any_snoc. destruct (run_prog ops prog) as [nodes t].
  cbn [exec fst] in *. pose proof (exec_op_history nodes t ins) as H.
  destruct (exec_op ops nodes t ins) as [r t']. cbn [fst] in *.
  rewrite map_app. cbn [map]. rewrite H, IH. reflexivity.
Qed.

(* ---- C04_constants_inert: an instruction whose result is a constant leaves the tape alone ---- *)
Lemma sum_fold_inert l : forall (tot : rec R) t,
  history (fst (fold_left (sum_step ops) l (tot, t))) = false ->
  snd (fold_left (sum_step ops) l (tot, t)) = t.
Proof.
  induction l as [|a l IH]; intros tot t H; cbn [fold_left] in *; [reflexivity|].
  destruct (sum_step ops (tot, t) a) as [tot1 t1] eqn:E.
  pose proof H as H'. rewrite sum_fold_history in H'. apply orb_false_iff in H' as [H1 _].
  rewrite (IH _ _ H). unfold sum_step, append_unary, append_binary in E.
  destruct (history tot), (history a); inversion E; subst; cbn in H1; congruence.
Qed.

Theorem constants_inert nodes t ins :
  history (fst (exec_op ops nodes t ins)) = false -> snd (exec_op ops nodes t ins) = t.
Proof.
  destruct ins as [x|c|o a b|o a c|o c b|o a|l|f df a|f dx dy a b]; cbn [exec_op].
  - cbn. discriminate.
  - reflexivity.
  - unfold rec_rec, rec_num, num_rec, append_unary, append_binary.
    destruct (history (getr ops nodes a)), (history (getr ops nodes b));
      try destruct (bop_commuted o); cbn; intros; try reflexivity; discriminate.
  - unfold rec_num, append_unary. destruct (history (getr ops nodes a)); cbn; intros; try reflexivity; discriminate.
  - unfold num_rec, append_unary. destruct (history (getr ops nodes b)); cbn; intros; try reflexivity; discriminate.
  - destruct o; unfold rec_neg, rec_sub, rec_rec, num_rec, rec_un, append_unary; cbn;
      destruct (history (getr ops nodes a)); cbn; intros; try reflexivity; discriminate.
  - unfold rec_sum. apply sum_fold_inert.
  - unfold rec_un, append_unary. destruct (history (getr ops nodes a)); cbn; intros; try reflexivity; discriminate.
  - unfold rec_binary, append_unary, append_binary.
    destruct (history (getr ops nodes a)), (history (getr ops nodes b)); cbn; intros; try reflexivity; discriminate.
Qed.

(* a constant record operand behaves exactly like the plain number it carries *)
Theorem constant_operand_is_number F cm t a c :
  rec_rec ops F cm t a (constant c) = rec_num ops F t a c /\
  rec_rec ops F false t (constant c) a = num_rec ops F t c a.
Proof.
  unfold rec_rec, rec_num, num_rec. cbn [history constant number].
  destruct (history a); split; reflexivity.
Qed.

(* ---- C04_independent_zero ---- *)
Lemma depends_on_snoc (prog : list (instr R)) v ins :
  depends_on (prog ++ [ins]) v =
  depends_on prog v ++ [dep_instr (depends_on prog v) (Nat.eqb (length (depends_on prog v)) v) ins].
Proof. unfold depends_on. rewrite fold_left_app. reflexivity. Qed.

Lemma depends_on_length (prog : list (instr R)) v : length (depends_on prog v) = length prog.
Proof.
  induction prog as [|ins prog IH] using rev_ind; [reflexivity|].
  rewrite depends_on_snoc, !app_length, IH. reflexivity.
Qed.

Lemma total_zero_aux l : forall acc, (forall x, In x l -> x = rO) ->
  fold_left (fun acc x => acc [+] x) l acc = acc.
Proof.
  induction l as [|x l IH]; intros acc H; cbn [fold_left]; [reflexivity|].
  rewrite IH by (intros; apply H; right; auto). rewrite (H x) by (left; auto). ring.
Qed.

Lemma existsb_false_nth (ds : list bool) l a : existsb (fun a => nth a ds false) l = false ->
  In a l -> nth a ds false = false.
Proof.
  intros H Hin. destruct (nth a ds false) eqn:E; [|reflexivity].
  assert (existsb (fun a => nth a ds false) l = true) by (apply existsb_exists; eauto). congruence.
Qed.

Lemma independent_tangent_zero prog v : forall k,
  nth k (depends_on prog v) false = false ->
  nth k (tangent ops prog (fun n => if Nat.eqb n v then rI else rO)) rO = rO.
Proof.
  set (s := fun n => if Nat.eqb n v then rI else rO). unfold tangent.
  induction prog as [|ins prog IH] using rev_ind; intros k Hk.
  - destruct k; reflexivity.
  - rewrite drun_snoc. rewrite depends_on_snoc in Hk.
    pose proof (run_inv_holds s prog) as Hinv.
    destruct (run_prog ops prog) as [nodes t]. destruct (drun ops s prog) as [vs ts] eqn:E.
    destruct Hinv as [sd [_ [Hvs [Hts _]]]]. cbn [snd] in IH. cbn [dstep snd].
    pose proof (depends_on_length prog v) as Hdl.
    destruct (Nat.lt_ge_cases k (length prog)) as [Hlt|Hge].
    + rewrite app_nth1 by lia. apply IH. rewrite app_nth1 in Hk by lia. exact Hk.
    + destruct (Nat.eq_dec k (length prog)) as [->|Hne]; [|apply nth_overflow; rewrite app_length; simpl; lia].
      rewrite <- Hts at 1. rewrite app_nth2, Nat.sub_diag by lia. cbn [nth].
      rewrite <- Hdl in Hk at 1. rewrite app_nth2, Nat.sub_diag in Hk by lia. cbn [nth] in Hk.
      rewrite Hdl in Hk. rewrite Hvs.
      set (ds := depends_on prog v) in *.
      assert (Z : forall a, nth a ds false = false -> nth a ts rO = rO) by (intros a Ha; apply IH; exact Ha).
      destruct ins as [x|c|o a b|o a c|o c b|o a|l|f df a|f dx dy a b];
        cbn [dep_instr instr_refs existsb tangent_instr] in *.
      * unfold s. rewrite Hk. reflexivity.
      * reflexivity.
      * rewrite orb_false_r in Hk. apply orb_false_iff in Hk as [Ha Hb].
        rewrite (Z a Ha), (Z b Hb). ring.
      * rewrite orb_false_r in Hk. rewrite (Z a Hk). ring.
      * rewrite orb_false_r in Hk. rewrite (Z b Hk). ring.
      * rewrite orb_false_r in Hk. rewrite (Z a Hk). ring.
      * unfold total. apply total_zero_aux. intros x Hin. apply in_map_iff in Hin as [a [<- Hin]].
        apply Z. eapply existsb_false_nth; eauto.
      * rewrite orb_false_r in Hk. rewrite (Z a Hk). ring.
      * rewrite orb_false_r in Hk. apply orb_false_iff in Hk as [Ha Hb].
        rewrite (Z a Ha), (Z b Hb). ring.
Qed.

Theorem independent_zero prog out v :
  v < length prog -> is_var (nth v prog dflt) = true ->
  nth out (depends_on prog v) false = false ->
  let st := run_prog ops prog in
  let r := getr ops (fst st) out in
  history r = true ->
  at_ ops (sweep ops (snd st) (index r)) (getr ops (fst st) v) = rO.
Proof.
  intros Hv Hvar Hdep st r Hh. subst st r.
  rewrite (sweep_is_gradient prog out v Hv Hvar Hh). unfold grad.
  apply independent_tangent_zero. exact Hdep.
Qed.

(* the gradient of a constant result is zero for every variable (used by C05) *)
Lemma constant_grad_zero prog out v :
  history (getr ops (fst (run_prog ops prog)) out) = false -> grad ops prog out v = rO.
Proof.
  intros Hh. unfold grad, tangent.
  set (s := fun n => if Nat.eqb n v then rI else rO).
  pose proof (run_inv_holds s prog) as H.
  destruct (run_prog ops prog) as [nodes t]. destruct (drun ops s prog) as [vs ts].
  destruct H as [sd [_ [_ [_ [_ [Hall _]]]]]]. cbn [fst snd] in *.
  destruct (Hall out) as [_ Hd]. rewrite Hh in Hd. exact Hd.
Qed.

(* ---- the same statements phrased with the API observation Record::try_derivatives ---- *)
Lemma is_var_nth prog v x : nth_error prog v = Some (IVar x) ->
  v < length prog /\ is_var (nth v prog dflt) = true.
Proof.
  intros H. split; [apply nth_error_Some; congruence|].
  rewrite (nth_error_nth prog v dflt H). reflexivity.
Qed.

Theorem try_derivatives_is_gradient prog out v x d :
  nth_error prog v = Some (IVar x) ->
  try_derivatives ops (run_prog ops prog) out = Some d ->
  at_ ops d (getr ops (fst (run_prog ops prog)) v) = grad ops prog out v.
Proof.
  intros Hv. destruct (is_var_nth prog v x Hv) as [Hlt Hvar]. unfold try_derivatives.
  destruct (history (getr ops (fst (run_prog ops prog)) out)) eqn:Hh; [|discriminate].
  intros E. inversion E. apply sweep_is_gradient; assumption.
Qed.

Theorem try_derivatives_independent_zero prog out v x d :
  nth_error prog v = Some (IVar x) ->
  nth out (depends_on prog v) false = false ->
  try_derivatives ops (run_prog ops prog) out = Some d ->
  at_ ops d (getr ops (fst (run_prog ops prog)) v) = rO.
Proof.
  intros Hv Hdep. destruct (is_var_nth prog v x Hv) as [Hlt Hvar]. unfold try_derivatives.
  destruct (history (getr ops (fst (run_prog ops prog)) out)) eqn:Hh; [|discriminate].
  intros E. inversion E. apply independent_zero; assumption.
Qed.

Theorem try_derivatives_none_iff (prog : list (instr R)) out :
  try_derivatives ops (run_prog ops prog) out = None <-> nth out (depends_any prog) false = false.
Proof.
  rewrite <- const_iff. unfold try_derivatives, getr.
  change (nth out (map (@history R) (fst (run_prog ops prog))) false)
    with (nth out (map (@history R) (fst (run_prog ops prog))) (history (constant rO))).
  rewrite map_nth.
  destruct (history (nth out (fst (run_prog ops prog)) (constant rO))); split; congruence.
Qed.

End C04.

Definition is_ring {R} (ops : numops R) : Prop :=
  ring_theory (nzero ops) (none_ ops) (nadd ops) (nmul ops) (nsub ops) (nneg ops) (@eq R).

(* the integers as a dictionary (non-vacuity of the ring hypothesis; exact division is Z.div) *)
Definition Zops : numops Z := {|
  nzero := 0%Z; none_ := 1%Z;
  nadd := Z.add; nsub := Z.sub; nmul := Z.mul; ndiv := Z.div; nneg := Z.opp;
  neqb := Z.eqb; nltb := Z.ltb; nleb := Z.leb;
  nsqrt := uf_sqrt Z.add Z.mul (fun z => z); nexp := uf_exp Z.add Z.mul (fun z => z);
  nln := uf_ln Z.add Z.mul (fun z => z); nsin := uf_sin Z.add Z.mul (fun z => z);
  ncos := uf_cos Z.add Z.mul (fun z => z); npow := uf_pow Z.add Z.mul (fun z => z);
  npi := 3%Z; nof_N := fun n => Some (Z.of_N n);
  nenc := fun z => SZ z; ndec := dZ
|}.
Lemma Zops_ring : is_ring Zops.
Proof. exact Zth. Qed.
