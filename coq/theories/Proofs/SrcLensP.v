(* The TensorMut contract for every well-formed source term: a write at an in-range index
   succeeds, is read back, changes no other index, and keeps the shape and well-formedness
   ("writes behave like a lens").  By induction on the term; the index maps of the adaptors are
   injective on in-range indexes.  This discharges the lens hypothesis of C09_owned_moves_once
   and C13_view_map_mut_with_index for every constructed source. *)
From Coq Require Import List ZArith NArith Bool Arith Lia Permutation.
From EasyML Require Import Base.Sx Model.Shape Model.Tensor Model.TSource Model.ShapeIter
  Model.Transform Proofs.ShapeP Proofs.C01P Proofs.OdometerP Proofs.C09P Proofs.C13P Proofs.C13SymP
  Proofs.C09OwnedP Proofs.SrcWfP.
Import ListNotations.
Open Scope N_scope.

(* ---------- injectivity of the index maps ---------- *)

Lemma reverse_indexes_inj : forall idx idx' (sh : shape) rev,
  length rev = length sh -> in_range idx (lens_of sh) -> in_range idx' (lens_of sh) ->
  reverse_indexes idx sh rev = reverse_indexes idx' sh rev -> idx = idx'.
Proof.
  induction idx as [|i idx IH]; intros [|i' idx'] [|[n l] sh] [|r rev] Hl Hr Hr' E;
    cbn [length lens_of map snd in_range] in *; try tauto; try lia.
  destruct Hr as [Hi Hr]. destruct Hr' as [Hi' Hr']. cbn [reverse_indexes] in E.
  injection E as E1 E2. f_equal.
  - destruct r; [|exact E1]. cbv zeta in E1.
    destruct (N.ltb_spec (l - 1) i); destruct (N.ltb_spec (l - 1) i'); lia.
  - eapply IH; eauto; lia.
Qed.

Lemma map_indexes_by_range_inj : forall idx idx' rg m,
  map_indexes_by_range idx rg = Some m -> map_indexes_by_range idx' rg = Some m -> idx = idx'.
Proof.
  induction idx as [|i idx IH]; intros [|i' idx'] [|r rg] m H H'; cbn [map_indexes_by_range] in *;
    try discriminate; [reflexivity|].
  unfold range_map in *. destruct (i <? snd r); [|discriminate]. destruct (i' <? snd r); [|discriminate].
  destruct (map_indexes_by_range idx rg) as [m1|] eqn:E1; [|discriminate].
  destruct (map_indexes_by_range idx' rg) as [m2|] eqn:E2; [|discriminate].
  cbn [option_map] in *. injection H as <-. injection H' as Hh Ht. subst m2. f_equal; [lia|].
  eapply IH; eauto.
Qed.

Lemma map_indexes_by_mask_inj : forall idx idx' (sh : shape) mk,
  Forall2 mask_ok sh mk -> Forall (fun l => l <= usize_max) (lens_of sh) ->
  let sh' := map (fun p : (name * N) * (N * N) => (fst (fst p), snd (fst p) - snd (snd p))) (combine sh mk) in
  in_range idx (lens_of sh') -> in_range idx' (lens_of sh') ->
  map_indexes_by_mask idx mk = map_indexes_by_mask idx' mk -> idx = idx'.
Proof.
  induction idx as [|i idx IH]; intros [|i' idx'] sh mk F Hu; inversion F as [|d r sh0 mk0 Hok F']; subst;
    cbv zeta; cbn [combine map lens_of snd fst in_range]; try tauto.
  cbn [lens_of map snd] in Hu. inversion Hu as [|? ? Hd Hrest]; subst.
  intros [Hi Hr] [Hi' Hr'] E. cbn [map_indexes_by_mask] in E. injection E as E1 E2. f_equal.
  - destruct d as [n l]. destruct r as [st ln]. destruct Hok as [H1 H2]. unfold range_mask in E1.
    cbn [fst snd] in *. destruct (N.ltb_spec i st); destruct (N.ltb_spec i' st); lia.
  - eapply (IH idx' sh0 mk0 F' Hrest); eauto.
Qed.

Lemma m2s_inj tbl (src req : list name) idx idx' :
  NoDup src -> length req = length src -> dm_new src req = Some tbl ->
  length idx = length src -> length idx' = length src ->
  map_dimensions_to_source tbl idx 0 = map_dimensions_to_source tbl idx' 0 -> idx = idx'.
Proof.
  intros Hnd Hlen Hnew Li Li' E.
  pose proof (s2r_length _ _ _ Hnew) as L1.
  apply nth_ext with (d := 0) (d' := 0); [lia|]. rewrite Li. intros d Hd.
  destruct (r2s_spec _ _ _ Hnd Hlen Hnew d Hd) as [Hb _].
  destruct (tables_inverse _ _ _ Hnd Hlen Hnew d Hd) as [_ Hinv].
  apply (f_equal (fun l => nth (nth d (dm_r2s tbl) 0%nat) l 0)) in E.
  unfold map_dimensions_to_source in E.
  rewrite !(nth_map_in _ _ _ _ 0%nat) in E by lia. rewrite Hinv in E. exact E.
Qed.

(* ---------- the lens property ---------- *)
Section Lens.
Context {A : Type}.

Definition lens_at (s : tsrc A) (idx : list N) (v : A) : Prop :=
  exists s', src_set s idx v = Some s' /\ src_wf s' /\ src_shape s' = src_shape s /\
             src_get s' idx = Some v /\
             forall idx', in_range idx' (lens_of (src_shape s)) -> idx' <> idx ->
                          src_get s' idx' = src_get s idx'.

Lemma in_range_len idx (sh : shape) : in_range idx (lens_of sh) -> length idx = length sh.
Proof. intros H. apply in_range_length in H. unfold lens_of in H. rewrite map_length in H. exact H. Qed.

Theorem wf_lens (s : tsrc A) : src_wf s -> forall idx v,
  in_range idx (lens_of (src_shape s)) -> lens_at s idx v.
Proof.
  induction s as [t|s IH rev|s IH rg|s IH tbl|s IH tbl|s IH mk|s IH names]; cbn [src_wf].
  - (* Tensor *)
    intros [Hinv Hb] idx v Hr.
    destruct (tensor_lens (TBase t) idx v) as [s' [H1 [[t' [-> Hinv']] [H3 [H4 H5]]]]];
      [exists t; auto|exact Hr|].
    cbn [src_shape] in *. exists (TBase t'). split; [exact H1|].
    split; [cbn [src_wf]; split; [exact Hinv'|rewrite H3; exact Hb]|].
    split; [exact H3|]. split; [exact H4|exact H5].
  - (* Reverse *)
    intros [Hwf Hl] idx v Hr. cbn [src_shape] in Hr.
    destruct (wf_contract s Hwf) as [Hv _].
    pose proof (in_range_len _ _ Hr) as Li.
    destruct (reverse_indexes_spec idx (src_shape s) rev Li Hl (proj2 Hv)) as [_ E].
    destruct (IH Hwf _ v (proj2 E Hr)) as [s1 [H1 [H2 [H3 [H4 H5]]]]].
    exists (TRev s1 rev). cbn [src_set src_get src_shape src_wf]. rewrite H1, H3.
    split; [reflexivity|]. split; [split; [exact H2|exact Hl]|]. split; [reflexivity|]. split; [exact H4|].
    intros idx' Hr' Hne.
    pose proof (in_range_len _ _ Hr') as Li'.
    destruct (reverse_indexes_spec idx' (src_shape s) rev Li' Hl (proj2 Hv)) as [_ E'].
    apply H5; [apply E'; exact Hr'|]. intros Heq. apply Hne.
    eapply reverse_indexes_inj; eauto.
  - (* Range *)
    intros [Hwf F] idx v Hr. pose proof (Forall2_length' _ _ _ F) as Lr.
    assert (Hlens : lens_of (src_shape (TRange s rg)) = map snd rg) by (apply range_shape_lens; exact Lr).
    rewrite Hlens in Hr.
    assert (Li : length idx = length (src_shape s)) by (apply in_range_length in Hr; rewrite map_length in Hr; lia).
    pose proof (map_indexes_by_range_spec idx (src_shape s) rg Li F) as M.
    destruct (map_indexes_by_range idx rg) as [m|] eqn:Em; [|contradiction]. destruct M as [_ [M2 _]].
    destruct (IH Hwf m v M2) as [s1 [H1 [H2 [H3 [H4 H5]]]]].
    exists (TRange s1 rg). cbn [src_set src_get src_shape src_wf]. rewrite Em, H1, H3.
    split; [reflexivity|]. split; [split; [exact H2|exact F]|]. split; [reflexivity|]. split; [exact H4|].
    cbn [src_shape] in Hlens. intros idx' Hr' Hne. rewrite Hlens in Hr'.
    assert (Li' : length idx' = length (src_shape s)) by (apply in_range_length in Hr'; rewrite map_length in Hr'; lia).
    pose proof (map_indexes_by_range_spec idx' (src_shape s) rg Li' F) as M'.
    destruct (map_indexes_by_range idx' rg) as [m'|] eqn:Em'; [|contradiction]. destruct M' as [_ [M2' _]].
    apply H5; [exact M2'|]. intros ->. apply Hne. eapply map_indexes_by_range_inj; eauto.
  - (* Access *)
    intros [Hwf [req [Hlen Hnew]]] idx v Hr. destruct (wf_contract s Hwf) as [Hv _].
    destruct (access_shape_valid s req tbl Hv Hlen Hnew) as [_ [_ Hl']].
    pose proof (in_range_len _ _ Hr) as Li. rewrite Hl' in Li.
    pose proof (proj1 (m2s_in_range_iff s req tbl Hv Hlen Hnew idx Li) Hr) as Hm.
    destruct (IH Hwf _ v Hm) as [s1 [H1 [H2 [H3 [H4 H5]]]]].
    exists (TAccess s1 tbl). cbn [src_set src_get src_shape src_wf]. rewrite H1, H3.
    split; [reflexivity|]. split; [split; [exact H2|exists req; auto]|]. split; [reflexivity|]. split; [exact H4|].
    change (map_shape_to_requested tbl (src_shape s)) with (src_shape (TAccess s tbl)).
    intros idx' Hr' Hne.
    pose proof (in_range_len _ _ Hr') as Li'. rewrite Hl' in Li'.
    apply H5; [apply (m2s_in_range_iff s req tbl Hv Hlen Hnew idx' Li'); exact Hr'|].
    intros Heq. apply Hne.
    assert (HlenN : length req = length (names_of (src_shape s))) by (unfold names_of; rewrite map_length; exact Hlen).
    eapply (m2s_inj tbl _ req); [apply Hv|exact HlenN|exact Hnew| | |exact Heq];
      unfold names_of; rewrite map_length; assumption.
  - (* Transpose *)
    intros [Hwf [req [Hlen Hnew]]] idx v Hr. destruct (wf_contract s Hwf) as [Hv _].
    destruct (access_shape_valid s req tbl Hv Hlen Hnew) as [_ [_ Hl']].
    assert (Hlens : lens_of (src_shape (TTranspose s tbl)) = lens_of (src_shape (TAccess s tbl)))
      by (apply transpose_shape_lens; exact Hl').
    rewrite Hlens in Hr.
    pose proof (in_range_len _ _ Hr) as Li. rewrite Hl' in Li.
    pose proof (proj1 (m2s_in_range_iff s req tbl Hv Hlen Hnew idx Li) Hr) as Hm.
    destruct (IH Hwf _ v Hm) as [s1 [H1 [H2 [H3 [H4 H5]]]]].
    exists (TTranspose s1 tbl). cbn [src_set src_get src_shape src_wf]. rewrite H1, H3.
    split; [reflexivity|]. split; [split; [exact H2|exists req; auto]|]. split; [reflexivity|]. split; [exact H4|].
    cbn [src_shape] in Hlens. intros idx' Hr' Hne. rewrite Hlens in Hr'.
    pose proof (in_range_len _ _ Hr') as Li'. cbn [src_shape] in Li'.
    unfold map_shape_to_requested in Li'. cbn [src_shape] in Hl'. unfold map_shape_to_requested in Hl'. rewrite Hl' in Li'.
    apply H5; [apply (m2s_in_range_iff s req tbl Hv Hlen Hnew idx' Li'); exact Hr'|].
    intros Heq. apply Hne.
    assert (HlenN : length req = length (names_of (src_shape s))) by (unfold names_of; rewrite map_length; exact Hlen).
    eapply (m2s_inj tbl _ req); [apply Hv|exact HlenN|exact Hnew| | |exact Heq];
      unfold names_of; rewrite map_length; assumption.
  - (* Mask *)
    intros [Hwf F] idx v Hr. pose proof (Forall2_length' _ _ _ F) as Lm.
    destruct (wf_contract s Hwf) as [Hv [Hb _]]. pose proof (lens_bounded _ Hv Hb) as Hu.
    cbn [src_shape] in Hr.
    assert (Li : length idx = length (src_shape s)).
    { apply in_range_len in Hr. rewrite map_length, combine_length, Lm, Nat.min_id in Hr. exact Hr. }
    destruct (map_indexes_by_mask_spec idx (src_shape s) mk Li F Hu) as [_ E]. cbv zeta in E.
    destruct (IH Hwf _ v (proj2 E Hr)) as [s1 [H1 [H2 [H3 [H4 H5]]]]].
    exists (TMask s1 mk). cbn [src_set src_get src_shape src_wf]. rewrite H1, H3.
    split; [reflexivity|]. split; [split; [exact H2|exact F]|]. split; [reflexivity|]. split; [exact H4|].
    intros idx' Hr' Hne.
    assert (Li' : length idx' = length (src_shape s)).
    { apply in_range_len in Hr'. rewrite map_length, combine_length, Lm, Nat.min_id in Hr'. exact Hr'. }
    destruct (map_indexes_by_mask_spec idx' (src_shape s) mk Li' F Hu) as [_ E']. cbv zeta in E'.
    apply H5; [apply E'; exact Hr'|]. intros Heq. apply Hne.
    eapply (map_indexes_by_mask_inj idx' idx (src_shape s) mk F Hu); eauto.
  - (* Rename *)
    intros [Hwf [Hl Hnd]] idx v Hr.
    assert (Hlens : lens_of (src_shape (TRename s names)) = lens_of (src_shape s))
      by (apply rename_shape_lens; exact Hl).
    rewrite Hlens in Hr.
    destruct (IH Hwf idx v Hr) as [s1 [H1 [H2 [H3 [H4 H5]]]]].
    exists (TRename s1 names). cbn [src_set src_get src_shape src_wf]. rewrite H1, H3.
    split; [reflexivity|]. split; [split; [exact H2|split; [exact Hl|exact Hnd]]|]. split; [reflexivity|]. split; [exact H4|].
    cbn [src_shape] in Hlens. intros idx' Hr' Hne. rewrite Hlens in Hr'. apply H5; auto.
Qed.

(* the hypotheses of the generic owned / map_mut theorems, for P := src_wf *)
Corollary wf_P_set (s : tsrc A) idx v : src_wf s -> in_range idx (lens_of (src_shape s)) ->
  exists s', src_set s idx v = Some s' /\ src_wf s' /\ src_shape s' = src_shape s /\
             src_get s' idx = Some v /\
             forall idx', in_range idx' (lens_of (src_shape s)) -> idx' <> idx ->
                          src_get s' idx' = src_get s idx'.
Proof. intros Hwf Hr. exact (wf_lens s Hwf idx v Hr). Qed.

Corollary wf_P_total (s : tsrc A) idx : src_wf s -> in_range idx (lens_of (src_shape s)) ->
  exists v, src_get s idx = Some v.
Proof. intros Hwf Hr. apply (wf_good_view s Hwf). exact Hr. Qed.

End Lens.
