(* C03, operand forms and equality: every one of the 16 (8, 4) operator impls transcribed in
   Model/ArithForms.v is the shared implementation applied to the container / view combination
   its form number names, and — for operands where the container holds the view's elements in
   view order — all of them compute one and the same result.  PartialEq of Matrix / MatrixView:
   the column-major fast path of matrix_equality is immaterial, the four impls agree, and the
   answer is the one tensor_equality gives on the same data. *)
From Coq Require Import List ZArith NArith Bool Arith Lia.
From EasyML Require Import Base.Sx Model.Shape Model.Tensor Model.Num Model.Arith Model.ArithForms
     Proofs.ShapeP Proofs.C01P Proofs.C03P.
Import ListNotations.
Open Scope N_scope.

Lemma form_cases16 (form : N) : form < 16 ->
  form = 0 \/ form = 1 \/ form = 2 \/ form = 3 \/ form = 4 \/ form = 5 \/ form = 6 \/ form = 7 \/
  form = 8 \/ form = 9 \/ form = 10 \/ form = 11 \/ form = 12 \/ form = 13 \/ form = 14 \/ form = 15.
Proof. lia. Qed.
Lemma form_cases8 (form : N) : form < 8 ->
  form = 0 \/ form = 1 \/ form = 2 \/ form = 3 \/ form = 4 \/ form = 5 \/ form = 6 \/ form = 7.
Proof. lia. Qed.
Lemma form_cases4 (form : N) : form < 4 -> form = 0 \/ form = 1 \/ form = 2 \/ form = 3.
Proof. lia. Qed.

Ltac all_forms H := repeat (destruct H as [H|H]); subst; reflexivity.

(* ================================================================ tensors *)
Section TForms.
Context {R : Type}.

(* the container of an operand holds its view's elements in view order *)
Definition tmaterialized (x : tpair R) : Prop :=
  view_wf (snd x) /\
  exists l, view_elems (snd x) = Some l /\ tensor_from (v_shape (snd x)) l = Ok (fst x).

(* each of the 16 Add / Sub impls is the shared implementation on the combination it names *)
Theorem form16_iter_is_zip (f : R -> R -> R) form (x y : tpair R) : form < 16 ->
  t_form16_iter (tensor_view_zip_iter f) form x y =
  t_zip_with f (form_left form x) (form_right form y).
Proof. intros H. apply form_cases16 in H. all_forms H. Qed.

Theorem forms16_agree_zip (f : R -> R -> R) form (x y : tpair R) :
  tmaterialized x -> tmaterialized y -> form < 16 ->
  t_form16_iter (tensor_view_zip_iter f) form x y = t_zip_with f (OV (snd x)) (OV (snd y)).
Proof.
  intros [Wx [lx [Ex Mx]]] [Wy [ly [Ey My]]] H. rewrite form16_iter_is_zip by exact H.
  destruct x as [mx vx], y as [my vy]. cbn [fst snd] in *.
  destruct (forms_agree_zip f vx vy lx ly mx my Wx Wy Ex Ey Mx My) as [H1 [H2 H3]].
  unfold form_left, form_right. cbn [fst snd].
  destruct (form <? 8), (form mod 8 <? 4); auto.
Qed.

(* map (scalar operators, negation): Tensor::map keeps shape and strides, TensorView::map goes
   through Tensor::from — the same tensor when the container holds the view's elements *)
Lemma map_forms_agree (f : R -> R) (x : tpair R) : tmaterialized x ->
  t_map f (OT (fst x)) = t_map f (OV (snd x)).
Proof.
  destruct x as [m v]. intros [_ [l [El Em]]]. cbn [fst snd] in *. cbn [t_map]. rewrite El.
  unfold tensor_from in *.
  destruct (validate_dimensions (v_shape v) (N.of_nat (length l))) eqn:V; [|discriminate].
  injection Em as <-. cbn [t_data t_shape t_strides]. rewrite map_length, V. reflexivity.
Qed.

(* a Tensor and the view over itself: the simplest operand of the theorems above *)
Lemma plain_tmaterialized (t : tensor R) : tensor_inv t -> elements (t_shape t) <= usize_max ->
  tmaterialized (t, view_of_tensor t).
Proof.
  intros Hinv Hb. split; [apply tensor_view_wf; assumption|]. exists (t_data t). cbn [fst snd].
  split; [apply direct_iter_is_view_order, Hinv|]. cbn [view_of_tensor v_shape].
  destruct Hinv as [Hv [Hs Hl]].
  destruct (tensor_from_ok (t_shape t) (t_data t) Hv Hb) as [E _]; [lia|]. rewrite E.
  destruct t as [d sh st]. cbn in *. rewrite Hs. reflexivity.
Qed.

(* the container materialised from any well-formed view *)
Lemma view_tmaterialized (v : tview R) : view_wf v ->
  exists m, tmaterialized (m, v).
Proof.
  intros Hwf. destruct (view_elems_Some v Hwf) as [l El].
  pose proof Hwf as [Hv [Hb _]].
  destruct (tensor_from_ok (v_shape v) l Hv Hb) as [E _]; [apply view_elems_length, El|].
  eexists. split; [exact Hwf|]. exists l. split; [exact El|exact E].
Qed.
End TForms.

Section TOperators.
Context {R : Type} (ops : numops R).

Theorem form16_ref_is_matmul form (x y : tpair R) : form < 16 ->
  t_form16_ref (tensor_view_matrix_product ops) form x y =
  t_matmul ops (form_left form x) (form_right form y).
Proof. intros H. apply form_cases16 in H. all_forms H. Qed.

Theorem forms16_agree_matmul form (x y : tpair R) :
  tmaterialized x -> tmaterialized y -> form < 16 ->
  t_mul16 ops form x y = t_matmul ops (OV (snd x)) (OV (snd y)).
Proof.
  intros [Wx [lx [Ex Mx]]] [Wy [ly [Ey My]]] H. unfold t_mul16.
  rewrite form16_ref_is_matmul by exact H.
  destruct x as [mx vx], y as [my vy]. cbn [fst snd] in *.
  destruct (forms_agree_matmul ops vx vy lx ly mx my Wx Wy Ex Ey Mx My) as [H1 [H2 H3]].
  unfold form_left, form_right. cbn [fst snd].
  destruct (form <? 8), (form mod 8 <? 4); auto.
Qed.

Theorem forms16_agree_add_sub form (x y : tpair R) :
  tmaterialized x -> tmaterialized y -> form < 16 ->
  t_add16 ops form x y = t_add ops (OV (snd x)) (OV (snd y)) /\
  t_sub16 ops form x y = t_sub ops (OV (snd x)) (OV (snd y)).
Proof. intros Hx Hy H. split; apply forms16_agree_zip; assumption. Qed.

Theorem scalar8_is_map k form (x : tpair R) s : form < 8 ->
  t_scalar8 ops k form x s = t_scalar ops k (if form <? 4 then OT (fst x) else OV (snd x)) s.
Proof. intros H. apply form_cases8 in H. all_forms H. Qed.

Theorem scalar8_agree k form (x : tpair R) s : tmaterialized x -> form < 8 ->
  t_scalar8 ops k form x s = t_scalar ops k (OV (snd x)) s.
Proof.
  intros Hx H. rewrite scalar8_is_map by exact H. unfold t_scalar.
  destruct (form <? 4); [apply map_forms_agree, Hx|reflexivity].
Qed.

(* negation is spelled map(|x| -x) on tensors: both receivers agree *)
Theorem neg_forms_agree (x : tpair R) : tmaterialized x ->
  t_neg ops (OT (fst x)) = t_neg ops (OV (snd x)).
Proof. apply map_forms_agree. Qed.

(* scalar_product (Tensor / TensorView receiver, argument Into<TensorView>): all four
   container / view combinations agree *)
Theorem dot_forms_agree (x y : tpair R) : tmaterialized x -> tmaterialized y ->
  t_dot ops (OT (fst x)) (OT (fst y)) = t_dot ops (OV (snd x)) (OV (snd y)) /\
  t_dot ops (OT (fst x)) (OV (snd y)) = t_dot ops (OV (snd x)) (OV (snd y)) /\
  t_dot ops (OV (snd x)) (OT (fst y)) = t_dot ops (OV (snd x)) (OV (snd y)).
Proof.
  destruct x as [mx vx], y as [my vy]. intros [Wx [lx [Ex Mx]]] [Wy [ly [Ey My]]].
  cbn [fst snd] in *.
  destruct (container_is_view vx lx mx Wx Ex Mx) as [Sx [Ix _]].
  destruct (container_is_view vy ly my Wy Ey My) as [Sy [Iy [Invy _]]].
  assert (Vy : view_elems (op_view (OT my)) = view_elems (op_view (OV vy))).
  { cbn [op_view]. rewrite (direct_iter_is_view_order my Invy). cbn [op_iter] in Iy. exact Iy. }
  unfold t_dot. rewrite Sx, Sy, Ix, Vy. repeat split; reflexivity.
Qed.
End TOperators.

(* ================================================================ matrices *)
Section MForms.
Context {R : Type}.

Definition mmaterialized (x : mpair R) : Prop :=
  exists l, mv_row_major (snd x) = Some l /\
            from_flat_row_major (mv_rows (snd x)) (mv_cols (snd x)) l = Ok (fst x).

Lemma mmaterialized_inv (x : mpair R) : mmaterialized x ->
  exists l, mv_row_major (snd x) = Some l /\
    fst x = mkMatrix l (mv_rows (snd x)) (mv_cols (snd x)) /\
    mv_rows (snd x) * mv_cols (snd x) = N.of_nat (length l) /\
    0 < mv_rows (snd x) * mv_cols (snd x) <= usize_max.
Proof.
  intros [l [El Em]]. exists l. split; [exact El|]. unfold from_flat_row_major in Em.
  destruct (N.leb_spec (mv_rows (snd x) * mv_cols (snd x)) usize_max); cbn [andb] in Em; [|discriminate].
  destruct (N.eqb_spec (mv_rows (snd x) * mv_cols (snd x)) (N.of_nat (length l))); cbn [andb] in Em;
    [|discriminate].
  destruct (N.eqb_spec (N.of_nat (length l)) 0); cbn [negb] in Em; [discriminate|].
  injection Em as <-. repeat split; auto; lia.
Qed.

Theorem m_form16_iter_is_zip (f : R -> R -> R) form (x y : mpair R) : form < 16 ->
  m_form16_iter (matrix_view_zip_iter f) form x y =
  m_zip_with f (mform_left form x) (mform_right form y).
Proof. intros H. apply form_cases16 in H. all_forms H. Qed.

(* what the elementwise operators and map read from a container is what they read from the view *)
Lemma mop_container_is_view (x : mpair R) : mmaterialized x ->
  mop_size (OM (fst x)) = mop_size (OMV (snd x)) /\ mop_iter (OM (fst x)) = mop_iter (OMV (snd x)).
Proof.
  intros H. destruct (mmaterialized_inv x H) as [l [El [Em _]]]. rewrite Em.
  cbn [mop_size mop_iter m_rows m_cols m_data]. rewrite El. split; reflexivity.
Qed.

Theorem m_forms16_agree_zip (f : R -> R -> R) form (x y : mpair R) :
  mmaterialized x -> mmaterialized y -> form < 16 ->
  m_form16_iter (matrix_view_zip_iter f) form x y = m_zip_with f (OMV (snd x)) (OMV (snd y)).
Proof.
  intros Hx Hy H. rewrite m_form16_iter_is_zip by exact H.
  destruct (mop_container_is_view x Hx) as [Sx Ix], (mop_container_is_view y Hy) as [Sy Iy].
  unfold mform_left, mform_right, m_zip_with.
  destruct (form <? 8), (form mod 8 <? 4); rewrite ?Sx, ?Sy, ?Ix, ?Iy; reflexivity.
Qed.

Lemma m_map_forms_agree (f : R -> R) (x : mpair R) : mmaterialized x ->
  m_map f (OM (fst x)) = m_map f (OMV (snd x)).
Proof.
  intros Hx. destruct (mop_container_is_view x Hx) as [Sx Ix]. unfold m_map.
  rewrite Sx, Ix. reflexivity.
Qed.

(* the k'th item of the row-major walk is the element at (k / columns, k mod columns) *)
Lemma mv_row_major_nth (v : mview R) l i j : mv_row_major v = Some l ->
  i < mv_rows v -> j < mv_cols v ->
  nth_error l (N.to_nat (i * mv_cols v + j)) = mv_get v i j.
Proof.
  unfold mv_row_major. intros H Hi Hj. apply sequence_Some in H.
  assert (E : N.to_nat (i * mv_cols v + j) =
              (N.to_nat i * N.to_nat (mv_cols v) + N.to_nat j)%nat) by lia.
  rewrite E.
  apply (f_equal (fun l => nth_error l (N.to_nat i * N.to_nat (mv_cols v) + N.to_nat j)%nat)) in H.
  rewrite nth_error_flat_map_uniform with (x := i) in H.
  - rewrite !nth_error_map', nrange_nth in H by exact Hj. cbn [option_map] in H.
    destruct (nth_error l _); cbn [option_map] in H; congruence.
  - intros a _. rewrite map_length, nrange_length. reflexivity.
  - apply nrange_nth, Hi.
  - lia.
Qed.

Lemma m_get_materialized (x : mpair R) i j : mmaterialized x ->
  i < mv_rows (snd x) -> j < mv_cols (snd x) -> m_get (fst x) i j = mv_get (snd x) i j.
Proof.
  intros H Hi Hj. destruct (mmaterialized_inv x H) as [l [El [Em _]]]. rewrite Em.
  unfold m_get. cbn [m_rows m_cols m_data].
  destruct (N.ltb_spec i (mv_rows (snd x))); [|lia].
  destruct (N.ltb_spec j (mv_cols (snd x))); [|lia]. cbn [andb].
  apply mv_row_major_nth; assumption.
Qed.
End MForms.

Section MOperators.
Context {R : Type} (ops : numops R).

Theorem m_form16_ref_is_matmul form (x y : mpair R) : form < 16 ->
  m_form16_ref (matrix_view_multiplication ops) form x y =
  m_matmul ops (mform_left form x) (mform_right form y).
Proof. intros H. apply form_cases16 in H. all_forms H. Qed.

(* the matrix product only reads the sizes and the in-range elements of its operands *)
Lemma m_matmul_ext (x x' y y' : moperand R) :
  mv_rows (mop_view x) = mv_rows (mop_view x') -> mv_cols (mop_view x) = mv_cols (mop_view x') ->
  mv_rows (mop_view y) = mv_rows (mop_view y') -> mv_cols (mop_view y) = mv_cols (mop_view y') ->
  (forall i j, i < mv_rows (mop_view x) -> j < mv_cols (mop_view x) ->
               mv_get (mop_view x) i j = mv_get (mop_view x') i j) ->
  (forall i j, i < mv_rows (mop_view y) -> j < mv_cols (mop_view y) ->
               mv_get (mop_view y) i j = mv_get (mop_view y') i j) ->
  m_matmul ops x y = m_matmul ops x' y'.
Proof.
  intros Rx Cx Ry Cy Gx Gy. unfold m_matmul. rewrite <- Rx, <- Cx, <- Ry, <- Cy.
  destruct (negb (mv_cols (mop_view x) =? mv_rows (mop_view y))); [reflexivity|].
  destruct ((mv_rows (mop_view x) =? 0) || (mv_cols (mop_view y) =? 0)); [reflexivity|].
  f_equal. apply otraverse_ext. intros [i j] Hin. apply in_flat_map in Hin.
  destruct Hin as [i' [Hi Hin]]. apply in_map_iff in Hin. destruct Hin as [j' [E Hj]].
  injection E as -> ->. apply in_nrange in Hi. apply in_nrange in Hj. cbn [fst snd].
  unfold row_iter, column_iter. rewrite <- Cx, <- Ry.
  replace (map (fun k => mv_get (mop_view x') i k) (nrange (mv_cols (mop_view x))))
    with (map (fun k => mv_get (mop_view x) i k) (nrange (mv_cols (mop_view x)))).
  2:{ apply map_ext_in. intros k Hk. apply in_nrange in Hk. apply Gx; assumption. }
  replace (map (fun k => mv_get (mop_view y') k j) (nrange (mv_rows (mop_view y))))
    with (map (fun k => mv_get (mop_view y) k j) (nrange (mv_rows (mop_view y)))).
  2:{ apply map_ext_in. intros k Hk. apply in_nrange in Hk. apply Gy; assumption. }
  reflexivity.
Qed.

Lemma mop_view_container (x : mpair R) : mmaterialized x ->
  mv_rows (mop_view (OM (fst x))) = mv_rows (snd x) /\
  mv_cols (mop_view (OM (fst x))) = mv_cols (snd x).
Proof.
  intros H. destruct (mmaterialized_inv x H) as [l [_ [Em _]]]. rewrite Em. split; reflexivity.
Qed.

Theorem m_forms16_agree_matmul form (x y : mpair R) :
  mmaterialized x -> mmaterialized y -> form < 16 ->
  m_mul16 ops form x y = m_matmul ops (OMV (snd x)) (OMV (snd y)).
Proof.
  intros Hx Hy H. unfold m_mul16. rewrite m_form16_ref_is_matmul by exact H.
  destruct (mop_view_container x Hx) as [Rx Cx], (mop_view_container y Hy) as [Ry Cy].
  assert (Gx : forall i j, i < mv_rows (mop_view (OM (fst x))) -> j < mv_cols (mop_view (OM (fst x))) ->
                 mv_get (mop_view (OM (fst x))) i j = mv_get (snd x) i j).
  { intros i j Hi Hj. rewrite Rx in Hi. rewrite Cx in Hj. apply m_get_materialized; assumption. }
  assert (Gy : forall i j, i < mv_rows (mop_view (OM (fst y))) -> j < mv_cols (mop_view (OM (fst y))) ->
                 mv_get (mop_view (OM (fst y))) i j = mv_get (snd y) i j).
  { intros i j Hi Hj. rewrite Ry in Hi. rewrite Cy in Hj. apply m_get_materialized; assumption. }
  unfold mform_left, mform_right.
  destruct (form <? 8), (form mod 8 <? 4); apply m_matmul_ext; cbn [mop_view]; auto.
Qed.

Theorem m_forms16_agree_add_sub form (x y : mpair R) :
  mmaterialized x -> mmaterialized y -> form < 16 ->
  m_add16 ops form x y = m_add ops (OMV (snd x)) (OMV (snd y)) /\
  m_sub16 ops form x y = m_sub ops (OMV (snd x)) (OMV (snd y)).
Proof. intros Hx Hy H. split; apply m_forms16_agree_zip; assumption. Qed.

Theorem m_scalar8_is_map k form (x : mpair R) s : form < 8 ->
  m_scalar8 ops k form x s = m_scalar ops k (if form <? 4 then OM (fst x) else OMV (snd x)) s.
Proof. intros H. apply form_cases8 in H. all_forms H. Qed.

Theorem m_scalar8_agree k form (x : mpair R) s : mmaterialized x -> form < 8 ->
  m_scalar8 ops k form x s = m_scalar ops k (OMV (snd x)) s.
Proof.
  intros Hx H. rewrite m_scalar8_is_map by exact H. unfold m_scalar.
  destruct (form <? 4); [apply m_map_forms_agree, Hx|reflexivity].
Qed.

Theorem m_neg4_agree form (x : mpair R) : mmaterialized x -> form < 4 ->
  m_neg4 ops form x = m_neg ops (OMV (snd x)).
Proof.
  intros Hx H. apply form_cases4 in H. unfold m_neg.
  repeat (destruct H as [H|H]); subst; cbn [m_neg4];
    unfold neg_matrix_value, neg_matrix_ref, neg_matrix_view_value, neg_matrix_view_ref;
    try reflexivity; apply m_map_forms_agree, Hx.
Qed.
End MOperators.

(* ================================================================ equality *)
Section Equality.
Context {A : Type} (eqb : A -> A -> bool).

(* a view answers every position inside its size *)
Definition mtotal (v : mview A) : Prop :=
  forall i j, i < mv_rows v -> j < mv_cols v -> exists a, mv_get v i j = Some a.

(* the specification: every pair of corresponding elements is equal *)
Definition elems_equal (l r : mview A) : Prop :=
  forall i j, i < mv_rows l -> j < mv_cols l ->
    match mv_get l i j, mv_get r i j with
    | Some u, Some w => eqb u w = true
    | _, _ => False
    end.

Definition rm_pairs (r c : N) : list (N * N) :=
  flat_map (fun i => map (fun j => (i, j)) (nrange c)) (nrange r).
Definition cm_pairs (r c : N) : list (N * N) :=
  flat_map (fun j => map (fun i => (i, j)) (nrange r)) (nrange c).

Lemma in_rm_pairs r c i j : In (i, j) (rm_pairs r c) <-> i < r /\ j < c.
Proof.
  unfold rm_pairs. rewrite in_flat_map. split.
  - intros [i' [Hi Hin]]. apply in_map_iff in Hin. destruct Hin as [j' [E Hj]].
    injection E as -> ->. apply in_nrange in Hi. apply in_nrange in Hj. auto.
  - intros [Hi Hj]. exists i. split; [apply in_nrange, Hi|]. apply in_map_iff. exists j.
    split; [reflexivity|apply in_nrange, Hj].
Qed.
Lemma in_cm_pairs r c i j : In (i, j) (cm_pairs r c) <-> i < r /\ j < c.
Proof.
  unfold cm_pairs. rewrite in_flat_map. split.
  - intros [j' [Hj Hin]]. apply in_map_iff in Hin. destruct Hin as [i' [E Hi]].
    injection E as -> ->. apply in_nrange in Hi. apply in_nrange in Hj. auto.
  - intros [Hi Hj]. exists j. split; [apply in_nrange, Hj|]. apply in_map_iff. exists i.
    split; [reflexivity|apply in_nrange, Hi].
Qed.

Definition get_pair (v : mview A) (ij : N * N) : option A := mv_get v (fst ij) (snd ij).

Lemma mv_row_major_pairs (v : mview A) :
  mv_row_major v = sequence (map (get_pair v) (rm_pairs (mv_rows v) (mv_cols v))).
Proof.
  unfold mv_row_major, rm_pairs. rewrite map_flat_map. f_equal. apply flat_map_ext.
  intros i. rewrite map_map. reflexivity.
Qed.
Lemma mv_column_major_pairs (v : mview A) :
  mv_column_major v = sequence (map (get_pair v) (cm_pairs (mv_rows v) (mv_cols v))).
Proof.
  unfold mv_column_major, cm_pairs. rewrite map_flat_map. f_equal. apply flat_map_ext.
  intros j. rewrite map_map. reflexivity.
Qed.

(* zip(..).all(==) over two walks of the same positions is the conjunction over the positions *)
Lemma zip_all_seq {X} (g h : X -> option A) xs : forall a b,
  sequence (map g xs) = Some a -> sequence (map h xs) = Some b ->
  zip_all eqb a b =
  forallb (fun x => match g x, h x with Some u, Some w => eqb u w | _, _ => false end) xs.
Proof.
  unfold zip_all. induction xs as [|x xs IH]; cbn [map sequence forallb]; intros a b Ha Hb.
  - injection Ha as <-. reflexivity.
  - destruct (g x) as [u|]; [|discriminate]. destruct (h x) as [w|]; [|discriminate].
    destruct (sequence (map g xs)) as [a'|]; [|discriminate].
    destruct (sequence (map h xs)) as [b'|]; [|discriminate].
    injection Ha as <-. injection Hb as <-. cbn [combine forallb fst snd]. f_equal.
    apply IH; reflexivity.
Qed.

Lemma equality_path (l r : mview A) xs a b :
  (forall i j, In (i, j) xs <-> i < mv_rows l /\ j < mv_cols l) ->
  sequence (map (get_pair l) xs) = Some a -> sequence (map (get_pair r) xs) = Some b ->
  (zip_all eqb a b = true <-> elems_equal l r).
Proof.
  intros Hin Ha Hb. rewrite (zip_all_seq (get_pair l) (get_pair r) xs a b Ha Hb).
  rewrite forallb_forall. unfold elems_equal, get_pair. split.
  - intros H i j Hi Hj. specialize (H (i, j) (proj2 (Hin i j) (conj Hi Hj))). cbn [fst snd] in H.
    destruct (mv_get l i j), (mv_get r i j); try discriminate. exact H.
  - intros H [i j] Hx. apply Hin in Hx. destruct Hx as [Hi Hj]. specialize (H i j Hi Hj).
    cbn [fst snd]. destruct (mv_get l i j), (mv_get r i j); try contradiction. exact H.
Qed.

Lemma pairs_total (v : mview A) xs :
  (forall i j, In (i, j) xs -> i < mv_rows v /\ j < mv_cols v) -> mtotal v ->
  exists a, sequence (map (get_pair v) xs) = Some a.
Proof.
  intros Hin Ht. destruct (sequence_map_total (get_pair v) xs) as [a [Ha _]]; [|eauto].
  intros [i j] Hx. apply Hin in Hx. destruct Hx as [Hi Hj]. apply Ht; assumption.
Qed.

(* matrix_equality answers "same size and all elements equal", whatever the data layouts say *)
Theorem matrix_equality_spec (l : mview A) ll (r : mview A) rl : mtotal l -> mtotal r ->
  exists b, matrix_equality eqb l ll r rl = Ok b /\
    (b = true <-> mv_rows l = mv_rows r /\ mv_cols l = mv_cols r /\ elems_equal l r).
Proof.
  intros Tl Tr. unfold matrix_equality.
  destruct (N.eqb_spec (mv_rows l) (mv_rows r)) as [Er|Er]; cbn [negb].
  2:{ exists false. split; [reflexivity|]. split; [discriminate|intros [H _]; contradiction]. }
  destruct (N.eqb_spec (mv_cols l) (mv_cols r)) as [Ec|Ec]; cbn [negb].
  2:{ exists false. split; [reflexivity|]. split; [discriminate|intros [_ [H _]]; contradiction]. }
  assert (Row : exists b, match mv_row_major l, mv_row_major r with
                          | Some a, Some b => Ok (zip_all eqb a b) | _, _ => Panic end = Ok b /\
                          (b = true <-> elems_equal l r)).
  { rewrite !mv_row_major_pairs, <- Er, <- Ec.
    destruct (pairs_total l (rm_pairs (mv_rows l) (mv_cols l))) as [a Ha];
      [intros i j; apply in_rm_pairs|exact Tl|].
    destruct (pairs_total r (rm_pairs (mv_rows l) (mv_cols l))) as [b Hb];
      [intros i j H; rewrite <- Er, <- Ec; apply in_rm_pairs, H|exact Tr|].
    rewrite Ha, Hb. eexists. split; [reflexivity|].
    apply (equality_path l r (rm_pairs (mv_rows l) (mv_cols l)) a b); auto.
    intros i j. apply in_rm_pairs. }
  assert (Col : exists b, match mv_column_major l, mv_column_major r with
                          | Some a, Some b => Ok (zip_all eqb a b) | _, _ => Panic end = Ok b /\
                          (b = true <-> elems_equal l r)).
  { rewrite !mv_column_major_pairs, <- Er, <- Ec.
    destruct (pairs_total l (cm_pairs (mv_rows l) (mv_cols l))) as [a Ha];
      [intros i j; apply in_cm_pairs|exact Tl|].
    destruct (pairs_total r (cm_pairs (mv_rows l) (mv_cols l))) as [b Hb];
      [intros i j H; rewrite <- Er, <- Ec; apply in_cm_pairs, H|exact Tr|].
    rewrite Ha, Hb. eexists. split; [reflexivity|].
    apply (equality_path l r (cm_pairs (mv_rows l) (mv_cols l)) a b); auto.
    intros i j. apply in_cm_pairs. }
  assert (Fin : forall P : Prop, (P <-> (mv_rows l = mv_rows r /\ mv_cols l = mv_cols r /\ P)))
    by (intros P; tauto).
  destruct ll, rl;
    try (destruct Row as [b [Hb Hs]]; exists b; (split; [exact Hb|]); rewrite Hs; apply Fin).
  destruct Col as [b [Hb Hs]]. exists b. split; [exact Hb|]. rewrite Hs. apply Fin.
Qed.

(* ... so the fast path is immaterial: any two layout answers give the same result *)
Theorem matrix_equality_layout_independent (l : mview A) ll ll' (r : mview A) rl rl' :
  mtotal l -> mtotal r ->
  matrix_equality eqb l ll r rl = matrix_equality eqb l ll' r rl'.
Proof.
  intros Tl Tr.
  destruct (matrix_equality_spec l ll r rl Tl Tr) as [b [Hb Hs]].
  destruct (matrix_equality_spec l ll' r rl' Tl Tr) as [b' [Hb' Hs']].
  rewrite Hb, Hb'. f_equal. destruct b, b'; auto.
  - symmetry. apply Hs'. apply Hs. reflexivity.
  - apply Hs. apply Hs'. reflexivity.
Qed.

Lemma mmaterialized_total (x : mpair A) : mmaterialized x -> mtotal (snd x).
Proof.
  intros [l [El _]] i j Hi Hj. pose proof (mv_row_major_nth (snd x) l i j El Hi Hj) as H.
  destruct (mv_get (snd x) i j) as [a|] eqn:E; [eauto|]. exfalso.
  unfold mv_row_major in El. apply sequence_Some in El.
  assert (Hin : In (mv_get (snd x) i j)
                   (flat_map (fun i => map (fun j => mv_get (snd x) i j) (nrange (mv_cols (snd x))))
                             (nrange (mv_rows (snd x))))).
  { apply in_flat_map. exists i. split; [apply in_nrange, Hi|]. apply in_map_iff. exists j.
    split; [reflexivity|apply in_nrange, Hj]. }
  rewrite El, E in Hin. apply in_map_iff in Hin. destruct Hin as [? [? _]]. discriminate.
Qed.

Lemma container_total (x : mpair A) : mmaterialized x ->
  mtotal (mview_of_matrix (fst x)) /\
  mv_rows (mview_of_matrix (fst x)) = mv_rows (snd x) /\
  mv_cols (mview_of_matrix (fst x)) = mv_cols (snd x) /\
  forall i j, i < mv_rows (snd x) -> j < mv_cols (snd x) ->
    mv_get (mview_of_matrix (fst x)) i j = mv_get (snd x) i j.
Proof.
  intros H. pose proof (mmaterialized_total x H) as Tv.
  destruct (mmaterialized_inv x H) as [l [El [Em _]]].
  assert (Rw : mv_rows (mview_of_matrix (fst x)) = mv_rows (snd x)) by (rewrite Em; reflexivity).
  assert (Cl : mv_cols (mview_of_matrix (fst x)) = mv_cols (snd x)) by (rewrite Em; reflexivity).
  assert (G : forall i j, i < mv_rows (snd x) -> j < mv_cols (snd x) ->
                mv_get (mview_of_matrix (fst x)) i j = mv_get (snd x) i j)
    by (intros i j Hi Hj; apply m_get_materialized; assumption).
  repeat split; auto. intros i j Hi Hj. rewrite Rw in Hi. rewrite Cl in Hj.
  rewrite G by assumption. apply Tv; assumption.
Qed.

Lemma spec_transfer (l l' r r' : mview A) :
  mv_rows l = mv_rows l' -> mv_cols l = mv_cols l' ->
  mv_rows r = mv_rows r' -> mv_cols r = mv_cols r' ->
  (forall i j, i < mv_rows l' -> j < mv_cols l' -> mv_get l i j = mv_get l' i j) ->
  (forall i j, i < mv_rows r' -> j < mv_cols r' -> mv_get r i j = mv_get r' i j) ->
  ((mv_rows l = mv_rows r /\ mv_cols l = mv_cols r /\ elems_equal l r) <->
   (mv_rows l' = mv_rows r' /\ mv_cols l' = mv_cols r' /\ elems_equal l' r')).
Proof.
  intros Rl Cl Rr Cr Gl Gr. unfold elems_equal. rewrite Rl, Cl, Rr, Cr.
  split; intros [Hr [Hc HE]]; (split; [exact Hr|]); (split; [exact Hc|]); intros i j Hi Hj.
  - rewrite <- Gl by assumption. rewrite <- Gr by (rewrite <- ?Hr, <- ?Hc; assumption).
    apply HE; assumption.
  - rewrite Gl by assumption. rewrite Gr by (rewrite <- ?Hr, <- ?Hc; assumption).
    apply HE; assumption.
Qed.

(* the four PartialEq impls (Matrix == Matrix compares the data vectors directly) give one
   answer, the specification's, on operands whose container holds the view's elements *)
Theorem eq4_spec form (x y : epair) :
  mmaterialized (fst x) -> mmaterialized (fst y) -> form < 4 ->
  exists b, m_eq4 eqb form x y = Ok b /\
    (b = true <-> mv_rows (snd (fst x)) = mv_rows (snd (fst y)) /\
                  mv_cols (snd (fst x)) = mv_cols (snd (fst y)) /\
                  elems_equal (snd (fst x)) (snd (fst y))).
Proof.
  destruct x as [[mx vx] lx], y as [[my vy] ly]. cbn [fst snd]. intros Hx Hy H.
  destruct (container_total (mx, vx) Hx) as [Tcx [Rx [Cx Gx]]].
  destruct (container_total (my, vy) Hy) as [Tcy [Ry [Cy Gy]]].
  pose proof (mmaterialized_total (mx, vx) Hx) as Tx.
  pose proof (mmaterialized_total (my, vy) Hy) as Ty. cbn [fst snd] in *.
  apply form_cases4 in H. destruct H as [->|[->|[->| ->]]]; cbn [m_eq4].
  - (* Matrix == Matrix: the data vectors are the views' row-major walks *)
    destruct (mmaterialized_inv (mx, vx) Hx) as [a [Ea [Em _]]].
    destruct (mmaterialized_inv (my, vy) Hy) as [b [Eb [En _]]]. cbn [fst snd] in *.
    destruct (matrix_equality_spec vx RowMajor vy RowMajor Tx Ty) as [c [Hc Hs]].
    exists c. split; [|exact Hs]. rewrite <- Hc. unfold matrix_eq, matrix_equality.
    rewrite Em, En. cbn [m_rows m_cols m_data]. rewrite Ea, Eb. reflexivity.
  - destruct (matrix_equality_spec (mview_of_matrix mx) layout_of_matrix vy ly Tcx Ty) as [c [Hc Hs]].
    exists c. split; [exact Hc|]. rewrite Hs. apply spec_transfer; auto.
  - destruct (matrix_equality_spec vx lx (mview_of_matrix my) layout_of_matrix Tx Tcy) as [c [Hc Hs]].
    exists c. split; [exact Hc|]. rewrite Hs. apply spec_transfer; auto.
  - apply matrix_equality_spec; assumption.
Qed.

Theorem eq4_forms_agree form (x y : epair) :
  mmaterialized (fst x) -> mmaterialized (fst y) -> form < 4 ->
  m_eq4 eqb form x y = m_eq4 eqb 3 x y.
Proof.
  intros Hx Hy H.
  destruct (eq4_spec form x y Hx Hy H) as [b [Hb Hs]].
  destruct (eq4_spec 3 x y Hx Hy) as [b' [Hb' Hs']]; [lia|].
  rewrite Hb, Hb'. f_equal. destruct b, b'; auto.
  - symmetry. apply Hs'. apply Hs. reflexivity.
  - apply Hs. apply Hs'. reflexivity.
Qed.

(* tensor_equality on the same data under one pair of names is the row-major path of
   matrix_equality, hence matrix_equality whatever the layouts *)
Theorem equality_tensor_matrix_agree (l r : mview A) ll rl n0 n1 : mtotal l -> mtotal r ->
  tensor_equality2 eqb (tensor_ref_matrix l n0 n1) (tensor_ref_matrix r n0 n1) =
  matrix_equality eqb l ll r rl.
Proof.
  intros Tl Tr. change (@tensor_ref_matrix A) with (@tview_of_mview A). rewrite (matrix_equality_layout_independent l ll RowMajor r rl RowMajor Tl Tr).
  unfold tensor_equality2, matrix_equality. cbn [tview_of_mview v_shape shape_eqb].
  unfold dim_eqb. cbn [fst snd]. rewrite !Nat.eqb_refl. cbn [andb]. rewrite andb_true_r.
  pose proof (toperand_iter (OMV l) n0 n1) as El. pose proof (toperand_iter (OMV r) n0 n1) as Er.
  cbn [toperand op_iter mop_iter] in El, Er. rewrite El, Er.
  destruct (mv_rows l =? mv_rows r); cbn [negb andb]; [|reflexivity].
  destruct (mv_cols l =? mv_cols r); cbn [negb]; reflexivity.
Qed.
End Equality.

(* ================================================================ non-vacuity *)
(* a 3x2 matrix seen through the column-major transposition is a materialised 2x3 operand whose
   data_layout() is ColumnMajor: equality takes the fast path, form 14 of + walks it row major *)
Example forms_nonvacuous :
  let a := mkMatrix [1; 2; 3; 4; 5; 6]%Z 3 2 in
  let b := mkMatrix [1; 2; 3; 4; 5; 7]%Z 3 2 in
  let x : mpair Z := (mkMatrix [1; 3; 5; 2; 4; 6]%Z 2 3, mv_transpose (mview_of_matrix a)) in
  let y : mpair Z := (mkMatrix [1; 3; 5; 2; 4; 7]%Z 2 3, mv_transpose (mview_of_matrix b)) in
  let cm := layout_transpose layout_of_matrix in
  mmaterialized x /\ mmaterialized y /\ cm = ColumnMajor /\
  m_eq4 Z.eqb 3 (x, cm) (x, cm) = Ok true /\ m_eq4 Z.eqb 3 (x, cm) (y, cm) = Ok false /\
  m_eq4 Z.eqb 0 (x, cm) (y, cm) = Ok false /\ m_eq4 Z.eqb 1 (x, cm) (x, cm) = Ok true /\
  m_add16 Fpops 14 x y = Ok (mkMatrix [2; 6; 10; 4; 8; 13]%Z 2 3) /\
  m_mul16 Fpops 9 (fst y, mview_of_matrix a) x = Ok (mkMatrix [5; 11; 17; 11; 25; 39; 17; 39; 61]%Z 3 3) /\
  (exists t : tensor Z, tensor_from [(0%nat, 2); (1%nat, 3)] [1; 2; 3; 4; 5; 6]%Z = Ok t /\
     tmaterialized (t, view_of_tensor t) /\
     omap (@t_data Z) (t_add16 Fpops 6 (t, view_of_tensor t) (t, view_of_tensor t)) =
       Ok [2; 4; 6; 8; 10; 12]%Z).
Proof.
  cbv zeta. split; [eexists; split; vm_compute; reflexivity|].
  split; [eexists; split; vm_compute; reflexivity|].
  repeat (split; [vm_compute; reflexivity|]).
  destruct (tensor_from [(0%nat, 2); (1%nat, 3)] [1; 2; 3; 4; 5; 6]%Z) as [t| |] eqn:E;
    try (vm_compute in E; discriminate).
  exists t. split; [reflexivity|].
  pose proof E as E'. apply from_agrees in E'. destruct (try_from_inv _ _ _ E') as [Hinv [Hs _]].
  split; [apply plain_tmaterialized; [exact Hinv|rewrite Hs; vm_compute; discriminate]|].
  vm_compute in E. injection E as <-. vm_compute. reflexivity.
Qed.
