(* C13: similarity is symmetric.  If reordering r's dimensions into l's name order makes it equal
   to l, then reordering l's dimensions into r's name order (the inverse permutation) makes it
   equal to r.  Uses the DimensionMappings table facts of Proofs/C01P.v. *)
From Coq Require Import List ZArith NArith Bool Arith Lia Permutation.
From EasyML Require Import Base.Sx Model.Shape Model.Tensor Model.TSource Model.ShapeIter
  Model.Transform Proofs.ShapeP Proofs.C01P Proofs.OdometerP Proofs.C09P Proofs.C13P.
Import ListNotations.
Open Scope N_scope.

Lemma lens_requested tbl (sh : shape) :
  lens_of (map_shape_to_requested tbl sh) = map (fun p => nth p (lens_of sh) 0) (dm_r2s tbl).
Proof.
  unfold map_shape_to_requested, lens_of. rewrite map_map. apply map_ext. intros p.
  symmetry. exact (map_nth snd sh (0%nat, 0) p).
Qed.

Lemma names_requested tbl (sh : shape) :
  names_of (map_shape_to_requested tbl sh) = map (fun p => nth p (names_of sh) 0%nat) (dm_r2s tbl).
Proof.
  unfold map_shape_to_requested, names_of. rewrite map_map. apply map_ext. intros p.
  symmetry. exact (map_nth fst sh (0%nat, 0) p).
Qed.

Section Tables2.
Variables (src req : list name) (tbl tbl' : list (nat * nat)).
Hypothesis Hnd : NoDup src.
Hypothesis Hlen : length req = length src.
Hypothesis Hnew : dm_new src req = Some tbl.
Hypothesis Hnew' : dm_new req src = Some tbl'.

Let Hnd' : NoDup req.
Proof.
  eapply Permutation_NoDup; [|exact Hnd]. apply dm_new_iff_perm; auto. rewrite Hnew. discriminate.
Qed.

(* the tables of the opposite direction are the same two tables, exchanged *)
Lemma tables_flip : dm_s2r tbl' = dm_r2s tbl /\ dm_r2s tbl' = dm_s2r tbl.
Proof.
  pose proof (s2r_length src req tbl Hnew) as L1. pose proof (r2s_length src req tbl Hnew) as L2.
  pose proof (s2r_length req src tbl' Hnew') as L3. pose proof (r2s_length req src tbl' Hnew') as L4.
  split; apply nth_ext with (d := 0%nat) (d' := 0%nat); try lia.
  - rewrite L3. intros d Hd.
    destruct (s2r_spec req src tbl' Hnd' (eq_sym Hlen) Hnew' d Hd) as [_ [Hb He]].
    destruct (r2s_spec src req tbl Hnd Hlen Hnew d ltac:(lia)) as [Hb' He'].
    apply (nth_inj_NoDup src _ _ Hnd); [exact Hb|exact Hb'|congruence].
  - rewrite L4. intros d Hd.
    destruct (r2s_spec req src tbl' Hnd' (eq_sym Hlen) Hnew' d Hd) as [Hb He].
    destruct (s2r_spec src req tbl Hnd Hlen Hnew d ltac:(lia)) as [_ [Hb' He']].
    apply (nth_inj_NoDup req _ _ Hnd'); [exact Hb|exact Hb'|congruence].
Qed.

End Tables2.

Section Access.
Context {A : Type}.
Variable s : tsrc A.
Variable req : list name.
Variable tbl : list (nat * nat).
Hypothesis Hnd : NoDup (names_of (src_shape s)).
Hypothesis Hlen : length req = length (src_shape s).
Hypothesis Hnew : dm_new (names_of (src_shape s)) req = Some tbl.

Let D := length (src_shape s).
Let HlenN : length req = length (names_of (src_shape s)).
Proof. unfold names_of. rewrite map_length. exact Hlen. Qed.

Lemma tbl_lengths : length (dm_s2r tbl) = D /\ length (dm_r2s tbl) = D.
Proof.
  pose proof (s2r_length _ _ _ Hnew) as L1. pose proof (r2s_length _ _ _ Hnew) as L2.
  unfold names_of in L1, L2. rewrite map_length in L1, L2. auto.
Qed.

(* an index of the access, in range of the access' shape, maps to an in-range source index *)
Lemma m2s_in_range idx : in_range idx (lens_of (src_shape (TAccess s tbl))) ->
  in_range (map_dimensions_to_source tbl idx 0) (lens_of (src_shape s)).
Proof.
  intros Hr. destruct tbl_lengths as [L1 L2].
  pose proof (in_range_length _ _ Hr) as Li. cbn [src_shape] in *.
  rewrite lens_requested in *. rewrite map_length, L2 in Li.
  assert (Ll : length (lens_of (src_shape s)) = D) by (unfold lens_of; apply map_length).
  apply in_range_nth.
  - unfold map_dimensions_to_source. rewrite map_length. lia.
  - intros d Hd. rewrite Ll in Hd.
    unfold map_dimensions_to_source. rewrite (nth_map_in _ _ _ _ 0%nat) by lia.
    assert (HdN : (d < length (names_of (src_shape s)))%nat) by (unfold names_of; rewrite map_length; exact Hd).
    destruct (s2r_spec _ _ _ Hnd HlenN Hnew d HdN) as [_ [Hb _]].
    destruct (tables_inverse _ _ _ Hnd HlenN Hnew d HdN) as [Hinv _].
    assert (Hb' : (nth d (dm_s2r tbl) 0 < D)%nat) by (unfold D; rewrite <- Hlen; exact Hb).
    assert (Lm : length idx = length (map (fun p : nat => nth p (lens_of (src_shape s)) 0) (dm_r2s tbl)))
      by (rewrite map_length; lia).
    pose proof (proj1 (in_range_nth idx _ Lm) Hr (nth d (dm_s2r tbl) 0%nat)) as Hk.
    rewrite map_length, L2 in Hk. specialize (Hk Hb').
    rewrite (nth_map_in _ _ _ _ 0%nat) in Hk by (rewrite L2; exact Hb'). rewrite Hinv in Hk. exact Hk.
Qed.

Lemma access_total : src_total s -> src_total (TAccess s tbl).
Proof. intros Ht idx Hr. cbn [src_get]. apply Ht. apply m2s_in_range. exact Hr. Qed.

End Access.

Section Symmetric.
Context {A : Type}.
Variable eqb : A -> A -> bool.
Hypothesis eqb_spec : forall x y, eqb x y = true <-> x = y.

Theorem similarity_sym_imp (l r : tsrc A) :
  src_total l -> src_total r ->
  NoDup (names_of (src_shape l)) -> NoDup (names_of (src_shape r)) ->
  length (src_shape l) = length (src_shape r) ->
  tensor_similarity eqb l r = true -> tensor_similarity eqb r l = true.
Proof.
  intros Tl Tr Ndl Ndr HD Hsim.
  apply similarity_iff in Hsim. destruct Hsim as [tbl [Hnew Heq]].
  set (nl := names_of (src_shape l)) in *. set (nr := names_of (src_shape r)) in *.
  assert (Hlen : length nl = length nr) by (unfold nl, nr, names_of; rewrite !map_length; exact HD).
  assert (Hlen_r : length nl = length (src_shape r)) by (unfold nl, names_of; rewrite map_length; exact HD).
  assert (Hlen_l : length nr = length (src_shape l)) by (unfold nr, names_of; rewrite map_length; lia).
  (* the table of the opposite direction exists *)
  assert (Hperm : Permutation nr nl) by (apply dm_new_iff_perm; auto; rewrite Hnew; discriminate).
  destruct (dm_new nl nr) as [tbl'|] eqn:Hnew'.
  2:{ exfalso. apply (proj2 (dm_new_iff_perm nl nr Ndl (eq_sym Hlen))); [apply Permutation_sym; exact Hperm|exact Hnew']. }
  destruct (tables_flip nr nl tbl tbl' Ndr Hlen Hnew Hnew') as [Fs Fr].
  (* unpack the equality of l with the reordered r *)
  pose proof (access_total r nl tbl Ndr Hlen_r Hnew Tr) as Tacc.
  apply (equality_iff eqb eqb_spec l (TAccess r tbl) Tl Tacc) in Heq. destruct Heq as [Hshape Hget].
  apply similarity_iff. exists tbl'. split; [exact Hnew'|].
  pose proof (access_total l nr tbl' Ndl Hlen_l Hnew' Tl) as Tacc'.
  apply (equality_iff eqb eqb_spec r (TAccess l tbl') Tr Tacc'). clear Tacc Tacc'.
  destruct (tbl_lengths r nl tbl Hnew) as [L1 L2].
  set (D := length (src_shape r)) in *.
  assert (Hinvs : forall d, (d < D)%nat ->
            nth (nth d (dm_s2r tbl) 0%nat) (dm_r2s tbl) 0%nat = d /\
            nth (nth d (dm_r2s tbl) 0%nat) (dm_s2r tbl) 0%nat = d /\
            (nth d (dm_s2r tbl) 0%nat < D)%nat /\ (nth d (dm_r2s tbl) 0%nat < D)%nat).
  { intros d Hd. assert (HdN : (d < length nr)%nat) by (unfold nr, names_of; rewrite map_length; exact Hd).
    destruct (tables_inverse nr nl tbl Ndr Hlen Hnew d HdN) as [I1 I2].
    destruct (s2r_spec nr nl tbl Ndr Hlen Hnew d HdN) as [_ [B1 _]].
    destruct (r2s_spec nr nl tbl Ndr Hlen Hnew d HdN) as [B2 _].
    unfold nr, names_of in B2. rewrite map_length in B2. fold D in B2.
    rewrite Hlen_r in B1. fold D in B1. repeat split; auto. }
  assert (Hshape' : src_shape r = src_shape (TAccess l tbl')).
  { cbn [src_shape] in *. unfold map_shape_to_requested at 1. rewrite Fr, Hshape.
    unfold map_shape_to_requested.
    apply nth_ext with (d := (0%nat, 0)) (d' := (0%nat, 0)).
    - rewrite map_length, L1. reflexivity.
    - fold D. intros d Hd. destruct (Hinvs d Hd) as [I1 [_ [B1 _]]].
      rewrite (nth_map_in _ _ _ _ 0%nat) by lia.
      rewrite (nth_map_in _ _ _ _ 0%nat) by lia. rewrite I1. reflexivity. }
  split; [exact Hshape'|].
  intros idx' Hr'. cbn [src_get].
  pose proof (in_range_length _ _ Hr') as Li'. unfold lens_of in Li'. rewrite map_length in Li'. fold D in Li'.
  (* the index of l that the reordered view of l reads *)
  set (idx := map_dimensions_to_source tbl' idx' 0).
  assert (Hr : in_range idx (lens_of (src_shape l))).
  { apply (m2s_in_range l nr tbl' Ndl Hlen_l Hnew'). rewrite <- Hshape'. exact Hr'. }
  rewrite Hget by exact Hr. cbn [src_get]. f_equal.
  unfold idx, map_dimensions_to_source. rewrite Fs.
  apply nth_ext with (d := 0) (d' := 0).
  - rewrite map_length, L1. lia.
  - rewrite Li'. intros d Hd. destruct (Hinvs d Hd) as [I1 [_ [B1 B2]]].
    rewrite (nth_map_in _ _ _ _ 0%nat) by lia.
    rewrite (nth_map_in _ _ _ _ 0%nat) by (rewrite L2; lia).
    rewrite I1. reflexivity.
Qed.

Theorem similarity_sym (l r : tsrc A) :
  src_total l -> src_total r ->
  NoDup (names_of (src_shape l)) -> NoDup (names_of (src_shape r)) ->
  length (src_shape l) = length (src_shape r) ->
  tensor_similarity eqb l r = tensor_similarity eqb r l.
Proof.
  intros Tl Tr Ndl Ndr HD.
  destruct (tensor_similarity eqb l r) eqn:E1; destruct (tensor_similarity eqb r l) eqn:E2; auto.
  - rewrite (similarity_sym_imp l r) in E2; auto.
  - rewrite (similarity_sym_imp r l) in E1; auto.
Qed.

End Symmetric.

(* "similar exactly when SOME reordering of r's dimensions makes the two equal": any accepted
   ordering that achieves equality is necessarily l's name order *)
Section SomeReordering.
Context {A : Type}.
Variable eqb : A -> A -> bool.

Lemma access_names (s : tsrc A) req tbl :
  NoDup (names_of (src_shape s)) -> length req = length (src_shape s) ->
  dm_new (names_of (src_shape s)) req = Some tbl ->
  names_of (src_shape (TAccess s tbl)) = req.
Proof.
  intros Hnd Hlen Hnew. cbn [src_shape]. rewrite names_requested.
  assert (HlenN : length req = length (names_of (src_shape s))) by (unfold names_of; rewrite map_length; exact Hlen).
  pose proof (r2s_length _ _ _ Hnew) as L.
  apply nth_ext with (d := 0%nat) (d' := 0%nat).
  - rewrite map_length, L. lia.
  - rewrite map_length, L. intros d Hd.
    rewrite (nth_map_in _ _ _ _ 0%nat) by lia.
    destruct (r2s_spec _ _ _ Hnd HlenN Hnew d Hd) as [_ E]. exact E.
Qed.

Theorem similarity_iff_some_reordering (l r : tsrc A) :
  NoDup (names_of (src_shape r)) ->
  (tensor_similarity eqb l r = true <->
   exists dims tbl, length dims = length (src_shape r) /\
                    dm_new (names_of (src_shape r)) dims = Some tbl /\
                    tensor_equality eqb l (TAccess r tbl) = true).
Proof.
  intros Hnd. rewrite similarity_iff. split.
  - intros [tbl [Hnew Heq]]. exists (names_of (src_shape l)), tbl. repeat split; auto.
    pose proof (dm_new_length _ _ _ Hnew) as L.
    assert (Hs : src_shape l = src_shape (TAccess r tbl)).
    { unfold tensor_equality in Heq. apply andb_true_iff in Heq. destruct Heq as [Hs _].
      revert Hs. generalize (src_shape l) (src_shape (TAccess r tbl)).
      induction s as [|[n1 l1] s IH]; intros [|[n2 l2] s'] H; cbn [shape_eqb] in H; try discriminate; [reflexivity|].
      apply andb_true_iff in H. destruct H as [H1 H3]. apply andb_true_iff in H1. destruct H1 as [H1 H2].
      apply Nat.eqb_eq in H1. apply N.eqb_eq in H2. subst. f_equal. apply IH. exact H3. }
    rewrite Hs. cbn [src_shape]. unfold map_shape_to_requested, dm_r2s, names_of.
    rewrite !map_length. unfold names_of in L. rewrite map_length in L. exact L.
  - intros [dims [tbl [Hlen [Hnew Heq]]]].
    assert (Hd : dims = names_of (src_shape l)).
    { rewrite <- (access_names r dims tbl Hnd Hlen Hnew).
      unfold tensor_equality in Heq. apply andb_true_iff in Heq. destruct Heq as [Hs _].
      f_equal. symmetry. revert Hs. generalize (src_shape l) (src_shape (TAccess r tbl)).
      induction s as [|[n1 l1] s IH]; intros [|[n2 l2] s'] H; cbn [shape_eqb] in H; try discriminate; [reflexivity|].
      apply andb_true_iff in H. destruct H as [H1 H3]. apply andb_true_iff in H1. destruct H1 as [H1 H2].
      apply Nat.eqb_eq in H1. apply N.eqb_eq in H2. subst. f_equal. apply IH. exact H3. }
    subst dims. exists tbl. auto.
Qed.

End SomeReordering.
