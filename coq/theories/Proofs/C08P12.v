(* C08, LDL^T (stdlib style): the partial state of the routine reproduces the leading block.
   With (cols, ds) the partial factors after j = length cols columns (`cols_ok` of C08P1.v) of a
   symmetric input, sum_{m<j} l_im l_km d_m = a_ik for every entry with i < j or k < j; and when
   the next pivot a_jj - sum_{m<j} l_jm^2 d_m is zero, also for i = k = j — i.e. the leading
   (j+1) x (j+1) block of A is W D W^T with W of only j columns (used by C08P13.v: such a block is
   singular, so the input is not positive definite). *)
From Coq Require Import List Arith Lia Ring Bool.
From EasyML Require Import Base.Sx Model.Num Model.LinAlg Model.Decomp Proofs.C07P1 Proofs.C08P1
     Proofs.C08P11.
Import ListNotations.

Section Prefix.
Context {R : Type} (ops : numops R).
Hypothesis Rth : ring_theory (nzero ops) (none_ ops) (nadd ops) (nmul ops) (nsub ops) (nneg ops) (@eq R).
Add Ring Rring12 : Rth.
Hypothesis div_mul : forall x, x <> nzero ops -> nmul ops (ndiv ops (none_ ops) x) x = none_ ops.
Notation rO := (nzero ops).
Notation rI := (none_ ops).
Notation "x [+] y" := (nadd ops x y) (at level 50, left associativity).
Notation "x [-] y" := (nsub ops x y) (at level 50, left associativity).
Notation "x [*] y" := (nmul ops x y) (at level 40, left associativity).

Lemma ldlt_prefix_gram_low (a : mat) n cols ds : cols_ok ops a n cols ds ->
  forall i k, i < n -> k < length cols -> k <= i ->
  ldl_sum ops cols ds i k (length cols) = mget ops a i k.
Proof.
  intros [Hl Hok] i k Hi Hk Hki.
  rewrite (ldl_sum_zero_tail ops Rth _ _ _ _ (S k)); [|lia|].
  2:{ intros m Hm Hmn. destruct (Hok m ltac:(lia)) as [_ [_ H3]]. rewrite (H3 k ltac:(lia)).
      destruct (Nat.ltb_spec k m); [reflexivity|lia]. }
  destruct (Hok k Hk) as [H1 [H2 H3]]. cbn [Decomp.ldl_sum].
  rewrite (H3 k ltac:(lia)), (H3 i Hi). rewrite Nat.ltb_irrefl, Nat.eqb_refl.
  destruct (Nat.ltb_spec i k); [lia|]. destruct (Nat.eqb_spec i k) as [->|Hne].
  - rewrite H1. ring.
  - set (s := ldl_sum ops cols ds i k k). set (dk := nth k ds rO) in *.
    transitivity (s [+] (mget ops a i k [-] s) [*] (ndiv ops rI dk [*] dk)); [ring|].
    rewrite div_mul by exact H2. ring.
Qed.

Lemma ldlt_prefix_gram (a : mat) n cols ds : cols_ok ops a n cols ds -> symmetric ops a n ->
  forall i k, i < n -> k < n -> (i < length cols \/ k < length cols) ->
  ldl_sum ops cols ds i k (length cols) = mget ops a i k.
Proof.
  intros Hok Hsym i k Hi Hk Hor.
  destruct (Nat.le_gt_cases k i) as [Hki|Hik].
  - destruct (Nat.lt_ge_cases k (length cols)) as [Hkl|Hkl].
    + apply (ldlt_prefix_gram_low a n cols ds Hok); assumption.
    + destruct Hor as [Hil|Hkl']; lia.
  - rewrite (ldl_sum_comm ops Rth), (Hsym i k Hi Hk).
    apply (ldlt_prefix_gram_low a n cols ds Hok); [assumption| |lia].
    destruct Hor as [Hil|Hkl]; lia.
Qed.

Lemma sub_zero_eq x y : x [-] y = rO -> x = y.
Proof. intros H. transitivity ((x [-] y) [+] y); [ring|]. rewrite H. ring. Qed.

(* with a zero pivot at column j = length cols: the whole leading (j+1) x (j+1) block *)
Lemma ldlt_zero_pivot_gram (a : mat) n cols ds : cols_ok ops a n cols ds -> symmetric ops a n ->
  length cols < n -> ldlt_pivot ops a cols ds = rO ->
  forall i k, i <= length cols -> k <= length cols ->
  ldl_sum ops cols ds i k (length cols) = mget ops a i k.
Proof.
  intros Hok Hsym Hjn Hz i k Hi Hk.
  destruct (Nat.eq_dec i (length cols)) as [Ei|Ni]; [destruct (Nat.eq_dec k (length cols)) as [Ek|Nk]|].
  - subst i k. symmetry. apply sub_zero_eq. exact Hz.
  - apply (ldlt_prefix_gram a n cols ds Hok Hsym); lia.
  - apply (ldlt_prefix_gram a n cols ds Hok Hsym); lia.
Qed.
End Prefix.
